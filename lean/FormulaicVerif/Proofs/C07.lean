import FormulaicVerif.Model.Parts
import FormulaicVerif.Proofs.C19St
import FormulaicVerif.Proofs.C02Pipeline
import Mathlib.Data.List.Basic
import Mathlib.Data.List.Nodup
import Mathlib.Data.List.Forall2
/-! Helper lemmas for C07 (not obligations): sorted drop lists and kept rows, `mapE` as `St.mapV`,
the memoised evaluation loop, the shared cache, locality of C02's pipeline in the cache, and
`_enforce_structure` on its own structure. -/
namespace FormulaicVerif.Proofs.C07
open FormulaicVerif.Model FormulaicVerif.Model.Parts FormulaicVerif.Model.St FormulaicVerif.Spec.Containers
open FormulaicVerif.Proofs.C19 FormulaicVerif.Proofs.C02 FormulaicVerif.Proofs.Scoped

/-! ### lists -/

theorem mem_dedup {x : String} : ∀ {l : List String}, x ∈ dedup l ↔ x ∈ l
  | [] => by simp [dedup]
  | y :: ys => by
    simp only [dedup, List.mem_cons, List.mem_filter, mem_dedup (l := ys)]
    by_cases h : x = y <;> simp [h]

theorem nodup_dedup : ∀ (l : List String), (dedup l).Nodup
  | [] => by simp [dedup]
  | y :: ys => by
    simp only [dedup, List.nodup_cons, List.mem_filter]
    exact ⟨by simp, (nodup_dedup ys).filter _⟩

theorem mem_insertNat {x y : Nat} : ∀ {l : List Nat}, y ∈ insertNat x l ↔ y = x ∨ y ∈ l
  | [] => by simp [insertNat]
  | z :: zs => by
    simp only [insertNat]
    split
    · simp
    · split
      · rename_i h; subst h; simp
      · simp only [List.mem_cons, mem_insertNat (l := zs)]
        constructor
        · rintro (h | h | h) <;> simp [h]
        · rintro (h | h | h) <;> simp [h]

theorem sorted_insertNat (x : Nat) : ∀ {l : List Nat}, l.Pairwise (· < ·) → (insertNat x l).Pairwise (· < ·)
  | [], _ => by simp [insertNat]
  | z :: zs, h => by
    simp only [insertNat]
    rw [List.pairwise_cons] at h
    split
    · rename_i hxz
      refine List.pairwise_cons.mpr ⟨?_, List.pairwise_cons.mpr h⟩
      intro a ha
      simp only [List.mem_cons] at ha
      rcases ha with rfl | ha
      · exact hxz
      · exact Nat.lt_trans hxz (h.1 a ha)
    · split
      · exact List.pairwise_cons.mpr h
      · rename_i h1 h2
        refine List.pairwise_cons.mpr ⟨?_, sorted_insertNat x h.2⟩
        intro a ha
        rcases mem_insertNat.mp ha with rfl | ha
        · omega
        · exact h.1 a ha

theorem mem_sortSet {y : Nat} : ∀ {l : List Nat}, y ∈ sortSet l ↔ y ∈ l
  | [] => by simp [sortSet]
  | x :: xs => by
    have ih := mem_sortSet (y := y) (l := xs)
    simp only [sortSet, List.foldr_cons] at ih ⊢
    rw [mem_insertNat, ih]; simp

theorem sortSet_sorted : ∀ (l : List Nat), (sortSet l).Pairwise (· < ·)
  | [] => by simp [sortSet]
  | x :: xs => by
    have ih := sortSet_sorted xs
    simp only [sortSet, List.foldr_cons] at ih ⊢
    exact sorted_insertNat x ih

theorem sorted_ext : ∀ {a b : List Nat}, a.Pairwise (· < ·) → b.Pairwise (· < ·) → (∀ x, x ∈ a ↔ x ∈ b) → a = b
  | [], [], _, _, _ => rfl
  | [], y :: ys, _, _, h => by have := (h y).mpr (by simp); simp at this
  | x :: xs, [], _, _, h => by have := (h x).mp (by simp); simp at this
  | x :: xs, y :: ys, ha, hb, h => by
    rw [List.pairwise_cons] at ha hb
    have hxy : x = y := by
      have h1 := (h x).mp (by simp)
      have h2 := (h y).mpr (by simp)
      simp only [List.mem_cons] at h1 h2
      rcases h1 with h1 | h1
      · exact h1
      · rcases h2 with h2 | h2
        · exact h2.symm
        · have := ha.1 y h2; have := hb.1 x h1; omega
    subst hxy
    congr 1
    apply sorted_ext ha.2 hb.2
    intro z
    have hz := h z
    simp only [List.mem_cons] at hz
    constructor
    · intro hz'
      rcases hz.mp (.inr hz') with rfl | h'
      · have := ha.1 z hz'; omega
      · exact h'
    · intro hz'
      rcases hz.mpr (.inr hz') with rfl | h'
      · have := hb.1 z hz'; omega
      · exact h'

theorem sortSet_congr {a b : List Nat} (h : ∀ x, x ∈ a ↔ x ∈ b) : sortSet a = sortSet b :=
  sorted_ext (sortSet_sorted a) (sortSet_sorted b) (fun x => by rw [mem_sortSet, mem_sortSet, h])

theorem sortSet_eq_of_sorted {a l : List Nat} (hl : l.Pairwise (· < ·)) (h : ∀ x, x ∈ a ↔ x ∈ l) : sortSet a = l :=
  sorted_ext (sortSet_sorted a) hl (fun x => by rw [mem_sortSet, h])

theorem mem_keptRows {n i : Nat} {d : List Nat} : i ∈ keptRows n d ↔ i < n ∧ i ∉ d := by
  simp [keptRows]

theorem keptRows_sorted (n : Nat) (d : List Nat) : (keptRows n d).Pairwise (· < ·) := by
  unfold keptRows
  exact List.Pairwise.filter _ (List.pairwise_lt_range)

theorem keptRows_length {n : Nat} : ∀ {d : List Nat}, d.Nodup → (∀ i ∈ d, i < n) →
    (keptRows n d).length = n - d.length
  | [], _, _ => by simp [keptRows]
  | x :: xs, hd, hlt => by
    rw [List.nodup_cons] at hd
    have ih := keptRows_length hd.2 (fun i hi => hlt i (by simp [hi]))
    have hx : x ∈ keptRows n xs := mem_keptRows.mpr ⟨hlt x (by simp), hd.1⟩
    have hnd : (keptRows n xs).Nodup := (keptRows_sorted n xs).imp (fun h => Nat.ne_of_lt h)
    have : keptRows n (x :: xs) = (keptRows n xs).erase x := by
      rw [hnd.erase_eq_filter]
      simp only [keptRows, List.filter_filter]
      apply List.filter_congr
      intro i _
      simp only [List.contains_cons, Bool.not_or]
      rfl
    rw [this, List.length_erase_of_mem hx, ih]
    simp only [List.length_cons]
    omega

section mapping

variable {α β ε : Type}

/-! ### `norm` is idempotent -/

theorem rootLast_idem {γ} (xs : List (String × γ)) : rootLast (rootLast xs) = rootLast xs := by
  have hf : ∀ l : List (String × γ), l.filter (fun _ => false) = [] := fun l => by induction l <;> simp_all
  simp [rootLast, List.filter_append, List.filter_filter, hf]

theorem rootLastI_iff : ∀ (l : Items α), RootLastI l ↔ ∀ kv ∈ l, RootLast kv.2
  | [] => by simp [RootLastI]
  | (k, v) :: r => by simp [RootLastI, rootLastI_iff r]

mutual
theorem rootLast_norm : ∀ (v : Val α), RootLast (norm v)
  | .leaf a => by simp [norm, RootLast]
  | .tup vs => by simpa [norm, RootLast] using rootLastT_normT vs
  | .node kvs => by
    simp only [norm, RootLast]
    refine ⟨rootLast_idem _, ?_⟩
    rw [rootLastI_iff]
    intro kv hkv
    exact (rootLastI_iff _).mp (rootLastI_normI kvs) kv ((rootLast_perm _).mem_iff.mp hkv)
theorem rootLastT_normT : ∀ (vs : List (Val α)), RootLastT (normT vs)
  | [] => by simp [normT, RootLastT]
  | v :: vs => by simp [normT, RootLastT, rootLast_norm v, rootLastT_normT vs]
theorem rootLastI_normI : ∀ (kvs : Items α), RootLastI (normI kvs)
  | [] => by simp [normI, RootLastI]
  | (k, v) :: r => by simp [normI, RootLastI, rootLast_norm v, rootLastI_normI r]
end

theorem norm_norm (v : Val α) : norm (norm v) = norm v := norm_of_rootLast _ (rootLast_norm v)

/-! ### `mapE` -/

/-- the value `f` returns on `a` (a default when it raises) -/
def outOf [Inhabited β] (f : α → Except ε β) (a : α) : β :=
  match f a with
  | .ok b => b
  | .error _ => default

theorem outOf_ok [Inhabited β] {f : α → Except ε β} {a : α} {b : β} (h : f a = .ok b) : outOf f a = b := by
  simp [outOf, h]

mutual
theorem mapE_spec [Inhabited β] (f : α → Except ε β) : ∀ (v : Val α) (r : Val β) (ctx : Path),
    mapE f v = .ok r → r = mapV (fun a _ => outOf f a) ctx v ∧ ∀ a ∈ flatten v, f a = .ok (outOf f a)
  | .leaf a, r, ctx, h => by
    simp only [mapE] at h
    cases hf : f a with
    | error e => simp [hf] at h
    | ok b =>
      simp only [hf, Except.ok.injEq] at h
      subst h
      simp [mapV, flatten, outOf_ok hf, hf]
  | .tup vs, r, ctx, h => by
    simp only [mapE] at h
    cases hm : mapET f vs with
    | error e => simp [hm] at h
    | ok rs =>
      simp only [hm, Except.ok.injEq] at h
      subst h
      obtain ⟨h1, h2⟩ := mapET_spec f vs rs ctx 0 hm
      exact ⟨by simp [mapV, h1], by simpa [flatten] using h2⟩
  | .node kvs, r, ctx, h => by
    simp only [mapE] at h
    cases hm : mapEI f kvs with
    | error e => simp [hm] at h
    | ok rs =>
      simp only [hm, Except.ok.injEq] at h
      subst h
      obtain ⟨h1, h2⟩ := mapEI_spec f kvs rs ctx hm
      exact ⟨by simp [mapV, h1], by simpa [flatten] using h2⟩
theorem mapET_spec [Inhabited β] (f : α → Except ε β) : ∀ (vs : List (Val α)) (rs : List (Val β)) (ctx : Path) (i : Nat),
    mapET f vs = .ok rs → rs = mapT (fun a _ => outOf f a) ctx i vs ∧ ∀ a ∈ flattenT vs, f a = .ok (outOf f a)
  | [], rs, ctx, i, h => by
    simp only [mapET, Except.ok.injEq] at h
    subst h; simp [mapT, flattenT]
  | v :: vs, rs, ctx, i, h => by
    simp only [mapET] at h
    cases hv : mapE f v with
    | error e => simp [hv] at h
    | ok b =>
      simp only [hv] at h
      cases hr : mapET f vs with
      | error e => simp [hr] at h
      | ok r' =>
        simp only [hr, Except.ok.injEq] at h
        subst h
        obtain ⟨h1, h2⟩ := mapE_spec f v b (ctx ++ [.idx i]) hv
        obtain ⟨h3, h4⟩ := mapET_spec f vs r' ctx (i + 1) hr
        refine ⟨by simp [mapT, ← h1, ← h3], ?_⟩
        intro a ha
        simp only [flattenT, List.mem_append] at ha
        rcases ha with ha | ha
        · exact h2 a ha
        · exact h4 a ha
theorem mapEI_spec [Inhabited β] (f : α → Except ε β) : ∀ (kvs : Items α) (rs : Items β) (ctx : Path),
    mapEI f kvs = .ok rs → rs = mapI (fun a _ => outOf f a) ctx kvs ∧ ∀ a ∈ flattenI kvs, f a = .ok (outOf f a)
  | [], rs, ctx, h => by
    simp only [mapEI, Except.ok.injEq] at h
    subst h; simp [mapI, flattenI]
  | (k, v) :: r, rs, ctx, h => by
    simp only [mapEI] at h
    cases hv : mapE f v with
    | error e => simp [hv] at h
    | ok b =>
      simp only [hv] at h
      cases hr : mapEI f r with
      | error e => simp [hr] at h
      | ok r' =>
        simp only [hr, Except.ok.injEq] at h
        subst h
        obtain ⟨h1, h2⟩ := mapE_spec f v b (ctx ++ [.key k]) hv
        obtain ⟨h3, h4⟩ := mapEI_spec f r r' ctx hr
        refine ⟨by simp [mapI, ← h1, ← h3], ?_⟩
        intro a ha
        simp only [flattenI, List.mem_append] at ha
        rcases ha with ha | ha
        · exact h2 a ha
        · exact h4 a ha
end

mutual
theorem mapE_ok (f : α → Except ε β) : ∀ (v : Val α), (∀ a ∈ flatten v, ∃ b, f a = .ok b) → ∃ r, mapE f v = .ok r
  | .leaf a, h => by
    obtain ⟨b, hb⟩ := h a (by simp [flatten])
    exact ⟨.leaf b, by simp [mapE, hb]⟩
  | .tup vs, h => by
    obtain ⟨r, hr⟩ := mapET_ok f vs (by simpa [flatten] using h)
    exact ⟨.tup r, by simp [mapE, hr]⟩
  | .node kvs, h => by
    obtain ⟨r, hr⟩ := mapEI_ok f kvs (by simpa [flatten] using h)
    exact ⟨.node (rootLast r), by simp [mapE, hr]⟩
theorem mapET_ok (f : α → Except ε β) : ∀ (vs : List (Val α)), (∀ a ∈ flattenT vs, ∃ b, f a = .ok b) → ∃ r, mapET f vs = .ok r
  | [], _ => ⟨[], by simp [mapET]⟩
  | v :: vs, h => by
    simp only [flattenT, List.mem_append] at h
    obtain ⟨b, hb⟩ := mapE_ok f v (fun a ha => h a (.inl ha))
    obtain ⟨r, hr⟩ := mapET_ok f vs (fun a ha => h a (.inr ha))
    exact ⟨b :: r, by simp [mapET, hb, hr]⟩
theorem mapEI_ok (f : α → Except ε β) : ∀ (kvs : Items α), (∀ a ∈ flattenI kvs, ∃ b, f a = .ok b) → ∃ r, mapEI f kvs = .ok r
  | [], _ => ⟨[], by simp [mapEI]⟩
  | (k, v) :: r, h => by
    simp only [flattenI, List.mem_append] at h
    obtain ⟨b, hb⟩ := mapE_ok f v (fun a ha => h a (.inl ha))
    obtain ⟨r', hr⟩ := mapEI_ok f r (fun a ha => h a (.inr ha))
    exact ⟨(k, b) :: r', by simp [mapEI, hb, hr]⟩
end

/-- members of `flatten (norm v)` are the members of `flatten v` -/
theorem mem_flatten_norm (v : Val α) (a : α) : a ∈ flatten (norm v) ↔ a ∈ flatten v := by
  rw [← flattenP_fst (norm v) [], ← flattenP_fst v []]
  exact ((flattenP_norm_perm v []).map _).mem_iff

/-- on success the leaves of the result are the results on the leaves, in `_flatten` order -/
theorem flatten_mapE [Inhabited β] {f : α → Except ε β} {v : Val α} {r : Val β} (h : mapE f v = .ok r) :
    flatten r = (flatten (norm v)).map (outOf f) ∧ ∀ a ∈ flatten (norm v), f a = .ok (outOf f a) := by
  obtain ⟨h1, h2⟩ := mapE_spec f v r [] h
  refine ⟨?_, fun a ha => h2 a ((mem_flatten_norm v a).mp ha)⟩
  rw [h1, flatten_mapV, ← flattenP_fst (norm v) [], List.map_map]
  rfl

theorem shape_mapE [Inhabited β] {f : α → Except ε β} {v : Val α} {r : Val β} (h : mapE f v = .ok r) :
    shape r = shape (norm v) := by
  rw [(mapE_spec f v r [] h).1, shape_mapV]


end mapping

section evaluation

variable {ν τ : Type}

/-! ### step 1: the memoised evaluation loop -/

theorem evalAll_nil (W : World ν τ) (st0 : TState τ) (s : EvalState ν τ) : evalAll W st0 s [] = .ok s := rfl

theorem evalAll_cons (W : World ν τ) (st0 : TState τ) (s : EvalState ν τ) (e : String) (r : List String) :
    evalAll W st0 s (e :: r) = match evalStep W st0 s e with
      | .error x => .error x
      | .ok s' => evalAll W st0 s' r := by
  unfold evalAll
  cases h : evalStep W st0 s e <;> simp [foldE, h]

/-- what the loop adds to the memo table and to the drop set -/
theorem evalAll_spec (W : World ν τ) (st0 : TState τ) : ∀ (order : List String) (s s' : EvalState ν τ),
    evalAll W st0 s order = .ok s' →
    ∃ new, s'.memo = s.memo ++ new ∧
      (∀ i, i ∈ s'.drop ↔ i ∈ s.drop ∨ ∃ kv ∈ new, i ∈ kv.2.nulls) ∧
      (∀ kv ∈ new, kv.1 ∈ order ∧ kv.1 ∉ s.memo.map (·.1) ∧ ∃ w, W.eval kv.1 st0 = .ok (kv.2, w)) ∧
      (new.map (·.1)).Nodup ∧
      (∀ e ∈ order, e ∈ s.memo.map (·.1) ∨ e ∈ new.map (·.1))
  | [], s, s', h => by
    simp only [evalAll_nil, Except.ok.injEq] at h
    subst h
    exact ⟨[], by simp, by simp, by simp, by simp, by simp⟩
  | e :: r, s, s', h => by
    rw [evalAll_cons] at h
    by_cases hm : s.memo.any (fun kv => kv.1 == e) = true
    · simp only [evalStep, hm, if_true] at h
      obtain ⟨new, h1, h2, h3, h4, h5⟩ := evalAll_spec W st0 r s s' h
      refine ⟨new, h1, h2, ?_, h4, ?_⟩
      · intro kv hkv
        obtain ⟨a, b, c⟩ := h3 kv hkv
        exact ⟨by simp [a], b, c⟩
      · intro x hx
        simp only [List.mem_cons] at hx
        rcases hx with rfl | hx
        · left
          rw [List.any_eq_true] at hm
          obtain ⟨kv, hkv, hk⟩ := hm
          have : kv.1 = x := by simpa using hk
          exact List.mem_map.mpr ⟨kv, hkv, this⟩
        · exact h5 x hx
    · simp only [evalStep, hm, Bool.false_eq_true, if_false] at h
      have hnot : e ∉ s.memo.map (·.1) := by
        intro hc
        apply hm
        obtain ⟨kv, hkv, hk⟩ := List.mem_map.mp hc
        exact List.any_eq_true.mpr ⟨kv, hkv, by simp [hk]⟩
      cases hev : W.eval e st0 with
      | error c => simp [hev] at h
      | ok vw =>
        obtain ⟨v, w⟩ := vw
        simp only [hev] at h
        obtain ⟨new, h1, h2, h3, h4, h5⟩ := evalAll_spec W st0 r _ s' h
        simp only at h1 h2 h3 h5
        refine ⟨(e, v) :: new, by simp [h1], ?_, ?_, ?_, ?_⟩
        · intro i
          rw [h2 i]
          simp only [List.mem_append, List.mem_cons, exists_eq_or_imp]
          constructor
          · rintro ((h | h) | h)
            · exact .inl h
            · exact .inr (.inl h)
            · exact .inr (.inr h)
          · rintro (h | h | h)
            · exact .inl (.inl h)
            · exact .inl (.inr h)
            · exact .inr h
        · intro kv hkv
          simp only [List.mem_cons] at hkv
          rcases hkv with rfl | hkv
          · exact ⟨by simp, hnot, w, hev⟩
          · obtain ⟨a, b, c⟩ := h3 kv hkv
            refine ⟨by simp [a], ?_, c⟩
            intro hc; apply b; simp [hc]
        · simp only [List.map_cons, List.nodup_cons]
          refine ⟨?_, h4⟩
          intro hc
          obtain ⟨kv, hkv, hk⟩ := List.mem_map.mp hc
          have := (h3 kv hkv).2.1
          apply this
          simp [hk]
        · intro x hx
          simp only [List.mem_cons] at hx
          rcases hx with rfl | hx
          · right; simp
          · rcases h5 x hx with h | h
            · simp only [List.map_append, List.map_cons, List.map_nil, List.mem_append, List.mem_singleton] at h
              rcases h with h | h
              · exact .inl h
              · right; simp [h]
            · right; simp [h]

/-- the loop succeeds as soon as every factor it meets evaluates -/
theorem evalAll_ok (W : World ν τ) (st0 : TState τ) : ∀ (order : List String) (s : EvalState ν τ),
    (∀ e ∈ order, ∃ r, W.eval e st0 = .ok r) → ∃ s', evalAll W st0 s order = .ok s'
  | [], s, _ => ⟨s, rfl⟩
  | e :: r, s, h => by
    rw [evalAll_cons]
    by_cases hm : s.memo.any (fun kv => kv.1 == e) = true
    · simp only [evalStep, hm, if_true]
      exact evalAll_ok W st0 r s (fun x hx => h x (by simp [hx]))
    · obtain ⟨⟨v, w⟩, hev⟩ := h e (by simp)
      simp only [evalStep, hm, Bool.false_eq_true, if_false, hev]
      exact evalAll_ok W st0 r _ (fun x hx => h x (by simp [hx]))

/-- starting from an empty table: the table holds exactly the evaluations of the members of `order` -/
theorem evalAll_empty {W : World ν τ} {st0 : TState τ} {order : List String} {d0 : List Nat} {t0 : TState τ}
    {s' : EvalState ν τ} (h : evalAll W st0 ⟨[], d0, t0⟩ order = .ok s') :
    (s'.memo.map (·.1)).Nodup ∧
    (∀ e v, (e, v) ∈ s'.memo ↔ e ∈ order ∧ ∃ w, W.eval e st0 = .ok (v, w)) ∧
    (∀ i, i ∈ s'.drop ↔ i ∈ d0 ∨ ∃ e v, (e, v) ∈ s'.memo ∧ i ∈ v.nulls) := by
  obtain ⟨new, h1, h2, h3, h4, h5⟩ := evalAll_spec W st0 order _ s' h
  simp only [List.nil_append] at h1
  subst h1
  refine ⟨h4, ?_, ?_⟩
  · intro e v
    constructor
    · intro hm
      obtain ⟨a, _, c⟩ := h3 (e, v) hm
      exact ⟨a, c⟩
    · rintro ⟨ho, w, hw⟩
      rcases h5 e ho with h | h
      · simp at h
      · obtain ⟨kv, hkv, hk⟩ := List.mem_map.mp h
        obtain ⟨_, _, w', hw'⟩ := h3 kv hkv
        rw [hk, hw] at hw'
        simp only [Except.ok.injEq, Prod.mk.injEq] at hw'
        have : kv = (e, v) := by rw [← hk, hw'.1]
        rw [← this]; exact hkv
  · intro i
    rw [h2 i]
    simp only
    constructor
    · rintro (h | ⟨kv, hkv, hi⟩)
      · exact .inl h
      · exact .inr ⟨kv.1, kv.2, hkv, hi⟩
    · rintro (h | ⟨e, v, hm, hi⟩)
      · exact .inl h
      · exact .inr ⟨(e, v), hm, hi⟩

/-! ### the shared cache -/

theorem cacheOf_spec (W : World ν τ) (d : List Nat) : ∀ (memo : List (String × Evald ν)) (c : Cache),
    cacheOf W d memo = .ok c →
    (∀ kv ∈ memo, ∃ f, W.encode kv.1 kv.2.values d = .ok f) ∧
    (∀ e, e ∉ memo.map (·.1) → c.get e = .error .keyError) ∧
    ((memo.map (·.1)).Nodup → ∀ e v, (e, v) ∈ memo → ∃ f, W.encode e v.values d = .ok f ∧ c.get e = .ok { f with expr := e })
  | [], c, h => by
    simp only [cacheOf, Except.ok.injEq] at h
    subst h
    simp [Cache.get]
  | (e0, v0) :: r, c, h => by
    simp only [cacheOf] at h
    cases he : W.encode e0 v0.values d with
    | error x => simp [he] at h
    | ok f0 =>
      simp only [he] at h
      cases hr : cacheOf W d r with
      | error x => simp [hr] at h
      | ok c' =>
        simp only [hr, Except.ok.injEq] at h
        subst h
        obtain ⟨h1, h2, h3⟩ := cacheOf_spec W d r c' hr
        refine ⟨?_, ?_, ?_⟩
        · intro kv hkv
          simp only [List.mem_cons] at hkv
          rcases hkv with rfl | hkv
          · exact ⟨f0, he⟩
          · exact h1 kv hkv
        · intro e hne
          simp only [List.map_cons, List.mem_cons, not_or] at hne
          have hb : (e0 == e) = false := by simpa using fun hc => hne.1 hc.symm
          have := h2 e hne.2
          simp only [Cache.get, List.find?_cons, hb] at this ⊢
          exact this
        · intro hnd e v hm
          simp only [List.map_cons, List.nodup_cons] at hnd
          simp only [List.mem_cons, Prod.mk.injEq] at hm
          rcases hm with ⟨rfl, rfl⟩ | hm
          · exact ⟨f0, he, by simp [Cache.get]⟩
          · have hne : e0 ≠ e := by
              intro hc; apply hnd.1; rw [hc]; exact List.mem_map.mpr ⟨(e, v), hm, rfl⟩
            have hb : (e0 == e) = false := by simpa using hne
            obtain ⟨f, hf1, hf2⟩ := h3 hnd.2 e v hm
            refine ⟨f, hf1, ?_⟩
            simp only [Cache.get, List.find?_cons, hb] at hf2 ⊢
            exact hf2

theorem cacheOf_ok (W : World ν τ) (d : List Nat) : ∀ (memo : List (String × Evald ν)),
    (∀ kv ∈ memo, ∃ f, W.encode kv.1 kv.2.values d = .ok f) → ∃ c, cacheOf W d memo = .ok c
  | [], _ => ⟨[], rfl⟩
  | (e0, v0) :: r, h => by
    obtain ⟨f0, hf0⟩ := h (e0, v0) (by simp)
    obtain ⟨c, hc⟩ := cacheOf_ok W d r (fun kv hkv => h kv (by simp [hkv]))
    simp only at hf0
    exact ⟨{ f0 with expr := e0 } :: c, by simp [cacheOf, hf0, hc]⟩

/-- two memo tables with unique keys whose entries agree on `E` give caches that agree on `E` -/
theorem cache_get_congr {W : World ν τ} {d : List Nat} {m1 m2 : List (String × Evald ν)} {c1 c2 : Cache}
    (h1 : cacheOf W d m1 = .ok c1) (h2 : cacheOf W d m2 = .ok c2)
    (n1 : (m1.map (·.1)).Nodup) (n2 : (m2.map (·.1)).Nodup)
    (e : String) (he : ∀ v, (e, v) ∈ m1 ↔ (e, v) ∈ m2) : c1.get e = c2.get e := by
  obtain ⟨_, a2, a3⟩ := cacheOf_spec W d m1 c1 h1
  obtain ⟨_, b2, b3⟩ := cacheOf_spec W d m2 c2 h2
  by_cases hk : e ∈ m1.map (·.1)
  · obtain ⟨kv, hkv, hke⟩ := List.mem_map.mp hk
    have hm1 : (e, kv.2) ∈ m1 := by rw [← hke]; exact hkv
    have hm2 := (he kv.2).mp hm1
    obtain ⟨f, hf, hg⟩ := a3 n1 e kv.2 hm1
    obtain ⟨f', hf', hg'⟩ := b3 n2 e kv.2 hm2
    rw [hf] at hf'
    simp only [Except.ok.injEq] at hf'
    rw [hg, hg', hf']
  · have hk2 : e ∉ m2.map (·.1) := by
      intro hc
      obtain ⟨kv, hkv, hke⟩ := List.mem_map.mp hc
      have : (e, kv.2) ∈ m2 := by rw [← hke]; exact hkv
      exact hk (List.mem_map.mpr ⟨_, (he kv.2).mpr this, rfl⟩)
    rw [a2 e hk, b2 e hk2]

end evaluation

/-! ### the C02 pipeline consults the cache only at the expressions of its own terms -/

theorem evaledFactors_congr {c1 c2 : Cache} : ∀ {t : MTerm}, (∀ e ∈ t, c1.get e = c2.get e) →
    evaledFactors c1 t = evaledFactors c2 t
  | [], _ => rfl
  | e :: r, h => by
    simp only [evaledFactors]
    rw [h e (by simp), evaledFactors_congr (t := r) (fun x hx => h x (by simp [hx]))]

theorem numericalKey_congr {c1 c2 : Cache} : ∀ {t : MTerm}, (∀ e ∈ t, c1.get e = c2.get e) →
    numericalKey c1 t = numericalKey c2 t
  | [], _ => rfl
  | e :: r, h => by
    simp only [numericalKey]
    rw [h e (by simp), numericalKey_congr (t := r) (fun x hx => h x (by simp [hx]))]

theorem clusterLoop_congr {c1 c2 : Cache} : ∀ {ts : List MTerm} (cl : List (List String × List MTerm)),
    (∀ t ∈ ts, ∀ e ∈ t, c1.get e = c2.get e) → clusterLoop c1 cl ts = clusterLoop c2 cl ts
  | [], _, _ => rfl
  | t :: r, cl, h => by
    simp only [clusterLoop]
    rw [numericalKey_congr (h t (by simp))]
    cases numericalKey c2 t with
    | error x => rfl
    | ok k => exact clusterLoop_congr _ (fun t' ht' => h t' (by simp [ht']))

theorem clusterTerms_congr {c1 c2 : Cache} {ts : List MTerm} (b : Bool)
    (h : ∀ t ∈ ts, ∀ e ∈ t, c1.get e = c2.get e) : clusterTerms c1 b ts = clusterTerms c2 b ts := by
  unfold clusterTerms
  rw [clusterLoop_congr [] h]

theorem scopeTerm_congr {c1 c2 : Cache} {t : MTerm} (efr : Bool) (sp : List ST)
    (h : ∀ e ∈ t, c1.get e = c2.get e) : scopeTerm c1 efr sp t = scopeTerm c2 efr sp t := by
  unfold scopeTerm
  rw [evaledFactors_congr h]

theorem getScopedTerms_congr {c1 c2 : Cache} (efr : Bool) : ∀ {ts : List MTerm} (sp : List ST),
    (∀ t ∈ ts, ∀ e ∈ t, c1.get e = c2.get e) → getScopedTerms c1 efr sp ts = getScopedTerms c2 efr sp ts
  | [], _, _ => rfl
  | t :: r, sp, h => by
    simp only [getScopedTerms]
    rw [scopeTerm_congr efr sp (h t (by simp))]
    cases scopeTerm c2 efr sp t with
    | error x => rfl
    | ok p =>
      obtain ⟨sts, sp'⟩ := p
      simp only
      rw [getScopedTerms_congr efr sp' (fun t' ht' => h t' (by simp [ht']))]

theorem encodeFactors_congr {c1 c2 : Cache} : ∀ {sfs : List SF}, (∀ sf ∈ sfs, c1.get sf.expr = c2.get sf.expr) →
    encodeFactors c1 sfs = encodeFactors c2 sfs
  | [], _ => rfl
  | sf :: r, h => by
    simp only [encodeFactors]
    rw [h sf (by simp), encodeFactors_congr (sfs := r) (fun x hx => h x (by simp [hx]))]

theorem scopedTermColumns_congr {c1 c2 : Cache} (v : Variant) (n : Nat) {st : ST}
    (h : ∀ sf ∈ st.factors, c1.get sf.expr = c2.get sf.expr) :
    scopedTermColumns c1 v n st = scopedTermColumns c2 v n st := by
  unfold scopedTermColumns
  rw [encodeFactors_congr h]

theorem termColumns_congr {c1 c2 : Cache} (v : Variant) (n : Nat) : ∀ {sts : List ST} (acc : List Entry),
    (∀ st ∈ sts, ∀ sf ∈ st.factors, c1.get sf.expr = c2.get sf.expr) →
    termColumns c1 v n acc sts = termColumns c2 v n acc sts
  | [], _, _ => rfl
  | st :: r, acc, h => by
    simp only [termColumns]
    rw [scopedTermColumns_congr v n (h st (by simp))]
    cases scopedTermColumns c2 v n st with
    | error x => rfl
    | ok es => exact termColumns_congr v n _ (fun s hs => h s (by simp [hs]))

theorem buildTerms_congr {c1 c2 : Cache} (v : Variant) (n : Nat) : ∀ {scp : List (MTerm × List ST)},
    (∀ x ∈ scp, ∀ st ∈ x.2, ∀ sf ∈ st.factors, c1.get sf.expr = c2.get sf.expr) →
    buildTerms c1 v n scp = buildTerms c2 v n scp
  | [], _ => rfl
  | (t, sts) :: r, h => by
    simp only [buildTerms]
    rw [termColumns_congr v n [] (h (t, sts) (by simp)),
      buildTerms_congr v n (scp := r) (fun x hx => h x (by simp [hx]))]

/-! ### the scoped factors of a term are factors of the term -/

theorem mem_dedupSF {x : SF} : ∀ {l : List SF}, x ∈ dedupSF l → x ∈ l
  | [], h => by simp [dedupSF] at h
  | y :: ys, h => by
    simp only [dedupSF, List.mem_cons, List.mem_filter] at h
    rcases h with rfl | ⟨h, _⟩
    · simp
    · simp [mem_dedupSF h]

theorem spannedChoices_exprs : ∀ {efs : List EvaledFactor} {fs : List SF}, fs ∈ spannedChoices efs →
    ∀ sf ∈ fs, sf.expr ∈ efs.map (·.expr)
  | [], fs, h => by
    simp only [spannedChoices, List.mem_singleton] at h
    subst h; simp
  | f :: r, fs, h => by
    have ih := @spannedChoices_exprs r
    intro sf hsf
    simp only [spannedChoices] at h
    have tail : ∀ fs', fs' ∈ spannedChoices r → sf ∈ fs' → sf.expr ∈ (f :: r).map (·.expr) := by
      intro fs' h1 h2
      simp only [List.map_cons, List.mem_cons]
      exact .inr (ih h1 sf h2)
    have head : ∀ b fs', fs' ∈ spannedChoices r → sf ∈ (⟨f.expr, b⟩ : SF) :: fs' → sf.expr ∈ (f :: r).map (·.expr) := by
      intro b fs' h1 h2
      simp only [List.mem_cons] at h2
      rcases h2 with rfl | h2
      · simp
      · exact tail fs' h1 h2
    cases hk : f.kind with
    | constant v => simp only [hk] at h; exact tail fs h hsf
    | numerical =>
      simp only [hk] at h
      split at h
      · simp only [List.mem_append, List.mem_map] at h
        rcases h with ⟨fs', h1, rfl⟩ | h
        · exact head _ fs' h1 hsf
        · exact tail fs h hsf
      · simp only [List.mem_map] at h
        obtain ⟨fs', h1, rfl⟩ := h
        exact head _ fs' h1 hsf
    | categorical =>
      simp only [hk] at h
      split at h
      · simp only [List.mem_append, List.mem_map] at h
        rcases h with ⟨fs', h1, rfl⟩ | h
        · exact head _ fs' h1 hsf
        · exact tail fs h hsf
      · simp only [List.mem_map] at h
        obtain ⟨fs', h1, rfl⟩ := h
        exact head _ fs' h1 hsf

theorem scopeTerm_exprs {c : Cache} {efr : Bool} {sp : List ST} {t : MTerm} {sts sp' : List ST}
    (h : scopeTerm c efr sp t = .ok (sts, sp')) : ∀ st ∈ sts, ∀ sf ∈ st.factors, sf.expr ∈ t := by
  unfold scopeTerm at h
  cases he : evaledFactors c t with
  | error x => simp [he] at h
  | ok efs =>
    have hsub : ∀ e ∈ efs.map (·.expr), e ∈ t := fun e hm => (evaledFactors_spec he).2.subset hm
    cases efs with
    | nil =>
      simp only [he, Except.ok.injEq, Prod.mk.injEq] at h
      rw [← h.1]; simp
    | cons f r =>
      simp only [he] at h
      cases efr with
      | false =>
        simp only [Bool.false_eq_true, if_false, Except.ok.injEq, Prod.mk.injEq] at h
        rw [← h.1]
        intro st hst sf hsf
        simp only [List.mem_singleton] at hst
        subst hst
        have := mem_dedupSF hsf
        simp only [List.mem_map, List.mem_filter] at this
        obtain ⟨g, ⟨hg, _⟩, rfl⟩ := this
        exact hsub _ (List.mem_map.mpr ⟨g, hg, rfl⟩)
      | true =>
        simp only [if_true] at h
        cases hs : simplify (simplifyFuel (osDiff (spannedBy (f :: r)) sp)) (osDiff (spannedBy (f :: r)) sp) with
        | none => simp [hs] at h
        | some out =>
          simp only [hs, Except.ok.injEq, Prod.mk.injEq] at h
          rw [← h.1]
          refine simplify_all (fun st => ∀ sf ∈ st.factors, sf.expr ∈ t) ?_ _ _ _ hs ?_
          · intro g st hst sf hsf
            have := mem_dedupSF hsf
            simp only [List.mem_map] at this
            obtain ⟨x, hx, rfl⟩ := this
            by_cases hxg : x = g
            · simp only [hxg, if_true]
              rw [← hxg]; exact hst x hx
            · simp only [hxg, if_false]; exact hst x hx
          · intro st hst sf hsf
            have h1 := mem_osOfList (mem_osDiff hst)
            simp only [List.mem_map] at h1
            obtain ⟨fs, hfs, rfl⟩ := h1
            exact hsub _ (spannedChoices_exprs hfs sf (mem_dedupSF hsf))

theorem getScopedTerms_exprs {c : Cache} {efr : Bool} {ts : List MTerm} {sp : List ST}
    {res : List (MTerm × List ST)} (h : getScopedTerms c efr sp ts = .ok res) :
    ∀ x ∈ res, x.1 ∈ ts ∧ ∀ st ∈ x.2, ∀ sf ∈ st.factors, sf.expr ∈ x.1 := by
  obtain ⟨h1, h2⟩ := getScopedTerms_spec h
  intro x hx
  obtain ⟨sp1, sp2, hs⟩ := h2 x hx
  exact ⟨by rw [← h1]; exact List.mem_map.mpr ⟨x, hx, rfl⟩, scopeTerm_exprs hs⟩

/-- the whole pipeline depends on the cache only through its entries for the expressions of the terms -/
theorem buildStructure_congr {c1 c2 : Cache} (o : Opts) (n : Nat) (terms : List MTerm)
    (h : ∀ e ∈ exprsOf terms, c1.get e = c2.get e) :
    buildStructure (cfgOf o n c1 terms) = buildStructure (cfgOf o n c2 terms) := by
  have h' : ∀ t ∈ terms, ∀ e ∈ t, c1.get e = c2.get e :=
    fun t ht e he => h e (List.mem_flatten.mpr ⟨t, ht, he⟩)
  unfold buildStructure
  simp only [cfgOf]
  rw [clusterTerms_congr o.cluster h']
  cases hc : clusterTerms c2 o.cluster terms with
  | error x => rfl
  | ok cl =>
    simp only
    have hcl : ∀ t ∈ cl, ∀ e ∈ t, c1.get e = c2.get e := fun t ht => h' t (clusterTerms_mem hc ht)
    rw [getScopedTerms_congr o.efr [] hcl]
    cases hg : getScopedTerms c2 o.efr [] cl with
    | error x => rfl
    | ok scp =>
      simp only
      rw [buildTerms_congr o.variant n (scp := scp)]
      intro x hx st hst sf hsf
      obtain ⟨hx1, hx2⟩ := getScopedTerms_exprs hg x hx
      exact hcl x.1 hx1 _ (hx2 st hst sf hsf)


/-! ### `_enforce_structure` is the identity on the structure the same columns were recorded from -/

theorem lookupEntry_self {sc : List Entry} (hnd : (sc.map (·.name)).Nodup) {e : Entry} (he : e ∈ sc) :
    lookupEntry sc e.name = .ok e := by
  unfold lookupEntry
  cases hf : sc.find? (fun x => x.name == e.name) with
  | none =>
    have := List.find?_eq_none.mp hf e he
    simp at this
  | some x =>
    have hx := List.mem_of_find?_eq_some hf
    have hn : x.name = e.name := by simpa using List.find?_some hf
    have : x = e := List.inj_on_of_nodup_map hnd hx he hn
    rw [this]

theorem pick_aux (sc : List Entry) (hnd : (sc.map (·.name)).Nodup) : ∀ (suf acc : List Entry), sc = acc ++ suf →
    foldE (pickStep sc) acc (suf.map (·.name)) = .ok (acc ++ suf)
  | [], acc, _ => by simp [foldE]
  | e :: r, acc, h => by
    have he : e ∈ sc := by rw [h]; simp
    have hacc : e.name ∉ acc.map (·.name) := by
      rw [h, List.map_append, List.map_cons] at hnd
      have := (List.nodup_append.mp hnd).2.2
      intro hc
      exact this _ hc _ (by simp) rfl
    simp only [List.map_cons, foldE, pickStep, lookupEntry_self hnd he, dictSet_of_not_mem hacc]
    have := pick_aux sc hnd r (acc ++ [e]) (by rw [h]; simp)
    rw [this]; simp

theorem pick_self {cols : List Entry} (hnd : (cols.map (·.name)).Nodup) : pick cols (cols.map (·.name)) = .ok cols := by
  have := pick_aux cols hnd cols [] (by simp)
  simpa [pick] using this

theorem sameNames_self (cols : List Entry) : sameNames cols (cols.map (·.name)) = true := by
  simp only [sameNames, Bool.and_eq_true, List.all_eq_true, List.any_eq_true]
  refine ⟨?_, ?_⟩
  · intro e he
    simp only [List.contains_eq_mem, List.mem_map, decide_eq_true_eq]
    exact ⟨e, he, rfl⟩
  · intro nm hnm
    obtain ⟨e, he, rfl⟩ := List.mem_map.mp hnm
    exact ⟨e, he, by simp⟩

theorem enforceOne_self (n' : Nat) {r : TermResult} (hnd : (r.cols.map (·.name)).Nodup) :
    enforceOne n' r (r.cols.map (·.name)) = .ok r := by
  unfold enforceOne
  simp only [List.length_map, Nat.lt_irrefl, gt_iff_lt, if_false, sameNames_self, Bool.not_true, Bool.false_eq_true,
    pick_self hnd]

theorem enforceLoop_self (n' : Nat) : ∀ (rs : List TermResult), (∀ r ∈ rs, (r.cols.map (·.name)).Nodup) →
    enforceLoop n' rs (termStructs rs) = .ok rs
  | [], _ => rfl
  | r :: rs, h => by
    simp only [termStructs, List.map_cons, enforceLoop, enforceOne_self n' (h r (by simp))]
    have := enforceLoop_self n' rs (fun x hx => h x (by simp [hx]))
    simp only [termStructs] at this
    rw [this]

theorem termColumns_nodup {c : Cache} {v : Variant} {n : Nat} : ∀ {sts : List ST} {acc es : List Entry},
    termColumns c v n acc sts = .ok es → (acc.map (·.name)).Nodup → (es.map (·.name)).Nodup
  | [], acc, es, h, hn => by
    simp only [termColumns, Except.ok.injEq] at h
    subst h; exact hn
  | st :: r, acc, es, h, hn => by
    simp only [termColumns] at h
    cases hs : scopedTermColumns c v n st with
    | error x => simp [hs] at h
    | ok es' =>
      simp only [hs] at h
      exact termColumns_nodup h (foldl_dictSet_nodup es' acc hn)

theorem buildTerms_nodup {c : Cache} {v : Variant} {n : Nat} {scp : List (MTerm × List ST)} {rs : List TermResult}
    (h : buildTerms c v n scp = .ok rs) : ∀ r ∈ rs, (r.cols.map (·.name)).Nodup := by
  intro r hr
  exact termColumns_nodup ((buildTerms_spec h).2 r hr) (by simp)


section parts
variable {ν τ : Type}

instance : Inhabited (PartOut τ) := ⟨⟨⟨[], []⟩, ⟨[], none, []⟩⟩⟩

theorem mem_iterOrder {pooled perm : List String} {e : String} : e ∈ iterOrder pooled perm ↔ e ∈ pooled := by
  simp only [iterOrder, mem_dedup, List.mem_append, List.mem_filter, List.contains_eq_mem, decide_eq_true_eq]
  constructor
  · rintro (⟨_, h⟩ | h) <;> exact h
  · exact fun h => .inr h

theorem mem_pooledFactors {S : Val (Spec τ)} {e : String} :
    e ∈ pooledFactors S ↔ ∃ s ∈ flatten S, e ∈ exprsOf s.terms := by
  simp [pooledFactors, mem_dedup, List.mem_flatMap]

theorem norm_single (x : Spec τ) : norm (single x) = single x := by
  simp [single, norm, normI, rootLast, isRootKey]

theorem flatten_single (x : Spec τ) : flatten (single x) = [x] := by
  simp [single, flatten, flattenI]

mutual
theorem rootLast_mapV {α β} (f : α → Path → β) : ∀ (v : Val α) (ctx : Path), RootLast (mapV f ctx v)
  | .leaf a, ctx => by simp [mapV, RootLast]
  | .tup vs, ctx => by simpa [mapV, RootLast] using rootLastT_mapT f vs ctx 0
  | .node kvs, ctx => by
    simp only [mapV, RootLast]
    refine ⟨rootLast_idem _, ?_⟩
    rw [rootLastI_iff]
    intro kv hkv
    exact (rootLastI_iff _).mp (rootLastI_mapI f kvs ctx) kv ((rootLast_perm _).mem_iff.mp hkv)
theorem rootLastT_mapT {α β} (f : α → Path → β) : ∀ (vs : List (Val α)) (ctx : Path) (i : Nat), RootLastT (mapT f ctx i vs)
  | [], ctx, i => by simp [mapT, RootLastT]
  | v :: vs, ctx, i => by simp [mapT, RootLastT, rootLast_mapV f v, rootLastT_mapT f vs]
theorem rootLastI_mapI {α β} (f : α → Path → β) : ∀ (kvs : Items α) (ctx : Path), RootLastI (mapI f ctx kvs)
  | [], ctx => by simp [mapI, RootLastI]
  | (k, v) :: r, ctx => by simp [mapI, RootLastI, rootLast_mapV f v, rootLastI_mapI f r]
end

/-! ### one part -/

theorem buildPart_spec {o : Opts} {n : Nat} {cache : Cache} {drop : List Nat} {st : TState τ} {spec : Spec τ}
    {p : PartOut τ} (h : buildPart o n cache drop st spec = .ok p) :
    ∃ rs, buildRows o (n - drop.length) cache spec = .ok rs ∧
      p.matrix = ⟨keptRows n drop, combineColumns o.asDict (allColumns rs)⟩ ∧
      (∀ c ∈ p.matrix.cols, c.col.length = n - drop.length) ∧
      p.spec = ⟨spec.terms, some (recordedStruct spec rs),
        St.dictUpdate spec.state st⟩ := by
  unfold buildPart at h
  simp only at h
  cases hr : buildRows o (n - drop.length) cache spec with
  | error e => simp [hr] at h
  | ok rs =>
    simp only [hr] at h
    split at h
    · rename_i hall
      simp only [Except.ok.injEq] at h
      subst h
      refine ⟨rs, rfl, rfl, ?_, rfl⟩
      intro c hc
      have := List.all_eq_true.mp hall c hc
      simpa using this
    · simp at h

theorem buildRows_congr (o : Opts) (n' : Nat) {c1 c2 : Cache} (spec : Spec τ)
    (h : ∀ e ∈ exprsOf spec.terms, c1.get e = c2.get e)
    (hs : ∀ str, spec.struct = some str → ∀ s ∈ str, ∀ st ∈ s.sts, ∀ sf ∈ st.factors, c1.get sf.expr = c2.get sf.expr) :
    buildRows o n' c1 spec = buildRows o n' c2 spec := by
  unfold buildRows
  cases hstr : spec.struct with
  | none => simp only; rw [buildStructure_congr o n' spec.terms h]
  | some str =>
    simp only
    have h' : ∀ t ∈ spec.terms, ∀ e ∈ t, c1.get e = c2.get e :=
      fun t ht e he => h e (List.mem_flatten.mpr ⟨t, ht, he⟩)
    rw [clusterTerms_congr o.cluster h', buildTerms_congr o.variant n']
    intro x hx st hst sf hsf
    obtain ⟨s, hs1, rfl⟩ := List.mem_map.mp hx
    exact hs str hstr s hs1 st hst sf hsf

/-- the same part built from two caches that agree where the part looks: same matrix, same
recorded structure (the transform state handed in is only copied into the spec) -/
theorem buildPart_congr (o : Opts) (n : Nat) {c1 c2 : Cache} (drop : List Nat) (st1 st2 : TState τ) (spec : Spec τ)
    (h : ∀ e ∈ exprsOf spec.terms, c1.get e = c2.get e)
    (hs : ∀ str, spec.struct = some str → ∀ s ∈ str, ∀ st ∈ s.sts, ∀ sf ∈ st.factors, c1.get sf.expr = c2.get sf.expr)
    {p : PartOut τ} (hp : buildPart o n c1 drop st1 spec = .ok p) :
    ∃ p', buildPart o n c2 drop st2 spec = .ok p' ∧ p'.matrix = p.matrix ∧ p'.spec.struct = p.spec.struct ∧
      p'.spec.terms = p.spec.terms ∧ p'.spec.state = St.dictUpdate spec.state st2 := by
  obtain ⟨rs, h1, h2, h3, h4⟩ := buildPart_spec hp
  rw [buildRows_congr o _ spec h hs] at h1
  have hall : (combineColumns o.asDict (allColumns rs)).all (fun e => e.col.length == n - drop.length) = true := by
    rw [List.all_eq_true]
    intro c hc
    have := h3 c (by rw [h2]; exact hc)
    simpa using this
  refine ⟨⟨⟨keptRows n drop, combineColumns o.asDict (allColumns rs)⟩,
      ⟨spec.terms, some (recordedStruct spec rs), St.dictUpdate spec.state st2⟩⟩,
    by simp only [buildPart, h1, hall, if_true], ?_, ?_, ?_, ?_⟩
  · rw [h2]
  · rw [h4]
  · rw [h4]
  · rfl

/-- rebuilding from the structure the first build recorded gives the same columns -/
theorem rebuild_same (o : Opts) (n' : Nat) (cache : Cache) {a : Spec τ} (ha : a.struct = none) {rs : List TermResult}
    (h : buildRows o n' cache a = .ok rs) (st : TState τ) :
    buildRows o n' cache ⟨a.terms, some (termStructs rs), st⟩ = .ok rs := by
  unfold buildRows at h
  simp only [ha] at h
  cases hb : buildStructure (cfgOf o n' cache a.terms) with
  | error e => simp [hb] at h
  | ok rs' =>
    simp only [hb, Except.ok.injEq] at h
    subst h
    obtain ⟨terms, scp, hc, hg, hbt⟩ := buildStructure_spec hb
    simp only [cfgOf] at hc hg hbt
    have hmap : (termStructs rs').map (fun s => (s.term, s.sts)) = scp := by
      rw [← (buildTerms_spec hbt).1]
      simp [termStructs, List.map_map, Function.comp_def]
    simp only [buildRows, hc, hmap, hbt]
    exact enforceLoop_self n' rs' (buildTerms_nodup hbt)

/-- the scoped factors recorded by a first build are factors of the part's own terms -/
theorem recorded_exprs (o : Opts) (n' : Nat) (cache : Cache) {a : Spec τ} (ha : a.struct = none) {rs : List TermResult}
    (h : buildRows o n' cache a = .ok rs) :
    ∀ s ∈ termStructs rs, ∀ st ∈ s.sts, ∀ sf ∈ st.factors, sf.expr ∈ exprsOf a.terms := by
  unfold buildRows at h
  simp only [ha] at h
  cases hb : buildStructure (cfgOf o n' cache a.terms) with
  | error e => simp [hb] at h
  | ok rs' =>
    simp only [hb, Except.ok.injEq] at h
    subst h
    obtain ⟨terms, scp, hc, hg, hbt⟩ := buildStructure_spec hb
    simp only [cfgOf] at hc hg hbt
    intro s hs st hst sf hsf
    obtain ⟨r, hr, rfl⟩ := List.mem_map.mp hs
    have hmem : (r.term, r.sts) ∈ scp := by
      rw [← (buildTerms_spec hbt).1]; exact List.mem_map.mpr ⟨r, hr, rfl⟩
    obtain ⟨h1, h2⟩ := getScopedTerms_exprs hg _ hmem
    exact List.mem_flatten.mpr ⟨r.term, clusterTerms_mem hc h1, h2 st hst sf hsf⟩


theorem evalAll_empty_ok {W : World ν τ} {st0 : TState τ} {order : List String} {d0 : List Nat} {t0 : TState τ}
    {s' : EvalState ν τ} (h : evalAll W st0 ⟨[], d0, t0⟩ order = .ok s') :
    ∀ e ∈ order, ∃ v w, W.eval e st0 = .ok (v, w) ∧ (e, v) ∈ s'.memo := by
  obtain ⟨new, h1, _, h3, _, h5⟩ := evalAll_spec W st0 order _ s' h
  simp only [List.nil_append] at h1
  subst h1
  intro e he
  rcases h5 e he with h | h
  · simp at h
  · obtain ⟨kv, hkv, hk⟩ := List.mem_map.mp h
    obtain ⟨_, _, w, hw⟩ := h3 kv hkv
    refine ⟨kv.2, w, by rw [← hk]; exact hw, by rw [← hk]; exact hkv⟩

theorem memo_fun {memo : List (String × Evald ν)} (hnd : (memo.map (·.1)).Nodup) {e : String} {v v' : Evald ν}
    (h1 : (e, v) ∈ memo) (h2 : (e, v') ∈ memo) : v = v' := by
  have := List.inj_on_of_nodup_map hnd h1 h2 rfl
  exact (Prod.mk.inj this).2

/-- unfolding of a successful joint run -/
theorem materialize_spec {W : World ν τ} {o : Opts} {F : Val (Spec τ)} {perm : List String} {caller : List Nat}
    {j : Joint ν τ} (h : materialize W o F perm caller = .ok j) :
    ∃ cache,
      evalAll W (pooledState (norm F)) ⟨[], caller, pooledState (norm F)⟩
        (iterOrder (pooledFactors (norm F)) perm) = .ok ⟨j.memo, j.dropSet, j.state⟩ ∧
      j.drop = sortSet j.dropSet ∧ cacheOf W j.drop j.memo = .ok cache ∧
      mapE (buildPart o W.nrows cache j.drop j.state) (norm F) = .ok j.parts ∧ flatten (norm F) ≠ [] := by
  unfold materialize at h
  simp only at h
  split at h
  · simp at h
  · rename_i hne
    cases he : evalAll W (pooledState (norm F)) ⟨[], caller, pooledState (norm F)⟩
        (iterOrder (pooledFactors (norm F)) perm) with
    | error e => simp [he] at h
    | ok s =>
      simp only [he] at h
      cases hc : cacheOf W (sortSet s.drop) s.memo with
      | error e => simp [hc] at h
      | ok cache =>
        simp only [hc] at h
        cases hm : mapE (buildPart o W.nrows cache (sortSet s.drop) s.state) (norm F) with
        | error e => simp [hm] at h
        | ok parts =>
          simp only [hm, Except.ok.injEq] at h
          subst h
          exact ⟨cache, rfl, rfl, hc, hm, by simpa using hne⟩

/-- what the joint run knows about its memo table and its drop set -/
theorem joint_facts {W : World ν τ} {o : Opts} {F : Val (Spec τ)} {perm : List String} {caller : List Nat}
    {j : Joint ν τ} (h : materialize W o F perm caller = .ok j) :
    (j.memo.map (·.1)).Nodup ∧
    (∀ e v, (e, v) ∈ j.memo ↔ e ∈ pooledFactors (norm F) ∧ ∃ w, W.eval e (pooledState (norm F)) = .ok (v, w)) ∧
    (∀ i, i ∈ j.dropSet ↔ i ∈ caller ∨ ∃ e v, (e, v) ∈ j.memo ∧ i ∈ v.nulls) ∧
    (∀ e ∈ pooledFactors (norm F), ∃ v w, W.eval e (pooledState (norm F)) = .ok (v, w) ∧ (e, v) ∈ j.memo) ∧
    (∀ i, i ∈ j.drop ↔ i ∈ j.dropSet) ∧ j.drop.Pairwise (· < ·) := by
  obtain ⟨cache, he, hd, _, _, _⟩ := materialize_spec h
  obtain ⟨a, b, c⟩ := evalAll_empty he
  have d := evalAll_empty_ok he
  simp only [mem_iterOrder] at b d
  exact ⟨a, b, c, d, fun i => by rw [hd, mem_sortSet], by rw [hd]; exact sortSet_sorted _⟩

/-- ONE spec materialised on its own, with a sorted drop list `D` that already contains the nulls of
its factors, from a world in which its factors evaluate as they did in a run that produced the memo
table `memo` and the cache `cache`: the result is the part that `cache` and `D` give. -/
theorem one_matches {W : World ν τ} {o : Opts} {memo : List (String × Evald ν)} {D dropSet : List Nat} {cache : Cache}
    (hD : D = sortSet dropSet) (hnd : (memo.map (·.1)).Nodup) (hcache : cacheOf W D memo = .ok cache)
    (hnulls : ∀ e v, (e, v) ∈ memo → ∀ i ∈ v.nulls, i ∈ dropSet)
    (spec' : Spec τ)
    (hev : ∀ e ∈ exprsOf spec'.terms, ∃ v w, (e, v) ∈ memo ∧ W.eval e (pooledState (single spec')) = .ok (v, w))
    (hstr : ∀ str, spec'.struct = some str → ∀ s ∈ str, ∀ st ∈ s.sts, ∀ sf ∈ st.factors, sf.expr ∈ exprsOf spec'.terms)
    (stJ : TState τ) {p : PartOut τ} (hp : buildPart o W.nrows cache D stJ spec' = .ok p) (perm' : List String) :
    ∃ p', materializeOne W o spec' perm' D = .ok (p', D) ∧ p'.matrix = p.matrix ∧
      p'.spec.struct = p.spec.struct ∧ p'.spec.terms = p.spec.terms := by
  have hpool : ∀ e, e ∈ pooledFactors (single spec') ↔ e ∈ exprsOf spec'.terms := by
    intro e; simp [mem_pooledFactors, flatten_single]
  have hok : ∀ e ∈ iterOrder (pooledFactors (single spec')) perm', ∃ r, W.eval e (pooledState (single spec')) = .ok r := by
    intro e he
    obtain ⟨v, w, _, hw⟩ := hev e ((hpool e).mp (mem_iterOrder.mp he))
    exact ⟨_, hw⟩
  obtain ⟨s', hs'⟩ := evalAll_ok W (pooledState (single spec')) _
    ⟨[], D, pooledState (single spec')⟩ hok
  obtain ⟨nd', hm', hd'⟩ := evalAll_empty hs'
  simp only [mem_iterOrder, hpool] at hm'
  -- the new memo table holds the same evaluations
  have hagree : ∀ e v, (e, v) ∈ s'.memo ↔ (e ∈ exprsOf spec'.terms ∧ (e, v) ∈ memo) := by
    intro e v
    rw [hm']
    constructor
    · rintro ⟨he, w, hw⟩
      obtain ⟨v0, w0, hmem, hw0⟩ := hev e he
      rw [hw] at hw0
      simp only [Except.ok.injEq, Prod.mk.injEq] at hw0
      exact ⟨he, by rw [hw0.1]; exact hmem⟩
    · rintro ⟨he, hmem⟩
      obtain ⟨v0, w0, hmem0, hw0⟩ := hev e he
      have := memo_fun hnd hmem hmem0
      exact ⟨he, w0, by rw [this]; exact hw0⟩
  have hDs : D.Pairwise (· < ·) := by rw [hD]; exact sortSet_sorted _
  have hdrop : sortSet s'.drop = D := by
    apply sortSet_eq_of_sorted hDs
    intro i
    rw [hd']
    constructor
    · rintro (h | ⟨e, v, hmem, hi⟩)
      · exact h
      · rw [hD, mem_sortSet]
        exact hnulls e v ((hagree e v).mp hmem).2 i hi
    · exact fun h => .inl h
  have henc : ∀ kv ∈ s'.memo, ∃ f, W.encode kv.1 kv.2.values D = .ok f := by
    intro kv hkv
    exact (cacheOf_spec W D memo cache hcache).1 kv ((hagree kv.1 kv.2).mp hkv).2
  obtain ⟨c', hc'⟩ := cacheOf_ok W D s'.memo henc
  have hget : ∀ e ∈ exprsOf spec'.terms, cache.get e = c'.get e := by
    intro e he
    apply cache_get_congr hcache hc' hnd nd' e
    intro v
    rw [hagree e v]
    exact ⟨fun h => ⟨he, h⟩, fun h => h.2⟩
  obtain ⟨p', hp', e1, e2, e3, _⟩ := buildPart_congr o W.nrows D stJ s'.state spec' hget
    (fun str hs s hs1 st hst sf hsf => hget _ (hstr str hs s hs1 st hst sf hsf)) hp
  refine ⟨p', ?_, e1, e2, e3⟩
  have hne : (flatten (single spec')).isEmpty = false := by simp [flatten_single]
  simp only [materializeOne, materialize, norm_single, hne, Bool.false_eq_true, if_false, hs', hdrop, hc']
  simp [single, mapE, mapEI, hp', rootLast, isRootKey]


theorem dedup_of_nodup : ∀ {l : List String}, l.Nodup → dedup l = l
  | [], _ => rfl
  | x :: xs, h => by
    rw [List.nodup_cons] at h
    simp only [dedup, dedup_of_nodup h.2]
    congr 1
    rw [List.filter_eq_self]
    intro a ha
    have : a ≠ x := fun hc => h.1 (hc ▸ ha)
    simpa using this

theorem dedup_append : ∀ (l m : List String), dedup (l ++ m) = dedup l ++ (dedup m).filter (fun e => !l.contains e)
  | [], m => by simp [dedup]
  | x :: xs, m => by
    simp only [List.cons_append, dedup, dedup_append xs m, List.filter_append, List.filter_filter]
    congr 2
    apply List.filter_congr
    intro a _
    simp only [List.contains_cons, Bool.not_or]
    by_cases h : a = x
    · subst h; simp
    · have : (a == x) = false := by simpa using h
      simp [h, this]

theorem iterOrder_of_enumeration {pooled l : List String} (hl : l.Nodup) (h : ∀ e, e ∈ l ↔ e ∈ pooled) :
    iterOrder pooled l = l := by
  have h1 : l.filter (fun e => pooled.contains e) = l := by
    rw [List.filter_eq_self]; intro a ha; simpa using (h a).mp ha
  have h2 : (dedup pooled).filter (fun e => !l.contains e) = [] := by
    rw [List.filter_eq_nil_iff]
    intro a ha
    have := (h a).mpr (mem_dedup.mp ha)
    simpa using this
  rw [iterOrder, h1, dedup_append, h2, dedup_of_nodup hl, List.append_nil]

theorem pooledState_fresh {S : Val (Spec τ)} (h : ∀ s ∈ flatten S, s.state = []) : pooledState S = [] := by
  unfold pooledState
  generalize flatten S = l at h
  induction l with
  | nil => rfl
  | cons a r ih =>
    simp only [List.foldl_cons, h a (by simp)]
    exact ih (fun s hs => h s (by simp [hs]))

theorem pooledState_single_fresh {a : Spec τ} (h : a.state = []) : pooledState (single a) = [] :=
  pooledState_fresh (by simp [flatten_single, h])

theorem buildPart_of_rows {o : Opts} {n : Nat} {cache : Cache} {drop : List Nat} (st : TState τ) {spec : Spec τ}
    {rs : List TermResult} (h : buildRows o (n - drop.length) cache spec = .ok rs)
    (hlen : ∀ c ∈ combineColumns o.asDict (allColumns rs), c.col.length = n - drop.length) :
    buildPart o n cache drop st spec = .ok ⟨⟨keptRows n drop, combineColumns o.asDict (allColumns rs)⟩,
      ⟨spec.terms, some (recordedStruct spec rs), St.dictUpdate spec.state st⟩⟩ := by
  have hall : (combineColumns o.asDict (allColumns rs)).all (fun e => e.col.length == n - drop.length) = true := by
    rw [List.all_eq_true]; intro c hc; simpa using hlen c hc
  simp only [buildPart, h, hall, if_true]


/-- a part built from a formula leaf can be rebuilt from the spec it carries, with the same cache -/
theorem replay_part {o : Opts} {n : Nat} {cache : Cache} {drop : List Nat} {stJ : TState τ} {a : Spec τ}
    (ha : a.struct = none) {p : PartOut τ} (hp : buildPart o n cache drop stJ a = .ok p) (st : TState τ) :
    ∃ p2, buildPart o n cache drop st p.spec = .ok p2 ∧ p2.matrix = p.matrix ∧ p2.spec.struct = p.spec.struct ∧
      p2.spec.terms = p.spec.terms ∧ p.spec.terms = a.terms ∧
      (∀ str, p.spec.struct = some str → ∀ s ∈ str, ∀ st ∈ s.sts, ∀ sf ∈ st.factors, sf.expr ∈ exprsOf p.spec.terms) := by
  obtain ⟨rs, hrows, hmat, hlen, hspec⟩ := buildPart_spec hp
  have hrec : recordedStruct a rs = termStructs rs := by simp [recordedStruct, ha]
  have hrows' := rebuild_same o (n - drop.length) cache ha hrows (St.dictUpdate a.state stJ)
  have hspec' : p.spec = ⟨a.terms, some (termStructs rs), St.dictUpdate a.state stJ⟩ := by rw [hspec, hrec]
  have hps : p.spec.struct = some (termStructs rs) := by rw [hspec']
  have hb2 := buildPart_of_rows (n := n) (drop := drop) st hrows' (fun c hc => hlen c (by rw [hmat]; exact hc))
  rw [← hspec'] at hb2
  refine ⟨_, hb2, by rw [hmat], ?_, rfl, by rw [hspec'], ?_⟩
  · show some (recordedStruct p.spec rs) = p.spec.struct
    simp only [recordedStruct, hps]
  · intro str hs s hs1 st' hst sf hsf
    rw [hps] at hs
    simp only [Option.some.injEq] at hs
    subst hs
    have := recorded_exprs o _ cache ha hrows s hs1 st' hst sf hsf
    rw [hspec']; exact this


end parts

section paths
variable {α β : Type}

/-! ### tuple paths -/

theorem lookup_map_val {γ δ} (g : γ → δ) (k : String) : ∀ (xs : List (String × γ)),
    (xs.map (fun kv => (kv.1, g kv.2))).lookup k = (xs.lookup k).map g
  | [] => rfl
  | (k', v) :: r => by
    by_cases h : k = k'
    · subst h; simp [List.lookup]
    · have hb : (k == k') = false := by simpa using h
      simp [List.lookup, hb, lookup_map_val g k r]

theorem normT_getElem? : ∀ (vs : List (Val α)) (i : Nat), (normT vs)[i]? = (vs[i]?).map norm
  | [], i => by simp [normT]
  | v :: vs, 0 => by simp [normT]
  | v :: vs, i + 1 => by simp [normT, normT_getElem? vs i]

theorem mapT_getElem? (f : α → Path → β) : ∀ (vs : List (Val α)) (ctx : Path) (k i : Nat),
    (mapT f ctx k vs)[i]? = (vs[i]?).map (mapV f (ctx ++ [.idx (k + i)]))
  | [], ctx, k, i => by simp [mapT]
  | v :: vs, ctx, k, 0 => by simp [mapT]
  | v :: vs, ctx, k, i + 1 => by
    simp only [mapT, List.getElem?_cons_succ, mapT_getElem? f vs ctx (k + 1) i]
    have : k + 1 + i = k + (i + 1) := by omega
    rw [this]

theorem lookupPath_norm : ∀ (q : Path) (v : Val α), lookupPath q (norm v) = (lookupPath q v).map norm
  | [], v => by simp [lookupPath, Except.map]
  | .key k :: q, .node kvs => by
    simp only [norm, lookupPath, lookup_rootLast, normI_eq, lookup_map_val norm k kvs]
    cases kvs.lookup k with
    | none => simp [Except.map]
    | some v' => simpa using lookupPath_norm q v'
  | .key k :: q, .leaf a => by simp [norm, lookupPath, Except.map]
  | .key k :: q, .tup vs => by simp [norm, lookupPath, Except.map]
  | .idx i :: q, .tup vs => by
    simp only [norm, lookupPath, normT_getElem?]
    cases vs[i]? with
    | none => simp [Except.map]
    | some v' => simpa using lookupPath_norm q v'
  | .idx i :: q, .leaf a => by simp [norm, lookupPath, Except.map]
  | .idx i :: q, .node kvs => by simp [norm, lookupPath, Except.map]

theorem lookupPath_mapV (f : α → Path → β) : ∀ (q : Path) (v : Val α) (ctx : Path),
    lookupPath q (mapV f ctx v) = (lookupPath q v).map (mapV f (ctx ++ q))
  | [], v, ctx => by simp [lookupPath, Except.map]
  | .key k :: q, .node kvs, ctx => by
    simp only [mapV, lookupPath, lookup_rootLast, lookup_mapI]
    cases kvs.lookup k with
    | none => simp [Except.map]
    | some v' =>
      have := lookupPath_mapV f q v' (ctx ++ [.key k])
      simpa using this
  | .key k :: q, .leaf a, ctx => by simp [mapV, lookupPath, Except.map]
  | .key k :: q, .tup vs, ctx => by simp [mapV, lookupPath, Except.map]
  | .idx i :: q, .tup vs, ctx => by
    simp only [mapV, lookupPath, mapT_getElem?, Nat.zero_add]
    cases vs[i]? with
    | none => simp [Except.map]
    | some v' =>
      have := lookupPath_mapV f q v' (ctx ++ [.idx i])
      simpa using this
  | .idx i :: q, .leaf a, ctx => by simp [mapV, lookupPath, Except.map]
  | .idx i :: q, .node kvs, ctx => by simp [mapV, lookupPath, Except.map]

theorem mem_flattenI_of_lookup {k : String} {v : Val α} {a : α} : ∀ {kvs : Items α}, kvs.lookup k = some v →
    a ∈ flatten v → a ∈ flattenI kvs
  | [], h, _ => by simp at h
  | (k', v') :: r, h, ha => by
    by_cases hk : k = k'
    · subst hk
      simp only [List.lookup, beq_self_eq_true, Option.some.injEq] at h
      subst h
      simp [flattenI, ha]
    · have hb : (k == k') = false := by simpa using hk
      simp only [List.lookup, hb] at h
      simp [flattenI, mem_flattenI_of_lookup h ha]

theorem mem_flattenT_of_getElem? {v : Val α} {a : α} : ∀ {vs : List (Val α)} {i : Nat}, vs[i]? = some v →
    a ∈ flatten v → a ∈ flattenT vs
  | [], i, h, _ => by simp at h
  | v' :: vs, 0, h, ha => by
    simp only [List.getElem?_cons_zero, Option.some.injEq] at h
    subst h; simp [flattenT, ha]
  | v' :: vs, i + 1, h, ha => by
    simp only [List.getElem?_cons_succ] at h
    simp [flattenT, mem_flattenT_of_getElem? h ha]

/-- a leaf reached by a tuple path is one of the flattened leaves -/
theorem mem_flatten_of_lookupPath {a : α} : ∀ (q : Path) (v : Val α), lookupPath q v = .ok (.leaf a) → a ∈ flatten v
  | [], v, h => by
    simp only [lookupPath, Except.ok.injEq] at h
    subst h; simp [flatten]
  | .key k :: q, .node kvs, h => by
    simp only [lookupPath] at h
    cases hl : kvs.lookup k with
    | none => simp [hl] at h
    | some v' =>
      simp only [hl] at h
      simp only [flatten]
      exact mem_flattenI_of_lookup hl (mem_flatten_of_lookupPath q v' h)
  | .key k :: q, .leaf b, h => by simp [lookupPath] at h
  | .key k :: q, .tup vs, h => by simp [lookupPath] at h
  | .idx i :: q, .tup vs, h => by
    simp only [lookupPath] at h
    cases hl : vs[i]? with
    | none => simp [hl] at h
    | some v' =>
      simp only [hl] at h
      simp only [flatten]
      exact mem_flattenT_of_getElem? hl (mem_flatten_of_lookupPath q v' h)
  | .idx i :: q, .leaf b, h => by simp [lookupPath] at h
  | .idx i :: q, .node kvs, h => by simp [lookupPath] at h


end paths

end FormulaicVerif.Proofs.C07
