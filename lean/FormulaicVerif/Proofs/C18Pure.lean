import FormulaicVerif.Proofs.C18Hist
import FormulaicVerif.Proofs.C18Order
/-! Helper lemmas for C18 about the value semantics: the environment is append-only and an
operation's outcome depends only on the values of the specs it names. -/
namespace FormulaicVerif.Proofs.C18
open FormulaicVerif.Model.Heap FormulaicVerif.Spec.Purity

variable {F E : Type} (P : Params F E)

theorem pPublish_snd (env env' : List (PSpec F E)) (r : Except Err (List (Part F E × PSpec F E))) :
    (pPublish env r).2 = (pPublish env' r).2 := by
  cases r <;> rfl

theorem pPublish_grow (env : List (PSpec F E)) (r : Except Err (List (Part F E × PSpec F E))) :
    ∃ new, (pPublish env r).1 = env ++ new := by
  cases r with
  | error e => exact ⟨[], by simp [pPublish]⟩
  | ok l => exact ⟨l.map (·.2), rfl⟩

theorem pstep_grow (env : List (PSpec F E)) (op : Op) : ∃ new, (pstep P env op).1 = env ++ new := by
  cases op with
  | newSpec f cfg => exact ⟨[_], rfl⟩
  | update h u =>
    simp only [pstep]
    cases env[h]? with
    | none => exact ⟨[], by simp⟩
    | some s => exact ⟨[_], rfl⟩
  | subset h terms =>
    simp only [pstep]
    cases env[h]? with
    | none => exact ⟨[], by simp⟩
    | some s =>
      simp only
      cases pSubset s terms with
      | error e => exact ⟨[], by simp⟩
      | ok s' => exact ⟨[_], rfl⟩
  | build fs cfg d => exact pPublish_grow _ _
  | call hs u d =>
    simp only [pstep]
    cases lookupAll env hs with
    | none => exact ⟨[], by simp⟩
    | some ss => exact pPublish_grow _ _

theorem lookupAll_congr {α : Type} {l l' : List α} : ∀ (hs : List Nat), (∀ i ∈ hs, l[i]? = l'[i]?) →
    lookupAll l hs = lookupAll l' hs := by
  intro hs
  induction hs with
  | nil => intro _; rfl
  | cons h hs ih =>
    intro hh
    simp only [lookupAll]
    rw [hh h (by simp), ih (fun i hi => hh i (by simp [hi]))]

/-- an operation's outcome is a function of the values of the specs it names -/
theorem pstep_out_congr (env env' : List (PSpec F E)) (op : Op)
    (h : ∀ i ∈ handlesOf op, env[i]? = env'[i]?) : (pstep P env op).2 = (pstep P env' op).2 := by
  cases op with
  | newSpec f cfg => rfl
  | update i u =>
    simp only [pstep]
    rw [h i (by simp [handlesOf])]
    cases env'[i]? <;> rfl
  | subset i terms =>
    simp only [pstep]
    rw [h i (by simp [handlesOf])]
    cases env'[i]? with
    | none => rfl
    | some s => simp only; cases pSubset s terms <;> rfl
  | build fs cfg d => exact pPublish_snd _ _ _
  | call hs u d =>
    simp only [pstep]
    rw [lookupAll_congr hs h]
    cases lookupAll env' hs with
    | none => rfl
    | some ss => exact pPublish_snd _ _ _

theorem getElem?_append_of_lt {α : Type} (l new : List α) {i : Nat} (h : i < l.length) :
    (l ++ new)[i]? = l[i]? := by
  simp [List.getElem?_append_left h]


theorem inv_init : Inv (World.init : World F E) := by
  intro s hs; simp [World.init] at hs

/-- a whole history in copy mode computes the value-level history -/
theorem run_sim : ∀ (h : List Op) (w : World F E), Inv w →
    run P .copy w h = prun P (absW w) h
    ∧ absW (finalWorld P .copy w h) = pfinal P (absW w) h
    ∧ Inv (finalWorld P .copy w h) := by
  intro h
  induction h with
  | nil => intro w hi; exact ⟨rfl, rfl, hi⟩
  | cons op ops ih =>
    intro w hi
    have ss := step_sim P w op hi
    obtain ⟨i1, i2, i3⟩ := ih (step P .copy w op).1 ss.inv
    refine ⟨?_, ?_, i3⟩
    · show (step P .copy w op).2 :: run P .copy (step P .copy w op).1 ops = _
      rw [i1, ss.out, ss.env]; rfl
    · show absW (finalWorld P .copy (step P .copy w op).1 ops) = _
      rw [i2, ss.env]; rfl

/-- the values of the specs handed out before an operation are the same after it -/
theorem absW_step_prefix (w : World F E) (op : Op) (hi : Inv w) {i : Nat} (h : i < w.specs.length) :
    (absW (step P .copy w op).1)[i]? = (absW w)[i]? := by
  have ss := step_sim P w op hi
  obtain ⟨new, hg⟩ := ss.grow
  have hold := absW_frame w (step P .copy w op).1 hi ss.frame
  have : absW (step P .copy w op).1 = absW w ++ new.map (absS (step P .copy w op).1) := by
    unfold absW at *
    rw [hg, List.map_append, hold]
  rw [this]
  exact getElem?_append_of_lt _ _ (by simpa [absW] using h)

/-- an operation gives the same outcome before and after any other operation -/
theorem step_out_stable (w : World F E) (op c : Op) (hi : Inv w)
    (hc : ∀ i ∈ handlesOf c, i < w.specs.length) :
    (step P .copy (step P .copy w op).1 c).2 = (step P .copy w c).2 := by
  have ss := step_sim P w op hi
  rw [(step_sim P _ c ss.inv).out, (step_sim P w c hi).out]
  exact pstep_out_congr P _ _ c (fun i hi' => absW_step_prefix P w op hi (hc i hi'))

theorem replay_stable (c : Op) : ∀ (h : List Op) (w : World F E), Inv w →
    (∀ i ∈ handlesOf c, i < w.specs.length) →
    (step P .copy (finalWorld P .copy w h) c).2 = (step P .copy w c).2 := by
  intro h
  induction h with
  | nil => intro w _ _; rfl
  | cons op ops ih =>
    intro w hi hc
    have ss := step_sim P w op hi
    obtain ⟨new, hg⟩ := ss.grow
    have hc' : ∀ i ∈ handlesOf c, i < (step P .copy w op).1.specs.length := by
      intro i hi'
      have := hc i hi'
      rw [hg, List.length_append]; omega
    show (step P .copy (finalWorld P .copy (step P .copy w op).1 ops) c).2 = _
    rw [ih _ ss.inv hc', step_out_stable P w op c hi hc]

theorem finalWorld_append (mode : Mode) : ∀ (h1 h2 : List Op) (w : World F E),
    finalWorld P mode w (h1 ++ h2) = finalWorld P mode (finalWorld P mode w h1) h2 := by
  intro h1
  induction h1 with
  | nil => intro h2 w; rfl
  | cons op ops ih => intro h2 w; exact ih h2 _

/-- steps 0-3 do not depend on the iteration order of the factor set -/
theorem materialize_order (w : World F E) (ps : List (Spec E)) (d : Data) {o1 o2 : List Factor}
    (h : o1.Perm o2) :
    (materialize P w ps d o1).1 = (materialize P w ps d o2).1
    ∧ (materialize P w ps d o1).2.toOption = (materialize P w ps d o2).2.toOption := by
  cases ps with
  | nil => exact ⟨rfl, rfl⟩
  | cons p0 ps =>
    unfold materialize
    by_cases hc : ((p0 :: ps).all fun p => p.cfg == p0.cfg) = true
    · simp only [hc, if_true]
      have hp := evaluateAll_perm P d p0.cfg.na h ⟨Dict.empty, fun _ => false, pool w (p0 :: ps)⟩
      unfold SameOk at hp
      generalize evaluateAll P d p0.cfg.na ⟨Dict.empty, fun _ => false, pool w (p0 :: ps)⟩ o1 = r1 at hp
      generalize evaluateAll P d p0.cfg.na ⟨Dict.empty, fun _ => false, pool w (p0 :: ps)⟩ o2 = r2 at hp
      cases r1 with
      | error e1 =>
        cases r2 with
        | error e2 => exact ⟨rfl, rfl⟩
        | ok s2 => simp [Except.toOption] at hp
      | ok s1 =>
        cases r2 with
        | error e2 => simp [Except.toOption] at hp
        | ok s2 =>
          simp only [Except.toOption, Option.some.injEq] at hp
          subst hp
          exact ⟨rfl, rfl⟩
    · simp only [hc]
      exact ⟨rfl, rfl⟩

end FormulaicVerif.Proofs.C18
