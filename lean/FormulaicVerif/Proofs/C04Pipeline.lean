import FormulaicVerif.Proofs.C04Columns
import FormulaicVerif.Proofs.Scoped
namespace FormulaicVerif.Proofs.C04
open FormulaicVerif.Model FormulaicVerif.Model.Replay FormulaicVerif.Spec.Replay FormulaicVerif.Spec
open FormulaicVerif.Proofs.C02 FormulaicVerif.Proofs.Scoped

theorem mem_dedupStr {x : String} {l : List String} : x ∈ dedupStr l ↔ x ∈ l := by
  induction l with
  | nil => simp [dedupStr]
  | cons a r ih =>
    simp only [dedupStr, List.mem_cons, List.mem_filter, ih]
    constructor
    · rintro (h | ⟨h, _⟩)
      · exact .inl h
      · exact .inr h
    · rintro (h | h)
      · exact .inl h
      · by_cases hx : x = a
        · exact .inl hx
        · exact .inr ⟨h, by simpa using hx⟩

theorem prepare_fields {s sp : Spec} (h : prepare s = .ok sp) :
    sp.formula = s.formula ∧ sp.transformState = s.transformState ∧ sp.encoderState = s.encoderState ∧
      sp.structure_ = s.structure_ ∧ sp.ensureFullRank = s.ensureFullRank ∧ sp.clusterBy = s.clusterBy := by
  unfold prepare at h
  cases ho : s.output with
  | none => simp only [ho, Except.ok.injEq] at h; subst h; exact ⟨rfl, rfl, rfl, rfl, rfl, rfl⟩
  | some o =>
    simp only [ho] at h
    split at h
    · simp only [Except.ok.injEq] at h; subst h; exact ⟨rfl, rfl, rfl, rfl, rfl, rfl⟩
    · cases h

/-- **Replay commutes with row selection** (any subset, duplication or reordering of rows). -/
theorem materialize_select (env : Env) (spec : Spec) (hr : Ready env spec) (s : TermStruct) (ss : List TermStruct)
    (hst : spec.structure_ = some (s :: ss)) (f : Frame) (spec' : Spec) (m : List Entry)
    (h : materialize env spec f = .ok (spec', m)) (is : List Nat) :
    materialize env spec (f.select is) = .ok (spec', m.map (selEntry is)) := by
  unfold materialize at h ⊢
  cases hp : prepare spec with
  | error e => simp [hp] at h
  | ok sp =>
    obtain ⟨p1, p2, p3, p4, _, _⟩ := prepare_fields hp
    simp only [hp] at h ⊢
    generalize sp.outputOr = output at h ⊢
    cases he : evalFactors env output f (dedupStr sp.formula.flatten) sp.transformState sp.encoderState with
    | error e => simp [he] at h
    | ok r =>
      obtain ⟨cache, ts, es⟩ := r
      have hready : ∀ x ∈ dedupStr sp.formula.flatten, FactorReady env sp.transformState sp.encoderState x := by
        intro x hx
        rw [p2, p3]
        exact hr x (by rw [← p1]; exact mem_dedupStr.1 hx)
      obtain ⟨rfl, rfl, hlen, hsel⟩ := factors_replay env output f _ _ _ hready cache ts es he
      simp only [he, hsel is, p4, hst] at h ⊢
      rw [rehydrateAll_select]
      cases hre : rehydrateAll cache (s :: ss) with
      | error e => simp [hre, Replay.liftM] at h
      | ok scp =>
        simp only [hre, Replay.liftM] at h ⊢
        cases hb : buildTerms cache Variant.fast f.rows.length scp with
        | error e => simp [hb] at h
        | ok rs =>
          simp only [hb] at h
          have hb' := buildTerms_select is f.rows rfl hlen scp rs hb
          have : (f.select is).rows.length = (select is f.rows).length := rfl
          simp only [this, hb']
          have hen := enforce_select is f.rows f.rows.length rfl (s :: ss) rs
          rw [show (rs.map fun r => ({ r with cols := r.cols.map (selEntry is) } : TermResult)) = rs.map (selResult is) from rfl, hen]
          cases hf : enforce f.rows.length (s :: ss) rs with
          | error e => simp [hf] at h
          | ok rs' =>
            simp only [hf, Except.ok.injEq, Prod.mk.injEq] at h
            obtain ⟨rfl, rfl⟩ := h
            simp only [Except.map, Except.ok.injEq, Prod.mk.injEq, true_and]
            rw [allColumns_select, combineColumns_select]

/-! ## names -/

/-- the names of a dictionary update depend on the names only -/
theorem dictSet_names_congr {d d' : List Entry} {e e' : Entry} (hd : d.map (·.name) = d'.map (·.name))
    (he : e.name = e'.name) : (dictSet d e).map (·.name) = (dictSet d' e').map (·.name) := by
  rw [dictSet_names, dictSet_names, hd, he]

theorem dictUpdate_names_congr {d d' new new' : List Entry} (hd : d.map (·.name) = d'.map (·.name))
    (hn : new.map (·.name) = new'.map (·.name)) :
    (dictUpdate d new).map (·.name) = (dictUpdate d' new').map (·.name) := by
  unfold dictUpdate
  induction new generalizing d d' new' with
  | nil =>
    cases new' with
    | nil => exact hd
    | cons a t => cases hn
  | cons e r ih =>
    cases new' with
    | nil => cases hn
    | cons e' r' =>
      simp only [List.map_cons, List.cons.injEq] at hn
      simp only [List.foldl_cons]
      exact ih (dictSet_names_congr hd hn.1) hn.2

theorem findEntry_name {n : String} {l : List Entry} {e : Entry} (h : findEntry n l = some e) : e.name = n := by
  induction l with
  | nil => cases h
  | cons x r ih =>
    simp only [findEntry] at h
    split at h
    · rename_i hx; cases h; exact hx
    · exact ih h

theorem mapE_pick_names {sc : List Entry} {target : List String} {es : List Entry}
    (h : mapE (pickEntry sc) target = .ok es) : es.map (·.name) = target := by
  induction target generalizing es with
  | nil => simp only [mapE, Except.ok.injEq] at h; subst h; rfl
  | cons n t ih =>
    simp only [mapE] at h
    cases hp : pickEntry sc n with
    | error e => simp [hp] at h
    | ok e =>
      simp only [hp] at h
      cases hr : mapE (pickEntry sc) t with
      | error x => simp [hr] at h
      | ok r =>
        simp only [hr, Except.ok.injEq] at h
        subst h
        unfold pickEntry at hp
        cases hf : findEntry n sc with
        | none => simp [hf] at hp
        | some e' =>
          simp only [hf, Except.ok.injEq] at hp
          subst hp
          simp [findEntry_name hf, ih hr]

/-- the entry with a given name and nothing else -/
def nameOnly (n : String) : Entry := ⟨n, [], []⟩

/-- the column names of a replay as a function of the recorded structure and the output type:
per term the recorded names (a `dict`: a repeated name keeps its first position), collated -/
def outNames (asDict : Bool) (ss : List TermStruct) : List String :=
  (combineColumns asDict (ss.flatMap (fun s => dictUpdate [] (s.columns.map nameOnly)))).map (·.name)

theorem enforceTerm_names {n : Nat} {target : List String} {cols es : List Entry}
    (h : enforceTerm n target cols = .ok es) :
    es.map (·.name) = (dictUpdate [] (target.map nameOnly)).map (·.name) := by
  unfold enforceTerm at h
  split at h
  · cases h
  · cases hi : imputeCols n target cols with
    | error e => simp [hi] at h
    | ok sc =>
      simp only [hi] at h
      cases hm : mapE (pickEntry sc) target with
      | error e => simp [hm] at h
      | ok es' =>
        simp only [hm, Except.ok.injEq] at h
        subst h
        apply dictUpdate_names_congr rfl
        rw [mapE_pick_names hm, List.map_map]
        exact (List.map_id' _).symm

theorem enforce_names {n : Nat} {ss : List TermStruct} {rs rs' : List TermResult}
    (h : enforce n ss rs = .ok rs') :
    (allColumns rs').map (·.name) = (ss.flatMap (fun s => dictUpdate [] (s.columns.map nameOnly))).map (·.name) := by
  induction ss generalizing rs rs' with
  | nil =>
    cases rs with
    | nil => simp only [enforce, Except.ok.injEq] at h; subst h; rfl
    | cons r rs => cases h
  | cons s ss ih =>
    cases rs with
    | nil => cases h
    | cons r rs =>
      simp only [enforce] at h
      cases he : enforceTerm n s.columns r.cols with
      | error e => simp [he] at h
      | ok cols =>
        simp only [he] at h
        cases hr : enforce n ss rs with
        | error e => simp [hr] at h
        | ok rest =>
          simp only [hr, Except.ok.injEq] at h
          subst h
          simp only [allColumns, List.flatMap_cons, List.map_append] at ih ⊢
          rw [enforceTerm_names he, ih hr]

theorem combineColumns_names_congr (b : Bool) {l l' : List Entry} (h : l.map (·.name) = l'.map (·.name)) :
    (combineColumns b l).map (·.name) = (combineColumns b l').map (·.name) := by
  unfold combineColumns
  cases b
  · exact h
  · exact dictUpdate_names_congr rfl h

/-- **Names of a replay**: whatever the data, the columns carry the recorded names in the recorded
order. -/
theorem materialize_names (env : Env) (spec : Spec) (s : TermStruct) (ss : List TermStruct)
    (hst : spec.structure_ = some (s :: ss)) (f : Frame) (spec' : Spec) (m : List Entry)
    (h : materialize env spec f = .ok (spec', m)) :
    ∃ sp, prepare spec = .ok sp ∧ m.map (·.name) = outNames (sp.outputOr == "pandas") (s :: ss) := by
  unfold materialize at h
  cases hp : prepare spec with
  | error e => simp [hp] at h
  | ok sp =>
    obtain ⟨_, _, _, p4, _, _⟩ := prepare_fields hp
    refine ⟨sp, rfl, ?_⟩
    simp only [hp] at h
    cases he : evalFactors env sp.outputOr f (dedupStr sp.formula.flatten) sp.transformState sp.encoderState with
    | error e => simp [he] at h
    | ok r =>
      obtain ⟨cache, ts, es⟩ := r
      simp only [he, p4, hst] at h
      cases hre : rehydrateAll cache (s :: ss) with
      | error e => simp [hre, Replay.liftM] at h
      | ok scp =>
        simp only [hre, Replay.liftM] at h
        cases hb : buildTerms cache Variant.fast f.rows.length scp with
        | error e => simp [hb] at h
        | ok rs =>
          simp only [hb] at h
          cases hf : enforce f.rows.length (s :: ss) rs with
          | error e => simp [hf] at h
          | ok rs' =>
            simp only [hf, Except.ok.injEq, Prod.mk.injEq] at h
            obtain ⟨_, rfl⟩ := h
            exact combineColumns_names_congr _ (enforce_names hf)

/-! ## the scoped terms a fit records are in normal form (`ScopedTerm.__init__` de-duplicates) -/

theorem dedupSF_nodup (l : List SF) : (dedupSF l).Nodup := by
  induction l with
  | nil => exact List.nodup_nil
  | cons x xs ih =>
    simp only [dedupSF, List.nodup_cons, List.mem_filter]
    exact ⟨fun h => by simpa using h.2, ih.sublist List.filter_sublist⟩

def NormalST (st : ST) : Prop := dedupSF st.factors = st.factors

theorem normal_new (fs : List SF) (s : Rat) : NormalST (ST.new fs s) :=
  dedupSF_of_nodup (dedupSF_nodup fs)

theorem scopeTerm_normal {c : Cache} {efr : Bool} {spanned : List ST} {t : MTerm} {sts spanned' : List ST}
    (h : scopeTerm c efr spanned t = .ok (sts, spanned')) : ∀ st ∈ sts, NormalST st := by
  unfold scopeTerm at h
  cases he : evaledFactors c t with
  | error x => simp [he] at h
  | ok efs =>
    cases efs with
    | nil =>
      simp only [he, Except.ok.injEq, Prod.mk.injEq] at h
      rw [← h.1]; simp
    | cons f r =>
      simp only [he] at h
      cases efr with
      | false =>
        simp only [Bool.false_eq_true, if_false, Except.ok.injEq, Prod.mk.injEq] at h
        rw [← h.1]
        intro st hst
        simp only [List.mem_singleton] at hst
        subst hst
        exact normal_new _ _
      | true =>
        simp only [if_true] at h
        cases hs : simplify (simplifyFuel (osDiff (spannedBy (f :: r)) spanned)) (osDiff (spannedBy (f :: r)) spanned) with
        | none => simp [hs] at h
        | some out =>
          simp only [hs, Except.ok.injEq, Prod.mk.injEq] at h
          rw [← h.1]
          refine simplify_all NormalST (fun g st _ => normal_new _ _) _ _ _ hs ?_
          intro st hst
          have := mem_osOfList (mem_osDiff hst)
          simp only [List.mem_map] at this
          obtain ⟨fs, _, rfl⟩ := this
          exact normal_new _ _


/-! ## replaying a fit -/

theorem encodeFactors_present {c : Cache} {sfs : List SF} {fss : List (List Item)}
    (h : encodeFactors c sfs = .ok fss) : mapE (checkPresent c) sfs = .ok sfs := by
  induction sfs generalizing fss with
  | nil => rfl
  | cons sf r ih =>
    simp only [encodeFactors] at h
    cases hg : c.get sf.expr with
    | error x => simp [hg] at h
    | ok f =>
      simp only [hg] at h
      cases he : encodeEvaledFactor f sf.reduced with
      | error x => simp [he] at h
      | ok items =>
        simp only [he] at h
        cases hr : encodeFactors c r with
        | error x => simp [hr] at h
        | ok rest =>
          simp only [mapE, checkPresent, hg, ih hr]

theorem rehydrate_of_columns {c : Cache} {v : Variant} {n : Nat} {st : ST} {es : List Entry}
    (hn : NormalST st) (h : scopedTermColumns c v n st = .ok es) : rehydrate c st = .ok st := by
  unfold rehydrate
  have hp : mapE (checkPresent c) st.factors = .ok st.factors := by
    unfold scopedTermColumns at h
    cases hf : st.factors with
    | nil => rfl
    | cons a t =>
      simp only [hf, List.isEmpty_cons, Bool.false_eq_true, if_false] at h
      cases henc : encodeFactors c (a :: t) with
      | error x => simp [henc] at h
      | ok fss => exact encodeFactors_present henc
  simp only [hp, ST.new]
  congr 1
  cases st
  simp only [NormalST] at hn
  simp [hn]

theorem rehydrate_all_of_termColumns {c : Cache} {v : Variant} {n : Nat} (sts : List ST) (acc es : List Entry)
    (hn : ∀ st ∈ sts, NormalST st) (h : termColumns c v n acc sts = .ok es) :
    mapE (rehydrate c) sts = .ok sts := by
  induction sts generalizing acc with
  | nil => rfl
  | cons st r ih =>
    simp only [termColumns] at h
    cases hs : scopedTermColumns c v n st with
    | error x => simp [hs] at h
    | ok es' =>
      simp only [hs] at h
      simp only [mapE, rehydrate_of_columns (hn st (by simp)) hs, ih _ (fun s hs' => hn s (by simp [hs'])) h]

def structOf (r : TermResult) : TermStruct := ⟨r.term, r.sts, r.cols.map (·.name)⟩

theorem rehydrateAll_of_buildTerms {c : Cache} {v : Variant} {n : Nat} (scp : List (MTerm × List ST))
    (rs : List TermResult) (hn : ∀ x ∈ scp, ∀ st ∈ x.2, NormalST st) (h : buildTerms c v n scp = .ok rs) :
    rehydrateAll c (rs.map structOf) = .ok scp := by
  unfold rehydrateAll
  induction scp generalizing rs with
  | nil => simp only [buildTerms, Except.ok.injEq] at h; subst h; rfl
  | cons x rest ih =>
    obtain ⟨t, sts⟩ := x
    simp only [buildTerms] at h
    cases ht : termColumns c v n [] sts with
    | error x => simp [ht] at h
    | ok es =>
      simp only [ht] at h
      cases hr : buildTerms c v n rest with
      | error x => simp [hr] at h
      | ok rs' =>
        simp only [hr, Except.ok.injEq] at h
        subst h
        have h1 := rehydrate_all_of_termColumns sts [] es (hn (t, sts) (by simp)) ht
        simp only [List.map_cons, mapE, rehydrateTerm, structOf, h1,
          ih rs' (fun y hy => hn y (by simp [hy])) hr]

theorem termColumns_nodup {c : Cache} {v : Variant} {n : Nat} (sts : List ST) (acc es : List Entry)
    (ha : (acc.map (·.name)).Nodup) (h : termColumns c v n acc sts = .ok es) : (es.map (·.name)).Nodup := by
  induction sts generalizing acc with
  | nil => simp only [termColumns, Except.ok.injEq] at h; subst h; exact ha
  | cons st r ih =>
    simp only [termColumns] at h
    cases hs : scopedTermColumns c v n st with
    | error x => simp [hs] at h
    | ok es' =>
      simp only [hs] at h
      exact ih _ (foldl_dictSet_nodup es' acc ha) h

theorem sameNames_self (l : List String) : sameNames l l = true := by
  simp [sameNames]

theorem mapE_pick_self (cols : List Entry) (h : (cols.map (·.name)).Nodup) :
    mapE (pickEntry cols) (cols.map (·.name)) = .ok cols := by
  suffices ∀ (pre : List Entry), (∀ e ∈ cols, ∀ p ∈ pre, p.name ≠ e.name) →
      mapE (pickEntry (pre ++ cols)) (cols.map (·.name)) = .ok cols from this [] (by simp)
  induction cols with
  | nil => intro _ _; rfl
  | cons e r ih =>
    intro pre hpre
    simp only [List.map_cons, List.nodup_cons] at h
    have hfind : findEntry e.name (pre ++ e :: r) = some e := by
      induction pre with
      | nil => simp [findEntry]
      | cons p ps ihp =>
        have : ¬ p.name = e.name := hpre e (by simp) p (by simp)
        simp only [List.cons_append, findEntry, this, if_false]
        exact ihp (fun e' he' p' hp' => hpre e' he' p' (by simp [hp']))
    have hrest := ih h.2 (pre ++ [e]) (by
      intro e' he' p hp
      simp only [List.mem_append, List.mem_singleton] at hp
      rcases hp with hp | rfl
      · exact hpre e' (by simp [he']) p hp
      · intro hc
        exact h.1 (hc ▸ List.mem_map_of_mem he'))
    simp only [List.append_assoc, List.singleton_append] at hrest
    simp only [List.map_cons, mapE, pickEntry, hfind, hrest]

theorem enforceTerm_self (n : Nat) (cols : List Entry) (h : (cols.map (·.name)).Nodup) :
    enforceTerm n (cols.map (·.name)) cols = .ok cols := by
  unfold enforceTerm imputeCols
  simp only [List.length_map, gt_iff_lt, Nat.lt_irrefl, if_false, sameNames_self, Bool.not_true,
    Bool.false_eq_true, mapE_pick_self cols h]
  exact congrArg Except.ok (dictOfList_of_nodup cols h)

theorem enforce_self (n : Nat) (rs : List TermResult) (h : ∀ r ∈ rs, (r.cols.map (·.name)).Nodup) :
    enforce n (rs.map structOf) rs = .ok rs := by
  induction rs with
  | nil => rfl
  | cons r rs ih =>
    simp only [List.map_cons, enforce, structOf, enforceTerm_self n r.cols (h r (by simp))]
    have := ih (fun r' hr' => h r' (by simp [hr']))
    rw [this]

theorem prepare_idem {s sp : Spec} (h : prepare s = .ok sp) (st : Option (List TermStruct)) (ts : TStates)
    (es : EStates) :
    prepare { sp with structure_ := st, transformState := ts, encoderState := es }
      = .ok { sp with structure_ := st, transformState := ts, encoderState := es } := by
  unfold prepare at h
  cases ho : s.output with
  | none =>
    simp only [ho, Except.ok.injEq] at h
    subst h
    simp [prepare, registeredOutputs]
  | some o =>
    simp only [ho] at h
    split at h
    · rename_i hreg
      simp only [Except.ok.injEq] at h
      subst h
      simp only [prepare, ho, hreg, if_true]
    · cases h

/-- **A fit, replayed.**  Materialising a spec without structure (a fit) on complete states yields a
spec that is ready for replay, and materialising THAT spec on the same frame reproduces the matrix
and returns the spec unchanged. -/
theorem materialize_fit (env : Env) (spec0 : Spec) (hnone : spec0.structure_ = none)
    (hsc : StatesComplete env spec0.transformState) (f : Frame) (spec' : Spec) (m : List Entry)
    (h : materialize env spec0 f = .ok (spec', m)) :
    Ready env spec' ∧ StatesComplete env spec'.transformState ∧ prepare spec' = .ok spec' ∧
      materialize env spec' f = .ok (spec', m) := by
  unfold materialize at h
  cases hp : prepare spec0 with
  | error e => simp [hp] at h
  | ok sp =>
    obtain ⟨p1, p2, p3, p4, _, _⟩ := prepare_fields hp
    simp only [hp] at h
    cases he : evalFactors env sp.outputOr f (dedupStr sp.formula.flatten) sp.transformState sp.encoderState with
    | error e => simp [he] at h
    | ok r =>
      obtain ⟨cache, ts, es⟩ := r
      obtain ⟨k1, _, _, k4, k5⟩ := factors_stable env sp.outputOr f _ _ _ (p2 ▸ hsc) cache ts es he
      simp only [he, p4, hnone] at h
      cases hb : buildStructure (fitConfig cache sp f.rows.length) with
      | error e => simp [hb, liftS] at h
      | ok rs =>
        simp only [hb, liftS, Except.ok.injEq, Prod.mk.injEq] at h
        obtain ⟨rfl, rfl⟩ := h
        have hprep := prepare_idem hp (some (rs.map structOf)) ts es
        have hstable := k5 ts es (texends_refl _) (extends_refl _)
        refine ⟨?_, k1, hprep, ?_⟩
        · intro x hx
          exact k4 x (mem_dedupStr.2 hx)
        · obtain ⟨terms, scp, hc, hg, hbt0⟩ := buildStructure_spec hb
          have hbt : buildTerms cache Variant.fast f.rows.length scp = .ok rs := hbt0
          have hscp := (buildTerms_spec hbt).1
          unfold materialize
          have hprep' : prepare { sp with
              structure_ := some (rs.map (fun r => (⟨r.term, r.sts, r.cols.map (·.name)⟩ : TermStruct))),
              transformState := ts, encoderState := es } = .ok { sp with
              structure_ := some (rs.map (fun r => (⟨r.term, r.sts, r.cols.map (·.name)⟩ : TermStruct))),
              transformState := ts, encoderState := es } := hprep
          simp only [hprep']
          have hout : ({ sp with
              structure_ := some (rs.map (fun r => (⟨r.term, r.sts, r.cols.map (·.name)⟩ : TermStruct))),
              transformState := ts, encoderState := es } : Spec).outputOr = sp.outputOr := rfl
          simp only [hout, hstable]
          cases rs with
          | nil =>
            have hcfg : ∀ (st : Option (List TermStruct)), fitConfig cache { sp with structure_ := st, transformState := ts, encoderState := es } f.rows.length
                = fitConfig cache sp f.rows.length := fun _ => rfl
            simp only [List.map_nil, hcfg, hb, liftS]
          | cons r rest =>
            simp only [List.map_cons]
            have hnorm : ∀ x ∈ scp, ∀ st ∈ x.2, NormalST st := by
              intro x hx st hst
              obtain ⟨sp1, sp2, hsc'⟩ := (getScopedTerms_spec hg).2 x hx
              exact scopeTerm_normal hsc' st hst
            have hre := rehydrateAll_of_buildTerms scp (r :: rest) hnorm hbt
            have hso : structOf = (fun r => (⟨r.term, r.sts, r.cols.map (·.name)⟩ : TermStruct)) := rfl
            simp only [List.map_cons, hso] at hre
            have hnod : ∀ r' ∈ (r :: rest), (r'.cols.map (·.name)).Nodup := by
              intro r' hr'
              exact termColumns_nodup r'.sts [] r'.cols (by simp) ((buildTerms_spec hbt).2 r' hr')
            have hen := enforce_self f.rows.length (r :: rest) hnod
            simp only [List.map_cons, hso] at hen
            simp only [hre, Replay.liftM, hbt, hen]

/-! ## pickling -/

theorem lookup_filter_key {β : Type} (p : String × β → Bool) (k : String) (l : List (String × β))
    (hk : ∀ v, p (k, v) = true) : (l.filter p).lookup k = l.lookup k := by
  induction l with
  | nil => rfl
  | cons a r ih =>
    obtain ⟨k', v⟩ := a
    by_cases hkk : k = k'
    · subst hkk
      simp [List.filter_cons, hk v, List.lookup]
    · have hne : (k == k') = false := by simpa using hkk
      by_cases hp : p (k', v) = true
      · simp [List.filter_cons, hp, List.lookup, hne, ih]
      · simp [List.filter_cons, hp, List.lookup, hne, ih]

theorem ofDict_getstate (d : PyDict) : Spec.ofDict (restore (getstate d)) = Spec.ofDict d := by
  unfold Spec.ofDict restore getstate
  have h : ∀ k, k ∈ fieldNames → (d.filter (fun kv => fieldNames.contains kv.1)).lookup k = d.lookup k := by
    intro k hk
    apply lookup_filter_key
    intro v
    simpa using hk
  simp only [h "formula" (by decide), h "materializer" (by decide), h "materializer_params" (by decide),
    h "ensure_full_rank" (by decide), h "na_action" (by decide), h "output" (by decide),
    h "cluster_by" (by decide), h "structure" (by decide), h "transform_state" (by decide),
    h "encoder_state" (by decide)]

theorem ofDict_toDict (s : Spec) (extra : PyDict) : Spec.ofDict (s.toDict ++ extra) = some s := by
  cases s
  simp [Spec.ofDict, Spec.toDict, List.lookup]

theorem getstate_keys (d : PyDict) : ∀ kv ∈ getstate d, kv.1 ∈ fieldNames := by
  intro kv h
  unfold getstate at h
  simpa using (List.mem_filter.1 h).2

theorem getstate_keeps (d : PyDict) : ∀ kv ∈ d, kv.1 ∈ fieldNames → kv ∈ getstate d := by
  intro kv h hk
  unfold getstate
  exact List.mem_filter.2 ⟨h, by simpa using hk⟩

/-- a replay on a ready spec returns the (prepared) spec unchanged -/
theorem materialize_unchanged (env : Env) (spec : Spec) (hr : Ready env spec) (s : TermStruct) (ss : List TermStruct)
    (hst : spec.structure_ = some (s :: ss)) (f : Frame) (spec' : Spec) (m : List Entry)
    (h : materialize env spec f = .ok (spec', m)) : prepare spec = .ok spec' := by
  unfold materialize at h
  cases hp : prepare spec with
  | error e => simp [hp] at h
  | ok sp =>
    obtain ⟨p1, p2, p3, p4, _, _⟩ := prepare_fields hp
    simp only [hp] at h
    cases he : evalFactors env sp.outputOr f (dedupStr sp.formula.flatten) sp.transformState sp.encoderState with
    | error e => simp [he] at h
    | ok r =>
      obtain ⟨cache, ts, es⟩ := r
      have hready : ∀ x ∈ dedupStr sp.formula.flatten, FactorReady env sp.transformState sp.encoderState x := by
        intro x hx
        rw [p2, p3]
        exact hr x (by rw [← p1]; exact mem_dedupStr.1 hx)
      obtain ⟨rfl, rfl, _, _⟩ := factors_replay env sp.outputOr f _ _ _ hready cache ts es he
      simp only [he, p4, hst] at h
      cases hre : rehydrateAll cache (s :: ss) with
      | error e => simp [hre, Replay.liftM] at h
      | ok scp =>
        simp only [hre, Replay.liftM] at h
        cases hb : buildTerms cache Variant.fast f.rows.length scp with
        | error e => simp [hb] at h
        | ok rs =>
          simp only [hb] at h
          cases hf : enforce f.rows.length (s :: ss) rs with
          | error e => simp [hf] at h
          | ok rs' =>
            simp only [hf, Except.ok.injEq, Prod.mk.injEq] at h
            obtain ⟨rfl, _⟩ := h
            have hs : sp.structure_ = some (s :: ss) := p4.trans hst
            cases sp
            simp only at hs
            subst hs
            rfl

end FormulaicVerif.Proofs.C04
