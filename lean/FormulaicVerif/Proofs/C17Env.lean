import FormulaicVerif.Proofs.C17Layers
/-! Helper lemmas for C17: the local environment `stateful_eval` builds for back-quoted names.
Not obligations. -/
namespace FormulaicVerif.Proofs.C17
open FormulaicVerif.Model.Variables FormulaicVerif.Model.LMap FormulaicVerif.Spec.Variables
open FormulaicVerif.Proofs.C19 (lookup_dictSet)
variable {ν : Type}

/-- the local `LayeredMapping(env)` with mutations `M` -/
def wrap (L : Layers ν) (M : List (String × ν)) : LM ν :=
  { name := none, muts := M, layers := [L.lm.toLayer] }

theorem wrap_get (L : Layers ν) (M : List (String × ν)) (k : String) :
    (wrap L M).get k = match M.lookup k with | some v => some v | none => valueOf L k := by
  have : L.lm.toLayer.get k = valueOf L k := get_lm L k
  simp only [wrap, LM.get, LM.toLayer, Layer.get, getL] at this ⊢
  cases M.lookup k with
  | some v => rfl
  | none =>
    simp only
    rw [this]
    cases valueOf L k <;> rfl

theorem getNamed_wrapper (l : Layer ν) (M : List (String × ν)) (k : String) :
    (Layer.lm none M [l]).getNamed [] none k =
      match M.lookup k with
      | some v => some (v, none)
      | none => l.getNamed [] none k := by
  have hj : joinPath ([] : List String) = none := rfl
  have n0 : named (none : Option String) = none := rfl
  simp only [Layer.getNamed, n0, hj, getNamedL]
  cases M.lookup k with
  | some v => rfl
  | none => simp only; cases l.getNamed [] none k <;> rfl

theorem wrap_layerName (L : Layers ν) (M : List (String × ν)) (k : String) :
    layerNameFor (wrap L M) k =
      match M.lookup k with
      | some _ => none
      | none => match firstLayer L k with
        | some (_, n) => n
        | none => none := by
  have h : L.lm.toLayer.getNamed [] none k = firstLayer L k := getWithLayerName_lm L k
  have hw : (wrap L M).getWithLayerName k = (Layer.lm none M [L.lm.toLayer]).getNamed [] none k := rfl
  simp only [layerNameFor, hw, getNamed_wrapper, h]
  cases M.lookup k <;> rfl

/-- what the mutations hold for key `k` after the aliases have been processed -/
def aliasVal (L : Layers ν) : List (String × String) → String → Option ν
  | [], _ => none
  | a :: rest, k =>
    if k == a.1 then (if a.1 == a.2 then none else valueOf L a.2) else aliasVal L rest k

theorem aliasVal_append_single (L : Layers ν) (pre : List (String × String)) (a : String × String) (k : String) :
    aliasVal L (pre ++ [a]) k =
      if pre.any (fun b => k == b.1) then aliasVal L pre k
      else if k == a.1 then (if a.1 == a.2 then none else valueOf L a.2) else none := by
  induction pre with
  | nil => simp [aliasVal]
  | cons b r ih =>
    simp only [List.cons_append, aliasVal, List.any_cons]
    by_cases hb : (k == b.1) = true
    · simp [hb]
    · have hb' : (k == b.1) = false := by simpa using hb
      simp only [hb', Bool.false_eq_true, if_false, Bool.false_or, ih]

theorem aliasVal_none_of (L : Layers ν) (al : List (String × String)) (k : String)
    (h : ∀ b ∈ al, b.1 = k → b.1 = b.2) : aliasVal L al k = none := by
  induction al with
  | nil => rfl
  | cons b r ih =>
    simp only [aliasVal]
    by_cases hb : (k == b.1) = true
    · have hk : b.1 = k := (by simpa using hb : k = b.1).symm
      have : (b.1 == b.2) = true := by simpa using h b (by simp) hk
      simp [hb, this]
    · have hb' : (k == b.1) = false := by simpa using hb
      simp only [hb', Bool.false_eq_true, if_false]
      exact ih (fun c hc => h c (by simp [hc]))

theorem aliasVal_none_of_not_key (L : Layers ν) (al : List (String × String)) (k : String)
    (h : ∀ b ∈ al, b.1 ≠ k) : aliasVal L al k = none :=
  aliasVal_none_of L al k (fun b hb hk => absurd hk (h b hb))

def envStep (w : LM ν) (a : String × String) : LM ν :=
  if a.1 == a.2 then w
  else match w.get a.2 with
    | some v => w.set a.1 v
    | none => w

theorem evalEnv_eq (L : Layers ν) (al : List (String × String)) :
    evalEnv L al = al.foldl envStep (wrap L []) := rfl

theorem wrap_set (L : Layers ν) (M : List (String × ν)) (k : String) (v : ν) :
    (wrap L M).set k v = wrap L (dictSet M k v) := rfl

theorem fold_env (L : Layers ν) :
    ∀ (rest pre : List (String × String)) (M : List (String × ν)),
      (∀ k, M.lookup k = aliasVal L pre k) →
      ((pre ++ rest).map (·.1)).Nodup →
      (∀ a ∈ pre ++ rest, a.1 ≠ a.2 → ∀ b ∈ pre ++ rest, b.2 ≠ a.1) →
      ∃ M', rest.foldl envStep (wrap L M) = wrap L M' ∧ ∀ k, M'.lookup k = aliasVal L (pre ++ rest) k
  | [], pre, M, hM, _, _ => ⟨M, rfl, by simpa using hM⟩
  | a :: rest, pre, M, hM, hnd, hold => by
    have hnd' : (((pre ++ [a]) ++ rest).map (·.1)).Nodup := by simpa [List.append_assoc] using hnd
    have hold' : ∀ x ∈ (pre ++ [a]) ++ rest, x.1 ≠ x.2 → ∀ b ∈ (pre ++ [a]) ++ rest, b.2 ≠ x.1 := by
      simpa [List.append_assoc] using hold
    -- `a.1` is not a key of `pre`
    have hfresh : ∀ b ∈ pre, b.1 ≠ a.1 := by
      intro b hb heq
      have h1 : ((pre ++ a :: rest).map (·.1)).Nodup := hnd
      rw [List.map_append, List.nodup_append] at h1
      exact h1.2.2 b.1 (List.mem_map_of_mem hb) a.1 (by simp) heq
    have hnone_pre : aliasVal L pre a.1 = none := aliasVal_none_of_not_key L pre a.1 hfresh
    have key : ∀ (M1 : List (String × ν)),
        (∀ k, M1.lookup k = aliasVal L (pre ++ [a]) k) →
        ∃ M', rest.foldl envStep (wrap L M1) = wrap L M' ∧ ∀ k, M'.lookup k = aliasVal L (pre ++ a :: rest) k := by
      intro M1 h1
      obtain ⟨M', e1, e2⟩ := fold_env L rest (pre ++ [a]) M1 h1 hnd' hold'
      exact ⟨M', e1, by simpa [List.append_assoc] using e2⟩
    -- the value of `aliasVal` after `a` for keys other than `a.1`
    have hother : ∀ k, k ≠ a.1 → aliasVal L (pre ++ [a]) k = aliasVal L pre k := by
      intro k hk
      rw [aliasVal_append_single]
      have hb : (k == a.1) = false := by simpa using hk
      by_cases hp : pre.any (fun b => k == b.1) = true
      · simp [hp]
      · have hp' : pre.any (fun b => k == b.1) = false := Bool.eq_false_iff.2 hp
        simp only [hp', Bool.false_eq_true, if_false, hb]
        exact (aliasVal_none_of_not_key L pre k (fun b hbm heq => by
          have : pre.any (fun b => k == b.1) = true := List.any_eq_true.2 ⟨b, hbm, by simp [heq]⟩
          rw [hp'] at this; cases this)).symm
    have hself : aliasVal L (pre ++ [a]) a.1 = if a.1 == a.2 then none else valueOf L a.2 := by
      rw [aliasVal_append_single]
      have hp' : pre.any (fun b => a.1 == b.1) = false := by
        rw [Bool.eq_false_iff]; intro h
        obtain ⟨b, hb, hkb⟩ := List.any_eq_true.1 h
        exact hfresh b hb (by simpa using hkb : a.1 = b.1).symm
      simp [hp']
    simp only [List.foldl_cons]
    by_cases hid : (a.1 == a.2) = true
    · -- identity alias: nothing is written
      have hs : envStep (wrap L M) a = wrap L M := by simp [envStep, hid]
      rw [hs]
      apply key M
      intro k
      by_cases hk : k = a.1
      · subst hk; rw [hself, hM, hnone_pre]; simp [hid]
      · rw [hother k hk, hM]
    · have hid' : (a.1 == a.2) = false := by simpa using hid
      have hne : a.1 ≠ a.2 := by simpa using hid'
      -- the back-quoted name is never a sanitised name: it is looked up in the layers
      have hM2 : M.lookup a.2 = none := by
        rw [hM]
        apply aliasVal_none_of
        intro b hb heq
        by_cases hbb : b.1 = b.2
        · exact hbb
        · exact absurd heq.symm (hold b (by simp [hb]) hbb a (by simp))
      have hget : (wrap L M).get a.2 = valueOf L a.2 := by rw [wrap_get, hM2]
      cases hv : valueOf L a.2 with
      | none =>
        have hs : envStep (wrap L M) a = wrap L M := by simp [envStep, hid', hget, hv]
        rw [hs]
        apply key M
        intro k
        by_cases hk : k = a.1
        · subst hk; rw [hself, hM, hnone_pre]; simp [hid', hv]
        · rw [hother k hk, hM]
      | some v =>
        have hs : envStep (wrap L M) a = wrap L (dictSet M a.1 v) := by
          simp [envStep, hid', hget, hv, wrap_set]
        rw [hs]
        apply key
        intro k
        rw [lookup_dictSet]
        by_cases hk : k = a.1
        · subst hk; rw [hself]; simp [hid', hv]
        · have hb : (k == a.1) = false := by simpa using hk
          simp only [hb, Bool.false_eq_true, if_false]
          rw [hother k hk, hM]

/-- the environment of a Python factor: the layers plus, for every sanitised name, the value of the
back-quoted name it stands for -/
theorem evalEnv_spec (L : Layers ν) (al : List (String × String))
    (hnd : (al.map (·.1)).Nodup)
    (hold : ∀ a ∈ al, a.1 ≠ a.2 → ∀ b ∈ al, b.2 ≠ a.1) :
    ∃ M, evalEnv L al = wrap L M ∧ ∀ k, M.lookup k = aliasVal L al k := by
  rw [evalEnv_eq]
  simpa using fold_env L al [] [] (fun k => rfl) (by simpa using hnd) (by simpa using hold)

end FormulaicVerif.Proofs.C17
