import FormulaicVerif.Proofs.C15
import FormulaicVerif.Proofs.C15Ws
/-! Helper lemmas for C15: nothing downstream of the tokenizer looks at source spans. Every stage of
`DefaultFormulaParser` (token sanitisation, the intercept/`0`/`~`/`|` rewrites, sign merging, the
shunting yard, the evaluation of the tree) commutes with erasing the spans of the tokens; so two
strings whose token streams agree up to spans have the same parsed formula. -/
namespace FormulaicVerif.Proofs.C15Formula
open FormulaicVerif FormulaicVerif.Model FormulaicVerif.Proofs.C15Ws

abbrev er (ts : List Tok) : List Tok := ts.map erase

@[simp] theorem erase_text (t : Tok) : (erase t).text = t.text := rfl
@[simp] theorem erase_kind (t : Tok) : (erase t).kind = t.kind := rfl
@[simp] theorem erase_erase (t : Tok) : erase (erase t) = erase t := rfl
@[simp] theorem erase_synth (s : String) (k : TKind) : erase (Tok.synth s k) = Tok.synth s k := rfl
@[simp] theorem erase_one : erase tokOne = tokOne := rfl
@[simp] theorem erase_plus : erase tokPlus = tokPlus := rfl
@[simp] theorem erase_minus : erase tokMinus = tokMinus := rfl
theorem erase_withText (t : Tok) (x : List Char) : erase { t with text := x } = { erase t with text := x } := rfl
theorem erase_withKind (t : Tok) (k : Option TKind) : erase { t with kind := k } = { erase t with kind := k } := rfl

/-! ### token-stream stages -/

theorem sanitizeTokens_erase (norm : List Char → Except PyErr (List Char)) : ∀ (ts : List Tok),
    sanitizeTokens norm (er ts) = (sanitizeTokens norm ts).map er := by
  intro ts
  induction ts with
  | nil => rfl
  | cons t ts ih =>
    simp only [er, List.map_cons] at ih ⊢
    unfold sanitizeTokens
    simp only [erase_text, erase_kind]
    rw [ih]
    by_cases h1 : (t.text == ['.'] && t.kind != some .name) = true
    · simp only [h1, if_true]
      by_cases h2 : (some TKind.operator == some TKind.python) = true
      · exact absurd h2 (by decide)
      · cases hs : sanitizeTokens norm ts <;> simp [Except.map, erase]
    · simp only [h1, Bool.false_eq_true, if_false, erase_kind]
      by_cases h2 : (t.kind == some .python) = true
      · simp only [h2, if_true, erase_text]
        cases hn : norm t.text with
        | error e => simp [Except.map]
        | ok x => cases hs : sanitizeTokens norm ts <;> simp [Except.map, erase]
      · simp only [h2, Bool.false_eq_true, if_false]
        cases hs : sanitizeTokens norm ts <;> simp [Except.map]

theorem replaceZero_erase : ∀ (ts : List Tok), replaceZero (er ts) = er (replaceZero ts) := by
  intro ts
  induction ts with
  | nil => rfl
  | cons t ts ih =>
    simp only [er, List.map_cons] at ih ⊢
    unfold replaceZero
    simp only [erase_kind, erase_text, ih]
    split <;> simp

theorem needsJoin_erase (n : Option Tok) : needsJoin (n.map erase) = needsJoin n := by
  cases n <;> simp [needsJoin]

def nextOf (t : Tok) (ps : List (List Char)) (after : Option Tok) : Option Tok :=
  match ps with
  | q :: _ => some { t with text := q }
  | [] => after

theorem emitPieces_cons (add : Bool) (c : Char) (t : Tok) (p : List Char) (ps : List (List Char)) (after : Option Tok) :
    emitPieces add c t (p :: ps) after =
      if (add && p.getLast? == some c) = true then
        ({ t with text := p } : Tok) :: tokOne ::
          ((if needsJoin (nextOf t ps after) = true then [tokPlus] else []) ++ emitPieces add c t ps after)
      else ({ t with text := p } : Tok) :: emitPieces add c t ps after := by
  cases ps <;> rfl

theorem nextOf_erase (t : Tok) (ps : List (List Char)) (after : Option Tok) :
    nextOf (erase t) ps (after.map erase) = (nextOf t ps after).map erase := by
  cases ps <;> rfl

theorem emitPieces_erase (add : Bool) (c : Char) (t : Tok) : ∀ (ps : List (List Char)) (after : Option Tok),
    emitPieces add c (erase t) ps (after.map erase) = er (emitPieces add c t ps after) := by
  intro ps
  induction ps with
  | nil => intro after; rfl
  | cons p ps ih =>
    intro after
    rw [emitPieces_cons, emitPieces_cons, nextOf_erase, needsJoin_erase, ih]
    by_cases hc : (add && p.getLast? == some c) = true
    · simp only [hc, if_true]
      cases hj : needsJoin (nextOf t ps after) <;> simp [er, erase_withText]
    · simp only [hc, Bool.false_eq_true, if_false]
      simp [er, erase_withText]

theorem insertOneAfter_erase (add : Bool) (c : Char) : ∀ (ts : List Tok),
    insertOneAfter add c (er ts) = er (insertOneAfter add c ts) := by
  intro ts
  induction ts with
  | nil => rfl
  | cons t ts ih =>
    simp only [er, List.map_cons] at ih ⊢
    unfold insertOneAfter
    simp only [erase_kind, erase_text, ih]
    split
    · simp
    · have : (List.map erase ts).head? = ts.head?.map erase := by cases ts <;> simp
      rw [this, emitPieces_erase]
      simp [er]

theorem findRhsAux_erase : ∀ (ts : List Tok) (i : Nat) (ctx : List Char),
    findRhsAux (er ts) i ctx = findRhsAux ts i ctx := by
  intro ts
  induction ts with
  | nil => intro i ctx; rfl
  | cons t ts ih =>
    intro i ctx
    simp only [er, List.map_cons] at ih ⊢
    rw [findRhsAux, findRhsAux]
    simp only [erase_kind, erase_text, ih]
    cases ctx <;> rfl

def notSign (t : Tok) : Bool :=
  t.kind != some .operator || !(match t.text.head? with | some c => isSign c | none => false)
def endsNoSign (x : List Char) : Bool := !(match x.getLast? with | some c => isSign c | none => false)

theorem mergeSignsAux_none (t : Tok) (ts : List Tok) :
    mergeSignsAux (t :: ts) none = if notSign t = true then t :: mergeSignsAux ts none else mergeSignsAux ts (some t) := by
  rw [mergeSignsAux]; rfl

theorem mergeSignsAux_some (t p : Tok) (ts : List Tok) :
    mergeSignsAux (t :: ts) (some p) =
      if notSign t = true then p :: t :: mergeSignsAux ts none
      else if endsNoSign (p.text ++ t.text) = true then ({ t with text := p.text ++ t.text } : Tok) :: mergeSignsAux ts none
      else mergeSignsAux ts (some { t with text := p.text ++ t.text }) := by
  rw [mergeSignsAux]; rfl

theorem mergeSignsAux_erase : ∀ (ts : List Tok) (pooled : Option Tok),
    mergeSignsAux (er ts) (pooled.map erase) = er (mergeSignsAux ts pooled) := by
  intro ts
  induction ts with
  | nil => intro pooled; cases pooled <;> rfl
  | cons t ts ih =>
    intro pooled
    simp only [er, List.map_cons] at ih ⊢
    have h1 := ih none
    have h2 := ih (some t)
    simp only [Option.map_none, Option.map_some] at h1 h2
    have hn : notSign (erase t) = notSign t := rfl
    cases pooled with
    | none =>
      rw [Option.map_none, mergeSignsAux_none, mergeSignsAux_none, hn, h1, h2]
      cases notSign t <;> simp
    | some p =>
      have h3 := ih (some { t with text := p.text ++ t.text })
      simp only [Option.map_some] at h3
      rw [Option.map_some, mergeSignsAux_some, mergeSignsAux_some, hn, h1]
      have e1 : (erase p).text ++ (erase t).text = p.text ++ t.text := rfl
      have e2 : ({ erase t with text := (erase p).text ++ (erase t).text } : Tok) = erase { t with text := p.text ++ t.text } := rfl
      rw [e2, e1, h3]
      cases notSign t <;> cases endsNoSign (p.text ++ t.text) <;> simp

theorem mergeSigns_erase (l : List Tok) : mergeSigns (er l) = er (mergeSigns l) := mergeSignsAux_erase l none

theorem interceptTokens_erase (incl : Bool) (ts : List Tok) :
    interceptTokens incl (er ts) = (er (interceptTokens incl ts).1, er (interceptTokens incl ts).2) := by
  simp only [interceptTokens]
  rw [replaceZero_erase, insertOneAfter_erase]
  generalize insertOneAfter incl '~' (replaceZero ts) = T
  have hf : findRhsIndex (er T) = findRhsIndex T := findRhsAux_erase T 0 []
  rw [hf]
  have htake : ∀ rhs, (er T).take rhs = er (T.take rhs) := by intro rhs; simp [er, List.map_take]
  have hdrop : ∀ rhs, (er T).drop rhs = er (T.drop rhs) := by intro rhs; simp [er, List.map_drop]
  have hempty : (er T).isEmpty = T.isEmpty := by cases T <;> rfl
  simp only [htake, hdrop, hempty, insertOneAfter_erase]
  refine Prod.ext ?_ rfl
  simp only
  cases findRhsIndex T with
  | none =>
    simp only
    by_cases hc : (decide (0 > 0) || !incl) = true
    · simp only [hc, if_true]
      rw [← mergeSigns_erase]
      simp [er]
    · simp only [hc, Bool.false_eq_true, if_false]
      rw [← mergeSigns_erase]
      cases T.isEmpty <;> simp [er]
  | some i =>
    simp only
    have hc : (decide (i + 1 > 0) || !incl) = true := by simp
    simp only [hc, if_true]
    rw [← mergeSigns_erase]
    simp [er]
/-! ### the tree -/

def eraseAst : Ast → Ast
  | .leaf t => .leaf (erase t)
  | .node o args => .node o (eraseAsts args)
where
  eraseAsts : List Ast → List Ast
    | [] => []
    | a :: as => eraseAst a :: eraseAsts as

theorem eraseAsts_eq_map : ∀ (as : List Ast), eraseAst.eraseAsts as = as.map eraseAst
  | [] => rfl
  | a :: as => by simp [eraseAst.eraseAsts, eraseAsts_eq_map as]

abbrev ea (l : List Ast) : List Ast := l.map eraseAst

mutual
theorem evalAst_erase (dot : DotCtx) : ∀ (a : Ast), evalAst dot (eraseAst a) = evalAst dot a
  | .leaf t => by simp only [eraseAst, evalAst]; rfl
  | .node o args => by
    have h := evalArgs_erase dot args
    simp only [eraseAst, evalAst, h]
theorem evalArgs_erase (dot : DotCtx) : ∀ (as : List Ast),
    evalAst.evalArgs dot (eraseAst.eraseAsts as) = evalAst.evalArgs dot as
  | [] => rfl
  | a :: as => by
    have h1 := evalAst_erase dot a
    have h2 := evalArgs_erase dot as
    simp only [eraseAst.eraseAsts, evalAst.evalArgs, h1, h2]
end

/-! ### the shunting yard -/

def eraseSt (s : ShState) : ShState := { out := ea s.out, stack := s.stack }

theorem eraseAst_node (o : OpSpec) (args : List Ast) : eraseAst (.node o args) = .node o (ea args) := by
  simp [eraseAst, eraseAsts_eq_map]

theorem operate_erase (o : OpSpec) (idx : Nat) (out : List Ast) :
    operate o idx (ea out) = (operate o idx out).map ea := by
  unfold operate
  simp only [ea, List.length_map]
  cases o.fixity <;> simp only [] <;> split <;>
    simp [Except.map, List.map_take, List.map_drop, eraseAst_node, ea]

theorem popWhile_erase (c : OpSpec) : ∀ (stack : List SEntry) (out : List Ast),
    popWhile c (ea out) stack = (popWhile c out stack).map eraseSt := by
  intro stack
  induction stack with
  | nil => intro out; simp [popWhile, Except.map, eraseSt]
  | cons e stk ih =>
    intro out
    cases e with
    | ctx ch i => simp [popWhile, Except.map, eraseSt]
    | op o i =>
      simp only [popWhile]
      by_cases hp : popCond o c = true
      · simp only [hp, if_true, operate_erase]
        cases ho : operate o i out with
        | error e => simp [Except.map]
        | ok out' => simp only [Except.map]; exact ih out'
      · simp [hp, Except.map, eraseSt]

theorem tryCands_erase : ∀ (cs : List OpSpec) (s : ShState),
    tryCands cs (eraseSt s) = (tryCands cs s).map eraseSt := by
  intro cs
  induction cs with
  | nil => intro s; simp [tryCands, Except.map]
  | cons c cs ih =>
    intro s
    simp only [tryCands]
    have hstack : (eraseSt s).stack = s.stack := rfl
    have hout : (eraseSt s).out = ea s.out := rfl
    rw [hstack, hout, popWhile_erase]
    by_cases h1 : (!acceptsContext c s.stack) = true
    · simp only [h1, if_true]; exact ih s
    · simp only [h1, Bool.false_eq_true, if_false]
      by_cases h2 : c.disabled = true
      · simp only [h2, if_true]; exact ih s
      · simp only [h2, Bool.false_eq_true, if_false]
        cases hp : popWhile c s.out s.stack with
        | error e => simp [Except.map]
        | ok s' =>
          simp only [Except.map]
          have hl : (eraseSt s').out.length = s'.out.length := by simp [eraseSt, ea]
          have hs : (eraseSt s').stack = s'.stack := rfl
          simp only [hl, hs]
          have hfin : ∀ (mp : Nat) (stk : List SEntry),
              (if validHere c mp = true then Except.ok { out := (eraseSt s').out, stack := SEntry.op c s'.out.length :: stk }
                else tryCands cs (eraseSt s')) =
              Except.map eraseSt (if validHere c mp = true then Except.ok { out := s'.out, stack := SEntry.op c s'.out.length :: stk }
                else tryCands cs s') := by
            intro mp stk
            by_cases hv : validHere c mp = true
            · simp [hv, Except.map, eraseSt]
            · simp only [hv, Bool.false_eq_true, if_false]; exact ih s'
          cases s'.stack with
          | nil => exact hfin _ _
          | cons e tl => exact hfin _ _

theorem closeCtx_erase (opener : Char) : ∀ (stack : List SEntry) (out : List Ast),
    closeCtx opener (ea out) stack = (closeCtx opener out stack).map eraseSt := by
  intro stack
  induction stack with
  | nil => intro out; simp [closeCtx, Except.map]
  | cons e stk ih =>
    intro out
    cases e with
    | ctx c i =>
      simp only [closeCtx]
      split <;> simp [Except.map, eraseSt]
    | op o i =>
      simp only [closeCtx, operate_erase]
      cases ho : operate o i out with
      | error e => simp [Except.map]
      | ok out' => simp only [Except.map]; exact ih out'

theorem runCands_erase : ∀ (gs : List (List OpSpec)) (s : ShState),
    runCands gs (eraseSt s) = (runCands gs s).map eraseSt := by
  intro gs
  induction gs with
  | nil => intro s; simp [runCands, Except.map]
  | cons g gs ih =>
    intro s
    simp only [runCands, tryCands_erase]
    cases ht : tryCands g s with
    | error e => simp [Except.map]
    | ok s' => simp only [Except.map]; exact ih s'

theorem shuntStep_erase (tab : OpTable) (s : ShState) (t : Tok) :
    shuntStep tab (eraseSt s) (erase t) = (shuntStep tab s t).map eraseSt := by
  unfold shuntStep
  have hk : (erase t).kind = t.kind := rfl
  have ht : (erase t).text = t.text := rfl
  rw [hk, ht]
  have hl : (eraseSt s).out.length = s.out.length := by simp [eraseSt, ea]
  have hs : (eraseSt s).stack = s.stack := rfl
  have ho : (eraseSt s).out = ea s.out := rfl
  split
  · simp only [hl, hs, ho, closeCtx_erase]
    split
    · simp [Except.map, eraseSt]
    · split
      · simp [Except.map, eraseSt]
      · split
        · rfl
        · split
          · rfl
          · simp [Except.map]
  · cases hr : resolveToken tab t.text with
    | error e => simp [Except.map]
    | ok groups => simp only; exact runCands_erase groups s
  · simp [Except.map, eraseSt, ea, eraseAst]

theorem shuntRun_erase (tab : OpTable) : ∀ (ts : List Tok) (s : ShState),
    shuntRun tab (er ts) (eraseSt s) = (shuntRun tab ts s).map eraseSt := by
  intro ts
  induction ts with
  | nil => intro s; simp [shuntRun, Except.map]
  | cons t ts ih =>
    intro s
    simp only [er, List.map_cons, shuntRun, shuntStep_erase]
    cases hs : shuntStep tab s t with
    | error e => simp [Except.map]
    | ok s' => simp only [Except.map]; exact ih s'

theorem finish_erase : ∀ (stack : List SEntry) (out : List Ast),
    finish (ea out) stack = (finish out stack).map ea := by
  intro stack
  induction stack with
  | nil => intro out; simp [finish, Except.map]
  | cons e stk ih =>
    intro out
    cases e with
    | ctx c i => simp [finish, Except.map]
    | op o i =>
      simp only [finish, operate_erase]
      cases ho : operate o i out with
      | error e => simp [Except.map]
      | ok out' => simp only [Except.map]; exact ih out'

theorem tokensToAst_erase (tab : OpTable) (ts : List Tok) :
    tokensToAst tab (er ts) = (tokensToAst tab ts).map (Option.map eraseAst) := by
  have key : shuntRun tab (er ts) {} = (shuntRun tab ts {}).map eraseSt := shuntRun_erase tab ts {}
  unfold tokensToAst
  rw [key]
  cases hs : shuntRun tab ts {} with
  | error e => simp [Except.map]
  | ok s =>
    simp only [Except.map]
    have ho : (eraseSt s).out = ea s.out := rfl
    have hst : (eraseSt s).stack = s.stack := rfl
    rw [ho, hst, finish_erase]
    cases hf : finish s.out s.stack with
    | error e => simp [Except.map]
    | ok l =>
      simp only [Except.map]
      match l with
      | [] => rfl
      | [a] => rfl
      | _ :: _ :: _ => rfl

theorem lhsVariables_erase (env : PyEnv) : ∀ (ts : List Tok), lhsVariables env (er ts) = lhsVariables env ts := by
  intro ts
  induction ts with
  | nil => rfl
  | cons t ts ih =>
    simp only [lhsVariables, er, List.map_cons, List.flatMap_cons] at ih ⊢
    rw [ih]
    rfl

/-- forget the explanatory text of a syntax error (the class of the exception is what callers see) -/
def errClass : ParseErr → ParseErr
  | .syntax _ => .syntax ""
  | e => e

def normE {α : Type} : Except ParseErr α → Except ParseErr α
  | .ok v => .ok v
  | .error e => .error (errClass e)

theorem lexErr_class (e : LexErr) : errClass (lexErrToParse e) = .syntax "" := by cases e <;> rfl

/-- two outcomes of `get_tokens_from_formula` that agree up to spans -/
def TokRel : Except ParseErr (List Tok × List Tok) → Except ParseErr (List Tok × List Tok) → Prop
  | .ok r, .ok r' => er r.1 = er r'.1 ∧ er r.2 = er r'.2
  | .error e, .error e' => errClass e = errClass e'
  | _, _ => False

theorem getTokens_congr (cfg : ParseCfg) (env : PyEnv) (cs1 cs2 : List CharInfo)
    (h1 : er (tokenizeStream cs1).1 = er (tokenizeStream cs2).1)
    (h2 : (tokenizeStream cs1).2.isSome = (tokenizeStream cs2).2.isSome) :
    TokRel (getTokens cfg env cs1) (getTokens cfg env cs2) := by
  have hs : (sanitizeTokens env.norm (tokenizeStream cs1).1).map er = (sanitizeTokens env.norm (tokenizeStream cs2).1).map er := by
    rw [← sanitizeTokens_erase, ← sanitizeTokens_erase, h1]
  unfold getTokens
  generalize tokenizeStream cs1 = p at h1 h2 hs ⊢
  generalize tokenizeStream cs2 = q at h1 h2 hs ⊢
  obtain ⟨em1, le1⟩ := p
  obtain ⟨em2, le2⟩ := q
  simp only at h1 h2 hs ⊢
  cases hp : sanitizeTokens env.norm em1 with
  | error e =>
    cases hq : sanitizeTokens env.norm em2 with
    | error e' =>
      rw [hp, hq] at hs
      simp only [Except.map, Except.error.injEq] at hs
      subst hs; simp [TokRel]
    | ok ts' => rw [hp, hq] at hs; simp [Except.map] at hs
  | ok ts =>
    cases hq : sanitizeTokens env.norm em2 with
    | error e' => rw [hp, hq] at hs; simp [Except.map] at hs
    | ok ts' =>
      rw [hp, hq] at hs
      simp only [Except.map, Except.ok.injEq] at hs
      cases le1 with
      | some e =>
        cases le2 with
        | some e' => simp only [TokRel, lexErr_class]
        | none => simp at h2
      | none =>
        cases le2 with
        | some e' => simp at h2
        | none =>
          simp only [TokRel]
          have hi1 := interceptTokens_erase cfg.includeIntercept ts
          have hi2 := interceptTokens_erase cfg.includeIntercept ts'
          rw [hs] at hi1
          rw [hi1] at hi2
          simp only [Prod.mk.injEq] at hi2
          exact hi2

theorem parseTerms_congr (cfg : ParseCfg) (env : PyEnv) (cs1 cs2 : List CharInfo)
    (h1 : er (tokenizeStream cs1).1 = er (tokenizeStream cs2).1)
    (h2 : (tokenizeStream cs1).2.isSome = (tokenizeStream cs2).2.isSome) :
    normE (parseTerms cfg env cs1) = normE (parseTerms cfg env cs2) := by
  have hg := getTokens_congr cfg env cs1 cs2 h1 h2
  unfold parseTerms
  cases hp : getTokens cfg env cs1 with
  | error e =>
    cases hq : getTokens cfg env cs2 with
    | error e' => rw [hp, hq] at hg; simp only [TokRel] at hg; simp only [normE, hg]
    | ok r' => rw [hp, hq] at hg; simp [TokRel] at hg
  | ok r =>
    cases hq : getTokens cfg env cs2 with
    | error e' => rw [hp, hq] at hg; simp [TokRel] at hg
    | ok r' =>
      rw [hp, hq] at hg
      obtain ⟨ha, hb⟩ := hg
      obtain ⟨ts, lhs⟩ := r
      obtain ⟨ts', lhs'⟩ := r'
      simp only at ha hb ⊢
      have ht : (tokensToAst cfg.table ts).map (Option.map eraseAst) = (tokensToAst cfg.table ts').map (Option.map eraseAst) := by
        rw [← tokensToAst_erase, ← tokensToAst_erase, ha]
      have hl : lhsVariables env lhs = lhsVariables env lhs' := by
        rw [← lhsVariables_erase env lhs, ← lhsVariables_erase env lhs', hb]
      rw [hl]
      cases hta : tokensToAst cfg.table ts with
      | error e =>
        cases htb : tokensToAst cfg.table ts' with
        | error e' => rw [hta, htb] at ht; simp only [Except.map, Except.error.injEq] at ht; subst ht; rfl
        | ok b => rw [hta, htb] at ht; simp [Except.map] at ht
      | ok a =>
        cases htb : tokensToAst cfg.table ts' with
        | error e' => rw [hta, htb] at ht; simp [Except.map] at ht
        | ok b =>
          rw [hta, htb] at ht
          simp only [Except.map, Except.ok.injEq] at ht
          cases a with
          | none =>
            cases b with
            | none => rfl
            | some b' => simp at ht
          | some a' =>
            cases b with
            | none => simp at ht
            | some b' =>
              simp only [Option.map_some, Option.some.injEq] at ht
              simp only
              rw [← evalAst_erase _ a', ← evalAst_erase _ b', ht]

theorem formulaOfString_congr (cfg : ParseCfg) (env : PyEnv) (cs1 cs2 : List CharInfo)
    (h1 : er (tokenizeStream cs1).1 = er (tokenizeStream cs2).1)
    (h2 : (tokenizeStream cs1).2.isSome = (tokenizeStream cs2).2.isSome) :
    normE (formulaOfString cfg env cs1) = normE (formulaOfString cfg env cs2) := by
  have h := parseTerms_congr cfg env cs1 cs2 h1 h2
  unfold formulaOfString
  cases hp : parseTerms cfg env cs1 with
  | error e =>
    cases hq : parseTerms cfg env cs2 with
    | error e' => rw [hp, hq] at h; simpa [normE, Except.map] using h
    | ok v => rw [hp, hq] at h; simp [normE] at h
  | ok v =>
    cases hq : parseTerms cfg env cs2 with
    | error e' => rw [hp, hq] at h; simp [normE] at h
    | ok v' =>
      rw [hp, hq] at h
      simp only [normE, Except.ok.injEq] at h
      subst h; rfl

/-- what `tokenizeStream` makes of the final state of the character loop -/
def streamOf (p : LexState × Option LexErr) : List Tok × Option LexErr :=
  match p with
  | (s, some e) => (s.out.reverse, some e)
  | (s, none) =>
    if !s.qc.isEmpty then (s.out.reverse, some .unterminated)
    else ((if s.tok.nonempty then (s.tok :: s.out).reverse else s.out.reverse), none)

theorem tokenizeStream_eq (cs : List CharInfo) : tokenizeStream cs = streamOf (lexLoop cs 0 {}) := by
  unfold tokenizeStream streamOf
  cases h : lexLoop cs 0 {} with
  | mk s e => cases e <;> rfl

theorem streamOf_congr {a b : LexState} {e e' : Option LexErr} (h : E a b) (he : e.isSome = e'.isSome) :
    er (streamOf (a, e)).1 = er (streamOf (b, e')).1 ∧ (streamOf (a, e)).2.isSome = (streamOf (b, e')).2.isSome := by
  have hrev : er a.out.reverse = er b.out.reverse := by simp [er, List.map_reverse, h.out]
  cases e with
  | some x =>
    cases e' with
    | some y => exact ⟨hrev, rfl⟩
    | none => simp at he
  | none =>
    cases e' with
    | some y => simp at he
    | none =>
      simp only [streamOf, h.qc, ← h.nonempty]
      by_cases hq : (!b.qc.isEmpty) = true
      · simp only [hq, if_true]; exact ⟨hrev, trivial⟩
      · simp only [hq, Bool.false_eq_true, if_false]
        by_cases hn : a.tok.nonempty = true
        · simp only [hn, if_true, er, List.reverse_cons, List.map_append, List.map_reverse, List.map_cons, List.map_nil]
          rw [h.out, erase_eq h.text h.kind]
          exact ⟨rfl, trivial⟩
        · simp only [hn, Bool.false_eq_true, if_false]; exact ⟨hrev, trivial⟩

/-- the token STREAM (also when the string is rejected further on) of a string with one whitespace
character inserted at a safe gap agrees, up to spans, with the stream of the string without it -/
theorem stream_ws (u v : List CharInfo) (w : CharInfo) (s : LexState)
    (hu : lexLoop u 0 {} = (s, none)) (hq : s.qc = []) (ht : s.take = 0)
    (hsp : w.space = true) (hc : w.c ∉ ['%', '{', '`', '(', '[', ')', ']'])
    (hp : s.tok.nonempty = false ∨ s.tok.kind = some .operator) :
    er (tokenizeStream (u ++ w :: v)).1 = er (tokenizeStream (u ++ v)).1 ∧
      (tokenizeStream (u ++ w :: v)).2.isSome = (tokenizeStream (u ++ v)).2.isSome := by
  rw [tokenizeStream_eq, tokenizeStream_eq, lexLoop_append u (w :: v) 0 {} s hu, lexLoop_append u v 0 {} s hu]
  have hstep : lexStep s (0 + u.length) w = .ok s := Proofs.C15.whitespace_noop s _ w hq ht hsp hc hp
  have hl : lexLoop (w :: v) (0 + u.length) s = lexLoop v (0 + u.length + 1) s := by
    simp only [lexLoop, hstep]
  rw [hl]
  obtain ⟨h1, h2⟩ := lexLoop_R v (0 + u.length + 1) (0 + u.length) s s (E_refl s)
  have e1 : lexLoop v (0 + u.length + 1) s = ((lexLoop v (0 + u.length + 1) s).1, (lexLoop v (0 + u.length + 1) s).2) := rfl
  have e2 : lexLoop v (0 + u.length) s = ((lexLoop v (0 + u.length) s).1, (lexLoop v (0 + u.length) s).2) := rfl
  rw [e1, e2]
  exact streamOf_congr h1 h2

/-- **Whitespace insensitivity of the parsed formula.** -/
theorem ws_insensitive_formula (cfg : ParseCfg) (env : PyEnv) (u v : List CharInfo) (w : CharInfo) (s : LexState)
    (hu : lexLoop u 0 {} = (s, none)) (hq : s.qc = []) (ht : s.take = 0)
    (hsp : w.space = true) (hc : w.c ∉ ['%', '{', '`', '(', '[', ')', ']'])
    (hp : s.tok.nonempty = false ∨ s.tok.kind = some .operator) :
    normE (formulaOfString cfg env (u ++ w :: v)) = normE (formulaOfString cfg env (u ++ v)) ∧
    normE (parseTerms cfg env (u ++ w :: v)) = normE (parseTerms cfg env (u ++ v)) := by
  obtain ⟨h1, h2⟩ := stream_ws u v w s hu hq ht hsp hc hp
  exact ⟨formulaOfString_congr cfg env _ _ h1 h2, parseTerms_congr cfg env _ _ h1 h2⟩

/-! ### arbitrary re-spacing -/

/-- a safe gap of a string: after the prefix `u` no quote is open and the pending token is empty or an operator -/
def SafeGap (u : List CharInfo) : Prop :=
  ∃ s, lexLoop u 0 {} = (s, none) ∧ s.qc = [] ∧ s.take = 0 ∧ (s.tok.nonempty = false ∨ s.tok.kind = some .operator)

/-- an unquoted whitespace character that is not one of the characters the lexer looks at first -/
def PlainSpace (w : CharInfo) : Prop := w.space = true ∧ w.c ∉ ['%', '{', '`', '(', '[', ')', ']']

/-- two strings that differ only in whitespace at safe gaps: the equivalence generated by inserting
one whitespace character at a safe gap -/
inductive Respaced : List CharInfo → List CharInfo → Prop
  | refl (cs : List CharInfo) : Respaced cs cs
  | insert (u v : List CharInfo) (w : CharInfo) : SafeGap u → PlainSpace w → Respaced (u ++ v) (u ++ w :: v)
  | symm {a b : List CharInfo} : Respaced a b → Respaced b a
  | trans {a b c : List CharInfo} : Respaced a b → Respaced b c → Respaced a c

theorem respaced_formula (cfg : ParseCfg) (env : PyEnv) {a b : List CharInfo} (h : Respaced a b) :
    normE (formulaOfString cfg env a) = normE (formulaOfString cfg env b) ∧
    normE (parseTerms cfg env a) = normE (parseTerms cfg env b) := by
  induction h with
  | refl cs => exact ⟨rfl, rfl⟩
  | insert u v w hg hw =>
    obtain ⟨s, hu, hq, ht, hp⟩ := hg
    obtain ⟨h1, h2⟩ := ws_insensitive_formula cfg env u v w s hu hq ht hw.1 hw.2 hp
    exact ⟨h1.symm, h2.symm⟩
  | symm _ ih => exact ⟨ih.1.symm, ih.2.symm⟩
  | trans _ _ ih1 ih2 => exact ⟨ih1.1.trans ih2.1, ih1.2.trans ih2.2⟩

end FormulaicVerif.Proofs.C15Formula
