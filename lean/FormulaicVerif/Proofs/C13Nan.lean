import FormulaicVerif.Proofs.C13Poly

/-! Helper lemmas for `poly_nan_rowwise`: what `Poly.reinsert`/`reinsertAll` do to positions, and
`run_nan` (missing entries only decide where rows are blank). -/
namespace FormulaicVerif.Proofs.C13
open FormulaicVerif.Model
variable {α : Type}

/-- same positions missing -/
def SameNulls (xs r : List (Option α)) : Prop := List.Forall₂ (fun o v => (o = none ↔ v = none)) xs r

theorem reduceOption_map_some (l : List α) : (l.map some).reduceOption = l := by
  induction l with
  | nil => rfl
  | cons a r ih => simp [List.reduceOption_cons_of_some, ih]

theorem sameNulls_map (xs : List (Option α)) (f : α → α) : SameNulls xs (xs.map (Option.map f)) := by
  induction xs with
  | nil => exact List.Forall₂.nil
  | cons o r ih => exact List.Forall₂.cons (by cases o <;> simp) ih

theorem reduceOption_map_map (xs : List (Option α)) (f : α → α) :
    (xs.map (Option.map f)).reduceOption = xs.reduceOption.map f := by
  induction xs with
  | nil => rfl
  | cons o r ih => cases o <;> simp [List.reduceOption_cons_of_some, List.reduceOption_cons_of_none, ih]

theorem reinsert_spec (xs : List (Option α)) (col : List α) (r : List (Option α))
    (h : Poly.reinsert xs col = .ok r) :
    SameNulls xs r ∧ r.reduceOption = col ∧ col.length = xs.reduceOption.length := by
  induction xs generalizing col r with
  | nil =>
    cases col with
    | nil => cases h; exact ⟨List.Forall₂.nil, rfl, rfl⟩
    | cons v c => cases h
  | cons o xs ih =>
    cases o with
    | none =>
      simp only [Poly.reinsert] at h
      cases hr : Poly.reinsert xs col with
      | error e => rw [hr] at h; cases h
      | ok r' =>
        rw [hr] at h; cases h
        obtain ⟨h1, h2, h3⟩ := ih col r' hr
        exact ⟨List.Forall₂.cons (by simp) h1, by simpa [List.reduceOption_cons_of_none] using h2,
          by simpa [List.reduceOption_cons_of_none] using h3⟩
    | some x =>
      cases col with
      | nil => cases h
      | cons v c =>
        simp only [Poly.reinsert] at h
        cases hr : Poly.reinsert xs c with
        | error e => rw [hr] at h; cases h
        | ok r' =>
          rw [hr] at h; cases h
          obtain ⟨h1, h2, h3⟩ := ih c r' hr
          exact ⟨List.Forall₂.cons (by simp) h1, by simp [List.reduceOption_cons_of_some, h2],
            by simp [List.reduceOption_cons_of_some, h3]⟩

theorem reinsert_all_some (l : List α) (col : List α) (h : col.length = l.length) :
    Poly.reinsert (l.map some) col = .ok (col.map some) := by
  induction l generalizing col with
  | nil => cases col with
    | nil => rfl
    | cons v c => cases h
  | cons a l ih => cases col with
    | nil => cases h
    | cons v c =>
      simp only [List.map_cons, Poly.reinsert, ih c (by simpa using h)]

theorem reinsertAll_spec (xs : List (Option α)) (cols : List (List α)) (out : List (List (Option α)))
    (h : Poly.reinsertAll xs cols = .ok out) :
    out.map List.reduceOption = cols ∧ (∀ r ∈ out, SameNulls xs r) ∧
      Poly.reinsertAll (xs.reduceOption.map some) cols = .ok (cols.map (fun c => c.map some)) := by
  induction cols generalizing out with
  | nil => cases h; exact ⟨rfl, by simp, rfl⟩
  | cons c cs ih =>
    simp only [Poly.reinsertAll] at h
    cases h1 : Poly.reinsert xs c with
    | error e => rw [h1] at h; cases h
    | ok r =>
      cases h2 : Poly.reinsertAll xs cs with
      | error e => rw [h1, h2] at h; cases h
      | ok rs =>
        rw [h1, h2] at h; cases h
        obtain ⟨a1, a2, a3⟩ := reinsert_spec xs c r h1
        obtain ⟨b1, b2, b3⟩ := ih rs h2
        refine ⟨by simp [a2, b1], ?_, ?_⟩
        · intro r' hr'
          rcases List.mem_cons.mp hr' with rfl | hr'
          · exact a1
          · exact b2 r' hr'
        · simp only [Poly.reinsertAll, reinsert_all_some _ c a3, b3, List.map_cons]

variable [Field α] [DecidableEq α]

/-- missing values only decide WHERE rows are blank: state and the non-missing rows are those of the
vector with the missing entries removed -/
theorem run_nan (sqrt : α → α) (xs : List (Option α)) (d : ℕ) (raw : Bool) (st : Poly.State α)
    (out : List (List (Option α))) (st' : Poly.State α)
    (h : Poly.run sqrt xs d raw st = .ok (out, st')) :
    (∀ col ∈ out, SameNulls xs col) ∧
    ∃ out', Poly.run sqrt (xs.reduceOption.map some) d raw st = .ok (out', st') ∧
      out'.map List.reduceOption = out.map List.reduceOption := by
  unfold Poly.run at h ⊢
  rw [reduceOption_map_some]
  cases raw with
  | true =>
    simp only [if_true] at h ⊢
    split at h
    · cases h
    · rename_i hd
      cases h
      simp only [hd, if_false]
      refine ⟨?_, _, rfl, ?_⟩
      · intro col hcol
        obtain ⟨k, _, rfl⟩ := List.mem_map.mp hcol
        exact sameNulls_map xs _
      · simp only [List.map_map]
        apply List.map_congr_left
        intro k _
        simp only [Function.comp]
        have e1 := reduceOption_map_map xs (fun t => Poly.pow t (k + 1))
        have e2 := reduceOption_map_map (xs.reduceOption.map some) (fun t => Poly.pow t (k + 1))
        rw [reduceOption_map_some, List.map_map] at e2
        exact e2.trans e1.symm
  | false =>
    simp only [Bool.false_eq_true, if_false] at h ⊢
    cases hf : Poly.fit sqrt xs.reduceOption d st with
    | error e => rw [hf] at h; cases h
    | ok qs =>
      obtain ⟨q, s1⟩ := qs
      rw [hf] at h
      simp only at h ⊢
      cases hr : Poly.reinsertAll xs q with
      | error e => rw [hr] at h; cases h
      | ok o =>
        rw [hr] at h; cases h
        obtain ⟨b1, b2, b3⟩ := reinsertAll_spec xs q out hr
        refine ⟨b2, _, by rw [b3], ?_⟩
        rw [b1, List.map_map]
        conv_rhs => rw [← List.map_id q]
        apply List.map_congr_left
        intro c _
        exact reduceOption_map_some c
end FormulaicVerif.Proofs.C13
