import FormulaicVerif.Proofs.C19Ops
import FormulaicVerif.Proofs.C19Paths
/-! Helper lemmas for C19, part 8: `__iter__`/`__len__`/`__contains__`/`__eq__`/`_to_dict` of
`Structured` and the default merger. Not obligations. -/
namespace FormulaicVerif.Proofs.C19
open FormulaicVerif.Model FormulaicVerif.Model.St FormulaicVerif.Model.StOps FormulaicVerif.Spec.Containers
open FormulaicVerif.Spec.ContainerOps

variable {α : Type}

/-! ### iteration -/

theorem iterV_node (li : α → Option (List (Val α))) (kvs : Items α) :
    iterV li (.node kvs) =
      if rootOnly kvs then
        match kvs.lookup "root" with
        | some (.tup vs) => vs
        | some (.node kvs') => iterV li (.node kvs')
        | some (.leaf a) =>
          (match li a with
           | some xs => xs
           | none => rootFirst kvs)
        | none => rootFirst kvs
      else rootFirst kvs := by
  cases kvs with
  | nil => simp [iterV, rootOnly, rootFirst]
  | cons kv rest =>
    obtain ⟨k, r⟩ := kv
    by_cases h : rootOnly ((k, r) :: rest) = true
    · obtain ⟨k', r', rest', he, hl⟩ := rootOnly_lookup _ h
      simp only [List.cons.injEq, Prod.mk.injEq] at he
      obtain ⟨⟨rfl, rfl⟩, rfl⟩ := he
      cases r <;> simp only [iterV, h, if_true, hl] <;> rfl
    · cases r <;> simp only [iterV, h, Bool.false_eq_true, if_false]

theorem foldl_count {β : Type} (l : List β) (m : Nat) : l.foldl (fun n _ => n + 1) m = m + l.length := by
  induction l generalizing m with
  | nil => simp
  | cons x r ih => simp [ih]; omega

theorem filter_key_nil {γ : Type} (r : List (String × γ)) (k : String) (h : k ∉ r.map (·.1)) :
    r.filter (fun kv => kv.1 == k) = [] := by
  induction r with
  | nil => rfl
  | cons e r ih =>
    simp only [List.map_cons, List.mem_cons, not_or] at h
    have hb : (e.1 == k) = false := by simpa using (Ne.symm h.1)
    simp [hb, ih h.2]

theorem lookup_toList_filter {γ : Type} (d : List (String × γ)) (k : String) (hn : (d.map (·.1)).Nodup) :
    (d.lookup k).toList = (d.filter (fun kv => kv.1 == k)).map (·.2) := by
  induction d with
  | nil => rfl
  | cons e r ih =>
    obtain ⟨k0, v0⟩ := e
    simp only [List.map_cons, List.nodup_cons] at hn
    by_cases h : k = k0
    · subst h
      simp [List.lookup, filter_key_nil r k hn.1]
    · have hb : (k == k0) = false := by simpa using h
      have hb' : (k0 == k) = false := by simpa using (Ne.symm h)
      simp [List.lookup, hb, hb', ih hn.2]

theorem rootFirst_eq (kvs : Items α) (hn : (kvs.map (·.1)).Nodup) :
    rootFirst kvs =
      ((kvs.filter (fun kv => isRootKey kv.1)) ++ kvs.filter (fun kv => !isRootKey kv.1)).map (·.2) := by
  unfold rootFirst
  rw [lookup_toList_filter kvs "root" hn, List.map_append]
  rfl

theorem rootFirst_perm (kvs : Items α) (hn : (kvs.map (·.1)).Nodup) :
    (rootFirst kvs).Perm (kvs.map (·.2)) := by
  rw [rootFirst_eq kvs hn]
  exact (List.filter_append_perm _ kvs).map _

theorem rootFirst_no_root (kvs : Items α) (h : hasRoot kvs = false) : rootFirst kvs = kvs.map (·.2) := by
  unfold rootFirst
  have hl : kvs.lookup "root" = none := by
    apply lookup_eq_none_of_not_mem
    intro hm
    obtain ⟨kv, hkv, he⟩ := List.mem_map.1 hm
    have : hasRoot kvs = true := by
      unfold hasRoot
      exact List.any_eq_true.2 ⟨kv, hkv, by simp [isRootKey, he]⟩
    rw [h] at this; cases this
  have hf : kvs.filter (fun kv => !isRootKey kv.1) = kvs := by
    apply List.filter_eq_self.2
    intro kv hkv
    unfold hasRoot at h
    have := (List.any_eq_false.1 h) kv hkv
    simpa using this
  rw [hl, hf]; rfl

theorem contains_str (kvs : Items α) (s : String) : StOps.contains kvs (.str s) = (kvs.lookup s).isSome := by
  induction kvs with
  | nil => rfl
  | cons e r ih =>
    obtain ⟨k0, v0⟩ := e
    simp only [StOps.contains, List.any_cons] at ih ⊢
    by_cases h : s = k0
    · subst h; simp [List.lookup]
    · have hb : (s == k0) = false := by simpa using h
      have hb' : (k0 == s) = false := by simpa using (Ne.symm h)
      simp [List.lookup, hb, hb', ih]

/-! ### iteration covers the leaves -/

theorem flatMap_flatten_values (kvs : Items α) : (kvs.map (·.2)).flatMap flatten = flattenI kvs := by
  induction kvs with
  | nil => rfl
  | cons e r ih => obtain ⟨k, v⟩ := e; simp [flattenI, ih]

theorem flatMap_flatten_tup (vs : List (Val α)) : vs.flatMap flatten = flattenT vs := by
  induction vs with
  | nil => rfl
  | cons v r ih => simp [flattenT, ih]

/-- iteration of a structure whose leaves are not iterable covers exactly its leaves -/
theorem iterV_covers : ∀ (v : Val α), WF v → v.isNode = true →
    ((iterV (fun _ => none) v).flatMap flatten).Perm (flatten v)
  | .leaf a, _, h => by simp [Val.isNode] at h
  | .tup vs, _, h => by simp [Val.isNode] at h
  | .node kvs, hw, _ => by
    rw [iterV_node]
    simp only [WF] at hw
    by_cases hr : rootOnly kvs = true
    · obtain ⟨k, r, rest, he, hl⟩ := rootOnly_lookup kvs hr
      simp only [hr, if_true, hl]
      have hrest : rest = [] := by
        subst he
        simp only [rootOnly, List.isEmpty_cons, Bool.not_false, Bool.true_and, List.all_cons,
          Bool.and_eq_true] at hr
        have hk : k = "root" := by simpa [isRootKey] using hr.1
        subst hk
        cases rest with
        | nil => rfl
        | cons e r' =>
          exfalso
          have h1 := hw.1
          simp only [List.map_cons, List.nodup_cons, List.mem_cons, not_or] at h1
          have h2 := hr.2
          simp only [List.all_cons, Bool.and_eq_true] at h2
          have : e.1 = "root" := by simpa [isRootKey] using h2.1
          exact h1.1.1 this.symm
      subst hrest; subst he
      have hk : k = "root" := by
        simp only [rootOnly, List.isEmpty_cons, Bool.not_false, Bool.true_and, List.all_cons,
          Bool.and_eq_true] at hr
        simpa [isRootKey] using hr.1
      subst hk
      cases r with
      | tup vs => simp [flatten, flattenI, flatMap_flatten_tup]
      | leaf a => simp [flatten, flattenI, rootFirst, List.lookup, isRootKey]
      | node kvs' =>
        have hw' : WF (.node kvs') := by simpa [WFI] using hw.2.1
        have := iterV_covers (.node kvs') hw' rfl
        simpa [flatten, flattenI] using this
    · simp only [hr, Bool.false_eq_true, if_false]
      have := (rootFirst_perm kvs hw.1).flatMap_right flatten
      rw [flatMap_flatten_values] at this
      simpa [flatten] using this

/-! ### `__eq__` -/

mutual
theorem valEq_refl (leq : α → α → Bool) (hr : ∀ a, leq a a = true) : ∀ v : Val α, WF v → valEq leq v v = true
  | .leaf a, _ => by simp [valEq, hr]
  | .tup vs, hw => by
    simp only [valEq]
    exact tupEq_refl leq hr vs (by simpa [WF] using hw)
  | .node kvs, hw => by
    simp only [WF] at hw
    simp only [valEq, beq_self_eq_true, Bool.true_and]
    exact itemsSub_of_lookup leq hr kvs kvs hw.2 (fun kv hkv => lookup_of_mem_nodup kvs kv.1 kv.2 hkv hw.1)
theorem tupEq_refl (leq : α → α → Bool) (hr : ∀ a, leq a a = true) : ∀ vs : List (Val α), WFT vs → tupEq leq vs vs = true
  | [], _ => by simp [tupEq]
  | v :: vs, hw => by
    simp only [WFT] at hw
    simp [tupEq, valEq_refl leq hr v hw.1, tupEq_refl leq hr vs hw.2]
/-- every item of `r` is found in `other` with the same value: the dict comparison succeeds -/
theorem itemsSub_of_lookup (leq : α → α → Bool) (hr : ∀ a, leq a a = true) : ∀ (r other : Items α), WFI r →
    (∀ kv ∈ r, other.lookup kv.1 = some kv.2) → itemsSub leq r other = true
  | [], _, _, _ => by simp [itemsSub]
  | (k, v) :: r, other, hw, h => by
    simp only [WFI] at hw
    have h1 := h (k, v) (by simp)
    simp only at h1
    simp only [itemsSub, h1, Bool.and_eq_true]
    exact ⟨valEq_refl leq hr v hw.1, itemsSub_of_lookup leq hr r other hw.2 (fun kv hkv => h kv (by simp [hkv]))⟩
end

theorem lookup_normI (kvs : Items α) (k : String) : (normI kvs).lookup k = (kvs.lookup k).map norm := by
  induction kvs with
  | nil => rfl
  | cons e r ih =>
    obtain ⟨k0, v0⟩ := e
    simp only [normI, List.lookup]
    cases k == k0 <;> simp [ih]

mutual
theorem valEq_norm (leq : α → α → Bool) (hr : ∀ a, leq a a = true) : ∀ v : Val α, WF v → valEq leq v (norm v) = true
  | .leaf a, _ => by simp [valEq, norm, hr]
  | .tup vs, hw => by
    simp only [valEq, norm]
    exact tupEq_norm leq hr vs (by simpa [WF] using hw)
  | .node kvs, hw => by
    simp only [WF] at hw
    simp only [valEq, norm, Bool.and_eq_true, beq_iff_eq]
    refine ⟨?_, itemsSub_norm leq hr kvs _ hw.2 (fun kv hkv => ?_)⟩
    · rw [(rootLast_perm (normI kvs)).length_eq, normI_eq]; simp
    · rw [lookup_rootLast, lookup_normI, lookup_of_mem_nodup kvs kv.1 kv.2 hkv hw.1]; rfl
theorem tupEq_norm (leq : α → α → Bool) (hr : ∀ a, leq a a = true) : ∀ vs : List (Val α), WFT vs →
    tupEq leq vs (normT vs) = true
  | [], _ => by simp [tupEq, normT]
  | v :: vs, hw => by
    simp only [WFT] at hw
    simp [tupEq, normT, valEq_norm leq hr v hw.1, tupEq_norm leq hr vs hw.2]
theorem itemsSub_norm (leq : α → α → Bool) (hr : ∀ a, leq a a = true) : ∀ (r other : Items α), WFI r →
    (∀ kv ∈ r, other.lookup kv.1 = some (norm kv.2)) → itemsSub leq r other = true
  | [], _, _, _ => by simp [itemsSub]
  | (k, v) :: r, other, hw, h => by
    simp only [WFI] at hw
    have h1 := h (k, v) (by simp)
    simp only at h1
    simp only [itemsSub, h1, Bool.and_eq_true]
    exact ⟨valEq_norm leq hr v hw.1, itemsSub_norm leq hr r other hw.2 (fun kv hkv => h kv (by simp [hkv]))⟩
end

theorem itemsSub_iff (leq : α → α → Bool) (other : Items α) : ∀ r : Items α,
    itemsSub leq r other = true ↔ ∀ kv ∈ r, ∃ w, other.lookup kv.1 = some w ∧ valEq leq kv.2 w = true
  | [] => by simp [itemsSub]
  | (k, v) :: r => by
    simp only [itemsSub, Bool.and_eq_true, itemsSub_iff leq other r, List.mem_cons, forall_eq_or_imp]
    constructor
    · rintro ⟨h1, h2⟩
      refine ⟨?_, h2⟩
      cases hl : other.lookup k with
      | none => rw [hl] at h1; simp at h1
      | some w => rw [hl] at h1; exact ⟨w, rfl, h1⟩
    · rintro ⟨⟨w, hl, hw⟩, h2⟩
      exact ⟨by rw [hl]; exact hw, h2⟩

/-! ### `_to_dict` -/

mutual
theorem toVal_toDictV (r : Bool) : ∀ v : Val α, (toDictV r v).toVal = v
  | .leaf a => by simp [toDictV, DVal.toVal]
  | .tup vs => by simp [toDictV, DVal.toVal, toValT_toDictT r vs]
  | .node kvs => by
    cases r
    · simp [toDictV, DVal.toVal]
    · simp [toDictV, DVal.toVal, toValI_toDictI kvs]
theorem toValT_toDictT (r : Bool) : ∀ vs : List (Val α), DVal.toValT (toDictT r vs) = vs
  | [] => by simp [toDictT, DVal.toValT]
  | v :: vs => by simp [toDictT, DVal.toValT, toVal_toDictV r v, toValT_toDictT r vs]
theorem toValI_toDictI : ∀ kvs : Items α, DVal.toValI (toDictI kvs) = kvs
  | [] => by simp [toDictI, DVal.toValI]
  | (k, v) :: r => by simp [toDictI, DVal.toValI, toVal_toDictV true v, toValI_toDictI r]
end

mutual
theorem plain_toDictV : ∀ v : Val α, (toDictV true v).plain = true
  | .leaf a => by simp [toDictV, DVal.plain]
  | .tup vs => by simp [toDictV, DVal.plain, plainT_toDictT vs]
  | .node kvs => by simp [toDictV, DVal.plain, plainI_toDictI kvs]
theorem plainT_toDictT : ∀ vs : List (Val α), DVal.plainT (toDictT true vs) = true
  | [] => by simp [toDictT, DVal.plainT]
  | v :: vs => by simp [toDictT, DVal.plainT, plain_toDictV v, plainT_toDictT vs]
theorem plainI_toDictI : ∀ kvs : Items α, DVal.plainI (toDictI kvs) = true
  | [] => by simp [toDictI, DVal.plainI]
  | (k, v) :: r => by simp [toDictI, DVal.plainI, plain_toDictV v, plainI_toDictI r]
end

theorem toValI_toDict (r : Bool) (kvs : Items α) : DVal.toValI (toDict r kvs) = kvs := by
  induction kvs with
  | nil => simp [toDict, DVal.toValI]
  | cons e rest ih => obtain ⟨k, v⟩ := e; simp [toDict, DVal.toValI, toVal_toDictV, ih]

theorem keys_toDict (r : Bool) (kvs : Items α) : (toDict r kvs).map (·.1) = kvs.map (·.1) := by
  induction kvs with
  | nil => simp [toDict]
  | cons e rest ih => obtain ⟨k, v⟩ := e; simp [toDict, ih]

theorem plainI_toDict (kvs : Items α) : DVal.plainI (toDict true kvs) = true := by
  induction kvs with
  | nil => simp [toDict, DVal.plainI]
  | cons e rest ih => obtain ⟨k, v⟩ := e; simp [toDict, DVal.plainI, plain_toDictV, ih]

/-! ### the default merger -/

theorem mem_foldl_setAdd (it s : List Int) (x : Int) : x ∈ it.foldl setAdd s ↔ x ∈ s ∨ x ∈ it := by
  induction it generalizing s with
  | nil => simp
  | cons y r ih =>
    rw [List.foldl_cons, ih]
    unfold setAdd
    by_cases hy : s.contains y = true
    · simp only [hy, if_true, List.mem_cons]
      constructor
      · rintro (h | h)
        · exact Or.inl h
        · exact Or.inr (Or.inr h)
      · rintro (h | h | h)
        · exact Or.inl h
        · subst h; exact Or.inl (by simpa using hy)
        · exact Or.inr h
    · simp only [hy, Bool.false_eq_true, if_false, List.mem_append, List.mem_cons, List.not_mem_nil,
        or_false, or_assoc]

theorem nodup_foldl_setAdd (it s : List Int) (h : s.Nodup) : (it.foldl setAdd s).Nodup := by
  induction it generalizing s with
  | nil => exact h
  | cons y r ih =>
    rw [List.foldl_cons]
    apply ih
    unfold setAdd
    by_cases hy : s.contains y = true
    · simp only [hy, if_true]; exact h
    · simp only [hy, Bool.false_eq_true, if_false]
      refine List.nodup_append.2 ⟨h, by simp, ?_⟩
      intro a ha b hb
      simp only [List.mem_singleton] at hb
      subst hb
      intro e; subst e
      exact hy (by simpa using ha)

theorem mem_setUnion_aux (items : List (List Int)) (s : List Int) (x : Int) :
    x ∈ items.foldl (fun s it => it.foldl setAdd s) s ↔ x ∈ s ∨ ∃ it ∈ items, x ∈ it := by
  induction items generalizing s with
  | nil => simp
  | cons it r ih =>
    rw [List.foldl_cons, ih, mem_foldl_setAdd]
    simp only [List.mem_cons, exists_eq_or_imp, or_assoc]

theorem mem_setUnion (items : List (List Int)) (x : Int) : x ∈ setUnion items ↔ ∃ it ∈ items, x ∈ it := by
  unfold setUnion
  rw [mem_setUnion_aux]; simp

theorem nodup_setUnion (items : List (List Int)) : (setUnion items).Nodup := by
  unfold setUnion
  suffices h : ∀ s : List Int, s.Nodup → (items.foldl (fun s it => it.foldl setAdd s) s).Nodup from
    h [] List.nodup_nil
  induction items with
  | nil => intro s hs; exact hs
  | cons it r ih => intro s hs; rw [List.foldl_cons]; exact ih _ (nodup_foldl_setAdd it s hs)

theorem lookup_foldl_dictUpdate (ds : List (List (String × Int))) (acc : List (String × Int))
    (hn : ∀ d ∈ ds, (d.map (·.1)).Nodup) (k : String) :
    (ds.foldl (fun d it => dictUpdate d it) acc).lookup k =
      match ds.reverse.findSome? (fun d => d.lookup k) with
      | some v => some v
      | none => acc.lookup k := by
  induction ds generalizing acc with
  | nil => simp
  | cons d r ih =>
    rw [List.foldl_cons, ih _ (fun d' hd' => hn d' (by simp [hd'])), List.reverse_cons,
      List.findSome?_append]
    cases hr : r.reverse.findSome? (fun d => d.lookup k) with
    | some v => simp
    | none =>
      simp only [Option.none_or, List.findSome?_cons, List.findSome?_nil]
      rw [lookup_dictUpdate acc d (hn d (by simp))]
      cases d.lookup k <;> rfl

theorem all_isList_map_set (xss : List (List Int)) (h : xss ≠ []) :
    (xss.map Leaf.set).all Leaf.isList = false := by
  cases xss with
  | nil => exact absurd rfl h
  | cons x r => simp [Leaf.isList]

theorem all_isList_map_dict (ds : List (List (String × Int))) (h : ds ≠ []) :
    (ds.map Leaf.dict).all Leaf.isList = false ∧ (ds.map Leaf.dict).all Leaf.isSet = false := by
  cases ds with
  | nil => exact absurd rfl h
  | cons x r => simp [Leaf.isList, Leaf.isSet]

theorem map_listElems (xss : List (List Int)) : (xss.map Leaf.list).flatMap Leaf.listElems = xss.flatten := by
  induction xss with
  | nil => rfl
  | cons x r ih => simp [List.flatMap_cons, Leaf.listElems, ih]

theorem map_setElems (xss : List (List Int)) : (xss.map Leaf.set).map Leaf.setElems = xss := by
  induction xss with
  | nil => rfl
  | cons x r ih => simp only [List.map_cons, Leaf.setElems, ih]

theorem map_dictItems (ds : List (List (String × Int))) : (ds.map Leaf.dict).map Leaf.dictItems = ds := by
  induction ds with
  | nil => rfl
  | cons x r ih => simp only [List.map_cons, Leaf.dictItems, ih]

theorem flatMap_leafOf_lists (xss : List (List Int)) :
    (xss.map (fun xs => Val.leaf (Leaf.list xs))).flatMap leafOf = xss.map Leaf.list := by
  induction xss with
  | nil => rfl
  | cons x r ih => simp [List.flatMap_cons, leafOf, ih]

/-! ### the key invariant of a `Structured` survives every container operation -/

theorem goodKeys_child (kvs : Items α) (k : String) (c : Val α) (h : GoodKeysI kvs) (hl : kvs.lookup k = some c) :
    GoodKeys c := by
  induction kvs with
  | nil => simp at hl
  | cons e r ih =>
    obtain ⟨k0, v0⟩ := e
    simp only [GoodKeysI] at h
    simp only [List.lookup] at hl
    cases hk : k == k0 with
    | true => rw [hk] at hl; cases hl; exact h.1
    | false => rw [hk] at hl; exact ih h.2 hl

theorem goodKeysT_child (vs : List (Val α)) (n : Nat) (c : Val α) (h : GoodKeysT vs) (hv : vs[n]? = some c) :
    GoodKeys c := by
  induction vs generalizing n with
  | nil => simp at hv
  | cons v r ih =>
    simp only [GoodKeysT] at h
    cases n with
    | zero => simp at hv; subst hv; exact h.1
    | succ m => exact ih m h.2 (by simpa using hv)

theorem goodKeysT_set (vs : List (Val α)) (n : Nat) (c : Val α) (h : GoodKeysT vs) (hc : GoodKeys c) :
    GoodKeysT (vs.set n c) := by
  induction vs generalizing n with
  | nil => simpa using h
  | cons v r ih =>
    simp only [GoodKeysT] at h
    cases n with
    | zero => simp only [List.set_cons_zero, GoodKeysT]; exact ⟨hc, h.2⟩
    | succ m => simp only [List.set_cons_succ, GoodKeysT]; exact ⟨h.1, ih m h.2⟩

theorem goodKeysI_dictSet (kvs : Items α) (k : String) (v : Val α) (h : GoodKeysI kvs) (hv : GoodKeys v) :
    GoodKeysI (dictSet kvs k v) := by
  induction kvs with
  | nil => simp only [dictSet, GoodKeysI]; exact ⟨hv, trivial⟩
  | cons e r ih =>
    obtain ⟨k0, v0⟩ := e
    simp only [GoodKeysI] at h
    simp only [dictSet]
    split
    · simp only [GoodKeysI]; exact ⟨hv, h.2⟩
    · simp only [GoodKeysI]; exact ⟨h.1, ih h.2⟩

theorem all_good_dictSet (kvs : Items α) (k : String) (v : Val α)
    (h : kvs.all (fun kv => !badKey kv.1) = true) (hk : badKey k = false) :
    (dictSet kvs k v).all (fun kv => !badKey kv.1) = true := by
  induction kvs with
  | nil => simp [dictSet, hk]
  | cons e r ih =>
    obtain ⟨k0, v0⟩ := e
    simp only [List.all_cons, Bool.and_eq_true] at h
    simp only [dictSet]
    split
    · simp only [List.all_cons, Bool.and_eq_true]; exact ⟨h.1, h.2⟩
    · simp only [List.all_cons, Bool.and_eq_true]; exact ⟨h.1, ih h.2⟩

theorem goodKeys_dictSet (kvs : Items α) (k : String) (v : Val α) (h : GoodKeys (.node kvs))
    (hk : badKey k = false) (hv : GoodKeys v) : GoodKeys (.node (dictSet kvs k v)) := by
  simp only [GoodKeys] at h ⊢
  refine ⟨?_, all_good_dictSet kvs k v h.2.1 hk, goodKeysI_dictSet kvs k v h.2.2 hv⟩
  rw [keys_dictSet]; exact addKey_nodup _ _ h.1

theorem goodKeys_setKey (kvs kvs' : Items α) (key : Key) (v : Val α) (h : GoodKeys (.node kvs)) (hv : GoodKeys v)
    (hs : setKey kvs key v = .ok kvs') : GoodKeys (.node kvs') := by
  cases key with
  | none => simp [setKey] at hs
  | int i => simp [setKey] at hs
  | str k =>
    simp only [setKey] at hs
    split at hs
    · cases hs
    · split at hs
      · cases hs
      · rename_i hb
        simp only [Except.ok.injEq] at hs
        subst hs
        exact goodKeys_dictSet kvs k v h (by simpa using hb) hv

theorem goodKeys_setAt : ∀ (p : List Key) (last : Key) (s v s' : Val α), GoodKeys s → GoodKeys v →
    setAt p last s v = .ok s' → GoodKeys s'
  | [], last, .node kvs, v, s', hg, hv, h => by
    simp only [setAt] at h
    cases hs : setKey kvs last v with
    | error e => rw [hs] at h; simp [Except.map] at h
    | ok r =>
      rw [hs] at h
      simp only [Except.map, Except.ok.injEq] at h
      subst h
      exact goodKeys_setKey kvs r last v hg hv hs
  | [], last, .tup vs, v, s', _, _, h => by simp [setAt] at h
  | [], last, .leaf a, v, s', _, _, h => by simp [setAt] at h
  | .str k0 :: p, last, .node kvs, v, s', hg, hv, h => by
    simp only [setAt] at h
    cases hl : kvs.lookup k0 with
    | none => simp [hl] at h
    | some c =>
      simp only [hl] at h
      cases hs : setAt p last c v with
      | error e => rw [hs] at h; simp [Except.map] at h
      | ok c' =>
        rw [hs] at h
        simp only [Except.map, Except.ok.injEq] at h
        subst h
        have hg' := hg
        simp only [GoodKeys] at hg'
        have hc : GoodKeys c := goodKeys_child kvs k0 c hg'.2.2 hl
        have hc' := goodKeys_setAt p last c v c' hc hv hs
        have hk0 : badKey k0 = false := by
          have hmem : ∃ kv ∈ kvs, kv.1 = k0 := by
            apply Classical.byContradiction
            intro hne
            have : k0 ∉ kvs.map (·.1) := by
              intro hm
              obtain ⟨kv, hkv, he⟩ := List.mem_map.1 hm
              exact hne ⟨kv, hkv, he⟩
            rw [lookup_eq_none_of_not_mem kvs k0 this] at hl
            cases hl
          obtain ⟨kv, hkv, he⟩ := hmem
          have := (List.all_eq_true.1 hg'.2.1) kv hkv
          rw [he] at this
          simpa using this
        exact goodKeys_dictSet kvs k0 c' hg hk0 hc'
  | .int i :: p, last, .tup vs, v, s', hg, hv, h => by
    simp only [setAt] at h
    cases hi : pyIdx i vs.length with
    | none => simp [hi] at h
    | some n =>
      simp only [hi] at h
      cases hvs : vs[n]? with
      | none => simp [hvs] at h
      | some c =>
        simp only [hvs] at h
        cases hs : setAt p last c v with
        | error e => rw [hs] at h; simp [Except.map] at h
        | ok c' =>
          rw [hs] at h
          simp only [Except.map, Except.ok.injEq] at h
          subst h
          simp only [GoodKeys] at hg ⊢
          exact goodKeysT_set vs n c' hg (goodKeys_setAt p last c v c' (goodKeysT_child vs n c hg hvs) hv hs)
  | .str k0 :: p, last, .tup vs, v, s', _, _, h => by simp [setAt] at h
  | .str k0 :: p, last, .leaf a, v, s', _, _, h => by simp [setAt] at h
  | .int i :: p, last, .node kvs, v, s', _, _, h => by simp [setAt] at h
  | .int i :: p, last, .leaf a, v, s', _, _, h => by simp [setAt] at h
  | .none :: p, last, s, v, s', _, _, h => by cases s <;> simp [setAt] at h

theorem goodKeys_setAny (kvs kvs' : Items α) (key : AnyKey) (v : Val α) (h : GoodKeys (.node kvs))
    (hv : GoodKeys v) (hs : setAny kvs key v = .ok kvs') : GoodKeys (.node kvs') := by
  cases key with
  | plain k => exact goodKeys_setKey kvs kvs' k v h hv hs
  | path p =>
    cases p with
    | nil => simp [setAny] at hs
    | cons k p =>
      simp only [setAny] at hs
      split at hs
      · rename_i r heq
        simp only [Except.ok.injEq] at hs
        subst hs
        exact goodKeys_setAt _ _ _ v _ h hv heq
      · cases hs
      · cases hs

theorem goodKeys_setAttr (kvs kvs' : Items α) (a : String) (v : Val α) (h : GoodKeys (.node kvs))
    (hv : GoodKeys v) (hs : setAttr kvs a v = .ok kvs') : GoodKeys (.node kvs') := by
  unfold setAttr at hs
  split at hs
  · split at hs
    · cases hs; exact h
    · cases hs
  · rename_i hb
    simp only [Except.ok.injEq] at hs
    subst hs
    exact goodKeys_dictSet kvs a v h (by simpa using hb) hv

theorem goodKeys_step (L : LeafOps α) (kvs : Items α) (op : Op α) (h : GoodKeys (.node kvs))
    (hv : ∀ v, Op.newVal op = some v → GoodKeys v) : GoodKeys (.node (step L kvs op).1) := by
  cases op with
  | set k v =>
    simp only [step]
    cases hs : setAny kvs k v with
    | ok kvs' => exact goodKeys_setAny kvs kvs' k v h (hv v rfl) hs
    | error e => exact h
  | setattr a v =>
    simp only [step]
    cases hs : setAttr kvs a v with
    | ok kvs' => exact goodKeys_setAttr kvs kvs' a v h (hv v rfl) hs
    | error e => exact h
  | get k => exact h
  | getattr a => exact h
  | iter => exact h
  | len => exact h
  | contains k => exact h
  | eq o => exact h
  | toDict r => exact h

theorem step_readonly (L : LeafOps α) (kvs : Items α) (op : Op α) (h : Op.mutating op = false) :
    (step L kvs op).1 = kvs := by
  cases op <;> first | rfl | (simp [Op.mutating] at h)

end FormulaicVerif.Proofs.C19
