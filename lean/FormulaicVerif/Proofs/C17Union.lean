import FormulaicVerif.Spec.Variables
/-! Helper lemmas for C17: `set(...)` de-duplication and `Variable.union`. Not obligations. -/
namespace FormulaicVerif.Proofs.C17
open FormulaicVerif.Model FormulaicVerif.Model.Variables

/-! ### first-occurrence de-duplication -/
theorem mem_dedupAux {α : Type} (key : α → String) :
    ∀ (xs : List α) (seen : List String) (x : α), x ∈ dedupAux key seen xs → x ∈ xs
  | [], _, x, h => by simp [dedupAux] at h
  | y :: ys, seen, x, h => by
    simp only [dedupAux] at h
    split at h
    · exact List.mem_cons_of_mem _ (mem_dedupAux key ys seen x h)
    · rcases List.mem_cons.1 h with h1 | h2
      · exact h1 ▸ List.mem_cons_self
      · exact List.mem_cons_of_mem _ (mem_dedupAux key ys _ x h2)

theorem exists_dedupAux {α : Type} (key : α → String) :
    ∀ (xs : List α) (seen : List String) (x : α), x ∈ xs → seen.contains (key x) = false →
      ∃ u ∈ dedupAux key seen xs, key u = key x
  | [], _, x, h, _ => by cases h
  | y :: ys, seen, x, h, hs => by
    simp only [dedupAux]
    by_cases hy : seen.contains (key y) = true
    · simp only [hy, if_true]
      rcases List.mem_cons.1 h with h1 | h2
      · subst h1; rw [hy] at hs; cases hs
      · exact exists_dedupAux key ys seen x h2 hs
    · simp only [hy, Bool.false_eq_true, if_false]
      by_cases hk : key x = key y
      · exact ⟨y, List.mem_cons_self, hk.symm⟩
      · rcases List.mem_cons.1 h with h1 | h2
        · subst h1; exact absurd rfl hk
        · have : (key y :: seen).contains (key x) = false := by
            simp only [List.contains_cons, hs, Bool.or_false]
            simpa using hk
          obtain ⟨u, hu, hku⟩ := exists_dedupAux key ys (key y :: seen) x h2 this
          exact ⟨u, List.mem_cons_of_mem _ hu, hku⟩

theorem mem_dedupFirst (vs : List Var) (v : Var) (h : v ∈ dedupFirst vs) : v ∈ vs :=
  mem_dedupAux _ vs [] v h

theorem exists_dedupFirst (vs : List Var) (v : Var) (h : v ∈ vs) :
    ∃ u ∈ dedupFirst vs, u.name = v.name :=
  exists_dedupAux _ vs [] v h (by simp)

/-! ### `Variable.union` -/
theorem unionInsert_keeps (acc : List Var) (v x : Var) (hx : x ∈ acc) :
    ∃ u ∈ unionInsert acc v, u.name = x.name := by
  simp only [unionInsert]
  split
  · by_cases hn : (x.name == v.name) = true
    · refine ⟨_, List.mem_map.2 ⟨x, hx, rfl⟩, ?_⟩
      simp only [hn, if_true]
      exact (by simpa using hn : x.name = v.name).symm
    · refine ⟨x, List.mem_map.2 ⟨x, hx, ?_⟩, rfl⟩
      simp [hn]
  · exact ⟨x, by simp [hx], rfl⟩

theorem unionInsert_adds (acc : List Var) (v : Var) : ∃ u ∈ unionInsert acc v, u.name = v.name := by
  simp only [unionInsert]
  split
  · rename_i h
    obtain ⟨x, hx, hn⟩ := List.any_eq_true.1 h
    refine ⟨_, List.mem_map.2 ⟨x, hx, rfl⟩, ?_⟩
    simp [hn]
  · exact ⟨v, by simp, rfl⟩

theorem unionInsert_from (acc : List Var) (v u : Var) (hu : u ∈ unionInsert acc v) :
    u ∈ acc ∨ (u.name = v.name ∧ u.source = v.source) := by
  simp only [unionInsert] at hu
  split at hu
  · obtain ⟨x, hx, hxu⟩ := List.mem_map.1 hu
    by_cases hn : (x.name == v.name) = true
    · simp only [hn, if_true] at hxu
      subst hxu; exact Or.inr ⟨rfl, rfl⟩
    · simp only [hn, Bool.false_eq_true, if_false] at hxu
      subst hxu; exact Or.inl hx
  · rcases List.mem_append.1 hu with h1 | h2
    · exact Or.inl h1
    · have : u = v := by simpa using h2
      subst this; exact Or.inr ⟨rfl, rfl⟩

theorem foldl_union_names (vs : List Var) :
    ∀ (acc : List Var) (x : Var), (x ∈ acc ∨ x ∈ vs) → ∃ u ∈ vs.foldl unionInsert acc, u.name = x.name := by
  induction vs with
  | nil => intro acc x h; rcases h with h | h; exact ⟨x, h, rfl⟩; cases h
  | cons v r ih =>
    intro acc x h
    simp only [List.foldl_cons]
    rcases h with h | h
    · obtain ⟨u, hu, hn⟩ := unionInsert_keeps acc v x h
      obtain ⟨w, hw, hwn⟩ := ih (unionInsert acc v) u (Or.inl hu)
      exact ⟨w, hw, hwn.trans hn⟩
    · rcases List.mem_cons.1 h with h1 | h2
      · subst h1
        obtain ⟨u, hu, hn⟩ := unionInsert_adds acc x
        obtain ⟨w, hw, hwn⟩ := ih (unionInsert acc x) u (Or.inl hu)
        exact ⟨w, hw, hwn.trans hn⟩
      · exact ih (unionInsert acc v) x (Or.inr h2)

theorem foldl_union_from (vs : List Var) :
    ∀ (acc : List Var) (u : Var), u ∈ vs.foldl unionInsert acc →
      u ∈ acc ∨ ∃ v ∈ vs, v.name = u.name ∧ v.source = u.source := by
  induction vs with
  | nil => intro acc u h; exact Or.inl h
  | cons v r ih =>
    intro acc u h
    simp only [List.foldl_cons] at h
    rcases ih (unionInsert acc v) u h with h1 | ⟨w, hw, hn⟩
    · rcases unionInsert_from acc v u h1 with h2 | ⟨h2, h3⟩
      · exact Or.inl h2
      · exact Or.inr ⟨v, by simp, h2.symm, h3.symm⟩
    · exact Or.inr ⟨w, List.mem_cons_of_mem _ hw, hn⟩

/-- every input name survives the union -/
theorem union_names (vs : List Var) (x : Var) (h : x ∈ vs) : ∃ u ∈ union vs, u.name = x.name :=
  foldl_union_names vs [] x (Or.inr h)

/-- every variable of the union carries the name and source of some input -/
theorem union_from (vs : List Var) (u : Var) (h : u ∈ union vs) :
    ∃ v ∈ vs, v.name = u.name ∧ v.source = u.source := by
  rcases foldl_union_from vs [] u h with h1 | h2
  · cases h1
  · exact h2

end FormulaicVerif.Proofs.C17
