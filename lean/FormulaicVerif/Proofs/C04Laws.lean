import FormulaicVerif.Proofs.C04Select
import FormulaicVerif.Proofs.C13Scale
namespace FormulaicVerif.Proofs.C04
open FormulaicVerif.Model FormulaicVerif.Model.Replay FormulaicVerif.Spec.Replay

variable {α β σ ε : Type}

/-- the selection law follows from the row-wise law -/
theorem run_select {t : T α β σ ε} {Good : σ → Prop} (L : Lawful t Good) (st : σ) (hg : Good st)
    (xs : List α) (out : List β) (st' : σ) (h : t.run st xs = .ok (out, st')) (is : List Nat) :
    t.run st (select is xs) = .ok (select is out, st) := by
  obtain ⟨r', hr'⟩ := L.closed st xs (select is xs) _ hg h (fun y hy => mem_select hy)
  obtain ⟨o', s'⟩ := r'
  obtain ⟨ho, hs⟩ := L.rowwise st _ o' s' hg hr'
  obtain ⟨ho2, _⟩ := L.rowwise st xs out st' hg h
  rw [hr', ho, hs, ho2, select_map]

/-! ## scale -/
open FormulaicVerif.Proofs.C13 in
theorem scaleRow_eq (d c s : Option Rat) :
    scaleRow ⟨d, some c, some s⟩ = applyStats c s := by
  funext x
  cases c <;> cases s <;> rfl

open FormulaicVerif.Proofs.C13 in
theorem scale_lawful (sqrt : Rat → Rat) (ca sa : Scale.Arg Rat) (dd : Rat) :
    Lawful (scaleT sqrt ca sa dd) ScaleComplete := by
  have key : ∀ (xs : List Rat) (st : Scale.State Rat) (out : List Rat) (st1 : Scale.State Rat),
      Scale.run sqrt xs ca sa dd st = .ok (out, st1) →
      ∃ d c s, st1 = ⟨some d, some c, some s⟩ ∧ s ≠ some 0 ∧ out = xs.map (applyStats c s) :=
    fun xs st out st1 h => run_state_complete sqrt xs ca sa dd st out st1 h
  have hrec : ∀ (ys : List Rat) (d : Rat) (c s : Option Rat), s ≠ some 0 →
      Scale.run sqrt ys ca sa dd ⟨some d, some c, some s⟩ =
        .ok (ys.map (applyStats c s), ⟨some d, some c, some s⟩) :=
    fun ys d c s hs => run_recorded sqrt ys ca sa dd d c s hs
  -- a replay on a complete state
  have good : ∀ (st : Scale.State Rat) (xs : List Rat) (out : List Rat) (st' : Scale.State Rat),
      ScaleComplete st → (scaleT sqrt ca sa dd).run st xs = .ok (out, st') →
      out = xs.map (scaleRow st) ∧ st' = st ∧
        ∀ ys, (scaleT sqrt ca sa dd).run st ys = .ok (ys.map (scaleRow st), st) := by
    intro st xs out st' hg h
    obtain ⟨d, c, s⟩ := st
    obtain ⟨hd, hc, hs⟩ := hg
    cases d with
    | none => cases hd
    | some d =>
    cases c with
    | none => cases hc
    | some c =>
    cases s with
    | none => cases hs
    | some s =>
    simp only [scaleT, liftScale] at h ⊢
    cases hr : Scale.run sqrt xs ca sa dd ⟨some d, some c, some s⟩ with
    | error e => simp [hr] at h
    | ok r =>
      obtain ⟨o1, s1⟩ := r
      simp only [hr, Except.ok.injEq, Prod.mk.injEq] at h
      obtain ⟨rfl, rfl⟩ := h
      obtain ⟨d', c', s', hst, hs0, ho⟩ := key _ _ _ _ hr
      have hs1 : s ≠ some 0 := by
        intro e
        subst e
        simp [Scale.run, Scale.resolveScale, Scale.applyScale] at hr
      rw [hrec xs d c s hs1] at hr
      simp only [Except.ok.injEq, Prod.mk.injEq] at hr
      obtain ⟨rfl, rfl⟩ := hr
      refine ⟨by rw [scaleRow_eq], rfl, fun ys => ?_⟩
      rw [hrec ys d c s hs1, scaleRow_eq]
  constructor
  · intro xs st out h
    simp only [scaleT, liftScale] at h
    cases hr : Scale.run sqrt xs ca sa dd {} with
    | error e => simp [hr, Except.map] at h
    | ok r =>
      obtain ⟨o1, s1⟩ := r
      simp only [hr, Except.map, Except.ok.injEq, Prod.mk.injEq] at h
      obtain ⟨rfl, rfl⟩ := h
      obtain ⟨d, c, s, rfl, _, _⟩ := key _ _ _ _ hr
      exact ⟨rfl, rfl, rfl⟩
  · intro xs st out h
    simp only [scaleT, liftScale] at h ⊢
    cases hr : Scale.run sqrt xs ca sa dd {} with
    | error e => simp [hr, Except.map] at h
    | ok r =>
      obtain ⟨o1, s1⟩ := r
      simp only [hr, Except.map, Except.ok.injEq, Prod.mk.injEq] at h
      obtain ⟨rfl, rfl⟩ := h
      obtain ⟨d, c, s, rfl, hs0, rfl⟩ := key _ _ _ _ hr
      rw [hrec xs d c s hs0]
  · intro st xs out st' hg h
    obtain ⟨h1, h2, _⟩ := good st xs out st' hg h
    exact ⟨h1, h2⟩
  · intro st xs ys r hg h _
    obtain ⟨o, s'⟩ := r
    obtain ⟨_, _, h3⟩ := good st xs o s' hg h
    exact ⟨_, h3 ys⟩

/-! ## unOpt -/
theorem unOpt_ok_iff {α : Type} (l : List (Option α)) (r : List α) :
    unOpt l = .ok r ↔ l = r.map some := by
  induction l generalizing r with
  | nil =>
    constructor
    · intro h; cases h; rfl
    · intro h; cases r with
      | nil => rfl
      | cons a t => cases h
  | cons o l ih =>
    cases o with
    | none =>
      constructor
      · intro h; cases h
      · intro h; cases r <;> cases h
    | some v =>
      constructor
      · intro h
        simp only [unOpt] at h
        cases hr : unOpt l with
        | error e => simp [hr] at h
        | ok vs =>
          simp only [hr, Except.ok.injEq] at h
          subst h
          simp [(ih vs).1 hr]
      · intro h
        cases r with
        | nil => cases h
        | cons a t =>
          simp only [List.map_cons, List.cons.injEq, Option.some.injEq] at h
          simp only [unOpt, (ih t).2 h.2, h.1]

theorem unOpt_sub {α : Type} {l m : List (Option α)} {r : List α} (h : unOpt l = .ok r)
    (hsub : ∀ o ∈ m, o ∈ l) : ∃ r', unOpt m = .ok r' := by
  rw [unOpt_ok_iff] at h
  induction m with
  | nil => exact ⟨[], rfl⟩
  | cons o m ih =>
    obtain ⟨r', hr'⟩ := ih (fun o' ho' => hsub o' (by simp [ho']))
    have : o ∈ r.map some := h ▸ hsub o (by simp)
    rw [List.mem_map] at this
    obtain ⟨v, _, rfl⟩ := this
    exact ⟨v :: r', by simp only [unOpt, hr']⟩

theorem map_eq_map_some {α β : Type} {f : α → Option β} {l : List α} {r : List β}
    (h : l.map f = r.map some) : ∀ x ∈ l, ∃ v, f x = some v := by
  intro x hx
  have : f x ∈ r.map some := h ▸ List.mem_map_of_mem hx
  rw [List.mem_map] at this
  obtain ⟨v, _, hv⟩ := this
  exact ⟨v, hv.symm⟩

theorem map_some_of_forall {α β : Type} {f : α → Option β} (g : α → β) {l : List α}
    (h : ∀ x ∈ l, f x = some (g x)) : l.map f = (l.map g).map some := by
  rw [List.map_map]
  exact List.map_congr_left h

theorem nonNull_map_some (xs : List Rat) : BSpline.nonNull (xs.map some) = xs := by
  unfold BSpline.nonNull
  induction xs with
  | nil => rfl
  | cons x xs ih => simp

theorem bsRow_of_some {a : BSpline.Args} {st : BSpline.State} {x : Rat} {v : List Rat}
    (h : BSpline.rowFor st a.degree a.intercept a.mode (some x) = some v) : bsRow a st x = v := by
  simp only [bsRow, h]

/-! ## bs -/
theorem bs_lawful (a : BSpline.Args) (quant : List Rat → Nat → List Rat) :
    Lawful (bsT a quant) (fun _ => True) := by
  have hrun : ∀ (st : BSpline.State) (xs : List Rat) (out : List (List Rat)) (st' : BSpline.State),
      (bsT a quant).run st xs = .ok (out, st') →
      st' = st ∧ ¬ (a.mode = .raise ∧ (BSpline.nonNull (xs.map some)).any (BSpline.outside st.lower st.upper) = true) ∧
      (xs.map some).map (BSpline.rowFor st a.degree a.intercept a.mode) = out.map some := by
    intro st xs out st' h
    simp only [bsT] at h
    cases hT : BSpline.transform st a.degree a.intercept a.mode (xs.map some) with
    | error e => simp [hT, liftBs] at h
    | ok o =>
      simp only [hT, liftBs] at h
      cases hrows : unOptRows o.rows with
      | error e => simp [hrows] at h
      | ok rows =>
        simp only [hrows, Except.ok.injEq, Prod.mk.injEq] at h
        obtain ⟨rfl, rfl⟩ := h
        unfold BSpline.transform at hT
        split at hT
        · cases hT
        · rename_i hc
          cases hT
          refine ⟨rfl, ?_, (unOpt_ok_iff _ _).1 hrows⟩
          simpa using hc
  have hmk : ∀ (st : BSpline.State) (ys : List Rat) (rows : List (List Rat)),
      ¬ (a.mode = .raise ∧ (BSpline.nonNull (ys.map some)).any (BSpline.outside st.lower st.upper) = true) →
      (ys.map some).map (BSpline.rowFor st a.degree a.intercept a.mode) = rows.map some →
      (bsT a quant).run st ys = .ok (rows, st) := by
    intro st ys rows hc hrows
    simp only [bsT, BSpline.transform]
    have : (decide (a.mode = .raise) && (BSpline.nonNull (ys.map some)).any (BSpline.outside st.lower st.upper)) = false := by
      simpa using hc
    simp only [this, Bool.false_eq_true, if_false, liftBs, unOptRows, (unOpt_ok_iff _ _).2 hrows]
  have hrows : ∀ (st : BSpline.State) (xs : List Rat) (out : List (List Rat)),
      (xs.map some).map (BSpline.rowFor st a.degree a.intercept a.mode) = out.map some →
      ∀ x ∈ xs, BSpline.rowFor st a.degree a.intercept a.mode (some x) = some (bsRow a st x) := by
    intro st xs out h x hx
    rw [List.map_map] at h
    obtain ⟨v, hv⟩ := map_eq_map_some h x hx
    simp only [Function.comp] at hv
    rw [hv, bsRow_of_some hv]
  constructor
  · intros; trivial
  · intro xs st out h
    simp only [bsT] at h
    cases hF : BSpline.fit a (xs.map some) quant with
    | error e => simp [hF, liftBs] at h
    | ok r =>
      obtain ⟨st1, o⟩ := r
      simp only [hF, liftBs] at h
      cases hr : unOptRows o.rows with
      | error e => simp [hr] at h
      | ok rows =>
        simp only [hr, Except.ok.injEq, Prod.mk.injEq] at h
        obtain ⟨rfl, rfl⟩ := h
        unfold BSpline.fit at hF
        split at hF
        · cases hF
        · rename_i st2 hp
          split at hF
          · cases hF
          · rename_i o2 ht
            simp only [Except.ok.injEq, Prod.mk.injEq] at hF
            obtain ⟨rfl, rfl⟩ := hF
            simp only [bsT, ht, liftBs, hr]
  · intro st xs out st' _ h
    obtain ⟨h1, _, h3⟩ := hrun st xs out st' h
    refine ⟨?_, h1⟩
    have h4 := hrows st xs out h3
    have := map_some_of_forall (bsRow a st) h4
    rw [List.map_map] at h3
    have e : out.map some = (xs.map (bsRow a st)).map some := h3.symm.trans this
    exact (List.map_injective_iff.2 (Option.some_injective _)) e
  · intro st xs ys r _ h hsub
    obtain ⟨out, st'⟩ := r
    obtain ⟨_, h2, h3⟩ := hrun st xs out st' h
    refine ⟨(ys.map (bsRow a st), st), hmk st ys _ ?_ ?_⟩
    · rintro ⟨hm, hany⟩
      apply h2
      refine ⟨hm, ?_⟩
      rw [nonNull_map_some] at hany ⊢
      rw [List.any_eq_true] at hany ⊢
      obtain ⟨y, hy, ho⟩ := hany
      exact ⟨y, hsub y hy, ho⟩
    · rw [List.map_map]
      exact map_some_of_forall (bsRow a st) (fun y hy => hrows st xs out h3 y (hsub y hy))

/-! ## cr / cs / cc -/
theorem mapM_eq_mapE {α β ε : Type} (f : α → Except ε β) (xs : List α) : xs.mapM f = mapE f xs := by
  induction xs with
  | nil => rfl
  | cons x xs ih =>
    rw [List.mapM_cons, ih]
    simp only [mapE, bind, Except.bind, pure, Except.pure]
    cases f x with
    | error e => rfl
    | ok y => cases mapE f xs <;> rfl

theorem zipWith_map_right_self {α β γ : Type} (f : α → β → γ) (g : α → β) (x : List α) :
    List.zipWith f x (x.map g) = x.map (fun t => f t (g t)) := by
  induction x with
  | nil => rfl
  | cons a x ih => simp only [List.map_cons, List.zipWith_cons_cons, ih]

/-- the free row of one (adjusted) value -/
def csG (st : CubicSpline.State) (mode : BSpline.Mode) (F : List (List Rat)) (x : Option Rat) :
    Except CubicSpline.Err (Option (List Rat)) :=
  match BSpline.adjust mode st.lower st.upper x with
  | none => .ok none
  | some v => match CubicSpline.freeRow st.knots st.cyclic F v with
    | .error e => .error e
    | .ok r => .ok (some r)

def unwrapE {γ ε : Type} : Except ε (Option γ) → Option γ
  | .ok r => r
  | .error _ => none

def zeroOne (lower upper : Rat) (x : Option Rat) (r : Option (List Rat)) : Option (List Rat) :=
  match x, r with
  | some v, some row => if BSpline.outside lower upper v then some (row.map (fun _ => (0 : Rat))) else some row
  | _, r => r

/-- the output row of one input value, as `cubic_spline` computes it for a recorded state -/
def csRho (st : CubicSpline.State) (mode : BSpline.Mode) (F Q2 : List (List Rat)) (x : Option Rat) :
    Option (List Rat) :=
  let r := unwrapE (csG st mode F x)
  let r2 := match st.constraints with
    | none => r
    | some _ => r.map (CubicSpline.absorbRow Q2)
  if mode = .zero then zeroOne st.lower st.upper x r2 else r2

theorem csRho_none {st : CubicSpline.State} (mode : BSpline.Mode) (F Q2 : List (List Rat))
    (h : st.constraints = none) :
    csRho st mode F Q2 = fun x => if mode = .zero then zeroOne st.lower st.upper x (unwrapE (csG st mode F x))
      else unwrapE (csG st mode F x) := by
  funext x
  simp only [csRho, h]

theorem csRho_some {st : CubicSpline.State} (mode : BSpline.Mode) (F Q2 : List (List Rat))
    {c : List (List Rat)} (h : st.constraints = some c) :
    csRho st mode F Q2 = fun x =>
      if mode = .zero then zeroOne st.lower st.upper x ((unwrapE (csG st mode F x)).map (CubicSpline.absorbRow Q2))
      else (unwrapE (csG st mode F x)).map (CubicSpline.absorbRow Q2) := by
  funext x
  simp only [csRho, h]

def csN (st : CubicSpline.State) : Nat := if st.cyclic then st.knots.length - 1 else st.knots.length

theorem cs_transform_iff (st : CubicSpline.State) (mode : BSpline.Mode) (xs : List (Option Rat))
    (F Q2 : List (List Rat)) (out : CubicSpline.Output) :
    CubicSpline.transform st mode xs F Q2 = .ok out ↔
      ¬ (mode = .raise ∧ (BSpline.nonNull xs).any (BSpline.outside st.lower st.upper) = true) ∧
      (∃ rows, mapE (csG st mode F) xs = .ok rows) ∧
      (st.constraints.isSome → Q2.any (fun q => q.length != csN st) = false) ∧
      out = { ncols := (match st.constraints with | none => csN st | some _ => Q2.length),
              rows := xs.map (csRho st mode F Q2) } := by
  have hfree : CubicSpline.freeRows st.knots st.cyclic F mode st.lower st.upper xs
      = mapE (csG st mode F) xs := by
    unfold CubicSpline.freeRows
    rw [mapM_eq_mapE]
    rfl
  have hzero : ∀ rows, CubicSpline.zeroOutside st.lower st.upper xs rows
      = List.zipWith (zeroOne st.lower st.upper) xs rows := fun _ => rfl
  unfold CubicSpline.transform
  rw [hfree]
  by_cases hc : (decide (mode = BSpline.Mode.raise) &&
      (BSpline.nonNull xs).any (BSpline.outside st.lower st.upper)) = true
  · have hc' : mode = .raise ∧ (BSpline.nonNull xs).any (BSpline.outside st.lower st.upper) = true := by
      simpa using hc
    simp only [hc, if_true]
    constructor
    · intro h; cases h
    · intro h; exact absurd hc' h.1
  · have hc' : ¬ (mode = .raise ∧ (BSpline.nonNull xs).any (BSpline.outside st.lower st.upper) = true) := by
      simpa using hc
    simp only [hc, if_false]
    cases hm : mapE (csG st mode F) xs with
    | error e =>
      constructor
      · intro h; cases h
      · intro h; obtain ⟨_, ⟨rows, hr⟩, _⟩ := h; cases hr
    | ok rows =>
      have hrows : rows = xs.map (fun x => unwrapE (csG st mode F x)) := by
        have := (mapE_ok_iff _ _ _).1 hm
        have h2 := congrArg (List.map unwrapE) this
        simp only [List.map_map] at h2
        have h3 : (unwrapE ∘ (Except.ok : _ → Except CubicSpline.Err _) : Option (List Rat) → Option (List Rat)) = id := by
          funext x; rfl
        rw [h3, List.map_id] at h2
        rw [← h2]
        rfl
      cases hcons : st.constraints with
      | none =>
        simp only [hzero, hrows, zipWith_map_right_self]
        constructor
        · intro h
          cases h
          refine ⟨hc', ⟨_, rfl⟩, by simp, ?_⟩
          simp only [csN, csRho_none mode F Q2 hcons]
          by_cases hz : mode = .zero <;> simp [hz]
        · rintro ⟨_, _, _, rfl⟩
          simp only [csN, csRho_none mode F Q2 hcons]
          by_cases hz : mode = .zero <;> simp [hz]
      | some c =>
        by_cases hq : Q2.any (fun q => q.length != csN st) = true
        · have hq' : (Q2.any fun q => q.length != if st.cyclic = true then st.knots.length - 1 else st.knots.length) = true := hq
          simp only [hq', if_true]
          constructor
          · intro h; cases h
          · rintro ⟨_, _, h3, _⟩
            rw [h3 (by simp)] at hq
            cases hq
        · have hq' : (Q2.any fun q => q.length != if st.cyclic = true then st.knots.length - 1 else st.knots.length) = false := by
            simpa [csN] using hq
          simp only [hq', Bool.false_eq_true, if_false, hzero, hrows, List.map_map, zipWith_map_right_self]
          constructor
          · intro h
            cases h
            refine ⟨hc', ⟨_, rfl⟩, fun _ => by simpa using hq, ?_⟩
            simp only [csRho_some mode F Q2 hcons]
            by_cases hz : mode = .zero <;> simp [hz, Function.comp_def]
          · rintro ⟨_, _, _, rfl⟩
            simp only [csRho_some mode F Q2 hcons]
            by_cases hz : mode = .zero <;> simp [hz, Function.comp_def]

theorem rows_of_rho {ρ : Option Rat → Option (List Rat)} {row : Rat → List Rat} {xs : List Rat}
    {out : List (List Rat)} (h : (xs.map some).map ρ = out.map some)
    (hrow : ∀ x ∈ xs, ∀ v, ρ (some x) = some v → row x = v) : out = xs.map row := by
  rw [List.map_map] at h
  have h4 : ∀ x ∈ xs, (ρ ∘ some) x = some (row x) := by
    intro x hx
    obtain ⟨v, hv⟩ := map_eq_map_some h x hx
    rw [hv, hrow x hx v hv]
  have e : out.map some = (xs.map row).map some := h.symm.trans (map_some_of_forall row h4)
  exact (List.map_injective_iff.2 (Option.some_injective _)) e

theorem any_sub {α : Type} {p : α → Bool} {xs ys : List α} (hsub : ∀ y ∈ ys, y ∈ xs)
    (h : ys.any p = true) : xs.any p = true := by
  rw [List.any_eq_true] at h ⊢
  obtain ⟨y, hy, ho⟩ := h
  exact ⟨y, hsub y hy, ho⟩

theorem cs_fit_transform (a : CubicSpline.Args) (xs : List (Option Rat)) (quant : List Rat → Nat → List Rat)
    (getF : List Rat → List (List Rat)) (getQ2 : List (List Rat) → List (List Rat))
    (st : CubicSpline.State) (out : CubicSpline.Output)
    (h : CubicSpline.fit a xs quant getF getQ2 = .ok (st, out)) :
    CubicSpline.transform st a.mode xs (getF st.knots) (csQ2 getQ2 st) = .ok out := by
  unfold CubicSpline.fit at h
  by_cases h0 : (a.df.isSome && a.knots.isSome) = true
  · simp [h0] at h
  simp only [h0, Bool.false_eq_true, if_false] at h
  cases hl : BSpline.resolveBound a.lower (BSpline.minOf (BSpline.nonNull xs)) xs.isEmpty with
  | error e => simp [hl] at h
  | ok lower =>
  simp only [hl] at h
  cases hu : BSpline.resolveBound a.upper (BSpline.maxOf (BSpline.nonNull xs)) xs.isEmpty with
  | error e => simp [hu] at h
  | ok upper =>
  simp only [hu] at h
  by_cases h1 : (decide (a.mode = BSpline.Mode.raise) && (BSpline.nonNull xs).any (BSpline.outside lower upper)) = true
  · simp [h1] at h
  simp only [h1, Bool.false_eq_true, if_false] at h
  by_cases h2 : (a.df.isNone && a.knots.isNone) = true
  · simp [h2] at h
  simp only [h2, Bool.false_eq_true, if_false] at h
  cases hn : CubicSpline.nInnerOf a.df a.cyclic (CubicSpline.nConstraints a.constraints) with
  | error e => simp [hn] at h
  | ok nInner =>
  simp only [hn] at h
  cases hk : CubicSpline.allSortedKnots (CubicSpline.knotsSample lower upper xs) lower upper nInner a.knots quant with
  | error e => simp [hk] at h
  | ok knots =>
  simp only [hk] at h
  cases hc : CubicSpline.constraintsOf a lower upper knots (getF knots) xs with
  | error e => simp [hc] at h
  | ok cons =>
  simp only [hc] at h
  split at h
  · cases h
  · rename_i o ht
    simp only [Except.ok.injEq, Prod.mk.injEq] at h
    obtain ⟨rfl, rfl⟩ := h
    exact ht

theorem cs_lawful (a : CubicSpline.Args) (quant : List Rat → Nat → List Rat)
    (getF : List Rat → List (List Rat)) (getQ2 : List (List Rat) → List (List Rat)) :
    Lawful (csT a quant getF getQ2) (fun _ => True) := by
  -- a replay, characterised
  have hrun : ∀ (st : CubicSpline.State) (xs : List Rat) (out : List (List Rat)) (st' : CubicSpline.State),
      csRun a getF getQ2 st xs = .ok (out, st') ↔
      st' = st ∧
      ¬ (a.mode = .raise ∧ xs.any (BSpline.outside st.lower st.upper) = true) ∧
      (∃ rows, mapE (csG st a.mode (getF st.knots)) (xs.map some) = .ok rows) ∧
      (st.constraints.isSome → (csQ2 getQ2 st).any (fun q => q.length != csN st) = false) ∧
      (xs.map some).map (csRho st a.mode (getF st.knots) (csQ2 getQ2 st)) = out.map some := by
    intro st xs out st'
    unfold csRun
    cases hT : CubicSpline.transform st a.mode (xs.map some) (getF st.knots) (csQ2 getQ2 st) with
    | error e =>
      simp only [liftCs]
      constructor
      · intro h; cases h
      · rintro ⟨_, h1, h2, h3, h4⟩
        have := (cs_transform_iff st a.mode (xs.map some) (getF st.knots) (csQ2 getQ2 st) _).2
          ⟨by rwa [nonNull_map_some], h2, h3, rfl⟩
        rw [hT] at this
        cases this
    | ok o =>
      obtain ⟨h1, h2, h3, rfl⟩ := (cs_transform_iff _ _ _ _ _ _).1 hT
      rw [nonNull_map_some] at h1
      simp only [liftCs]
      cases hr : unOptRows (xs.map some |>.map (csRho st a.mode (getF st.knots) (csQ2 getQ2 st))) with
      | error e =>
        simp only []
        constructor
        · intro h; cases h
        · rintro ⟨_, _, _, _, h4⟩
          rw [unOptRows, (unOpt_ok_iff _ _).2 h4] at hr
          cases hr
      | ok rows =>
        simp only [Except.ok.injEq, Prod.mk.injEq]
        have hr' := (unOpt_ok_iff _ _).1 hr
        constructor
        · rintro ⟨rfl, rfl⟩
          exact ⟨rfl, h1, h2, h3, hr'⟩
        · rintro ⟨rfl, _, _, _, h4⟩
          refine ⟨?_, rfl⟩
          rw [hr'] at h4
          exact (List.map_injective_iff.2 (Option.some_injective _)) h4
  -- the row of a value that occurs in a successful replay
  have hrow : ∀ (st : CubicSpline.State) (xs : List Rat) (out : List (List Rat)) (st' : CubicSpline.State),
      csRun a getF getQ2 st xs = .ok (out, st') → ∀ x ∈ xs, ∀ v,
      csRho st a.mode (getF st.knots) (csQ2 getQ2 st) (some x) = some v →
      (csT a quant getF getQ2).row st x = v := by
    intro st xs out st' h x hx v hv
    obtain ⟨_, h1, ⟨rows, h2⟩, h3, _⟩ := (hrun st xs out st').1 h
    have hsub : ∀ y ∈ [x], y ∈ xs := by intro y hy; simp at hy; exact hy ▸ hx
    have : csRun a getF getQ2 st [x] = .ok ([v], st) := by
      apply (hrun st [x] [v] st).2
      refine ⟨rfl, fun hc => h1 ⟨hc.1, any_sub hsub hc.2⟩, ?_, h3, by simp [hv]⟩
      exact mapE_sub h2 (by
        intro z hz
        simp only [List.map_cons, List.map_nil, List.mem_singleton] at hz
        subst hz
        exact List.mem_map_of_mem hx)
    show firstRow (csRun a getF getQ2 st [x]) = v
    rw [this]
    rfl
  constructor
  · intros; trivial
  · intro xs st out h
    simp only [csT] at h
    cases hF : CubicSpline.fit a (xs.map some) quant getF getQ2 with
    | error e => simp [hF, liftCs] at h
    | ok r =>
      obtain ⟨st1, o⟩ := r
      simp only [hF, liftCs] at h
      cases hr : unOptRows o.rows with
      | error e => simp [hr] at h
      | ok rows =>
        simp only [hr, Except.ok.injEq, Prod.mk.injEq] at h
        obtain ⟨rfl, rfl⟩ := h
        have key := cs_fit_transform a (xs.map some) quant getF getQ2 st1 o hF
        show csRun a getF getQ2 st1 xs = .ok (rows, st1)
        simp only [csRun, key, liftCs, hr]
  · intro st xs out st' _ h
    obtain ⟨h0, _, _, _, h4⟩ := (hrun st xs out st').1 h
    exact ⟨rows_of_rho h4 (hrow st xs out st' h), h0⟩
  · intro st xs ys r _ h hsub
    obtain ⟨out, st'⟩ := r
    obtain ⟨_, h1, ⟨rows, h2⟩, h3, h4⟩ := (hrun st xs out st').1 h
    refine ⟨(ys.map ((csT a quant getF getQ2).row st), st), ?_⟩
    apply (hrun st ys _ st).2
    refine ⟨rfl, fun hc => h1 ⟨hc.1, any_sub hsub hc.2⟩, ?_, h3, ?_⟩
    · exact mapE_sub h2 (by
        intro z hz
        rw [List.mem_map] at hz
        obtain ⟨y, hy, rfl⟩ := hz
        exact List.mem_map_of_mem (hsub y hy))
    · rw [List.map_map]
      apply map_some_of_forall
      intro y hy
      rw [List.map_map] at h4
      obtain ⟨v, hv⟩ := map_eq_map_some h4 y (hsub y hy)
      simp only [Function.comp] at hv ⊢
      rw [hv, hrow st xs out st' h y (hsub y hy) v hv]

end FormulaicVerif.Proofs.C04
