import FormulaicVerif.Model.Parser
/-! Helper for C15: ONE case analysis of the tokenizer's character loop, reusable for any invariant.

`Closed Cur P` lists the eight ways in which one iteration of the loop can change the lexer state
(append the current character to the pending token; end the pending token; leave everything alone;
close a quote and emit / drop the pending token; pop a closer; open a quoted token; emit a bracket
token). `lexStep_closed` shows that every successful `lexStep` is a composition of these, so a
predicate closed under them is an invariant of the loop (`lexLoop_closed`) and holds of the final
state that `tokenize` reads its answer from (`tokenize_closed`).

`Cur i c` is whatever the invariant wants to know about the character consumed at position `i`
(for the span/text invariant: "`c` is the source character at `i`"). -/
namespace FormulaicVerif.Proofs.C15Step
open FormulaicVerif FormulaicVerif.Model

structure Closed (Cur : Nat → Char → Prop) (P : Nat → LexState → Prop) : Prop where
  /-- the current character is appended to the pending token; an update that does not set the kind
  happens only inside a quote context or while an escape is being consumed -/
  upd : ∀ {i : Nat} {s : LexState} (c : Char) (k : Option TKind) (q : List Char) (t : Nat), P i s → Cur i c →
    (k = none → s.qc ≠ [] ∨ 0 < s.take) →
    P (i + 1) { s with tok := s.tok.update c i k, qc := q, take := t }
  /-- `if token: yield token; token = Token()` at top level -/
  flush : ∀ {i : Nat} {s : LexState}, P i s → s.qc = [] → s.take = 0 → P i s.flush
  /-- the character is skipped -/
  mono : ∀ {i : Nat} {s : LexState}, P i s → P (i + 1) s
  /-- the outermost quote closes and the pending token is emitted -/
  emit : ∀ {i : Nat} {s : LexState}, P i s → s.tok.nonempty = true → s.take = 0 →
    P (i + 1) { s with qc := [], out := s.tok :: s.out, tok := Tok.fresh }
  /-- the outermost quote closes on an empty pending token, which is dropped -/
  reset : ∀ {i : Nat} {s : LexState}, P i s → s.tok.nonempty = false → s.take = 0 →
    P (i + 1) { s with qc := [], tok := Tok.fresh }
  /-- an inner closer is popped without touching the (empty) pending token -/
  requote : ∀ {i : Nat} {s : LexState} (q : List Char), P i s → s.qc ≠ [] → q ≠ [] → P (i + 1) { s with qc := q }
  /-- a `%`, `{` or backtick at top level ends the pending token and opens a quoted one -/
  opened : ∀ {i : Nat} {s : LexState} (c : Char) (k : TKind) (q : List Char), P i s → Cur i c →
    (c = '%' ∨ c = '{' ∨ c = '`') → q ≠ [] →
    P (i + 1) { (if s.tok.nonempty = true then { s with out := s.tok :: s.out } else s) with
      tok := Tok.opened k i, qc := q }
  /-- a one-character bracket token is emitted directly -/
  ctx : ∀ {i : Nat} {s : LexState} (c : Char), P i s → Cur i c →
    P (i + 1) { s with out := (Tok.fresh.update c i (some .context)) :: s.out }

theorem flush_qc (s : LexState) : s.flush.qc = s.qc := by
  unfold LexState.flush; split <;> rfl

theorem flush_take (s : LexState) : s.flush.take = s.take := by
  unfold LexState.flush; split <;> rfl

section
variable {Cur : Nat → Char → Prop} {P : Nat → LexState → Prop} (hP : Closed Cur P)
include hP

theorem flushIf_closed {i : Nat} {s : LexState} (h : P i s) (hq : s.qc = []) (ht : s.take = 0) (b : Bool) :
    P i (if b = true then s.flush else s) := by
  cases b with
  | false => exact h
  | true => exact hP.flush h hq ht

theorem lexQuoted_closed (s s' : LexState) (i : Nat) (ci : CharInfo) (top : Char) (rest : List Char)
    (hq : s.qc = top :: rest) (ht : s.take = 0) (h : P i s) (hc : Cur i ci.c)
    (hs : lexQuoted s i ci top rest = .ok s') : P (i + 1) s' := by
  have hqne : s.qc ≠ [] := by rw [hq]; exact List.cons_ne_nil _ _
  have hk : (none : Option TKind) = none → s.qc ≠ [] ∨ 0 < s.take := fun _ => Or.inl hqne
  unfold lexQuoted at hs
  split at hs
  · injection hs with hs; subst hs; exact hP.upd _ _ _ _ h hc hk
  · split at hs
    · split at hs
      · split at hs
        · injection hs with hs; subst hs; exact hP.upd _ _ _ _ h hc hk
        · rename_i hne hre
          have hr : rest = [] := by
            cases rest with
            | nil => rfl
            | cons _ _ => simp at hre
          subst hr
          injection hs with hs; subst hs
          exact hP.emit h hne ht
      · rename_i hne
        have hne' : s.tok.nonempty = false := by simpa using hne
        split at hs
        · rename_i hre
          have hr : rest = [] := by
            cases rest with
            | nil => rfl
            | cons _ _ => simp at hre
          subst hr
          injection hs with hs; subst hs
          exact hP.reset h hne' ht
        · rename_i hre
          injection hs with hs; subst hs
          refine hP.requote _ h hqne ?_
          intro hr
          simp [hr] at hre
    · split at hs
      · injection hs with hs; subst hs; exact hP.upd _ _ _ _ h hc hk
      · injection hs with hs; subst hs; exact hP.upd _ _ _ _ h hc hk

theorem quoteBranch {i : Nat} {s1 s' : LexState} (h1 : P i s1) (c : Char) (hc : Cur i c) (e : LexErr)
    (hs : (if (!s1.tok.nonempty) = true then
            Except.ok { s1 with tok := s1.tok.update c i (some .value), qc := [c] }
          else Except.error e) = Except.ok s') : P (i + 1) s' := by
  split at hs
  · injection hs with hs; subst hs; exact hP.upd _ _ _ _ h1 hc (fun hk => by cases hk)
  · cases hs

theorem wordBranch {i : Nat} {s1 s' : LexState} (h1 : P i s1) (c : Char) (hc : Cur i c) (e : LexErr) (k : TKind)
    (hs : (if (!(s1.tok.kind == none || s1.tok.kind == some .value || s1.tok.kind == some .name)) = true then
            Except.error e
          else Except.ok { s1 with tok := s1.tok.update c i (some k) }) = Except.ok s') : P (i + 1) s' := by
  split at hs
  · cases hs
  · injection hs with hs; subst hs; exact hP.upd _ _ _ _ h1 hc (fun hk => by cases hk)

theorem lexPlain_closed (s s' : LexState) (i : Nat) (ci : CharInfo) (hq : s.qc = []) (ht : s.take = 0)
    (h : P i s) (hc : Cur i ci.c) (hs : lexPlain s i ci = .ok s') : P (i + 1) s' := by
  unfold lexPlain at hs
  split at hs
  · split at hs
    · injection hs with hs; subst hs
      exact hP.mono (hP.flush h hq ht)
    · injection hs with hs; subst hs
      exact hP.mono h
  · split at hs
    · exact quoteBranch hP (flushIf_closed hP h hq ht _) _ hc _ hs
    · split at hs
      · exact wordBranch hP (flushIf_closed hP h hq ht _) _ hc _ _ hs
      · simp only at hs
        injection hs with hs; subst hs
        exact hP.upd _ _ _ _ (flushIf_closed hP h hq ht _) hc (fun hk => by cases hk)

theorem lexTop_closed (s s' : LexState) (i : Nat) (ci : CharInfo) (hq : s.qc = []) (ht : s.take = 0)
    (h : P i s) (hc : Cur i ci.c) (hs : lexTop s i ci = .ok s') : P (i + 1) s' := by
  unfold lexTop at hs
  split at hs
  · rename_i hch
    simp only at hs; injection hs with hs; subst hs
    exact hP.opened ci.c _ _ h hc (Or.inl (by simpa using hch)) (by simp)
  · split at hs
    · rename_i hch
      simp only at hs; injection hs with hs; subst hs
      exact hP.opened ci.c _ _ h hc (Or.inr (Or.inl (by simpa using hch))) (by simp)
    · split at hs
      · rename_i hch
        simp only at hs; injection hs with hs; subst hs
        exact hP.opened ci.c _ _ h hc (Or.inr (Or.inr (by simpa using hch))) (by simp)
      · split at hs
        · split at hs
          · injection hs with hs; subst hs
            exact hP.upd _ _ _ _ h hc (fun hk => by cases hk)
          · simp only at hs; injection hs with hs; subst hs
            exact hP.ctx _ (hP.flush h hq ht) hc
        · split at hs
          · simp only at hs; injection hs with hs; subst hs
            exact hP.ctx _ (hP.flush h hq ht) hc
          · exact lexPlain_closed hP s s' i ci hq ht h hc hs

/-- every successful iteration of the loop preserves a closed predicate -/
theorem lexStep_closed (s s' : LexState) (i : Nat) (ci : CharInfo) (h : P i s) (hc : Cur i ci.c)
    (hs : lexStep s i ci = .ok s') : P (i + 1) s' := by
  unfold lexStep at hs
  split at hs
  · rename_i htk
    injection hs with hs; subst hs
    exact hP.upd _ _ _ _ h hc (fun _ => Or.inr htk)
  · rename_i htk
    have ht : s.take = 0 := by omega
    split at hs
    · rename_i top rest hq
      exact lexQuoted_closed hP s s' i ci top rest hq ht h hc hs
    · rename_i hq
      exact lexTop_closed hP s s' i ci hq ht h hc hs

theorem lexLoop_closed (cs : List CharInfo) : ∀ (i : Nat) (s s' : LexState), P i s →
    (∀ j (hj : j < cs.length), Cur (i + j) cs[j].c) →
    lexLoop cs i s = (s', none) → P (i + cs.length) s' := by
  induction cs with
  | nil => intro i s s' h _ hs; simp [lexLoop] at hs; subst hs; simpa using h
  | cons ci cs ih =>
    intro i s s' h hcur hs
    unfold lexLoop at hs
    cases hst : lexStep s i ci with
    | error e => rw [hst] at hs; simp at hs
    | ok s1 =>
      rw [hst] at hs
      have h0 : Cur i ci.c := hcur 0 (by simp)
      have hcur' : ∀ j (hj : j < cs.length), Cur (i + 1 + j) cs[j].c := by
        intro j hj
        have := hcur (j + 1) (by simp; omega)
        rw [show i + (j + 1) = i + 1 + j by omega] at this
        exact this
      have := ih (i + 1) s1 s' (lexStep_closed hP s s1 i ci h h0 hst) hcur' hs
      simpa [Nat.add_assoc, Nat.add_comm 1] using this

/-- the tokens of a successfully tokenised string are the emitted tokens of a state satisfying the
invariant, plus its pending token if that is non-empty -/
theorem tokenize_closed (cs : List CharInfo) (ts : List Tok) (h0 : P 0 {})
    (hcur : ∀ j (hj : j < cs.length), Cur j cs[j].c) (h : tokenize cs = .ok ts) :
    ∃ s, P cs.length s ∧ ts = (if s.tok.nonempty = true then s.tok :: s.out else s.out).reverse := by
  unfold tokenize tokenizeStream at h
  cases hl : lexLoop cs 0 {} with
  | mk s e =>
    rw [hl] at h
    cases e with
    | some e => simp at h
    | none =>
      simp only at h
      have hinv := lexLoop_closed hP cs 0 {} s h0 (by simpa using hcur) hl
      simp only [Nat.zero_add] at hinv
      refine ⟨s, hinv, ?_⟩
      by_cases hqe : (!s.qc.isEmpty) = true
      · simp [hqe] at h
      · by_cases hn : s.tok.nonempty = true
        · simp [hqe, hn] at h; simp [hn, ← h]
        · simp [hqe, hn] at h; simp [hn, ← h]

end

end FormulaicVerif.Proofs.C15Step
