import FormulaicVerif.Proofs.C17Env
import FormulaicVerif.Proofs.C17Eval
import FormulaicVerif.Proofs.C17Bfs
/-! Helper lemmas for C17: how a free name of a Python factor is resolved, and what restricting or
removing data columns does to a whole materialisation. Not obligations. -/
namespace FormulaicVerif.Proofs.C17
open FormulaicVerif.Model.Variables FormulaicVerif.Model.LMap FormulaicVerif.Spec.Variables
variable {ν : Type}

theorem aliasVal_lookup (L : Layers ν) (al : List (String × String)) (id : String) :
    aliasVal L al id = match al.lookup id with
      | none => none
      | some old => if id == old then none else valueOf L old := by
  induction al with
  | nil => rfl
  | cons a r ih =>
    obtain ⟨k, o⟩ := a
    simp only [aliasVal, List.lookup]
    by_cases h : (id == k) = true
    · have : id = k := by simpa using h
      subst this; simp
    · have h' : (id == k) = false := by simpa using h
      simp only [h', Bool.false_eq_true, if_false, ih]

theorem lookup_some_mem {γ : Type} (al : List (String × γ)) (k : String) (v : γ) (h : al.lookup k = some v) :
    (k, v) ∈ al := by
  induction al with
  | nil => cases h
  | cons a r ih =>
    obtain ⟨k0, v0⟩ := a
    simp only [List.lookup] at h
    by_cases hk : (k == k0) = true
    · have : k = k0 := by simpa using hk
      subst this
      simp only [beq_self_eq_true] at h
      have : v0 = v := by simpa using h
      subst this; simp
    · have hk' : (k == k0) = false := by simpa using hk
      simp only [hk'] at h
      exact List.mem_cons_of_mem _ (ih h)

theorem aliasOK_hold {L : Layers ν} {c : PyCode} (h : AliasOK L c) :
    ∀ a ∈ c.aliases, a.1 ≠ a.2 → ∀ b ∈ c.aliases, b.2 ≠ a.1 :=
  fun a ha hne => (h.fresh a ha hne).2.2

/-- how CPython resolves an identifier of a sanitised Python factor: through the back-quoted name
it stands for, data > context > transforms > builtins -/
theorem resolve_evalEnv (L : Layers ν) (c : PyCode) (hok : AliasOK L c) (id : String) :
    resolve L (evalEnv L c.aliases) id = lookupAll L (unalias c.aliases id) := by
  obtain ⟨M, hM, hlk⟩ := evalEnv_spec L c.aliases hok.nodup (aliasOK_hold hok)
  rw [hM]
  simp only [resolve, wrap_get, hlk, aliasVal_lookup, unalias, lookupAll]
  cases hl : c.aliases.lookup id with
  | none => simp only; cases valueOf L id <;> rfl
  | some old =>
    simp only
    by_cases hid : (id == old) = true
    · have : id = old := by simpa using hid
      subst this
      simp only [beq_self_eq_true, if_true]
      cases valueOf L id <;> rfl
    · have hid' : (id == old) = false := by simpa using hid
      have hne : id ≠ old := by simpa using hid'
      have hmem := lookup_some_mem _ _ _ hl
      obtain ⟨h1, h2, _⟩ := hok.fresh (id, old) hmem hne
      simp only [hid', Bool.false_eq_true, if_false]
      cases hv : valueOf L old with
      | some v => rfl
      | none =>
        simp only [lookupAll] at h1
        simp only [h2]
        cases hv2 : valueOf L id with
        | some x => rw [hv2] at h1; cases h1
        | none => rw [hv2] at h1; simpa using h1

/-- a back-quoted original (or an identifier that was not sanitised) is never a sanitised name -/
theorem aliasVal_unalias (L : Layers ν) (c : PyCode) (hok : AliasOK L c) (id : String) :
    aliasVal L c.aliases (unalias c.aliases id) = none := by
  apply aliasVal_none_of
  intro b hb hk
  by_cases hbb : b.1 = b.2
  · exact hbb
  · exfalso
    simp only [unalias] at hk
    cases hl : c.aliases.lookup id with
    | none =>
      rw [hl] at hk
      simp only at hk
      have : id ∈ c.aliases.map (·.1) := by rw [← hk]; exact List.mem_map_of_mem hb
      exact (lookup_none_iff_not_mem _ _).1 hl this
    | some old =>
      rw [hl] at hk
      simp only at hk
      exact (aliasOK_hold hok b hb hbb (id, old) (lookup_some_mem _ _ _ hl)) hk.symm

/-- the source reported for a key that is not a sanitised name is the name of the first layer
containing it -/
theorem layerName_evalEnv (L : Layers ν) (c : PyCode) (hok : AliasOK L c) (k : String)
    (hk : aliasVal L c.aliases k = none) :
    layerNameFor (evalEnv L c.aliases) k = match firstLayer L k with
      | some (_, n) => n
      | none => none := by
  obtain ⟨M, hM, hlk⟩ := evalEnv_spec L c.aliases hok.nodup (aliasOK_hold hok)
  rw [hM, wrap_layerName, hlk, hk]
  rfl

/-- under the contract no reserved name is found in the environment of the evaluation -/
theorem reservedHit_false (L : Layers ν) (c : PyCode) (hok : AliasOK L c) :
    reservedHit (evalEnv L c.aliases) = false := by
  obtain ⟨M, hM, hlk⟩ := evalEnv_spec L c.aliases hok.nodup (aliasOK_hold hok)
  rw [hM]
  simp only [reservedHit, List.any_eq_false]
  intro r hr
  obtain ⟨hv, h2⟩ := hok.noReserved r hr
  simp [wrap_get, hlk, aliasVal_lookup, h2, hv]

/-- conversely: a layer that binds a reserved name makes the check fire, whatever the aliases -/
theorem reservedHit_of_bound (L : Layers ν) (al : List (String × String)) (r : String)
    (hr : r ∈ Gen.reservedNames) (hb : valueOf L r ≠ none)
    (hnd : (al.map (·.1)).Nodup) (hold : ∀ a ∈ al, a.1 ≠ a.2 → ∀ b ∈ al, b.2 ≠ a.1)
    (hna : al.lookup r = none) :
    reservedHit (evalEnv L al) = true := by
  obtain ⟨M, hM, hlk⟩ := evalEnv_spec L al hnd hold
  rw [hM]
  simp only [reservedHit, List.any_eq_true]
  refine ⟨r, hr, ?_⟩
  rw [wrap_get, hlk, aliasVal_lookup, hna]
  cases hv : valueOf L r with
  | none => exact absurd hv hb
  | some v => rfl

theorem aliasOK_restrict {L : Layers ν} {c : PyCode} (h : AliasOK L c) (keep : List String) :
    AliasOK (L.restrict keep) c :=
  { nodup := h.nodup
    fresh := fun a ha hne =>
      ⟨lookupAll_none_restrict L keep a.1 (h.fresh a ha hne).1, (h.fresh a ha hne).2.1, (h.fresh a ha hne).2.2⟩
    chains := h.chains
    noReserved := fun r hr => ⟨valueOf_none_restrict L keep r (h.noReserved r hr).1, (h.noReserved r hr).2⟩ }

theorem aliasOK_remove {L : Layers ν} {c : PyCode} (h : AliasOK L c) (v : String) :
    AliasOK (L.remove v) c :=
  { nodup := h.nodup
    fresh := fun a ha hne =>
      ⟨lookupAll_none_remove L v a.1 (h.fresh a ha hne).1, (h.fresh a ha hne).2.1, (h.fresh a ha hne).2.2⟩
    chains := h.chains
    noReserved := fun r hr => ⟨valueOf_none_remove L v r (h.noReserved r hr).1, (h.noReserved r hr).2⟩ }

end FormulaicVerif.Proofs.C17
