import FormulaicVerif.Model.Poly
import FormulaicVerif.Proofs.ThreeTerm
import Mathlib.Algebra.BigOperators.Group.List.Basic
import Mathlib.Tactic.Ring
import Mathlib.Tactic.FieldSimp
import Mathlib.Data.List.ReduceOption
import Mathlib.Algebra.Module.Pi
/-! Helper lemmas for the `poly` part of C13: the model computes, column by column, the values of the
three-term-recurrence polynomials on the sample (closed forms `run_training`, `run_recorded_poly`),
and those polynomials are orthogonal for the inner product of the sample. -/

namespace FormulaicVerif.Proofs.C13
open FormulaicVerif.Model

variable {α : Type} [Field α]
set_option linter.unusedSectionVars false

/-- the inner product of the sample `x` on functions: `Σ_{t ∈ x} f t * g t` -/
def ip (x : List α) (f g : α → α) : α := (x.map (fun t => f t * g t)).sum

/-- the polynomials of the three-term recurrence with coefficient sequences `a` (alpha) and `n` (norms2) -/
def recPoly (a n : ℕ → α) : ℕ → α → α
  | 0 => fun _ => 1
  | 1 => fun t => (t - a 0) * 1
  | k + 2 => fun t => (t - a (k + 1)) * recPoly a n (k + 1) t - (n (k + 1) / n k) * recPoly a n k t

theorem zipWith_map_self {β γ : Type} (f : α → β → γ) (g : α → β) (x : List α) :
    List.zipWith f x (x.map g) = x.map (fun t => f t (g t)) := by
  induction x with
  | nil => rfl
  | cons a r ih => simp [ih]

theorem zipWith_map_map {β γ δ : Type} (f : β → γ → δ) (g : α → β) (h : α → γ) (x : List α) :
    List.zipWith f (x.map g) (x.map h) = x.map (fun t => f (g t) (h t)) := by
  induction x with
  | nil => rfl
  | cons a r ih => simp [ih]

theorem sumSq_map (x : List α) (f : α → α) : Poly.sumSq (x.map f) = ip x f f := by
  simp [Poly.sumSq, ip, List.map_map, Function.comp_def]

theorem sumXSq_map (x : List α) (f : α → α) :
    Poly.sumXSq x (x.map f) = ip x (fun t => t * f t) f := by
  simp only [Poly.sumXSq, ip, zipWith_map_self]
  congr 1
  apply List.map_congr_left
  intro t _
  ring

/-- the columns `P[:, d], …, P[:, 0]` as maps of the polynomials over the sample -/
def colsRev (x : List α) (a n : ℕ → α) : ℕ → List (List α)
  | 0 => [x.map (recPoly a n 0)]
  | d + 1 => x.map (recPoly a n (d + 1)) :: colsRev x a n d

theorem colsRev_head (x : List α) (a n : ℕ → α) (d : ℕ) :
    ∃ tl, colsRev x a n d = x.map (recPoly a n d) :: tl := by
  cases d with
  | zero => exact ⟨[], rfl⟩
  | succ d => exact ⟨_, rfl⟩

variable [DecidableEq α]

theorem build_eq (x : List α) (c : Poly.Coefs α) (a n : ℕ → α) (d : ℕ)
    (hα : ∀ k < d, c.alpha k (x.map (recPoly a n k)) = .ok (a k))
    (hν : ∀ k, k + 1 < d → c.norm (k + 1) (x.map (recPoly a n (k + 1))) = .ok (n (k + 1)) ∧
      c.norm k (x.map (recPoly a n k)) = .ok (n k) ∧ n k ≠ 0) :
    Poly.build x c d = .ok (colsRev x a n d) := by
  induction d with
  | zero => rfl
  | succ d ih =>
    have ih' := ih (fun k hk => hα k (by omega)) (fun k hk => hν k (by omega))
    cases d with
    | zero =>
      have h0 : c.alpha 0 (x.map (fun _ => (1 : α))) = .ok (a 0) := hα 0 (by omega)
      simp only [Poly.build, h0, zipWith_map_self, colsRev]
      rfl
    | succ j =>
      obtain ⟨tl, htl⟩ := colsRev_head x a n j
      obtain ⟨h1, h2, h3⟩ := hν j (by omega)
      rw [Poly.build, ih']
      simp only [colsRev, htl, hα (j + 1) (by omega), h1, h2, h3, if_false, zipWith_map_self,
        zipWith_map_map]
      rfl

/-! ### the remaining stages of `Poly.run` on columns of the form `x.map (col k)` -/

theorem colsRev_reverse (x : List α) (a n : ℕ → α) (d : ℕ) :
    (colsRev x a n d).reverse = (List.range' 0 (d + 1)).map (fun k => x.map (recPoly a n k)) := by
  induction d with
  | zero => rfl
  | succ d ih =>
    rw [colsRev, List.reverse_cons, ih, List.range'_concat (n := d + 1), List.map_append]
    simp

theorem norms_eq (c : Poly.Coefs α) (col : ℕ → List α) (n : ℕ → α) (m k0 : ℕ)
    (h : ∀ k, k0 ≤ k → k < k0 + m → c.norm k (col k) = .ok (n k)) :
    Poly.norms c k0 ((List.range' k0 m).map col) = .ok ((List.range' k0 m).map n) := by
  induction m generalizing k0 with
  | zero => rfl
  | succ m ih =>
    rw [List.range'_succ, List.map_cons, Poly.norms, h k0 (le_refl _) (by omega),
      ih (k0 + 1) (fun k h1 h2 => h k (by omega) (by omega))]
    rfl

theorem alphas_eq (c : Poly.Coefs α) (col : ℕ → List α) (a : ℕ → α) (m k0 : ℕ)
    (h : ∀ k, k0 ≤ k → k < k0 + m → c.alpha k (col k) = .ok (a k)) :
    Poly.alphas c k0 ((List.range' k0 m).map col) = .ok ((List.range' k0 m).map a) := by
  induction m generalizing k0 with
  | zero => rfl
  | succ m ih =>
    rw [List.range'_succ, List.map_cons, Poly.alphas, h k0 (le_refl _) (by omega),
      ih (k0 + 1) (fun k h1 h2 => h k (by omega) (by omega))]
    rfl

theorem normalise_eq (sqrt : α → α) (col : ℕ → List α) (n : ℕ → α) (ks : List ℕ)
    (h : ∀ k ∈ ks, sqrt (n k) ≠ 0) :
    Poly.normalise sqrt (ks.map col) (ks.map n) =
      .ok (ks.map (fun k => (col k).map (fun t => t / sqrt (n k)))) := by
  induction ks with
  | nil => rfl
  | cons k r ih =>
    simp only [List.map_cons, Poly.normalise, h k (by simp), if_false,
      ih (fun k' hk' => h k' (by simp [hk']))]

theorem reinsert_eq (xs : List (Option α)) (f : α → α) :
    Poly.reinsert xs (xs.reduceOption.map f) = .ok (xs.map (Option.map f)) := by
  induction xs with
  | nil => rfl
  | cons o r ih =>
    cases o with
    | none => simp only [List.reduceOption_cons_of_none, Poly.reinsert, ih, List.map_cons, Option.map_none]
    | some v => simp only [List.reduceOption_cons_of_some, List.map_cons, Poly.reinsert, ih, Option.map_some]

theorem reinsertAll_eq (xs : List (Option α)) (f : ℕ → α → α) (ks : List ℕ) :
    Poly.reinsertAll xs (ks.map (fun k => xs.reduceOption.map (f k))) =
      .ok (ks.map (fun k => xs.map (Option.map (f k)))) := by
  induction ks with
  | nil => rfl
  | cons k r ih => simp only [List.map_cons, Poly.reinsertAll, reinsert_eq, ih]


/-- `Poly.run` (orthogonal branch) computed in closed form, for any coefficient source that returns
the values `a k` / `n k` on the columns `x.map (recPoly a n k)` -/
theorem run_eq (sqrt : α → α) (xs : List (Option α)) (d : ℕ) (st : Poly.State α) (a n : ℕ → α)
    (hα : ∀ k < d, (match st.alpha with
        | none => Poly.training xs.reduceOption
        | some al => Poly.recorded al st.norms2).alpha k (xs.reduceOption.map (recPoly a n k)) = .ok (a k))
    (hν : ∀ k ≤ d, (match st.alpha with
        | none => Poly.training xs.reduceOption
        | some al => Poly.recorded al st.norms2).norm k (xs.reduceOption.map (recPoly a n k)) = .ok (n k))
    (hn : ∀ k, k + 1 < d → n k ≠ 0)
    (hs : ∀ k ≤ d, sqrt (n k) ≠ 0) :
    Poly.run sqrt xs d false st =
      .ok ((List.range' 1 d).map (fun k => xs.map (Option.map (fun t => recPoly a n k t / sqrt (n k)))),
        match st.alpha with
        | some _ => st
        | none => ⟨some ((List.range' 0 d).map a), some ((List.range' 0 (d + 1)).map n)⟩) := by
  have hdl : ((List.range' 0 (d + 1)).map (fun k => xs.reduceOption.map (recPoly a n k))).dropLast
      = (List.range' 0 d).map (fun k => xs.reduceOption.map (recPoly a n k)) := by
    rw [List.range'_concat (n := d), List.map_append]; simp
  have hdrop : ((List.range' 0 (d + 1)).map
        (fun k => (xs.reduceOption.map (recPoly a n k)).map (fun t => t / sqrt (n k)))).drop 1
      = (List.range' 1 d).map (fun k => xs.reduceOption.map (fun t => recPoly a n k t / sqrt (n k))) := by
    rw [List.range'_succ]; simp [List.map_map, Function.comp_def]
  have hnz := normalise_eq sqrt (fun k => xs.reduceOption.map (recPoly a n k)) n (List.range' 0 (d + 1))
    (fun k hk => hs k (by have := List.mem_range'_1.mp hk; omega))
  obtain ⟨al, nr⟩ := st
  cases al with
  | none =>
    simp only at hα hν
    have hb := build_eq xs.reduceOption _ a n d hα
      (fun k hk => ⟨hν (k + 1) (by omega), hν k (by omega), hn k hk⟩)
    have hno := norms_eq _ (fun k => xs.reduceOption.map (recPoly a n k)) n (d + 1) 0
      (fun k _ hk => hν k (by omega))
    have hal := alphas_eq _ (fun k => xs.reduceOption.map (recPoly a n k)) a d 0
      (fun k _ hk => hα k (by omega))
    unfold Poly.run Poly.fit
    simp only [Bool.false_eq_true, if_false, hb, colsRev_reverse, hno, hnz, hdrop, hdl, reinsertAll_eq,
      hal]
  | some al =>
    simp only at hα hν
    have hb := build_eq xs.reduceOption _ a n d hα
      (fun k hk => ⟨hν (k + 1) (by omega), hν k (by omega), hn k hk⟩)
    have hno := norms_eq _ (fun k => xs.reduceOption.map (recPoly a n k)) n (d + 1) 0
      (fun k _ hk => hν k (by omega))
    unfold Poly.run Poly.fit
    simp only [Bool.false_eq_true, if_false, hb, colsRev_reverse, hno, hnz, hdrop, reinsertAll_eq]


/-! ### training mode: the coefficient sequences the code computes from the sample -/

/-- `sum(x * f**2) / sum(f**2)` -/
def alphaF (x : List α) (f : α → α) : α := ip x (fun t => t * f t) f / ip x f f

/-- the monic orthogonal polynomials of the sample `x`, exactly as the training loop builds them -/
def pf (x : List α) : ℕ → α → α
  | 0 => fun _ => 1
  | 1 => fun t => (t - alphaF x (fun _ => 1)) * 1
  | k + 2 => fun t => (t - alphaF x (pf x (k + 1))) * pf x (k + 1) t
      - (ip x (pf x (k + 1)) (pf x (k + 1)) / ip x (pf x k) (pf x k)) * pf x k t

/-- `alpha[k]` and `norms2[k]` of the sample -/
def aT (x : List α) (k : ℕ) : α := alphaF x (pf x k)
def nT (x : List α) (k : ℕ) : α := ip x (pf x k) (pf x k)

theorem pf_eq_recPoly (x : List α) : ∀ k, pf x k = recPoly (aT x) (nT x) k
  | 0 => rfl
  | 1 => rfl
  | k + 2 => by
    have h1 := pf_eq_recPoly x (k + 1)
    have h0 := pf_eq_recPoly x k
    funext t
    simp only [pf, recPoly, ← h1, ← h0, aT, nT]

theorem training_alpha (x : List α) (k : ℕ) (f : α → α) (h : ip x f f ≠ 0) :
    (Poly.training x).alpha k (x.map f) = .ok (alphaF x f) := by
  simp only [Poly.training, sumSq_map, sumXSq_map, h, if_false, alphaF]

theorem training_norm (x : List α) (k : ℕ) (f : α → α) :
    (Poly.training x).norm k (x.map f) = .ok (ip x f f) := by
  simp only [Poly.training, sumSq_map]

/-- `poly` in training mode, in closed form -/
theorem run_training (sqrt : α → α) (xs : List (Option α)) (d : ℕ)
    (hn : ∀ k ≤ d, nT xs.reduceOption k ≠ 0) (hs : ∀ k ≤ d, sqrt (nT xs.reduceOption k) ≠ 0) :
    Poly.run sqrt xs d false {} =
      .ok ((List.range' 1 d).map (fun k => xs.map (Option.map
            (fun t => pf xs.reduceOption k t / sqrt (nT xs.reduceOption k)))),
        ⟨some ((List.range' 0 d).map (aT xs.reduceOption)),
         some ((List.range' 0 (d + 1)).map (nT xs.reduceOption))⟩) := by
  have h := run_eq sqrt xs d {} (aT xs.reduceOption) (nT xs.reduceOption)
    (fun k hk => by
      simp only [← pf_eq_recPoly]
      exact training_alpha _ k _ (hn k (by omega)))
    (fun k hk => by
      simp only [← pf_eq_recPoly]
      exact training_norm _ k _)
    (fun k hk => hn k (by omega)) hs
  simpa only [← pf_eq_recPoly] using h

/-- `poly` replaying a recorded state, in closed form: the state is returned unchanged -/
theorem run_recorded_poly (sqrt : α → α) (ys : List (Option α)) (d : ℕ) (al nr : List α)
    (hal : d ≤ al.length) (hnr : d + 1 ≤ nr.length)
    (hn : ∀ k, k + 1 < d → nr.getD k 0 ≠ 0) (hs : ∀ k ≤ d, sqrt (nr.getD k 0) ≠ 0) :
    Poly.run sqrt ys d false ⟨some al, some nr⟩ =
      .ok ((List.range' 1 d).map (fun k => ys.map (Option.map
            (fun t => recPoly (fun k => al.getD k 0) (fun k => nr.getD k 0) k t / sqrt (nr.getD k 0)))),
        ⟨some al, some nr⟩) := by
  have h := run_eq sqrt ys d ⟨some al, some nr⟩ (fun k => al.getD k 0) (fun k => nr.getD k 0)
    (fun k hk => by
      have : k < al.length := by omega
      simp [Poly.recorded, this])
    (fun k hk => by
      have : k < nr.length := by omega
      simp [Poly.recorded, this])
    hn hs
  simpa using h

/-! ### orthogonality: instance of the general three-term theorem -/

theorem ip_symm (x : List α) (f g : α → α) : ip x f g = ip x g f := by
  simp only [ip]; congr 1; apply List.map_congr_left; intro t _; ring

theorem ip_add (x : List α) (u v w : α → α) : ip x (u + v) w = ip x u w + ip x v w := by
  simp only [ip]
  induction x with
  | nil => simp
  | cons t r ih => simp only [List.map_cons, List.sum_cons, Pi.add_apply] at ih ⊢; rw [ih]; ring

theorem ip_smul (x : List α) (c : α) (u w : α → α) : ip x (c • u) w = c * ip x u w := by
  simp only [ip]
  induction x with
  | nil => simp
  | cons t r ih => simp only [List.map_cons, List.sum_cons, Pi.smul_apply, smul_eq_mul] at ih ⊢; rw [ih]; ring

theorem ip_mulX (x : List α) (u v : α → α) :
    ip x (fun t => t * u t) v = ip x u (fun t => t * v t) := by
  simp only [ip]; congr 1; apply List.map_congr_left; intro t _; ring

/-- the polynomials the training loop builds are pairwise orthogonal on the sample, as long as the
squared norms that were divided by are non-zero -/
theorem pf_orthogonal (x : List α) (d : ℕ) (hn : ∀ k < d, nT x k ≠ 0) :
    ∀ i j, i ≤ d → j < i → ip x (pf x i) (pf x j) = 0 := by
  apply ThreeTerm.orthogonal (ip x) (fun f => fun t => t * f t) (ip_symm x) (ip_add x) (ip_smul x)
    (ip_mulX x) (pf x) (aT x) (fun k => nT x k / nT x (k - 1))
  · funext t; simp only [pf, aT, Pi.sub_apply, Pi.smul_apply, smul_eq_mul]; ring
  · intro k; funext t
    simp only [pf, aT, nT, Pi.sub_apply, Pi.smul_apply, smul_eq_mul, Nat.add_sub_cancel]; ring
  · intro k hk
    show alphaF x (pf x k) * ip x (pf x k) (pf x k) = _
    rw [alphaF]; exact div_mul_cancel₀ _ (hn k hk)
  · intro k hk
    show nT x (k + 1) / nT x (k + 1 - 1) * nT x k = nT x (k + 1)
    rw [Nat.add_sub_cancel]; exact div_mul_cancel₀ _ (hn k (by omega))

end FormulaicVerif.Proofs.C13
