import Mathlib.Algebra.Module.Basic
import Mathlib.Algebra.Field.Basic
import Mathlib.Tactic.Ring
import Mathlib.Tactic.Linarith
import Mathlib.Tactic.Abel
/-! The three-term recurrence produces an orthogonal family — stated for an arbitrary symmetric
bilinear form `B` on a vector space `V` over a field and an operator `X` that is self-adjoint for
`B` (for `poly`: `V` = functions on the sample, `B f g = Σ f(xᵢ) g(xᵢ)`, `X` = multiplication by the
sample value).  No positivity is needed, only that the squared norms that are divided by are non-zero. -/
namespace FormulaicVerif.Proofs.ThreeTerm

variable {α V : Type} [Field α] [AddCommGroup V] [Module α V]

/-- `p 0` arbitrary, `p 1 = X p₀ - a₀ p₀`, `p (k+2) = X p_{k+1} - a_{k+1} p_{k+1} - b_{k+1} p_k`
with `a k = B (X p_k) p_k / B p_k p_k` and `b (k+1) = B p_{k+1} p_{k+1} / B p_k p_k` (both given
division-free — this is where non-zero squared norms are needed — and only required below `n`).
Then `p_i ⟂ p_j` for all `j < i ≤ n`. -/
theorem orthogonal
    (B : V → V → α) (X : V → V)
    (hsymm : ∀ u v, B u v = B v u)
    (hadd : ∀ u v w, B (u + v) w = B u w + B v w)
    (hsmul : ∀ (c : α) u w, B (c • u) w = c * B u w)
    (hX : ∀ u v, B (X u) v = B u (X v))
    (p : ℕ → V) (a b : ℕ → α)
    (h1 : p 1 = X (p 0) - a 0 • p 0)
    (hrec : ∀ k, p (k + 2) = X (p (k + 1)) - a (k + 1) • p (k + 1) - b (k + 1) • p k)
    (n : ℕ)
    (ha : ∀ k < n, a k * B (p k) (p k) = B (X (p k)) (p k))
    (hb : ∀ k, k + 1 < n → b (k + 1) * B (p k) (p k) = B (p (k + 1)) (p (k + 1))) :
    ∀ i j, i ≤ n → j < i → B (p i) (p j) = 0 := by
  have hsub : ∀ u v w, B (u - v) w = B u w - B v w := by
    intro u v w
    have : u - v = u + (-1 : α) • v := by simp [sub_eq_add_neg]
    rw [this, hadd, hsmul]; ring
  have hsubr : ∀ u v w, B w (u - v) = B w u - B w v := by
    intro u v w; rw [hsymm, hsub, hsymm u, hsymm v]
  have hsmulr : ∀ (c : α) u w, B w (c • u) = c * B w u := by
    intro c u w; rw [hsymm, hsmul, hsymm]
  -- X p_j expressed through the recurrence
  have hXp0 : X (p 0) = p 1 + a 0 • p 0 := by rw [h1]; abel
  have hXp : ∀ k, X (p (k + 1)) = p (k + 2) + a (k + 1) • p (k + 1) + b (k + 1) • p k := by
    intro k; rw [hrec k]; abel
  have haddr : ∀ u v w, B w (u + v) = B w u + B w v := by
    intro u v w; rw [hsymm, hadd, hsymm u, hsymm v]
  have hBX : ∀ m k, (∀ j, j ≤ k → B (p m) (p j) = 0) → B (p m) (X (p k)) = B (p m) (p (k + 1)) := by
    intro m k h
    cases k with
    | zero => rw [hXp0, haddr, hsmulr, h 0 (le_refl _)]; ring
    | succ k =>
      rw [hXp k, haddr, haddr, hsmulr, hsmulr, h (k + 1) (le_refl _), h k (Nat.le_succ _)]; ring
  intro i
  induction i using Nat.strong_induction_on with
  | _ i ih =>
    intro j hi hj
    match i, ih, hi, hj with
    | 0, _, _, hj => exact absurd hj (Nat.not_lt_zero _)
    | 1, _, hi, hj =>
      have hj0 : j = 0 := by omega
      subst hj0
      rw [h1, hsub, hsmul, ha 0 (by omega)]; ring
    | i + 2, ih, hi, hj =>
      -- orthogonality facts available below i+2
      have o1 : ∀ j, j < i + 1 → B (p (i + 1)) (p j) = 0 := fun j hj' => ih (i + 1) (by omega) j (by omega) hj'
      have o0 : ∀ j, j < i → B (p i) (p j) = 0 := fun j hj' => ih i (by omega) j (by omega) hj'
      rw [hrec i, hsub, hsub, hsmul, hsmul]
      rcases Nat.lt_or_ge j i with hlt | hge
      · -- j < i : every term vanishes
        have t1 : B (X (p (i + 1))) (p j) = 0 := by
          rw [hX, hBX (i + 1) j (fun j' hj' => o1 j' (by omega)), o1 (j + 1) (by omega)]
        rw [t1, o1 j (by omega), o0 j hlt]; ring
      · rcases Nat.eq_or_lt_of_le hge with heq | hgt
        · -- j = i
          subst heq
          have t1 : B (X (p (i + 1))) (p i) = B (p (i + 1)) (p (i + 1)) := by
            rw [hX, hBX (i + 1) i (fun j' hj' => o1 j' (by omega))]
          rw [t1, o1 i (by omega), hb i (by omega)]; ring
        · -- j = i + 1
          have hj1 : j = i + 1 := by omega
          subst hj1
          rw [← ha (i + 1) (by omega), hsymm (p i) (p (i + 1)), o1 i (by omega)]; ring

end FormulaicVerif.Proofs.ThreeTerm
