import FormulaicVerif.Model.Parser
/-! Helper lemmas for C15: the span invariant of the tokenizer loop. -/
namespace FormulaicVerif.Proofs.C15Spans
open FormulaicVerif FormulaicVerif.Model

/-- `Chain bound ts` (most recent token first): every token has a span `a ≤ b`, the newest ends
before `bound`, and each older token ends before the next newer one starts -/
def Chain : Nat → List Tok → Prop
  | _, [] => True
  | bound, t :: r => ∃ a b, t.start = some a ∧ t.stop = some b ∧ a ≤ b ∧ b < bound ∧ Chain a r

theorem chain_mono {a b : Nat} (h : a ≤ b) : ∀ {ts : List Tok}, Chain a ts → Chain b ts
  | [], _ => trivial
  | _ :: _, ⟨x, y, h1, h2, h3, h4, h5⟩ => ⟨x, y, h1, h2, h3, Nat.lt_of_lt_of_le h4 h, h5⟩

/-- the pending token is consistent with what was already emitted -/
def Pend (i : Nat) (out : List Tok) (tok : Tok) : Prop :=
  match tok.start with
  | none => tok.text = [] ∧ Chain i out
  | some a => ∃ b, tok.stop = some b ∧ a ≤ b ∧ b < i ∧ Chain a out

def LexInv (i : Nat) (s : LexState) : Prop :=
  Pend i s.out s.tok ∧ (s.qc = [] → s.tok.text = [] → s.tok.start = none)

theorem pend_update {i : Nat} {out : List Tok} {tok : Tok} (c : Char) (k : Option TKind)
    (h : Pend i out tok) : Pend (i + 1) out (tok.update c i k) := by
  unfold Pend at *
  cases hs : tok.start with
  | none =>
    rw [hs] at h
    simp only [Tok.update, hs]
    exact ⟨i, rfl, Nat.le_refl _, Nat.lt_succ_self _, h.2⟩
  | some a =>
    rw [hs] at h
    obtain ⟨b, hb, hab, hbi, hc⟩ := h
    simp only [Tok.update, hs]
    exact ⟨i, rfl, by omega, Nat.lt_succ_self _, hc⟩

theorem update_text_ne (tok : Tok) (c : Char) (i : Nat) (k : Option TKind) : (tok.update c i k).text ≠ [] := by
  simp [Tok.update]

theorem pend_flush {i : Nat} {out : List Tok} {tok : Tok} (h : Pend i out tok) (hn : tok.nonempty = true) :
    Chain i (tok :: out) := by
  unfold Pend at h
  cases hs : tok.start with
  | none =>
    rw [hs] at h
    simp [Tok.nonempty, h.1] at hn
  | some a =>
    rw [hs] at h
    obtain ⟨b, hb, hab, hbi, hc⟩ := h
    exact ⟨a, b, hs, hb, hab, hbi, hc⟩

theorem pend_fresh {i : Nat} {out : List Tok} (h : Chain i out) : Pend i out Tok.fresh := by
  unfold Pend
  simp [Tok.fresh, h]

theorem pend_chain {i : Nat} {out : List Tok} {tok : Tok} (h : Pend i out tok) (he : tok.start = none) :
    Chain i out := by
  unfold Pend at h; rw [he] at h; exact h.2

/-- chain of emitted tokens after the recurring `if token: yield token; token = Token()` -/
theorem flush_inv {i : Nat} {s : LexState} (h : LexInv i s) (hq : s.qc = []) :
    Chain i s.flush.out ∧ s.flush.tok.start = none ∧ s.flush.tok.text = [] ∧ s.flush.qc = s.qc ∧ s.flush.take = s.take := by
  unfold LexState.flush
  by_cases hn : s.tok.nonempty = true
  · rw [if_pos hn]
    exact ⟨pend_flush h.1 hn, rfl, rfl, rfl, rfl⟩
  · rw [if_neg hn]
    have ht : s.tok.text = [] := by simpa [Tok.nonempty] using hn
    have hs := h.2 hq ht
    exact ⟨pend_chain h.1 hs, hs, ht, rfl, rfl⟩

theorem ctx_tok_chain {i : Nat} {out : List Tok} (c : Char) (h : Chain i out) :
    Chain (i + 1) (Tok.fresh.update c i (some .context) :: out) :=
  ⟨i, i, by simp [Tok.update, Tok.fresh], by simp [Tok.update, Tok.fresh], Nat.le_refl _, Nat.lt_succ_self _, h⟩

theorem pend_opened {i : Nat} {out : List Tok} (k : TKind) (h : Chain i out) : Pend (i + 1) out (Tok.opened k i) := by
  unfold Pend
  simp only [Tok.opened]
  exact ⟨i, rfl, Nat.le_refl _, Nat.lt_succ_self _, h⟩

theorem pend_chain' {i : Nat} {out : List Tok} {tok : Tok} (h : Pend i out tok) : Chain i out := by
  unfold Pend at h
  cases hs : tok.start with
  | none => rw [hs] at h; exact h.2
  | some a =>
    rw [hs] at h
    obtain ⟨b, _, hab, hbi, hc⟩ := h
    exact chain_mono (by omega) hc

theorem pend_mono {i : Nat} {out : List Tok} {tok : Tok} (h : Pend i out tok) : Pend (i + 1) out tok := by
  unfold Pend at *
  cases hs : tok.start with
  | none => rw [hs] at h; exact ⟨h.1, chain_mono (Nat.le_succ _) h.2⟩
  | some a =>
    rw [hs] at h
    obtain ⟨b, hb, hab, hbi, hc⟩ := h
    exact ⟨b, hb, hab, by omega, hc⟩

theorem flush_LexInv {i : Nat} {s : LexState} (h : LexInv i s) (hq : s.qc = []) :
    LexInv i s.flush ∧ s.flush.qc = [] ∧ s.flush.take = s.take := by
  obtain ⟨h1, h2, h3, h4, h5⟩ := flush_inv h hq
  refine ⟨⟨?_, fun _ _ => h2⟩, by rw [h4, hq], h5⟩
  unfold Pend
  rw [h2]
  exact ⟨h3, h1⟩

/-- states produced by `{ s' with tok := s'.tok.update …, qc := q, take := t }` -/
theorem inv_update {i : Nat} {s' : LexState} (h : LexInv i s') (c : Char) (k : Option TKind) (q : List Char) (t : Nat) :
    LexInv (i + 1) { s' with tok := s'.tok.update c i k, qc := q, take := t } :=
  ⟨pend_update c k h.1, fun _ ht => absurd ht (update_text_ne _ _ _ _)⟩

theorem lexQuoted_inv (s s' : LexState) (i : Nat) (ci : CharInfo) (top : Char) (rest : List Char)
    (hq : s.qc = top :: rest) (h : LexInv i s)
    (hs : lexQuoted s i ci top rest = .ok s') : LexInv (i + 1) s' := by
  unfold lexQuoted at hs
  split at hs
  · injection hs with hs; subst hs; exact inv_update h _ _ _ _
  · split at hs
    · split at hs
      · split at hs
        · injection hs with hs; subst hs; exact inv_update h _ _ _ _
        · rename_i hne _
          injection hs with hs; subst hs
          exact ⟨pend_fresh (chain_mono (Nat.le_succ _) (pend_flush h.1 hne)), fun _ _ => rfl⟩
      · split at hs
        · injection hs with hs; subst hs
          exact ⟨pend_fresh (chain_mono (Nat.le_succ _) (pend_chain' h.1)), fun _ _ => rfl⟩
        · rename_i hre
          injection hs with hs; subst hs
          refine ⟨pend_mono h.1, fun hq' _ => ?_⟩
          simp only at hq'
          simp [hq'] at hre
    · split at hs
      · injection hs with hs; subst hs; exact inv_update h _ _ _ _
      · injection hs with hs; subst hs; exact inv_update h _ _ _ _

theorem open_inv {i : Nat} {s : LexState} (h : LexInv i s) (k : TKind) (q : List Char) (hqne : q ≠ []) :
    LexInv (i + 1) { (if s.tok.nonempty = true then { s with out := s.tok :: s.out } else s) with
      tok := Tok.opened k i, qc := q } := by
  by_cases hn : s.tok.nonempty = true
  · simp only [hn, if_true]
    exact ⟨pend_opened _ (pend_flush h.1 hn), fun hq' => absurd hq' hqne⟩
  · simp only [hn]
    exact ⟨pend_opened _ (pend_chain' h.1), fun hq' => absurd hq' hqne⟩

theorem ctx_inv {i : Nat} {s : LexState} (h : LexInv i s) (hq : s.qc = []) (c : Char) :
    LexInv (i + 1) { s.flush with out := (Tok.fresh.update c i (some .context)) :: s.flush.out } := by
  obtain ⟨⟨f1, f2⟩, f3, _⟩ := flush_LexInv h hq
  obtain ⟨g1, g2, g3, _, _⟩ := flush_inv h hq
  refine ⟨?_, fun _ _ => g2⟩
  unfold Pend
  simp only [g2]
  exact ⟨g3, ctx_tok_chain _ g1⟩

theorem flushIf_inv {i : Nat} {s : LexState} (h : LexInv i s) (hq : s.qc = []) (b : Bool) :
    LexInv i (if b = true then s.flush else s) ∧ (if b = true then s.flush else s).qc = [] := by
  cases b with
  | false => exact ⟨h, hq⟩
  | true => exact ⟨(flush_LexInv h hq).1, (flush_LexInv h hq).2.1⟩

theorem quoteBranch {i : Nat} {s1 s' : LexState} (h1 : LexInv i s1) (c : Char) (e : LexErr)
    (hs : (if (!s1.tok.nonempty) = true then
            Except.ok { s1 with tok := s1.tok.update c i (some .value), qc := [c] }
          else Except.error e) = Except.ok s') : LexInv (i + 1) s' := by
  split at hs
  · injection hs with hs; subst hs; exact inv_update h1 _ _ _ _
  · cases hs

theorem wordBranch {i : Nat} {s1 s' : LexState} (h1 : LexInv i s1) (c : Char) (e : LexErr) (k : TKind)
    (hs : (if (!(s1.tok.kind == none || s1.tok.kind == some .value || s1.tok.kind == some .name)) = true then
            Except.error e
          else Except.ok { s1 with tok := s1.tok.update c i (some k) }) = Except.ok s') : LexInv (i + 1) s' := by
  split at hs
  · cases hs
  · injection hs with hs; subst hs; exact inv_update h1 _ _ _ _

theorem lexPlain_inv (s s' : LexState) (i : Nat) (ci : CharInfo) (hq : s.qc = []) (h : LexInv i s)
    (hs : lexPlain s i ci = .ok s') : LexInv (i + 1) s' := by
  unfold lexPlain at hs
  split at hs
  · split at hs
    · injection hs with hs; subst hs
      obtain ⟨⟨f1, f2⟩, _, _⟩ := flush_LexInv h hq
      exact ⟨pend_mono f1, f2⟩
    · injection hs with hs; subst hs
      exact ⟨pend_mono h.1, h.2⟩
  · split at hs
    · exact quoteBranch (flushIf_inv h hq _).1 _ _ hs
    · split at hs
      · exact wordBranch (flushIf_inv h hq _).1 _ _ _ hs
      · simp only at hs
        injection hs with hs; subst hs
        exact inv_update (flushIf_inv h hq _).1 _ _ _ _

theorem lexTop_inv (s s' : LexState) (i : Nat) (ci : CharInfo) (hq : s.qc = []) (h : LexInv i s)
    (hs : lexTop s i ci = .ok s') : LexInv (i + 1) s' := by
  unfold lexTop at hs
  split at hs
  · simp only at hs; injection hs with hs; subst hs; exact open_inv h _ _ (by simp)
  · split at hs
    · simp only at hs; injection hs with hs; subst hs; exact open_inv h _ _ (by simp)
    · split at hs
      · simp only at hs; injection hs with hs; subst hs; exact open_inv h _ _ (by simp)
      · split at hs
        · split at hs
          · injection hs with hs; subst hs; exact inv_update h _ _ _ _
          · simp only at hs; injection hs with hs; subst hs; exact ctx_inv h hq _
        · split at hs
          · simp only at hs; injection hs with hs; subst hs; exact ctx_inv h hq _
          · exact lexPlain_inv s s' i ci hq h hs

theorem lexStep_inv (s s' : LexState) (i : Nat) (ci : CharInfo) (h : LexInv i s)
    (hs : lexStep s i ci = .ok s') : LexInv (i + 1) s' := by
  unfold lexStep at hs
  split at hs
  · injection hs with hs; subst hs; exact inv_update h _ _ _ _
  · split at hs
    · rename_i top rest hq
      exact lexQuoted_inv s s' i ci top rest hq h hs
    · rename_i hq
      exact lexTop_inv s s' i ci hq h hs

theorem lexLoop_inv (cs : List CharInfo) : ∀ (i : Nat) (s s' : LexState), LexInv i s →
    lexLoop cs i s = (s', none) → LexInv (i + cs.length) s' := by
  induction cs with
  | nil => intro i s s' h hs; simp [lexLoop] at hs; subst hs; simpa using h
  | cons ci cs ih =>
    intro i s s' h hs
    unfold lexLoop at hs
    cases hst : lexStep s i ci with
    | error e => rw [hst] at hs; simp at hs
    | ok s1 =>
      rw [hst] at hs
      have := ih (i + 1) s1 s' (lexStep_inv s s1 i ci h hst) hs
      simpa [Nat.add_assoc, Nat.add_comm 1] using this

def HasSpan (n : Nat) (t : Tok) : Prop := ∃ a b, t.start = some a ∧ t.stop = some b ∧ a ≤ b ∧ b < n
def Before (t u : Tok) : Prop := ∃ b a, t.stop = some b ∧ u.start = some a ∧ b < a

theorem chain_facts : ∀ (ts : List Tok) (bound : Nat), Chain bound ts →
    (∀ t ∈ ts, HasSpan bound t) ∧ ts.Pairwise (fun newer older => Before older newer) := by
  intro ts
  induction ts with
  | nil => intro _ _; exact ⟨by simp, List.Pairwise.nil⟩
  | cons t r ih =>
    intro bound h
    obtain ⟨a, b, h1, h2, h3, h4, h5⟩ := h
    obtain ⟨i1, i2⟩ := ih a h5
    refine ⟨?_, List.Pairwise.cons ?_ i2⟩
    · intro u hu
      rcases List.mem_cons.mp hu with rfl | hu
      · exact ⟨a, b, h1, h2, h3, h4⟩
      · obtain ⟨x, y, k1, k2, k3, k4⟩ := i1 u hu
        exact ⟨x, y, k1, k2, k3, by omega⟩
    · intro u hu
      obtain ⟨x, y, k1, k2, k3, k4⟩ := i1 u hu
      exact ⟨y, a, k2, h1, k4⟩

/-- every token of a successfully tokenised string has a source span `start ≤ stop` inside the
string, and the spans are strictly ordered and disjoint: each token ends before the next starts -/
theorem spans_ordered (cs : List CharInfo) (ts : List Tok) (h : tokenize cs = .ok ts) :
    (∀ t ∈ ts, HasSpan cs.length t) ∧ ts.Pairwise Before := by
  unfold tokenize tokenizeStream at h
  cases hl : lexLoop cs 0 {} with
  | mk s e =>
    rw [hl] at h
    cases e with
    | some e => simp at h
    | none =>
      simp only at h
      have hinit : LexInv 0 ({} : LexState) := ⟨by unfold Pend; simp [Chain], fun _ _ => rfl⟩
      have hinv := lexLoop_inv cs 0 {} s hinit hl
      simp only [Nat.zero_add] at hinv
      have hchain : Chain cs.length (if s.tok.nonempty = true then s.tok :: s.out else s.out) := by
        by_cases hn : s.tok.nonempty = true
        · simp only [hn, if_true]; exact pend_flush hinv.1 hn
        · simp only [hn]; exact pend_chain' hinv.1
      have hts : ts = (if s.tok.nonempty = true then s.tok :: s.out else s.out).reverse := by
        by_cases hqe : (!s.qc.isEmpty) = true
        · simp [hqe] at h
        · by_cases hn : s.tok.nonempty = true
          · simp [hqe, hn] at h; simp [hn, ← h]
          · simp [hqe, hn] at h; simp [hn, ← h]
      obtain ⟨f1, f2⟩ := chain_facts _ _ hchain
      rw [hts]
      exact ⟨fun t ht => f1 t (List.mem_reverse.mp ht), List.pairwise_reverse.mpr f2⟩

end FormulaicVerif.Proofs.C15Spans
