import FormulaicVerif.Model.Encode
/-! Helper lemmas for C08: the level list is the strictly sorted list of the distinct values. Core Lean only. -/
namespace FormulaicVerif.Proofs.C08
open FormulaicVerif.Model FormulaicVerif.Model.Encode

/-- decidable equality of `Except` values (for `decide` in non-vacuity examples) -/
instance exceptDecEq {ε α : Type} [DecidableEq ε] [DecidableEq α] : DecidableEq (Except ε α) := fun a b =>
  match a, b with
  | .ok x, .ok y => if h : x = y then isTrue (by rw [h]) else isFalse (fun e => h (by injection e))
  | .error x, .error y => if h : x = y then isTrue (by rw [h]) else isFalse (fun e => h (by injection e))
  | .ok _, .error _ => isFalse (fun e => by injection e)
  | .error _, .ok _ => isFalse (fun e => by injection e)

theorem str_tri {a b : String} (h1 : ¬ a < b) (h2 : ¬ b < a) : a = b :=
  Std.Trichotomous.trichotomous (r := fun (x y : String) => x < y) a b h1 h2

theorem mem_insertLevel (s x : String) (l : List String) : x ∈ insertLevel s l ↔ x = s ∨ x ∈ l := by
  induction l with
  | nil => simp [insertLevel]
  | cons t r ih =>
    simp only [insertLevel]
    split
    · simp
    · split
      · rename_i _ h; subst h; simp
      · simp only [List.mem_cons, ih]
        constructor
        · rintro (h | h | h)
          · exact Or.inr (Or.inl h)
          · exact Or.inl h
          · exact Or.inr (Or.inr h)
        · rintro (h | h | h)
          · exact Or.inr (Or.inl h)
          · exact Or.inl h
          · exact Or.inr (Or.inr h)

theorem insertLevel_sorted (s : String) (l : List String) (h : l.Pairwise (· < ·)) :
    (insertLevel s l).Pairwise (· < ·) := by
  induction l with
  | nil => simp [insertLevel]
  | cons t r ih =>
    rw [List.pairwise_cons] at h
    simp only [insertLevel]
    split
    · rename_i hst
      rw [List.pairwise_cons]
      refine ⟨?_, List.pairwise_cons.mpr h⟩
      intro z hz
      rcases List.mem_cons.mp hz with rfl | hz
      · exact hst
      · exact String.lt_trans hst (h.1 z hz)
    · split
      · exact List.pairwise_cons.mpr h
      · rename_i hst hne
        have hts : t < s := by
          apply Classical.byContradiction
          intro hn
          exact hne (str_tri hst hn)
        rw [List.pairwise_cons]
        refine ⟨?_, ih h.2⟩
        intro z hz
        rcases (mem_insertLevel s z r).mp hz with rfl | hz
        · exact hts
        · exact h.1 z hz

theorem sortDedup_sorted (xs : List String) : (sortDedup xs).Pairwise (· < ·) := by
  induction xs with
  | nil => simp [sortDedup]
  | cons x r ih => exact insertLevel_sorted x _ ih

theorem mem_sortDedup (xs : List String) (x : String) : x ∈ sortDedup xs ↔ x ∈ xs := by
  induction xs with
  | nil => simp [sortDedup]
  | cons y r ih =>
    show x ∈ insertLevel y (sortDedup r) ↔ _
    rw [mem_insertLevel, ih]; simp

/-- two strictly increasing lists with the same members are equal -/
theorem sorted_unique : ∀ (l₁ l₂ : List String), l₁.Pairwise (· < ·) → l₂.Pairwise (· < ·) →
    (∀ x, x ∈ l₁ ↔ x ∈ l₂) → l₁ = l₂
  | [], [], _, _, _ => rfl
  | [], b :: _, _, _, h => absurd ((h b).mpr (by simp)) (by simp)
  | a :: _, [], _, _, h => absurd ((h a).mp (by simp)) (by simp)
  | a :: r₁, b :: r₂, h₁, h₂, h => by
    rw [List.pairwise_cons] at h₁ h₂
    have hab : a = b := by
      have ha := (h a).mp (by simp)
      have hb := (h b).mpr (by simp)
      rcases List.mem_cons.mp ha with e | ha'
      · exact e
      · rcases List.mem_cons.mp hb with e | hb'
        · exact e.symm
        · exact absurd (h₁.1 b hb') (String.lt_asymm (h₂.1 a ha'))
    subst hab
    have : r₁ = r₂ := by
      apply sorted_unique r₁ r₂ h₁.2 h₂.2
      intro x
      constructor
      · intro hx
        have := (h x).mp (List.mem_cons_of_mem _ hx)
        rcases List.mem_cons.mp this with e | hx'
        · subst e; exact absurd (h₁.1 x hx) (String.lt_irrefl x)
        · exact hx'
      · intro hx
        have := (h x).mpr (List.mem_cons_of_mem _ hx)
        rcases List.mem_cons.mp this with e | hx'
        · subst e; exact absurd (h₂.1 x hx) (String.lt_irrefl x)
        · exact hx'
    rw [this]

theorem mem_filterMap_id (vals : List (Option String)) (s : String) : s ∈ vals.filterMap id ↔ some s ∈ vals := by
  simp [List.mem_filterMap]

end FormulaicVerif.Proofs.C08
