import FormulaicVerif.Model.HeapX
/-! Helper lemmas for C18: `SimpleFormula._reorder` (stable sort by degree) and the edits of the
sequence protocol as modelled in `Model/HeapX.lean`. -/
namespace FormulaicVerif.Proofs.C18Edit
open FormulaicVerif.Model.Heap FormulaicVerif.Model.HeapX

/-- terms in non-decreasing degree -/
def Sorted (f : Formula) : Prop := f.Pairwise (fun a b => degree a ≤ degree b)

theorem insertByDegree_perm (t : Term) (f : Formula) : (insertByDegree t f).Perm (t :: f) := by
  induction f with
  | nil => exact List.Perm.refl _
  | cons u us ih =>
    simp only [insertByDegree]
    split
    · exact List.Perm.refl _
    · exact (List.Perm.cons u ih).trans (List.Perm.swap t u us)

theorem reorder_perm (f : Formula) : (reorder f).Perm f := by
  induction f with
  | nil => exact List.Perm.refl _
  | cons t ts ih => exact (insertByDegree_perm t _).trans (List.Perm.cons t ih)

theorem insertByDegree_sorted (t : Term) (f : Formula) (h : Sorted f) : Sorted (insertByDegree t f) := by
  induction f with
  | nil => simp [insertByDegree, Sorted]
  | cons u us ih =>
    simp only [insertByDegree]
    have hu := List.pairwise_cons.mp h
    split
    · rename_i hle
      refine List.pairwise_cons.mpr ⟨?_, h⟩
      intro b hb
      rcases List.mem_cons.mp hb with e | e
      · subst e; exact hle
      · exact Nat.le_trans hle (hu.1 b e)
    · rename_i hgt
      refine List.pairwise_cons.mpr ⟨?_, ih hu.2⟩
      intro b hb
      rcases List.mem_cons.mp ((insertByDegree_perm t us).mem_iff.mp hb) with e | e
      · subst e; omega
      · exact hu.1 b e

theorem reorder_sorted (f : Formula) : Sorted (reorder f) := by
  induction f with
  | nil => simp [reorder, Sorted]
  | cons t ts ih => exact insertByDegree_sorted t _ ih

/-- inserting in front of a list whose terms all have at least its degree puts it first (stability) -/
theorem insertByDegree_of_le (t : Term) (f : Formula) (h : ∀ u ∈ f, degree t ≤ degree u) :
    insertByDegree t f = t :: f := by
  cases f with
  | nil => rfl
  | cons u us => simp [insertByDegree, h u (by simp)]

/-- `_reorder` leaves a formula that is already in degree order exactly as it is (Python's sort is stable) -/
theorem reorder_of_sorted (f : Formula) (h : Sorted f) : reorder f = f := by
  induction f with
  | nil => rfl
  | cons t ts ih =>
    have ht := List.pairwise_cons.mp h
    show insertByDegree t (reorder ts) = t :: ts
    rw [ih ht.2]
    exact insertByDegree_of_le t ts ht.1

theorem sorted_eraseIdx (f : Formula) (k : Nat) (h : Sorted f) : Sorted (f.eraseIdx k) :=
  List.Pairwise.sublist (List.eraseIdx_sublist f k) h

theorem applyEdit_sorted (f f' : Formula) (e : Edit) (hs : Sorted f) (h : applyEdit f e = .ok f') : Sorted f' := by
  cases e with
  | insert i t => simp only [applyEdit, Except.ok.injEq] at h; subst h; exact reorder_sorted _
  | append t => simp only [applyEdit, Except.ok.injEq] at h; subst h; exact reorder_sorted _
  | set i t =>
    simp only [applyEdit] at h
    cases hk : normIdx f.length i with
    | none => simp [hk] at h
    | some k => simp only [hk, Except.ok.injEq] at h; subst h; exact reorder_sorted _
  | del i =>
    simp only [applyEdit] at h
    cases hk : normIdx f.length i with
    | none => simp [hk] at h
    | some k => simp only [hk, Except.ok.injEq] at h; subst h; exact sorted_eraseIdx f k hs

section
variable {F E : Type} (P : Params F E)

theorem editForm_forms_sorted (xw : XWorld F E) (fid : Nat) (e : Edit) (h : ∀ f ∈ xw.forms, Sorted f) :
    ∀ f ∈ (editForm xw fid e).1.forms, Sorted f := by
  unfold editForm
  cases hf : xw.forms[fid]? with
  | none => exact h
  | some f0 =>
    simp only
    cases he : applyEdit f0 e with
    | error x => exact h
    | ok f' =>
      intro f hmem
      simp only at hmem
      rcases List.mem_or_eq_of_mem_set hmem with h1 | h1
      · exact h f h1
      · subst h1
        exact applyEdit_sorted f0 _ e (h f0 (List.mem_of_getElem? hf)) he

/-- formula objects stay in degree order: every operation keeps every formula object sorted when the
objects created by `Formula(...)` are (the parser emits them sorted; `subset` and the edits re-sort) -/
theorem xstep_forms_sorted (xw : XWorld F E) (op : XOp) (h : ∀ f ∈ xw.forms, Sorted f)
    (hop : ∀ f, op = .formula f → Sorted f) : ∀ f ∈ (xstep P xw op).1.forms, Sorted f := by
  cases op with
  | formula f0 =>
    intro f hmem
    simp only [xstep, List.mem_append, List.mem_singleton] at hmem
    rcases hmem with h1 | h1
    · exact h f h1
    · subst h1; exact hop _ rfl
  | newSpec fid cfg =>
    simp only [xstep]
    cases xw.forms[fid]? with
    | none => exact h
    | some f0 => exact h
  | update i u =>
    simp only [xstep]
    cases derefAll xw.forms u.formula.toList with
    | none => exact h
    | some fs =>
      cases xw.fref[i]? with
      | none => exact h
      | some r =>
        simp only
        split
        · cases xw.base.specs[i]? with
          | none => exact h
          | some s => exact h
        · exact h
  | subset i picks =>
    simp only [xstep, grow]
    split
    · intro f hmem
      simp only [List.mem_append, List.mem_singleton] at hmem
      rcases hmem with h1 | h1
      · exact h f h1
      · subst h1; exact reorder_sorted _
    · exact h
  | build fids cfg d =>
    simp only [xstep]
    cases derefAll xw.forms fids with
    | none => exact h
    | some fs => exact h
  | call hs u d =>
    simp only [xstep]
    cases derefAll xw.forms (updForms u) with
    | none => exact h
    | some fs =>
      cases lookupAll xw.fref hs with
      | none => exact h
      | some rs => exact h
  | edit fid e => exact editForm_forms_sorted xw fid e h
  | editOf i e =>
    simp only [xstep]
    cases xw.fref[i]? with
    | none => exact h
    | some fid => exact editForm_forms_sorted xw fid e h

theorem xfinal_forms_sorted : ∀ (h : List XOp) (xw : XWorld F E), (∀ f ∈ xw.forms, Sorted f) →
    (∀ op ∈ h, ∀ f, op = .formula f → Sorted f) → ∀ f ∈ (xfinal P xw h).forms, Sorted f := by
  intro h
  induction h with
  | nil => intro xw hw _; exact hw
  | cons op ops ih =>
    intro xw hw hops
    exact ih _ (xstep_forms_sorted P xw op hw (hops op (by simp))) (fun o ho => hops o (by simp [ho]))

end

end FormulaicVerif.Proofs.C18Edit
