import FormulaicVerif.Proofs.C19Dict
/-! Helper lemmas for C19, part 4: the `values_to_merge` grouping of `Structured._merge`. Not obligations. -/
namespace FormulaicVerif.Proofs.C19
open FormulaicVerif.Model.St FormulaicVerif.Spec.Containers

variable {α β γ δ : Type}

/-! ### `values_to_merge` -/
def valsOf (k : String) (E : Items α) : List (Val α) := (E.filter (fun kv => kv.1 == k)).map (·.2)

def oldVals (o : Option (List (Val α))) : List (Val α) :=
  match o with
  | some vs => vs
  | none => []

theorem keys_groupAdd (g : List (String × List (Val α))) (k : String) (v : Val α) :
    (groupAdd g k v).map (·.1) = addKey (g.map (·.1)) k := by
  induction g with
  | nil => simp [groupAdd, addKey]
  | cons kv r ih =>
    obtain ⟨k0, v0⟩ := kv
    by_cases h0 : k0 = k
    · subst h0; simp [groupAdd, addKey]
    · have hb : (k0 == k) = false := by simpa using h0
      simp only [groupAdd, hb, Bool.false_eq_true, if_false, List.map_cons, ih, addKey,
        List.contains_cons]
      have hb' : (k == k0) = false := by simpa using (Ne.symm h0)
      simp only [hb', Bool.false_or]
      split <;> simp

theorem lookup_groupAdd (g : List (String × List (Val α))) (k : String) (v : Val α) (k' : String) :
    (groupAdd g k v).lookup k' = if k' == k then some (oldVals (g.lookup k) ++ [v]) else g.lookup k' := by
  induction g with
  | nil =>
    by_cases h : k' = k
    · subst h; simp [groupAdd, List.lookup, oldVals]
    · have hb : (k' == k) = false := by simpa using h
      simp [groupAdd, List.lookup, hb]
  | cons kv r ih =>
    obtain ⟨k0, v0⟩ := kv
    by_cases h0 : k0 = k
    · subst h0
      by_cases h : k' = k0
      · subst h; simp [groupAdd, List.lookup, oldVals]
      · have hb : (k' == k0) = false := by simpa using h
        simp [groupAdd, List.lookup, hb]
    · have hb : (k0 == k) = false := by simpa using h0
      have hb' : (k == k0) = false := by simpa using (Ne.symm h0)
      simp only [groupAdd, hb, Bool.false_eq_true, if_false, List.lookup, ih, hb']
      by_cases h1 : k' = k0
      · subst h1
        have : (k' == k) = false := by simpa using h0
        simp [this]
      · have hb1 : (k' == k0) = false := by simpa using h1
        simp [hb1]

def gstep (g : List (String × List (Val α))) (kv : String × Val α) := groupAdd g kv.1 kv.2

theorem foldl_flatMap' {σ τ υ : Type} (f : τ → List υ) (h : σ → υ → σ) (xs : List τ) (init : σ) :
    (xs.flatMap f).foldl h init = xs.foldl (fun acc x => (f x).foldl h acc) init := by
  induction xs generalizing init with
  | nil => rfl
  | cons x r ih => simp [List.flatMap_cons, List.foldl_append, ih]

theorem group_eq_foldl (objs : List (Val α)) :
    group objs = (objs.flatMap itemsOf).foldl gstep [] := by
  rw [foldl_flatMap']; rfl

theorem keys_foldl_gstep (E : Items α) (g : List (String × List (Val α))) :
    (E.foldl gstep g).map (·.1) = (E.map (·.1)).foldl addKey (g.map (·.1)) := by
  induction E generalizing g with
  | nil => rfl
  | cons e r ih => simp [List.foldl_cons, ih, gstep, keys_groupAdd]

theorem lookup_foldl_gstep (E : Items α) (g : List (String × List (Val α))) (k : String) :
    (E.foldl gstep g).lookup k =
      if valsOf k E = [] then g.lookup k else some (oldVals (g.lookup k) ++ valsOf k E) := by
  induction E generalizing g with
  | nil => simp [valsOf]
  | cons e r ih =>
    obtain ⟨k0, v0⟩ := e
    simp only [List.foldl_cons, ih, gstep, lookup_groupAdd]
    by_cases h : k0 = k
    · subst h
      have hv : valsOf k0 ((k0, v0) :: r) = v0 :: valsOf k0 r := by simp [valsOf]
      simp only [hv, beq_self_eq_true, if_true, oldVals]
      by_cases hr : valsOf k0 r = []
      · simp [hr]
      · simp [hr]
    · have hb : (k0 == k) = false := by simpa using h
      have hb' : (k == k0) = false := by simpa using (Ne.symm h)
      have hv : valsOf k ((k0, v0) :: r) = valsOf k r := by simp [valsOf, hb]
      simp [hv, hb']

theorem valsOf_eq_nil_iff (k : String) (E : Items α) : valsOf k E = [] ↔ k ∉ E.map (·.1) := by
  simp only [valsOf, List.map_eq_nil_iff, List.filter_eq_nil_iff, List.mem_map, not_exists, not_and]
  constructor
  · intro h kv hkv e; exact h kv hkv (by simp [e])
  · intro h kv hkv e; exact h kv hkv (by simpa using e)

theorem valsOf_of_nodup (k : String) (I : Items α) (h : (I.map (·.1)).Nodup) :
    valsOf k I = (I.lookup k).toList := by
  induction I with
  | nil => rfl
  | cons e r ih =>
    obtain ⟨k0, v0⟩ := e
    simp only [List.map_cons, List.nodup_cons] at h
    by_cases hk : k0 = k
    · subst hk
      have : valsOf k0 r = [] := (valsOf_eq_nil_iff k0 r).2 h.1
      simp [valsOf] at this
      simpa [valsOf, List.lookup] using this
    · have hb : (k0 == k) = false := by simpa using hk
      have hb' : (k == k0) = false := by simpa using (Ne.symm hk)
      have := ih h.2
      simp only [valsOf] at this
      simp [valsOf, hb, List.lookup, hb']
      simpa [valsOf] using ih h.2

theorem valsOf_flatMap (k : String) (objs : List (Val α))
    (h : ∀ o ∈ objs, ((itemsOf o).map (·.1)).Nodup) :
    valsOf k (objs.flatMap itemsOf) = valuesAt k objs := by
  induction objs with
  | nil => rfl
  | cons o r ih =>
    have h1 := valsOf_of_nodup k (itemsOf o) (h o (by simp))
    have h2 := ih (fun o' ho' => h o' (by simp [ho']))
    simp only [valsOf, valuesAt] at h1 h2 ⊢
    simp only [List.flatMap_cons, List.filter_append, List.map_append, h1, h2, List.filterMap_cons]
    cases (itemsOf o).lookup k <;> simp

theorem group_eq (objs : List (Val α)) (h : ∀ o ∈ objs, ((itemsOf o).map (·.1)).Nodup) :
    group objs = (unionKeys objs).map (fun k => (k, valuesAt k objs)) := by
  have hkeys : (group objs).map (·.1) = unionKeys objs := by
    rw [group_eq_foldl, keys_foldl_gstep, foldl_addKey]
    simp [unionKeys, List.map_flatMap]
  apply dict_ext
  · rw [hkeys]; simp [Function.comp_def]
  · rw [hkeys]; exact firstOcc_nodup _
  · intro k
    rw [group_eq_foldl, lookup_foldl_gstep, valsOf_flatMap k objs h]
    have hmem : valuesAt k objs = [] ↔ k ∉ unionKeys objs := by
      rw [← valsOf_flatMap k objs h, valsOf_eq_nil_iff, unionKeys, mem_firstOcc, List.map_flatMap]
    by_cases hv : valuesAt k objs = []
    · have hn := hmem.1 hv
      simp only [hv, if_true, List.lookup]
      symm
      apply lookup_eq_none_of_not_mem
      simpa [Function.comp_def] using hn
    · have hin : k ∈ unionKeys objs := by
        by_cases hc : k ∈ unionKeys objs
        · exact hc
        · exact absurd (hmem.2 hc) hv
      simp only [hv, if_false, List.lookup, oldVals, List.nil_append]
      symm
      have hnd := firstOcc_nodup (objs.flatMap (fun o => (itemsOf o).map (·.1)))
      clear hmem hkeys
      unfold unionKeys at hin ⊢
      generalize firstOcc (objs.flatMap (fun o => (itemsOf o).map (·.1))) = ks at hin hnd
      induction ks with
      | nil => simp at hin
      | cons x r ih =>
        by_cases hx : k = x
        · subst hx; simp [List.lookup]
        · have hb : (k == x) = false := by simpa using hx
          simp only [List.map_cons, List.lookup, hb]
          rw [List.nodup_cons] at hnd
          exact ih (by simpa [hx] using hin) hnd.2



theorem mapM_map_except {ε σ τ υ : Type} (g : σ → τ) (f : τ → Except ε υ) (xs : List σ) :
    (xs.map g).mapM f = xs.mapM (fun x => f (g x)) := by
  induction xs with
  | nil => rfl
  | cons x r ih => simp [List.mapM_cons, ih]

theorem mapM_congr_except {ε σ υ : Type} (f g : σ → Except ε υ) (xs : List σ)
    (h : ∀ x ∈ xs, f x = g x) : xs.mapM f = xs.mapM g := by
  induction xs with
  | nil => rfl
  | cons x r ih =>
    simp only [List.mapM_cons, h x (by simp), ih (fun y hy => h y (by simp [hy]))]

theorem mapM_keys_except {ε υ : Type} (f : String → Except ε υ) (xs : List String)
    (r : List (String × υ)) (h : xs.mapM (fun k => (f k).map (fun m => (k, m))) = .ok r) :
    r.map (·.1) = xs := by
  induction xs generalizing r with
  | nil => simp [List.mapM_nil, pure, Except.pure] at h; subst h; rfl
  | cons x t ih =>
    simp only [List.mapM_cons] at h
    cases hx : f x with
    | error e => rw [hx] at h; simp [Except.map, bind, Except.bind] at h
    | ok m =>
      cases ht : t.mapM (fun k => (f k).map (fun m => (k, m))) with
      | error e => rw [hx, ht] at h; simp [Except.map, bind, Except.bind] at h
      | ok r' =>
        rw [hx, ht] at h
        simp [Except.map, bind, Except.bind, pure, Except.pure] at h
        subst h
        simp [ih r' ht]

/-- the value `_merge` stores under key `k` given the values `vs` found for it -/
def mergeEntry (merger : List α → Except Err α) (fuel : Nat) (ctx : List String) (k : String)
    (vs : List (Val α)) : Except Err (Val α) :=
  match vs with
  | [v] => .ok v
  | vs => merge merger fuel (ctx ++ [k]) vs

theorem merge_succ_group (merger : List α → Except Err α) (fuel : Nat) (ctx : List String)
    (objs : List (Val α)) (hne : objs ≠ []) (hnt : objs.any Val.isTup = false)
    (hsome : objs.any Val.isNode = true) :
    merge merger (fuel + 1) ctx objs =
      ((group objs).mapM (fun kvs => (mergeEntry merger fuel ctx kvs.1 kvs.2).map (fun m => (kvs.1, m))))
        >>= ctor := by
  rw [merge]
  have h1 : objs.isEmpty = false := by cases objs <;> simp_all
  have h2 : objs.all Val.isTup = false := by
    cases objs with
    | nil => simp at hne
    | cons o r =>
      simp only [List.any_cons, Bool.or_eq_false_iff] at hnt
      simp [hnt.1]
  have h3 : objs.all (fun o => !o.isNode) = false := by
    rw [List.any_eq_true] at hsome
    obtain ⟨o, ho, hn⟩ := hsome
    rw [List.all_eq_false]
    exact ⟨o, ho, by simp [hn]⟩
  simp only [h1, hnt, h2, h3, Bool.false_eq_true, if_false, Bool.not_false,
    Bool.and_true]
  congr 1
  apply mapM_congr_except
  intro kvs _
  obtain ⟨k, vs⟩ := kvs
  simp only [mergeEntry]
  split <;> simp [Except.map, pure, Except.pure, bind, Except.bind] <;> (try split <;> rfl)


/-! ### membership in `values_to_merge`, heights -/
theorem groupAdd_inv (S : String × Val α → Prop) (g : List (String × List (Val α))) (k : String)
    (v : Val α) (hg : ∀ kvs ∈ g, ∀ w ∈ kvs.2, S (kvs.1, w)) (hv : S (k, v)) :
    ∀ kvs ∈ groupAdd g k v, ∀ w ∈ kvs.2, S (kvs.1, w) := by
  induction g with
  | nil =>
    intro kvs hk w hw
    simp only [groupAdd, List.mem_singleton] at hk
    subst hk
    simp only [List.mem_singleton] at hw
    subst hw; exact hv
  | cons e r ih =>
    obtain ⟨k0, vs0⟩ := e
    intro kvs hk w hw
    by_cases h0 : k0 = k
    · subst h0
      simp only [groupAdd, beq_self_eq_true, if_true, List.mem_cons] at hk
      rcases hk with hk | hk
      · subst hk
        simp only [List.mem_append, List.mem_singleton] at hw
        rcases hw with hw | hw
        · exact hg (k0, vs0) (by simp) w hw
        · subst hw; exact hv
      · exact hg kvs (by simp [hk]) w hw
    · have hb : (k0 == k) = false := by simpa using h0
      simp only [groupAdd, hb, Bool.false_eq_true, if_false, List.mem_cons] at hk
      rcases hk with hk | hk
      · subst hk; exact hg (k0, vs0) (by simp) w hw
      · exact ih (fun kvs' h' => hg kvs' (by simp [h'])) kvs hk w hw

theorem foldl_gstep_inv (S : String × Val α → Prop) (E : Items α) (g : List (String × List (Val α)))
    (hg : ∀ kvs ∈ g, ∀ w ∈ kvs.2, S (kvs.1, w)) (hE : ∀ e ∈ E, S e) :
    ∀ kvs ∈ E.foldl gstep g, ∀ w ∈ kvs.2, S (kvs.1, w) := by
  induction E generalizing g with
  | nil => simpa using hg
  | cons e r ih =>
    simp only [List.foldl_cons]
    apply ih
    · exact groupAdd_inv S g e.1 e.2 hg (hE e (by simp))
    · intro e' he'; exact hE e' (by simp [he'])

theorem mem_group (objs : List (Val α)) (k : String) (vs : List (Val α)) (h : (k, vs) ∈ group objs) :
    ∀ v ∈ vs, ∃ o ∈ objs, (k, v) ∈ itemsOf o := by
  rw [group_eq_foldl] at h
  have := foldl_gstep_inv (fun e => ∃ o ∈ objs, e ∈ itemsOf o) (objs.flatMap itemsOf) []
    (by simp) (by
      intro e he
      rw [List.mem_flatMap] at he
      exact he)
  exact fun v hv => this (k, vs) h v hv

theorem height_le_heightT {o : Val α} {objs : List (Val α)} (h : o ∈ objs) : height o ≤ heightT objs := by
  induction objs with
  | nil => simp at h
  | cons x r ih =>
    simp only [heightT]
    rcases List.mem_cons.1 h with h | h
    · subst h; exact Nat.le_max_left _ _
    · exact Nat.le_trans (ih h) (Nat.le_max_right _ _)

theorem height_le_heightI {k : String} {v : Val α} {kvs : Items α} (h : (k, v) ∈ kvs) :
    height v ≤ heightI kvs := by
  induction kvs with
  | nil => simp at h
  | cons x r ih =>
    obtain ⟨k0, v0⟩ := x
    simp only [heightI]
    rcases List.mem_cons.1 h with h | h
    · cases h; exact Nat.le_max_left _ _
    · exact Nat.le_trans (ih h) (Nat.le_max_right _ _)

theorem heightT_lt {vs : List (Val α)} {n : Nat} (hn : 0 < n) (h : ∀ v ∈ vs, height v < n) :
    heightT vs < n := by
  induction vs with
  | nil => simpa [heightT] using hn
  | cons x r ih =>
    simp only [heightT]
    exact Nat.max_lt.2 ⟨h x (by simp), ih (fun v hv => h v (by simp [hv]))⟩

theorem group_height (objs : List (Val α)) (hnt : objs.any Val.isTup = false)
    (hsome : objs.any Val.isNode = true) (k : String) (vs : List (Val α))
    (h : (k, vs) ∈ group objs) : heightT vs < heightT objs := by
  rw [List.any_eq_true] at hsome
  obtain ⟨o', ho', hn'⟩ := hsome
  have hpos : 0 < heightT objs := by
    have := height_le_heightT ho'
    cases o' with
    | node kvs => simp only [height] at this; omega
    | leaf a => simp at hn'
    | tup ws => simp at hn'
  apply heightT_lt hpos
  intro v hv
  obtain ⟨o, ho, hmem⟩ := mem_group objs k vs h v hv
  have hle := height_le_heightT ho
  cases o with
  | node kvs =>
    simp only [itemsOf] at hmem
    have := height_le_heightI hmem
    simp only [height] at hle
    omega
  | leaf a =>
    simp only [itemsOf, List.mem_singleton, Prod.mk.injEq] at hmem
    rw [hmem.2]; simpa [height] using hpos
  | tup ws =>
    rw [List.any_eq_false] at hnt
    exact absurd (by simp) (hnt _ ho)

theorem merge_fuel (merger : List α → Except Err α) : ∀ (n m : Nat) (ctx : List String)
    (objs : List (Val α)), heightT objs < n → heightT objs < m →
    merge merger n ctx objs = merge merger m ctx objs := by
  intro n
  induction n with
  | zero => intro m ctx objs h; omega
  | succ n ih =>
    intro m ctx objs hn hm
    cases m with
    | zero => omega
    | succ m =>
      by_cases h1 : objs = []
      · subst h1; simp [merge]
      by_cases hnt : objs.any Val.isTup = true
      · rw [merge, merge]
        by_cases hall : objs.all Val.isTup = true
        · simp [h1, hnt, hall]
        · simp [h1, hnt, hall]
      by_cases hsome : objs.any Val.isNode = true
      · have hnt' : objs.any Val.isTup = false := by simpa using hnt
        rw [merge_succ_group merger n ctx objs h1 hnt' hsome,
          merge_succ_group merger m ctx objs h1 hnt' hsome]
        congr 1
        apply mapM_congr_except
        intro kvs hkvs
        obtain ⟨k, vs⟩ := kvs
        have hlt := group_height objs hnt' hsome k vs hkvs
        simp only [mergeEntry]
        split
        · rfl
        · rw [ih m (ctx ++ [k]) vs (by omega) (by omega)]
      · rw [merge, merge]
        have hall : objs.all (fun o => !o.isNode) = true := by
          rw [List.all_eq_true]
          intro o ho
          have : objs.any Val.isNode = false := by simpa using hsome
          rw [List.any_eq_false] at this
          simpa using this o ho
        simp [hall]

end FormulaicVerif.Proofs.C19
