import FormulaicVerif.Proofs.C13Poly
import FormulaicVerif.Proofs.C13Nan
import FormulaicVerif.Proofs.C13Span

/-! Small lemmas used by `Props/C13.lean`: congruence of the recurrence in its coefficients, list
look-ups in the recorded dictionaries, and the inner product of two columns. -/
namespace FormulaicVerif.Proofs.C13
open FormulaicVerif.Model
variable {α : Type} [Field α]

theorem recPoly_congr (a n a' n' : ℕ → α) : ∀ k, (∀ j < k, a j = a' j) → (∀ j < k, n j = n' j) →
    recPoly a n k = recPoly a' n' k
  | 0, _, _ => rfl
  | 1, ha, _ => by funext t; simp only [recPoly, ha 0 (by omega)]
  | k + 2, ha, hn => by
    funext t
    simp only [recPoly, ha (k + 1) (by omega), hn (k + 1) (by omega), hn k (by omega),
      recPoly_congr a n a' n' (k + 1) (fun j hj => ha j (by omega)) (fun j hj => hn j (by omega)),
      recPoly_congr a n a' n' k (fun j hj => ha j (by omega)) (fun j hj => hn j (by omega))]

theorem getD_map_range' (f : ℕ → α) (m k : ℕ) (h : k < m) :
    ((List.range' 0 m).map f).getD k 0 = f k := by
  simp [List.getD_eq_getElem?_getD, h]

/-- inner product of two columns -/
def dot (u v : List α) : α := (List.zipWith (· * ·) u v).sum

theorem dot_map (x : List α) (f g : α → α) : dot (x.map f) (x.map g) = ip x f g := by
  simp only [dot, ip, zipWith_map_map]

theorem ip_div (x : List α) (f g : α → α) (s r : α) :
    ip x (fun t => f t / s) (fun t => g t / r) = ip x f g / (s * r) := by
  simp only [ip]
  induction x with
  | nil => simp
  | cons t l ih => simp only [List.map_cons, List.sum_cons, ih]; ring

theorem sum_map_eq_ip (x : List α) (f : α → α) : (x.map f).sum = ip x f (fun _ => 1) := by
  simp [ip]

end FormulaicVerif.Proofs.C13
