import FormulaicVerif.Proofs.C04Pipeline
/-! One materializer object, several `get_model_matrix` calls: factor evaluation through the
object's `factor_cache`, started from the reset, is the pure evaluation `evalFactors`; hence every
call of a history — whatever the earlier calls did, including calls that raised half-way — is the
pure function `materialize` of its own spec. -/
namespace FormulaicVerif.Proofs.C04
open FormulaicVerif.Model FormulaicVerif.Model.Replay FormulaicVerif.Spec.Replay

theorem dedupStr_nodup (l : List String) : (dedupStr l).Nodup := by
  induction l with
  | nil => simp [dedupStr]
  | cons a r ih =>
    simp only [dedupStr, List.nodup_cons, List.mem_filter]
    exact ⟨fun h => by simp at h, ih.filter _⟩

/-- the cache entry of a factor is filed under the factor's expression -/
theorem evalFactor_expr {env : Env} {o : String} {f : Frame} {x : String} {ts : TStates} {es : EStates}
    {ef : EvaledFactor} {ts' : TStates} {es' : EStates}
    (h : evalFactor env o f x ts es = .ok (ef, ts', es')) : ef.expr = x := by
  unfold evalFactor at h
  cases hs : env.sem x with
  | none => simp [hs] at h
  | some sem =>
    simp only [hs] at h
    cases sem with
    | lit v =>
      simp only [Except.ok.injEq, Prod.mk.injEq] at h
      rw [← h.1]
    | num e =>
      cases he : evalExpr env f e ts with
      | error x => simp [he] at h
      | ok r =>
        simp only [he, Except.ok.injEq, Prod.mk.injEq] at h
        rw [← h.1]
    | cat var c viaC =>
      cases hd : f.labColumn var with
      | error x => simp [hd] at h
      | ok data =>
        simp only [hd] at h
        cases viaC with
        | true =>
          simp only [if_true] at h
          cases h1 : liftT (catCall c false o (recordedLevels es (explicitDecl env x var ++ f.declared) x var) data) with
          | error x => simp [h1] at h
          | ok r1 =>
            simp only [h1] at h
            cases h2 : liftT (catCall c true o (some r1.2) data) with
            | error x => simp [h2] at h
            | ok r2 =>
              simp only [h2] at h
              split at h
              · cases h
              · cases h
              · simp only [Except.ok.injEq, Prod.mk.injEq] at h
                rw [← h.1]
        | false =>
          simp only [Bool.false_eq_true, if_false] at h
          cases h1 : liftT (catCall (.treatment none) false o (recordedLevels es (explicitDecl env x var ++ f.declared) x var) data) with
          | error x => simp [h1] at h
          | ok r1 =>
            simp only [h1] at h
            split at h
            · cases h
            · simp only [Except.ok.injEq, Prod.mk.injEq] at h
              rw [← h.1]

theorem any_append_single (c : Cache) (ef : EvaledFactor) (y : String) :
    (c ++ [ef]).any (fun g => g.expr == y) = (c.any (fun g => g.expr == y) || ef.expr == y) := by
  simp [List.any_append]

/-- **Evaluation through the object's cache.**  For distinct factor expressions none of which is in
the cache, the loop over `_evaluate_factor` is the pure evaluation: same outcome, same states, and
the cache grows by exactly the evaluated factors, in order. -/
theorem evalFactorsOn_spec (env : Env) (o : String) (f : Frame) (xs : List String) (hd : xs.Nodup)
    (c : Cache) (hc : ∀ x ∈ xs, c.any (fun g => g.expr == x) = false) (ts : TStates) (es : EStates) :
    match evalFactors env o f xs ts es with
    | .ok (c', ts', es') => evalFactorsOn env o f c xs ts es = (.ok (ts', es'), c ++ c')
    | .error e => (evalFactorsOn env o f c xs ts es).1 = .error e := by
  induction xs generalizing c ts es with
  | nil => simp [evalFactors, evalFactorsOn]
  | cons x xs ih =>
    simp only [evalFactors, evalFactorsOn, hc x (by simp), Bool.false_eq_true, if_false]
    cases h1 : evalFactor env o f x ts es with
    | error e => simp
    | ok r =>
      obtain ⟨ef, ts1, es1⟩ := r
      have hx : ef.expr = x := evalFactor_expr h1
      obtain ⟨hnot, hd'⟩ := List.nodup_cons.1 hd
      have hc' : ∀ y ∈ xs, (c ++ [ef]).any (fun g => g.expr == y) = false := by
        intro y hy
        rw [any_append_single, hc y (by simp [hy]), hx]
        have : x ≠ y := fun h => hnot (h ▸ hy)
        simpa using this
      have := ih hd' (c ++ [ef]) hc' ts1 es1
      simp only
      cases h2 : evalFactors env o f xs ts1 es1 with
      | error e =>
        rw [h2] at this
        simpa using this
      | ok r2 =>
        obtain ⟨c2, ts2, es2⟩ := r2
        rw [h2] at this
        simp only at this ⊢
        rw [this]
        simp

/-- `materialize` is: prepare, evaluate every factor, then `finish` -/
theorem materialize_eq (env : Env) (spec0 : Spec) (f : Frame) :
    materialize env spec0 f =
      match prepare spec0 with
      | .error e => .error e
      | .ok spec =>
        match evalFactors env spec.outputOr f (dedupStr spec.formula.flatten) spec.transformState
            spec.encoderState with
        | .error e => .error e
        | .ok (cache, ts, es) => finish spec f cache ts es := by
  unfold materialize finish
  rfl

/-- **One call on a used object.**  Whatever `factor_cache` earlier calls left behind (also calls
that raised after some factors had been evaluated), a `get_model_matrix(spec)` call is the pure
function `materialize` of the spec and the data. -/
theorem getModelMatrix_eq (m : Cache) (env : Env) (spec0 : Spec) (f : Frame) :
    (Mat.getModelMatrix false m env spec0 f).1 = materialize env spec0 f := by
  rw [materialize_eq]
  unfold Mat.getModelMatrix
  cases hp : prepare spec0 with
  | error e => rfl
  | ok spec =>
    simp only
    have := evalFactorsOn_spec env spec.outputOr f (dedupStr spec.formula.flatten) (dedupStr_nodup _) []
      (fun _ _ => rfl) spec.transformState spec.encoderState
    cases he : evalFactors env spec.outputOr f (dedupStr spec.formula.flatten) spec.transformState
        spec.encoderState with
    | error e =>
      rw [he] at this
      simp only at this ⊢
      generalize evalFactorsOn env spec.outputOr f [] (dedupStr spec.formula.flatten) spec.transformState
        spec.encoderState = r at this
      obtain ⟨r1, r2⟩ := r
      simp only at this
      subst this
      rfl
    | ok r =>
      obtain ⟨c', ts', es'⟩ := r
      rw [he] at this
      simp only at this ⊢
      rw [this]
      simp

/-- the outcome of a call (strict or not) does not depend on the state of the object -/
theorem getModelMatrix_fresh (strict : Bool) (m : Cache) (env : Env) (spec0 : Spec) (f : Frame) :
    (Mat.getModelMatrix strict m env spec0 f).1 = (Mat.getModelMatrix strict [] env spec0 f).1 := rfl

/-- **Any history on one object.**  The outcomes of a sequence of calls on one materializer object
are, call by call, the outcomes of the same calls on a new object — from any initial cache content
and whatever calls failed in between. -/
theorem run_history (env : Env) (f : Frame) (m : Cache) (calls : List (Bool × Spec)) :
    Mat.run env f m calls = calls.map (fun c => (Mat.getModelMatrix c.1 [] env c.2 f).1) := by
  induction calls generalizing m with
  | nil => rfl
  | cons c rest ih =>
    obtain ⟨strict, spec⟩ := c
    simp only [Mat.run, List.map_cons, ih]
    rfl

end FormulaicVerif.Proofs.C04
