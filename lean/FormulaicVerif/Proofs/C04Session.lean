import FormulaicVerif.Proofs.C04Pipeline
/-! One materializer object, several `get_model_matrix` calls: factor evaluation through the
object's `factor_cache`, started from the reset, is the pure evaluation `evalFactors`; hence every
call of a history — whatever the earlier calls did, including calls that raised half-way — is the
pure function `materialize` of its own spec. -/
namespace FormulaicVerif.Proofs.C04
open FormulaicVerif.Model FormulaicVerif.Model.Replay FormulaicVerif.Spec.Replay

theorem dedupStr_nodup (l : List String) : (dedupStr l).Nodup := by
  induction l with
  | nil => simp [dedupStr]
  | cons a r ih =>
    simp only [dedupStr, List.nodup_cons, List.mem_filter]
    exact ⟨fun h => by simp at h, ih.filter _⟩

/-- the cache entry of a factor is filed under the factor's expression -/
theorem evalFactor_expr {env : Env} {o : String} {f : Frame} {x : String} {ts : TStates} {es : EStates}
    {ef : EvaledFactor} {ts' : TStates} {es' : EStates}
    (h : evalFactor env o f x ts es = .ok (ef, ts', es')) : ef.expr = x := by
  unfold evalFactor at h
  cases hs : env.sem x with
  | none => simp [hs] at h
  | some sem =>
    simp only [hs] at h
    cases sem with
    | lit v =>
      simp only [Except.ok.injEq, Prod.mk.injEq] at h
      rw [← h.1]
    | num e =>
      cases he : evalExpr env f e ts with
      | error x => simp [he] at h
      | ok r =>
        simp only [he, Except.ok.injEq, Prod.mk.injEq] at h
        rw [← h.1]
    | cat var c viaC =>
      cases hd : f.labColumn var with
      | error x => simp [hd] at h
      | ok data =>
        simp only [hd] at h
        cases viaC with
        | true =>
          simp only [if_true] at h
          cases h1 : liftT (catCall c false o (recordedLevels es (explicitDecl env x var ++ f.declared) x var) data) with
          | error x => simp [h1] at h
          | ok r1 =>
            simp only [h1] at h
            cases h2 : liftT (catCall c true o (some r1.2) data) with
            | error x => simp [h2] at h
            | ok r2 =>
              simp only [h2] at h
              split at h
              · cases h
              · cases h
              · simp only [Except.ok.injEq, Prod.mk.injEq] at h
                rw [← h.1]
        | false =>
          simp only [Bool.false_eq_true, if_false] at h
          cases h1 : liftT (catCall (.treatment none) false o (recordedLevels es (explicitDecl env x var ++ f.declared) x var) data) with
          | error x => simp [h1] at h
          | ok r1 =>
            simp only [h1] at h
            split at h
            · cases h
            · simp only [Except.ok.injEq, Prod.mk.injEq] at h
              rw [← h.1]

theorem any_append_single (c : Cache) (ef : EvaledFactor) (y : String) :
    (c ++ [ef]).any (fun g => g.expr == y) = (c.any (fun g => g.expr == y) || ef.expr == y) := by
  simp [List.any_append]

/-- **Evaluation through the object's cache.**  For distinct factor expressions none of which is in
the cache, the loop over `_evaluate_factor` is the pure evaluation: same outcome, same states, and
the cache grows by exactly the evaluated factors, in order. -/
theorem evalFactorsOn_spec (env : Env) (o : String) (f : Frame) (xs : List String) (hd : xs.Nodup)
    (c : Cache) (hc : ∀ x ∈ xs, c.any (fun g => g.expr == x) = false) (ts : TStates) (es : EStates) :
    match evalFactors env o f xs ts es with
    | .ok (c', ts', es') => evalFactorsOn env o f c xs ts es = (.ok (ts', es'), c ++ c')
    | .error e => (evalFactorsOn env o f c xs ts es).1 = .error e := by
  induction xs generalizing c ts es with
  | nil => simp [evalFactors, evalFactorsOn]
  | cons x xs ih =>
    simp only [evalFactors, evalFactorsOn, hc x (by simp), Bool.false_eq_true, if_false]
    cases h1 : evalFactor env o f x ts es with
    | error e => simp
    | ok r =>
      obtain ⟨ef, ts1, es1⟩ := r
      have hx : ef.expr = x := evalFactor_expr h1
      obtain ⟨hnot, hd'⟩ := List.nodup_cons.1 hd
      have hc' : ∀ y ∈ xs, (c ++ [ef]).any (fun g => g.expr == y) = false := by
        intro y hy
        rw [any_append_single, hc y (by simp [hy]), hx]
        have : x ≠ y := fun h => hnot (h ▸ hy)
        simpa using this
      have := ih hd' (c ++ [ef]) hc' ts1 es1
      simp only
      cases h2 : evalFactors env o f xs ts1 es1 with
      | error e =>
        rw [h2] at this
        simpa using this
      | ok r2 =>
        obtain ⟨c2, ts2, es2⟩ := r2
        rw [h2] at this
        simp only at this ⊢
        rw [this]
        simp

/-- `materialize` is: prepare, evaluate every factor, then `finish` -/
theorem materialize_eq (env : Env) (spec0 : Spec) (f : Frame) :
    materialize env spec0 f =
      match prepare spec0 with
      | .error e => .error e
      | .ok spec =>
        match evalFactors env spec.outputOr f (dedupStr spec.formula.flatten) spec.transformState
            spec.encoderState with
        | .error e => .error e
        | .ok (cache, ts, es) => finish spec f cache ts es := by
  unfold materialize finish
  rfl

/-- **One call on a used object.**  Whatever `factor_cache` earlier calls left behind (also calls
that raised after some factors had been evaluated), a `get_model_matrix(spec)` call is the pure
function `materialize` of the spec and the data. -/
theorem getModelMatrix_eq (m : Cache) (env : Env) (spec0 : Spec) (f : Frame) :
    (Mat.getModelMatrix false m env spec0 f).1 = materialize env spec0 f := by
  rw [materialize_eq]
  unfold Mat.getModelMatrix
  cases hp : prepare spec0 with
  | error e => rfl
  | ok spec =>
    simp only
    have := evalFactorsOn_spec env spec.outputOr f (dedupStr spec.formula.flatten) (dedupStr_nodup _) []
      (fun _ _ => rfl) spec.transformState spec.encoderState
    cases he : evalFactors env spec.outputOr f (dedupStr spec.formula.flatten) spec.transformState
        spec.encoderState with
    | error e =>
      rw [he] at this
      simp only at this ⊢
      generalize evalFactorsOn env spec.outputOr f [] (dedupStr spec.formula.flatten) spec.transformState
        spec.encoderState = r at this
      obtain ⟨r1, r2⟩ := r
      simp only at this
      subst this
      rfl
    | ok r =>
      obtain ⟨c', ts', es'⟩ := r
      rw [he] at this
      simp only at this ⊢
      rw [this]
      simp

/-- the outcome of a call (strict or not) does not depend on the state of the object -/
theorem getModelMatrix_fresh (strict : Bool) (m : Cache) (env : Env) (spec0 : Spec) (f : Frame) :
    (Mat.getModelMatrix strict m env spec0 f).1 = (Mat.getModelMatrix strict [] env spec0 f).1 := rfl

/-- **Any history on one object.**  The outcomes of a sequence of calls on one materializer object
are, call by call, the outcomes of the same calls on a new object — from any initial cache content
and whatever calls failed in between. -/
theorem run_history (env : Env) (f : Frame) (m : Cache) (calls : List (Bool × Spec)) :
    Mat.run env f m calls = calls.map (fun c => (Mat.getModelMatrix c.1 [] env c.2 f).1) := by
  induction calls generalizing m with
  | nil => rfl
  | cons c rest ih =>
    obtain ⟨strict, spec⟩ := c
    simp only [Mat.run, List.map_cons, ih]
    rfl


/-! ## structured specs -/

theorem mapE_mem {α β ε : Type} {f : α → Except ε β} {xs : List α} {ys : List β} (h : mapE f xs = .ok ys)
    {y : β} (hy : y ∈ ys) : ∃ x ∈ xs, f x = .ok y := by
  induction xs generalizing ys with
  | nil => simp only [mapE, Except.ok.injEq] at h; subst h; cases hy
  | cons x xs ih =>
    simp only [mapE] at h
    cases hx : f x with
    | error e => simp [hx] at h
    | ok y0 =>
      cases hr : mapE f xs with
      | error e => simp [hx, hr] at h
      | ok r =>
        simp only [hx, hr, Except.ok.injEq] at h
        subst h
        rcases List.mem_cons.1 hy with rfl | hy
        · exact ⟨x, by simp, hx⟩
        · obtain ⟨x', hx', hf⟩ := ih hr hy
          exact ⟨x', by simp [hx'], hf⟩

/-- the pool stays free of half-fitted states while the parts are materialised one after the other -/
theorem poolAfter_complete (env : Env) (f : Frame) (specs : List Spec) (hnone : ∀ s ∈ specs, s.structure_ = none)
    (pool0 : TStates) (hsc : StatesComplete env pool0) (pool : TStates)
    (h : poolAfter env f pool0 specs = .ok pool) : StatesComplete env pool := by
  induction specs generalizing pool0 with
  | nil => simp only [poolAfter, Except.ok.injEq] at h; subst h; exact hsc
  | cons s rest ih =>
    simp only [poolAfter] at h
    cases hm : materialize env { s with transformState := pool0 } f with
    | error e => simp [hm] at h
    | ok r =>
      obtain ⟨s', m⟩ := r
      simp only [hm] at h
      have h2 := (materialize_fit env { s with transformState := pool0 } (hnone s (by simp)) hsc f s' m hm).2.1
      exact ih (fun t ht => hnone t (by simp [ht])) s'.transformState h2 h

/-- **Every part of a structured fit is an ordinary fit under the pooled state**: the spec attached to
each part is ready for replay on its own — every stateful call of its factors, nested ones included,
finds a recorded state — and replaying it on the training frame reproduces the part. -/
theorem materializeParts_fit (env : Env) (specs : List Spec) (hnone : ∀ s ∈ specs, s.structure_ = none)
    (hsc : StatesComplete env (poolOf specs)) (f : Frame) (rs : List (Spec × List Entry))
    (h : materializeParts env specs f = .ok rs) :
    ∀ r ∈ rs, Ready env r.1 ∧ StatesComplete env r.1.transformState ∧ materialize env r.1 f = .ok r := by
  unfold materializeParts at h
  cases hp : poolAfter env f (poolOf specs) specs with
  | error e => simp [hp] at h
  | ok pool =>
    simp only [hp] at h
    have hpc := poolAfter_complete env f specs hnone _ hsc pool hp
    intro r hr
    obtain ⟨s, hs, hm⟩ := mapE_mem h hr
    obtain ⟨s', m⟩ := r
    obtain ⟨h1, h2, _, h4⟩ := materialize_fit env { s with transformState := pool } (hnone s hs) hpc f s' m hm
    exact ⟨h1, h2, h4⟩

end FormulaicVerif.Proofs.C04
