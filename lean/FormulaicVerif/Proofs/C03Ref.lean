import FormulaicVerif.Spec.MatrixRef
import FormulaicVerif.Proofs.C02Pipeline
/-! C03, step 1 of the bridge (core Lean): when no printed names collide, the matrix `buildMatrix` emits is,
as a list, exactly the columns its scoped terms denote (`Spec.C03.refColumns`). -/
namespace FormulaicVerif.Proofs.C03Ref
open FormulaicVerif.Model FormulaicVerif.Spec FormulaicVerif.Spec.C03 FormulaicVerif.Proofs.C02

theorem refColumns_append (c : Cache) (n : Nat) (a b : List ST) :
    refColumns c n (a ++ b) =
      match refColumns c n a with
      | .error x => .error x
      | .ok ea =>
        match refColumns c n b with
        | .error x => .error x
        | .ok eb => .ok (ea ++ eb) := by
  induction a with
  | nil =>
    simp only [List.nil_append, refColumns]
    cases refColumns c n b <;> simp
  | cons st r ih =>
    simp only [List.cons_append, refColumns, ih]
    cases stEntries c n st with
    | error x => rfl
    | ok es =>
      cases refColumns c n r with
      | error x => rfl
      | ok er =>
        cases refColumns c n b with
        | error x => rfl
        | ok eb => simp

/-- what one scoped term contributes to `scoped_cols`, against what it denotes -/
theorem scopedTermColumns_ref {c : Cache} {v : Variant} {n : Nat} {st : ST} {es : List Entry}
    (h : scopedTermColumns c v n st = .ok es) :
    ∃ raw, stEntries c n st = .ok raw ∧ es = dictOfList raw := by
  rcases scopedTermColumns_spec h with ⟨h1, h2⟩ | ⟨h1, fss, h2, h3⟩
  · refine ⟨es, ?_, ?_⟩
    · simp [stEntries, h1, h2]
    · subst h2; rfl
  · refine ⟨(kron fss).map (entryOf n st.scale), ?_, h3⟩
    have : st.factors.isEmpty = false := by simpa using h1
    simp [stEntries, this, h2]

theorem nodup_append_left {α} {a b : List α} (h : (a ++ b).Nodup) : a.Nodup := (List.nodup_append.mp h).1
theorem nodup_append_right {α} {a b : List α} (h : (a ++ b).Nodup) : b.Nodup := (List.nodup_append.mp h).2.1

/-- the `scoped_cols` of one term: if the names of what is already there and of what the scoped terms denote are
pairwise different, the dictionary is the plain concatenation -/
theorem termColumns_ref {c : Cache} {v : Variant} {n : Nat} {sts : List ST} {acc cols : List Entry}
    (h : termColumns c v n acc sts = .ok cols) :
    ∃ es, refColumns c n sts = .ok es ∧ (((acc ++ es).map (·.name)).Nodup → cols = acc ++ es) := by
  induction sts generalizing acc with
  | nil =>
    simp only [termColumns, Except.ok.injEq] at h
    exact ⟨[], rfl, fun _ => by simp [h]⟩
  | cons st r ih =>
    simp only [termColumns] at h
    cases hs : scopedTermColumns c v n st with
    | error x => simp [hs] at h
    | ok es' =>
      simp only [hs] at h
      obtain ⟨raw, hraw, hes'⟩ := scopedTermColumns_ref hs
      obtain ⟨rest, hrest, hcat⟩ := ih h
      refine ⟨raw ++ rest, by simp [refColumns, hraw, hrest], ?_⟩
      intro hnd
      have hnd' : ((acc ++ raw ++ rest).map (·.name)).Nodup := by simpa [List.append_assoc] using hnd
      have h1 : ((acc ++ raw).map (·.name)).Nodup := by
        rw [List.map_append] at hnd'; exact nodup_append_left hnd'
      have h2 : (raw.map (·.name)).Nodup := by
        rw [List.map_append] at h1; exact nodup_append_right h1
      have e1 : es' = raw := by rw [hes', dictOfList_of_nodup raw h2]
      have e2 : dictUpdate acc es' = acc ++ raw := by
        rw [e1]; exact foldl_dictSet_append raw acc h1
      rw [e2] at hcat
      rw [hcat hnd', List.append_assoc]

/-- without dictionary collisions the emitted matrix is the list of columns its scoped terms denote -/
theorem matrix_eq_ref {cfg : Config} {asDict : Bool} {out : List Entry}
    (h : buildMatrix cfg asDict = .ok out) (hnc : noCollision cfg asDict = true) :
    ∃ rs, buildStructure cfg = .ok rs ∧ refColumns cfg.cache cfg.nrows (rs.flatMap (·.sts)) = .ok out := by
  unfold buildMatrix at h
  cases hs : buildStructure cfg with
  | error x => simp [hs] at h
  | ok rs =>
    simp only [hs, Except.ok.injEq] at h
    refine ⟨rs, rfl, ?_⟩
    simp only [noCollision, hs, Bool.and_eq_true, List.all_eq_true, Bool.or_eq_true, Bool.not_eq_true'] at hnc
    obtain ⟨hterm, hall⟩ := hnc
    obtain ⟨terms, scp, _, _, hb⟩ := buildStructure_spec hs
    have hcols := (buildTerms_spec hb).2
    -- term by term
    have key : ∀ (l : List TermResult), (∀ r ∈ l, termColumns cfg.cache cfg.variant cfg.nrows [] r.sts = .ok r.cols) →
        (∀ r ∈ l, namesDistinct cfg.cache cfg.nrows r.sts = true) →
        refColumns cfg.cache cfg.nrows (l.flatMap (·.sts)) = .ok (l.flatMap (·.cols)) := by
      intro l
      induction l with
      | nil => intro _ _; rfl
      | cons r l ih =>
        intro h1 h2
        obtain ⟨es, hes, hcat⟩ := termColumns_ref (h1 r (by simp))
        have hd := h2 r (by simp)
        simp only [namesDistinct, hes, decide_eq_true_eq] at hd
        have hr : r.cols = es := by simpa using hcat (by simpa using hd)
        have := ih (fun r' hr' => h1 r' (by simp [hr'])) (fun r' hr' => h2 r' (by simp [hr']))
        simp only [List.flatMap_cons, refColumns_append, hes, this, hr]
    have hall' := key rs hcols hterm
    cases asDict with
    | false =>
      simp only [combineColumns, Bool.false_eq_true, if_false, allColumns] at h
      rw [← h]; exact hall'
    | true =>
      simp only [combineColumns, if_true, allColumns] at h
      have hd : namesDistinct cfg.cache cfg.nrows (rs.flatMap (·.sts)) = true := by
        rcases hall with h0 | h0
        · simp at h0
        · exact h0
      simp only [namesDistinct, hall', decide_eq_true_eq] at hd
      have : dictUpdate [] (rs.flatMap (·.cols)) = rs.flatMap (·.cols) := dictOfList_of_nodup _ hd
      rw [this] at h
      rw [← h]; exact hall'

end FormulaicVerif.Proofs.C03Ref
