import FormulaicVerif.Model.TokenMethods
import FormulaicVerif.Model.Eval
import FormulaicVerif.Model.TokenOps
/-! Helper lemmas for C15 about the `Token` methods (`Model/TokenMethods.lean`). -/
namespace FormulaicVerif.Proofs.C15Token
open FormulaicVerif FormulaicVerif.Model FormulaicVerif.Model.TokM

instance decEqOutcome : DecidableEq (Except MethErr EvalMethod) := fun a b =>
  match a, b with
  | .ok x, .ok y => if h : x = y then isTrue (by rw [h]) else isFalse (by intro e; cases e; exact h rfl)
  | .error x, .error y => if h : x = y then isTrue (by rw [h]) else isFalse (by intro e; cases e; exact h rfl)
  | .ok _, .error _ => isFalse (by intro e; cases e)
  | .error _, .ok _ => isFalse (by intro e; cases e)

/-- the kind → evaluation-method table of the live `Token.to_factor` -/
theorem evalOfKind_table :
    evalOfKind (some .name) = .ok .lookup ∧ evalOfKind (some .python) = .ok .python ∧
    evalOfKind (some .value) = .ok .literal ∧ evalOfKind (some .operator) = .error .keyError ∧
    evalOfKind (some .context) = .error .keyError ∧ evalOfKind none = .error .runtimeError := by
  decide +kernel

theorem toFactor_ok_iff (t : Tok) :
    (∃ f, toFactor t = .ok f) ↔ (t.kind = some .name ∨ t.kind = some .python ∨ t.kind = some .value) := by
  obtain ⟨h1, h2, h3, h4, h5, h6⟩ := evalOfKind_table
  unfold toFactor
  cases hk : t.kind with
  | none => simp [h6]
  | some k => cases k <;> simp [h1, h2, h3, h4, h5]

/-- the factor the parser model makes of a leaf token (`Model.termOfTok`) is the one `to_factor` makes -/
theorem termOfTok_toFactor (t : Tok) (f : Factor) (h : toFactor t = .ok f) : termOfTok t = [f] := by
  obtain ⟨h1, h2, h3, h4, h5, h6⟩ := evalOfKind_table
  unfold toFactor at h
  unfold termOfTok
  cases hk : t.kind with
  | none => simp [hk, h6] at h
  | some k =>
    cases k <;> simp [hk, h1, h2, h3, h4, h5] at h <;> simp [← h]

/-! ### source context -/

theorem take_slice_drop (src : List Char) (a b : Nat) (hab : a ≤ b) :
    src.take a ++ slice src a b ++ src.drop (b + 1) = src := by
  unfold slice
  have h1 : (src.drop a).take (b + 1 - a) ++ src.drop (b + 1) = src.drop a := by
    have : src.drop (b + 1) = (src.drop a).drop (b + 1 - a) := by
      rw [List.drop_drop]; congr 1; omega
    rw [this, List.take_append_drop]
  rw [List.append_assoc, h1, List.take_append_drop]

/-- the source context of a token with span `a ≤ b` in a non-empty source: the source with the two
markers put around positions `a … b` (and the colour escapes inside the markers when asked for) -/
theorem sourceContext_eq (src : List Char) (t : Tok) (a b : Nat) (col : Bool) (hs : src ≠ [])
    (ha : t.start = some a) (hb : t.stop = some b) :
    sourceContext (some src) t col =
      some (src.take a ++ Gen.contextLeft.toList ++ (if col then Gen.contextColorOn.toList else [])
        ++ slice src a b ++ (if col then Gen.contextColorOff.toList else []) ++ Gen.contextRight.toList
        ++ src.drop (b + 1)) := by
  unfold sourceContext
  have : src.isEmpty = false := by simpa using hs
  simp [ha, hb, this]

/-! ### split -/

/-- the spans found are in order, inside the text, and each has the length of the pattern -/
def SpansFrom (n : Nat) : Nat → List (Nat × Nat) → Prop
  | _, [] => True
  | lo, (a, b) :: ms => lo ≤ a ∧ a ≤ b ∧ b ≤ n ∧ SpansFrom n b ms

theorem findAllAux_spans (pat : List Char) (hp : pat ≠ []) : ∀ (cs : List Char) (i skip : Nat),
    SpansFrom (i + cs.length) (i + skip) (findAllAux pat cs i skip) := by
  intro cs
  induction cs with
  | nil => intro i skip; simp [findAllAux, SpansFrom]
  | cons c cs ih =>
    intro i skip
    cases skip with
    | succ k =>
      simp only [findAllAux]
      have := ih (i + 1) k
      have e1 : i + 1 + cs.length = i + (c :: cs).length := by simp; omega
      have e2 : i + 1 + k = i + (k + 1) := by omega
      rw [e1, e2] at this; exact this
    | zero =>
      simp only [findAllAux]
      split
      · rename_i hpre
        have hlen : pat.length ≤ (c :: cs).length := (List.isPrefixOf_iff_prefix.mp hpre).length_le
        have hpos : 0 < pat.length := List.length_pos_iff.mpr hp
        refine ⟨by omega, by omega, by omega, ?_⟩
        have := ih (i + 1) (pat.length - 1)
        have e1 : i + 1 + cs.length = i + (c :: cs).length := by simp; omega
        have e2 : i + 1 + (pat.length - 1) = i + pat.length := by omega
        rw [e1, e2] at this; exact this
      · have := ih (i + 1) 0
        have e1 : i + 1 + cs.length = i + (c :: cs).length := by simp; omega
        rw [e1] at this
        -- a list of spans that starts at `i + 1` also starts at `i`
        revert this
        cases findAllAux pat cs (i + 1) 0 with
        | nil => intro _; trivial
        | cons m ms => obtain ⟨a, b⟩ := m; intro h; exact ⟨by have := h.1; omega, h.2⟩

theorem drop_take_drop (text : List Char) (i j : Nat) (hij : i ≤ j) :
    (text.drop i).take (j - i) ++ text.drop j = text.drop i := by
  have : text.drop j = (text.drop i).drop (j - i) := by rw [List.drop_drop]; congr 1; omega
  rw [this, List.take_append_drop]

theorem splitLoop_concat (text : List Char) (before after : Bool) (hba : (before || after) = true) :
    ∀ (ms : List (Nat × Nat)) (last : Nat), SpansFrom text.length last ms →
      (splitLoop text before after ms last).flatten = text.drop last := by
  intro ms
  induction ms with
  | nil =>
    intro last _
    simp only [splitLoop]
    split
    · simp
    · rename_i h; simp [List.drop_eq_nil_of_le (Nat.le_of_not_lt h)]
  | cons m ms ih =>
    intro last h
    obtain ⟨a, b⟩ := m
    obtain ⟨h1, h2, h3, h4⟩ := h
    simp only [splitLoop]
    cases before <;> cases after
    · simp at hba
    · -- after only
      simp only [Bool.false_eq_true, if_false, if_true, List.nil_append, List.flatten_append, List.flatten_cons, List.flatten_nil,
        List.append_nil, List.cons_append]
      rw [ih b h4]
      exact drop_take_drop text last b (by omega)
    · -- before only
      simp only [Bool.false_eq_true, if_false, if_true, List.append_nil, List.cons_append, List.nil_append, List.flatten_cons]
      have h4' : SpansFrom text.length a ms := by
        cases ms with
        | nil => trivial
        | cons m' ms' => obtain ⟨a', b'⟩ := m'; exact ⟨by have := h4.1; omega, h4.2⟩
      rw [ih a h4']
      exact drop_take_drop text last a h1
    · -- both
      simp only [if_true, List.cons_append, List.nil_append, List.flatten_cons]
      rw [ih b h4, drop_take_drop text a b h2]
      exact drop_take_drop text last a h1

/-- **`Token.split` cuts the text and nothing else**: the texts of the pieces, put side by side, are
the text of the token, and every piece keeps the kind and the source span of the token -/
theorem split_spec (t : Tok) (pat : List Char) (after before : Bool) :
    ((split t pat after before).map (·.text)).flatten = t.text ∧
      ∀ u ∈ split t pat after before, u.kind = t.kind ∧ u.start = t.start ∧ u.stop = t.stop := by
  unfold split
  by_cases h : (!after && !before) = true
  · simp [h]
  · simp only [h, Bool.false_eq_true, if_false]
    have hba : (before || after) = true := by cases after <;> cases before <;> simp_all
    constructor
    · rw [List.map_map]
      have : ((fun u : Tok => u.text) ∘ copyWithText t) = id := by funext x; simp [copyWithText]
      rw [this, List.map_id]
      have hs : SpansFrom t.text.length 0 (findAll pat t.text) := by
        unfold findAll
        split
        · trivial
        · rename_i hp
          have := findAllAux_spans pat (by simpa using hp) t.text 0 0
          simpa using this
      rw [splitLoop_concat t.text before after hba _ 0 hs]
      simp
    · intro u hu
      obtain ⟨x, _, rfl⟩ := List.mem_map.mp hu
      simp [copyWithText]

/-- `Token.__eq__`/`__hash__` are consistent: equal tokens hash alike; and equality with a string looks at the text only -/
theorem eq_hash (a b : Tok) (h : eqTok a b = true) : hashKey a = hashKey b := by
  unfold eqTok at h
  simp only [Bool.and_eq_true, beq_iff_eq] at h
  exact h.1

/-! ### the parser's own split -/

theorem isPrefixOf_singleton (c x : Char) (xs : List Char) : [c].isPrefixOf (x :: xs) = (c == x) := by
  simp [List.isPrefixOf]

theorem take_drop_snoc (pre xs : List Char) (x : Char) (last : Nat) (hl : last ≤ pre.length) :
    ((pre ++ x :: xs).drop last).take (pre.length + 1 - last) = ((pre ++ x :: xs).drop last).take (pre.length - last) ++ [x] := by
  rw [List.drop_append_of_le_length hl]
  have h1 : pre.length + 1 - last = (pre.drop last).length + 1 := by simp; omega
  have h2 : pre.length - last = (pre.drop last).length := by simp
  rw [h1, h2, List.take_length_add_append, List.take_left']
  · simp
  · rfl

/-- the single-character split of the parser model (`Model.splitAfter`, used for `~` and `|`) is
`Token.split(pattern, after=True)` -/
theorem splitLoop_splitAfter (c : Char) (text : List Char) : ∀ (xs pre acc : List Char) (last : Nat),
    text = pre ++ xs → last ≤ pre.length → acc.reverse = (text.drop last).take (pre.length - last) →
    splitLoop text false true (findAllAux [c] xs pre.length 0) last = splitAfterAux c xs acc := by
  intro xs
  induction xs with
  | nil =>
    intro pre acc last ht hl hacc
    simp only [findAllAux, splitLoop, splitAfterAux]
    have hlen : text.length = pre.length := by rw [ht]; simp
    by_cases h : last < text.length
    · have hne : acc ≠ [] := by
        intro hnil
        rw [hnil] at hacc
        have : ((text.drop last).take (pre.length - last)).length = 0 := by rw [← hacc]; rfl
        simp at this
        omega
      have hd : text.drop last = acc.reverse := by
        rw [hacc, List.take_of_length_le]; simp; omega
      simp [h, hne, hd]
    · have hnil : acc = [] := by
        have : ((text.drop last).take (pre.length - last)).length = 0 := by simp; omega
        rw [← hacc] at this
        simpa using this
      simp [h, hnil]
  | cons x xs ih =>
    intro pre acc last ht hl hacc
    have ht' : text = (pre ++ [x]) ++ xs := by rw [ht]; simp
    have hlen' : (pre ++ [x]).length = pre.length + 1 := by simp
    simp only [findAllAux, isPrefixOf_singleton, splitAfterAux]
    by_cases hx : (x == c) = true
    · have hcx : (c == x) = true := by
        have : x = c := by simpa using hx
        simp [this]
      simp only [hcx, hx, if_true, List.length_singleton, Nat.sub_self, splitLoop, Bool.false_eq_true, if_false,
        List.nil_append, List.cons_append]
      have hpiece : (text.drop last).take (pre.length + 1 - last) = (x :: acc).reverse := by
        have e1 : (text.drop last).take (pre.length + 1 - last)
            = (text.drop last).take (pre.length - last) ++ [x] := by
          rw [ht]; exact take_drop_snoc pre xs x last hl
        rw [e1, ← hacc]; simp
      rw [hpiece]
      congr 1
      have := ih (pre ++ [x]) [] (pre.length + 1) ht' (by simp) (by simp)
      rw [hlen'] at this
      exact this
    · have hcx : (c == x) = false := by
        have hne : ¬ x = c := by simpa using hx
        simpa using fun h : c = x => hne h.symm
      simp only [hcx, hx, Bool.false_eq_true, if_false]
      have hacc' : (x :: acc).reverse = (text.drop last).take ((pre ++ [x]).length - last) := by
        rw [hlen']
        have e1 : (text.drop last).take (pre.length + 1 - last)
            = (text.drop last).take (pre.length - last) ++ [x] := by
          rw [ht]; exact take_drop_snoc pre xs x last hl
        rw [e1, ← hacc]; simp
      have := ih (pre ++ [x]) (x :: acc) last ht' (by simp; omega) hacc'
      rw [hlen'] at this
      exact this

theorem split_after_eq_splitAfter (t : Tok) (c : Char) :
    (TokM.split t [c] true false).map (·.text) = splitAfter c t.text := by
  unfold TokM.split splitAfter
  simp only [Bool.not_true, Bool.false_and, Bool.false_eq_true, if_false, List.map_map]
  have : ((fun u : Tok => u.text) ∘ copyWithText t) = id := by funext x; simp [copyWithText]
  rw [this, List.map_id]
  unfold findAll
  simp only [List.isEmpty_cons, Bool.false_eq_true, if_false]
  exact splitLoop_splitAfter c t.text t.text [] [] 0 (by simp) (by simp) (by simp)

end FormulaicVerif.Proofs.C15Token
