import FormulaicVerif.Proofs.C15Text
import FormulaicVerif.Proofs.C15Quote
/-! Helper lemmas for C15: the text of every token is determined EXACTLY by its span (`token_text_exact`). -/
namespace FormulaicVerif.Proofs.C15Exact
open FormulaicVerif FormulaicVerif.Model FormulaicVerif.Proofs.C15Quote

def seg (cs : List CharInfo) (a i : Nat) : List Char := ((cs.take i).drop a).map (·.c)
def opseg (cs : List CharInfo) (a i : Nat) : List Char :=
  (((cs.take i).drop a).filter (fun c => !c.space)).map (·.c)

theorem lt_of_cur {cs : List CharInfo} {i : Nat} {ci : CharInfo} (hc : cs[i]? = some ci) : i < cs.length := by
  rcases Nat.lt_or_ge i cs.length with hl | hl
  · exact hl
  · rw [List.getElem?_eq_none hl] at hc; cases hc

theorem take_drop_snoc {cs : List CharInfo} {a i : Nat} {ci : CharInfo} (hc : cs[i]? = some ci) (ha : a ≤ i) :
    (cs.take (i + 1)).drop a = (cs.take i).drop a ++ [ci] := by
  have hil := lt_of_cur hc
  have e1 : cs.take (i + 1) = cs.take i ++ [ci] := by
    rw [List.take_add_one, hc]; rfl
  have e2 : (cs.take i).length = i := by rw [List.length_take]; omega
  rw [e1, List.drop_append_of_le_length (by omega)]

theorem seg_snoc {cs : List CharInfo} {a i : Nat} {ci : CharInfo} (hc : cs[i]? = some ci) (ha : a ≤ i) :
    seg cs a (i + 1) = seg cs a i ++ [ci.c] := by
  simp [seg, take_drop_snoc hc ha]

theorem opseg_snoc {cs : List CharInfo} {a i : Nat} {ci : CharInfo} (hc : cs[i]? = some ci) (ha : a ≤ i) :
    opseg cs a (i + 1) = opseg cs a i ++ (if ci.space then [] else [ci.c]) := by
  simp only [opseg, take_drop_snoc hc ha, List.filter_append, List.map_append]
  cases h : ci.space <;> simp [h]

theorem seg_self (cs : List CharInfo) (i : Nat) : seg cs i i = [] := by
  simp [seg]

theorem opseg_self (cs : List CharInfo) (i : Nat) : opseg cs i i = [] := by
  have : (cs.take i).drop i = [] := by simp
  simp [opseg, this]

theorem seg_length (cs : List CharInfo) (a i : Nat) (h : i ≤ cs.length) : (seg cs a i).length = i - a := by
  simp [seg, List.length_take]; omega

theorem seg_eq_slice (cs : List CharInfo) (a b : Nat) : seg cs a (b + 1) = C15Text.slice (cs.map (·.c)) a b := by
  simp [seg, C15Text.slice, List.map_take, List.map_drop]


/-- closers of the three quotes that open a token at top level -/
def isQ (c : Char) : Bool := c == '}' || c == '`' || c == '%'

/-- position `a` holds a `%`, `{` or backtick -/
def OpenerAt (cs : List CharInfo) (a : Nat) : Prop :=
  ∃ ci, cs[a]? = some ci ∧ (ci.c = '%' ∨ ci.c = '{' ∨ ci.c = '`')

/-- position `a` holds a character other than `%`, `{` and backtick -/
def PlainAt (cs : List CharInfo) (a : Nat) : Prop :=
  ∃ ci, cs[a]? = some ci ∧ ci.c ≠ '%' ∧ ci.c ≠ '{' ∧ ci.c ≠ '`'

/-- **what an emitted token looks like**: its span `a … b` lies inside the source and
(A) it does not begin with a quote opener, is not an operator, and its text is the source `a … b`; or
(B) position `a` holds the `%`/`{`/backtick that opened it and its text is the source `a+1 … b`; or
(C) it is an unquoted operator and its text is the source `a … b` without the whitespace characters -/
def Exact (cs : List CharInfo) (t : Tok) : Prop :=
  ∃ a b, t.start = some a ∧ t.stop = some b ∧ a ≤ b ∧ b < cs.length ∧
    ((PlainAt cs a ∧ t.kind ≠ some .operator ∧ t.text = seg cs a (b + 1)) ∨
     (OpenerAt cs a ∧ a < b ∧ t.text = seg cs (a + 1) (b + 1)) ∨
     (PlainAt cs a ∧ t.kind = some .operator ∧ t.text = opseg cs a (b + 1)))

/-- pending, contiguous from `a` up to the current position; the quote stack (if any) was not opened
by `%`/`{`/backtick -/
def ModeA (cs : List CharInfo) (i : Nat) (qc : List Char) (t : Tok) : Prop :=
  ∃ a, t.start = some a ∧ t.stop = some (i - 1) ∧ a < i ∧ t.text = seg cs a i ∧
    t.kind ≠ some .operator ∧ PlainAt cs a ∧ (∀ bot, qc.getLast? = some bot → isQ bot = false)

/-- pending, opened by `%`/`{`/backtick at `a`, contiguous from `a+1`; the bottom of the quote stack is
the closer of that quote; an inner quote context is open only when the token is non-empty -/
def ModeB (cs : List CharInfo) (i : Nat) (qc : List Char) (t : Tok) : Prop :=
  ∃ a, t.start = some a ∧ t.stop = some (i - 1) ∧ a < i ∧ t.text = seg cs (a + 1) i ∧
    OpenerAt cs a ∧ (∃ bot, qc.getLast? = some bot ∧ isQ bot = true) ∧ (2 ≤ qc.length → a + 1 < i)

/-- pending operator run at top level: the text is the source from `a` with whitespace removed, both
up to the last appended character `b` and up to the current position -/
def ModeC (cs : List CharInfo) (i : Nat) (t : Tok) : Prop :=
  ∃ a b, t.start = some a ∧ t.stop = some b ∧ a ≤ b ∧ b < i ∧ t.kind = some .operator ∧ PlainAt cs a ∧
    t.text = opseg cs a (b + 1) ∧ t.text = opseg cs a i ∧ t.text ≠ []

/-- the invariant on the pending token -/
def Pend (cs : List CharInfo) (i : Nat) (s : LexState) : Prop :=
  i ≤ cs.length ∧ (s.qc = [] → s.take = 0) ∧
    ((s.tok = Tok.fresh ∧ s.qc = []) ∨ ModeA cs i s.qc s.tok ∨ ModeB cs i s.qc s.tok ∨
      (s.qc = [] ∧ ModeC cs i s.tok))

def Inv (cs : List CharInfo) (i : Nat) (s : LexState) : Prop :=
  Pend cs i s ∧ ∀ t ∈ s.out, Exact cs t

theorem nonempty_iff (t : Tok) : t.nonempty = true ↔ t.text ≠ [] := by
  cases h : t.text <;> simp [Tok.nonempty, h]

theorem modeA_nonempty {cs : List CharInfo} {i : Nat} {qc : List Char} {t : Tok} (hi : i ≤ cs.length)
    (h : ModeA cs i qc t) : t.nonempty = true := by
  obtain ⟨a, _, _, hai, ht, _⟩ := h
  rw [nonempty_iff]
  intro h0
  have := seg_length cs a i hi
  rw [← ht, h0] at this
  simp at this; omega

theorem modeC_nonempty {cs : List CharInfo} {i : Nat} {t : Tok} (h : ModeC cs i t) : t.nonempty = true := by
  obtain ⟨a, b, _, _, _, _, _, _, _, _, hne⟩ := h
  exact (nonempty_iff t).mpr hne

/-- at top level the pending token is fresh, or a non-operator in mode A, or an operator in mode C -/
theorem top_cases {cs : List CharInfo} {i : Nat} {s : LexState} (h : Pend cs i s) (hq : s.qc = []) :
    s.tok = Tok.fresh ∨
    (s.tok.nonempty = true ∧ s.tok.kind ≠ some .operator ∧ ModeA cs i [] s.tok) ∨
    (s.tok.nonempty = true ∧ s.tok.kind = some .operator ∧ ModeC cs i s.tok) := by
  obtain ⟨hi, _, h | h | h | h⟩ := h
  · exact Or.inl h.1
  · rw [hq] at h
    exact Or.inr (Or.inl ⟨modeA_nonempty hi h, by obtain ⟨a, _, _, _, _, hk, _⟩ := h; exact hk, h⟩)
  · obtain ⟨a, _, _, _, _, _, ⟨bot, hb, _⟩, _⟩ := h
    rw [hq] at hb; simp at hb
  · exact Or.inr (Or.inr ⟨modeC_nonempty h.2, by obtain ⟨a, b, _, _, _, _, hk, _⟩ := h.2; exact hk, h.2⟩)

/-- a pending token that is emitted at top level is `Exact` -/
theorem exact_of_modeA {cs : List CharInfo} {i : Nat} {t : Tok} (hi : i ≤ cs.length) (h : ModeA cs i [] t) :
    Exact cs t := by
  obtain ⟨a, hs, he, hai, ht, hk, hp, _⟩ := h
  refine ⟨a, i - 1, hs, he, by omega, by omega, Or.inl ⟨hp, hk, ?_⟩⟩
  rw [ht]; congr 1; omega

theorem exact_of_modeC {cs : List CharInfo} {i : Nat} {t : Tok} (hi : i ≤ cs.length) (h : ModeC cs i t) :
    Exact cs t := by
  obtain ⟨a, b, hs, he, hab, hbi, hk, hp, ht, _, _⟩ := h
  exact ⟨a, b, hs, he, hab, by omega, Or.inr (Or.inr ⟨hp, hk, ht⟩)⟩

theorem exact_of_modeB {cs : List CharInfo} {i : Nat} {qc : List Char} {t : Tok} (hi : i ≤ cs.length)
    (h : ModeB cs i qc t) (hn : t.nonempty = true) : Exact cs t := by
  obtain ⟨a, hs, he, hai, ht, ho, _, _⟩ := h
  have hlt : a + 1 < i := by
    rcases Nat.lt_or_ge (a + 1) i with h | h
    · exact h
    · have : i = a + 1 := by omega
      rw [this, seg_self] at ht
      rw [nonempty_iff] at hn; exact absurd ht hn
  refine ⟨a, i - 1, hs, he, by omega, by omega, Or.inr (Or.inl ⟨ho, by omega, ?_⟩)⟩
  rw [ht]; congr 1; omega

/-! ### updates -/

theorem fresh_update {cs : List CharInfo} {i : Nat} {ci : CharInfo} (k : TKind) (q : List Char)
    (hc : cs[i]? = some ci) (hp : ci.c ≠ '%' ∧ ci.c ≠ '{' ∧ ci.c ≠ '`') (hk : k ≠ .operator)
    (hq : ∀ bot, q.getLast? = some bot → isQ bot = false) :
    ModeA cs (i + 1) q (Tok.fresh.update ci.c i (some k)) := by
  refine ⟨i, rfl, rfl, Nat.lt_succ_self _, ?_, by simpa [Tok.update] using hk, ⟨ci, hc, hp⟩, hq⟩
  rw [seg_snoc hc (Nat.le_refl _), seg_self]; rfl

theorem modeA_update {cs : List CharInfo} {i : Nat} {ci : CharInfo} {qc : List Char} {t : Tok}
    (k : Option TKind) (q : List Char) (h : ModeA cs i qc t)
    (hc : cs[i]? = some ci) (hk : k ≠ some .operator)
    (hq : ∀ bot, q.getLast? = some bot → isQ bot = false) :
    ModeA cs (i + 1) q (t.update ci.c i k) := by
  obtain ⟨a, hs, _, hai, ht, hkk, hp, _⟩ := h
  refine ⟨a, by simp [Tok.update, hs], rfl, by omega, ?_, ?_, hp, hq⟩
  · rw [seg_snoc hc (by omega), ← ht]; rfl
  · cases k with
    | none => simpa [Tok.update] using hkk
    | some k => simpa [Tok.update] using hk

theorem modeB_update {cs : List CharInfo} {i : Nat} {ci : CharInfo} {qc : List Char} {t : Tok}
    (q : List Char) (h : ModeB cs i qc t) (hc : cs[i]? = some ci)
    (hq : ∃ bot, q.getLast? = some bot ∧ isQ bot = true) :
    ModeB cs (i + 1) q (t.update ci.c i) := by
  obtain ⟨a, hs, _, hai, ht, ho, _, _⟩ := h
  refine ⟨a, by simp [Tok.update, hs], rfl, by omega, ?_, ho, hq, fun _ => by omega⟩
  rw [seg_snoc hc (by omega), ← ht]; rfl

theorem opened_modeB {cs : List CharInfo} {i : Nat} {ci : CharInfo} (k : TKind) (cl : Char)
    (hc : cs[i]? = some ci) (ho : ci.c = '%' ∨ ci.c = '{' ∨ ci.c = '`') (hcl : isQ cl = true) :
    ModeB cs (i + 1) [cl] (Tok.opened k i) := by
  refine ⟨i, rfl, rfl, Nat.lt_succ_self _, ?_, ⟨ci, hc, ho⟩, ⟨cl, rfl, hcl⟩, fun h => by simp at h⟩
  rw [seg_self]; rfl

theorem modeC_update {cs : List CharInfo} {i : Nat} {ci : CharInfo} {t : Tok}
    (h : t = Tok.fresh ∨ ModeC cs i t) (hc : cs[i]? = some ci) (hsp : ci.space = false)
    (hp : ci.c ≠ '%' ∧ ci.c ≠ '{' ∧ ci.c ≠ '`') :
    ModeC cs (i + 1) (t.update ci.c i (some .operator)) := by
  rcases h with rfl | ⟨a, b, hs, _, hab, hbi, _, hpa, _, ht, _⟩
  · refine ⟨i, i, rfl, rfl, Nat.le_refl _, Nat.lt_succ_self _, rfl, ⟨ci, hc, hp⟩, ?_, ?_, by simp [Tok.update]⟩
    · rw [opseg_snoc hc (Nat.le_refl _), opseg_self, hsp]; rfl
    · rw [opseg_snoc hc (Nat.le_refl _), opseg_self, hsp]; rfl
  · have e : (t.update ci.c i (some .operator)).text = opseg cs a (i + 1) := by
      rw [opseg_snoc hc (by omega), hsp, ← ht]; rfl
    exact ⟨a, i, by simp [Tok.update, hs], rfl, by omega, Nat.lt_succ_self _, rfl, hpa, e, e, by simp [Tok.update]⟩

theorem modeC_skip {cs : List CharInfo} {i : Nat} {ci : CharInfo} {t : Tok}
    (h : ModeC cs i t) (hc : cs[i]? = some ci) (hsp : ci.space = true) : ModeC cs (i + 1) t := by
  obtain ⟨a, b, hs, he, hab, hbi, hk, hpa, ht1, ht, hne⟩ := h
  refine ⟨a, b, hs, he, hab, by omega, hk, hpa, ht1, ?_, hne⟩
  rw [opseg_snoc hc (by omega), hsp, ← ht]; simp


/-! ### the quote stack -/

theorem getLast?_cons_of_ne (x : Char) {l : List Char} (h : l ≠ []) : (x :: l).getLast? = l.getLast? := by
  cases l with
  | nil => exact absurd rfl h
  | cons y ys => exact List.getLast?_cons_cons

/-- a step that leaves a quote context open does not change the bottom of the stack -/
theorem qStep_getLast (qc : List Char) (t : Nat) (c : Char) (h : (qStep qc t c).1 ≠ []) :
    (qStep qc t c).1.getLast? = qc.getLast? := by
  unfold qStep at h ⊢
  split
  · rfl
  · rename_i ht
    simp only [ht, if_false] at h
    cases qc with
    | nil => rfl
    | cons top rest =>
      simp only at h ⊢
      split
      · rfl
      · rename_i h1
        simp only [h1] at h
        split
        · rename_i h2
          simp only [h2, if_true] at h
          exact (getLast?_cons_of_ne top h).symm
        · simp only
          split
          · exact getLast?_cons_of_ne _ (List.cons_ne_nil _ _)
          · rfl

/-- the step that closes the outermost quote context: no escape pending, one closer on the stack, and
the character is that closer -/
theorem qStep_nil (qc : List Char) (t : Nat) (c : Char) (hq : qc ≠ []) (h : (qStep qc t c).1 = []) :
    t = 0 ∧ (c == '\\') = false ∧ qc = [c] := by
  unfold qStep at h
  split at h
  · exact absurd h hq
  · rename_i ht
    cases qc with
    | nil => exact absurd rfl hq
    | cons top rest =>
      simp only at h
      split at h
      · cases h
      · rename_i h1
        split at h
        · rename_i h2
          simp only at h
          have : c = top := by simpa using h2
          exact ⟨by omega, by simpa using h1, by rw [h, this]⟩
        · simp only at h
          split at h <;> cases h

theorem lexStep_close (s : LexState) (i : Nat) (ci : CharInfo) (ht : s.take = 0) (hq : s.qc = [ci.c])
    (hb : (ci.c == '\\') = false) :
    lexStep s i ci = .ok
      (if isQ ci.c = true then
        (if s.tok.nonempty = true then { s with qc := [], out := s.tok :: s.out, tok := Tok.fresh }
         else { s with qc := [], tok := Tok.fresh })
       else { s with qc := [], tok := s.tok.update ci.c i }) := by
  unfold lexStep lexQuoted
  simp only [ht, Nat.lt_irrefl, if_false, hq, hb, Bool.false_eq_true, beq_self_eq_true, Bool.and_true,
    List.isEmpty_nil, Bool.not_true, if_true]
  by_cases hQ : isQ ci.c = true
  · have hQ' : (ci.c == '}' || ci.c == '`' || ci.c == '%') = true := hQ
    simp only [hQ, hQ', if_true]
    by_cases hn : s.tok.nonempty = true <;> simp [hn]
  · have hQ' : (ci.c == '}' || ci.c == '`' || ci.c == '%') = false := by simpa [isQ] using hQ
    simp only [hQ, hQ', Bool.false_eq_true, if_false]

/-! ### one iteration preserves the invariant -/

theorem exact_top {cs : List CharInfo} {i : Nat} {s : LexState} (h : Pend cs i s) (hq : s.qc = [])
    (hn : s.tok.nonempty = true) : Exact cs s.tok := by
  rcases top_cases h hq with hf | ⟨_, _, hA⟩ | ⟨_, _, hC⟩
  · rw [hf] at hn; simp [Tok.fresh, Tok.nonempty] at hn
  · exact exact_of_modeA h.1 hA
  · exact exact_of_modeC h.1 hC

/-- at top level an empty pending token is the fresh token -/
theorem fresh_of_empty {cs : List CharInfo} {i : Nat} {s : LexState} (h : Pend cs i s) (hq : s.qc = [])
    (hn : s.tok.nonempty = false) : s.tok = Tok.fresh := by
  rcases top_cases h hq with hf | ⟨h1, _⟩ | ⟨h1, _⟩
  · exact hf
  · rw [hn] at h1; cases h1
  · rw [hn] at h1; cases h1

theorem out_cons {cs : List CharInfo} {i : Nat} {s : LexState} (h : Inv cs i s) (hq : s.qc = [])
    (hn : s.tok.nonempty = true) : ∀ t ∈ s.tok :: s.out, Exact cs t := by
  intro t ht
  rcases List.mem_cons.mp ht with rfl | ht
  · exact exact_top h.1 hq hn
  · exact h.2 t ht

theorem flush_inv {cs : List CharInfo} {i : Nat} {s : LexState} (h : Inv cs i s) (hq : s.qc = []) :
    s.flush.tok = Tok.fresh ∧ ∀ t ∈ s.flush.out, Exact cs t := by
  unfold LexState.flush
  by_cases hn : s.tok.nonempty = true
  · rw [if_pos hn]; exact ⟨rfl, out_cons h hq hn⟩
  · rw [if_neg hn]
    exact ⟨fresh_of_empty h.1 hq (by simpa using hn), h.2⟩

theorem fresh_nonempty : Tok.fresh.nonempty = false := rfl
theorem fresh_kind : Tok.fresh.kind = none := rfl

/-- one iteration inside a quote context (or while an escape is consumed) preserves the invariant:
either the outermost quote closes (`lexStep_close`), or the character is appended (`lexStep_in_quote`);
the branch that pops an inner closer without appending is unreachable -/
theorem lexQuoted_inv {cs : List CharInfo} {i : Nat} {ci : CharInfo} (s s' : LexState)
    (h : Inv cs i s) (hq : s.qc ≠ []) (hc : cs[i]? = some ci)
    (hs : lexStep s i ci = .ok s') : Inv cs (i + 1) s' := by
  have hi1 : i + 1 ≤ cs.length := lt_of_cur hc
  obtain ⟨⟨hi, htk, hmode⟩, hO⟩ := h
  by_cases hr : (qStep s.qc s.take ci.c).1 = []
  · obtain ⟨ht, hb, hqc⟩ := qStep_nil s.qc s.take ci.c hq hr
    rw [lexStep_close s i ci ht hqc hb] at hs
    injection hs with hs; subst hs
    rcases hmode with hf | hA | hB | hC
    · exact absurd hf.2 hq
    · have hA' := hA
      obtain ⟨a, _, _, _, _, _, _, hbot⟩ := hA
      have hQ : isQ ci.c = false := hbot ci.c (by rw [hqc]; rfl)
      simp only [hQ, Bool.false_eq_true, if_false]
      exact ⟨⟨hi1, fun _ => ht, Or.inr (Or.inl (modeA_update none [] hA' hc (by simp) (by simp)))⟩, hO⟩
    · have hB' := hB
      obtain ⟨a, _, _, _, _, _, ⟨bot, hbot, hQb⟩, _⟩ := hB
      have hQ : isQ ci.c = true := by
        rw [hqc] at hbot
        simp only [List.getLast?_singleton, Option.some.injEq] at hbot
        rw [hbot]; exact hQb
      simp only [hQ, if_true]
      by_cases hn : s.tok.nonempty = true
      · simp only [hn, if_true]
        refine ⟨⟨hi1, fun _ => ht, Or.inl ⟨rfl, rfl⟩⟩, ?_⟩
        intro t hmem
        rcases List.mem_cons.mp hmem with rfl | hmem
        · exact exact_of_modeB hi hB' hn
        · exact hO t hmem
      · simp only [hn]
        exact ⟨⟨hi1, fun _ => ht, Or.inl ⟨rfl, rfl⟩⟩, hO⟩
    · exact absurd hC.1 hq
  · have hne : s.tok.nonempty = true ∨ s.qc.length ≤ 1 := by
      rcases hmode with hf | hA | hB | hC
      · exact absurd hf.2 hq
      · exact Or.inl (modeA_nonempty hi hA)
      · rcases Nat.lt_or_ge 1 s.qc.length with hl | hl
        · left
          obtain ⟨a, _, _, hai, ht, _, _, h2⟩ := hB
          have := h2 hl
          rw [nonempty_iff]
          intro h0
          have hlen := seg_length cs (a + 1) i hi
          rw [← ht, h0] at hlen
          simp at hlen; omega
        · exact Or.inr hl
      · exact absurd hC.1 hq
    rw [lexStep_in_quote s i ci hq hne hr] at hs
    injection hs with hs; subst hs
    have hlast := qStep_getLast s.qc s.take ci.c hr
    refine ⟨⟨hi1, fun h0 => absurd h0 hr, ?_⟩, hO⟩
    rcases hmode with hf | hA | hB | hC
    · exact absurd hf.2 hq
    · have hbot : ∀ bot, (qStep s.qc s.take ci.c).1.getLast? = some bot → isQ bot = false := by
        obtain ⟨a, _, _, _, _, _, _, hbot⟩ := hA
        intro bot hb; rw [hlast] at hb; exact hbot bot hb
      exact Or.inr (Or.inl (modeA_update none _ hA hc (by simp) hbot))
    · have hbot : ∃ bot, (qStep s.qc s.take ci.c).1.getLast? = some bot ∧ isQ bot = true := by
        obtain ⟨a, _, _, _, _, _, hbot, _⟩ := hB
        rw [hlast]; exact hbot
      exact Or.inr (Or.inr (Or.inl (modeB_update _ hB hc hbot)))
    · exact absurd hC.1 hq


theorem ctx_exact {cs : List CharInfo} {i : Nat} {ci : CharInfo} (hc : cs[i]? = some ci)
    (hp : ci.c ≠ '%' ∧ ci.c ≠ '{' ∧ ci.c ≠ '`') : Exact cs (Tok.fresh.update ci.c i (some .context)) :=
  exact_of_modeA (lt_of_cur hc) (fresh_update .context [] hc hp (by simp) (by simp))

theorem getLast_single {c : Char} (h : isQ c = false) : ∀ bot, [c].getLast? = some bot → isQ bot = false := by
  intro bot hb
  simp only [List.getLast?_singleton, Option.some.injEq] at hb
  rw [← hb]; exact h

/-- one iteration at top level preserves the invariant (all branches of `lexTop` and `lexPlain`) -/
theorem lexTop_inv {cs : List CharInfo} {i : Nat} {ci : CharInfo} (s s' : LexState)
    (h : Inv cs i s) (hq : s.qc = []) (hc : cs[i]? = some ci)
    (hs : lexTop s i ci = .ok s') : Inv cs (i + 1) s' := by
  have hi1 : i + 1 ≤ cs.length := lt_of_cur hc
  have ht : s.take = 0 := h.1.2.1 hq
  have hO := h.2
  obtain ⟨hftok, hfout⟩ := flush_inv h hq
  have hfq : s.flush.qc = [] := by rw [C15Step.flush_qc]; exact hq
  have hft : s.flush.take = 0 := by rw [C15Step.flush_take]; exact ht
  have hopen : ∀ t ∈ (if s.tok.nonempty = true then { s with out := s.tok :: s.out } else s).out, Exact cs t := by
    by_cases hn : s.tok.nonempty = true
    · rw [if_pos hn]; exact out_cons h hq hn
    · rw [if_neg hn]; exact hO
  unfold lexTop at hs
  by_cases h1 : (ci.c == '%') = true
  · simp only [h1, if_true] at hs
    injection hs with hs; subst hs
    exact ⟨⟨hi1, fun h0 => by simp at h0,
      Or.inr (Or.inr (Or.inl (opened_modeB _ '%' hc (Or.inl (by simpa using h1)) rfl)))⟩, hopen⟩
  simp only [h1, Bool.false_eq_true, if_false] at hs
  by_cases h2 : (ci.c == '{') = true
  · simp only [h2, if_true] at hs
    injection hs with hs; subst hs
    exact ⟨⟨hi1, fun h0 => by simp at h0,
      Or.inr (Or.inr (Or.inl (opened_modeB _ '}' hc (Or.inr (Or.inl (by simpa using h2))) rfl)))⟩, hopen⟩
  simp only [h2, Bool.false_eq_true, if_false] at hs
  by_cases h3 : (ci.c == '`') = true
  · simp only [h3, if_true] at hs
    injection hs with hs; subst hs
    exact ⟨⟨hi1, fun h0 => by simp at h0,
      Or.inr (Or.inr (Or.inl (opened_modeB _ '`' hc (Or.inr (Or.inr (by simpa using h3))) rfl)))⟩, hopen⟩
  simp only [h3, Bool.false_eq_true, if_false] at hs
  have hp : ci.c ≠ '%' ∧ ci.c ≠ '{' ∧ ci.c ≠ '`' :=
    ⟨by simpa using h1, by simpa using h2, by simpa using h3⟩
  -- the state after `flush` followed by a bracket token
  have hctx : Inv cs (i + 1) { s.flush with out := (Tok.fresh.update ci.c i (some .context)) :: s.flush.out } := by
    refine ⟨⟨hi1, fun _ => hft, Or.inl ⟨hftok, hfq⟩⟩, ?_⟩
    intro t hmem
    rcases List.mem_cons.mp hmem with rfl | hmem
    · exact ctx_exact hc hp
    · exact hfout t hmem
  by_cases h4 : (ci.c == '(' || ci.c == '[') = true
  · simp only [h4, if_true] at hs
    by_cases h5 : (s.tok.kind == some .name || s.tok.kind == some .python) = true
    · simp only [h5, if_true] at hs
      injection hs with hs; subst hs
      have hcl : isQ (closerOf ci.c) = false := by
        simp only [Bool.or_eq_true, beq_iff_eq] at h4
        rcases h4 with h4 | h4 <;> rw [h4] <;> rfl
      rcases top_cases h.1 hq with hf | ⟨_, _, hA⟩ | ⟨_, hk, _⟩
      · rw [hf] at h5; simp [Tok.fresh] at h5
      · exact ⟨⟨hi1, fun h0 => by simp at h0,
          Or.inr (Or.inl (modeA_update _ _ hA hc (by simp) (getLast_single hcl)))⟩, hO⟩
      · rw [hk] at h5; simp at h5
    · simp only [h5, Bool.false_eq_true, if_false] at hs
      injection hs with hs; subst hs
      exact hctx
  simp only [h4, Bool.false_eq_true, if_false] at hs
  by_cases h6 : (ci.c == ')' || ci.c == ']') = true
  · simp only [h6, if_true] at hs
    injection hs with hs; subst hs
    exact hctx
  simp only [h6, Bool.false_eq_true, if_false] at hs
  unfold lexPlain at hs
  have hfresh_inv : Inv cs (i + 1) s.flush := ⟨⟨hi1, fun _ => hft, Or.inl ⟨hftok, hfq⟩⟩, hfout⟩
  by_cases h7 : ci.space = true
  · simp only [h7, if_true] at hs
    by_cases h8 : (s.tok.nonempty && s.tok.kind != some .operator) = true
    · simp only [h8, if_true] at hs
      injection hs with hs; subst hs
      exact hfresh_inv
    · simp only [h8, Bool.false_eq_true, if_false] at hs
      injection hs with hs; subst hs
      rcases top_cases h.1 hq with hf | ⟨hn, hk, _⟩ | ⟨_, _, hC⟩
      · exact ⟨⟨hi1, fun _ => ht, Or.inl ⟨hf, hq⟩⟩, hO⟩
      · exfalso; apply h8; simp [hn, hk]
      · exact ⟨⟨hi1, fun _ => ht, Or.inr (Or.inr (Or.inr ⟨hq, modeC_skip hC hc h7⟩))⟩, hO⟩
  simp only [h7, Bool.false_eq_true, if_false] at hs
  by_cases h9 : (ci.c == '"' || ci.c == '\'') = true
  · simp only [h9, if_true] at hs
    have hcq : isQ ci.c = false := by
      simp only [Bool.or_eq_true, beq_iff_eq] at h9
      rcases h9 with h9 | h9 <;> rw [h9] <;> rfl
    by_cases h10 : (s.tok.nonempty && s.tok.kind == some .operator) = true
    · simp only [h10, if_true, hftok, fresh_nonempty, Bool.not_false] at hs
      injection hs with hs; subst hs
      exact ⟨⟨hi1, fun h0 => by simp at h0,
        Or.inr (Or.inl (fresh_update _ _ hc hp (by simp) (getLast_single hcq)))⟩, hfout⟩
    · simp only [h10, Bool.false_eq_true, if_false] at hs
      by_cases hn : s.tok.nonempty = true
      · simp [hn] at hs
      · have hf := fresh_of_empty h.1 hq (by simpa using hn)
        simp only [hn, Bool.not_false, if_true] at hs
        injection hs with hs; subst hs
        rw [hf]
        exact ⟨⟨hi1, fun h0 => by simp at h0,
          Or.inr (Or.inl (fresh_update _ _ hc hp (by simp) (getLast_single hcq)))⟩, hO⟩
  simp only [h9, Bool.false_eq_true, if_false] at hs
  by_cases h11 : ci.word = true
  · simp only [h11, if_true] at hs
    have hwk : ∀ (b : Bool), (if b = true then TKind.value else TKind.name) ≠ TKind.operator := by
      intro b; split <;> simp
    by_cases h12 : (s.tok.nonempty && (s.tok.kind == some .operator || s.tok.kind == some .python)) = true
    · simp only [h12, if_true, hftok, fresh_kind] at hs
      simp only [beq_self_eq_true, Bool.true_or, Bool.not_true, Bool.false_eq_true, if_false] at hs
      injection hs with hs; subst hs
      exact ⟨⟨hi1, fun _ => hft, Or.inr (Or.inl (fresh_update _ _ hc hp (hwk _) (by rw [hfq]; simp)))⟩, hfout⟩
    · simp only [h12, Bool.false_eq_true, if_false] at hs
      split at hs
      · cases hs
      · injection hs with hs; subst hs
        rcases top_cases h.1 hq with hf | ⟨_, _, hA⟩ | ⟨hn, hk, _⟩
        · rw [hf]
          exact ⟨⟨hi1, fun _ => ht, Or.inr (Or.inl (fresh_update _ _ hc hp (hwk _) (by rw [hq]; simp)))⟩, hO⟩
        · exact ⟨⟨hi1, fun _ => ht,
            Or.inr (Or.inl (modeA_update _ _ hA hc (fun h0 => hwk _ (Option.some.inj h0)) (by rw [hq]; simp)))⟩, hO⟩
        · exfalso; apply h12; simp [hn, hk]
  simp only [h11, Bool.false_eq_true, if_false] at hs
  have hsp : ci.space = false := by simpa using h7
  by_cases h13 : (s.tok.nonempty && s.tok.kind != some .operator) = true
  · simp only [h13, if_true] at hs
    injection hs with hs; subst hs
    refine ⟨⟨hi1, fun _ => hft, Or.inr (Or.inr (Or.inr ⟨hfq, modeC_update (Or.inl hftok) hc hsp hp⟩))⟩, hfout⟩
  · simp only [h13, Bool.false_eq_true, if_false] at hs
    injection hs with hs; subst hs
    rcases top_cases h.1 hq with hf | ⟨hn, hk, _⟩ | ⟨_, _, hC⟩
    · exact ⟨⟨hi1, fun _ => ht, Or.inr (Or.inr (Or.inr ⟨hq, modeC_update (Or.inl hf) hc hsp hp⟩))⟩, hO⟩
    · exfalso; apply h13; simp [hn, hk]
    · exact ⟨⟨hi1, fun _ => ht, Or.inr (Or.inr (Or.inr ⟨hq, modeC_update (Or.inr hC) hc hsp hp⟩))⟩, hO⟩


/-- every successful iteration of the loop preserves the invariant -/
theorem lexStep_inv {cs : List CharInfo} {i : Nat} {ci : CharInfo} (s s' : LexState)
    (h : Inv cs i s) (hc : cs[i]? = some ci) (hs : lexStep s i ci = .ok s') : Inv cs (i + 1) s' := by
  by_cases hq : s.qc = []
  · have ht : s.take = 0 := h.1.2.1 hq
    have : lexStep s i ci = lexTop s i ci := by
      unfold lexStep; simp [ht, hq]
    rw [this] at hs
    exact lexTop_inv s s' h hq hc hs
  · exact lexQuoted_inv s s' h hq hc hs

theorem lexLoop_inv (cs : List CharInfo) : ∀ (rest pre : List CharInfo) (s s' : LexState), cs = pre ++ rest →
    Inv cs pre.length s → lexLoop rest pre.length s = (s', none) → Inv cs cs.length s' := by
  intro rest
  induction rest with
  | nil =>
    intro pre s s' hcs h hs
    simp [lexLoop] at hs; subst hs
    have hlen : cs.length = pre.length := by rw [hcs]; simp
    rw [hlen]; exact h
  | cons ci rest ih =>
    intro pre s s' hcs h hs
    unfold lexLoop at hs
    have hc : cs[pre.length]? = some ci := by rw [hcs]; simp
    cases hst : lexStep s pre.length ci with
    | error e => rw [hst] at hs; simp at hs
    | ok s1 =>
      rw [hst] at hs
      have h1 := lexStep_inv s s1 h hc hst
      have := ih (pre ++ [ci]) s1 s' (by simp [hcs]) (by simpa using h1) (by simpa using hs)
      exact this

theorem inv_init (cs : List CharInfo) : Inv cs 0 {} :=
  ⟨⟨Nat.zero_le _, fun _ => rfl, Or.inl ⟨rfl, rfl⟩⟩, by intro t ht; cases ht⟩

/-- every token of a successfully tokenised string is `Exact` -/
theorem tokens_exact (cs : List CharInfo) (ts : List Tok) (h : tokenize cs = .ok ts) :
    ∀ t ∈ ts, Exact cs t := by
  unfold tokenize tokenizeStream at h
  cases hl : lexLoop cs 0 {} with
  | mk s e =>
    rw [hl] at h
    cases e with
    | some e => simp at h
    | none =>
      simp only at h
      have hinv := lexLoop_inv cs cs [] {} s rfl (inv_init cs) hl
      by_cases hqe : (!s.qc.isEmpty) = true
      · simp [hqe] at h
      · have hq : s.qc = [] := by
          cases hqc : s.qc with
          | nil => rfl
          | cons _ _ => rw [hqc] at hqe; simp at hqe
        by_cases hn : s.tok.nonempty = true
        · simp only [hqe, hn, Bool.false_eq_true, if_false, if_true, Except.ok.injEq] at h
          subst h
          intro t ht
          rw [List.mem_reverse] at ht
          exact out_cons hinv hq hn t ht
        · simp only [hqe, hn, Bool.false_eq_true, if_false, Except.ok.injEq] at h
          subst h
          intro t ht
          rw [List.mem_reverse] at ht
          exact hinv.2 t ht

/-- the source characters at positions `a … b` (both inclusive), with their character-class flags -/
def cslice (cs : List CharInfo) (a b : Nat) : List CharInfo := (cs.take (b + 1)).drop a

theorem openerAt_iff {cs : List CharInfo} {a : Nat} (h : OpenerAt cs a) :
    (cs.map (·.c))[a]? = some '%' ∨ (cs.map (·.c))[a]? = some '{' ∨ (cs.map (·.c))[a]? = some '`' := by
  obtain ⟨ci, hc, ho⟩ := h
  have : (cs.map (·.c))[a]? = some ci.c := by simp [hc]
  rw [this]
  rcases ho with ho | ho | ho <;> simp [ho]

theorem plainAt_iff {cs : List CharInfo} {a : Nat} (h : PlainAt cs a) :
    ¬((cs.map (·.c))[a]? = some '%' ∨ (cs.map (·.c))[a]? = some '{' ∨ (cs.map (·.c))[a]? = some '`') := by
  obtain ⟨ci, hc, h1, h2, h3⟩ := h
  have : (cs.map (·.c))[a]? = some ci.c := by simp [hc]
  rw [this]
  simp [h1, h2, h3]

/-- **The span determines the text.** For every token of a successfully tokenised string, with span
`a … b` (inside the string): if position `a` holds `%`, `{` or a backtick, the token was opened by
that quote character and its text is exactly the source at `a+1 … b`; otherwise, if it is an operator,
its text is exactly the source at `a … b` with the whitespace characters removed; otherwise (names,
values, Python fragments, brackets) its text is exactly the source at `a … b`. -/
theorem token_text_exact (cs : List CharInfo) (ts : List Tok) (h : tokenize cs = .ok ts) :
    ∀ t ∈ ts, ∃ a b, t.start = some a ∧ t.stop = some b ∧ a ≤ b ∧ b < cs.length ∧
      let src := cs.map (·.c)
      let quoted := src[a]? = some '%' ∨ src[a]? = some '{' ∨ src[a]? = some '`'
      (¬quoted ∧ t.kind ≠ some .operator ∧ t.text = C15Text.slice src a b) ∨
      (quoted ∧ a < b ∧ t.text = C15Text.slice src (a + 1) b) ∨
      (¬quoted ∧ t.kind = some .operator ∧
        t.text = ((cslice cs a b).filter (fun ci => !ci.space)).map (·.c)) := by
  intro t ht
  obtain ⟨a, b, hs, he, hab, hbl, hcase⟩ := tokens_exact cs ts h t ht
  refine ⟨a, b, hs, he, hab, hbl, ?_⟩
  rcases hcase with ⟨hp, hk, htx⟩ | ⟨ho, hlt, htx⟩ | ⟨hp, hk, htx⟩
  · exact Or.inl ⟨plainAt_iff hp, hk, by rw [htx, seg_eq_slice]⟩
  · refine Or.inr (Or.inl ⟨openerAt_iff ho, hlt, ?_⟩)
    rw [htx, seg_eq_slice]
  · exact Or.inr (Or.inr ⟨plainAt_iff hp, hk, htx⟩)

end FormulaicVerif.Proofs.C15Exact
