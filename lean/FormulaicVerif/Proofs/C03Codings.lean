import FormulaicVerif.Proofs.TensorRank
import FormulaicVerif.Props.C11
import Mathlib.Logic.Equiv.Fin.Basic
/-! C03: the per-factor hypothesis `Hyp` of the tensor-rank bridge, from facts about coding matrices — for ANY
reduced coding `C` with `[1 | C]` invertible against ANY full coding with as many independent columns as levels,
for every built-in contrast (through C11's `augmented_invertible`), and for numeric variables. -/
namespace FormulaicVerif.Proofs.C03Codings
open FormulaicVerif.Proofs.TensorRank

/-- an independent family with as many members as levels spans every function of the level -/
theorem span_eq_top_of_card {J L : Type} [Fintype J] [Fintype L] (F : J → (L → ℚ)) (hli : LinearIndependent ℚ F)
    (hcard : Fintype.card J = Fintype.card L) : Submodule.span ℚ (Set.range F) = ⊤ := by
  apply hli.span_eq_top_of_card_eq_finrank'
  rw [Module.finrank_fintype_fun_eq_card, hcard]

/-- `Hyp` from per-axis facts.
An axis that spans the intercept (categorical): `[1 | R]` independent with one column fewer than levels — i.e. the
square matrix `[1 | coding]` invertible — and a full coding of as many independent columns as levels (the dummy coding,
but any such coding will do). Any other axis (numeric): `[1 | R]` independent, `F` independent, same span. -/
theorem hyp_of_axes {n : ℕ} {L JR JF : Fin n → Type} [∀ i, Fintype (L i)] [∀ i, Fintype (JR i)] [∀ i, Fintype (JF i)]
    (R : (i : Fin n) → JR i → (L i → ℚ)) (F : (i : Fin n) → JF i → (L i → ℚ)) (spans : Fin n → Bool)
    (hR : ∀ i, LinearIndependent ℚ (aug (R i))) (hF : ∀ i, LinearIndependent ℚ (F i))
    (hcat : ∀ i, spans i = true → Fintype.card (JR i) + 1 = Fintype.card (L i) ∧ Fintype.card (JF i) = Fintype.card (L i))
    (hnum : ∀ i, spans i = false → Submodule.span ℚ (Set.range (F i)) = Submodule.span ℚ (Set.range (R i))) :
    Hyp R F spans := by
  refine ⟨hR, hF, ?_, hnum⟩
  intro i hs
  obtain ⟨h1, h2⟩ := hcat i hs
  rw [span_eq_top_of_card (F i) (hF i) h2, span_aug_eq_top (R i) (hR i) h1]

/-! ### every built-in contrast -/

open FormulaicVerif.Model.Contrasts in
/-- the reduced coding of a built-in contrast on `m + 1` levels, as functions of the level -/
def builtinR (k : Kind) (m : ℕ) : Fin m → (Fin (m + 1) → ℚ) := fun j l => coding k (m + 1) l.val j.val

open FormulaicVerif.Model.Contrasts in
/-- For EVERY built-in contrast (treatment/SAS with any base among the levels, sum, Helmert in all four variants,
difference in both directions, polynomial with pairwise distinct scores) and EVERY number of levels, the constant
column together with the columns of the coding matrix is linearly independent — C11's `augmented_invertible` read as a
statement about functions of the level. -/
theorem builtin_aug_linearIndependent (k : Kind) (m : ℕ) (hv : FormulaicVerif.Props.C11.Valid k (m + 1)) :
    LinearIndependent ℚ (aug (builtinR k m)) := by
  apply aug_linearIndependent_of_det_ne_zero (builtinR k m) (finSuccEquiv m).symm
  have hu := FormulaicVerif.Props.C11.augmented_invertible k (m + 1) hv
  have hne : (FormulaicVerif.Props.C11.augM k (m + 1)).det ≠ 0 := hu.ne_zero
  have hM : (Matrix.of (fun l l' => aug (builtinR k m) ((finSuccEquiv m).symm.symm l') l) :
      Matrix (Fin (m + 1)) (Fin (m + 1)) ℚ) = FormulaicVerif.Props.C11.augM k (m + 1) := by
    ext l c
    simp only [Matrix.of_apply, FormulaicVerif.Props.C11.augM, Equiv.symm_symm]
    refine Fin.cases ?_ ?_ c
    · simp [finSuccEquiv_zero, TensorRank.aug, FormulaicVerif.Model.Contrasts.aug]
    · intro j
      simp [finSuccEquiv_succ, TensorRank.aug, FormulaicVerif.Model.Contrasts.aug, builtinR]
  rw [hM]
  exact hne

/-- the dummy coding: one indicator per level -/
def dummyF (m : ℕ) : Fin m → (Fin m → ℚ) := fun l => Pi.single l 1

theorem dummy_linearIndependent (m : ℕ) : LinearIndependent ℚ (dummyF m) := by
  have := (Pi.basisFun ℚ (Fin m)).linearIndependent
  have e : (⇑(Pi.basisFun ℚ (Fin m)) : Fin m → (Fin m → ℚ)) = dummyF m := by
    funext l; simp [dummyF, Pi.basisFun_apply]
  rw [e] at this; exact this

/-! ### numeric variables -/

/-- a numeric variable as an axis: its single column is the value of the level -/
def numR {m : ℕ} (v : Fin m → ℚ) : Unit → (Fin m → ℚ) := fun _ => v

/-- a numeric variable that takes at least two different values is independent of the constant column -/
theorem num_aug_linearIndependent {m : ℕ} (v : Fin m → ℚ) (a b : Fin m) (hab : v a ≠ v b) :
    LinearIndependent ℚ (aug (numR v)) := by
  rw [Fintype.linearIndependent_iff]
  intro g hg
  have ha := congrFun hg a
  have hb := congrFun hg b
  simp only [Fintype.sum_option, aug, numR, Finset.univ_unique, Finset.sum_singleton, Pi.add_apply, Pi.smul_apply,
    smul_eq_mul, mul_one, Pi.zero_apply] at ha hb
  have hsome : g (some ()) = 0 := by
    have : g (some ()) * (v a - v b) = 0 := by linear_combination ha - hb
    rcases mul_eq_zero.mp this with h | h
    · exact h
    · exact absurd (sub_eq_zero.mp h) hab
  intro o
  cases o with
  | none => simpa [hsome] using ha
  | some u => cases u; exact hsome

theorem num_linearIndependent {m : ℕ} (v : Fin m → ℚ) (a : Fin m) (ha : v a ≠ 0) : LinearIndependent ℚ (numR v) := by
  rw [linearIndependent_unique_iff]
  intro h
  exact ha (congrFun h a)


/-! ### a decidable certificate of `Hyp` for concrete designs -/

/-- a family of functions on a finite set is linearly independent if it has a dual family of coefficient rows -/
theorem linearIndependent_of_dual {ι L : Type} [Fintype ι] [DecidableEq ι] [Fintype L] (v : ι → (L → ℚ))
    (C : ι → (L → ℚ)) (h : ∀ o o', ∑ l, C o l * v o' l = if o = o' then 1 else 0) : LinearIndependent ℚ v := by
  rw [Fintype.linearIndependent_iff]
  intro g hg o
  have h0 : ∑ l, C o l * (∑ o', g o' • v o') l = 0 := by rw [hg]; simp
  have h1 : ∑ l, C o l * (∑ o', g o' • v o') l = ∑ o', g o' * ∑ l, C o l * v o' l := by
    simp only [Finset.sum_apply, Pi.smul_apply, smul_eq_mul, Finset.mul_sum]
    rw [Finset.sum_comm]
    apply Finset.sum_congr rfl
    intro o' _
    apply Finset.sum_congr rfl
    intro l _
    ring
  rw [h1] at h0
  simpa [h] using h0

/-- `Hyp` from finitely many decidable facts: dual coefficient rows for `[1 | R i]` and for `F i`, the column counts
of the intercept-spanning axes, and column-by-column equality of `F i` and `R i` for the other axes -/
theorem hyp_of_duals {n : ℕ} {L JR JF : Fin n → Type} [∀ i, Fintype (L i)] [∀ i, Fintype (JR i)] [∀ i, Fintype (JF i)]
    [∀ i, DecidableEq (JR i)] [∀ i, DecidableEq (JF i)]
    (R : (i : Fin n) → JR i → (L i → ℚ)) (F : (i : Fin n) → JF i → (L i → ℚ)) (spans : Fin n → Bool)
    (CR : (i : Fin n) → Option (JR i) → (L i → ℚ)) (CF : (i : Fin n) → JF i → (L i → ℚ))
    (hCR : ∀ i o o', ∑ l, CR i o l * aug (R i) o' l = if o = o' then 1 else 0)
    (hCF : ∀ i o o', ∑ l, CF i o l * F i o' l = if o = o' then 1 else 0)
    (hcat : ∀ i, spans i = true →
      Fintype.card (JR i) + 1 = Fintype.card (L i) ∧ Fintype.card (JF i) = Fintype.card (L i))
    (hnum : ∀ i, spans i = false → (∀ j, ∃ j', F i j = R i j') ∧ (∀ j', ∃ j, R i j' = F i j)) :
    Hyp R F spans := by
  apply hyp_of_axes R F spans (fun i => linearIndependent_of_dual _ (CR i) (hCR i))
    (fun i => linearIndependent_of_dual _ (CF i) (hCF i)) hcat
  intro i hi
  obtain ⟨h1, h2⟩ := hnum i hi
  congr 1
  ext w
  constructor
  · rintro ⟨j, rfl⟩
    obtain ⟨j', hj'⟩ := h1 j
    exact ⟨j', hj'.symm⟩
  · rintro ⟨j', rfl⟩
    obtain ⟨j, hj⟩ := h2 j'
    exact ⟨j, hj.symm⟩

end FormulaicVerif.Proofs.C03Codings
