import FormulaicVerif.Proofs.C03Matrix
import FormulaicVerif.Proofs.C03Codings
/-! C03: from list-level facts about the axes of a design (level per row, flattened encodings, the function of the
level every encoded column is) to `CrossedDesign` and `Hyp`. No knowledge of how the cache was produced. -/
namespace FormulaicVerif.Proofs.C03Axes
open FormulaicVerif.Model FormulaicVerif.Spec FormulaicVerif.Proofs.C03Matrix FormulaicVerif.Proofs.TensorRank
  FormulaicVerif.Proofs.C03Codings

section
variable {n : ℕ} (cache : Cache) (nrows : ℕ) (k : Fin n → ℕ) (expr : Fin n → String) (lv : Fin n → List ℕ)
  (tabl : Fin n → Bool → List Item) (G : Fin n → Bool → ℕ → ℕ → ℚ)

/-- the level of axis `i` in row `r` -/
def rowOf (hlen : ∀ i, (lv i).length = nrows) (hlt : ∀ i, ∀ l ∈ lv i, l < k i) (r : Fin nrows) (i : Fin n) : Fin (k i) :=
  ⟨(lv i)[r.val]'(by rw [hlen i]; exact r.isLt), hlt i _ (List.getElem_mem _)⟩

theorem crossedDesign_of_axes (hinj : Function.Injective expr) (hlen : ∀ i, (lv i).length = nrows)
    (hlt : ∀ i, ∀ l ∈ lv i, l < k i)
    (hsurj : ∀ τ : (i : Fin n) → Fin (k i), ∃ r, r < nrows ∧ ∀ i, (lv i)[r]? = some (τ i).val)
    (henc : ∀ i b, ∃ f, cache.get (expr i) = .ok f ∧ encodeEvaledFactor f b = .ok (tabl i b))
    (hcol : ∀ i b j (hj : j < (tabl i b).length), ((tabl i b)[j]).col = (lv i).map (G i b j)) :
    CrossedDesign cache nrows k expr tabl (fun i b j l => G i b j.val l.val) (rowOf nrows k lv hlen hlt) where
  expr_inj := hinj
  row_surj := by
    intro τ
    obtain ⟨r, hr, hτ⟩ := hsurj τ
    refine ⟨⟨r, hr⟩, ?_⟩
    funext i
    apply Fin.ext
    have := hτ i
    have hr' : r < (lv i).length := by rw [hlen i]; exact hr
    rw [List.getElem?_eq_getElem hr', Option.some.injEq] at this
    simpa [rowOf] using this
  enc := henc
  col := by
    intro i b j
    have := hcol i b j.val j.isLt
    simp only [Fin.getElem_fin]
    rw [this]
    apply List.ext_getElem
    · simp [hlen i]
    · intro r h1 h2
      simp [rowOf]
end

/-! ### `Hyp`, axis by axis -/

theorem li_aug_of_table {kk len : ℕ} (R : Fin len → (Fin kk → ℚ)) (kind : FormulaicVerif.Model.Contrasts.Kind) (m : ℕ)
    (hk : kk = m + 1) (hl : len = m)
    (hval : ∀ (j : Fin len) (l : Fin kk), R j l = FormulaicVerif.Model.Contrasts.coding kind (m + 1) l.val j.val)
    (hv : FormulaicVerif.Props.C11.Valid kind (m + 1)) : LinearIndependent ℚ (aug R) := by
  subst hk; subst hl
  have : R = builtinR kind len := by funext j l; exact hval j l
  rw [this]
  exact builtin_aug_linearIndependent kind len hv

theorem li_dummy_of_table {kk len : ℕ} (F : Fin len → (Fin kk → ℚ)) (hl : len = kk)
    (hval : ∀ (j : Fin len) (l : Fin kk), F j l = FormulaicVerif.Model.Contrasts.eye l.val j.val) :
    LinearIndependent ℚ F := by
  subst hl
  have : F = dummyF len := by
    funext j l
    rw [hval j l]
    simp only [FormulaicVerif.Model.Contrasts.eye, dummyF, Pi.single_apply, Fin.ext_iff]
  rw [this]
  exact dummy_linearIndependent len

theorem li_aug_num {kk len : ℕ} (R : Fin len → (Fin kk → ℚ)) (hl : len = 1) (v : Fin kk → ℚ)
    (hval : ∀ j, R j = v) (a b : Fin kk) (hab : v a ≠ v b) : LinearIndependent ℚ (aug R) := by
  subst hl
  have h := num_aug_linearIndependent v a b hab
  have e : aug R = aug (numR v) ∘ (Equiv.optionCongr (Equiv.ofUnique (Fin 1) Unit)) := by
    funext o
    cases o with
    | none => rfl
    | some j => simp [aug, numR, hval j]
  rw [e]
  exact (linearIndependent_equiv _).mpr h

theorem li_num {kk len : ℕ} (R : Fin len → (Fin kk → ℚ)) (hl : len = 1) (v : Fin kk → ℚ)
    (hval : ∀ j, R j = v) (a : Fin kk) (ha : v a ≠ 0) : LinearIndependent ℚ R := by
  subst hl
  rw [linearIndependent_unique_iff]
  rw [hval]
  intro h
  exact ha (congrFun h a)

theorem span_eq_of_const {kk lenF lenR : ℕ} (F : Fin lenF → (Fin kk → ℚ)) (R : Fin lenR → (Fin kk → ℚ))
    (hF : lenF = 1) (hR : lenR = 1) (v : Fin kk → ℚ) (hvF : ∀ j, F j = v) (hvR : ∀ j, R j = v) :
    Submodule.span ℚ (Set.range F) = Submodule.span ℚ (Set.range R) := by
  subst hF; subst hR
  congr 1
  ext w
  constructor
  · rintro ⟨j, rfl⟩; exact ⟨0, by rw [hvR, hvF]⟩
  · rintro ⟨j, rfl⟩; exact ⟨0, by rw [hvR, hvF]⟩


/-! ### `Hyp` for a whole design -/

/-- a categorical axis: `m + 1` levels, full encoding = the `m + 1` indicator columns, reduced encoding = the `m` columns
of a built-in coding matrix -/
def CatH (spans : Bool) (kk : ℕ) (tabF tabT : List Item) (GF GT : ℕ → ℕ → ℚ) : Prop :=
  spans = true ∧ ∃ (kind : FormulaicVerif.Model.Contrasts.Kind) (m : ℕ), kk = m + 1 ∧ tabT.length = m ∧ tabF.length = kk ∧
    (∀ j l, GT j l = FormulaicVerif.Model.Contrasts.coding kind (m + 1) l j) ∧
    (∀ j l, GF j l = FormulaicVerif.Model.Contrasts.eye l j) ∧ FormulaicVerif.Props.C11.Valid kind (m + 1)

/-- a numeric axis: one column, the value of the level, taking two different values -/
def NumH (spans : Bool) (kk : ℕ) (tabF tabT : List Item) (GF GT : ℕ → ℕ → ℚ) : Prop :=
  spans = false ∧ tabT.length = 1 ∧ tabF.length = 1 ∧ ∃ v : ℕ → ℚ, (∀ j l, GT j l = v l) ∧ (∀ j l, GF j l = v l) ∧
    ∃ a b, a < kk ∧ b < kk ∧ v a ≠ v b

/-- the two encodings of every axis as one family -/
def tablOf {n : ℕ} (tabF tabT : Fin n → List Item) : Fin n → Bool → List Item :=
  fun i b => match b with | true => tabT i | false => tabF i

def gOf {n : ℕ} (GF GT : Fin n → ℕ → ℕ → ℚ) : Fin n → Bool → ℕ → ℕ → ℚ :=
  fun i b => match b with | true => GT i | false => GF i

theorem hyp_of_facts {n : ℕ} (k : Fin n → ℕ) (spans : Fin n → Bool) (tabF tabT : Fin n → List Item)
    (GF GT : Fin n → ℕ → ℕ → ℚ)
    (h : ∀ i, CatH (spans i) (k i) (tabF i) (tabT i) (GF i) (GT i) ∨ NumH (spans i) (k i) (tabF i) (tabT i) (GF i) (GT i)) :
    Hyp (Rd k (tablOf tabF tabT) (fun i b j l => gOf GF GT i b j.val l.val))
      (Fd k (tablOf tabF tabT) (fun i b j l => gOf GF GT i b j.val l.val)) spans := by
  apply hyp_of_axes
  · intro i
    rcases h i with ⟨_, kind, m, hk, hT, _, hGT, _, hv⟩ | ⟨_, hT, _, v, hGT, _, a, b, ha, hb, hab⟩
    · exact li_aug_of_table _ kind m hk hT (fun j l => hGT j.val l.val) hv
    · exact li_aug_num _ hT (fun l => v l.val) (fun j => by funext l; exact hGT j.val l.val) ⟨a, ha⟩ ⟨b, hb⟩ hab
  · intro i
    rcases h i with ⟨_, kind, m, hk, _, hF, _, hGF, _⟩ | ⟨_, _, hF, v, _, hGF, a, b, ha, hb, hab⟩
    · exact li_dummy_of_table _ hF (fun j l => hGF j.val l.val)
    · by_cases h0 : v a = 0
      · have hb0 : v b ≠ 0 := fun e => hab (by rw [h0, e])
        exact li_num _ hF (fun l => v l.val) (fun j => by funext l; exact hGF j.val l.val) ⟨b, hb⟩ hb0
      · exact li_num _ hF (fun l => v l.val) (fun j => by funext l; exact hGF j.val l.val) ⟨a, ha⟩ h0
  · intro i hs
    rcases h i with ⟨_, kind, m, hk, hT, hF, _, _, _⟩ | ⟨hsp, _⟩
    · constructor
      · simp only [Fintype.card_fin]
        show (tabT i).length + 1 = k i
        omega
      · simp only [Fintype.card_fin]
        exact hF
    · rw [hsp] at hs; cases hs
  · intro i hs
    rcases h i with ⟨hsp, _⟩ | ⟨_, hT, hF, v, hGT, hGF, _⟩
    · rw [hsp] at hs; cases hs
    · exact span_eq_of_const _ _ hF hT (fun l => v l.val) (fun j => by funext l; exact hGF j.val l.val)
        (fun j => by funext l; exact hGT j.val l.val)

end FormulaicVerif.Proofs.C03Axes
