import FormulaicVerif.Proofs.C11
import Mathlib.Algebra.Polynomial.Roots

/-! # C11 helper lemmas, part 2: the orthogonal-polynomial coding (`contr.poly`)

* `orth`: the three-term recurrence of `poly.py` produces mutually orthogonal columns as long as
  the squared norms it divides by are non-zero;
* `G_ne_zero`: for pairwise distinct scores they are non-zero (a monic polynomial of degree `k < n`
  cannot vanish at `n` distinct points);
* `coef_mul_aug`: the combined left-inverse statement for every contrast. -/
open Finset BigOperators Polynomial
set_option linter.unusedSimpArgs false
set_option linter.unusedVariables false
namespace FormulaicVerif.Proofs.C11
open FormulaicVerif.Model.Contrasts FormulaicVerif.Spec.Contrasts

theorem sumTo_eq (n : ℕ) (f : ℕ → ℚ) : sumTo n f = ∑ i ∈ range n, f i := by
  induction n with
  | zero => simp [sumTo]
  | succ m ih => simp [sumTo, Finset.sum_range_succ, ih]

section poly
variable (n : ℕ) (x : ℕ → ℚ)

/-- Gram entries of the unnormalised polynomial columns -/
def G (k l : ℕ) : ℚ := ∑ i ∈ range n, polyP n x k i * polyP n x l i

theorem G_comm (k l : ℕ) : G n x k l = G n x l k := Finset.sum_congr rfl (fun _ _ => mul_comm _ _)

theorem norm2_polyP (k : ℕ) : norm2 n (polyP n x k) = G n x k k := by
  simp [norm2, sumTo_eq, G]

theorem alpha_mul (k : ℕ) (h : G n x k k ≠ 0) :
    alphaOf n x (polyP n x k) * G n x k k = ∑ i ∈ range n, x i * (polyP n x k i * polyP n x k i) := by
  unfold alphaOf
  rw [norm2_polyP, sumTo_eq]
  field_simp

theorem shift0 (i : ℕ) :
    x i * polyP n x 0 i = polyP n x 1 i + alphaOf n x (polyP n x 0) * polyP n x 0 i := by
  simp only [polyP]; ring

theorem shiftS (l i : ℕ) :
    x i * polyP n x (l + 1) i = polyP n x (l + 2) i + alphaOf n x (polyP n x (l + 1)) * polyP n x (l + 1) i
      + (G n x (l + 1) (l + 1) / G n x l l) * polyP n x l i := by
  simp only [polyP, norm2_polyP]; ring

def Orth (K : ℕ) : Prop := ∀ k l, k ≤ K → l ≤ K → k ≠ l → G n x k l = 0

theorem xsum (K : ℕ) (ih : Orth n x K) (m l : ℕ) (hm : m ≤ K) (hl : l < m) :
    ∑ i ∈ range n, x i * polyP n x m i * polyP n x l i = if l + 1 = m then G n x m m else 0 := by
  rcases l with _ | l
  · have : ∀ i ∈ range n, x i * polyP n x m i * polyP n x 0 i
        = polyP n x m i * polyP n x 1 i + alphaOf n x (polyP n x 0) * (polyP n x m i * polyP n x 0 i) := by
      intro i _
      have := shift0 n x i
      calc x i * polyP n x m i * polyP n x 0 i = polyP n x m i * (x i * polyP n x 0 i) := by ring
        _ = _ := by rw [this]; ring
    rw [Finset.sum_congr rfl this, Finset.sum_add_distrib, ← Finset.mul_sum]
    change G n x m 1 + _ * G n x m 0 = _
    rw [ih m 0 hm (by omega) (by omega)]
    by_cases h : 0 + 1 = m
    · subst h; simp
    · rw [ih m 1 hm (by omega) (by omega)]; simp [h]
  · have : ∀ i ∈ range n, x i * polyP n x m i * polyP n x (l + 1) i
        = polyP n x m i * polyP n x (l + 2) i
          + alphaOf n x (polyP n x (l + 1)) * (polyP n x m i * polyP n x (l + 1) i)
          + (G n x (l + 1) (l + 1) / G n x l l) * (polyP n x m i * polyP n x l i) := by
      intro i _
      have := shiftS n x l i
      calc x i * polyP n x m i * polyP n x (l + 1) i = polyP n x m i * (x i * polyP n x (l + 1) i) := by ring
        _ = _ := by rw [this]; ring
    rw [Finset.sum_congr rfl this, Finset.sum_add_distrib, Finset.sum_add_distrib, ← Finset.mul_sum, ← Finset.mul_sum]
    change G n x m (l + 2) + _ * G n x m (l + 1) + _ * G n x m l = _
    rw [ih m (l + 1) hm (by omega) (by omega), ih m l hm (by omega) (by omega)]
    by_cases h : l + 1 + 1 = m
    · subst h; simp
    · rw [ih m (l + 2) hm (by omega) (by omega)]; simp [h]

theorem orth (K : ℕ) (hN : ∀ k < K, G n x k k ≠ 0) : Orth n x K := by
  induction K with
  | zero => intro k l hk hl hne; omega
  | succ K ih =>
    have ih := ih (fun k hk => hN k (by omega))
    -- the new column is orthogonal to all earlier ones
    have key : ∀ l, l ≤ K → G n x (K + 1) l = 0 := by
      intro l hl
      rcases K with _ | m
      · have hl0 : l = 0 := by omega
        subst hl0
        have h0 := hN 0 (by omega)
        have : ∀ i ∈ range n, polyP n x 1 i * polyP n x 0 i
            = x i * (polyP n x 0 i * polyP n x 0 i)
              - alphaOf n x (polyP n x 0) * (polyP n x 0 i * polyP n x 0 i) := by
          intro i _; simp only [polyP]; ring
        unfold G
        rw [Finset.sum_congr rfl this, Finset.sum_sub_distrib, ← Finset.mul_sum, ← alpha_mul n x 0 h0]
        simp [G]
      · have hm1 := hN (m + 1) (by omega)
        have hm := hN m (by omega)
        have : ∀ i ∈ range n, polyP n x (m + 2) i * polyP n x l i
            = x i * polyP n x (m + 1) i * polyP n x l i
              - alphaOf n x (polyP n x (m + 1)) * (polyP n x (m + 1) i * polyP n x l i)
              - (G n x (m + 1) (m + 1) / G n x m m) * (polyP n x m i * polyP n x l i) := by
          intro i _; simp only [polyP, norm2_polyP]; ring
        unfold G
        rw [Finset.sum_congr rfl this, Finset.sum_sub_distrib, Finset.sum_sub_distrib, ← Finset.mul_sum,
          ← Finset.mul_sum]
        change _ - _ * G n x (m + 1) l - _ * G n x m l = 0
        by_cases h1 : l = m + 1
        · subst h1
          rw [ih m (m + 1) (by omega) (by omega) (by omega), alpha_mul n x (m + 1) hm1]
          have : ∀ i ∈ range n, x i * polyP n x (m + 1) i * polyP n x (m + 1) i
              = x i * (polyP n x (m + 1) i * polyP n x (m + 1) i) := fun i _ => by ring
          rw [Finset.sum_congr rfl this]
          ring
        · rw [xsum n x (m + 1) ih (m + 1) l (le_refl _) (by omega), ih (m + 1) l (by omega) (by omega) (by omega)]
          by_cases h2 : l = m
          · subst h2
            simp only [if_true]
            field_simp
            ring
          · have : ¬ (l + 1 = m + 1) := by omega
            rw [ih m l (by omega) (by omega) (by omega)]
            simp [this, h2]
    intro k l hk hl hne
    by_cases hk' : k = K + 1
    · subst hk'
      exact key l (by omega)
    · by_cases hl' : l = K + 1
      · subst hl'
        rw [G_comm]; exact key k (by omega)
      · exact ih k l (by omega) (by omega) hne
end poly

section polyroots
variable (n : ℕ) (x : ℕ → ℚ)

/-- the polynomials behind the columns: same recurrence, same scalars -/
noncomputable def pp : ℕ → ℚ[X]
  | 0 => 1
  | 1 => (X - C (alphaOf n x (polyP n x 0))) * pp 0
  | k + 2 => (X - C (alphaOf n x (polyP n x (k + 1)))) * pp (k + 1)
      - C (norm2 n (polyP n x (k + 1)) / norm2 n (polyP n x k)) * pp k

theorem pp_eval (k i : ℕ) : (pp n x k).eval (x i) = polyP n x k i := by
  induction k using Nat.strong_induction_on with
  | _ k ih =>
    match k with
    | 0 => simp [pp, polyP]
    | 1 => simp [pp, polyP]
    | k + 2 =>
      have h1 := ih (k + 1) (by omega)
      have h0 := ih k (by omega)
      simp only [pp, polyP, eval_sub, eval_mul, eval_X, eval_C, h1, h0]

theorem pp_monic_deg (k : ℕ) : (pp n x k).Monic ∧ (pp n x k).natDegree = k := by
  induction k using Nat.strong_induction_on with
  | _ k ih =>
    match k with
    | 0 => simp [pp]
    | 1 =>
      constructor
      · simpa [pp] using monic_X_sub_C _
      · simp [pp]
    | k + 2 =>
      obtain ⟨m1, d1⟩ := ih (k + 1) (by omega)
      obtain ⟨m0, d0⟩ := ih k (by omega)
      set a := alphaOf n x (polyP n x (k + 1))
      set b := norm2 n (polyP n x (k + 1)) / norm2 n (polyP n x k)
      have hq : ((X - C a) * pp n x (k + 1)).Monic := (monic_X_sub_C a).mul m1
      have dq : ((X - C a) * pp n x (k + 1)).natDegree = k + 2 := by
        rw [(monic_X_sub_C a).natDegree_mul m1, natDegree_X_sub_C, d1]; omega
      have dr : (C b * pp n x k).natDegree < ((X - C a) * pp n x (k + 1)).natDegree := by
        rw [dq]
        calc (C b * pp n x k).natDegree ≤ (pp n x k).natDegree := natDegree_C_mul_le _ _
          _ = k := d0
          _ < k + 2 := by omega
      constructor
      · simp only [pp]
        exact hq.sub_of_left (degree_lt_degree dr)
      · simp only [pp]
        rw [natDegree_sub_eq_left_of_natDegree_lt dr, dq]

theorem G_ne_zero (hx : ∀ i j, i < n → j < n → x i = x j → i = j) (k : ℕ) (hk : k < n) :
    G n x k k ≠ 0 := by
  intro h
  have hz : ∀ i ∈ range n, polyP n x k i * polyP n x k i = 0 :=
    (Finset.sum_eq_zero_iff_of_nonneg (fun i _ => mul_self_nonneg _)).mp h
  have hpz : pp n x k = 0 := by
    apply eq_zero_of_natDegree_lt_card_of_eval_eq_zero (pp n x k) (ι := Fin n) (f := fun i => x i.val)
    · intro a b hab
      exact Fin.ext (hx a.val b.val a.isLt b.isLt hab)
    · intro i
      rw [pp_eval]
      exact mul_self_eq_zero.mp (hz i.val (Finset.mem_range.mpr i.isLt))
    · rw [(pp_monic_deg n x k).2, Fintype.card_fin]; exact hk
  exact (pp_monic_deg n x k).1.ne_zero hpz
end polyroots

/-! ### the polynomial coding: inverse, validity, the combined statement -/

theorem aug_poly (n : ℕ) (x : ℕ → ℚ) (i c : ℕ) : aug (.poly x) n i c = polyP n x c i := by
  rcases c with _ | c
  · simp [aug, polyP]
  · simp [aug, Model.Contrasts.coding]

theorem colNorm2_poly (n : ℕ) (x : ℕ → ℚ) (c : ℕ) : colNorm2 (.poly x) n c = G n x c c := by
  rcases c with _ | c
  · simp [colNorm2, G, polyP]
  · simp [colNorm2, polyNorm2, norm2_polyP]

theorem poly_gram (n : ℕ) (x : ℕ → ℚ) (hx : ∀ i j, i < n → j < n → x i = x j → i = j) (r c : ℕ)
    (hr : r < n) (hc : c < n) (hne : r ≠ c) : G n x r c = 0 :=
  orth n x (n - 1) (fun k hk => G_ne_zero n x hx k (by omega)) r c (by omega) (by omega) hne

theorem poly_inv (n : ℕ) (x : ℕ → ℚ) (hx : ∀ i j, i < n → j < n → x i = x j → i = j) (r c : ℕ)
    (hr : r < n) (hc : c < n) :
    ∑ i ∈ range n, Spec.Contrasts.coef (.poly x) n r i * aug (.poly x) n i c = if r = c then 1 else 0 := by
  have hN := G_ne_zero n x hx r hr
  have : ∀ i ∈ range n, Spec.Contrasts.coef (.poly x) n r i * aug (.poly x) n i c
      = (1 / G n x r r) * (polyP n x r i * polyP n x c i) := by
    intro i _
    simp only [Spec.Contrasts.coef, aug_poly, colNorm2_poly]
    ring
  rw [Finset.sum_congr rfl this, ← Finset.mul_sum]
  change _ * G n x r c = _
  by_cases h : r = c
  · subst h; simp only [if_true]; field_simp
  · rw [poly_gram n x hx r c hr hc h]; simp [h]

/-- validity of a resolved contrast for `n` levels: the treatment base is one of the levels, the
polynomial scores are pairwise distinct -/
def Valid (k : Kind) (n : ℕ) : Prop :=
  match k with
  | .treatment d => d < n
  | .poly x => ∀ i j, i < n → j < n → x i = x j → i = j
  | _ => True

/-- `coef · [1 | coding] = I`, entrywise, for every contrast and every `n` -/
theorem coef_mul_aug (k : Kind) (n : ℕ) (hv : Valid k n) (r c : ℕ) (hr : r < n) (hc : c < n) :
    ∑ i ∈ range n, Spec.Contrasts.coef k n r i * aug k n i c = if r = c then 1 else 0 := by
  cases k with
  | treatment d => exact treatment_inv d n r c hv hr hc
  | sum => exact sum_inv n r c hr hc
  | helmert rev sc => exact helmert_inv rev sc n r c hr hc
  | diff bw => exact diff_inv bw n r c hr hc
  | poly x => exact poly_inv n x hv r c hr hc

/-- the monic-orthogonal characterisation holds for the recurrence -/
theorem polyP_isMonicOrthogonal (n : ℕ) (x : ℕ → ℚ) (hx : ∀ i j, i < n → j < n → x i = x j → i = j) :
    IsMonicOrthogonalFamily n x (polyP n x) where
  zero := fun _ => rfl
  monic := by
    intro k hk
    rcases k with _ | m
    · refine ⟨fun _ => alphaOf n x (polyP n x 0), fun i _ => ?_⟩
      simp only [sumTo, polyP]; ring
    · refine ⟨fun l => if l = m + 1 then alphaOf n x (polyP n x (m + 1))
          else if l = m then G n x (m + 1) (m + 1) / G n x m m else 0, fun i _ => ?_⟩
      rw [sumTo_eq, Finset.sum_range_succ, Finset.sum_range_succ]
      have : ∀ l ∈ range m, (if l = m + 1 then alphaOf n x (polyP n x (m + 1))
          else if l = m then G n x (m + 1) (m + 1) / G n x m m else 0) * polyP n x l i = 0 := by
        intro l hl
        have := Finset.mem_range.mp hl
        have h1 : ¬ l = m + 1 := by omega
        have h2 : ¬ l = m := by omega
        simp [h1, h2]
      rw [Finset.sum_eq_zero this]
      have h3 : ¬ m = m + 1 := by omega
      simp only [h3, if_false, if_true]
      rw [show polyP n x (m + 1 + 1) i = polyP n x (m + 2) i from rfl]
      simp only [polyP, norm2_polyP]
      ring
  orth := by
    intro k l hk hl hne
    rw [sumTo_eq]
    exact poly_gram n x hx k l hk hl hne

/-- uniqueness: a monic orthogonal family for pairwise distinct scores is the one computed by the recurrence -/
theorem poly_unique (n : ℕ) (x : ℕ → ℚ) (hx : ∀ i j, i < n → j < n → x i = x j → i = j)
    (q : ℕ → ℕ → ℚ) (hq : IsMonicOrthogonalFamily n x q) :
    ∀ k, k < n → ∀ i, i < n → q k i = polyP n x k i := by
  have hP := polyP_isMonicOrthogonal n x hx
  intro k
  induction k using Nat.strong_induction_on with
  | _ k ih =>
    intro hk
    rcases k with _ | k
    · intro i _; rw [hq.zero]; rfl
    · obtain ⟨c, hc⟩ := hq.monic k hk
      obtain ⟨c', hc'⟩ := hP.monic k hk
      -- the difference is a combination of lower columns
      have hdiff : ∀ i, i < n → q (k + 1) i - polyP n x (k + 1) i
          = ∑ l ∈ range (k + 1), (c' l - c l) * polyP n x l i := by
        intro i hi
        rw [hc i hi, hc' i hi, sumTo_eq, sumTo_eq, ih k (by omega) (by omega) i hi]
        have : ∀ l ∈ range (k + 1), c l * q l i = c l * polyP n x l i := by
          intro l hl
          have := Finset.mem_range.mp hl
          rw [ih l (by omega) (by omega) i hi]
        rw [Finset.sum_congr rfl this]
        simp only [sub_mul, Finset.sum_sub_distrib]
        ring
      -- it is orthogonal to every lower column
      have horth : ∀ m, m ≤ k → ∑ i ∈ range n, (q (k + 1) i - polyP n x (k + 1) i) * polyP n x m i = 0 := by
        intro m hm
        simp only [sub_mul, Finset.sum_sub_distrib]
        have h1 : ∑ i ∈ range n, q (k + 1) i * polyP n x m i = 0 := by
          have := hq.orth (k + 1) m hk (by omega) (by omega)
          rw [sumTo_eq] at this
          rw [← this]
          apply Finset.sum_congr rfl
          intro i hi
          rw [ih m (by omega) (by omega) i (Finset.mem_range.mp hi)]
        have h2 : ∑ i ∈ range n, polyP n x (k + 1) i * polyP n x m i = 0 :=
          poly_gram n x hx (k + 1) m hk (by omega) (by omega)
        rw [h1, h2]; ring
      -- hence all coefficients vanish
      have hzero : ∀ m, m ≤ k → c' m - c m = 0 := by
        intro m hm
        have h := horth m hm
        have : ∀ i ∈ range n, (q (k + 1) i - polyP n x (k + 1) i) * polyP n x m i
            = ∑ l ∈ range (k + 1), (c' l - c l) * (polyP n x l i * polyP n x m i) := by
          intro i hi
          rw [hdiff i (Finset.mem_range.mp hi), Finset.sum_mul]
          apply Finset.sum_congr rfl
          intro l _; ring
        rw [Finset.sum_congr rfl this, Finset.sum_comm] at h
        simp only [← Finset.mul_sum] at h
        have hG : ∀ l ∈ range (k + 1), (c' l - c l) * ∑ i ∈ range n, polyP n x l i * polyP n x m i
            = if l = m then (c' m - c m) * G n x m m else 0 := by
          intro l hl
          have := Finset.mem_range.mp hl
          by_cases e : l = m
          · subst e; simp [G]
          · have : G n x l m = 0 := poly_gram n x hx l m (by omega) (by omega) e
            simp only [e, if_false]
            change _ * G n x l m = 0
            rw [this]; ring
        rw [Finset.sum_congr rfl hG, sum_range_point] at h
        have hm' : m < k + 1 := by omega
        simp only [hm', if_true] at h
        rcases mul_eq_zero.mp h with h | h
        · exact h
        · exact absurd h (G_ne_zero n x hx m (by omega))
      intro i hi
      have := hdiff i hi
      have hz : ∑ l ∈ range (k + 1), (c' l - c l) * polyP n x l i = 0 := by
        apply Finset.sum_eq_zero
        intro l hl
        have := Finset.mem_range.mp hl
        rw [hzero l (by omega)]; ring
      rw [hz] at this
      linarith

end FormulaicVerif.Proofs.C11
