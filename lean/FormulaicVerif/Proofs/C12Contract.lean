import FormulaicVerif.Proofs.C12Interp
/-! Helper lemmas for C12 (not obligations): the parameter contract on the second-derivative map
`F`, exactly as the engine evaluates it (`Model.CubicSpline.residualF` = `B·F − D` with the
matrices `natB/natD`, `cycB/cycD` that mirror `_get_natural_f` / `_get_cyclic_f`), implies the
tridiagonal equations index by index (`Spec.CubicSpline.TriEq`). -/

namespace FormulaicVerif.Proofs.C12
open FormulaicVerif.Model.CubicSpline FormulaicVerif.Model.BSpline FormulaicVerif.Spec.CubicSpline

theorem list_eq_map_getD {β : Type} (l : List β) (d : β) :
    l = (List.range' 0 l.length).map (fun i => l.getD i d) := by
  apply List.ext_getElem?
  intro k
  by_cases hk : k < l.length
  · simp [hk, List.getD_eq_getElem?_getD]
  · simp [hk]

theorem vadd_getD (a b : List Rat) (c : ℕ) (h : a.length = b.length) (hc : c < a.length) :
    (vadd a b).getD c 0 = a.getD c 0 + b.getD c 0 := by
  have hb : c < b.length := h ▸ hc
  simp [vadd, List.getD_eq_getElem?_getD, hc, hb]

theorem foldl_vecMat_getD (nc c : ℕ) (hc : c < nc) :
    ∀ (L : List (Rat × List Rat)) (acc : List Rat), acc.length = nc → (∀ p ∈ L, p.2.length = nc) →
      ((L.foldl (fun acc p => vadd acc (p.2.map (p.1 * ·))) acc).getD c 0
          = acc.getD c 0 + (L.map (fun p => p.1 * p.2.getD c 0)).sum) ∧
        (L.foldl (fun acc p => vadd acc (p.2.map (p.1 * ·))) acc).length = nc := by
  intro L
  induction L with
  | nil => intro acc ha _; simp [ha]
  | cons p t ih =>
    intro acc ha hL
    have hp : p.2.length = nc := hL p (by simp)
    have hlen : (vadd acc (p.2.map (p.1 * ·))).length = nc := by simp [vadd, ha, hp]
    obtain ⟨e1, e2⟩ := ih (vadd acc (p.2.map (p.1 * ·))) hlen (fun q hq => hL q (List.mem_cons_of_mem _ hq))
    refine ⟨?_, e2⟩
    simp only [List.foldl_cons, List.map_cons, List.sum_cons]
    rw [e1, vadd_getD _ _ _ (by simp [ha, hp]) (by omega)]
    have : (p.2.map (p.1 * ·)).getD c 0 = p.1 * p.2.getD c 0 := by
      simp [List.getD_eq_getElem?_getD, show c < p.2.length by omega]
    rw [this]; ring

/-- entry `c` of `row · M` -/
theorem vecMat_getD (nc : ℕ) (row : List Rat) (M : List (List Rat)) (c : ℕ) (hc : c < nc)
    (hM : ∀ r ∈ M, r.length = nc) :
    (vecMat nc row M).getD c 0 = ((row.zip M).map (fun p => p.1 * p.2.getD c 0)).sum := by
  unfold vecMat
  have := (foldl_vecMat_getD nc c hc (row.zip M) (List.replicate nc 0) (by simp)
    (fun p hp => hM _ (List.of_mem_zip hp).2)).1
  rw [this]
  simp [List.getD_eq_getElem?_getD, hc]

/-- `row · M` when the row is given by a function on `range m` and `M` has `m` rows -/
theorem vecMat_fn (nc m : ℕ) (g : ℕ → ℚ) (M : List (List Rat)) (c : ℕ) (hc : c < nc)
    (hM : ∀ r ∈ M, r.length = nc) (hm : M.length = m) :
    (vecMat nc ((List.range m).map g) M).getD c 0 = ∑ k ∈ Finset.range m, g k * Ffn M k c := by
  rw [vecMat_getD nc _ M c hc hM]
  have hz : ((List.range m).map g).zip M = (List.range' 0 m).map (fun k => (g k, M.getD k [])) := by
    have hMe : M = (List.range' 0 m).map (fun i => M.getD i []) := by
      rw [← hm]; exact list_eq_map_getD M []
    rw [List.range_eq_range']
    conv => lhs; rw [hMe]
    exact List.zip_map'
  rw [hz, List.map_map, sum_map_range]
  rfl


theorem vecMat_length (nc : ℕ) (row : List Rat) (M : List (List Rat)) (hM : ∀ r ∈ M, r.length = nc) :
    (vecMat nc row M).length = nc := by
  unfold vecMat
  by_cases hc : 0 < nc
  · exact (foldl_vecMat_getD nc 0 hc (row.zip M) (List.replicate nc 0) (by simp)
      (fun p hp => hM _ (List.of_mem_zip hp).2)).2
  · have h0 : nc = 0 := by omega
    subst h0
    have : ∀ (L : List (Rat × List Rat)) (acc : List Rat), acc = [] →
        (L.foldl (fun acc p => vadd acc (p.2.map (p.1 * ·))) acc) = [] := by
      intro L
      induction L with
      | nil => intro acc h; simpa using h
      | cons p t ih =>
        intro acc h; subst h
        simp only [List.foldl_cons]
        exact ih _ (by simp [vadd])
    rw [this _ _ (by simp)]; rfl

/-- every entry is zero -/
def AllZero (M : List (List Rat)) : Prop := ∀ r ∈ M, ∀ v ∈ r, v = 0

theorem AllZero.append_left {A B : List (List Rat)} (h : AllZero (A ++ B)) : AllZero A :=
  fun r hr => h r (List.mem_append_left _ hr)
theorem AllZero.append_right {A B : List (List Rat)} (h : AllZero (A ++ B)) : AllZero B :=
  fun r hr => h r (List.mem_append_right _ hr)

theorem AllZero.Ffn {M : List (List Rat)} (h : AllZero M) (i c : ℕ) : Ffn M i c = 0 := by
  unfold FormulaicVerif.Proofs.C12.Ffn
  by_cases hi : i < M.length
  · have hr : M.getD i [] = M[i] := by simp [List.getD_eq_getElem?_getD, hi]
    rw [hr]
    by_cases hc : c < M[i].length
    · have : M[i].getD c 0 = M[i][c] := by simp [List.getD_eq_getElem?_getD, hc]
      rw [this]
      exact h _ (List.getElem_mem hi) _ (List.getElem_mem hc)
    · simp [List.getD_eq_getElem?_getD, hc]
  · simp [List.getD_eq_getElem?_getD, hi]

theorem spacings_length (l : List Rat) : (spacings l).length = l.length - 1 := by
  simp [spacings]

theorem spacings_getElem (l : List Rat) (i : ℕ) (hi : i < (spacings l).length) :
    (spacings l)[i] = knotFn l (i + 1) - knotFn l i := by
  have hl := spacings_length l
  have h1 : i + 1 < l.length := by omega
  simp only [spacings, List.getElem_zipWith, List.getElem_drop]
  rw [knotFn_eq l (i + 1) h1, knotFn_eq l i (by omega)]
  congr 1
  simp [Nat.add_comm]


theorem zip_drop_getElem? (h : List Rat) (i : ℕ) (hi : i + 1 < h.length) :
    (h.zip (h.drop 1))[i]? = some (h[i], h[i + 1]) := by
  rw [List.getElem?_eq_getElem (by simp; omega)]
  simp [List.getElem_zip]

theorem natB_row (h : List Rat) (i : ℕ) (hi : i + 1 < h.length) :
    (natB h)[i]? = some ((List.range (h.length - 1)).map (fun c =>
      if c = i then (h[i] + h[i + 1]) / 3 else if c = i + 1 then h[i + 1] / 6
      else if c + 1 = i then h[i] / 6 else 0)) := by
  unfold natB
  rw [List.getElem?_map, List.getElem?_zipIdx, zip_drop_getElem? h i hi]
  simp

theorem natD_row (h : List Rat) (i : ℕ) (hi : i + 1 < h.length) :
    (natD h)[i]? = some ((List.range (h.length + 1)).map (fun c =>
      if c = i then 1 / h[i] else if c = i + 2 then 1 / h[i + 1]
      else if c = i + 1 then -(1 / h[i]) - 1 / h[i + 1] else 0)) := by
  unfold natD
  rw [List.getElem?_map, List.getElem?_zipIdx, zip_drop_getElem? h i hi]
  simp

theorem natB_length (h : List Rat) : (natB h).length = h.length - 1 := by
  simp [natB]
theorem natD_length (h : List Rat) : (natD h).length = h.length - 1 := by
  simp [natD]


theorem tri_sum (m i : ℕ) (A Bv Cv : ℚ) (v : ℕ → ℚ) (hi : i < m) :
    ∑ k ∈ Finset.range m,
        (if k = i then A else if k = i + 1 then Bv else if k + 1 = i then Cv else 0) * v k
      = A * v i + (if i + 1 < m then Bv * v (i + 1) else 0) + (if 0 < i then Cv * v (i - 1) else 0) := by
  have e : ∀ k ∈ Finset.range m,
      (if k = i then A else if k = i + 1 then Bv else if k + 1 = i then Cv else 0) * v k
        = (if k = i then A * v k else 0) + (if k = i + 1 then Bv * v k else 0)
          + (if k = i - 1 then (if 0 < i then Cv * v k else 0) else 0) := by
    intro k _
    split_ifs <;> first | (exfalso; omega) | ring
  rw [Finset.sum_congr rfl e, Finset.sum_add_distrib, Finset.sum_add_distrib,
    Finset.sum_ite_eq', Finset.sum_ite_eq', Finset.sum_ite_eq']
  have m1 : i ∈ Finset.range m := Finset.mem_range.2 hi
  have m3 : i - 1 ∈ Finset.range m := Finset.mem_range.2 (by omega)
  simp only [m1, m3, if_true, Finset.mem_range]


theorem matSub_Ffn (A M : List (List Rat)) (i c : ℕ) (a b : List Rat)
    (ha : A[i]? = some a) (hb : M[i]? = some b) (hca : c < a.length) (hcb : c < b.length) :
    Ffn (matSub A M) i c = a.getD c 0 - b.getD c 0 := by
  have : (matSub A M)[i]? = some (List.zipWith (· - ·) a b) := by
    simp [matSub, List.getElem?_zipWith, ha, hb]
  rw [Ffn_eq _ i c _ this]
  simp [List.getD_eq_getElem?_getD, hca, hcb]

theorem Ffn_dropLast_drop (F : List (List Rat)) (k c : ℕ) (hk : k + 2 < F.length) :
    Ffn ((F.drop 1).dropLast) k c = Ffn F (k + 1) c := by
  unfold Ffn
  congr 1
  rw [List.getD_eq_getElem?_getD, List.getD_eq_getElem?_getD, List.getElem?_dropLast,
    List.getElem?_drop, List.length_drop, if_pos (by omega), Nat.add_comm]

/-- spacing `h_i = k_{i+1} − k_i` -/
def hsp (knots : List Rat) (i : ℕ) : ℚ := knotFn knots (i + 1) - knotFn knots i

/-- **the contract the engine evaluates, natural spline ⟹ the tridiagonal equations**:
if `residualF knots false F` vanishes (i.e. `natB·F[1:-1] = natD` and the first and last row of
`F` are zero) then for every column `c`, the second derivatives `m = F[·][c]` and the values
`y = e_c` satisfy the tridiagonal equation at every interior knot, and `m_0 = m_{n-1} = 0`. -/
theorem nat_contract_tri (knots : List Rat) (F : List (List Rat)) (hn : 2 ≤ knots.length)
    (hF : F.length = knots.length) (hFr : ∀ r ∈ F, r.length = knots.length)
    (hz : AllZero (residualF knots false F)) :
    (∀ c, Ffn F 0 c = 0) ∧ (∀ c, Ffn F (knots.length - 1) c = 0) ∧
    ∀ i c, i + 2 < knots.length → c < knots.length →
      TriEq (hsp knots i) (hsp knots (i + 1)) (delta i c) (delta (i + 1) c) (delta (i + 2) c)
        (Ffn F i c) (Ffn F (i + 1) c) (Ffn F (i + 2) c) := by
  unfold residualF at hz
  simp only [Bool.false_eq_true, if_false] at hz
  have hz1 := hz.append_left.append_left
  have hz2 := hz.append_left.append_right
  have hz3 := hz.append_right
  have h0 : ∀ c, Ffn F 0 c = 0 := by
    intro c
    have := hz2.Ffn 0 c
    have e : (F.take 1).getD 0 [] = F.getD 0 [] := by
      simp [List.getD_eq_getElem?_getD]
    unfold Ffn at this ⊢
    rw [← e]; exact this
  have hlast : ∀ c, Ffn F (knots.length - 1) c = 0 := by
    intro c
    have := hz3.Ffn 0 c
    have e : (F.drop (F.length - 1)).getD 0 [] = F.getD (knots.length - 1) [] := by
      simp [List.getD_eq_getElem?_getD, List.getElem?_drop, hF]
    unfold Ffn at this ⊢
    rw [← e]; exact this
  refine ⟨h0, hlast, ?_⟩
  intro i c hi hc
  set h := spacings knots with hh
  have hl : h.length = knots.length - 1 := spacings_length knots
  have hi1 : i + 1 < h.length := by omega
  -- the residual entry (i, c)
  have hFm : ∀ r ∈ (F.drop 1).dropLast, r.length = knots.length := fun r hr =>
    hFr r (List.mem_of_mem_drop (List.mem_of_mem_dropLast hr))
  let coef : ℕ → ℚ := fun k =>
    if k = i then (h[i] + h[i + 1]) / 3 else if k = i + 1 then h[i + 1] / 6
    else if k + 1 = i then h[i] / 6 else 0
  have hA : (matMul knots.length (natB h) ((F.drop 1).dropLast))[i]?
      = some (vecMat knots.length ((List.range (h.length - 1)).map coef) ((F.drop 1).dropLast)) := by
    simp [matMul, List.getElem?_map, natB_row h i hi1, coef]
  have hres := hz1.Ffn i c
  rw [matSub_Ffn _ _ i c _ _ hA (natD_row h i hi1)
    (by rw [vecMat_length _ _ _ hFm]; exact hc) (by simp; omega)] at hres
  rw [vecMat_fn knots.length (h.length - 1) _ _ c hc hFm (by simp [hF]; omega)] at hres
  have hsum : ∑ k ∈ Finset.range (h.length - 1), coef k * Ffn ((F.drop 1).dropLast) k c
      = ∑ k ∈ Finset.range (h.length - 1), coef k * Ffn F (k + 1) c :=
    Finset.sum_congr rfl (fun k hk => by
      rw [Ffn_dropLast_drop F k c (by rw [Finset.mem_range] at hk; omega)])
  rw [hsum, tri_sum (h.length - 1) i _ _ _ (fun k => Ffn F (k + 1) c) (by omega)] at hres
  -- the end conditions let us drop the two guards
  have g1 : (if i + 1 < h.length - 1 then h[i + 1] / 6 * Ffn F (i + 1 + 1) c else 0)
      = h[i + 1] / 6 * Ffn F (i + 2) c := by
    split
    · rfl
    · have : i + 2 = knots.length - 1 := by omega
      rw [this, hlast c]; ring
  have g2 : (if 0 < i then h[i] / 6 * Ffn F (i - 1 + 1) c else 0) = h[i] / 6 * Ffn F i c := by
    split
    · rw [show i - 1 + 1 = i by omega]
    · have : i = 0 := by omega
      subst this
      rw [h0 c]; ring
  rw [g1, g2] at hres
  have e1 : h[i] = hsp knots i := spacings_getElem knots i (by have := spacings_length knots; omega)
  have e2 : h[i + 1] = hsp knots (i + 1) := spacings_getElem knots (i + 1) hi1
  have hD : ((List.range (h.length + 1)).map (fun c =>
      if c = i then 1 / h[i] else if c = i + 2 then 1 / h[i + 1]
      else if c = i + 1 then -(1 / h[i]) - 1 / h[i + 1] else 0)).getD c 0
      = (delta (i + 2) c - delta (i + 1) c) / hsp knots (i + 1) - (delta (i + 1) c - delta i c) / hsp knots i := by
    have hc' : c < h.length + 1 := by omega
    simp only [List.getD_eq_getElem?_getD, List.getElem?_map, List.getElem?_range hc', Option.map_some,
      Option.getD_some, e1, e2, delta]
    split_ifs <;> first | (exfalso; omega) | ring
  rw [hD, e1, e2] at hres
  unfold TriEq
  linear_combination hres


/-- cyclic predecessor of node `r` among `m` nodes -/
def cpred (m r : ℕ) : ℕ := if r = 0 then m - 1 else r - 1

theorem rotateRight_one_getElem? (h : List Rat) (r : ℕ) (hr : r < h.length) :
    (h.rotateRight 1)[r]? = some (h[cpred h.length r]'(by unfold cpred; split <;> omega)) := by
  unfold List.rotateRight cpred
  by_cases h1 : h.length ≤ 1
  · have : r = 0 := by omega
    subst this
    simp [h1]
  · simp only [h1, if_false]
    have e : 1 % h.length = 1 := Nat.mod_eq_of_lt (by omega)
    rw [e]
    by_cases h0 : r = 0
    · subst h0
      rw [List.getElem?_append_left (by simp; omega)]
      simp [List.getElem?_drop]
    · rw [List.getElem?_append_right (by simp; omega)]
      simp only [List.length_drop, h0, if_false]
      rw [List.getElem?_take_of_lt (by omega), List.getElem?_eq_getElem (by omega)]
      congr 2
      omega


theorem rotateRight_one_length (h : List Rat) : (h.rotateRight 1).length = h.length := by
  unfold List.rotateRight
  by_cases h1 : h.length ≤ 1
  · simp [h1]
  · simp only [h1, if_false, List.length_append, List.length_drop, List.length_take]
    have e : 1 % h.length = 1 := Nat.mod_eq_of_lt (by omega)
    rw [e]; omega

theorem cpred_lt (m r : ℕ) (hr : r < m) : cpred m r < m := by unfold cpred; split <;> omega
theorem csucc_lt (m r : ℕ) (hr : r < m) : csucc m r < m := by unfold csucc; split <;> omega

theorem cyc_zip_getElem? (h : List Rat) (r : ℕ) (hr : r < h.length) :
    (h.zip (h.rotateRight 1))[r]? = some (h[r], h[cpred h.length r]'(cpred_lt _ _ hr)) := by
  rw [List.getElem?_zip_eq_some]
  exact ⟨List.getElem?_eq_getElem hr, rotateRight_one_getElem? h r hr⟩

theorem cycB_row (h : List Rat) (r : ℕ) (hr : r < h.length) :
    (cycB h)[r]? = some ((List.range h.length).map (fun c =>
      (if c = r then (h[cpred h.length r]'(cpred_lt _ _ hr) + h[r]) / 3 else 0)
        + (if c = cpred h.length r then h[cpred h.length r]'(cpred_lt _ _ hr) / 6 else 0)
        + (if c = csucc h.length r then h[r] / 6 else 0))) := by
  unfold cycB
  rw [List.getElem?_map, List.getElem?_zipIdx, cyc_zip_getElem? h r hr]
  simp only [Option.map_some, Nat.zero_add]
  rfl

theorem cycD_row (h : List Rat) (r : ℕ) (hr : r < h.length) :
    (cycD h)[r]? = some ((List.range h.length).map (fun c =>
      (if c = r then -(1 / h[cpred h.length r]'(cpred_lt _ _ hr)) - 1 / h[r] else 0)
        + (if c = cpred h.length r then 1 / h[cpred h.length r]'(cpred_lt _ _ hr) else 0)
        + (if c = csucc h.length r then 1 / h[r] else 0))) := by
  unfold cycD
  rw [List.getElem?_map, List.getElem?_zipIdx, cyc_zip_getElem? h r hr]
  simp only [Option.map_some, Nat.zero_add]
  rfl

theorem cyc_sum (m r p s : ℕ) (d e f : ℚ) (v : ℕ → ℚ) (hr : r < m) (hp : p < m) (hs : s < m) :
    ∑ k ∈ Finset.range m,
        ((if k = r then d else 0) + (if k = p then e else 0) + (if k = s then f else 0)) * v k
      = d * v r + e * v p + f * v s := by
  have e' : ∀ k ∈ Finset.range m,
      ((if k = r then d else 0) + (if k = p then e else 0) + (if k = s then f else 0)) * v k
        = (if k = r then d * v k else 0) + (if k = p then e * v k else 0)
          + (if k = s then f * v k else 0) := by
    intro k _
    split_ifs <;> ring
  rw [Finset.sum_congr rfl e', Finset.sum_add_distrib, Finset.sum_add_distrib,
    Finset.sum_ite_eq', Finset.sum_ite_eq', Finset.sum_ite_eq']
  simp [hr, hp, hs]

/-- **the contract the engine evaluates, cyclic spline ⟹ the periodic tridiagonal equations**:
if `residualF knots true F` vanishes (`cycB·F = cycD`) then for every column `c` and every node
`r` of the circle the tridiagonal equation holds with the cyclic neighbours of `r`. -/
theorem cyc_contract_tri (knots : List Rat) (F : List (List Rat)) (_hn : 2 ≤ knots.length)
    (hF : F.length = knots.length - 1) (hFr : ∀ r ∈ F, r.length = knots.length - 1)
    (hz : AllZero (residualF knots true F)) :
    ∀ r c, r < knots.length - 1 → c < knots.length - 1 →
      TriEq (hsp knots (cpred (knots.length - 1) r)) (hsp knots r)
        (delta (cpred (knots.length - 1) r) c) (delta r c) (delta (csucc (knots.length - 1) r) c)
        (Ffn F (cpred (knots.length - 1) r) c) (Ffn F r c) (Ffn F (csucc (knots.length - 1) r) c) := by
  unfold residualF at hz
  simp only [if_true] at hz
  intro r c hr hc
  set h := spacings knots with hh
  have hl : h.length = knots.length - 1 := spacings_length knots
  have hr' : r < h.length := by omega
  have hp := cpred_lt h.length r hr'
  have hs := csucc_lt h.length r hr'
  have hFr' : ∀ q ∈ F, q.length = h.length := fun q hq => by rw [hl]; exact hFr q hq
  let coef : ℕ → ℚ := fun k =>
    (if k = r then (h[cpred h.length r] + h[r]) / 3 else 0)
      + (if k = cpred h.length r then h[cpred h.length r] / 6 else 0)
      + (if k = csucc h.length r then h[r] / 6 else 0)
  have hA : (matMul h.length (cycB h) F)[r]?
      = some (vecMat h.length ((List.range h.length).map coef) F) := by
    simp [matMul, List.getElem?_map, cycB_row h r hr', coef]
  have hres := hz.Ffn r c
  rw [matSub_Ffn _ _ r c _ _ hA (cycD_row h r hr')
    (by rw [vecMat_length _ _ _ hFr']; omega) (by simp; omega)] at hres
  rw [vecMat_fn h.length h.length _ _ c (by omega) hFr' (by omega)] at hres
  rw [cyc_sum h.length r _ _ _ _ _ (fun k => Ffn F k c) hr' hp hs] at hres
  have e1 : h[r] = hsp knots r := spacings_getElem knots r (by have := spacings_length knots; omega)
  have e2 : h[cpred h.length r] = hsp knots (cpred h.length r) :=
    spacings_getElem knots _ (by have := spacings_length knots; omega)
  have hD : ((List.range h.length).map (fun c =>
      (if c = r then -(1 / h[cpred h.length r]) - 1 / h[r] else 0)
        + (if c = cpred h.length r then 1 / h[cpred h.length r] else 0)
        + (if c = csucc h.length r then 1 / h[r] else 0))).getD c 0
      = (delta (csucc h.length r) c - delta r c) / hsp knots r
          - (delta r c - delta (cpred h.length r) c) / hsp knots (cpred h.length r) := by
    have hc' : c < h.length := by omega
    simp only [List.getD_eq_getElem?_getD, List.getElem?_map, List.getElem?_range hc', Option.map_some,
      Option.getD_some, e1, e2, delta]
    split_ifs <;> first | (exfalso; omega) | ring
  rw [hD, e1, e2] at hres
  rw [← hl]
  unfold TriEq
  linear_combination hres

theorem map_getElem?_range (n c : ℕ) (hc : c < n) (f : ℕ → ℚ) :
    ((List.range n).map f)[c]? = some (f c) := by
  simp [List.getElem?_map, List.getElem?_range hc]

theorem csucc_cpred (m r : ℕ) (hr : r < m) : csucc m (cpred m r) = r := by
  unfold csucc cpred
  split_ifs <;> omega

end FormulaicVerif.Proofs.C12
