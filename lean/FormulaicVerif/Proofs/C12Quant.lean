import FormulaicVerif.Proofs.C12Interp
import FormulaicVerif.Model.SplineEntry
import Mathlib.Data.List.Sort
import Mathlib.Algebra.Order.Field.Rat
import Mathlib.Tactic.Ring
import Mathlib.Tactic.Linarith
import Mathlib.Tactic.Positivity
/-! Helper lemmas for C12 (not obligations): `sort`, `unique` and the quantile knots `quantLin`
(linear interpolation of order statistics, `numpy`'s default `method="linear"`):

* `sort l` is a non-decreasing permutation of `l`; `unique l` is strictly increasing, has the same
  members as `l`, and depends only on the SET of members (`unique_congr`);
* `interp t pos` on a sorted sample is the piecewise-linear function `lin` through the order
  statistics: monotone in `pos`, between the neighbouring order statistics; strictly monotone and
  strictly inside `(t[0], t[n-1])` when the sample is strictly increasing;
* hence `quantLin s m` has `m` entries, is non-decreasing, stays inside any interval that contains
  the sample, and for a strictly increasing sample of ≥ 2 values is strictly increasing and
  strictly inside the sample range. -/

namespace FormulaicVerif.Proofs.C12
open FormulaicVerif.Model.SplineEntry FormulaicVerif.Model.CubicSpline

/-! ## `sort` and `unique` -/

theorem insertSorted_eq (a : Rat) (l : List Rat) :
    insertSorted a l = List.orderedInsert (· ≤ ·) a l := by
  induction l with
  | nil => rfl
  | cons b t ih => simp only [insertSorted, List.orderedInsert_cons, ih]

theorem sort_eq_insertionSort (l : List Rat) : sort l = List.insertionSort (· ≤ ·) l := by
  unfold sort List.insertionSort
  congr 1
  funext a t
  exact insertSorted_eq a t

theorem sort_perm (l : List Rat) : (sort l).Perm l := by
  rw [sort_eq_insertionSort]; exact List.perm_insertionSort _ l

theorem sort_length (l : List Rat) : (sort l).length = l.length := (sort_perm l).length_eq

theorem mem_sort {l : List Rat} {a : Rat} : a ∈ sort l ↔ a ∈ l := (sort_perm l).mem_iff

theorem sort_pairwise (l : List Rat) : (sort l).Pairwise (· ≤ ·) := by
  rw [sort_eq_insertionSort]; exact List.pairwise_insertionSort _ l

theorem mergeSort_pairwise (l : List Rat) :
    (l.mergeSort (fun a b => decide (a ≤ b))).Pairwise (· ≤ ·) := by
  have := List.pairwise_mergeSort (le := fun (a b : Rat) => decide (a ≤ b))
    (by intro a b c; simp only [decide_eq_true_eq]; exact le_trans)
    (by intro a b; simp only [Bool.or_eq_true, decide_eq_true_eq]; exact le_total a b) l
  simpa using this

/-- sorting forgets the order in which the values were listed -/
theorem sort_eq_of_perm {l l' : List Rat} (h : l.Perm l') : sort l = sort l' :=
  List.Perm.eq_of_pairwise' (r := (· ≤ ·)) (sort_pairwise l) (sort_pairwise l')
    ((sort_perm l).trans (h.trans (sort_perm l').symm))

theorem sort_of_sorted {l : List Rat} (h : l.Pairwise (· ≤ ·)) : sort l = l :=
  List.Perm.eq_of_pairwise' (r := (· ≤ ·)) (sort_pairwise l) h (sort_perm l)

theorem eraseDups_sorted : ∀ (n : ℕ) (l : List Rat), l.length ≤ n → l.Pairwise (· ≤ ·) →
    l.eraseDups.Pairwise (· < ·) := by
  intro n
  induction n with
  | zero =>
    intro l hl _
    have : l = [] := List.length_eq_zero_iff.1 (by omega)
    subst this; simp
  | succ n ih =>
    intro l hl hs
    cases l with
    | nil => simp
    | cons a t =>
      rw [List.eraseDups_cons, List.pairwise_cons]
      rw [List.pairwise_cons] at hs
      constructor
      · intro b hb
        rw [List.mem_eraseDups, List.mem_filter] at hb
        have h1 := hs.1 b hb.1
        have h2 : b ≠ a := by simpa using hb.2
        exact lt_of_le_of_ne h1 (Ne.symm h2)
      · apply ih
        · have := List.length_filter_le (fun b => !b == a) t
          simp only [List.length_cons] at hl
          omega
        · exact hs.2.sublist List.filter_sublist

theorem unique_pairwise (l : List Rat) : (unique l).Pairwise (· < ·) :=
  eraseDups_sorted _ _ (le_refl _) (mergeSort_pairwise l)

theorem mem_unique {l : List Rat} {a : Rat} : a ∈ unique l ↔ a ∈ l := by
  unfold unique
  rw [List.mem_eraseDups]
  exact (List.mergeSort_perm _ _).mem_iff

/-- `numpy.unique` depends only on the set of values: repeats and the order of listing are
forgotten -/
theorem unique_congr {l l' : List Rat} (h : ∀ a, a ∈ l ↔ a ∈ l') : unique l = unique l' :=
  List.Pairwise.eq_of_mem_iff (unique_pairwise l) (unique_pairwise l')
    (fun a => by rw [mem_unique, mem_unique, h a])

theorem unique_of_strict {l : List Rat} (h : l.Pairwise (· < ·)) : unique l = l :=
  List.Pairwise.eq_of_mem_iff (unique_pairwise l) h (fun _ => mem_unique)

/-! ## floor -/

theorem floor_toNat_le {p : ℚ} (h0 : 0 ≤ p) : ((p.floor.toNat : ℕ) : ℚ) ≤ p := by
  have hf : (0 : Int) ≤ p.floor := Rat.le_floor_iff.2 (by simpa using h0)
  have : ((p.floor.toNat : ℕ) : ℚ) = ((p.floor : Int) : ℚ) := by
    rw [← Int.cast_natCast, Int.toNat_of_nonneg hf]
  rw [this]
  exact Rat.floor_le p

theorem lt_floor_toNat_add_one {p : ℚ} (h0 : 0 ≤ p) : p < ((p.floor.toNat : ℕ) : ℚ) + 1 := by
  have hf : (0 : Int) ≤ p.floor := Rat.le_floor_iff.2 (by simpa using h0)
  have : ((p.floor.toNat : ℕ) : ℚ) = ((p.floor : Int) : ℚ) := by
    rw [← Int.cast_natCast, Int.toNat_of_nonneg hf]
  rw [this]
  have := Rat.lt_floor_add_one p
  push_cast at this
  exact this

theorem floor_toNat_mono {p q : ℚ} (h : p ≤ q) : p.floor.toNat ≤ q.floor.toNat :=
  Int.toNat_le_toNat (Rat.floor_monotone h)

/-! ## piecewise-linear interpolation through `f 0, …, f (n-1)` -/

/-- `interp` in function form -/
def lin (f : ℕ → ℚ) (n : ℕ) (pos : ℚ) : ℚ :=
  if pos.floor.toNat + 1 < n then
    f pos.floor.toNat + (pos - (pos.floor.toNat : ℚ)) * (f (pos.floor.toNat + 1) - f pos.floor.toNat)
  else f pos.floor.toNat

/-- for a position inside `[0, n − 1]` the fall-back branch of `interp` is not taken: `interp` is
the piecewise-linear function through the order statistics -/
theorem interp_spec (t : List Rat) (pos : ℚ) (h0 : 0 ≤ pos) (h1 : pos ≤ (t.length : ℚ) - 1) :
    interp t pos = lin (knotFn t) t.length pos := by
  have hg := floor_toNat_le h0
  have hgn : pos.floor.toNat < t.length := by
    have : ((pos.floor.toNat : ℕ) : ℚ) < (t.length : ℚ) := by linarith
    exact_mod_cast this
  unfold interp lin
  simp only
  rw [List.getElem?_eq_getElem hgn]
  by_cases h2 : pos.floor.toNat + 1 < t.length
  · rw [List.getElem?_eq_getElem h2, if_pos h2, knotFn_eq t _ hgn, knotFn_eq t _ h2]
  · rw [List.getElem?_eq_none (by omega), if_neg h2, knotFn_eq t _ hgn]

section lin
variable (f : ℕ → ℚ) (n : ℕ)

theorem lin_ge (hf : ∀ i j, i ≤ j → j < n → f i ≤ f j) (p : ℚ) (h0 : 0 ≤ p) :
    f p.floor.toNat ≤ lin f n p := by
  unfold lin
  split
  · rename_i h
    have a := floor_toNat_le h0
    have b := hf p.floor.toNat (p.floor.toNat + 1) (by omega) h
    have : 0 ≤ (p - (p.floor.toNat : ℚ)) * (f (p.floor.toNat + 1) - f p.floor.toNat) :=
      mul_nonneg (by linarith) (by linarith)
    linarith
  · exact le_refl _

theorem lin_le (hf : ∀ i j, i ≤ j → j < n → f i ≤ f j) (p : ℚ) (h0 : 0 ≤ p)
    (h : p.floor.toNat + 1 < n) : lin f n p ≤ f (p.floor.toNat + 1) := by
  unfold lin
  rw [if_pos h]
  have a := lt_floor_toNat_add_one h0
  have b := hf p.floor.toNat (p.floor.toNat + 1) (by omega) h
  have : (p - (p.floor.toNat : ℚ)) * (f (p.floor.toNat + 1) - f p.floor.toNat)
      ≤ 1 * (f (p.floor.toNat + 1) - f p.floor.toNat) :=
    mul_le_mul_of_nonneg_right (by linarith) (by linarith)
  linarith

theorem lin_lt (hf : ∀ i j, i < j → j < n → f i < f j) (p : ℚ) (h0 : 0 ≤ p)
    (h : p.floor.toNat + 1 < n) : lin f n p < f (p.floor.toNat + 1) := by
  unfold lin
  rw [if_pos h]
  have a := lt_floor_toNat_add_one h0
  have b := hf p.floor.toNat (p.floor.toNat + 1) (by omega) h
  have : (p - (p.floor.toNat : ℚ)) * (f (p.floor.toNat + 1) - f p.floor.toNat)
      < 1 * (f (p.floor.toNat + 1) - f p.floor.toNat) :=
    mul_lt_mul_of_pos_right (by linarith) (by linarith)
  linarith

theorem floor_lt_of_le_pred {p : ℚ} (h0 : 0 ≤ p) (h1 : p ≤ (n : ℚ) - 1) : p.floor.toNat < n := by
  have := floor_toNat_le h0
  have : ((p.floor.toNat : ℕ) : ℚ) < (n : ℚ) := by linarith
  exact_mod_cast this

/-- the interpolant is monotone in the position -/
theorem lin_mono (hf : ∀ i j, i ≤ j → j < n → f i ≤ f j) (p q : ℚ) (h0 : 0 ≤ p) (hpq : p ≤ q)
    (h1 : q ≤ (n : ℚ) - 1) : lin f n p ≤ lin f n q := by
  have hq0 : 0 ≤ q := le_trans h0 hpq
  have hg := floor_toNat_mono hpq
  have hqn := floor_lt_of_le_pred n hq0 h1
  rcases Nat.eq_or_lt_of_le hg with e | hlt
  · -- same segment
    unfold lin
    rw [← e]
    split
    · rename_i h
      have b := hf p.floor.toNat (p.floor.toNat + 1) (by omega) h
      have : 0 ≤ (q - p) * (f (p.floor.toNat + 1) - f p.floor.toNat) :=
        mul_nonneg (by linarith) (by linarith)
      nlinarith
    · exact le_refl _
  · have h : p.floor.toNat + 1 < n := by omega
    calc lin f n p ≤ f (p.floor.toNat + 1) := lin_le f n hf p h0 h
      _ ≤ f q.floor.toNat := hf _ _ hlt hqn
      _ ≤ lin f n q := lin_ge f n hf q hq0

/-- strictly monotone on a strictly increasing sample -/
theorem lin_strictMono (hf : ∀ i j, i < j → j < n → f i < f j) (p q : ℚ) (h0 : 0 ≤ p) (hpq : p < q)
    (h1 : q ≤ (n : ℚ) - 1) : lin f n p < lin f n q := by
  have hfm : ∀ i j, i ≤ j → j < n → f i ≤ f j := by
    intro i j hij hj
    rcases Nat.eq_or_lt_of_le hij with rfl | h
    · exact le_refl _
    · exact le_of_lt (hf i j h hj)
  have hq0 : 0 ≤ q := le_trans h0 (le_of_lt hpq)
  have hg := floor_toNat_mono (le_of_lt hpq)
  have hqn := floor_lt_of_le_pred n hq0 h1
  rcases Nat.eq_or_lt_of_le hg with e | hlt
  · have hp1 : p.floor.toNat + 1 < n := by
      have a := floor_toNat_le h0
      have : ((p.floor.toNat : ℕ) : ℚ) + 1 < (n : ℚ) := by linarith
      exact_mod_cast this
    unfold lin
    rw [← e]
    simp only [if_pos hp1]
    have b := hf p.floor.toNat (p.floor.toNat + 1) (by omega) hp1
    have : 0 < (q - p) * (f (p.floor.toNat + 1) - f p.floor.toNat) :=
      mul_pos (by linarith) (by linarith)
    nlinarith
  · have h : p.floor.toNat + 1 < n := by omega
    calc lin f n p < f (p.floor.toNat + 1) := lin_lt f n hf p h0 h
      _ ≤ f q.floor.toNat := hfm _ _ hlt hqn
      _ ≤ lin f n q := lin_ge f n hfm q hq0

/-- the interpolant stays between the smallest and the largest order statistic -/
theorem lin_bounds (hf : ∀ i j, i ≤ j → j < n → f i ≤ f j) (p : ℚ) (h0 : 0 ≤ p)
    (h1 : p ≤ (n : ℚ) - 1) : f 0 ≤ lin f n p ∧ lin f n p ≤ f (n - 1) := by
  have hpn := floor_lt_of_le_pred n h0 h1
  constructor
  · exact le_trans (hf 0 _ (Nat.zero_le _) hpn) (lin_ge f n hf p h0)
  · by_cases h : p.floor.toNat + 1 < n
    · exact le_trans (lin_le f n hf p h0 h) (hf _ _ (by omega) (by omega))
    · unfold lin
      rw [if_neg h]
      exact hf _ _ (by omega) (by omega)

/-- strictly inside the sample range for a position strictly inside `(0, n − 1)` -/
theorem lin_strict_bounds (hf : ∀ i j, i < j → j < n → f i < f j) (p : ℚ) (h0 : 0 < p)
    (h1 : p < (n : ℚ) - 1) : f 0 < lin f n p ∧ lin f n p < f (n - 1) := by
  have hfm : ∀ i j, i ≤ j → j < n → f i ≤ f j := by
    intro i j hij hj
    rcases Nat.eq_or_lt_of_le hij with rfl | h
    · exact le_refl _
    · exact le_of_lt (hf i j h hj)
  have hpn := floor_lt_of_le_pred n (le_of_lt h0) (le_of_lt h1)
  have hp1 : p.floor.toNat + 1 < n := by
    have a := floor_toNat_le (le_of_lt h0)
    have : ((p.floor.toNat : ℕ) : ℚ) + 1 < (n : ℚ) := by linarith
    exact_mod_cast this
  constructor
  · rcases Nat.eq_zero_or_pos p.floor.toNat with e | hpos
    · unfold lin
      rw [if_pos hp1, e]
      have b := hf 0 1 (by omega) (by omega)
      have : 0 < (p - ((0 : ℕ) : ℚ)) * (f (0 + 1) - f 0) := mul_pos (by simpa using h0) (by simpa using b)
      linarith
    · exact lt_of_lt_of_le (hf 0 _ hpos hpn) (lin_ge f n hfm p (le_of_lt h0))
  · exact lt_of_lt_of_le (lin_lt f n hf p (le_of_lt h0) hp1) (hfm _ _ (by omega) (by omega))

end lin

/-! ## the positions of the equally spaced quantiles -/

theorem qpos_nonneg (n m k : ℕ) (hn : 1 ≤ n) : 0 ≤ qpos n m k := by
  unfold qpos
  have : (1 : ℚ) ≤ n := by exact_mod_cast hn
  have h1 : 0 ≤ ((k : ℚ) + 1) / ((m : ℚ) + 1) := by positivity
  exact mul_nonneg h1 (by linarith)

theorem qpos_le (n m k : ℕ) (hn : 1 ≤ n) (hk : k < m) : qpos n m k ≤ (n : ℚ) - 1 := by
  unfold qpos
  have : (1 : ℚ) ≤ n := by exact_mod_cast hn
  have hkm : ((k : ℚ) + 1) / ((m : ℚ) + 1) ≤ 1 := by
    rw [div_le_one (by positivity)]
    have : (k : ℚ) < m := by exact_mod_cast hk
    linarith
  calc ((k : ℚ) + 1) / ((m : ℚ) + 1) * ((n : ℚ) - 1) ≤ 1 * ((n : ℚ) - 1) :=
        mul_le_mul_of_nonneg_right hkm (by linarith)
    _ = (n : ℚ) - 1 := one_mul _

theorem qpos_mono (n m : ℕ) (hn : 1 ≤ n) {k k' : ℕ} (h : k ≤ k') : qpos n m k ≤ qpos n m k' := by
  unfold qpos
  have : (1 : ℚ) ≤ n := by exact_mod_cast hn
  apply mul_le_mul_of_nonneg_right _ (by linarith)
  apply div_le_div_of_nonneg_right _ (by positivity)
  have : (k : ℚ) ≤ k' := by exact_mod_cast h
  linarith

theorem qpos_strictMono (n m : ℕ) (hn : 2 ≤ n) {k k' : ℕ} (h : k < k') :
    qpos n m k < qpos n m k' := by
  unfold qpos
  have : (2 : ℚ) ≤ n := by exact_mod_cast hn
  apply mul_lt_mul_of_pos_right _ (by linarith)
  apply div_lt_div_of_pos_right _ (by positivity)
  have : (k : ℚ) < k' := by exact_mod_cast h
  linarith

theorem qpos_pos (n m k : ℕ) (hn : 2 ≤ n) : 0 < qpos n m k := by
  unfold qpos
  have : (2 : ℚ) ≤ n := by exact_mod_cast hn
  exact mul_pos (by positivity) (by linarith)

theorem qpos_lt (n m k : ℕ) (hn : 2 ≤ n) (hk : k < m) : qpos n m k < (n : ℚ) - 1 := by
  unfold qpos
  have : (2 : ℚ) ≤ n := by exact_mod_cast hn
  have hkm : ((k : ℚ) + 1) / ((m : ℚ) + 1) < 1 := by
    rw [div_lt_one (by positivity)]
    have : (k : ℚ) + 1 ≤ m := by exact_mod_cast hk
    linarith
  calc ((k : ℚ) + 1) / ((m : ℚ) + 1) * ((n : ℚ) - 1) < 1 * ((n : ℚ) - 1) :=
        mul_lt_mul_of_pos_right hkm (by linarith)
    _ = (n : ℚ) - 1 := one_mul _

/-! ## `quantLin` -/

theorem quantLin_length (s : List Rat) (m : ℕ) : (quantLin s m).length = m := by
  simp [quantLin]

theorem knotFn_mono_of_pairwise {t : List Rat} (h : t.Pairwise (· ≤ ·)) :
    ∀ i j, i ≤ j → j < t.length → knotFn t i ≤ knotFn t j := by
  intro i j hij hj
  rw [knotFn_eq t i (by omega), knotFn_eq t j hj]
  rcases Nat.eq_or_lt_of_le hij with rfl | hlt
  · exact le_refl _
  · exact List.pairwise_iff_getElem.1 h i j (by omega) hj hlt

theorem knotFn_strict_of_pairwise {t : List Rat} (h : t.Pairwise (· < ·)) :
    ∀ i j, i < j → j < t.length → knotFn t i < knotFn t j := by
  intro i j hij hj
  rw [knotFn_eq t i (by omega), knotFn_eq t j hj]
  exact List.pairwise_iff_getElem.1 h i j (by omega) hj hij

/-- every quantile knot is `lin` of the sorted sample at its position -/
theorem quantLin_eq (s : List Rat) (m : ℕ) (hs : s ≠ []) :
    quantLin s m = (List.range m).map
      (fun k => lin (knotFn (sort s)) (sort s).length (qpos (sort s).length m k)) := by
  unfold quantLin
  simp only
  apply List.map_congr_left
  intro k hk
  have hn : 1 ≤ (sort s).length := by
    rw [sort_length]; exact List.length_pos_iff.2 hs
  exact interp_spec _ _ (qpos_nonneg _ _ _ hn) (qpos_le _ _ _ hn (List.mem_range.1 hk))

/-- the quantile knots stay inside every interval that contains the sample -/
theorem quantLin_bounds (s : List Rat) (m : ℕ) (lo hi : ℚ) (hs : s ≠ [])
    (hb : ∀ x ∈ s, lo ≤ x ∧ x ≤ hi) : ∀ v ∈ quantLin s m, lo ≤ v ∧ v ≤ hi := by
  intro v hv
  rw [quantLin_eq s m hs, List.mem_map] at hv
  obtain ⟨k, hk, rfl⟩ := hv
  have hn : 1 ≤ (sort s).length := by
    rw [sort_length]; exact List.length_pos_iff.2 hs
  have := lin_bounds (knotFn (sort s)) (sort s).length (knotFn_mono_of_pairwise (sort_pairwise s))
    _ (qpos_nonneg _ _ k hn) (qpos_le _ _ _ hn (List.mem_range.1 hk))
  have m0 : knotFn (sort s) 0 ∈ s := by
    rw [knotFn_eq _ 0 (by omega)]; exact mem_sort.1 (List.getElem_mem _)
  have m1 : knotFn (sort s) ((sort s).length - 1) ∈ s := by
    rw [knotFn_eq _ _ (by omega)]; exact mem_sort.1 (List.getElem_mem _)
  exact ⟨le_trans (hb _ m0).1 this.1, le_trans this.2 (hb _ m1).2⟩

/-- the quantile knots are non-decreasing -/
theorem quantLin_sorted (s : List Rat) (m : ℕ) (hs : s ≠ []) : (quantLin s m).Pairwise (· ≤ ·) := by
  rw [quantLin_eq s m hs, List.pairwise_map]
  have hn : 1 ≤ (sort s).length := by
    rw [sort_length]; exact List.length_pos_iff.2 hs
  refine List.Pairwise.imp_of_mem ?_ List.pairwise_lt_range
  intro a b _ hb hab
  exact lin_mono _ _ (knotFn_mono_of_pairwise (sort_pairwise s)) _ _ (qpos_nonneg _ _ _ hn)
    (qpos_mono _ _ hn (le_of_lt hab)) (qpos_le _ _ _ hn (List.mem_range.1 hb))

/-- on a strictly increasing sample of at least two values (the `numpy.unique`d in-range data of
cubic_spline) the quantile knots are strictly increasing and strictly inside any interval that
contains the sample -/
theorem quantLin_strict (s : List Rat) (m : ℕ) (lo hi : ℚ) (hs : s.Pairwise (· < ·))
    (h2 : 2 ≤ s.length) (hb : ∀ x ∈ s, lo ≤ x ∧ x ≤ hi) :
    (quantLin s m).Pairwise (· < ·) ∧ ∀ v ∈ quantLin s m, lo < v ∧ v < hi := by
  have hne : s ≠ [] := by intro h; rw [h] at h2; simp at h2
  have hsort : sort s = s := sort_of_sorted (hs.imp le_of_lt)
  have hf := knotFn_strict_of_pairwise hs
  rw [quantLin_eq s m hne, hsort]
  constructor
  · rw [List.pairwise_map]
    refine List.Pairwise.imp_of_mem ?_ List.pairwise_lt_range
    intro a b _ hb' hab
    exact lin_strictMono _ _ hf _ _ (qpos_nonneg _ _ _ (by omega)) (qpos_strictMono _ _ h2 hab)
      (qpos_le _ _ _ (by omega) (List.mem_range.1 hb'))
  · intro v hv
    rw [List.mem_map] at hv
    obtain ⟨k, hk, rfl⟩ := hv
    have := lin_strict_bounds (knotFn s) s.length hf _ (qpos_pos _ m k h2)
      (qpos_lt _ _ _ h2 (List.mem_range.1 hk))
    have m0 : knotFn s 0 ∈ s := by rw [knotFn_eq _ 0 (by omega)]; exact List.getElem_mem _
    have m1 : knotFn s (s.length - 1) ∈ s := by
      rw [knotFn_eq _ _ (by omega)]; exact List.getElem_mem _
    exact ⟨lt_of_le_of_lt (hb _ m0).1 this.1, lt_of_lt_of_le this.2 (hb _ m1).2⟩

end FormulaicVerif.Proofs.C12
