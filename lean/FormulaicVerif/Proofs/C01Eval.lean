import FormulaicVerif.Spec.WilkinsonDenote
/-! # C01 — evaluation equals denotation, arithmetic levels

`evalAst` on the documented tree of any `Sum` of the documented grammar is the documented denotation
`Spec.Denote.denSum` (errors included, in the same order): induction over the five grammar levels.
Two steps: (1) on a tree without structural operators, `ASTNode.to_terms` — `Structured._merge` over
the evaluated arguments — is just the operator applied to the argument term sets (`eval_strip`);
(2) each operator of the documented table applied to term sets is the documented set operation. -/
namespace FormulaicVerif.Proofs.C01Eval
open FormulaicVerif FormulaicVerif.Model FormulaicVerif.Proofs.ShuntC FormulaicVerif.Proofs.C01Grammar
open FormulaicVerif.Proofs.C14 (evalAst_node evalArgs_cons merge_sets1 merge_sets2 PlainE KnownOp)
open FormulaicVerif.Proofs.C01TopLevel (evalArgs_nil Sum.plainE Prod.plainE Inter.plainE Pow.plainE Atom.plainE)
open FormulaicVerif.Spec.Denote

/-- the operator semantics read directly off the expression tree -/
def evalE (dot : DotCtx) : E → Except ParseErr (List Term)
  | .atom t => .ok [termOfTok t]
  | .paren e => evalE dot e
  | .bin o _ _ l r =>
    match evalE dot l with
    | .error e => .error e
    | .ok x => match evalE dot r with
      | .error e => .error e
      | .ok y => applyPlain o dot [x, y]
  | .pre o _ _ x =>
    match evalE dot x with
    | .error e => .error e
    | .ok v => applyPlain o dot [v]

/-- `ASTNode.to_terms` on a tree of non-structural operators: no structure is ever built -/
theorem eval_strip (dot : DotCtx) (e : E) (h : PlainE e) :
    evalAst dot (strip e) = (evalE dot e).map Val.set := by
  induction e with
  | atom t => simp [strip, evalAst, evalE, Except.map]
  | paren e ih => exact ih h
  | bin o sym cs l r ihl ihr =>
    obtain ⟨hk, hl, hr⟩ := h
    simp only [strip, evalAst_node, evalArgs_cons, ihl hl, ihr hr, evalE]
    cases evalE dot l with
    | error e => rfl
    | ok x =>
      cases evalE dot r with
      | error e => rfl
      | ok y =>
        simp only [Except.map, evalArgs_nil, hk.1, Bool.false_eq_true, if_false, List.isEmpty_cons,
          List.length_cons, List.length_nil]
        rw [merge_sets2]
        rfl
  | pre o sym cs x ihx =>
    obtain ⟨hk, hx⟩ := h
    simp only [strip, evalAst_node, evalArgs_cons, ihx hx, evalE]
    cases evalE dot x with
    | error e => rfl
    | ok v =>
      simp only [Except.map, evalArgs_nil, hk.1, Bool.false_eq_true, if_false, List.isEmpty_cons,
        List.length_cons, List.length_nil]
      rw [merge_sets1]
      rfl

/-! ### the operators of the documented table -/

theorem apply_add (dot : DotCtx) (op : AddOp) (x y : List Term) :
    applyPlain op.spec dot [x, y] = .ok (denAdd op x y) := by cases op <;> rfl

theorem apply_unary_plus (dot : DotCtx) (x : List Term) : applyPlain AddOp.plus.unary dot [x] = .ok x := rfl
theorem apply_unary_minus (dot : DotCtx) (x : List Term) : applyPlain AddOp.minus.unary dot [x] = .ok [] := rfl

theorem apply_mul (dot : DotCtx) (op : MulOp) (x y : List Term) :
    applyPlain op.spec dot [x, y] = denMul op x y := by
  cases op
  · show Except.ok (osetUnion (oset (x ++ y)) (osetProd x y)) = _
    rfl
  · rfl
  · rfl

theorem apply_colon (dot : DotCtx) (x y : List Term) :
    applyPlain colonSpec dot [x, y] = .ok (osetProd x y) := rfl

theorem apply_pow (dot : DotCtx) (op : PowOp) (x y : List Term) :
    applyPlain op.spec dot [x, y] = power x y := by cases op <;> rfl

/-! ### evaluation = denotation, level by level -/

mutual
theorem evalE_atom (dot : DotCtx) : ∀ a : Atom, evalE dot a.toE = denAtom a
  | .tok t _ => by simp [Atom.toE, evalE, denAtom]
  | .paren s => by
    have := evalE_sum dot s
    simp only [Atom.toE, evalE, denAtom]
    exact this
theorem evalE_pow (dot : DotCtx) : ∀ p : Pow, evalE dot p.toE = denPow p
  | .atom a => by simp only [Pow.toE, denPow]; exact evalE_atom dot a
  | .pow op a p => by
    simp only [Pow.toE, evalE, denPow, evalE_atom dot a, evalE_pow dot p, apply_pow]
    cases denAtom a with
    | error e => rfl
    | ok x => cases denPow p <;> rfl
theorem evalE_inter (dot : DotCtx) : ∀ i : Inter, evalE dot i.toE = denInter i
  | .pow p => by simp only [Inter.toE, denInter]; exact evalE_pow dot p
  | .inter i p => by
    simp only [Inter.toE, evalE, denInter, evalE_inter dot i, evalE_pow dot p, apply_colon]
    cases denInter i with
    | error e => rfl
    | ok x => cases denPow p <;> rfl
theorem evalE_prod (dot : DotCtx) : ∀ p : Prod, evalE dot p.toE = denProd p
  | .inter i => by simp only [Prod.toE, denProd]; exact evalE_inter dot i
  | .mul op p i => by
    simp only [Prod.toE, evalE, denProd, evalE_prod dot p, evalE_inter dot i, apply_mul]
    cases denProd p with
    | error e => rfl
    | ok x => cases denInter i <;> rfl
theorem evalE_sum (dot : DotCtx) : ∀ s : Sum, evalE dot s.toE = denSum s
  | .first none p => by simp only [Sum.toE, denSum]; exact evalE_prod dot p
  | .first (some .plus) p => by
    simp only [Sum.toE, evalE, denSum, evalE_prod dot p, apply_unary_plus]
    cases denProd p <;> rfl
  | .first (some .minus) p => by
    simp only [Sum.toE, evalE, denSum, evalE_prod dot p, apply_unary_minus]
    cases denProd p <;> rfl
  | .add op s p => by
    simp only [Sum.toE, evalE, denSum, evalE_sum dot s, evalE_prod dot p, apply_add]
    cases denSum s with
    | error e => rfl
    | ok x => cases denProd p <;> rfl
end

/-- **C01.5  evaluation equals denotation**: the documented tree of any `Sum` evaluates to the
documented denotation of the `Sum` (or is rejected exactly when the denotation is) -/
theorem eval_sum_eq_denote (dot : DotCtx) (s : Sum) :
    evalAst dot (strip s.toE) = (denSum s).map Val.set := by
  rw [eval_strip dot _ (Sum.plainE s), evalE_sum]

end FormulaicVerif.Proofs.C01Eval
