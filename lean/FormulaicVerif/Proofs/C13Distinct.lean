import FormulaicVerif.Proofs.C13Real
import FormulaicVerif.Proofs.C13Replay
import Mathlib.Algebra.Polynomial.BigOperators
import Mathlib.Algebra.Polynomial.Degree.Lemmas
/-! The hypothesis "more than `d` distinct non-missing values" of the `poly` theorems over `ℝ` is sharp:
with exactly `m` distinct sample values the `m`-th polynomial of the recurrence is the node polynomial
`∏ (t − tᵢ)` on the sample (it differs from it by a polynomial of lower degree that is orthogonal to
all polynomials of lower degree), so `norms2[m] = 0`; and a training run that succeeds has divided by
non-zero squared norms only. -/
namespace FormulaicVerif.Proofs.C13
open FormulaicVerif FormulaicVerif.Model Polynomial

theorem ip_eq_zero_left (x : List ℝ) (f g : ℝ → ℝ) (h : ∀ t ∈ x, f t = 0) : ip x f g = 0 := by
  unfold ip
  induction x with
  | nil => simp
  | cons a r ih =>
    simp only [List.map_cons, List.sum_cons]
    rw [h a (by simp), ih (fun t ht => h t (by simp [ht]))]; ring

theorem ip_add_right (x : List ℝ) (u v w : ℝ → ℝ) : ip x u (v + w) = ip x u v + ip x u w := by
  rw [ip_symm, ip_add, ip_symm x v, ip_symm x w]

theorem ip_smul_right (x : List ℝ) (c : ℝ) (u w : ℝ → ℝ) : ip x u (c • w) = c * ip x u w := by
  rw [ip_symm, ip_smul, ip_symm]

/-- the node polynomial of the sample -/
noncomputable def nodePoly (x : List ℝ) : ℝ[X] := ∏ t ∈ x.toFinset, (X - C t)

theorem nodePoly_monic (x : List ℝ) : (nodePoly x).Monic := monic_prod_of_monic _ _ (fun t _ => monic_X_sub_C t)

theorem nodePoly_natDegree (x : List ℝ) : (nodePoly x).natDegree = x.toFinset.card := by
  unfold nodePoly
  rw [natDegree_prod_of_monic _ _ (fun t _ => monic_X_sub_C t)]
  simp

theorem nodePoly_eval (x : List ℝ) (t : ℝ) (ht : t ∈ x) : (nodePoly x).eval t = 0 := by
  unfold nodePoly
  rw [eval_prod]
  exact Finset.prod_eq_zero (List.mem_toFinset.mpr ht) (by simp)

/-- with exactly `m` distinct sample values the `m`-th polynomial of the recurrence vanishes on the sample -/
theorem nT_zero_at_card (x : List ℝ) : nT x x.toFinset.card = 0 := by
  set m := x.toFinset.card with hm
  have hpos : ∀ k < m, nT x k ≠ 0 := fun k hk => (nT_pos_of_distinct x k hk).ne'
  have horth := pf_orthogonal x m hpos
  have hq := recPolyP_monic_degree (aT x) (nT x)
  have he : ∀ k t, pf x k t = (recPolyP (aT x) (nT x) k).eval t := by
    intro k t; rw [pf_eq_recPoly, recPoly_eq_eval]
  set q := recPolyP (aT x) (nT x) with hqdef
  set r := q m - nodePoly x with hr
  -- r has degree < m
  have hrdeg : r ∈ degreeLT ℝ m := by
    rw [mem_degreeLT]
    by_cases hr0 : r = 0
    · rw [hr0, degree_zero]; exact WithBot.bot_lt_coe _
    · have h1 : (q m).degree = (nodePoly x).degree := by
        rw [degree_eq_natDegree (hq m).1.ne_zero, degree_eq_natDegree (nodePoly_monic x).ne_zero, (hq m).2,
          nodePoly_natDegree]
      have h2 : (q m).leadingCoeff = (nodePoly x).leadingCoeff := by
        rw [(hq m).1.leadingCoeff, (nodePoly_monic x).leadingCoeff]
      have := degree_sub_lt_left h1 (hq m).1.ne_zero h2
      rw [degree_eq_natDegree (hq m).1.ne_zero, (hq m).2] at this
      exact this
  rw [← span_monic_eq_degreeLT q hq m] at hrdeg
  -- the functional p ↦ ⟨r, p⟩ vanishes on the span
  have hfun : ∀ p ∈ Submodule.span ℝ (q '' {k | k < m}), ip x (fun t => r.eval t) (fun t => p.eval t) = 0 := by
    intro p hp
    induction hp using Submodule.span_induction with
    | mem p hp =>
      obtain ⟨k, hk, rfl⟩ := hp
      have hk' : k < m := hk
      have e1 : (fun t => r.eval t) = (fun t => (q m).eval t) + (-1 : ℝ) • (fun t => (nodePoly x).eval t) := by
        funext t; simp [hr, sub_eq_add_neg]
      rw [e1, ip_add, ip_smul, ip_eq_zero_left x _ _ (fun t ht => nodePoly_eval x t ht)]
      have := horth m k (le_refl _) hk'
      rw [funext (he m), funext (he k)] at this
      rw [this]; ring
    | zero => simp [ip]
    | add p1 p2 _ _ h1 h2 =>
      have : (fun t => (p1 + p2).eval t) = (fun t => p1.eval t) + (fun t => p2.eval t) := by funext t; simp
      rw [this, ip_add_right, h1, h2]; ring
    | smul c p _ h1 =>
      have : (fun t => (c • p).eval t) = c • (fun t => p.eval t) := by funext t; simp
      rw [this, ip_smul_right, h1]; ring
  have hrr := hfun r hrdeg
  have hz := ip_self_eq_zero x _ hrr
  have hpm : ∀ t ∈ x, pf x m t = 0 := by
    intro t ht
    have h1 := hz t ht
    have h2 := nodePoly_eval x t ht
    rw [he]
    have : (q m).eval t = r.eval t + (nodePoly x).eval t := by simp [hr]
    rw [this, h1, h2]; ring
  exact ip_eq_zero_left x _ _ hpm


section
variable {α : Type} [Field α] [DecidableEq α]

theorem build_training_closed (x : List α) (d : ℕ) (hn : ∀ k < d, nT x k ≠ 0) :
    Poly.build x (Poly.training x) d = .ok (colsRev x (aT x) (nT x) d) := by
  apply build_eq x _ (aT x) (nT x) d
  · intro k hk
    rw [← pf_eq_recPoly]
    exact training_alpha x k _ (hn k hk)
  · intro k hk
    rw [← pf_eq_recPoly, ← pf_eq_recPoly]
    exact ⟨training_norm x _ _, training_norm x _ _, hn k (by omega)⟩

/-- a training loop that succeeds divided by non-zero squared norms only -/
theorem build_training_ok (x : List α) : ∀ (d : ℕ) (cols : List (List α)),
    Poly.build x (Poly.training x) d = .ok cols → ∀ k < d, nT x k ≠ 0
  | 0, _, _ => fun k hk => absurd hk (by omega)
  | i + 1, cols, h => by
    have hbi : ∃ c', Poly.build x (Poly.training x) i = .ok c' := by
      rw [Poly.build] at h
      cases hb : Poly.build x (Poly.training x) i with
      | error e => rw [hb] at h; cases h
      | ok c' => exact ⟨c', rfl⟩
    obtain ⟨c', hb⟩ := hbi
    have ih := build_training_ok x i c' hb
    have hcl := build_training_closed x i ih
    obtain ⟨tl, htl⟩ := colsRev_head x (aT x) (nT x) i
    intro k hk
    by_cases hki : k = i
    · subst hki
      intro h0
      rw [Poly.build, hcl, htl] at h
      have ha : (Poly.training x).alpha k (x.map (recPoly (aT x) (nT x) k)) = .error .nonFinite := by
        rw [← pf_eq_recPoly]
        simp only [Poly.training, sumSq_map]
        rw [show ip x (pf x k) (pf x k) = nT x k from rfl, h0]; simp
      simp only [ha] at h
      cases h
    · exact ih k (by omega)
end

section
variable {α : Type} [Field α] [DecidableEq α]
theorem fit_training_ok (sqrt : α → α) (x : List α) (d : ℕ) (n0 : Option (List α)) (q : List (List α))
    (st' : Poly.State α) (h : Poly.fit sqrt x d ⟨none, n0⟩ = .ok (q, st')) :
    (∀ k < d, nT x k ≠ 0) ∧ (∀ k ≤ d, sqrt (nT x k) ≠ 0) := by
  unfold Poly.fit at h
  simp only at h
  cases hb : Poly.build x (Poly.training x) d with
  | error e => rw [hb] at h; cases h
  | ok colsRev =>
    have hn := build_training_ok x d colsRev hb
    refine ⟨hn, ?_⟩
    have hcl := build_training_closed x d hn
    have hno := norms_eq (Poly.training x) (fun k => x.map (recPoly (aT x) (nT x) k)) (nT x) (d + 1) 0
      (fun k _ _ => by rw [← pf_eq_recPoly]; exact training_norm x k _)
    rw [hcl] at h
    simp only [colsRev_reverse, hno] at h
    cases hq : Poly.normalise sqrt ((List.range' 0 (d + 1)).map (fun k => x.map (recPoly (aT x) (nT x) k)))
        ((List.range' 0 (d + 1)).map (nT x)) with
    | error e => rw [hq] at h; cases h
    | ok q' =>
      intro k hk
      apply normalise_ok sqrt _ _ q' hq
      exact List.mem_map.mpr ⟨k, List.mem_range'_1.mpr ⟨by omega, by omega⟩, rfl⟩
end


end FormulaicVerif.Proofs.C13
