import FormulaicVerif.Proofs.C13Poly
import Mathlib.Algebra.Polynomial.Monic
import Mathlib.Algebra.Polynomial.Eval.Defs
import Mathlib.Algebra.Polynomial.Degree.Lemmas
import Mathlib.RingTheory.Polynomial.Basic
import Mathlib.LinearAlgebra.Pi
import Mathlib.Algebra.Polynomial.Eval.SMul

/-! The three-term-recurrence polynomials are monic of degree `k`; hence their value vectors span
the same space as the raw powers (triangular change of basis). -/
namespace FormulaicVerif.Proofs.C13
open Polynomial
variable {α : Type} [Field α]

/-- the recurrence as polynomials -/
noncomputable def recPolyP (a n : ℕ → α) : ℕ → α[X]
  | 0 => 1
  | 1 => (X - C (a 0)) * 1
  | k + 2 => (X - C (a (k + 1))) * recPolyP a n (k + 1) - C (n (k + 1) / n k) * recPolyP a n k

theorem recPoly_eq_eval (a n : ℕ → α) : ∀ k t, recPoly a n k t = (recPolyP a n k).eval t
  | 0, t => by simp [recPoly, recPolyP]
  | 1, t => by simp [recPoly, recPolyP]
  | k + 2, t => by
    simp [recPoly, recPolyP, recPoly_eq_eval a n (k + 1) t, recPoly_eq_eval a n k t]

theorem recPolyP_monic_degree (a n : ℕ → α) : ∀ k, (recPolyP a n k).Monic ∧ (recPolyP a n k).natDegree = k
  | 0 => by simp [recPolyP]
  | 1 => by
    simp only [recPolyP, mul_one]
    exact ⟨monic_X_sub_C _, natDegree_X_sub_C _⟩
  | k + 2 => by
    obtain ⟨m1, d1⟩ := recPolyP_monic_degree a n (k + 1)
    obtain ⟨m0, d0⟩ := recPolyP_monic_degree a n k
    have hm : ((X - C (a (k + 1))) * recPolyP a n (k + 1)).Monic := (monic_X_sub_C _).mul m1
    have hd : ((X - C (a (k + 1))) * recPolyP a n (k + 1)).natDegree = k + 2 := by
      rw [(monic_X_sub_C _).natDegree_mul m1, natDegree_X_sub_C, d1]; ring
    have hnd : (C (n (k + 1) / n k) * recPolyP a n k).natDegree
        < ((X - C (a (k + 1))) * recPolyP a n (k + 1)).natDegree := by
      rw [hd]
      have := natDegree_C_mul_le (n (k + 1) / n k) (recPolyP a n k)
      omega
    refine ⟨hm.sub_of_left (degree_lt_degree hnd), ?_⟩
    simp only [recPolyP]
    rw [natDegree_sub_eq_left_of_natDegree_lt hnd, hd]

/-- a family of monic polynomials with `natDegree (q k) = k` spans, up to index `d`, exactly the
polynomials of degree `< d` (triangular change of basis from the monomials) -/
theorem span_monic_eq_degreeLT (q : ℕ → α[X]) (hq : ∀ k, (q k).Monic ∧ (q k).natDegree = k) (d : ℕ) :
    Submodule.span α (q '' {k | k < d}) = degreeLT α d := by
  induction d with
  | zero =>
    have : {k : ℕ | k < 0} = ∅ := by ext; simp
    rw [this, Set.image_empty, Submodule.span_empty]
    ext p
    simp [mem_degreeLT]
  | succ d ih =>
    apply le_antisymm
    · rw [Submodule.span_le]
      rintro _ ⟨k, hk, rfl⟩
      have hk' : k < d + 1 := hk
      rw [SetLike.mem_coe, mem_degreeLT, degree_eq_natDegree (hq k).1.ne_zero, (hq k).2]
      exact_mod_cast hk'
    · intro p hp
      rw [mem_degreeLT] at hp
      have hr : p - C (p.coeff d) * q d ∈ degreeLT α d := by
        rw [mem_degreeLT, degree_lt_iff_coeff_zero]
        intro m hm
        rw [coeff_sub, coeff_C_mul]
        rcases Nat.eq_or_lt_of_le hm with rfl | hlt
        · have : (q d).coeff d = 1 := by
            have := (hq d).1
            rwa [Monic, leadingCoeff, (hq d).2] at this
          rw [this]; ring
        · have h1 : p.coeff m = 0 := by
            apply coeff_eq_zero_of_degree_lt
            calc p.degree < ((d + 1 : ℕ) : WithBot ℕ) := hp
              _ ≤ (m : WithBot ℕ) := by exact_mod_cast hlt
          have h2 : (q d).coeff m = 0 := coeff_eq_zero_of_natDegree_lt (by rw [(hq d).2]; exact hlt)
          rw [h1, h2]; ring
      rw [← ih] at hr
      have hmono : Submodule.span α (q '' {k | k < d}) ≤ Submodule.span α (q '' {k | k < d + 1}) :=
        Submodule.span_mono (Set.image_mono (fun k (hk : k < d) => (Nat.lt_succ_of_lt hk : k < d + 1)))
      have hqd : C (p.coeff d) * q d ∈ Submodule.span α (q '' {k | k < d + 1}) := by
        rw [← smul_eq_C_mul]
        exact Submodule.smul_mem _ _ (Submodule.subset_span ⟨d, Nat.lt_succ_self d, rfl⟩)
      have := Submodule.add_mem _ (hmono hr) hqd
      simpa using this

/-- evaluation at the points `x i`, as a linear map -/
noncomputable def evalAt {ι : Type} (x : ι → α) : α[X] →ₗ[α] (ι → α) :=
  LinearMap.pi (fun i => Polynomial.leval (x i))

/-- the vectors of values of a monic degree-graded family span the same space as the vectors of
raw powers -/
theorem span_eval_eq {ι : Type} (x : ι → α) (q : ℕ → α[X])
    (hq : ∀ k, (q k).Monic ∧ (q k).natDegree = k) (d : ℕ) :
    Submodule.span α ((fun k => fun i => (q k).eval (x i)) '' {k | k < d}) =
      Submodule.span α ((fun k => fun i => x i ^ k) '' {k | k < d}) := by
  have key : ∀ (r : ℕ → α[X]), (∀ k, (r k).Monic ∧ (r k).natDegree = k) →
      Submodule.span α ((fun k => fun i => (r k).eval (x i)) '' {k | k < d})
        = Submodule.map (evalAt x) (degreeLT α d) := by
    intro r hr
    rw [← span_monic_eq_degreeLT r hr d, Submodule.map_span, ← Set.image_comp]
    congr 1
  rw [key q hq, ← key (fun k => X ^ k) (fun k => ⟨monic_X_pow k, natDegree_X_pow k⟩)]
  simp
end FormulaicVerif.Proofs.C13
