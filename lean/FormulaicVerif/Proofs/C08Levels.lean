import FormulaicVerif.Model.PyLevels
import FormulaicVerif.Proofs.C08
import Mathlib.Algebra.Order.Ring.Rat
import Mathlib.Data.String.Basic
/-! Helper lemmas for C08 on `Model/PyLevels.lean`: Python equality is equality of keys, the
comparison sort fails exactly on a list Python cannot order and otherwise returns a sorted
permutation, the first-seen distinct values, the codes of `pandas.Categorical`. -/
namespace FormulaicVerif.Proofs.C08Levels
open FormulaicVerif.Model.PyLevels

/-! ### keys -/

theorem pyEq_iff {a b : PyVal} : pyEq a b = true ↔ a.key = b.key := by simp [pyEq]

theorem pyEq_false_iff {a b : PyVal} : pyEq a b = false ↔ a.key ≠ b.key := by simp [pyEq]

/-- 0 = text, 1 = bytes, 2 = number: `<` is defined exactly inside a class -/
def kcls : Key → Nat
  | .str _ => 0
  | .bytes _ => 1
  | .num _ => 2

def cls (v : PyVal) : Nat := kcls v.key

theorem isStr_iff_cls (v : PyVal) : v.isStr = true ↔ cls v = 0 := by
  cases v <;> simp [PyVal.isStr, cls, kcls, PyVal.key]

theorem lt?_none_iff (a b : Key) : Key.lt? a b = none ↔ kcls a ≠ kcls b := by
  cases a <;> cases b <;> simp [Key.lt?, kcls]

theorem pyLt_none_iff (a b : PyVal) : pyLt a b = none ↔ cls a ≠ cls b := lt?_none_iff _ _

/-- strict order on keys (inside a class) -/
def KLt (a b : Key) : Prop := Key.lt? a b = some true

theorem klt_cls {a b : Key} (h : KLt a b) : kcls a = kcls b := by
  cases a <;> cases b <;> simp_all [KLt, Key.lt?, kcls]

theorem klt_trans {a b c : Key} (h1 : KLt a b) (h2 : KLt b c) : KLt a c := by
  cases a <;> cases b <;> cases c <;>
    simp only [KLt, Key.lt?, Option.some.injEq, decide_eq_true_eq, reduceCtorEq] at h1 h2 ⊢ <;>
    exact lt_trans h1 h2

theorem klt_asymm {a b : Key} (h1 : KLt a b) : ¬ KLt b a := by
  cases a <;> cases b <;>
    simp only [KLt, Key.lt?, Option.some.injEq, decide_eq_true_eq, reduceCtorEq] at h1 ⊢ <;>
    exact lt_asymm h1

theorem klt_irrefl (a : Key) : ¬ KLt a a := fun h => klt_asymm h h

theorem klt_tri {a b : Key} (hc : kcls a = kcls b) (h1 : ¬ KLt a b) (h2 : ¬ KLt b a) : a = b := by
  cases a <;> cases b <;>
    simp only [KLt, Key.lt?, Option.some.injEq, decide_eq_true_eq, reduceCtorEq, kcls, Nat.reduceEqDiff] at hc h1 h2 ⊢ <;>
    exact congrArg _ (le_antisymm (not_lt.mp h2) (not_lt.mp h1))

theorem lt?_false_iff (a b : Key) : Key.lt? a b = some false ↔ kcls a = kcls b ∧ ¬ KLt a b := by
  cases a <;> cases b <;> simp [Key.lt?, kcls, KLt]

/-- `a < b` in Python -/
def PLt (a b : PyVal) : Prop := pyLt a b = some true
/-- `b < a` is `False` in Python (so `a ≤ b` inside a class) -/
def PLe (a b : PyVal) : Prop := pyLt b a = some false

theorem ple_cls {a b : PyVal} (h : PLe a b) : cls a = cls b := ((lt?_false_iff _ _).mp h).1.symm

theorem plt_ple {a b : PyVal} (h : PLt a b) : PLe a b :=
  (lt?_false_iff _ _).mpr ⟨(klt_cls h).symm, klt_asymm h⟩

theorem plt_ple_trans {x y z : PyVal} (h1 : PLt x y) (h2 : PLe y z) : PLe x z := by
  have h2' := (lt?_false_iff _ _).mp h2
  refine (lt?_false_iff _ _).mpr ⟨by rw [h2'.1, (klt_cls h1)], ?_⟩
  intro hzx
  exact h2'.2 (klt_trans hzx h1)

theorem ple_ne_plt {a b : PyVal} (h : PLe a b) (hne : a.key ≠ b.key) : PLt a b := by
  have h' := (lt?_false_iff _ _).mp h
  apply Classical.byContradiction
  intro hn
  exact hne (klt_tri h'.1.symm hn h'.2)

/-! ### the comparison sort -/

theorem insertE_perm {x : PyVal} : ∀ {l s : List PyVal}, insertE x l = some s → s.Perm (x :: l)
  | [], s, h => by
    simp only [insertE, Option.some.injEq] at h
    subst h; exact List.Perm.refl _
  | y :: r, s, h => by
    simp only [insertE] at h
    cases hxy : pyLt x y with
    | none => simp [hxy] at h
    | some b =>
      cases b with
      | true =>
        simp only [hxy, Option.some.injEq] at h
        subst h; exact List.Perm.refl _
      | false =>
        simp only [hxy] at h
        cases hr : insertE x r with
        | none => simp [hr] at h
        | some l =>
          simp only [hr, Option.some.injEq] at h
          subst h
          exact ((insertE_perm hr).cons y).trans (List.Perm.swap x y r)

theorem insertE_sorted {x : PyVal} : ∀ {l s : List PyVal}, l.Pairwise PLe → insertE x l = some s → s.Pairwise PLe
  | [], s, _, h => by
    simp only [insertE, Option.some.injEq] at h
    subst h; simp
  | y :: r, s, hl, h => by
    rw [List.pairwise_cons] at hl
    simp only [insertE] at h
    cases hxy : pyLt x y with
    | none => simp [hxy] at h
    | some b =>
      cases b with
      | true =>
        simp only [hxy, Option.some.injEq] at h
        subst h
        rw [List.pairwise_cons]
        refine ⟨?_, List.pairwise_cons.mpr hl⟩
        intro z hz
        rcases List.mem_cons.mp hz with rfl | hz
        · exact plt_ple hxy
        · exact plt_ple_trans hxy (hl.1 z hz)
      | false =>
        simp only [hxy] at h
        cases hr : insertE x r with
        | none => simp [hr] at h
        | some l =>
          simp only [hr, Option.some.injEq] at h
          subst h
          rw [List.pairwise_cons]
          refine ⟨?_, insertE_sorted hl.2 hr⟩
          intro z hz
          rcases List.mem_cons.mp ((insertE_perm hr).mem_iff.mp hz) with rfl | hz
          · exact hxy
          · exact hl.1 z hz

theorem insertE_isSome {x : PyVal} : ∀ {l : List PyVal}, (∀ y ∈ l, cls y = cls x) → ∃ s, insertE x l = some s
  | [], _ => ⟨[x], rfl⟩
  | y :: r, hl => by
    have hy : cls x = cls y := (hl y List.mem_cons_self).symm
    simp only [insertE]
    cases hxy : pyLt x y with
    | none => exact absurd hy ((pyLt_none_iff x y).mp hxy)
    | some b =>
      cases b with
      | true => exact ⟨_, rfl⟩
      | false =>
        obtain ⟨s, hs⟩ := insertE_isSome (l := r) (fun z hz => hl z (List.mem_cons_of_mem _ hz))
        exact ⟨y :: s, by simp [hs]⟩

theorem isortE_perm : ∀ {l s : List PyVal}, isortE l = some s → s.Perm l
  | [], s, h => by
    simp only [isortE, Option.some.injEq] at h
    subst h; exact List.Perm.refl _
  | x :: r, s, h => by
    simp only [isortE] at h
    cases hr : isortE r with
    | none => simp [hr] at h
    | some l =>
      simp only [hr] at h
      exact (insertE_perm h).trans ((isortE_perm hr).cons x)

theorem isortE_sorted : ∀ {l s : List PyVal}, isortE l = some s → s.Pairwise PLe
  | [], s, h => by
    simp only [isortE, Option.some.injEq] at h
    subst h; simp
  | x :: r, s, h => by
    simp only [isortE] at h
    cases hr : isortE r with
    | none => simp [hr] at h
    | some l =>
      simp only [hr] at h
      exact insertE_sorted (isortE_sorted hr) h

/-- all values belong to one class (Python can order the list) -/
def Homog (l : List PyVal) : Prop := ∀ a ∈ l, ∀ b ∈ l, cls a = cls b

theorem isortE_isSome_iff : ∀ (l : List PyVal), (∃ s, isortE l = some s) ↔ Homog l
  | [] => by
    constructor
    · intro _ a ha; cases ha
    · intro _; exact ⟨[], rfl⟩
  | x :: r => by
    constructor
    · rintro ⟨s, h⟩
      simp only [isortE] at h
      cases hr : isortE r with
      | none => simp [hr] at h
      | some l =>
        simp only [hr] at h
        have hH : Homog r := (isortE_isSome_iff r).mp ⟨l, hr⟩
        have hp := isortE_perm hr
        -- every member of r has the class of x
        have hx : ∀ y ∈ r, cls y = cls x := by
          intro y hy
          cases l with
          | nil => exact absurd (hp.symm.mem_iff.mp hy) (by simp)
          | cons z t =>
            have hz : z ∈ r := hp.mem_iff.mp List.mem_cons_self
            have hxz : cls x = cls z := by
              apply Classical.byContradiction
              intro hne
              have := (pyLt_none_iff x z).mpr hne
              simp [insertE, this] at h
            rw [hxz]; exact hH y hy z hz
        have hall : ∀ y ∈ x :: r, cls y = cls x := by
          intro y hy
          rcases List.mem_cons.mp hy with e | hy
          · rw [e]
          · exact hx y hy
        intro a ha b hb
        rw [hall a ha, hall b hb]
    · intro hH
      have hHr : Homog r := fun a ha b hb => hH a (List.mem_cons_of_mem _ ha) b (List.mem_cons_of_mem _ hb)
      obtain ⟨l, hl⟩ := (isortE_isSome_iff r).mpr hHr
      have hp := isortE_perm hl
      obtain ⟨s, hs⟩ := insertE_isSome (x := x) (l := l)
        (fun y hy => hH y (List.mem_cons_of_mem _ (hp.mem_iff.mp hy)) x List.mem_cons_self)
      exact ⟨s, by simp [isortE, hl, hs]⟩

theorem isortE_none_iff (l : List PyVal) : isortE l = none ↔ ∃ a ∈ l, ∃ b ∈ l, pyLt a b = none := by
  constructor
  · intro h
    apply Classical.byContradiction
    intro hn
    have hH : Homog l := by
      intro a ha b hb
      apply Classical.byContradiction
      intro hne
      exact hn ⟨a, ha, b, hb, (pyLt_none_iff a b).mpr hne⟩
    obtain ⟨s, hs⟩ := (isortE_isSome_iff l).mpr hH
    rw [h] at hs; cases hs
  · rintro ⟨a, ha, b, hb, hab⟩
    cases h : isortE l with
    | none => rfl
    | some s =>
      exact absurd ((isortE_isSome_iff l).mp ⟨s, h⟩ a ha b hb) ((pyLt_none_iff a b).mp hab)

/-! ### first-seen distinct values -/

theorem uniq_sublist : ∀ (l : List PyVal), (uniq l).Sublist l
  | [] => List.Sublist.slnil
  | x :: r => by
    simp only [uniq]
    exact ((List.filter_sublist).trans (uniq_sublist r)).cons_cons x

theorem mem_uniq_sub {x : PyVal} {l : List PyVal} (h : x ∈ uniq l) : x ∈ l := (uniq_sublist l).subset h

theorem uniq_cover : ∀ {l : List PyVal} {x : PyVal}, x ∈ l → ∃ y ∈ uniq l, y.key = x.key
  | z :: r, x, h => by
    rcases List.mem_cons.mp h with rfl | h
    · exact ⟨x, by simp [uniq], rfl⟩
    · obtain ⟨y, hy, hk⟩ := uniq_cover h
      by_cases hzy : z.key = y.key
      · exact ⟨z, by simp [uniq], hzy.trans hk⟩
      · refine ⟨y, ?_, hk⟩
        simp only [uniq, List.mem_cons, List.mem_filter]
        exact Or.inr ⟨hy, by simp [pyEq, hzy]⟩

theorem uniq_pairwise : ∀ (l : List PyVal), (uniq l).Pairwise (fun a b => a.key ≠ b.key)
  | [] => List.Pairwise.nil
  | x :: r => by
    simp only [uniq]
    rw [List.pairwise_cons]
    refine ⟨?_, (uniq_pairwise r).sublist List.filter_sublist⟩
    intro y hy
    simp only [List.mem_filter] at hy
    simpa [pyEq] using hy.2

/-- a value is a first-seen representative iff one of its occurrences has no equal value before it -/
theorem mem_uniq_iff {y : PyVal} : ∀ {l : List PyVal},
    y ∈ uniq l ↔ ∃ a b, l = a ++ y :: b ∧ ∀ z ∈ a, z.key ≠ y.key
  | [] => by simp [uniq]
  | x :: r => by
    constructor
    · intro h
      simp only [uniq, List.mem_cons, List.mem_filter] at h
      rcases h with rfl | ⟨hy, hxy⟩
      · exact ⟨[], r, rfl, fun z hz => by cases hz⟩
      · obtain ⟨a, b, rfl, ha⟩ := (mem_uniq_iff (l := r)).mp hy
        refine ⟨x :: a, b, rfl, ?_⟩
        intro z hz
        rcases List.mem_cons.mp hz with rfl | hz
        · simpa [pyEq] using hxy
        · exact ha z hz
    · rintro ⟨a, b, hl, ha⟩
      cases a with
      | nil =>
        simp only [List.nil_append, List.cons.injEq] at hl
        rw [hl.1]; simp [uniq]
      | cons z a' =>
        simp only [List.cons_append, List.cons.injEq] at hl
        obtain ⟨rfl, rfl⟩ := hl
        simp only [uniq, List.mem_cons, List.mem_filter]
        refine Or.inr ⟨(mem_uniq_iff (l := a' ++ y :: b)).mpr ⟨a', b, rfl, fun w hw => ha w (List.mem_cons_of_mem _ hw)⟩, ?_⟩
        have := ha x List.mem_cons_self
        simp [pyEq, this]

/-! ### `sortMixed`, `inferLevels` -/

theorem homog_filter_str (u : List PyVal) : Homog (u.filter (fun v => v.isStr)) := by
  intro a ha b hb
  simp only [List.mem_filter] at ha hb
  rw [(isStr_iff_cls a).mp ha.2, (isStr_iff_cls b).mp hb.2]

theorem sortMixed_perm {u l : List PyVal} (h : sortMixed u = some l) : l.Perm u := by
  unfold sortMixed at h
  cases h1 : isortE u with
  | some s =>
    simp only [h1, Option.some.injEq] at h
    subst h; exact isortE_perm h1
  | none =>
    simp only [h1] at h
    cases h2 : isortE (u.filter (fun v => !v.isStr)) with
    | none => simp [h2] at h
    | some a =>
      cases h3 : isortE (u.filter (fun v => v.isStr)) with
      | none => simp [h2, h3] at h
      | some b =>
        simp only [h2, h3, Option.some.injEq] at h
        subst h
        have := List.filter_append_perm (fun v : PyVal => v.isStr) u
        exact ((isortE_perm h2).append (isortE_perm h3)).trans
          (List.perm_append_comm.trans this)

theorem inferLevels_perm (vals : List (Option PyVal)) : (inferLevels vals).Perm (uniques vals) := by
  unfold inferLevels
  cases h : sortMixed (uniques vals) with
  | some l => exact sortMixed_perm h
  | none => exact List.Perm.refl _

theorem inferLevels_pairwise (vals : List (Option PyVal)) :
    (inferLevels vals).Pairwise (fun a b => a.key ≠ b.key) :=
  ((inferLevels_perm vals).pairwise_iff (fun {a b} (h : a.key ≠ b.key) => Ne.symm h)).mpr (uniq_pairwise _)

theorem mem_inferLevels {vals : List (Option PyVal)} {l : PyVal} (h : l ∈ inferLevels vals) : some l ∈ vals := by
  have := mem_uniq_sub ((inferLevels_perm vals).mem_iff.mp h)
  simpa [List.mem_filterMap] using this

theorem inferLevels_cover {vals : List (Option PyVal)} {v : PyVal} (h : some v ∈ vals) :
    ∃ l ∈ inferLevels vals, l.key = v.key := by
  have hv : v ∈ vals.filterMap id := by simpa [List.mem_filterMap] using h
  obtain ⟨y, hy, hk⟩ := uniq_cover hv
  exact ⟨y, (inferLevels_perm vals).mem_iff.mpr hy, hk⟩

/-- the list holds a number and a bytes object: the only pair of non-text values Python cannot order -/
def MixedNumBytes (u : List PyVal) : Prop := ∃ a ∈ u, ∃ b ∈ u, cls a = 2 ∧ cls b = 1

theorem homog_nonstr_iff (u : List PyVal) : Homog (u.filter (fun v => !v.isStr)) ↔ ¬ MixedNumBytes u := by
  constructor
  · rintro hH ⟨a, ha, b, hb, hca, hcb⟩
    have ha' : a ∈ u.filter (fun v => !v.isStr) := by
      simp only [List.mem_filter, Bool.not_eq_true', ha, true_and]
      cases hs : a.isStr with
      | false => rfl
      | true => rw [(isStr_iff_cls a).mp hs] at hca; cases hca
    have hb' : b ∈ u.filter (fun v => !v.isStr) := by
      simp only [List.mem_filter, Bool.not_eq_true', hb, true_and]
      cases hs : b.isStr with
      | false => rfl
      | true => rw [(isStr_iff_cls b).mp hs] at hcb; cases hcb
    have := hH a ha' b hb'
    rw [hca, hcb] at this; cases this
  · intro hn a ha b hb
    simp only [List.mem_filter, Bool.not_eq_true'] at ha hb
    have hca : cls a ≠ 0 := fun h => by rw [(isStr_iff_cls a).mpr h] at ha; cases ha.2
    have hcb : cls b ≠ 0 := fun h => by rw [(isStr_iff_cls b).mpr h] at hb; cases hb.2
    have h3 : ∀ v : PyVal, cls v = 0 ∨ cls v = 1 ∨ cls v = 2 := by
      intro v; cases v <;> simp [cls, kcls, PyVal.key]
    rcases h3 a with h | h | h
    · exact absurd h hca
    · rcases h3 b with h' | h' | h'
      · exact absurd h' hcb
      · rw [h, h']
      · exact absurd ⟨b, hb.1, a, ha.1, h', h⟩ hn
    · rcases h3 b with h' | h' | h'
      · exact absurd h' hcb
      · exact absurd ⟨a, ha.1, b, hb.1, h, h'⟩ hn
      · rw [h, h']

theorem sortMixed_none_iff (u : List PyVal) : sortMixed u = none ↔ MixedNumBytes u := by
  unfold sortMixed
  obtain ⟨b, hb⟩ := (isortE_isSome_iff _).mpr (homog_filter_str u)
  cases h1 : isortE u with
  | some s =>
    simp only [reduceCtorEq, false_iff]
    have hH := (isortE_isSome_iff u).mp ⟨s, h1⟩
    rintro ⟨a, ha, c, hc, hca, hcc⟩
    have := hH a ha c hc
    rw [hca, hcc] at this; cases this
  | none =>
    simp only
    cases h2 : isortE (u.filter (fun v => !v.isStr)) with
    | none =>
      simp only [true_iff]
      apply Classical.byContradiction
      intro hn
      obtain ⟨s, hs⟩ := (isortE_isSome_iff _).mpr ((homog_nonstr_iff u).mpr hn)
      rw [h2] at hs; cases hs
    | some a =>
      simp only [hb, reduceCtorEq, false_iff]
      exact (homog_nonstr_iff u).mp ((isortE_isSome_iff _).mp ⟨a, h2⟩)

/-- when Python can sort: the non-text values sorted, then the text values sorted -/
theorem sortMixed_some {u l : List PyVal} (h : sortMixed u = some l) :
    ∃ a b, isortE (u.filter (fun v => !v.isStr)) = some a ∧ isortE (u.filter (fun v => v.isStr)) = some b ∧ l = a ++ b := by
  unfold sortMixed at h
  cases h1 : isortE u with
  | none =>
    simp only [h1] at h
    cases h2 : isortE (u.filter (fun v => !v.isStr)) with
    | none => simp [h2] at h
    | some a =>
      cases h3 : isortE (u.filter (fun v => v.isStr)) with
      | none => simp [h2, h3] at h
      | some b =>
        simp only [h2, h3, Option.some.injEq] at h
        exact ⟨a, b, rfl, rfl, h.symm⟩
  | some s =>
    simp only [h1, Option.some.injEq] at h
    subst h
    have hH := (isortE_isSome_iff u).mp ⟨s, h1⟩
    by_cases hall : ∀ v ∈ u, v.isStr = true
    · have e1 : u.filter (fun v => v.isStr) = u := List.filter_eq_self.mpr hall
      have e2 : u.filter (fun v => !v.isStr) = [] := by
        rw [List.filter_eq_nil_iff]; intro v hv; simp [hall v hv]
      exact ⟨[], s, by rw [e2]; rfl, by rw [e1]; exact h1, rfl⟩
    · have hnone : ∀ v ∈ u, v.isStr = false := by
        apply Classical.byContradiction
        intro hn
        apply hall
        intro v hv
        apply Classical.byContradiction
        intro hvs
        apply hn
        intro w hw
        cases hws : w.isStr with
        | false => rfl
        | true =>
          have := hH w hw v hv
          rw [(isStr_iff_cls w).mp hws] at this
          exact absurd ((isStr_iff_cls v).mpr this.symm) hvs
      have e1 : u.filter (fun v => v.isStr) = [] := by
        rw [List.filter_eq_nil_iff]; intro v hv; simp [hnone v hv]
      have e2 : u.filter (fun v => !v.isStr) = u := List.filter_eq_self.mpr (fun v hv => by simp [hnone v hv])
      exact ⟨s, [], by rw [e2]; exact h1, by rw [e1]; rfl, by simp⟩

/-- a sorted list of values that are pairwise distinct is strictly increasing -/
theorem strict_of_sorted {l : List PyVal} (h1 : l.Pairwise PLe) (h2 : l.Pairwise (fun a b => a.key ≠ b.key)) :
    l.Pairwise PLt :=
  (h1.and h2).imp (fun h => ple_ne_plt h.1 h.2)

/-! ### codes -/

theorem codeOf_none_iff {v : PyVal} : ∀ {lvls : List PyVal}, codeOf lvls v = none ↔ ∀ l ∈ lvls, l.key ≠ v.key
  | [] => by simp [codeOf]
  | l :: r => by
    simp only [codeOf]
    by_cases h : l.key = v.key
    · simp [pyEq, h]
    · simp only [pyEq, h, decide_false, Bool.false_eq_true, if_false, Option.map_eq_none_iff, List.mem_cons,
        forall_eq_or_imp, ne_eq, not_false_eq_true, true_and]
      exact codeOf_none_iff

theorem codeOf_some {v : PyVal} : ∀ {lvls : List PyVal} {j : Nat}, codeOf lvls v = some j →
    ∃ l, lvls[j]? = some l ∧ l.key = v.key
  | [], j, h => by simp [codeOf] at h
  | l :: r, j, h => by
    simp only [codeOf] at h
    by_cases hk : l.key = v.key
    · simp only [pyEq, hk, decide_true, if_true, Option.some.injEq] at h
      subst h
      exact ⟨l, rfl, hk⟩
    · simp only [pyEq, hk, decide_false, Bool.false_eq_true, if_false, Option.map_eq_some_iff] at h
      obtain ⟨i, hi, rfl⟩ := h
      obtain ⟨l', hl', hk'⟩ := codeOf_some hi
      exact ⟨l', by simpa using hl', hk'⟩

/-- with pairwise distinct levels a value is coded by THE level it equals -/
theorem codeOf_eq {v : PyVal} : ∀ {lvls : List PyVal} {j : Nat} {l : PyVal},
    lvls.Pairwise (fun a b => a.key ≠ b.key) → lvls[j]? = some l → l.key = v.key → codeOf lvls v = some j
  | [], j, l, _, h, _ => by simp at h
  | x :: r, 0, l, _, h, hk => by
    simp only [List.getElem?_cons_zero, Option.some.injEq] at h
    subst h
    simp [codeOf, pyEq, hk]
  | x :: r, j + 1, l, hp, h, hk => by
    rw [List.pairwise_cons] at hp
    simp only [List.getElem?_cons_succ] at h
    have hl : l ∈ r := List.mem_of_getElem? h
    have hx : x.key ≠ v.key := fun e => hp.1 l hl (e.trans hk.symm)
    simp only [codeOf, pyEq, hx, decide_false, Bool.false_eq_true, if_false]
    rw [codeOf_eq hp.2 h hk]; rfl

theorem hasDup_false_iff : ∀ (l : List PyVal), hasDup l = false ↔ l.Pairwise (fun a b => a.key ≠ b.key)
  | [] => by simp [hasDup]
  | x :: r => by
    simp only [hasDup, Bool.or_eq_false_iff, List.pairwise_cons, hasDup_false_iff r]
    constructor
    · rintro ⟨h1, h2⟩
      refine ⟨?_, h2⟩
      intro y hy
      have := List.any_eq_false.mp h1 y hy
      simpa [pyEq] using this
    · rintro ⟨h1, h2⟩
      refine ⟨?_, h2⟩
      rw [List.any_eq_false]
      intro y hy
      simpa [pyEq] using h1 y hy

/-! ### text columns: the levels of `Model/Encode.lean` -/

def strOf : PyVal → Option String
  | .str s => some s
  | _ => none

theorem map_str_of_all_str : ∀ {l : List PyVal}, (∀ x ∈ l, ∃ s, x = PyVal.str s) → l = (l.filterMap strOf).map PyVal.str
  | [], _ => rfl
  | x :: r, h => by
    obtain ⟨s, rfl⟩ := h x List.mem_cons_self
    simp only [List.filterMap_cons, strOf, List.map_cons, List.cons.injEq, true_and]
    exact map_str_of_all_str (fun y hy => h y (List.mem_cons_of_mem _ hy))

theorem plt_str {s t : String} : PLt (.str s) (.str t) ↔ s < t := by
  simp [PLt, pyLt, PyVal.key, Key.lt?]

/-- for a column of text the inferred levels are the levels of `Model/Encode.lean`: THE strictly
increasing list of the distinct non-null values -/
theorem inferLevels_text (vals : List (Option String)) :
    inferLevels (vals.map (Option.map PyVal.str)) =
      (FormulaicVerif.Model.Encode.levels vals none).map PyVal.str := by
  have hmemV : ∀ x : PyVal, x ∈ (vals.map (Option.map PyVal.str)).filterMap id ↔ ∃ s, x = .str s ∧ some s ∈ vals := by
    intro x
    simp only [List.mem_filterMap, List.mem_map, id]
    constructor
    · rintro ⟨o, ⟨o', ho', rfl⟩, ho⟩
      cases o' with
      | none => simp at ho
      | some s => exact ⟨s, by simpa using ho.symm, ho'⟩
    · rintro ⟨s, rfl, hs⟩
      exact ⟨some (.str s), ⟨some s, hs, rfl⟩, rfl⟩
  have hu_str : ∀ x ∈ uniques (vals.map (Option.map PyVal.str)), ∃ s, x = PyVal.str s := by
    intro x hx
    obtain ⟨s, hs, _⟩ := (hmemV x).mp (mem_uniq_sub hx)
    exact ⟨s, hs⟩
  have hH : Homog (uniques (vals.map (Option.map PyVal.str))) := by
    intro a ha b hb
    obtain ⟨s, rfl⟩ := hu_str a ha
    obtain ⟨t, rfl⟩ := hu_str b hb
    rfl
  obtain ⟨l, hl⟩ := (isortE_isSome_iff _).mpr hH
  have hinf : inferLevels (vals.map (Option.map PyVal.str)) = l := by
    simp [inferLevels, sortMixed, hl]
  rw [hinf]
  have hp := isortE_perm hl
  have hl_str : ∀ x ∈ l, ∃ s, x = PyVal.str s := fun x hx => hu_str x (hp.mem_iff.mp hx)
  have hstrict : l.Pairwise PLt :=
    strict_of_sorted (isortE_sorted hl)
      ((hp.pairwise_iff (fun {a b} (h : a.key ≠ b.key) => Ne.symm h)).mpr (uniq_pairwise _))
  rw [map_str_of_all_str hl_str] at hstrict ⊢
  congr 1
  have hss : (l.filterMap strOf).Pairwise (· < ·) := by
    rw [List.pairwise_map] at hstrict
    exact hstrict.imp (fun h => plt_str.mp h)
  have hmem : ∀ s, s ∈ l.filterMap strOf ↔ some s ∈ vals := by
    intro s
    have h1 : s ∈ l.filterMap strOf ↔ PyVal.str s ∈ l := by
      simp only [List.mem_filterMap]
      constructor
      · rintro ⟨x, hx, hxs⟩
        cases x <;> simp [strOf] at hxs
        subst hxs; exact hx
      · intro h; exact ⟨.str s, h, rfl⟩
    rw [h1, hp.mem_iff]
    constructor
    · intro h
      obtain ⟨t, ht, hv⟩ := (hmemV _).mp (mem_uniq_sub h)
      cases ht; exact hv
    · intro h
      obtain ⟨y, hy, hk⟩ := uniq_cover ((hmemV (.str s)).mpr ⟨s, rfl, h⟩)
      obtain ⟨t, rfl⟩ := hu_str y hy
      simp only [PyVal.key, Key.str.injEq] at hk
      subst hk; exact hy
  apply FormulaicVerif.Proofs.C08.sorted_unique _ _ hss (FormulaicVerif.Proofs.C08.sortDedup_sorted _)
  intro x
  rw [hmem x]
  show _ ↔ x ∈ FormulaicVerif.Model.Encode.sortDedup (vals.filterMap id)
  rw [FormulaicVerif.Proofs.C08.mem_sortDedup, FormulaicVerif.Proofs.C08.mem_filterMap_id]

end FormulaicVerif.Proofs.C08Levels
