import FormulaicVerif.Proofs.C18XWf
import FormulaicVerif.Model.HeapDot
/-! Helper lemmas for C18: building a spec given as a STRING (parsed by the build itself into new formula
objects) gives the outcome of building the parsed formulas in the empty world. -/
namespace FormulaicVerif.Proofs.C18X
open FormulaicVerif.Model.Heap FormulaicVerif.Model.HeapX FormulaicVerif.Spec.Purity
open FormulaicVerif.Spec.PurityX FormulaicVerif.Proofs.C18

variable {F E : Type} (P : Params F E)

theorem xpfinal_append : ∀ (h1 h2 : List XOp) (env : XEnv F E),
    xpfinal P env (h1 ++ h2) = xpfinal P (xpfinal P env h1) h2 := by
  intro h1
  induction h1 with
  | nil => intro h2 env; rfl
  | cons op ops ih => intro h2 env; exact ih h2 _

/-- `Formula(...)` for each parsed part: the objects are appended, nothing else changes -/
theorem xpfinal_formulas : ∀ (fs : List Formula) (env : XEnv F E),
    xpfinal P env (fs.map XOp.formula) = ⟨env.forms ++ fs, env.specs, env.fref⟩ := by
  intro fs
  induction fs with
  | nil => intro env; simp [xpfinal]
  | cons f fs ih =>
    intro env
    simp only [List.map_cons, xpfinal, xpstep]
    rw [ih]
    simp

theorem derefAll_range : ∀ (fs forms : List Formula),
    derefAll (forms ++ fs) (List.range' forms.length fs.length) = some fs := by
  intro fs
  induction fs with
  | nil => intro forms; rfl
  | cons f fs ih =>
    intro forms
    have h := ih (forms ++ [f])
    simp only [List.append_assoc, List.singleton_append, List.length_append, List.length_singleton] at h
    simp only [List.length_cons, List.range'_succ, derefAll, h]
    simp

/-- the outcome of a build does not look at the environment at all (it names no spec) -/
theorem pstep_build_env (env env' : List (PSpec F E)) (fs : List Formula) (cfg : Cfg) (d : Data) :
    (pstep P env (.build fs cfg d)).2 = (pstep P env' (.build fs cfg d)).2 :=
  pstep_out_congr P env env' (.build fs cfg d) (fun i hi => by simp [handlesOf] at hi)

theorem xpstep_string_build (env : XEnv F E) (fs : List Formula) (cfg : Cfg) (d : Data) :
    (xpstep P (xpfinal P env (fs.map XOp.formula))
        (.build (List.range' env.forms.length fs.length) cfg d)).2
      = liftOut (pstep P [] (.build fs cfg d)).2 := by
  rw [xpfinal_formulas]
  simp only [xpstep, derefAll_range]
  rw [pgrow_snd]
  congr 1
  exact pstep_build_env P _ _ fs cfg d

end FormulaicVerif.Proofs.C18X
