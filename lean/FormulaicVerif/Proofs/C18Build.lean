import FormulaicVerif.Proofs.C18Enc
/-! Helper lemmas for C18: step 3 (building every prepared spec, with the shared encoded-cache)
on pairwise distinct encoder cells computes the value-level fold. -/
namespace FormulaicVerif.Proofs.C18
open FormulaicVerif.Model.Heap FormulaicVerif.Spec.Purity

variable {F E : Type}

def absL (w : World F E) (l : List (Part F E × Spec E)) : List (Part F E × PSpec F E) :=
  l.map fun x => (x.1, absS w x.2)

def absR (w : World F E) : Except Err (List (Part F E × Spec E)) → Except Err (List (Part F E × PSpec F E))
  | .error e => .error e
  | .ok l => .ok (absL w l)

theorem absS_recorded (w : World F E) (p : Spec E) : (absS w p).recorded = Spec.recorded p := rfl
theorem absS_termsToBuild (w : World F E) (p : Spec E) (d : Data) :
    (absS w p).termsToBuild d = Spec.termsToBuild p d := rfl

theorem absS_setE_ne (w : World F E) (s : Spec E) {r : Nat} (h : s.e ≠ r) (v : Dict E) :
    absS (w.setE r v) s = absS w s := by
  simp [absS, setE_ecells_ne w h]

theorem absL_setE (w : World F E) (l : List (Part F E × Spec E)) (r : Nat) (v : Dict E)
    (h : ∀ x ∈ l, x.2.e ≠ r) : absL (w.setE r v) l = absL w l := by
  unfold absL
  apply List.map_congr_left
  intro x hx
  rw [absS_setE_ne w x.2 (h x hx)]

@[simp] theorem absS_formula (w : World F E) (p : Spec E) : (absS w p).formula = p.formula := rfl
@[simp] theorem absS_cfg (w : World F E) (p : Spec E) : (absS w p).cfg = p.cfg := rfl
@[simp] theorem absS_struct (w : World F E) (p : Spec E) : (absS w p).struct = p.struct := rfl
@[simp] theorem absS_t (w : World F E) (p : Spec E) : (absS w p).t = w.tcells p.t := rfl
@[simp] theorem absS_e (w : World F E) (p : Spec E) : (absS w p).e = w.ecells p.e := rfl

theorem absL_snoc (w : World F E) (acc : List (Part F E × Spec E)) (pt : Part F E) (s : Spec E) (v : Dict E)
    (h : ∀ x ∈ acc, x.2.e ≠ s.e) :
    absL (w.setE s.e v) (acc ++ [(pt, s)])
      = absL w acc ++ [(pt, ⟨s.formula, s.cfg, s.struct, w.tcells s.t, v⟩)] := by
  have := absL_setE w acc s.e v h
  unfold absL at *
  rw [List.map_append, this]
  simp [absS]

variable (P : Params F E)

/-- one prepared spec: the in-place build equals the value-level build on the spec's value; only the
spec's own encoder cell is written -/
theorem buildOne_sim (d : Data) (kept : List Nat) (cache : Dict (List (String × F)))
    (w : World F E) (ec : Caches E) (res : Except Err (List (Part F E × Spec E))) (p : Spec E)
    (H : ∀ l, res = .ok l → ∀ x ∈ l, x.2.e ≠ p.e) :
    (buildOne P d kept cache (w, ec, res) p).2.1 = (pBuildOne P d kept cache (ec, absR w res) (absS w p)).1
    ∧ absR (buildOne P d kept cache (w, ec, res) p).1 (buildOne P d kept cache (w, ec, res) p).2.2
        = (pBuildOne P d kept cache (ec, absR w res) (absS w p)).2
    ∧ (∃ v, (buildOne P d kept cache (w, ec, res) p).1 = w.setE p.e v)
    ∧ (∀ l, (buildOne P d kept cache (w, ec, res) p).2.2 = .ok l →
        ∃ acc x, res = .ok acc ∧ l = acc ++ [x] ∧ x.2.e = p.e ∧ x.2.t = p.t) := by
  cases res with
  | error e =>
    refine ⟨rfl, rfl, ⟨w.ecells p.e, (setE_self w p.e).symm⟩, ?_⟩
    intro l hl; simp [buildOne] at hl
  | ok acc =>
    have hacc := H acc rfl
    unfold buildOne pBuildOne
    simp only [absR, absS_termsToBuild, absS_recorded, absS_formula, absS_cfg, absS_e, absS_t]
    rw [encodeTerms_lift]
    simp only [proj, lift]
    generalize (Spec.termsToBuild p d).foldl (pEncodeTerm P d kept cache) (w.ecells p.e, ec, Except.ok []) = pr
    obtain ⟨pe, pc, prr⟩ := pr
    cases prr with
    | error e =>
      refine ⟨rfl, rfl, ⟨pe, rfl⟩, ?_⟩
      intro l hl; simp at hl
    | ok cols =>
      simp only
      cases hrec : Spec.recorded p with
      | some s =>
        simp only
        by_cases hf : P.encodingFails ⟨p.formula, p.cfg, d, kept, s.map (·.term), cols, s⟩ = true
        · simp only [hf, if_true]
          refine ⟨(by first | trivial | rfl), (by first | trivial | rfl), ⟨pe, rfl⟩, ?_⟩
          intro l hl; simp at hl
        · simp only [hf, Bool.false_eq_true, if_false]
          refine ⟨(by first | trivial | rfl), ?_, ⟨pe, rfl⟩, ?_⟩
          · show Except.ok (absL (w.setE p.e pe) (acc ++ [(_, (⟨p.formula, p.cfg, some s, p.t, p.e⟩ : Spec E))])) = _
            rw [absL_snoc w acc _ ⟨p.formula, p.cfg, some s, p.t, p.e⟩ pe hacc]
          · intro l hl
            simp only [Except.ok.injEq] at hl
            exact ⟨acc, _, rfl, hl.symm, rfl, rfl⟩
      | none =>
        simp only
        refine ⟨(by first | trivial | rfl), ?_, ⟨pe, rfl⟩, ?_⟩
        · show Except.ok (absL (w.setE p.e pe) (acc ++ [(_, (⟨p.formula, p.cfg, some _, p.t, p.e⟩ : Spec E))])) = _
          rw [absL_snoc w acc _ ⟨p.formula, p.cfg, some _, p.t, p.e⟩ pe hacc]
        · intro l hl
          simp only [Except.ok.injEq] at hl
          exact ⟨acc, _, rfl, hl.symm, rfl, rfl⟩


/-- step 3 over all prepared specs whose encoder cells are pairwise distinct -/
theorem buildAll_sim (d : Data) (kept : List Nat) (cache : Dict (List (String × F))) :
    ∀ (ps : List (Spec E)) (w : World F E) (ec : Caches E) (res : Except Err (List (Part F E × Spec E))),
    (ps.map (·.e)).Nodup →
    (∀ l, res = .ok l → ∀ x ∈ l, ∀ p ∈ ps, x.2.e ≠ p.e) →
    (ps.foldl (buildOne P d kept cache) (w, ec, res)).2.1
        = ((ps.map (absS w)).foldl (pBuildOne P d kept cache) (ec, absR w res)).1
    ∧ absR (ps.foldl (buildOne P d kept cache) (w, ec, res)).1 (ps.foldl (buildOne P d kept cache) (w, ec, res)).2.2
        = ((ps.map (absS w)).foldl (pBuildOne P d kept cache) (ec, absR w res)).2
    ∧ (ps.foldl (buildOne P d kept cache) (w, ec, res)).1.tcells = w.tcells
    ∧ (ps.foldl (buildOne P d kept cache) (w, ec, res)).1.next = w.next
    ∧ (ps.foldl (buildOne P d kept cache) (w, ec, res)).1.specs = w.specs
    ∧ (∀ r, (∀ p ∈ ps, p.e ≠ r) → (ps.foldl (buildOne P d kept cache) (w, ec, res)).1.ecells r = w.ecells r)
    ∧ (∀ l, (ps.foldl (buildOne P d kept cache) (w, ec, res)).2.2 = .ok l →
        ∃ acc rest, res = .ok acc ∧ l = acc ++ rest ∧ rest.map (·.2.e) = ps.map (·.e)
          ∧ rest.map (·.2.t) = ps.map (·.t)) := by
  intro ps
  induction ps with
  | nil =>
    intro w ec res _ _
    refine ⟨rfl, rfl, rfl, rfl, rfl, fun _ _ => rfl, ?_⟩
    intro l hl
    exact ⟨l, [], hl, by simp, rfl, rfl⟩
  | cons p ps ih =>
    intro w ec res hnd hdis
    simp only [List.map_cons, List.nodup_cons] at hnd
    obtain ⟨hp, hnd'⟩ := hnd
    have hpne : ∀ q ∈ ps, q.e ≠ p.e := fun q hq e => hp (e ▸ List.mem_map_of_mem (f := (·.e)) hq)
    obtain ⟨h1, h2, ⟨v, h3⟩, h4⟩ := buildOne_sim P d kept cache w ec res p
      (fun l hl x hx => hdis l hl x hx p (by simp))
    simp only [List.foldl_cons, List.map_cons]
    generalize hst : buildOne P d kept cache (w, ec, res) p = st at h1 h2 h3 h4
    obtain ⟨w1, ec1, res1⟩ := st
    simp only at h1 h2 h3 h4
    subst h3
    have hdis1 : ∀ l, res1 = .ok l → ∀ x ∈ l, ∀ q ∈ ps, x.2.e ≠ q.e := by
      intro l hl x hx q hq
      obtain ⟨acc, x0, hres, hl', hx0, _⟩ := h4 l hl
      subst hl'
      rcases List.mem_append.mp hx with hx | hx
      · exact hdis acc hres x hx q (by simp [hq])
      · simp only [List.mem_singleton] at hx
        subst hx
        rw [hx0]; exact fun e => hpne q hq e.symm
    obtain ⟨i1, i2, i3, i4, i5, i6, i7⟩ := ih (w.setE p.e v) ec1 res1 hnd' hdis1
    have hmap : ps.map (absS (w.setE p.e v)) = ps.map (absS w) := by
      apply List.map_congr_left
      intro q hq
      exact absS_setE_ne w q (hpne q hq) v
    rw [hmap] at i1 i2
    have hp1 : pBuildOne P d kept cache (ec, absR w res) (absS w p) = (ec1, absR (w.setE p.e v) res1) :=
      Prod.ext h1.symm h2.symm
    rw [hp1]
    refine ⟨i1, i2, i3, i4, i5, ?_, ?_⟩
    · intro r hr
      rw [i6 r (fun q hq => hr q (by simp [hq]))]
      exact setE_ecells_ne w (fun e => hr p (by simp) e.symm) v
    · intro l hl
      obtain ⟨acc1, rest, hres1, hl', he, ht⟩ := i7 l hl
      obtain ⟨acc, x0, hres, hacc1, hx0e, hx0t⟩ := h4 acc1 hres1
      refine ⟨acc, x0 :: rest, hres, ?_, ?_, ?_⟩
      · rw [hl', hacc1]; simp
      · simp [he, hx0e]
      · simp [ht, hx0t]

end FormulaicVerif.Proofs.C18
