import FormulaicVerif.Spec.NestedMatrix
import FormulaicVerif.Proofs.C02Columns
/-! Helper lemmas for C02 over path-labelled columns (`Model/NestedMatrix.lean`): the base
`_get_columns_for_term` is the dictionary of the Kronecker entries, and the pandas / narwhals fast
path equals it. The statements and proofs are those of `Proofs/C02Columns.lean` (the structural label
of an item is carried along and never inspected); the generic lemmas on `kron`, `iproduct`,
`reduceMul` and `foldE` are reused from there. Core Lean only. -/
namespace FormulaicVerif.Proofs.C02N
open FormulaicVerif.Model FormulaicVerif.Model.Nest FormulaicVerif.Spec FormulaicVerif.Spec.Nest
open FormulaicVerif.Proofs.C02

/-! ### the base implementation is the dictionary of the Kronecker entries -/

theorem nbaseStep_ok (s : Rat) (out : List NEntry) (rp : List NItem) (h : rp ≠ []) :
    nbaseStep s out rp = .ok (ndictSet out (nentryOf 0 s rp.reverse)) := by
  have hne : rp.reverse ≠ [] := by simpa using h
  unfold nbaseStep nentryOf
  cases hr : rp.reverse with
  | nil => exact absurd hr hne
  | cons x t => simp only [List.map_cons, reduceMul_cons_ne]

theorem ncolumnsBase_nil (s : Rat) : ncolumnsBase [] s = .error .typeError := rfl

theorem ncolumnsBase_eq (fs : List (List NItem)) (s : Rat) (h : fs ≠ []) :
    ncolumnsBase fs s = .ok (ndictOfList ((kron fs).map (nentryOf 0 s))) := by
  unfold ncolumnsBase
  rw [iproduct_eq_kron_reverse]
  rw [foldE_ok (nbaseStep s) (fun out rp => ndictSet out (nentryOf 0 s rp.reverse))]
  · simp only [ndictOfList, ndictUpdate, List.foldl_map, List.reverse_reverse]
  · intro b a ha
    apply nbaseStep_ok
    simp only [List.mem_map] at ha
    obtain ⟨p, hp, rfl⟩ := ha
    have := length_of_mem_kron hp
    intro hnil
    have h0 : p.length = 0 := by simpa using congrArg List.length hnil
    rw [this] at h0
    exact h (List.length_eq_zero_iff.mp h0)

/-- for a non-empty tuple the value does not depend on the row count used for the empty product -/
theorem nentryOf_irrel (n m : Nat) (s : Rat) (p : List NItem) (h : p ≠ []) : nentryOf n s p = nentryOf m s p := by
  cases p with
  | nil => exact absurd rfl h
  | cons x t => rfl

/-! ### the fast path -/

def nisSolo (f : List NItem) : Bool := f.length == 1

/-- the entries of a tuple that belong to the non-solo factors -/
def nnsp : List (List NItem) → List NItem → List NItem
  | f :: fs, x :: p => if nisSolo f then nnsp fs p else x :: nnsp fs p
  | _, _ => []

theorem nkron_filter_nonsolo (fs : List (List NItem)) :
    kron (fs.filter (fun f => !nisSolo f)) = (kron fs).map (nnsp fs) := by
  induction fs with
  | nil => simp [kron, nnsp]
  | cons f r ih =>
    by_cases hs : nisSolo f = true
    · have : ∃ x, f = [x] := by
        simp only [nisSolo, beq_iff_eq] at hs
        match f, hs with
        | [x], _ => exact ⟨x, rfl⟩
      obtain ⟨x, rfl⟩ := this
      simp only [List.filter_cons, hs, Bool.not_true, Bool.false_eq_true, if_false, ih, kron,
        List.map_cons, List.map_nil, List.map_flatMap, nnsp, if_true]
      induction kron r with
      | nil => rfl
      | cons t ts iht => simp [List.flatMap_cons, iht]
    · have hs' : nisSolo f = false := by simpa using hs
      simp only [List.filter_cons, hs', Bool.not_false, if_true, kron, ih, List.flatMap_map,
        List.map_flatMap, List.map_map]
      congr 1
      funext t
      simp [Function.comp_def, nnsp, hs']

theorem nperm_nsp_solo (fs : List (List NItem)) (p : List NItem) (hp : p ∈ kron fs) :
    p.Perm (nnsp fs p ++ nsoloItems fs) := by
  induction fs generalizing p with
  | nil => simp [kron] at hp; subst hp; simp [nnsp, nsoloItems]
  | cons f r ih =>
    obtain ⟨x, hx, t, ht, rfl⟩ := mem_kron_cons.mp hp
    by_cases hs : nisSolo f = true
    · have : f = [x] := by
        simp only [nisSolo, beq_iff_eq] at hs
        match f, hs, hx with
        | [y], _, hx => simp at hx; simp [hx]
      subst this
      have hsl : nsoloItems ([x] :: r) = x :: nsoloItems r := by
        simp [nsoloItems]
      simp only [nnsp, hs, if_true, hsl]
      exact ((ih t ht).cons x).trans List.perm_middle.symm
    · have hs' : nisSolo f = false := by simpa using hs
      have hsl : nsoloItems (f :: r) = nsoloItems r := by
        have : (f.length == 1) = false := hs'
        simp [nsoloItems, this]
      simp only [nnsp, hs', Bool.false_eq_true, if_false, hsl, List.cons_append]
      exact (ih t ht).cons x

theorem nfoldE_fastStep (names : List (String × List NPart)) (s : Rat)
    (l : List (List NItem)) (g : List NItem → List NItem)
    (hg : ∀ p ∈ l, reduceMul ((g p).map (·.col)) = reduceMul (p.map (·.col)))
    (hne : ∀ p ∈ l, p ≠ [])
    (pre : List (String × List NPart)) (acc : List NEntry)
    (hn : names = pre ++ l.map (fun p => (joinColon (p.map (·.name)), p.map (·.part)))) :
    foldE (nfastStep names s) (pre.length, acc) (l.map (fun p => (g p).reverse)) =
      .ok (pre.length + l.length, (l.map (nentryOf 0 s)).foldl ndictSet acc) := by
  induction l generalizing pre acc with
  | nil => simp [foldE]
  | cons p l ih =>
    have hidx : names[pre.length]? = some (joinColon (p.map (·.name)), p.map (·.part)) := by
      rw [hn]; simp
    have hv : reduceMul ((g p).reverse.reverse.map (·.col)) = .ok (colProd 0 (p.map (·.col))) := by
      rw [List.reverse_reverse, hg p (by simp)]
      cases p with
      | nil => exact absurd rfl (hne [] (by simp))
      | cons x t => rfl
    simp only [List.map_cons, foldE, nfastStep, hidx, hv, List.foldl_cons]
    have := ih (fun q hq => hg q (by simp [hq])) (fun q hq => hne q (by simp [hq]))
      (pre ++ [(joinColon (p.map (·.name)), p.map (·.part))])
      (ndictSet acc ⟨joinColon (p.map (·.name)), p.map (·.part), Col.smul s (colProd 0 (p.map (·.col)))⟩)
      (by rw [hn]; simp)
    simp only [List.length_append, List.length_cons, List.length_nil] at this
    rw [this]
    simp [nentryOf, Nat.add_assoc, Nat.add_comm 1]

theorem nfastNames_eq (fs : List (List NItem)) :
    nfastNames fs = (kron fs).map (fun p => (joinColon (p.map (·.name)), p.map (·.part))) := by
  unfold nfastNames
  rw [iproduct_eq_kron_reverse, List.map_map]
  congr 1
  funext p
  simp

/-- C02.2: the pandas / narwhals fast path computes exactly what the base implementation computes -/
theorem ncolumnsFast_eq_base (fs : List (List NItem)) (s : Rat) : ncolumnsFast fs s = ncolumnsBase fs s := by
  by_cases hnil : fs = []
  · subst hnil; rfl
  rw [ncolumnsBase_eq fs s hnil]
  unfold ncolumnsFast
  simp only [nfastNames_eq]
  by_cases hsolo : (nsoloItems fs).isEmpty = true
  · -- no solo factor: same loop, names by index
    simp only [nfastFactors, hsolo, if_true]
    rw [iproduct_eq_kron_reverse]
    have := nfoldE_fastStep ((kron fs).map (fun p => (joinColon (p.map (·.name)), p.map (·.part)))) s
      (kron fs) id (fun _ _ => rfl) (fun p hp => ne_nil_of_mem_kron hnil hp) [] [] (by simp)
    simp only [id, List.length_nil] at this
    rw [this]
    rfl
  · have hsolo' : (nsoloItems fs).isEmpty = false := by simpa using hsolo
    obtain ⟨c0, cs, hcs⟩ : ∃ c0 cs, (nsoloItems fs).map (·.col) = c0 :: cs := by
      cases h : nsoloItems fs with
      | nil => simp [h] at hsolo'
      | cons x t => exact ⟨x.col, t.map (·.col), rfl⟩
    have hred : reduceMul ((nsoloItems fs).map (·.col)) = .ok (colProd 0 (c0 :: cs)) := by rw [hcs]; rfl
    simp only [nfastFactors, hsolo', Bool.false_eq_true, if_false, hred]
    generalize hcomb : (⟨joinColon ((nsoloItems fs).map (·.name)),
      ⟨joinColon ((nsoloItems fs).map (·.name)), [], false⟩, colProd 0 (c0 :: cs)⟩ : NItem) = comb
    have hccol : comb.col = colProd 0 (c0 :: cs) := by rw [← hcomb]
    have hk : kron (fs.filter (fun f => !(f.length == 1)) ++ [[comb]]) =
        (kron fs).map (fun p => nnsp fs p ++ [comb]) := by
      rw [kron_append_singleton]
      have := nkron_filter_nonsolo fs
      simp only [nisSolo] at this
      rw [this, List.map_map]
      rfl
    rw [iproduct_eq_kron_reverse, hk, List.map_map]
    have := nfoldE_fastStep ((kron fs).map (fun p => (joinColon (p.map (·.name)), p.map (·.part)))) s
      (kron fs) (fun p => nnsp fs p ++ [comb]) ?_ (fun p hp => ne_nil_of_mem_kron hnil hp) [] [] (by simp)
    · simp only [List.length_nil] at this
      have e : (List.reverse ∘ fun p => nnsp fs p ++ [comb]) = fun p => (nnsp fs p ++ [comb]).reverse := rfl
      rw [e, this]
      rfl
    · intro p hp
      simp only [List.map_append, List.map_cons, List.map_nil, hccol]
      rw [reduceMul_append_singleton _ _ _ hred, ← List.map_append]
      exact (reduceMul_perm ((nperm_nsp_solo fs p hp).map _)).symm


end FormulaicVerif.Proofs.C02N
