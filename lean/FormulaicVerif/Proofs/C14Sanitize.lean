import FormulaicVerif.Model.SanitizeNames
import FormulaicVerif.Proofs.C15Loop
/-! C14: the library's own string logic inside `sanitize_python_code` cannot fail. The alias pass and the
restoration are the C15 model (`Model/PyAlias.lean`); that its suffix loop stops for every alias table,
environment, set of reserved words and name is `Proofs.C15Loop.sanitizeNames_total`, used here. -/
namespace FormulaicVerif.Proofs.C14Sanitize
open FormulaicVerif FormulaicVerif.Model FormulaicVerif.Model.SanitizeNames

/-- `format_expr` raises nothing but `SyntaxError` and the classes that `sanitize_python_code` converts -/
def FmtOk (fmt : List Char → Except FmtErr (List Char)) : Prop :=
  ∀ u e, fmt u = .error e → wrapped e = true ∨ e.mro.head? = some "SyntaxError"

/-- the guarded `format_expr` fails only with SyntaxError -/
theorem guardedFmt_err (fmt : List Char → Except FmtErr (List Char)) (hfmt : FmtOk fmt) (u : List Char)
    (e : PyAlias.Err) (h : guardedFmt fmt u = .error e) : e = .syntaxError := by
  unfold guardedFmt at h
  cases hf : fmt u with
  | ok r => rw [hf] at h; cases h
  | error x =>
    rw [hf] at h
    injection h with h
    subst h
    unfold toAliasErr
    rcases hfmt u x hf with hw | hh
    · simp [hw]
    · simp [hh]

/-- **the normaliser's only failure is SyntaxError**, for every token text and every `str.isspace`,
provided `ast.parse`/`ast.unparse` raise only `SyntaxError`, `RecursionError`, `MemoryError` or a
`UnicodeError`: the library's own string logic (the scan, the reserved words, the alias loop, the
restoration) cannot fail -/
theorem sanitize_only_syntax (isSpace : Char → Bool) (fmt : List Char → Except FmtErr (List Char)) (hfmt : FmtOk fmt)
    (t : List Char) (x : PyErr) (h : sanitizePythonCode isSpace fmt t = .error x) : x = .syntaxError := by
  unfold sanitizePythonCode PyAlias.sanitizePythonCode at h
  obtain ⟨r, hr⟩ := Proofs.C15Loop.sanitizeNames_total
    { pre := PyAlias.formulaicPrefix, ident := fun _ => false } isSpace [] t
  rw [hr] at h
  obtain ⟨s1, al, added⟩ := r
  simp only at h
  cases hf : guardedFmt fmt s1 with
  | ok s2 => rw [hf] at h; cases h
  | error e =>
    rw [hf] at h
    simp only at h
    injection h with h
    subst h
    rw [guardedFmt_err fmt hfmt s1 e hf]
    rfl

/-- the conversion is not decoration: a bare `RecursionError` of the Python parser becomes SyntaxError,
any other class stays what it is -/
example : toAliasErr ⟨["RecursionError", "RuntimeError", "Exception", "BaseException", "object"]⟩ = .syntaxError ∧
    toAliasErr ⟨["UnicodeEncodeError", "UnicodeError", "ValueError", "Exception", "BaseException", "object"]⟩ = .syntaxError ∧
    toAliasErr ⟨["ValueError", "Exception", "BaseException", "object"]⟩ = .other "ValueError" := by
  refine ⟨rfl, rfl, rfl⟩

end FormulaicVerif.Proofs.C14Sanitize
