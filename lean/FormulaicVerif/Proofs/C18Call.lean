import FormulaicVerif.Proofs.C18Build
/-! Helper lemmas for C18: steps 0-3 on prepared specs with pairwise distinct cells compute the
value-level call; `_prepare_model_specs` in copy mode produces such specs. -/
namespace FormulaicVerif.Proofs.C18
open FormulaicVerif.Model.Heap FormulaicVerif.Spec.Purity

variable {F E : Type}

/-- closes goals that are `True`, reflexive, or such after introducing hypotheses -/
macro "triv" : tactic => `(tactic| first | trivial | rfl | (intros; first | trivial | rfl))

theorem pool_eq (w : World F E) (ps : List (Spec E)) :
    pool w ps = (ps.map (absS w)).foldl (fun acc p => acc.update p.t) Dict.empty := by
  unfold pool
  rw [List.foldl_map]
  rfl

theorem writeBack_spec (st : Dict F) : ∀ (ps : List (Spec E)) (w : World F E), (ps.map (·.t)).Nodup →
    (writeBack st w ps).ecells = w.ecells ∧ (writeBack st w ps).next = w.next
    ∧ (writeBack st w ps).specs = w.specs
    ∧ ∀ r, (writeBack st w ps).tcells r
        = if r ∈ ps.map (·.t) then (w.tcells r).update st else w.tcells r := by
  intro ps
  induction ps with
  | nil => intro w _; simp [writeBack]
  | cons p ps ih =>
    intro w hnd
    simp only [List.map_cons, List.nodup_cons] at hnd
    obtain ⟨i1, i2, i3, i4⟩ := ih (w.setT p.t ((w.tcells p.t).update st)) hnd.2
    have e : writeBack st w (p :: ps) = writeBack st (w.setT p.t ((w.tcells p.t).update st)) ps := rfl
    rw [e]
    refine ⟨i1, i2, i3, ?_⟩
    intro r
    rw [i4 r]
    by_cases hr : r = p.t
    · subst hr
      simp [hnd.1, World.setT]
    · simp [hr, World.setT]

variable (P : Params F E)

theorem absS_writeBack (st : Dict F) (ps : List (Spec E)) (w : World F E) (h : (ps.map (·.t)).Nodup) :
    ps.map (absS (writeBack st w ps)) = (ps.map (absS w)).map fun p => { p with t := p.t.update st } := by
  obtain ⟨h1, _, _, h4⟩ := writeBack_spec st ps w h
  rw [List.map_map]
  apply List.map_congr_left
  intro p hp
  have : p.t ∈ ps.map (·.t) := List.mem_map_of_mem (f := (·.t)) hp
  simp [absS, h1, h4, this]

/-- steps 0-3 on prepared specs whose cells are pairwise distinct -/
theorem materialize_sim (w : World F E) (ps : List (Spec E)) (d : Data) (order : List Factor)
    (ht : (ps.map (·.t)).Nodup) (he : (ps.map (·.e)).Nodup) :
    absR (materialize P w ps d order).1 (materialize P w ps d order).2
        = pureCall P (ps.map (absS w)) d order
    ∧ (materialize P w ps d order).1.next = w.next
    ∧ (materialize P w ps d order).1.specs = w.specs
    ∧ (∀ r, r ∉ ps.map (·.t) → (materialize P w ps d order).1.tcells r = w.tcells r)
    ∧ (∀ r, r ∉ ps.map (·.e) → (materialize P w ps d order).1.ecells r = w.ecells r)
    ∧ (∀ l, (materialize P w ps d order).2 = .ok l →
        l.map (·.2.e) = ps.map (·.e) ∧ l.map (·.2.t) = ps.map (·.t)) := by
  cases ps with
  | nil =>
    refine ⟨rfl, rfl, rfl, fun _ _ => rfl, fun _ _ => rfl, ?_⟩
    intro l hl; simp [materialize] at hl
  | cons p0 ps =>
    unfold materialize pureCall
    simp only [List.map_cons, List.all_cons, List.all_map, absS_cfg, Function.comp_def]
    by_cases hc : (p0.cfg == p0.cfg && ps.all fun p => p.cfg == p0.cfg) = true
    · simp only [hc, if_true]
      have hp := pool_eq w (p0 :: ps)
      simp only [List.map_cons] at hp
      rw [hp]
      generalize evaluateAll P d p0.cfg.na ⟨Dict.empty, fun _ => false,
        ((absS w p0 :: ps.map (absS w)).foldl (fun acc p => acc.update p.t) Dict.empty)⟩ order = ev
      cases ev with
      | error e =>
        refine ⟨rfl, rfl, rfl, fun _ _ => rfl, fun _ _ => rfl, ?_⟩
        intro l hl; simp at hl
      | ok ev =>
        simp only
        obtain ⟨w1, w2, w3, w4⟩ := writeBack_spec ev.state (p0 :: ps) w ht
        obtain ⟨b1, b2, b3, b4, b5, b6, b7⟩ := buildAll_sim P d
          ((List.range (P.nrows d)).filter fun i => !ev.drops i) ev.cache (p0 :: ps)
          (writeBack ev.state w (p0 :: ps)) Caches.empty (.ok []) he (by intro l hl x hx; simp at hl; subst hl; simp at hx)
        have hm := absS_writeBack ev.state (p0 :: ps) w ht
        rw [hm] at b1 b2
        simp only [List.map_cons] at b2
        refine ⟨b2, by rw [b4, w2], by rw [b5, w3], ?_, ?_, ?_⟩
        · intro r hr
          rw [b3, w4 r, if_neg (by simpa using hr)]
        · intro r hr
          rw [b6 r, w1]
          intro q hq e
          exact hr (e ▸ List.mem_map_of_mem (f := (·.e)) hq)
        · intro l hl
          obtain ⟨acc, rest, ha, hl', he', ht'⟩ := b7 l hl
          simp only [Except.ok.injEq] at ha
          subst ha
          simp only [List.nil_append] at hl'
          subst hl'
          exact ⟨he', ht'⟩
    · simp only [hc, Bool.false_eq_true, if_false]
      refine ⟨by triv, by triv, by triv, by triv, by triv, ?_⟩
      intro l hl; simp at hl


@[simp] theorem alloc_next (w : World F E) (a : Dict F) (b : Dict E) : (w.alloc a b).next = w.next + 1 := rfl
@[simp] theorem alloc_specs (w : World F E) (a : Dict F) (b : Dict E) : (w.alloc a b).specs = w.specs := rfl
theorem alloc_tcells_lt (w : World F E) (a : Dict F) (b : Dict E) {r : Nat} (h : r < w.next) :
    (w.alloc a b).tcells r = w.tcells r := by
  simp [World.alloc, Nat.ne_of_lt h]
theorem alloc_ecells_lt (w : World F E) (a : Dict F) (b : Dict E) {r : Nat} (h : r < w.next) :
    (w.alloc a b).ecells r = w.ecells r := by
  simp [World.alloc, Nat.ne_of_lt h]
@[simp] theorem alloc_tcells_self (w : World F E) (a : Dict F) (b : Dict E) : (w.alloc a b).tcells w.next = a := by
  simp [World.alloc]
@[simp] theorem alloc_ecells_self (w : World F E) (a : Dict F) (b : Dict E) : (w.alloc a b).ecells w.next = b := by
  simp [World.alloc]

theorem absS_congr (w w' : World F E) (s : Spec E) (ht : w'.tcells s.t = w.tcells s.t)
    (he : w'.ecells s.e = w.ecells s.e) : absS w' s = absS w s := by
  simp [absS, ht, he]

/-- `_prepare_model_specs` as it is now: every prepared spec owns a fresh pair of cells holding
copies of the caller's dictionaries; nothing that existed is touched -/
theorem prepareAll_copy : ∀ (ss : List (Spec E)) (w : World F E),
    (∀ s ∈ ss, s.t < w.next ∧ s.e < w.next) →
    (prepareAll .copy w ss).1.next = w.next + ss.length
    ∧ (prepareAll .copy w ss).1.specs = w.specs
    ∧ (∀ r, r < w.next → (prepareAll .copy w ss).1.tcells r = w.tcells r
        ∧ (prepareAll .copy w ss).1.ecells r = w.ecells r)
    ∧ (prepareAll .copy w ss).2.map (absS (prepareAll .copy w ss).1) = ss.map (absS w)
    ∧ (prepareAll .copy w ss).2.map (·.t) = List.range' w.next ss.length
    ∧ (prepareAll .copy w ss).2.map (·.e) = List.range' w.next ss.length := by
  intro ss
  induction ss with
  | nil => intro w _; simp [prepareAll]
  | cons s ss ih =>
    intro w h
    have hs := h s (by simp)
    have h' : ∀ s2 ∈ ss, s2.t < (w.alloc (w.tcells s.t) (w.ecells s.e)).next
        ∧ s2.e < (w.alloc (w.tcells s.t) (w.ecells s.e)).next := by
      intro s2 hs2
      have := h s2 (by simp [hs2])
      simp only [alloc_next]
      omega
    obtain ⟨i1, i2, i3, i4, i5, i6⟩ := ih (w.alloc (w.tcells s.t) (w.ecells s.e)) h'
    simp only [prepareAll, prepareOne]
    simp only [alloc_next, alloc_specs] at i1 i2 i3 i5 i6
    refine ⟨by rw [i1]; simp; omega, i2, ?_, ?_, ?_, ?_⟩
    · intro r hr
      obtain ⟨a, b⟩ := i3 r (by omega)
      exact ⟨a.trans (alloc_tcells_lt w _ _ hr), b.trans (alloc_ecells_lt w _ _ hr)⟩
    · simp only [List.map_cons]
      congr 1
      · obtain ⟨a, b⟩ := i3 w.next (by omega)
        simp [absS, a, b]
      · rw [i4]
        apply List.map_congr_left
        intro s2 hs2
        have := h s2 (by simp [hs2])
        exact absS_congr w _ s2 (alloc_tcells_lt w _ _ this.1) (alloc_ecells_lt w _ _ this.2)
    · simp [i5, List.range'_succ]
    · simp [i6, List.range'_succ]

/-- the whole `FormulaMaterializer.get_model_matrix` in copy mode on specs that live in the world -/
theorem callCore_copy (w : World F E) (ss : List (Spec E)) (d : Data) (order : List Factor)
    (h : ∀ s ∈ ss, s.t < w.next ∧ s.e < w.next) :
    absR (callCore P .copy w ss d order).1 (callCore P .copy w ss d order).2
        = pureCall P (ss.map (absS w)) d order
    ∧ (callCore P .copy w ss d order).1.next = w.next + ss.length
    ∧ (callCore P .copy w ss d order).1.specs = w.specs
    ∧ (∀ r, r < w.next → (callCore P .copy w ss d order).1.tcells r = w.tcells r
        ∧ (callCore P .copy w ss d order).1.ecells r = w.ecells r)
    ∧ (∀ l, (callCore P .copy w ss d order).2 = .ok l →
        ∀ x ∈ l, x.2.t < w.next + ss.length ∧ x.2.e < w.next + ss.length) := by
  obtain ⟨p1, p2, p3, p4, p5, p6⟩ := prepareAll_copy ss w h
  unfold callCore
  obtain ⟨m1, m2, m3, m4, m5, m6⟩ := materialize_sim P (prepareAll .copy w ss).1 (prepareAll .copy w ss).2 d order
    (by rw [p5]; exact List.nodup_range') (by rw [p6]; exact List.nodup_range')
  refine ⟨by rw [m1, p4], by rw [m2, p1], by rw [m3, p2], ?_, ?_⟩
  · intro r hr
    have hnt : r ∉ (prepareAll .copy w ss).2.map (·.t) := by
      rw [p5]; simp only [List.mem_range'_1]; omega
    have hne : r ∉ (prepareAll .copy w ss).2.map (·.e) := by
      rw [p6]; simp only [List.mem_range'_1]; omega
    exact ⟨(m4 r hnt).trans (p3 r hr).1, (m5 r hne).trans (p3 r hr).2⟩
  · intro l hl x hx
    obtain ⟨le, lt⟩ := m6 l hl
    have h1 : x.2.e ∈ List.range' w.next ss.length := by
      rw [← p6, ← le]; exact List.mem_map_of_mem (f := (·.2.e)) hx
    have h2 : x.2.t ∈ List.range' w.next ss.length := by
      rw [← p5, ← lt]; exact List.mem_map_of_mem (f := (·.2.t)) hx
    simp only [List.mem_range'_1] at h1 h2
    omega

end FormulaicVerif.Proofs.C18
