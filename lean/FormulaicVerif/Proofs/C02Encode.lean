import FormulaicVerif.Proofs.C02NestedPipeline
/-! Lemmas on the encoder stages of `Model/FactorEncode.lean`: `map_dict` keeps exactly the leaves
whose path has no reserved key, the re-wrapping keeps every leaf, the drop-field step removes one
top-level key, the default format prints `name[key][key]…`, and the dummy coding of a categorical
column is one indicator per level in level order. Core Lean only. -/
namespace FormulaicVerif.Proofs.C02N
open FormulaicVerif.Model FormulaicVerif.Model.Nest FormulaicVerif.Spec FormulaicVerif.Spec.Nest
open FormulaicVerif.Proofs.C02

/-! ### leaves with and without names -/

theorem leaf_toLeafAt {v : Val} {n n' : String} {p : List Field} {c : Col} (h : Leaf v n p n' c) : LeafAt v p c := by
  induction h with
  | col c name => exact .col c
  | dict hm _ ih => exact .dict hm ih

theorem leafAt_toLeaf {v : Val} {p : List Field} {c : Col} (h : LeafAt v p c) : ∀ n, ∃ n', Leaf v n p n' c := by
  induction h with
  | col c => intro n; exact ⟨n, .col c n⟩
  | @dict es m k v r c hm _ ih =>
    intro n
    obtain ⟨n', hn⟩ := ih ((fmtOfMeta m).format n k.text)
    exact ⟨n', .dict hm hn⟩

/-! ### `map_dict` -/

theorem entsMem_mapDict : ∀ (es : Ents) {k : Field} {v' : Val}, EntsMem k v' es.mapDict →
    ∃ v, EntsMem k v es ∧ v' = v.mapDict ∧ k.hidden = false
  | .nil, k, v', h => by simp only [Ents.mapDict] at h; cases h
  | .cons k0 v0 r, k, v', h => by
    simp only [Ents.mapDict] at h
    split at h
    · obtain ⟨v, h1, h2, h3⟩ := entsMem_mapDict r h
      exact ⟨v, .tail _ _ h1, h2, h3⟩
    · rename_i hh
      cases h with
      | head _ => exact ⟨v0, .head _, rfl, by simpa using hh⟩
      | tail _ _ h' =>
        obtain ⟨v, h1, h2, h3⟩ := entsMem_mapDict r h'
        exact ⟨v, .tail _ _ h1, h2, h3⟩

theorem entsMem_mapDict_of : ∀ (es : Ents) {k : Field} {v : Val}, EntsMem k v es → k.hidden = false →
    EntsMem k v.mapDict es.mapDict
  | .nil, k, v, h, _ => by cases h
  | .cons k0 v0 r, k, v, h, hk => by
    cases h with
    | head _ => simp only [Ents.mapDict, hk, Bool.false_eq_true, if_false]; exact .head _
    | tail _ _ h' =>
      simp only [Ents.mapDict]
      split
      · exact entsMem_mapDict_of r h' hk
      · exact .tail _ _ (entsMem_mapDict_of r h' hk)

/-- a leaf of the mapped value is a leaf of the original one, under the same name, and no key on its
path is reserved -/
theorem mapDict_leaf {w : Val} {n : String} {p : List Field} {n' : String} {c : Col} (h : Leaf w n p n' c) :
    ∀ v : Val, w = v.mapDict → Leaf v n p n' c ∧ ∀ k ∈ p, k.hidden = false := by
  induction h with
  | col c name =>
    intro v hv
    cases v with
    | col c' => simp only [Val.mapDict, Val.col.injEq] at hv; subst hv; exact ⟨Leaf.col _ _, by simp⟩
    | dict es m => simp [Val.mapDict] at hv
  | dict hm hl ih =>
    intro v hv
    cases v with
    | col c' => simp [Val.mapDict] at hv
    | dict es m =>
      simp only [Val.mapDict, Val.dict.injEq] at hv
      obtain ⟨rfl, rfl⟩ := hv
      obtain ⟨v0, h1, h2, h3⟩ := entsMem_mapDict es hm
      obtain ⟨i1, i2⟩ := ih v0 h2
      refine ⟨Leaf.dict h1 i1, ?_⟩
      intro k hk
      simp only [List.mem_cons] at hk
      rcases hk with rfl | hk
      · exact h3
      · exact i2 k hk

/-- and conversely every leaf whose path has no reserved key survives, under the same name -/
theorem mapDict_leaf_of {v : Val} {n : String} {p : List Field} {n' : String} {c : Col} (h : Leaf v n p n' c)
    (hp : ∀ k ∈ p, k.hidden = false) : Leaf v.mapDict n p n' c := by
  induction h with
  | col c name => simp only [Val.mapDict]; exact .col c name
  | @dict es m k v name name' r c hm _ ih =>
    simp only [Val.mapDict]
    exact .dict (entsMem_mapDict_of es hm (hp k (by simp))) (ih (fun k' hk' => hp k' (by simp [hk'])))

/-! ### re-wrapping and the drop-field step -/

theorem leafAt_finalize {fm : Meta} {v : Val} {p : List Field} {c : Col} :
    LeafAt (finalize fm v) p c ↔ LeafAt v p c := by
  cases v with
  | col c' => simp [finalize]
  | dict es m =>
    simp only [finalize]
    constructor
    · intro h; cases h with | dict hm hl => exact .dict hm hl
    · intro h; cases h with | dict hm hl => exact .dict hm hl

theorem entsMem_del : ∀ (es : Ents) {k : Field} {es' : Ents}, es.del k = some es' →
    ∀ {k' : Field} {v : Val}, EntsMem k' v es' → EntsMem k' v es
  | .nil, k, es', h, _, _, _ => by simp [Ents.del] at h
  | .cons k0 v0 r, k, es', h, k', v, hm => by
    simp only [Ents.del] at h
    split at h
    · simp only [Option.some.injEq] at h; subst h; exact .tail _ _ hm
    · cases hd : r.del k with
      | none => simp [hd] at h
      | some r' =>
        simp only [hd, Option.some.injEq] at h
        subst h
        cases hm with
        | head _ => exact .head _
        | tail _ _ hm' => exact .tail _ _ (entsMem_del r hd hm')

theorem entsMem_del_of : ∀ (es : Ents) {k : Field} {es' : Ents}, es.del k = some es' →
    ∀ {k' : Field} {v : Val}, EntsMem k' v es → k' ≠ k → EntsMem k' v es'
  | .nil, k, es', h, _, _, _, _ => by simp [Ents.del] at h
  | .cons k0 v0 r, k, es', h, k', v, hm, hne => by
    simp only [Ents.del] at h
    split at h
    · rename_i heq
      simp only [Option.some.injEq] at h; subst h
      cases hm with
      | head _ => exact absurd heq hne
      | tail _ _ hm' => exact hm'
    · cases hd : r.del k with
      | none => simp [hd] at h
      | some r' =>
        simp only [hd, Option.some.injEq] at h
        subst h
        cases hm with
        | head _ => exact .head _
        | tail _ _ hm' => exact .tail _ _ (entsMem_del_of r hd hm' hne)

/-- the drop-field step only removes: every leaf afterwards was a leaf before -/
theorem leafAt_dropStep {r : Bool} {v t : Val} (h : dropStep r v = .ok t) {p : List Field} {c : Col}
    (hl : LeafAt t p c) : LeafAt v p c := by
  cases v with
  | col c' => simp only [dropStep, Except.ok.injEq] at h; subst h; exact hl
  | dict es m =>
    cases m with
    | none => simp only [dropStep, Except.ok.injEq] at h; subst h; exact hl
    | some mm =>
      simp only [dropStep] at h
      split at h
      · cases hd : mm.dropField with
        | none => simp [hd] at h
        | some k =>
          simp only [hd] at h
          cases hdel : es.del k with
          | none => simp [hdel] at h
          | some es' =>
            simp only [hdel, Except.ok.injEq] at h
            subst h
            cases hl with
            | dict hm hl' => exact .dict (entsMem_del es hdel hm) hl'
      · simp only [Except.ok.injEq] at h; subst h; exact hl

/-- what the drop-field step does to a dict with metadata: nothing unless the factor spans the
intercept and the reduced encoding is asked for; then the `drop_field` key goes (a `KeyError` when
there is none) and the metadata is marked `reduced` — so `get_format()` switches to
`format_reduced` when that is set -/
theorem dropStep_dict {r : Bool} {es : Ents} {mm : Meta} {t : Val} (h : dropStep r (.dict es (some mm)) = .ok t) :
    ((mm.spansIntercept && r) = false ∧ t = .dict es (some mm)) ∨
    ((mm.spansIntercept && r) = true ∧ ∃ k es', mm.dropField = some k ∧ es.del k = some es' ∧
      t = .dict es' (some { mm with reduced := true }) ∧
      ({ mm with reduced := true } : Meta).getFormat = mm.formatReduced.getD mm.format) := by
  simp only [dropStep] at h
  split at h
  · rename_i hc
    right
    refine ⟨hc, ?_⟩
    cases hd : mm.dropField with
    | none => simp [hd] at h
    | some k =>
      simp only [hd] at h
      cases hdel : es.del k with
      | none => simp [hdel] at h
      | some es' =>
        simp only [hdel, Except.ok.injEq] at h
        refine ⟨k, es', rfl, hdel, h.symm, ?_⟩
        simp only [Meta.getFormat]
        cases mm.formatReduced <;> rfl
  · rename_i hc
    left
    simp only [Except.ok.injEq] at h
    exact ⟨by simpa using hc, h.symm⟩

/-! ### the default format -/

theorem defaultFormat_format (n t : String) : Gen.defaultFormat.format n t = n ++ "[" ++ t ++ "]" := by
  simp [Gen.defaultFormat, Fmt.format, String.join]

theorem entsAllDefault_mem : ∀ (es : Ents) {k : Field} {v : Val}, EntsMem k v es → entsAllDefault es = true →
    valAllDefault v = true
  | .nil, _, _, h, _ => by cases h
  | .cons k0 v0 r, k, v, h, hd => by
    simp only [entsAllDefault, Bool.and_eq_true] at hd
    cases h with
    | head _ => exact hd.1
    | tail _ _ h' => exact entsAllDefault_mem r h' hd.2

/-- names `factor[key][key]…`: when every dict of the value uses the default template, the leaf at
key path `k₁, k₂, …` is printed `name[k₁][k₂]…` -/
theorem leaf_bracketName {v : Val} {n : String} {p : List Field} {n' : String} {c : Col} (h : Leaf v n p n' c)
    (hd : valAllDefault v = true) : n' = bracketName n p := by
  induction h with
  | col c name => rfl
  | @dict es m k v name name' r c hm _ ih =>
    simp only [valAllDefault, Bool.and_eq_true, beq_iff_eq] at hd
    have := ih (entsAllDefault_mem es hm hd.2)
    rw [this, hd.1, defaultFormat_format]
    rfl

/-! ### a numerical factor is encoded as itself -/

theorem asColumns_dict_meta {m : Meta} {raw : Raw} {es : Ents} {mo : Option Meta}
    (h : asColumns m raw = .ok (.dict es mo)) : mo = some m := by
  cases raw with
  | val v =>
    cases v with
    | col c => simp [asColumns] at h
    | dict es' m' => simp only [asColumns, Except.ok.injEq, Val.dict.injEq] at h; exact h.2.symm
  | frame cols => simp only [asColumns, Except.ok.injEq, Val.dict.injEq] at h; exact h.2.symm
  | arr2 cols =>
    simp only [asColumns] at h
    cases hk : arrKeys m.columnNames 0 cols.length with
    | error e => simp [hk] at h
    | ok ks => simp only [hk, Except.ok.injEq, Val.dict.injEq] at h; exact h.2.symm
  | arrN => simp [asColumns] at h
  | cat l c => simp [asColumns] at h

theorem leafAt_dropStep_of {r : Bool} {v t : Val} (h : dropStep r v = .ok t) {p : List Field} {c : Col}
    (hl : LeafAt v p c)
    (hcond : ∀ es mm, v = .dict es (some mm) → (mm.spansIntercept && r) = true → p.head? ≠ mm.dropField) :
    LeafAt t p c := by
  cases v with
  | col c' => simp only [dropStep, Except.ok.injEq] at h; subst h; exact hl
  | dict es m =>
    cases m with
    | none => simp only [dropStep, Except.ok.injEq] at h; subst h; exact hl
    | some mm =>
      rcases dropStep_dict h with ⟨_, rfl⟩ | ⟨hc, k, es', hk, hdel, rfl, _⟩
      · exact hl
      · cases hl with
        | @dict _ _ k' v' r' _ hm hl' =>
          have hne : k' ≠ k := by
            intro e
            have := hcond es mm rfl hc
            simp [hk, e] at this
          exact .dict (entsMem_del_of es hdel hm hne) hl'

/-- For a numerical factor without an encoder of its own (not pre-encoded, nothing forwarded), the
encoded value holds exactly the columns of the evaluated value (`as_columns`): every encoded leaf is a
leaf of the evaluated value at the same key path, no key on that path is reserved (`__…`); and every
evaluated leaf whose path has no reserved key is encoded, except — when the factor spans the
intercept and the reduced encoding is asked for — those under its `drop_field`. -/
theorem numerical_encoding_is_identity (f : RFactor) (r : Bool) (hk : f.kind = .numerical)
    (henc : f.md.encoded = false) (hext : f.ext = none) (he : f.md.hasEncoder = false)
    (t : Val) (h : encodedTree f r = .ok t) :
    ∃ w, asColumns f.md f.raw = .ok w ∧
      (∀ p c, LeafAt t p c → LeafAt w p c ∧ ∀ k ∈ p, k.hidden = false) ∧
      (∀ p c, LeafAt w p c → (∀ k ∈ p, k.hidden = false) →
        ((f.md.spansIntercept && r) = true → p.head? ≠ f.md.dropField) → LeafAt t p c) := by
  unfold encodedTree encodedObject at h
  simp only [henc, hext, he, hk, Bool.false_eq_true, if_false] at h
  cases hw : asColumns f.md f.raw with
  | error e => simp [hw] at h
  | ok w =>
    simp only [hw] at h
    refine ⟨w, rfl, ?_, ?_⟩
    · intro p c hl
      have h1 := leafAt_finalize.mp (leafAt_dropStep h hl)
      obtain ⟨n', hn⟩ := leafAt_toLeaf h1 ""
      obtain ⟨h2, h3⟩ := mapDict_leaf hn w rfl
      exact ⟨leaf_toLeafAt h2, h3⟩
    · intro p c hl hnh hdrop
      obtain ⟨n', hn⟩ := leafAt_toLeaf hl ""
      have h1 := leaf_toLeafAt (mapDict_leaf_of hn hnh)
      have h2 : LeafAt (finalize f.md w.mapDict) p c := leafAt_finalize.mpr h1
      apply leafAt_dropStep_of h h2
      intro es mm hv hc
      cases w with
      | col c' => simp [Val.mapDict, finalize] at hv
      | dict es0 m0 =>
        have hm0 := asColumns_dict_meta hw
        subst hm0
        simp only [Val.mapDict, finalize, Option.getD_some, Val.dict.injEq, Option.some.injEq] at hv
        obtain ⟨_, rfl⟩ := hv
        exact hdrop hc

/-! ### dummy coding: one indicator per level, in level order -/

def entsOfList : List (Field × Col) → Ents
  | [] => .nil
  | kc :: r => .cons kc.1 (.col kc.2) (entsOfList r)

def entsKeys : Ents → List Field
  | .nil => []
  | .cons k _ r => k :: entsKeys r

theorem entsKeys_entsOfList (l : List (Field × Col)) : entsKeys (entsOfList l) = l.map (·.1) := by
  induction l with
  | nil => rfl
  | cons x r ih => simp [entsOfList, entsKeys, ih]

theorem set_entsOfList (l : List (Field × Col)) (k : Field) (c : Col) (h : k ∉ l.map (·.1)) :
    (entsOfList l).set k (.col c) = entsOfList (l ++ [(k, c)]) := by
  induction l with
  | nil => rfl
  | cons x r ih =>
    simp only [List.map_cons, List.mem_cons, not_or] at h
    have : ¬ x.1 = k := fun e => h.1 e.symm
    simp only [entsOfList, Ents.set, this, if_false, List.cons_append, ih h.2]

theorem foldl_set_entsOfList (pre cols : List (Field × Col)) (h : ((pre ++ cols).map (·.1)).Nodup) :
    cols.foldl (fun es kc => es.set kc.1 (.col kc.2)) (entsOfList pre) = entsOfList (pre ++ cols) := by
  induction cols generalizing pre with
  | nil => simp
  | cons x r ih =>
    have hx : x.1 ∉ pre.map (·.1) := by
      simp only [List.map_append, List.map_cons] at h
      rw [List.nodup_append] at h
      intro hm
      exact h.2.2 _ hm _ (by simp) rfl
    simp only [List.foldl_cons, set_entsOfList pre x.1 x.2 hx]
    rw [ih (pre ++ [x]) (by simpa using h)]
    simp

/-- with pairwise distinct keys the dict comprehension is the list itself -/
theorem entsOfCols_of_nodup (cols : List (Field × Col)) (h : (cols.map (·.1)).Nodup) :
    entsOfCols cols = entsOfList cols := by
  have := foldl_set_entsOfList [] cols (by simpa using h)
  simpa [entsOfCols, entsOfList] using this

theorem nitemSet_of_not_mem {d : List NItem} {e : NItem} (h : e.name ∉ d.map (·.name)) : nitemSet d e = d ++ [e] := by
  induction d with
  | nil => rfl
  | cons x r ih =>
    simp only [List.map_cons, List.mem_cons, not_or] at h
    have : ¬ x.name = e.name := fun e' => h.1 e'.symm
    simp only [nitemSet, this, if_false, ih h.2, List.cons_append]

/-- flattening a dict of plain columns whose printed names are pairwise distinct (and new) appends one
item per column, in order -/
theorem flattenEnts_entsOfList (expr : String) (red : Bool) (fmt : Fmt) (name : String) (path : List Field)
    (cols : List (Field × Col)) (acc : List NItem)
    (h : (acc.map (·.name) ++ cols.map (fun kc => fmt.format name kc.1.text)).Nodup) :
    flattenEnts expr red fmt name path (entsOfList cols) acc =
      acc ++ cols.map (fun kc => ⟨fmt.format name kc.1.text, ⟨expr, path ++ [kc.1], red⟩, kc.2⟩) := by
  induction cols generalizing acc with
  | nil => simp [entsOfList, flattenEnts]
  | cons x r ih =>
    have hx : fmt.format name x.1.text ∉ acc.map (·.name) := by
      simp only [List.map_cons] at h
      rw [List.nodup_append] at h
      intro hm
      exact h.2.2 _ hm _ (by simp) rfl
    simp only [entsOfList, flattenEnts, flattenVal, nitemUpdate, List.foldl_cons, List.foldl_nil]
    rw [nitemSet_of_not_mem (by simpa using hx)]
    rw [ih]
    · simp
    · simpa using h

theorem bracket_inj (e pre suf a b : String) (h : e ++ pre ++ a ++ suf = e ++ pre ++ b ++ suf) : a = b := by
  have := congrArg String.toList h
  simp only [String.toList_append] at this
  have := List.append_cancel_right this
  have := List.append_cancel_left this
  exact String.toList_inj.mp this

theorem nodup_map_of_inj {α β} (f : α → β) (hf : ∀ a b, f a = f b → a = b) {l : List α} (h : l.Nodup) :
    (l.map f).Nodup := by
  induction l with
  | nil => simp
  | cons x r ih =>
    rw [List.nodup_cons] at h
    simp only [List.map_cons, List.nodup_cons, List.mem_map, not_exists, not_and]
    exact ⟨fun y hy e => h.1 (hf _ _ e ▸ hy), ih h.2⟩

theorem treatmentFormat_format (n t : String) : Gen.treatmentFormat.format n t = n ++ "[" ++ t ++ "]" := by
  simp [Gen.treatmentFormat, Fmt.format, String.join]

theorem treatmentFormatReduced_format (n t : String) :
    Gen.treatmentFormatReduced.format n t = n ++ "[T." ++ t ++ "]" := by
  simp [Gen.treatmentFormatReduced, Fmt.format, String.join]

theorem dummyCols_keys (levels : List Field) (codes : List (Option Nat)) :
    (dummyCols levels codes).map (·.1) = levels := by
  unfold dummyCols
  rw [List.map_map]
  have : ((fun x : Field × Col => x.1) ∘ fun lj : Field × Nat => (lj.1, indicator codes lj.2)) = (·.1) := rfl
  rw [this]
  exact List.zipIdx_map_fst _ _

theorem nodup_of_nodup_text {levels : List Field} (h : (levels.map (·.text)).Nodup) : levels.Nodup := by
  induction levels with
  | nil => simp
  | cons x r ih =>
    simp only [List.map_cons, List.nodup_cons, List.mem_map, not_exists, not_and] at h ⊢
    exact ⟨fun hx => h.1 x hx rfl, ih h.2⟩

theorem dummy_names_nodup (expr pre suf : String) {levels : List Field} (h : (levels.map (·.text)).Nodup)
    (codes : List (Option Nat)) :
    ((dummyCols levels codes).map (fun kc => expr ++ pre ++ kc.1.text ++ suf)).Nodup := by
  have h1 : (dummyCols levels codes).map (fun kc => expr ++ pre ++ kc.1.text ++ suf) =
      ((dummyCols levels codes).map (·.1)).map (fun k => expr ++ pre ++ k.text ++ suf) := by
    rw [List.map_map]; rfl
  rw [h1, dummyCols_keys]
  have h2 : levels.map (fun k => expr ++ pre ++ k.text ++ suf) =
      (levels.map (·.text)).map (fun t => expr ++ pre ++ t ++ suf) := by
    rw [List.map_map]; rfl
  rw [h2]
  exact nodup_map_of_inj _ (fun a b e => bracket_inj expr pre suf a b e) h

/-- the full encoding of a plain categorical column: one indicator per level, in level order, named
`factor[level]` -/
theorem dummy_encode_full (f : RFactor) (levels : List Field) (codes : List (Option Nat))
    (hraw : f.raw = .cat levels codes) (hk : f.kind = .categorical) (henc : f.md.encoded = false)
    (hext : f.ext = none) (he : f.md.hasEncoder = false) (hnd : (levels.map (·.text)).Nodup) :
    encodeFactor f false = .ok (levels.zipIdx.map (fun lj =>
      ⟨f.expr ++ "[" ++ lj.1.text ++ "]", ⟨f.expr, [lj.1], false⟩, indicator codes lj.2⟩)) := by
  have hkeys : ((dummyCols levels codes).map (·.1)).Nodup := by
    rw [dummyCols_keys]; exact nodup_of_nodup_text hnd
  unfold encodeFactor encodedTree encodedObject
  simp only [henc, hext, he, hk, hraw, Bool.false_eq_true, if_false, dummyVal, finalize, dropStep,
    Bool.and_false, Option.getD_some, flattenVal, fmtOfMeta, Meta.getFormat, dummyMeta,
    entsOfCols_of_nodup _ hkeys]
  rw [flattenEnts_entsOfList]
  · simp only [List.nil_append, List.append_nil, treatmentFormat_format, dummyCols, List.map_map]
    rfl
  · simp only [List.map_nil, List.nil_append, treatmentFormat_format]
    exact dummy_names_nodup f.expr "[" "]" hnd codes

/-- the reduced encoding (treatment coding): the first level is dropped, the others keep their
indicator and are named `factor[T.level]` -/
theorem dummy_encode_reduced (f : RFactor) (l0 : Field) (rest : List Field) (codes : List (Option Nat))
    (hraw : f.raw = .cat (l0 :: rest) codes) (hk : f.kind = .categorical) (henc : f.md.encoded = false)
    (hext : f.ext = none) (he : f.md.hasEncoder = false) (hnd : ((l0 :: rest).map (·.text)).Nodup)
    (hspans : Gen.treatmentSpansIntercept = true) :
    encodeFactor f true = .ok ((rest.zipIdx 1).map (fun lj =>
      ⟨f.expr ++ "[T." ++ lj.1.text ++ "]", ⟨f.expr, [lj.1], true⟩, indicator codes lj.2⟩)) := by
  have hkeys : ((dummyCols (l0 :: rest) codes).map (·.1)).Nodup := by
    rw [dummyCols_keys]; exact nodup_of_nodup_text hnd
  have hcols : dummyCols (l0 :: rest) codes =
      (l0, indicator codes 0) :: (rest.zipIdx 1).map (fun lj => (lj.1, indicator codes lj.2)) := by
    simp [dummyCols, List.zipIdx_cons]
  have hE : entsOfCols (dummyCols (l0 :: rest) codes) =
      entsOfList ((l0, indicator codes 0) :: (rest.zipIdx 1).map (fun lj => (lj.1, indicator codes lj.2))) := by
    rw [entsOfCols_of_nodup _ hkeys, hcols]
  unfold encodeFactor encodedTree encodedObject
  simp only [henc, hext, he, hk, hraw, Bool.false_eq_true, if_false, dummyVal, finalize, dropStep,
    Option.getD_some, dummyMeta, hE, hspans, List.isEmpty_cons, Bool.not_false,
    Bool.and_self, if_true, List.head?_cons, entsOfList, Ents.del, flattenVal, fmtOfMeta, Meta.getFormat]
  rw [flattenEnts_entsOfList]
  · simp only [List.nil_append, treatmentFormatReduced_format, List.map_map]
    rfl
  · simp only [List.map_nil, List.nil_append, treatmentFormatReduced_format]
    have := dummy_names_nodup f.expr "[T." "]" hnd codes
    rw [hcols] at this
    simp only [List.map_cons, List.nodup_cons] at this
    exact this.2

/-! ### full encodings read off the data -/

theorem encodeFactor_of_dataEncoding {f : RFactor} {e : List NItem} (hp : PlainFactor f)
    (hd : dataEncoding f = some e) : encodeFactor f false = .ok e := by
  obtain ⟨h1, h2, h3, h4⟩ := hp
  unfold dataEncoding at hd
  cases hk : f.kind with
  | constant v => simp [hk] at hd
  | categorical =>
    cases hr : f.raw with
    | cat levels codes =>
      simp only [hk, hr, Option.some.injEq] at hd
      subst hd
      simp only [hr] at h4
      exact dummy_encode_full f levels codes hr hk h1 h2 h3 h4
    | val v => simp [hk, hr] at hd
    | frame c => simp [hk, hr] at hd
    | arr2 c => simp [hk, hr] at hd
    | arrN => simp [hk, hr] at hd
  | numerical =>
    cases hr : f.raw with
    | val v =>
      cases v with
      | col c =>
        simp only [hk, hr, Option.some.injEq] at hd
        subst hd
        unfold encodeFactor encodedTree encodedObject
        simp [h1, h2, h3, hk, hr, asColumns, Val.mapDict, finalize, dropStep, flattenVal]
      | dict es m => simp [hk, hr] at hd
    | cat l c => simp [hk, hr] at hd
    | frame c => simp [hk, hr] at hd
    | arr2 c => simp [hk, hr] at hd
    | arrN => simp [hk, hr] at hd

theorem nfullEncodings_of_data {fs : List RFactor}
    (h : ∀ f ∈ fs, PlainFactor f ∧ (dataEncoding f).isSome = true) :
    ∃ encs, nfullEncodings fs = .ok encs ∧ fs.map dataEncoding = encs.map some := by
  induction fs with
  | nil => exact ⟨[], rfl, rfl⟩
  | cons f r ih =>
    obtain ⟨encs, h1, h2⟩ := ih (fun g hg => h g (by simp [hg]))
    obtain ⟨hp, hs⟩ := h f (by simp)
    obtain ⟨e, he⟩ := Option.isSome_iff_exists.mp hs
    refine ⟨e :: encs, ?_, by simp [he, h2]⟩
    simp only [nfullEncodings, encodeFactor_of_dataEncoding hp he, h1]

/-! ### the flattening loses no name -/

theorem nitemSet_names_mem {d : List NItem} {e : NItem} {n : String} :
    n ∈ (nitemSet d e).map (·.name) ↔ n ∈ d.map (·.name) ∨ n = e.name := by
  induction d with
  | nil => simp [nitemSet]
  | cons x r ih =>
    simp only [nitemSet]
    split
    · rename_i hx
      simp only [List.map_cons, List.mem_cons]
      constructor
      · rintro (h | h)
        · exact .inr h
        · exact .inl (.inr h)
      · rintro ((h | h) | h)
        · exact .inl (by rw [h, hx])
        · exact .inr h
        · exact .inl h
    · simp only [List.map_cons, List.mem_cons, ih]
      constructor
      · rintro (h | h | h)
        · exact .inl (.inl h)
        · exact .inl (.inr h)
        · exact .inr h
      · rintro ((h | h) | h)
        · exact .inl h
        · exact .inr (.inl h)
        · exact .inr (.inr h)

theorem nitemUpdate_names_mem {d new : List NItem} {n : String} :
    n ∈ (nitemUpdate d new).map (·.name) ↔ n ∈ d.map (·.name) ∨ n ∈ new.map (·.name) := by
  unfold nitemUpdate
  induction new generalizing d with
  | nil => simp
  | cons x r ih =>
    simp only [List.foldl_cons, ih, nitemSet_names_mem, List.map_cons, List.mem_cons]
    constructor
    · rintro ((h | h) | h)
      · exact .inl h
      · exact .inr (.inl h)
      · exact .inr (.inr h)
    · rintro (h | h | h)
      · exact .inl (.inl h)
      · exact .inl (.inr h)
      · exact .inr h

/-- names already collected, and the names of every entry's own flattening, are names of the result -/
theorem flattenEnts_names (expr : String) (red : Bool) (fmt : Fmt) (name : String) (path : List Field) :
    ∀ (es : Ents) (acc : List NItem) (n : String),
      (n ∈ acc.map (·.name) ∨ ∃ k v, EntsMem k v es ∧
        n ∈ (flattenVal expr red (fmt.format name k.text) (path ++ [k]) v).map (·.name)) →
      n ∈ (flattenEnts expr red fmt name path es acc).map (·.name)
  | .nil, acc, n, h => by
    rcases h with h | ⟨k, v, hm, _⟩
    · simpa [flattenEnts] using h
    · cases hm
  | .cons k0 v0 rest, acc, n, h => by
    simp only [flattenEnts]
    apply flattenEnts_names expr red fmt name path rest
    rcases h with h | ⟨k, v, hm, hn⟩
    · exact .inl (nitemUpdate_names_mem.mpr (.inl h))
    · cases hm with
      | head _ => exact .inl (nitemUpdate_names_mem.mpr (.inr hn))
      | tail _ _ hm' => exact .inr ⟨k, v, hm', hn⟩

/-- no leaf is lost: every leaf of the value contributes its printed name to the flattened dict (the
column kept under that name is the last leaf printing so, `flattenVal_sound`) -/
theorem flattenVal_complete (expr : String) (red : Bool) {v : Val} {name : String} {q : List Field}
    {n' : String} {c : Col} (h : Leaf v name q n' c) :
    ∀ path, n' ∈ (flattenVal expr red name path v).map (·.name) := by
  induction h with
  | col c name => intro path; simp [flattenVal]
  | @dict es m k v name name' r c hm _ ih =>
    intro path
    simp only [flattenVal]
    exact flattenEnts_names expr red (fmtOfMeta m) name path es [] name' (.inr ⟨k, v, hm, ih (path ++ [k])⟩)

theorem encodeFactor_complete {f : RFactor} {r : Bool} {items : List NItem} (h : encodeFactor f r = .ok items)
    {v : Val} (hv : encodedTree f r = .ok v) {q : List Field} {n' : String} {c : Col}
    (hl : Leaf v f.expr q n' c) : ∃ it ∈ items, it.name = n' := by
  unfold encodeFactor at h
  simp only [hv, Except.ok.injEq] at h
  subst h
  have := flattenVal_complete f.expr r hl []
  obtain ⟨it, hit, hn⟩ := List.mem_map.mp this
  exact ⟨it, hit, hn⟩

/-! ### what the label parts of plain factors name, in terms of the data -/

theorem entsMem_entsOfList {k : Field} {v : Val} : ∀ {cols : List (Field × Col)},
    EntsMem k v (entsOfList cols) → ∃ c, (k, c) ∈ cols ∧ v = .col c
  | [], h => by cases h
  | x :: r, h => by
    cases h with
    | head _ => exact ⟨x.2, by simp, rfl⟩
    | tail _ _ h' =>
      obtain ⟨c, hc, hv⟩ := entsMem_entsOfList h'
      exact ⟨c, by simp [hc], hv⟩

theorem mem_dummyCols {levels : List Field} {codes : List (Option Nat)} {k : Field} {c : Col} (off : Nat)
    (h : (k, c) ∈ (levels.zipIdx off).map (fun lj => (lj.1, indicator codes lj.2))) :
    ∃ j, levels[j]? = some k ∧ c = indicator codes (j + off) := by
  simp only [List.mem_map, Prod.mk.injEq] at h
  obtain ⟨⟨l, i⟩, hm, rfl, rfl⟩ := h
  obtain ⟨h1, h2, h3⟩ := List.mem_zipIdx hm
  have hlt : i - off < levels.length := by omega
  refine ⟨i - off, ?_, ?_⟩
  · rw [List.getElem?_eq_getElem hlt, h3]
  · have : i - off + off = i := by omega
    rw [this]

theorem leaf_entsOfList {cols : List (Field × Col)} {m : Option Meta} {name : String} {path : List Field}
    {n' : String} {c : Col} (h : Leaf (.dict (entsOfList cols) m) name path n' c) :
    ∃ k, (k, c) ∈ cols ∧ path = [k] ∧ n' = (fmtOfMeta m).format name k.text := by
  cases h with
  | dict hm hl =>
    obtain ⟨c0, hc0, rfl⟩ := entsMem_entsOfList hm
    cases hl with
    | col _ _ => exact ⟨_, hc0, rfl, rfl⟩

theorem encodedTree_cat_full (f : RFactor) (levels : List Field) (codes : List (Option Nat))
    (hraw : f.raw = .cat levels codes) (hk : f.kind = .categorical) (henc : f.md.encoded = false)
    (hext : f.ext = none) (he : f.md.hasEncoder = false) (hnd : (levels.map (·.text)).Nodup) :
    encodedTree f false = .ok (.dict (entsOfList (dummyCols levels codes))
      (some { dummyMeta levels with encoded := true })) := by
  have hkeys : ((dummyCols levels codes).map (·.1)).Nodup := by
    rw [dummyCols_keys]; exact nodup_of_nodup_text hnd
  unfold encodedTree encodedObject
  simp only [henc, hext, he, hk, hraw, Bool.false_eq_true, if_false, dummyVal, finalize, dropStep,
    Bool.and_false, Option.getD_some, entsOfCols_of_nodup _ hkeys]

theorem encodedTree_cat_reduced (f : RFactor) (l0 : Field) (rest : List Field) (codes : List (Option Nat))
    (hraw : f.raw = .cat (l0 :: rest) codes) (hk : f.kind = .categorical) (henc : f.md.encoded = false)
    (hext : f.ext = none) (he : f.md.hasEncoder = false) (hnd : ((l0 :: rest).map (·.text)).Nodup)
    (hspans : Gen.treatmentSpansIntercept = true) :
    encodedTree f true = .ok (.dict (entsOfList ((rest.zipIdx 1).map (fun lj => (lj.1, indicator codes lj.2))))
      (some { dummyMeta (l0 :: rest) with encoded := true, reduced := true })) := by
  have hkeys : ((dummyCols (l0 :: rest) codes).map (·.1)).Nodup := by
    rw [dummyCols_keys]; exact nodup_of_nodup_text hnd
  have hcols : dummyCols (l0 :: rest) codes =
      (l0, indicator codes 0) :: (rest.zipIdx 1).map (fun lj => (lj.1, indicator codes lj.2)) := by
    simp [dummyCols, List.zipIdx_cons]
  have hE : entsOfCols (dummyCols (l0 :: rest) codes) =
      entsOfList ((l0, indicator codes 0) :: (rest.zipIdx 1).map (fun lj => (lj.1, indicator codes lj.2))) := by
    rw [entsOfCols_of_nodup _ hkeys, hcols]
  unfold encodedTree encodedObject
  simp only [henc, hext, he, hk, hraw, Bool.false_eq_true, if_false, dummyVal, finalize, dropStep,
    Option.getD_some, dummyMeta, hE, hspans, List.isEmpty_cons, Bool.not_false,
    Bool.and_self, if_true, List.head?_cons, entsOfList, Ents.del]

/-- what a label part of a plain categorical column names, in terms of the DATA -/
theorem plain_categorical_leaf (f : RFactor) (levels : List Field) (codes : List (Option Nat))
    (hraw : f.raw = .cat levels codes) (hk : f.kind = .categorical) (henc : f.md.encoded = false)
    (hext : f.ext = none) (he : f.md.hasEncoder = false) (hnd : (levels.map (·.text)).Nodup)
    (r : Bool) (v : Val) (hv : encodedTree f r = .ok v) (path : List Field) (name : String) (col : Col)
    (hl : Leaf v f.expr path name col) :
    ∃ j l, levels[j]? = some l ∧ path = [l] ∧ col = indicator codes j ∧
      name = f.expr ++ (if r then "[T." else "[") ++ l.text ++ "]" ∧ (r = true → j ≠ 0) := by
  cases r with
  | false =>
    rw [encodedTree_cat_full f levels codes hraw hk henc hext he hnd] at hv
    simp only [Except.ok.injEq] at hv
    subst hv
    obtain ⟨k, hk', hp, hn⟩ := leaf_entsOfList hl
    obtain ⟨j, hj, hc⟩ := mem_dummyCols 0 (by simpa [dummyCols] using hk')
    refine ⟨j, k, hj, hp, by simpa using hc, ?_, by simp⟩
    rw [hn]
    simp [fmtOfMeta, Meta.getFormat, dummyMeta, treatmentFormat_format]
  | true =>
    cases levels with
    | nil =>
      -- no levels: nothing spans the intercept, nothing is dropped, there is no column
      unfold encodedTree encodedObject at hv
      simp only [henc, hext, he, hk, hraw, Bool.false_eq_true, if_false, dummyVal, finalize, dropStep,
        Option.getD_some, dummyMeta, List.isEmpty_nil, Bool.not_true, Bool.false_and, dummyCols,
        List.zipIdx_nil, List.map_nil, entsOfCols, List.foldl_nil, Except.ok.injEq] at hv
      subst hv
      cases hl with
      | dict hm _ => cases hm
    | cons l0 rest =>
      rw [encodedTree_cat_reduced f l0 rest codes hraw hk henc hext he hnd (by decide)] at hv
      simp only [Except.ok.injEq] at hv
      subst hv
      obtain ⟨k, hk', hp, hn⟩ := leaf_entsOfList hl
      obtain ⟨j, hj, hc⟩ := mem_dummyCols 1 hk'
      refine ⟨j + 1, k, by simpa using hj, hp, hc, ?_, by simp⟩
      rw [hn]
      simp [fmtOfMeta, Meta.getFormat, dummyMeta, treatmentFormatReduced_format]

/-- what a label part of a numerical single column names: the column itself, printed as the factor -/
theorem plain_numerical_leaf (f : RFactor) (c : Col) (hraw : f.raw = .val (.col c)) (hk : f.kind = .numerical)
    (henc : f.md.encoded = false) (hext : f.ext = none) (he : f.md.hasEncoder = false)
    (r : Bool) (v : Val) (hv : encodedTree f r = .ok v) (path : List Field) (name : String) (col : Col)
    (hl : Leaf v f.expr path name col) : path = [] ∧ col = c ∧ name = f.expr := by
  unfold encodedTree encodedObject at hv
  simp only [henc, hext, he, hk, hraw, Bool.false_eq_true, if_false, asColumns, Val.mapDict, finalize, dropStep,
    Except.ok.injEq] at hv
  subst hv
  cases hl with
  | col _ _ => exact ⟨rfl, rfl, rfl⟩

end FormulaicVerif.Proofs.C02N
