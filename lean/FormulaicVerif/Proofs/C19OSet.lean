import FormulaicVerif.Model.OrderedSet
import FormulaicVerif.Proofs.C19LM
/-! Helper lemmas for C19, part 11: `OrderedSet`. Not obligations. -/
namespace FormulaicVerif.Proofs.C19
open FormulaicVerif.Model FormulaicVerif.Model.OSet FormulaicVerif.Spec.Containers

theorem mk_eq (xs : List String) : mk xs = firstOcc xs := by
  have := dedup_eq xs
  simpa [LMap.dedup, mk] using this

theorem mk_nodup (xs : List String) : (mk xs).Nodup := by rw [mk_eq]; exact firstOcc_nodup xs

theorem mem_mk (xs : List String) (x : String) : x ∈ mk xs ↔ x ∈ xs := by rw [mk_eq]; exact mem_firstOcc xs x

theorem mk_of_nodup (xs : List String) (h : xs.Nodup) : mk xs = xs := by rw [mk_eq]; exact firstOcc_of_nodup xs h

theorem contains_iff (a : OS) (x : String) : OSet.contains a x = true ↔ x ∈ a := by
  simp [OSet.contains]

theorem contains_false_iff (a : OS) (x : String) : OSet.contains a x = false ↔ x ∉ a := by
  simp [OSet.contains]

theorem asSet_nodup (b : Other) (hb : ∀ s, b = .set s → s.Nodup) : b.asSet.Nodup := by
  cases b with
  | set s => exact hb s rfl
  | list xs => exact mk_nodup xs

theorem mem_asSet (b : Other) (x : String) : x ∈ b.asSet ↔ x ∈ b.elems := by
  cases b with
  | set s => rfl
  | list xs => exact mem_mk xs x

theorem subset_antisymm_of_length (a : List String) : ∀ b : List String, a.Nodup → b.Nodup → a ⊆ b →
    a.length = b.length → b ⊆ a := by
  induction a with
  | nil =>
    intro b _ _ _ hl
    have : b = [] := List.length_eq_zero_iff.1 hl.symm
    subst this; exact fun _ h => h
  | cons x t ih =>
    intro b ha hb hsub hl
    rw [List.nodup_cons] at ha
    have hx : x ∈ b := hsub (List.mem_cons_self ..)
    have htsub : t ⊆ b.erase x := by
      intro y hy
      have hyx : y ≠ x := fun h => ha.1 (h ▸ hy)
      exact (List.mem_erase_of_ne hyx).2 (hsub (List.mem_cons_of_mem _ hy))
    have hlen : t.length = (b.erase x).length := by
      rw [List.length_erase]; simp only [hx, if_true]
      have : 1 ≤ b.length := List.length_pos_of_mem hx
      simp only [List.length_cons] at hl
      omega
    have := ih (b.erase x) ha.2 (hb.erase x) htsub hlen
    intro y hy
    by_cases hyx : y = x
    · subst hyx; exact List.mem_cons_self ..
    · exact List.mem_cons_of_mem _ (this ((List.mem_erase_of_ne hyx).2 hy))

end FormulaicVerif.Proofs.C19
