import FormulaicVerif.Spec.Matrix
/-! Helper lemmas for C02: `itertools.product` order, the ordered dictionary, `functools.reduce`,
and the equality of the fast path with the base `_get_columns_for_term`. Core Lean only. -/
namespace FormulaicVerif.Proofs.C02
open FormulaicVerif.Model FormulaicVerif.Spec

/-! ### itertools.product vs kron -/

theorem kron_append_singleton {α} (xs : List (List α)) (c : α) :
    kron (xs ++ [[c]]) = (kron xs).map (· ++ [c]) := by
  induction xs with
  | nil => simp [kron]
  | cons f r ih =>
    simp only [List.cons_append, kron, ih, List.flatMap_map, List.map_flatMap, List.map_map]
    rfl

theorem iproduct_snoc {α} (xss : List (List α)) (ys : List α) :
    iproduct (xss ++ [ys]) = (iproduct xss).flatMap (fun p => ys.map (fun y => p ++ [y])) := by
  induction xss with
  | nil =>
    simp only [iproduct, List.nil_append, List.flatMap_cons, List.flatMap_nil, List.append_nil]
    induction ys with
    | nil => rfl
    | cons y r ih =>
      simp only [List.map_cons, List.map_nil] at ih
      simp [List.flatMap_cons, ih]
  | cons xs rest ih =>
    simp only [List.cons_append, iproduct, ih, List.flatMap_assoc, List.map_flatMap, List.flatMap_map,
      List.map_map]
    rfl

/-- the `List.product` order lemma: `itertools.product(*reversed(factors))`, each tuple reversed,
enumerates the Kronecker order in which the first factor varies fastest -/
theorem iproduct_reverse {α} (fs : List (List α)) :
    (iproduct fs.reverse).map List.reverse = kron fs := by
  induction fs with
  | nil => simp [iproduct, kron]
  | cons f r ih =>
    simp only [List.reverse_cons, iproduct_snoc, kron, ← ih, List.map_flatMap, List.flatMap_map,
      List.map_map]
    congr 1
    funext p
    simp
/-! ### columns: element-wise product is commutative and associative -/

theorem Col.mul_comm (a b : Col) : Col.mul a b = Col.mul b a := by
  unfold Col.mul
  induction a generalizing b with
  | nil => cases b <;> rfl
  | cons x a ih =>
    cases b with
    | nil => rfl
    | cons y b => simp [List.zipWith_cons_cons, Rat.mul_comm, ih]

theorem Col.mul_assoc (a b c : Col) : Col.mul (Col.mul a b) c = Col.mul a (Col.mul b c) := by
  unfold Col.mul
  induction a generalizing b c with
  | nil => simp
  | cons x a ih =>
    cases b with
    | nil => simp
    | cons y b =>
      cases c with
      | nil => simp
      | cons z c => simp [List.zipWith_cons_cons, Rat.mul_assoc, ih]

/-- `reduce` with `none` as the "no value yet" state -/
def ostep (acc : Option Col) (c : Col) : Option Col :=
  match acc with
  | none => some c
  | some a => some (Col.mul a c)

def omul : Option Col → Option Col → Option Col
  | none, y => y
  | x, none => x
  | some a, some b => some (Col.mul a b)

def ofold (l : List Col) : Option Col := l.foldl ostep none

theorem ostep_eq (acc : Option Col) (c : Col) : ostep acc c = omul acc (some c) := by
  cases acc <;> rfl

theorem omul_assoc (x y z : Option Col) : omul (omul x y) z = omul x (omul y z) := by
  cases x <;> cases y <;> cases z <;> simp [omul, Col.mul_assoc]

theorem omul_comm (x y : Option Col) : omul x y = omul y x := by
  cases x <;> cases y <;> simp [omul, Col.mul_comm]

theorem omul_none_right (x : Option Col) : omul x none = x := by cases x <;> rfl

theorem foldl_ostep (acc : Option Col) (b : List Col) : b.foldl ostep acc = omul acc (ofold b) := by
  induction b generalizing acc with
  | nil => simp [ofold, omul_none_right]
  | cons x b ih =>
    simp only [List.foldl_cons, ofold]
    rw [ih, ih (ostep none x), ostep_eq, ostep_eq, omul_assoc]
    rfl

theorem ofold_append (a b : List Col) : ofold (a ++ b) = omul (ofold a) (ofold b) := by
  simp only [ofold, List.foldl_append]
  exact foldl_ostep _ _

theorem ofold_perm {a b : List Col} (h : a.Perm b) : ofold a = ofold b := by
  unfold ofold
  apply List.Perm.foldl_eq' h
  intro x _ y _ z
  simp only [ostep_eq, omul_assoc]
  congr 1
  exact omul_comm _ _

theorem reduceMul_eq (l : List Col) :
    reduceMul l = match ofold l with | none => .error .typeError | some v => .ok v := by
  cases l with
  | nil => rfl
  | cons c cs =>
    simp only [reduceMul, ofold, List.foldl_cons]
    have : ∀ (acc : Col) (l : List Col), l.foldl ostep (some acc) = some (l.foldl Col.mul acc) := by
      intro acc l
      induction l generalizing acc with
      | nil => rfl
      | cons x l ih => simp only [List.foldl_cons, ostep]; exact ih _
    show _ = match cs.foldl ostep (ostep none c) with | none => _ | some v => _
    simp only [ostep, this]

theorem reduceMul_perm {a b : List Col} (h : a.Perm b) : reduceMul a = reduceMul b := by
  rw [reduceMul_eq, reduceMul_eq, ofold_perm h]

theorem reduceMul_append_singleton (a b : List Col) (v : Col) (h : reduceMul b = .ok v) :
    reduceMul (a ++ [v]) = reduceMul (a ++ b) := by
  rw [reduceMul_eq] at h
  rw [reduceMul_eq, reduceMul_eq, ofold_append, ofold_append]
  have : ofold b = some v := by
    cases hb : ofold b with
    | none => simp [hb] at h
    | some w => simp [hb] at h; simp [h]
  rw [this]
  rfl

theorem reduceMul_cons_ne (c : Col) (cs : List Col) : reduceMul (c :: cs) = .ok (colProd 0 (c :: cs)) := rfl

/-! ### foldE -/

theorem foldE_ok {α β ε} (f : β → α → Except ε β) (g : β → α → β) (l : List α) (b : β)
    (h : ∀ b, ∀ a ∈ l, f b a = .ok (g b a)) : foldE f b l = .ok (l.foldl g b) := by
  induction l generalizing b with
  | nil => rfl
  | cons a l ih =>
    simp only [foldE, h b a (by simp), List.foldl_cons]
    exact ih _ (fun b a ha => h b a (by simp [ha]))

/-! ### tuples of a product -/

theorem length_of_mem_kron {α} {fs : List (List α)} {p : List α} (h : p ∈ kron fs) :
    p.length = fs.length := by
  induction fs generalizing p with
  | nil => simp [kron] at h; simp [h]
  | cons f r ih =>
    simp only [kron, List.mem_flatMap, List.mem_map] at h
    obtain ⟨t, ht, x, _, rfl⟩ := h
    simp [ih ht]

theorem mem_kron_cons {α} {f : List α} {r : List (List α)} {p : List α} :
    p ∈ kron (f :: r) ↔ ∃ x ∈ f, ∃ t ∈ kron r, p = x :: t := by
  simp only [kron, List.mem_flatMap, List.mem_map]
  constructor
  · rintro ⟨t, ht, x, hx, rfl⟩; exact ⟨x, hx, t, ht, rfl⟩
  · rintro ⟨x, hx, t, ht, rfl⟩; exact ⟨t, ht, x, hx, rfl⟩

theorem iproduct_eq_kron_reverse {α} (fs : List (List α)) :
    iproduct fs.reverse = (kron fs).map List.reverse := by
  rw [← iproduct_reverse, List.map_map]
  have : (List.reverse ∘ List.reverse : List α → List α) = id := by funext l; simp
  rw [this, List.map_id]

/-! ### the base implementation is the dictionary of the Kronecker entries -/

theorem baseStep_ok (s : Rat) (out : List Entry) (rp : List Item) (h : rp ≠ []) :
    baseStep s out rp = .ok (dictSet out (entryOf 0 s rp.reverse)) := by
  have hne : rp.reverse ≠ [] := by simpa using h
  unfold baseStep entryOf
  cases hr : rp.reverse with
  | nil => exact absurd hr hne
  | cons x t => simp only [List.map_cons, reduceMul_cons_ne]

theorem columnsBase_nil (s : Rat) : columnsBase [] s = .error .typeError := rfl

theorem columnsBase_eq (fs : List (List Item)) (s : Rat) (h : fs ≠ []) :
    columnsBase fs s = .ok (dictOfList ((kron fs).map (entryOf 0 s))) := by
  unfold columnsBase
  rw [iproduct_eq_kron_reverse]
  rw [foldE_ok (baseStep s) (fun out rp => dictSet out (entryOf 0 s rp.reverse))]
  · simp only [dictOfList, dictUpdate, List.foldl_map, List.reverse_reverse]
  · intro b a ha
    apply baseStep_ok
    simp only [List.mem_map] at ha
    obtain ⟨p, hp, rfl⟩ := ha
    have := length_of_mem_kron hp
    intro hnil
    have h0 : p.length = 0 := by simpa using congrArg List.length hnil
    rw [this] at h0
    exact h (List.length_eq_zero_iff.mp h0)

/-- for a non-empty tuple the value does not depend on the row count used for the empty product -/
theorem entryOf_irrel (n m : Nat) (s : Rat) (p : List Item) (h : p ≠ []) : entryOf n s p = entryOf m s p := by
  cases p with
  | nil => exact absurd rfl h
  | cons x t => rfl

/-! ### the fast path -/

def isSolo (f : List Item) : Bool := f.length == 1

/-- the entries of a tuple that belong to the non-solo factors -/
def nsp : List (List Item) → List Item → List Item
  | f :: fs, x :: p => if isSolo f then nsp fs p else x :: nsp fs p
  | _, _ => []

theorem kron_filter_nonsolo (fs : List (List Item)) :
    kron (fs.filter (fun f => !isSolo f)) = (kron fs).map (nsp fs) := by
  induction fs with
  | nil => simp [kron, nsp]
  | cons f r ih =>
    by_cases hs : isSolo f = true
    · have : ∃ x, f = [x] := by
        simp only [isSolo, beq_iff_eq] at hs
        match f, hs with
        | [x], _ => exact ⟨x, rfl⟩
      obtain ⟨x, rfl⟩ := this
      simp only [List.filter_cons, hs, Bool.not_true, Bool.false_eq_true, if_false, ih, kron,
        List.map_cons, List.map_nil, List.map_flatMap, nsp, if_true]
      induction kron r with
      | nil => rfl
      | cons t ts iht => simp [List.flatMap_cons, iht]
    · have hs' : isSolo f = false := by simpa using hs
      simp only [List.filter_cons, hs', Bool.not_false, if_true, kron, ih, List.flatMap_map,
        List.map_flatMap, List.map_map]
      congr 1
      funext t
      simp [Function.comp_def, nsp, hs']

theorem perm_nsp_solo (fs : List (List Item)) (p : List Item) (hp : p ∈ kron fs) :
    p.Perm (nsp fs p ++ soloItems fs) := by
  induction fs generalizing p with
  | nil => simp [kron] at hp; subst hp; simp [nsp, soloItems]
  | cons f r ih =>
    obtain ⟨x, hx, t, ht, rfl⟩ := mem_kron_cons.mp hp
    by_cases hs : isSolo f = true
    · have : f = [x] := by
        simp only [isSolo, beq_iff_eq] at hs
        match f, hs, hx with
        | [y], _, hx => simp at hx; simp [hx]
      subst this
      have hsl : soloItems ([x] :: r) = x :: soloItems r := by
        simp [soloItems]
      simp only [nsp, hs, if_true, hsl]
      exact ((ih t ht).cons x).trans List.perm_middle.symm
    · have hs' : isSolo f = false := by simpa using hs
      have hsl : soloItems (f :: r) = soloItems r := by
        have : (f.length == 1) = false := hs'
        simp [soloItems, this]
      simp only [nsp, hs', Bool.false_eq_true, if_false, hsl, List.cons_append]
      exact (ih t ht).cons x

theorem foldE_fastStep (names : List (String × List Part)) (s : Rat)
    (l : List (List Item)) (g : List Item → List Item)
    (hg : ∀ p ∈ l, reduceMul ((g p).map (·.col)) = reduceMul (p.map (·.col)))
    (hne : ∀ p ∈ l, p ≠ [])
    (pre : List (String × List Part)) (acc : List Entry)
    (hn : names = pre ++ l.map (fun p => (joinColon (p.map (·.name)), p.map (·.part)))) :
    foldE (fastStep names s) (pre.length, acc) (l.map (fun p => (g p).reverse)) =
      .ok (pre.length + l.length, (l.map (entryOf 0 s)).foldl dictSet acc) := by
  induction l generalizing pre acc with
  | nil => simp [foldE]
  | cons p l ih =>
    have hidx : names[pre.length]? = some (joinColon (p.map (·.name)), p.map (·.part)) := by
      rw [hn]; simp
    have hv : reduceMul ((g p).reverse.reverse.map (·.col)) = .ok (colProd 0 (p.map (·.col))) := by
      rw [List.reverse_reverse, hg p (by simp)]
      cases p with
      | nil => exact absurd rfl (hne [] (by simp))
      | cons x t => rfl
    simp only [List.map_cons, foldE, fastStep, hidx, hv, List.foldl_cons]
    have := ih (fun q hq => hg q (by simp [hq])) (fun q hq => hne q (by simp [hq]))
      (pre ++ [(joinColon (p.map (·.name)), p.map (·.part))])
      (dictSet acc ⟨joinColon (p.map (·.name)), p.map (·.part), Col.smul s (colProd 0 (p.map (·.col)))⟩)
      (by rw [hn]; simp)
    simp only [List.length_append, List.length_cons, List.length_nil] at this
    rw [this]
    simp [entryOf, Nat.add_assoc, Nat.add_comm 1]

theorem fastNames_eq (fs : List (List Item)) :
    fastNames fs = (kron fs).map (fun p => (joinColon (p.map (·.name)), p.map (·.part))) := by
  unfold fastNames
  rw [iproduct_eq_kron_reverse, List.map_map]
  congr 1
  funext p
  simp

theorem ne_nil_of_mem_kron {α} {fs : List (List α)} (h : fs ≠ []) {p : List α} (hp : p ∈ kron fs) : p ≠ [] := by
  intro hnil
  have := length_of_mem_kron hp
  rw [hnil] at this
  exact h (List.length_eq_zero_iff.mp this.symm)

/-- C02.2: the pandas / narwhals fast path computes exactly what the base implementation computes -/
theorem columnsFast_eq_base (fs : List (List Item)) (s : Rat) : columnsFast fs s = columnsBase fs s := by
  by_cases hnil : fs = []
  · subst hnil; rfl
  rw [columnsBase_eq fs s hnil]
  unfold columnsFast
  simp only [fastNames_eq]
  by_cases hsolo : (soloItems fs).isEmpty = true
  · -- no solo factor: same loop, names by index
    simp only [fastFactors, hsolo, if_true]
    rw [iproduct_eq_kron_reverse]
    have := foldE_fastStep ((kron fs).map (fun p => (joinColon (p.map (·.name)), p.map (·.part)))) s
      (kron fs) id (fun _ _ => rfl) (fun p hp => ne_nil_of_mem_kron hnil hp) [] [] (by simp)
    simp only [id, List.length_nil] at this
    rw [this]
    rfl
  · have hsolo' : (soloItems fs).isEmpty = false := by simpa using hsolo
    obtain ⟨c0, cs, hcs⟩ : ∃ c0 cs, (soloItems fs).map (·.col) = c0 :: cs := by
      cases h : soloItems fs with
      | nil => simp [h] at hsolo'
      | cons x t => exact ⟨x.col, t.map (·.col), rfl⟩
    have hred : reduceMul ((soloItems fs).map (·.col)) = .ok (colProd 0 (c0 :: cs)) := by rw [hcs]; rfl
    simp only [fastFactors, hsolo', Bool.false_eq_true, if_false, hred]
    generalize hcomb : (⟨joinColon ((soloItems fs).map (·.name)),
      ⟨joinColon ((soloItems fs).map (·.name)), none, false⟩, colProd 0 (c0 :: cs)⟩ : Item) = comb
    have hccol : comb.col = colProd 0 (c0 :: cs) := by rw [← hcomb]
    have hk : kron (fs.filter (fun f => !(f.length == 1)) ++ [[comb]]) =
        (kron fs).map (fun p => nsp fs p ++ [comb]) := by
      rw [kron_append_singleton]
      have := kron_filter_nonsolo fs
      simp only [isSolo] at this
      rw [this, List.map_map]
      rfl
    rw [iproduct_eq_kron_reverse, hk, List.map_map]
    have := foldE_fastStep ((kron fs).map (fun p => (joinColon (p.map (·.name)), p.map (·.part)))) s
      (kron fs) (fun p => nsp fs p ++ [comb]) ?_ (fun p hp => ne_nil_of_mem_kron hnil hp) [] [] (by simp)
    · simp only [List.length_nil] at this
      have e : (List.reverse ∘ fun p => nsp fs p ++ [comb]) = fun p => (nsp fs p ++ [comb]).reverse := rfl
      rw [e, this]
      rfl
    · intro p hp
      simp only [List.map_append, List.map_cons, List.map_nil, hccol]
      rw [reduceMul_append_singleton _ _ _ hred, ← List.map_append]
      exact (reduceMul_perm ((perm_nsp_solo fs p hp).map _)).symm
end FormulaicVerif.Proofs.C02
