import FormulaicVerif.Proofs.C01Runs
/-! # C01 — the `.` wildcard in the shunting-yard

Part 1: the shunting-yard is PARAMETRIC in the trees it stores — for every map `g` on trees that commutes
with `node` (`g (node o l) = node o (l.map g)`), running on a state whose output queue is mapped by `g`
gives the mapped result (`Proofs/C01Spans.lean` is the instance "forget source spans").

Part 2: the operator token `.` (arity 0, postfix, precedence 1000) is pushed on the operator stack and is
materialised as the tree `node . []` by whatever comes next — a binary operator, a closing bracket, the end:
exactly at the place where an ATOM would have put its leaf. Hence a token list with `.` tokens parses to the
tree of the same list with a placeholder atom `x₀` in their place, with `leaf x₀` replaced by `node . []`
(`tokensToAst_dot`). -/
namespace FormulaicVerif.Proofs.C01ShuntDot
open FormulaicVerif FormulaicVerif.Model FormulaicVerif.Proofs.ShuntC
open FormulaicVerif.Proofs.C01Runs
open FormulaicVerif.Spec.Wilkinson (documentedTable)

/-! ### part 1: parametricity -/

def mS (g : Ast → Ast) (s : ShState) : ShState := ⟨s.out.map g, s.stack⟩
def mapS (g : Ast → Ast) (r : Except ParseErr ShState) : Except ParseErr ShState :=
  match r with | .ok s => .ok (mS g s) | .error e => .error e
def mapO (g : Ast → Ast) (r : Except ParseErr (List Ast)) : Except ParseErr (List Ast) :=
  match r with | .ok s => .ok (s.map g) | .error e => .error e

/-- `g` commutes with `node` -/
def Structural (g : Ast → Ast) : Prop := ∀ (o : OpSpec) (l : List Ast), g (.node o l) = .node o (l.map g)

theorem operate_map (g : Ast → Ast) (hg : Structural g) (o : OpSpec) (idx : Nat) (out : List Ast) :
    operate o idx (out.map g) = mapO g (operate o idx out) := by
  unfold operate
  cases o.fixity <;> simp only [List.length_map] <;>
  · split
    · rfl
    · simp only [mapO, List.map_append, List.map_take, List.map_drop, List.map_cons, List.map_nil, hg o]

theorem popWhile_map (g : Ast → Ast) (hg : Structural g) (c : OpSpec) : ∀ (stk : List SEntry) (out : List Ast),
    popWhile c (out.map g) stk = mapS g (popWhile c out stk)
  | [], out => rfl
  | .ctx ch i :: stk, out => rfl
  | .op o i :: stk, out => by
    simp only [popWhile]
    split
    · rw [operate_map g hg]
      cases h : operate o i out with
      | error e => rfl
      | ok out' => simp only [mapO]; exact popWhile_map g hg c stk out'
    · rfl

theorem tryCands_map (g : Ast → Ast) (hg : Structural g) : ∀ (cs : List OpSpec) (s : ShState),
    tryCands cs (mS g s) = mapS g (tryCands cs s)
  | [], _ => rfl
  | c :: cs, s => by
    simp only [tryCands]
    show (if (!acceptsContext c s.stack) = true then tryCands cs (mS g s)
          else if c.disabled = true then tryCands cs (mS g s)
          else match popWhile c (s.out.map g) s.stack with
            | .error e => .error e
            | .ok s' =>
              if validHere c (match s'.stack with | e :: _ => s'.out.length - e.idx | [] => s'.out.length) = true
              then .ok { s' with stack := .op c s'.out.length :: s'.stack }
              else tryCands cs s') = _
    rw [popWhile_map g hg, tryCands_map g hg cs s]
    split
    · rfl
    · split
      · rfl
      · cases h : popWhile c s.out s.stack with
        | error e => rfl
        | ok s' =>
          have ih := tryCands_map g hg cs s'
          obtain ⟨out', stk'⟩ := s'
          simp only [mapS, mS, List.length_map] at ih ⊢
          cases stk' with
          | nil =>
            simp only
            by_cases hv : validHere c out'.length = true
            · rw [if_pos hv, if_pos hv]
            · rw [if_neg hv, if_neg hv]; exact ih
          | cons e tl =>
            simp only
            by_cases hv : validHere c (out'.length - e.idx) = true
            · rw [if_pos hv, if_pos hv]
            · rw [if_neg hv, if_neg hv]; exact ih

theorem closeCtx_map (g : Ast → Ast) (hg : Structural g) (op : Char) : ∀ (stk : List SEntry) (out : List Ast),
    closeCtx op (out.map g) stk = mapS g (closeCtx op out stk)
  | [], _ => rfl
  | .ctx c i :: stk, out => by
    simp only [closeCtx]
    split <;> rfl
  | .op o i :: stk, out => by
    simp only [closeCtx]
    rw [operate_map g hg]
    cases h : operate o i out with
    | error e => rfl
    | ok out' => simp only [mapO]; exact closeCtx_map g hg op stk out'

theorem runCands_map (g : Ast → Ast) (hg : Structural g) : ∀ (gs : List (List OpSpec)) (s : ShState),
    runCands gs (mS g s) = mapS g (runCands gs s)
  | [], _ => rfl
  | cs :: rest, s => by
    simp only [runCands]
    rw [tryCands_map g hg]
    cases h : tryCands cs s with
    | error e => rfl
    | ok s' => simp only [mapS]; exact runCands_map g hg rest s'

theorem finish_map (g : Ast → Ast) (hg : Structural g) : ∀ (stk : List SEntry) (out : List Ast),
    finish (out.map g) stk = mapO g (finish out stk)
  | [], _ => rfl
  | .ctx _ _ :: _, _ => rfl
  | .op o i :: stk, out => by
    simp only [finish]
    rw [operate_map g hg]
    cases h : operate o i out with
    | error e => rfl
    | ok out' => simp only [mapO]; exact finish_map g hg stk out'

/-- one step, for a token whose leaf `g` leaves alone -/
theorem shuntStep_map (g : Ast → Ast) (hg : Structural g) (tab : OpTable) (s : ShState) (t : Tok)
    (hl : g (.leaf t) = .leaf t) : shuntStep tab (mS g s) t = mapS g (shuntStep tab s t) := by
  unfold shuntStep
  cases hk : t.kind with
  | none => simp [mapS, mS, hl]
  | some k =>
    cases k with
    | context =>
      simp only [mS, List.length_map]
      rw [closeCtx_map g hg '(' s.stack s.out, closeCtx_map g hg '[' s.stack s.out]
      split
      · rfl
      · split
        · rfl
        · split
          · rfl
          · split <;> rfl
    | operator =>
      simp only
      cases resolveToken tab t.text with
      | error e => rfl
      | ok groups => exact runCands_map g hg groups s
    | value => simp [mapS, mS, hl]
    | name => simp [mapS, mS, hl]
    | python => simp [mapS, mS, hl]

/-! ### part 2: the `.` token -/

/-- the `.` operator token (what `sanitize_tokens` makes of an unquoted lone `.`) -/
def dotTok : Tok := opTok ['.']
/-- the placeholder atom: a token no tokenizer produces (it has no kind) -/
def x0 : Tok := { text := ['.'], kind := none }
/-- the `.` operator of the documented table -/
def dotSpec : OpSpec :=
  { symbol := ".", arity := 0, prec := 1000, assoc := .none, fixity := .postfix, structural := false,
    disabled := false, ctx := .always }
def dotNode : Ast := .node dotSpec []

/-- replace every placeholder leaf by the `.` node -/
def rho : Ast → Ast
  | .leaf t => if t = x0 then dotNode else .leaf t
  | .node o args => .node o (rhoList args)
where
  rhoList : List Ast → List Ast
    | [] => []
    | a :: as => rho a :: rhoList as

theorem rhoList_eq : ∀ l : List Ast, rho.rhoList l = l.map rho
  | [] => rfl
  | a :: as => by simp [rho.rhoList, rhoList_eq as]

theorem rho_structural : Structural rho := fun o l => by rw [rho, rhoList_eq]

theorem rho_leaf (t : Tok) (h : t ≠ x0) : rho (.leaf t) = .leaf t := by simp [rho, h]
theorem rho_x0 : rho (.leaf x0) = dotNode := by simp [rho]

theorem resolve_dot (a b c : Bool) : resolveToken (documentedTable a b c) ['.'] = .ok [[dotSpec]] := by
  cases a <;> cases b <;> cases c <;> rfl

/-- every operator on the stack has precedence at most that of `.` -/
def StackLe (stk : List SEntry) : Prop := ∀ o i, SEntry.op o i ∈ stk → o.prec ≤ 1000

theorem stackLe_nil : StackLe [] := fun _ _ h => by cases h
theorem stackLe_tail {e : SEntry} {stk : List SEntry} (h : StackLe (e :: stk)) : StackLe stk :=
  fun o i hm => h o i (List.mem_cons_of_mem _ hm)
theorem stackLe_cons_op {o : OpSpec} {i : Nat} {stk : List SEntry} (ho : o.prec ≤ 1000) (h : StackLe stk) :
    StackLe (.op o i :: stk) := by
  intro o' i' hm
  rcases List.mem_cons.1 hm with he | hm
  · injection he with h1 _; subst h1; exact ho
  · exact h o' i' hm
theorem stackLe_cons_ctx {c : Char} {i : Nat} {stk : List SEntry} (h : StackLe stk) : StackLe (.ctx c i :: stk) := by
  intro o' i' hm
  rcases List.mem_cons.1 hm with he | hm
  · cases he
  · exact h o' i' hm

theorem operate_dot (out : List Ast) : operate dotSpec out.length out = .ok (out ++ [dotNode]) := by
  simp [operate, dotSpec, dotNode]

/-- `.` in the operator table: pushed, nothing popped -/
theorem step_dot (a b c : Bool) (s : ShState) (hs : StackLe s.stack) :
    shuntStep (documentedTable a b c) s dotTok = .ok ⟨s.out, .op dotSpec s.out.length :: s.stack⟩ := by
  unfold dotTok
  rw [step_op _ s ['.'] [dotSpec] (resolve_dot a b c)]
  have hacc : acceptsContext dotSpec s.stack = true := by simp [acceptsContext, dotSpec]
  have hpop : popWhile dotSpec s.out s.stack = .ok ⟨s.out, s.stack⟩ := by
    apply popWhile_stop
    intro o ho
    cases hstk : s.stack with
    | nil => rw [hstk] at ho; cases ho
    | cons e stk =>
      rw [hstk] at ho
      cases e with
      | ctx ch i => cases ho
      | op o' i =>
        simp only [topOp, Option.some.injEq] at ho
        subst ho
        have hle := hs o' i (by rw [hstk]; simp)
        have h1 : ¬ o'.prec > 1000 := by omega
        simp [popCond, dotSpec, h1]
  simp only [tryCands, hacc, hpop, show dotSpec.disabled = false from rfl, Bool.not_true, Bool.false_eq_true,
    if_false]
  have hv : ∀ n, validHere dotSpec n = true := fun n => by simp [validHere, dotSpec]
  simp [hv]

theorem accepts_pending (c : OpSpec) (hc : c.prec < 1000) (n : Nat) (st : List SEntry) :
    acceptsContext c (.op dotSpec n :: st) = acceptsContext c st := by
  have hf : ¬ (dotSpec.prec ≤ c.prec) := by show ¬ ((1000 : Int) ≤ c.prec); omega
  unfold acceptsContext
  simp only [List.reverse_cons, List.filter_append, List.filter_cons, List.filter_nil, hf, decide_false,
    Bool.false_eq_true, if_false, List.append_nil]

theorem popCond_dot (c : OpSpec) (hc : c.prec < 1000) : popCond dotSpec c = true := by
  have : dotSpec.prec > c.prec := by show (1000 : Int) > c.prec; omega
  simp [popCond, this]

/-- a pending `.` is materialised by the first candidate that gets as far as popping -/
theorem tryCands_pending : ∀ (cs : List OpSpec), (∀ c ∈ cs, c.prec < 1000) → ∀ (out : List Ast) (st : List SEntry),
    tryCands cs ⟨out, .op dotSpec out.length :: st⟩ = tryCands cs ⟨out ++ [dotNode], st⟩
  | [], _, _, _ => rfl
  | c :: cs, h, out, st => by
    have hc := h c (by simp)
    have ih := tryCands_pending cs (fun c' h' => h c' (by simp [h'])) out st
    simp only [tryCands, accepts_pending c hc]
    split
    · exact ih
    · split
      · exact ih
      · simp only [popWhile, popCond_dot c hc, if_true, operate_dot]

theorem runCands_pending (gs : List (List OpSpec)) (hne : gs ≠ []) (h : ∀ cs ∈ gs, ∀ c ∈ cs, c.prec < 1000)
    (out : List Ast) (st : List SEntry) :
    runCands gs ⟨out, .op dotSpec out.length :: st⟩ = runCands gs ⟨out ++ [dotNode], st⟩ := by
  cases gs with
  | nil => exact absurd rfl hne
  | cons cs rest =>
    simp only [runCands, tryCands_pending cs (h cs (by simp)) out st]

theorem closeCtx_pending (ch : Char) (out : List Ast) (st : List SEntry) :
    closeCtx ch out (.op dotSpec out.length :: st) = closeCtx ch (out ++ [dotNode]) st := by
  simp only [closeCtx, operate_dot]

theorem finish_pending (out : List Ast) (st : List SEntry) :
    finish out (.op dotSpec out.length :: st) = finish (out ++ [dotNode]) st := by
  simp only [finish, operate_dot]

/-- a token that may follow a `.`: a closing bracket, or an operator token all of whose candidates bind
less tightly than `.` -/
def Follower (tab : OpTable) (u : Tok) : Prop :=
  (u.kind = some .context ∧ (u.text = [')'] ∨ u.text = [']'])) ∨
  (u.kind = some .operator ∧ ∃ gs, resolveToken tab u.text = .ok gs ∧ gs ≠ [] ∧ ∀ cs ∈ gs, ∀ c ∈ cs, c.prec < 1000)

/-- the step after a `.`: as if the `.` node were in the output queue already -/
theorem shuntStep_pending (tab : OpTable) (u : Tok) (hu : Follower tab u) (out : List Ast) (st : List SEntry) :
    shuntStep tab ⟨out, .op dotSpec out.length :: st⟩ u = shuntStep tab ⟨out ++ [dotNode], st⟩ u := by
  rcases hu with ⟨hk, ht⟩ | ⟨hk, gs, hr, hne, hlow⟩
  · unfold shuntStep
    simp only [hk]
    rcases ht with ht | ht <;> simp [ht, closeCtx_pending]
  · unfold shuntStep
    simp only [hk, hr]
    exact runCands_pending gs hne hlow out st

/-! ### the stack invariant: nothing binds tighter than `.` -/

theorem table_le (a b c : Bool) : ∀ p ∈ documentedTable a b c, ∀ o ∈ p.2, o.prec ≤ 1000 := by
  cases a <;> cases b <;> cases c <;> decide

theorem lookup_le (a b c : Bool) (k : String) (cs : List OpSpec) (h : (documentedTable a b c).lookup k = some cs) :
    ∀ o ∈ cs, o.prec ≤ 1000 := by
  unfold OpTable.lookup at h
  cases hf : (documentedTable a b c).find? (fun p => p.1 == k) with
  | none => rw [hf] at h; cases h
  | some p =>
    rw [hf] at h
    simp only [Option.some.injEq] at h
    subst h
    exact table_le a b c p (List.mem_of_find?_eq_some hf)

theorem mapM_le (a b c : Bool) : ∀ (sym : List Char) (gs : List (List OpSpec)),
    sym.mapM (fun ch => match (documentedTable a b c).lookup (String.ofList [ch]) with
        | some cands => (Except.ok cands : Except ParseErr (List OpSpec))
        | none => .error (.syntax "unknown operator")) = .ok gs →
    ∀ cs ∈ gs, ∀ o ∈ cs, o.prec ≤ 1000
  | [], gs, h => by
    simp only [List.mapM_nil] at h
    cases h
    intro cs hcs; cases hcs
  | ch :: sym, gs, h => by
    rw [List.mapM_cons] at h
    cases hl : (documentedTable a b c).lookup (String.ofList [ch]) with
    | none => rw [hl] at h; cases h
    | some cands =>
      rw [hl] at h
      cases hm : sym.mapM (fun ch => match (documentedTable a b c).lookup (String.ofList [ch]) with
        | some cands => (Except.ok cands : Except ParseErr (List OpSpec))
        | none => .error (.syntax "unknown operator")) with
      | error e => rw [hm] at h; cases h
      | ok rest =>
        rw [hm] at h
        cases h
        intro cs hcs
        rcases List.mem_cons.1 hcs with rfl | hcs
        · exact lookup_le a b c _ _ hl
        · exact mapM_le a b c sym rest hm cs hcs

theorem resolve_le (a b c : Bool) (text : List Char) (gs : List (List OpSpec))
    (h : resolveToken (documentedTable a b c) text = .ok gs) : ∀ cs ∈ gs, ∀ o ∈ cs, o.prec ≤ 1000 := by
  unfold resolveToken at h
  cases h1 : (documentedTable a b c).lookup (String.ofList text) with
  | some cands =>
    rw [h1] at h
    cases h
    intro cs hcs
    simp only [List.mem_singleton] at hcs
    subst hcs
    exact lookup_le a b c _ _ h1
  | none =>
    rw [h1] at h
    simp only at h
    cases h2 : (documentedTable a b c).lookup (String.ofList (collapseSigns text)) with
    | some cands =>
      rw [h2] at h
      cases h
      intro cs hcs
      simp only [List.mem_singleton] at hcs
      subst hcs
      exact lookup_le a b c _ _ h2
    | none =>
      rw [h2] at h
      exact mapM_le a b c _ gs h

theorem popWhile_le (c : OpSpec) : ∀ (stk : List SEntry) (out : List Ast) (s' : ShState),
    popWhile c out stk = .ok s' → StackLe stk → StackLe s'.stack
  | [], out, s', h, hs => by simp only [popWhile] at h; cases h; exact hs
  | .ctx ch i :: stk, out, s', h, hs => by simp only [popWhile] at h; cases h; exact hs
  | .op o i :: stk, out, s', h, hs => by
    simp only [popWhile] at h
    split at h
    · cases ho : operate o i out with
      | error e => rw [ho] at h; cases h
      | ok out' => rw [ho] at h; exact popWhile_le c stk out' s' h (stackLe_tail hs)
    · cases h; exact hs

theorem tryCands_le : ∀ (cs : List OpSpec) (s s' : ShState), (∀ o ∈ cs, o.prec ≤ 1000) →
    tryCands cs s = .ok s' → StackLe s.stack → StackLe s'.stack
  | [], _, _, _, h, _ => by cases h
  | c :: cs, s, s', hc, h, hs => by
    have hcs : ∀ o ∈ cs, o.prec ≤ 1000 := fun o ho => hc o (by simp [ho])
    simp only [tryCands] at h
    split at h
    · exact tryCands_le cs s s' hcs h hs
    · split at h
      · exact tryCands_le cs s s' hcs h hs
      · cases hp : popWhile c s.out s.stack with
        | error e => rw [hp] at h; cases h
        | ok s1 =>
          rw [hp] at h
          have h1 := popWhile_le c s.stack s.out s1 hp hs
          obtain ⟨out1, stk1⟩ := s1
          simp only at h h1
          cases stk1 with
          | nil =>
            simp only at h
            by_cases hv : validHere c out1.length = true
            · rw [if_pos hv] at h; cases h; exact stackLe_cons_op (hc c (by simp)) h1
            · rw [if_neg hv] at h; exact tryCands_le cs _ s' hcs h h1
          | cons e tl =>
            simp only at h
            by_cases hv : validHere c (out1.length - e.idx) = true
            · rw [if_pos hv] at h; cases h; exact stackLe_cons_op (hc c (by simp)) h1
            · rw [if_neg hv] at h; exact tryCands_le cs _ s' hcs h h1

theorem closeCtx_le (ch : Char) : ∀ (stk : List SEntry) (out : List Ast) (s' : ShState),
    closeCtx ch out stk = .ok s' → StackLe stk → StackLe s'.stack
  | [], _, _, h, _ => by cases h
  | .ctx c i :: stk, out, s', h, hs => by
    simp only [closeCtx] at h
    split at h
    · cases h; exact stackLe_tail hs
    · cases h
  | .op o i :: stk, out, s', h, hs => by
    simp only [closeCtx] at h
    cases ho : operate o i out with
    | error e => rw [ho] at h; cases h
    | ok out' => rw [ho] at h; exact closeCtx_le ch stk out' s' h (stackLe_tail hs)

theorem runCands_le : ∀ (gs : List (List OpSpec)) (s s' : ShState), (∀ cs ∈ gs, ∀ o ∈ cs, o.prec ≤ 1000) →
    runCands gs s = .ok s' → StackLe s.stack → StackLe s'.stack
  | [], s, s', _, h, hs => by cases h; exact hs
  | cs :: rest, s, s', hg, h, hs => by
    simp only [runCands] at h
    cases ht : tryCands cs s with
    | error e => rw [ht] at h; cases h
    | ok s1 =>
      rw [ht] at h
      exact runCands_le rest s1 s' (fun cs' h' => hg cs' (by simp [h'])) h
        (tryCands_le cs s s1 (hg cs (by simp)) ht hs)

theorem shuntStep_le (a b c : Bool) (s s' : ShState) (t : Tok)
    (h : shuntStep (documentedTable a b c) s t = .ok s') (hs : StackLe s.stack) : StackLe s'.stack := by
  unfold shuntStep at h
  cases hk : t.kind with
  | none => rw [hk] at h; cases h; exact hs
  | some k =>
    rw [hk] at h
    cases k with
    | context =>
      simp only at h
      split at h
      · cases h; exact stackLe_cons_ctx hs
      · split at h
        · cases h; exact stackLe_cons_ctx hs
        · split at h
          · exact closeCtx_le _ _ _ _ h hs
          · split at h
            · exact closeCtx_le _ _ _ _ h hs
            · cases h
    | operator =>
      simp only at h
      cases hr : resolveToken (documentedTable a b c) t.text with
      | error e => rw [hr] at h; cases h
      | ok gs => rw [hr] at h; exact runCands_le gs s s' (resolve_le a b c _ gs hr) h hs
    | value => cases h; exact hs
    | name => cases h; exact hs
    | python => cases h; exact hs

/-! ### the simulation -/

/-- run the loop and the final reduction -/
def runFin (tab : OpTable) (ts : List Tok) (s : ShState) : Except ParseErr (List Ast) :=
  match shuntRun tab ts s with
  | .error e => .error e
  | .ok s' => finish s'.out s'.stack

/-- token lists paired position by position: tokens the shunting-yard cannot tell apart (the right one not
the placeholder), or a `.` token against the placeholder atom — then whatever follows the `.` must be a
`Follower` -/
inductive PD (tab : OpTable) : List Tok → List Tok → Prop
  | nil : PD tab [] []
  | cons {t t' : Tok} {td ta : List Tok} : TokEq tab t t' → t' ≠ x0 → PD tab td ta → PD tab (t :: td) (t' :: ta)
  | dot {td ta : List Tok} : (td = [] ∨ ∃ u r, td = u :: r ∧ Follower tab u) → PD tab td ta →
      PD tab (dotTok :: td) (x0 :: ta)

theorem runFin_pending (tab : OpTable) (td : List Tok) (hf : td = [] ∨ ∃ u r, td = u :: r ∧ Follower tab u)
    (out : List Ast) (st : List SEntry) :
    runFin tab td ⟨out, .op dotSpec out.length :: st⟩ = runFin tab td ⟨out ++ [dotNode], st⟩ := by
  rcases hf with rfl | ⟨u, r, rfl, hu⟩
  · simp only [runFin, shuntRun, finish_pending]
  · simp only [runFin, shuntRun, shuntStep_pending tab u hu]

theorem step_x0 (tab : OpTable) (s : ShState) : shuntStep tab s x0 = .ok ⟨s.out ++ [.leaf x0], s.stack⟩ := rfl

/-- **the simulation**: the run on the list with `.` tokens, from the `rho`-image of a state, ends in the
`rho`-image of where the run on the list with placeholders ends -/
theorem runFin_dot (a b c : Bool) : ∀ {td ta : List Tok}, PD (documentedTable a b c) td ta →
    ∀ sa : ShState, StackLe sa.stack →
    runFin (documentedTable a b c) td (mS rho sa) = mapO rho (runFin (documentedTable a b c) ta sa)
  | _, _, .nil, sa, _ => by
    simp only [runFin, shuntRun, mS]
    exact finish_map rho rho_structural sa.stack sa.out
  | _, _, .cons (t := t) (t' := t') (td := td) (ta := ta) he hx hr, sa, hs => by
    have h1 : shuntStep (documentedTable a b c) (mS rho sa) t = mapS rho (shuntStep (documentedTable a b c) sa t') := by
      rw [he (mS rho sa)]
      exact shuntStep_map rho rho_structural _ sa t' (rho_leaf t' hx)
    simp only [runFin, shuntRun, h1]
    cases hst : shuntStep (documentedTable a b c) sa t' with
    | error e => rfl
    | ok sa' =>
      simp only [mapS]
      exact runFin_dot a b c hr sa' (shuntStep_le a b c sa sa' t' hst hs)
  | _, _, .dot (td := td) (ta := ta) hf hr, sa, hs => by
    have h1 := step_dot a b c (mS rho sa) hs
    have e1 : runFin (documentedTable a b c) (dotTok :: td) (mS rho sa)
        = runFin (documentedTable a b c) td ⟨(mS rho sa).out, .op dotSpec (mS rho sa).out.length :: (mS rho sa).stack⟩ := by
      simp only [runFin, shuntRun, h1]
    have e2 : runFin (documentedTable a b c) (x0 :: ta) sa
        = runFin (documentedTable a b c) ta ⟨sa.out ++ [.leaf x0], sa.stack⟩ := by
      simp only [runFin, shuntRun, step_x0]
    rw [e1, e2, runFin_pending _ td hf]
    have e3 : (⟨(mS rho sa).out ++ [dotNode], (mS rho sa).stack⟩ : ShState) = mS rho ⟨sa.out ++ [.leaf x0], sa.stack⟩ := by
      simp [mS, rho_x0]
    rw [e3]
    exact runFin_dot a b c hr ⟨sa.out ++ [.leaf x0], sa.stack⟩ hs

/-- the last step of `tokens_to_ast`: exactly one tree must be left -/
def post (r : Except ParseErr (List Ast)) : Except ParseErr (Option Ast) :=
  match r with
  | .error e => .error e
  | .ok [] => .ok none
  | .ok [a] => .ok (some a)
  | .ok _ => .error (.syntax "missing operator")

theorem tokensToAst_eq (tab : OpTable) (ts : List Tok) : tokensToAst tab ts = post (runFin tab ts {}) := by
  unfold tokensToAst runFin post
  cases shuntRun tab ts {} with
  | error e => rfl
  | ok s => cases finish s.out s.stack <;> rfl

/-- the tree with every placeholder leaf replaced by the `.` node -/
def rhoRes (r : Except ParseErr (Option Ast)) : Except ParseErr (Option Ast) :=
  match r with
  | .error e => .error e
  | .ok none => .ok none
  | .ok (some t) => .ok (some (rho t))

theorem post_mapO (r : Except ParseErr (List Ast)) : post (mapO rho r) = rhoRes (post r) := by
  cases r with
  | error e => rfl
  | ok l =>
    cases l with
    | nil => rfl
    | cons x l => cases l <;> rfl

/-- **`.` tokens parse like atoms**: the tree of the list with `.` tokens is the tree of the list with
placeholder atoms, with every placeholder leaf replaced by the `.` node -/
theorem tokensToAst_dot (a b c : Bool) {td ta : List Tok} (h : PD (documentedTable a b c) td ta) :
    tokensToAst (documentedTable a b c) td = rhoRes (tokensToAst (documentedTable a b c) ta) := by
  have hr := runFin_dot a b c h {} stackLe_nil
  have e0 : mS rho {} = ({} : ShState) := rfl
  rw [e0] at hr
  rw [tokensToAst_eq, tokensToAst_eq, hr, post_mapO]

/-! ### building `PD` -/

theorem tokEq_refl (tab : OpTable) (t : Tok) : TokEq tab t t := fun _ => rfl

theorem PD.same {tab : OpTable} (t : Tok) (ht : t ≠ x0) {a a' : List Tok} (h : PD tab a a') : PD tab (t :: a) (t :: a') :=
  .cons (tokEq_refl tab t) ht h

/-- concatenation, when what is appended starts with a token that may follow a `.` (or is empty) -/
theorem PD.append {tab : OpTable} : ∀ {a a' b b' : List Tok}, PD tab a a' → PD tab b b' →
    (b = [] ∨ ∃ u r, b = u :: r ∧ Follower tab u) → PD tab (a ++ b) (a' ++ b')
  | _, _, _, _, .nil, hb, _ => hb
  | _, _, _, _, .cons h hx ha, hb, hf => .cons h hx (PD.append ha hb hf)
  | _, _, b, _, .dot (td := td) hf0 ha, hb, hf => by
    refine .dot ?_ (PD.append ha hb hf)
    rcases hf0 with rfl | ⟨u, r, rfl, hu⟩
    · simpa using hf
    · exact Or.inr ⟨u, r ++ b, rfl, hu⟩

theorem follower_rpar (tab : OpTable) : Follower tab rparTok := Or.inl ⟨rfl, Or.inl rfl⟩

/-- an operator token that resolves to one candidate list, all below the precedence of `.` -/
theorem follower_op (tab : OpTable) (sym : List Char) (cs : List OpSpec) (h : resolveToken tab sym = .ok [cs])
    (hlow : ∀ c ∈ cs, c.prec < 1000) : Follower tab (opTok sym) :=
  Or.inr ⟨rfl, [cs], h, by simp, fun cs' h' => by
    simp only [List.mem_singleton] at h'; subst h'; exact hlow⟩

theorem lpar_ne_x0 : lparTok ≠ x0 := by decide
theorem rpar_ne_x0 : rparTok ≠ x0 := by decide
theorem opTok_ne_x0 (s : List Char) : opTok s ≠ x0 := by
  intro h; have := congrArg Tok.kind h; simp [opTok, x0] at this
theorem tokOne_ne_x0 : tokOne ≠ x0 := by decide

end FormulaicVerif.Proofs.C01ShuntDot
