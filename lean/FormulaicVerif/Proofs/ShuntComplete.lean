import FormulaicVerif.Model.Shunt
namespace FormulaicVerif.Proofs.ShuntC
open FormulaicVerif.Model

/-- expressions of the arithmetic fragment: atoms, parentheses, infix and prefix operators -/
inductive E
  | atom (t : Tok)
  | paren (e : E)
  | bin (o : OpSpec) (sym : List Char) (cands : List OpSpec) (l r : E)
  | pre (o : OpSpec) (sym : List Char) (cands : List OpSpec) (x : E)

def opTok (sym : List Char) : Tok := { text := sym, kind := some .operator }
def lparTok : Tok := { text := ['('], kind := some .context }
def rparTok : Tok := { text := [')'], kind := some .context }

def lin : E → List Tok
  | .atom t => [t]
  | .paren e => lparTok :: (lin e ++ [rparTok])
  | .bin _ sym _ l r => lin l ++ (opTok sym :: lin r)
  | .pre _ sym _ x => opTok sym :: lin x

def strip : E → Ast
  | .atom t => .leaf t
  | .paren e => strip e
  | .bin o _ _ l r => .node o [strip l, strip r]
  | .pre o _ _ x => .node o [strip x]

def after : E → ShState → ShState
  | .atom t, s => ⟨s.out ++ [.leaf t], s.stack⟩
  | .paren e, s => ⟨s.out ++ [strip e], s.stack⟩
  | .bin o _ _ l r, s => after r ⟨s.out ++ [strip l], .op o (s.out.length + 1) :: s.stack⟩
  | .pre o _ _ x, s => after x ⟨s.out, .op o s.out.length :: s.stack⟩

def rspineAll (P : OpSpec → Prop) : E → Prop
  | .atom _ => True
  | .paren _ => True
  | .bin o _ _ _ r => P o ∧ rspineAll P r
  | .pre o _ _ x => P o ∧ rspineAll P x

def topOp : List SEntry → Option OpSpec
  | .op o _ :: _ => some o
  | _ => none

def baseIdx : List SEntry → Nat
  | [] => 0
  | e :: _ => e.idx

def NoPop (t : Option OpSpec) (c : OpSpec) : Prop := ∀ o, t = some o → popCond o c = false

/-- a candidate the loop will consider (always accepted by context, not disabled) -/
def Plain (c : OpSpec) : Prop := c.ctx = .always ∧ c.disabled = false

def Guard (t : Option OpSpec) : E → Prop
  | .atom _ => True
  | .paren _ => True
  | .bin o _ _ l _ => Guard t l ∧ NoPop t o
  | .pre o _ cs _ => ∃ bs rest, cs = bs ++ o :: rest ∧
      (∀ c ∈ bs, c.fixity = .infix ∧ c.arity ≠ 0 ∧ Plain c) ∧ (∀ c ∈ bs, NoPop t c) ∧ NoPop t o

def WF (tab : OpTable) : E → Prop
  | .atom t => t.kind ≠ some .context ∧ t.kind ≠ some .operator
  | .paren e => WF tab e ∧ Guard none e
  | .bin o sym cs l r => resolveToken tab sym = .ok [cs] ∧ (∃ rest, cs = o :: rest) ∧ o.fixity = .infix ∧ Plain o ∧
      WF tab l ∧ WF tab r ∧ rspineAll (fun x => popCond x o = true) l ∧ Guard (some o) r
  | .pre o sym cs x => resolveToken tab sym = .ok [cs] ∧ o.fixity = .prefix ∧ o.arity = 1 ∧ Plain o ∧
      WF tab x ∧ Guard (some o) x

theorem operate_infix (o : OpSpec) (h : o.fixity = .infix) (out : List Ast) (a b : Ast) :
    operate o (out.length + 1) (out ++ [a, b]) = .ok (out ++ [.node o [a, b]]) := by
  unfold operate
  rw [h]
  have : out.length + 1 + 1 - out.length = 2 := by omega
  simp [this]

theorem operate_prefix (o : OpSpec) (h : o.fixity = .prefix) (ha : o.arity = 1) (out : List Ast) (a : Ast) :
    operate o out.length (out ++ [a]) = .ok (out ++ [.node o [a]]) := by
  unfold operate
  rw [h, ha]
  simp


/-- generic collapse of the pending right spine -/
theorem collapse {α} (tab : OpTable) (k : List Ast → List SEntry → Except ParseErr α) (Q : OpSpec → Prop)
    (hk : ∀ o i out stk, Q o → k out (.op o i :: stk) =
        (match operate o i out with | .ok out' => k out' stk | .error e => .error e))
    (e : E) (hwf : WF tab e) : ∀ s : ShState, rspineAll Q e →
      k (after e s).out (after e s).stack = k (s.out ++ [strip e]) s.stack := by
  induction e with
  | atom t => intro s _; rfl
  | paren e _ => intro s _; rfl
  | bin o sym cs l r _ ihr =>
    intro s hs
    obtain ⟨_, _, hfix, _, _, hwr, _, _⟩ := hwf
    simp only [after]
    rw [ihr hwr _ hs.2, hk _ _ _ _ hs.1]
    have := operate_infix o hfix s.out (strip l) (strip r)
    simp only [List.append_assoc, List.cons_append, List.nil_append] at this ⊢
    rw [this]
    rfl
  | pre o sym cs x ihx =>
    intro s hs
    obtain ⟨_, hfix, har, _, hwx, _⟩ := hwf
    simp only [after]
    rw [ihx hwx _ hs.2, hk _ _ _ _ hs.1, operate_prefix o hfix har]
    rfl

theorem popWhile_step (c o : OpSpec) (i : Nat) (out : List Ast) (stk : List SEntry)
    (h : popCond o c = true) :
    popWhile c out (.op o i :: stk) =
      (match operate o i out with | .ok out' => popWhile c out' stk | .error e => .error e) := by
  simp only [popWhile, h, if_true]
  cases operate o i out <;> rfl

theorem popWhile_stop (c : OpSpec) (out : List Ast) (stk : List SEntry) (h : NoPop (topOp stk) c) :
    popWhile c out stk = .ok ⟨out, stk⟩ := by
  cases stk with
  | nil => rfl
  | cons e stk =>
    cases e with
    | ctx ch i => rfl
    | op o i =>
      have := h o rfl
      simp [popWhile, this]

theorem accepts_plain (c : OpSpec) (h : Plain c) (stk : List SEntry) : acceptsContext c stk = true := by
  unfold acceptsContext
  rw [h.1]

theorem rspineAll_true (e : E) : rspineAll (fun _ => True) e := by
  induction e with
  | atom _ => trivial
  | paren _ _ => trivial
  | bin o sym cs l r _ ihr => exact ⟨trivial, ihr⟩
  | pre o sym cs x ihx => exact ⟨trivial, ihx⟩


theorem maxPost_eq (out : List Ast) (stk : List SEntry) (hlen : out.length = baseIdx stk) (extra : Nat) :
    (match stk with
      | e :: _ => (out.length + extra) - e.idx
      | [] => out.length + extra) = extra := by
  cases stk with
  | nil => simp [baseIdx] at hlen; simp [hlen]
  | cons e r => simp [baseIdx] at hlen; simp; omega

theorem tryCands_infix_skip (bs cs : List OpSpec) (s : ShState)
    (hb : ∀ c ∈ bs, c.fixity = .infix ∧ c.arity ≠ 0 ∧ Plain c) (hn : ∀ c ∈ bs, NoPop (topOp s.stack) c)
    (hlen : s.out.length = baseIdx s.stack) :
    tryCands (bs ++ cs) s = tryCands cs s := by
  induction bs with
  | nil => rfl
  | cons b bs ih =>
    obtain ⟨hbf, hba, hbp⟩ := hb b (by simp)
    have hbn := hn b (by simp)
    have hval : validHere b 0 = false := by
      have : (b.arity == 0) = false := by simpa using hba
      simp [validHere, hbf, this]
    obtain ⟨out, stk⟩ := s
    simp only at hlen hbn hn ih ⊢
    simp only [List.cons_append, tryCands, accepts_plain b hbp, hbp.2, popWhile_stop b out stk hbn]
    simp only [Bool.not_true, Bool.false_eq_true, if_false]
    have hm := maxPost_eq out stk hlen 0
    simp only [Nat.add_zero] at hm
    cases stk with
    | nil =>
      simp only at hm
      simp only [hm, hval]
      exact ih (fun c hc => hb c (by simp [hc])) (fun c hc => hn c (by simp [hc]))
    | cons e r =>
      simp only at hm
      simp only [hm, hval]
      exact ih (fun c hc => hb c (by simp [hc])) (fun c hc => hn c (by simp [hc]))

theorem closeCtx_step (op : Char) (o : OpSpec) (i : Nat) (out : List Ast) (stk : List SEntry) :
    closeCtx op out (.op o i :: stk) =
      (match operate o i out with | .ok out' => closeCtx op out' stk | .error e => .error e) := by
  simp only [closeCtx]
  cases operate o i out <;> rfl

theorem finish_step (o : OpSpec) (i : Nat) (out : List Ast) (stk : List SEntry) :
    finish out (.op o i :: stk) =
      (match operate o i out with | .ok out' => finish out' stk | .error e => .error e) := by
  simp only [finish]
  cases operate o i out <;> rfl

theorem step_atom (tab : OpTable) (s : ShState) (t : Tok)
    (h : t.kind ≠ some .context ∧ t.kind ≠ some .operator) :
    shuntStep tab s t = .ok ⟨s.out ++ [.leaf t], s.stack⟩ := by
  unfold shuntStep
  rcases hk : t.kind with _ | k
  · rfl
  · cases k <;> simp_all

theorem step_op (tab : OpTable) (s : ShState) (sym : List Char) (cs : List OpSpec)
    (h : resolveToken tab sym = .ok [cs]) :
    shuntStep tab s (opTok sym) = (match tryCands cs s with | .error e => .error e | .ok s' => .ok s') := by
  simp only [shuntStep, opTok, h, runCands]
  cases tryCands cs s <;> rfl

/-- main lemma: consuming the linearisation of `e` in operand position reaches `after e` -/
theorem run_lin (tab : OpTable) (e : E) : ∀ (rest : List Tok) (s : ShState),
    WF tab e → Guard (topOp s.stack) e → s.out.length = baseIdx s.stack →
    shuntRun tab (lin e ++ rest) s = shuntRun tab rest (after e s) := by
  induction e with
  | atom t =>
    intro rest s hwf _ _
    simp only [lin, List.cons_append, List.nil_append, shuntRun, step_atom tab s t hwf, after]
  | paren e ih =>
    intro rest s hwf _ hlen
    obtain ⟨hwe, hge⟩ := hwf
    have hl : shuntStep tab s lparTok = .ok ⟨s.out, .ctx '(' s.out.length :: s.stack⟩ := by
      simp [shuntStep, lparTok]
    simp only [lin, List.cons_append, List.append_assoc, shuntRun, hl]
    rw [ih _ ⟨s.out, .ctx '(' s.out.length :: s.stack⟩ hwe hge rfl]
    have hr : ∀ st : ShState, shuntStep tab st rparTok = closeCtx '(' st.out st.stack := by
      intro st; simp [shuntStep, rparTok]
    simp only [List.nil_append, shuntRun, hr]
    have hc : closeCtx '(' (after e ⟨s.out, .ctx '(' s.out.length :: s.stack⟩).out
          (after e ⟨s.out, .ctx '(' s.out.length :: s.stack⟩).stack
        = closeCtx '(' (s.out ++ [strip e]) (.ctx '(' s.out.length :: s.stack) :=
      collapse tab (fun o st => closeCtx '(' o st) (fun _ => True)
        (by intro o i out stk _; exact closeCtx_step '(' o i out stk) e hwe
        ⟨s.out, .ctx '(' s.out.length :: s.stack⟩ (rspineAll_true e)
    rw [hc]
    simp [closeCtx, after]
  | bin o sym cs l r ihl ihr =>
    intro rest s hwf hg hlen
    obtain ⟨hres, ⟨crest, hcs⟩, hfix, hpl, hwl, hwr, hsp, hgr⟩ := hwf
    obtain ⟨hgl, hno⟩ := hg
    subst hcs
    simp only [lin, List.append_assoc, List.cons_append]
    rw [ihl _ s hwl hgl hlen]
    simp only [shuntRun, step_op tab _ sym _ hres, tryCands, accepts_plain o hpl, hpl.2]
    have hc : popWhile o (after l s).out (after l s).stack = popWhile o (s.out ++ [strip l]) s.stack :=
      collapse tab (fun ou st => popWhile o ou st) (fun x => popCond x o = true)
        (by intro o' i out stk h; exact popWhile_step o o' i out stk h) l hwl s hsp
    simp only [Bool.not_true, Bool.false_eq_true, if_false]
    rw [hc, popWhile_stop o _ s.stack hno]
    have hval : validHere o 1 = true := by simp [validHere, hfix]
    obtain ⟨out, stk⟩ := s
    simp only at hlen hno hgr ihr ⊢
    have hm := maxPost_eq out stk hlen 1
    have hl2 : (out ++ [strip l]).length = baseIdx (SEntry.op o (out ++ [strip l]).length :: stk) := by
      simp [baseIdx, SEntry.idx]
    have := ihr rest ⟨out ++ [strip l], .op o (out ++ [strip l]).length :: stk⟩ hwr hgr hl2
    cases stk with
    | nil =>
      simp only [List.length_append, List.length_cons, List.length_nil, Nat.zero_add] at hm this ⊢
      have hv : validHere o (out.length + 1) = true := by rw [hm]; exact hval
      simp only [hv, if_true]
      rw [this]
      simp [after]
    | cons e r' =>
      simp only [List.length_append, List.length_cons, List.length_nil, Nat.zero_add] at hm this ⊢
      have hv : validHere o (out.length + 1 - e.idx) = true := by rw [hm]; exact hval
      simp only [hv, if_true]
      rw [this]
      simp [after]
  | pre o sym cs x ihx =>
    intro rest s hwf hg hlen
    obtain ⟨hres, hfix, har, hpl, hwx, hgx⟩ := hwf
    obtain ⟨bs, crest, hcs, hbf, hbn, hno⟩ := hg
    subst hcs
    simp only [lin, List.cons_append, shuntRun, step_op tab _ sym _ hres]
    rw [tryCands_infix_skip bs _ s hbf hbn hlen]
    simp only [tryCands, accepts_plain o hpl, hpl.2, Bool.not_true, Bool.false_eq_true, if_false]
    rw [popWhile_stop o _ s.stack hno]
    have hval : ∀ n, validHere o n = true := by intro n; simp [validHere, hfix]
    simp only [hval, if_true]
    have := ihx rest ⟨s.out, .op o s.out.length :: s.stack⟩ hwx hgx (by simp [baseIdx, SEntry.idx])
    rw [this]
    simp [after]

/-- completeness: every well-formed expression parses to its documented tree -/
theorem parse_lin (tab : OpTable) (e : E) (hwf : WF tab e) (hg : Guard none e) :
    tokensToAst tab (lin e) = .ok (some (strip e)) := by
  unfold tokensToAst
  have := run_lin tab e [] {} hwf hg rfl
  simp only [List.append_nil] at this
  rw [this]
  simp only [shuntRun]
  have hc : finish (after e {}).out (after e {}).stack = finish (([] : List Ast) ++ [strip e]) [] :=
    collapse tab (fun o st => finish o st) (fun _ => True)
      (by intro o i out stk _; exact finish_step o i out stk) e hwf {} (rspineAll_true e)
  rw [hc]
  simp [finish]

end FormulaicVerif.Proofs.ShuntC
