import FormulaicVerif.Model.CubicSpline
import Mathlib.Algebra.Order.Field.Rat
import Mathlib.Tactic.Ring
import Mathlib.Tactic.Linarith
import Mathlib.Tactic.FieldSimp
/-! Helper lemmas for the cubic-spline part of C12 (not obligations): `numpy.searchsorted` on a
strictly increasing knot list, the base functions at a knot, the free design-matrix row at a knot,
and linearity of `dot` / column sums used for the centering theorem. -/

namespace FormulaicVerif.Proofs.C12
open FormulaicVerif.Model.CubicSpline FormulaicVerif.Model.BSpline

theorem foldl_min_le (l : List Rat) : ∀ a, l.foldl min a ≤ a ∧ ∀ b ∈ l, l.foldl min a ≤ b := by
  induction l with
  | nil => intro a; simp
  | cons c t ih =>
    intro a
    obtain ⟨h1, h2⟩ := ih (min a c)
    refine ⟨le_trans h1 (min_le_left _ _), ?_⟩
    intro b hb
    rcases List.mem_cons.1 hb with rfl | hb
    · exact le_trans h1 (min_le_right _ _)
    · exact h2 b hb

theorem le_foldl_max (l : List Rat) : ∀ a, a ≤ l.foldl max a ∧ ∀ b ∈ l, b ≤ l.foldl max a := by
  induction l with
  | nil => intro a; simp
  | cons c t ih =>
    intro a
    obtain ⟨h1, h2⟩ := ih (max a c)
    refine ⟨le_trans (le_max_left _ _) h1, ?_⟩
    intro b hb
    rcases List.mem_cons.1 hb with rfl | hb
    · exact le_trans (le_max_right _ _) h1
    · exact h2 b hb

theorem minOf_le {l : List Rat} {m : Rat} (h : minOf l = some m) : ∀ b ∈ l, m ≤ b := by
  cases l with
  | nil => simp [minOf] at h
  | cons a t =>
    simp only [minOf, Option.some.injEq] at h
    subst h
    intro b hb
    rcases List.mem_cons.1 hb with rfl | hb
    · exact (foldl_min_le t _).1
    · exact (foldl_min_le t _).2 b hb

theorem le_maxOf {l : List Rat} {m : Rat} (h : maxOf l = some m) : ∀ b ∈ l, b ≤ m := by
  cases l with
  | nil => simp [maxOf] at h
  | cons a t =>
    simp only [maxOf, Option.some.injEq] at h
    subst h
    intro b hb
    rcases List.mem_cons.1 hb with rfl | hb
    · exact (le_foldl_max t _).1
    · exact (le_foldl_max t _).2 b hb

theorem searchsorted_at : ∀ (l : List Rat), l.Pairwise (· < ·) → ∀ k (hk : k < l.length),
    searchsorted l l[k] = k := by
  intro l
  induction l with
  | nil => intro _ k hk; simp at hk
  | cons a t ih =>
    intro hs k hk
    rw [List.pairwise_cons] at hs
    unfold searchsorted at ih ⊢
    cases k with
    | zero =>
      simp only [List.getElem_cons_zero, List.filter_cons, lt_irrefl, decide_false]
      simp only [Bool.false_eq_true, if_false]
      rw [List.length_eq_zero_iff, List.filter_eq_nil_iff]
      intro b hb
      simp [not_lt.2 (le_of_lt (hs.1 b hb))]
    | succ k =>
      have hk' : k < t.length := by simpa using hk
      simp only [List.getElem_cons_succ, List.filter_cons]
      have : a < t[k] := hs.1 _ (List.getElem_mem hk')
      simp only [this, decide_true, if_true, List.length_cons]
      rw [ih hs.2 k hk']


theorem cube_id (h : ℚ) (_hh : h ≠ 0) : h * h * h / (6 * h) - h * h / 6 = 0 := by
  field_simp
  ring

theorem minOf_isSome {l : List Rat} (h : l ≠ []) : ∃ m, minOf l = some m := by
  cases l with
  | nil => exact absurd rfl h
  | cons a t => exact ⟨_, rfl⟩

theorem maxOf_isSome {l : List Rat} (h : l ≠ []) : ∃ m, maxOf l = some m := by
  cases l with
  | nil => exact absurd rfl h
  | cons a t => exact ⟨_, rfl⟩

theorem lowerBound_at (l : List Rat) (hs : l.Pairwise (· < ·)) (k : ℕ) (hk : k < l.length) :
    lowerBound l l[k] = k - 1 := by
  unfold lowerBound
  simp only [searchsorted_at l hs k hk]
  by_cases h0 : k = 0
  · simp [h0]
  · have : k ≠ l.length := by omega
    simp [h0, this]

/-- at the knot with index `k` the four base functions are `ajm = [k = 0]`, `ajp = [k ≠ 0]`,
`cjm = cjp = 0`, with `j = k − 1` -/
theorem baseFunctions_at (l : List Rat) (hs : l.Pairwise (· < ·)) (hn : 2 ≤ l.length)
    (k : ℕ) (hk : k < l.length) :
    baseFunctions l l[k] = .ok { ajm := if k = 0 then 1 else 0, ajp := if k = 0 then 0 else 1,
                                 cjm := 0, cjp := 0, j := k - 1 } := by
  have hne : l ≠ [] := by intro h; simp [h] at hn
  obtain ⟨mn, hmn⟩ := minOf_isSome hne
  obtain ⟨mx, hmx⟩ := maxOf_isSome hne
  have hx1 : mn ≤ l[k] := minOf_le hmn _ (List.getElem_mem hk)
  have hx2 : l[k] ≤ mx := le_maxOf hmx _ (List.getElem_mem hk)
  have hj : k - 1 < l.length := by omega
  have hj1 : k - 1 + 1 < l.length := by omega
  rw [List.pairwise_iff_getElem] at hs
  unfold baseFunctions
  simp only [lowerBound_at l (List.pairwise_iff_getElem.2 hs) k hk, List.getElem?_eq_getElem hj,
    List.getElem?_eq_getElem hj1, hmn, hmx]
  by_cases h0 : k = 0
  · subst h0
    have hlt : l[0] < l[0 + 1] := hs 0 1 (by omega) (by omega) (by omega)
    have hne0 : l[0 + 1] - l[0] ≠ 0 := sub_ne_zero.2 (ne_of_gt hlt)
    simp only [Nat.zero_sub, if_true, not_lt.2 hx2, if_false, sub_self, mul_zero, zero_div,
      ite_self]
    rw [div_self hne0, cube_id _ hne0]
  · have e : k - 1 + 1 = k := by omega
    have hlt : l[k - 1] < l[k] := hs (k - 1) k (by omega) hk (by omega)
    have hne0 : l[k] - l[k - 1] ≠ 0 := sub_ne_zero.2 (ne_of_gt hlt)
    simp only [e, h0, if_false, not_lt.2 hx1, sub_self, mul_zero, zero_div, ite_self]
    rw [div_self hne0, cube_id _ hne0]


/-- with vanishing cubic coefficients the combination only sees the two identity rows -/
theorem combine_zero (n j j1 : ℕ) (a b : Rat) (Fj Fj1 : List Rat)
    (h1 : Fj.length = n) (h2 : Fj1.length = n) :
    combine n j j1 { ajm := a, ajp := b, cjm := 0, cjp := 0, j := j } Fj Fj1
      = (List.range n).map (fun c => a * delta j c + b * delta j1 c) := by
  unfold combine
  have hz : ((List.range n).zip (Fj.zip Fj1)).map Prod.fst = List.range n :=
    List.map_fst_zip (by simp [h1, h2])
  conv => rhs; rw [← hz]
  rw [List.map_map]
  apply List.map_congr_left
  intro p _
  simp

/-- the free design-matrix row at knot `k` is the unit row at `tgt`, where `tgt = k` for the
natural spline and, for the cyclic spline, the last knot is identified with the first -/
theorem freeRowCore_at (l : List Rat) (hs : l.Pairwise (· < ·)) (hn : 2 ≤ l.length)
    (k : ℕ) (hk : k < l.length) (n : ℕ) (wrap : Bool) (F : List (List Rat))
    (hF : F.length = n) (hFr : ∀ r ∈ F, r.length = n)
    (hnn : n = if wrap then l.length - 1 else l.length) :
    freeRowCore l n wrap F l[k]
      = .ok ((List.range n).map (delta (if wrap && k + 1 == l.length then 0 else k))) := by
  unfold freeRowCore
  rw [baseFunctions_at l hs hn k hk]
  simp only
  -- the two row indices exist
  have hjn : k - 1 < n := by cases wrap <;> simp at hnn <;> omega
  set j1 := (if (wrap && k - 1 + 1 == n) = true then 0 else k - 1 + 1) with hj1
  have hj1n : j1 < n := by
    rw [hj1]
    split
    · omega
    · rename_i hc
      cases wrap
      · simp at hnn; omega
      · simp at hnn hc; omega
  obtain ⟨Fj, hFj⟩ : ∃ r, F[k - 1]? = some r := ⟨F[k - 1], List.getElem?_eq_getElem (hF ▸ hjn)⟩
  obtain ⟨Fj1, hFj1⟩ : ∃ r, F[j1]? = some r := ⟨F[j1], List.getElem?_eq_getElem (hF ▸ hj1n)⟩
  have l1 : Fj.length = n := hFr _ (List.mem_of_getElem? hFj)
  have l2 : Fj1.length = n := hFr _ (List.mem_of_getElem? hFj1)
  simp only [hFj, hFj1, l1, l2, and_self, if_true]
  rw [combine_zero _ _ _ _ _ _ _ l1 l2]
  congr 1
  apply List.map_congr_left
  intro c _
  by_cases h0 : k = 0
  · subst h0
    have : ¬ ((wrap && 0 + 1 == l.length) = true) := by simp; omega
    simp [this]
  · have e : k - 1 + 1 = k := by omega
    simp only [h0, if_false, zero_mul, one_mul, zero_add]
    rw [hj1, e]
    congr 1
    cases wrap
    · simp
    · simp at hnn
      have : (k == n) = (k + 1 == l.length) := by
        by_cases hkn : k = n
        · have : n + 1 = l.length := by omega
          simp [hkn, this]
        · have : k + 1 ≠ l.length := by omega
          simp [hkn, this]
      simp [this]


/-- a knot of a strictly increasing knot list is left unchanged by `_map_cyclic` -/
theorem mapCyclic_at (l : List Rat) (hs : l.Pairwise (· < ·)) (hn : 2 ≤ l.length)
    (k : ℕ) (hk : k < l.length) :
    ∃ mn mx, minOf l = some mn ∧ maxOf l = some mx ∧ mapCyclic l[k] mn mx = .ok l[k] := by
  have hne : l ≠ [] := by intro h; simp [h] at hn
  obtain ⟨mn, hmn⟩ := minOf_isSome hne
  obtain ⟨mx, hmx⟩ := maxOf_isSome hne
  refine ⟨mn, mx, hmn, hmx, ?_⟩
  have hx1 : mn ≤ l[k] := minOf_le hmn _ (List.getElem_mem hk)
  have hx2 : l[k] ≤ mx := le_maxOf hmx _ (List.getElem_mem hk)
  rw [List.pairwise_iff_getElem] at hs
  have h01 : l[0] < l[1] := hs 0 1 (by omega) (by omega) (by omega)
  have hlt : mn < mx := lt_of_le_of_lt (minOf_le hmn _ (List.getElem_mem (by omega : 0 < l.length)))
    (lt_of_lt_of_le h01 (le_maxOf hmx _ (List.getElem_mem (by omega : 1 < l.length))))
  unfold mapCyclic
  simp [not_le.2 hlt, not_lt.2 hx1, not_lt.2 hx2]

/-! ### centering -/

theorem dot_nil_left (q : List Rat) : dot [] q = 0 := by simp [dot]
theorem dot_nil_right (a : List Rat) : dot a [] = 0 := by simp [dot]
theorem dot_cons (x y : Rat) (a q : List Rat) : dot (x :: a) (y :: q) = x * y + dot a q := by
  simp [dot]

theorem dot_vadd : ∀ (a b q : List Rat), a.length = b.length →
    dot (vadd a b) q = dot a q + dot b q
  | [], [], q, _ => by simp [vadd, dot_nil_left]
  | [], _ :: _, _, h => by simp at h
  | _ :: _, [], _, h => by simp at h
  | x :: a, y :: b, [], _ => by simp [vadd, dot_nil_right]
  | x :: a, y :: b, z :: q, h => by
    have ih := dot_vadd a b q (by simpa using h)
    simp only [vadd, List.zipWith_cons_cons, dot_cons] at ih ⊢
    rw [ih]; ring

theorem dot_replicate_zero (n : ℕ) : ∀ q : List Rat, dot (List.replicate n 0) q = 0 := by
  induction n with
  | zero => intro q; simp [dot_nil_left]
  | succ n ih =>
    intro q
    cases q with
    | nil => simp [dot_nil_right]
    | cons z q => simp [List.replicate_succ, dot_cons, ih]

theorem dot_map_div (a q : List Rat) (c : Rat) : dot (a.map (· / c)) q = dot a q / c := by
  induction a generalizing q with
  | nil => simp [dot_nil_left]
  | cons x a ih =>
    cases q with
    | nil => simp [dot_nil_right]
    | cons z q => simp only [List.map_cons, dot_cons, ih]; ring

theorem colSums_length (n : ℕ) (rows : List (List Rat)) (h : ∀ r ∈ rows, r.length = n) :
    (colSums n rows).length = n := by
  induction rows with
  | nil => simp [colSums]
  | cons r t ih =>
    have := ih (fun r hr => h r (List.mem_cons_of_mem _ hr))
    simp only [colSums, List.foldr_cons, vadd, List.length_zipWith] at this ⊢
    rw [this, h r (by simp)]; simp

/-- the dot product with the column sums is the sum of the dot products -/
theorem dot_colSums (n : ℕ) (rows : List (List Rat)) (q : List Rat)
    (h : ∀ r ∈ rows, r.length = n) :
    dot (colSums n rows) q = (rows.map (fun r => dot r q)).sum := by
  induction rows with
  | nil => simp [colSums, dot_replicate_zero]
  | cons r t ih =>
    have hl := colSums_length n t (fun r hr => h r (List.mem_cons_of_mem _ hr))
    have := ih (fun r hr => h r (List.mem_cons_of_mem _ hr))
    simp only [colSums, List.foldr_cons, List.map_cons, List.sum_cons] at this ⊢
    rw [dot_vadd _ _ _ (by rw [h r (by simp)]; exact hl.symm), this]

/-- column sums of the absorbed rows -/
theorem colSums_absorb (Q : List (List Rat)) (rows : List (List Rat)) :
    colSums Q.length (rows.map (absorbRow Q)) = Q.map (fun q => (rows.map (fun r => dot r q)).sum) := by
  induction rows with
  | nil =>
    simp only [colSums, List.map_nil, List.foldr_nil, List.sum_nil]
    exact List.map_const'.symm
  | cons r t ih =>
    simp only [colSums, List.map_cons, List.foldr_cons, List.sum_cons] at ih ⊢
    rw [ih]
    simp [vadd, absorbRow, List.zipWith_map]


/-- the dot product with the unit row `e_k` picks entry `k` -/
theorem dot_unit (n : ℕ) : ∀ (s k : ℕ) (β : List Rat), β.length = n → k < n →
    dot ((List.range' s n).map (delta (s + k))) β = β.getD k 0 := by
  induction n with
  | zero => intro s k β _ hk; omega
  | succ n ih =>
    intro s k β hβ hk
    cases β with
    | nil => simp at hβ
    | cons b t =>
      simp only [List.range'_succ, List.map_cons, dot_cons]
      cases k with
      | zero =>
        have hz : dot ((List.range' (s + 1) n).map (delta (s + 0))) t = 0 := by
          have : (List.range' (s + 1) n).map (delta (s + 0)) = List.replicate n 0 := by
            rw [List.eq_replicate_iff]
            refine ⟨by simp, ?_⟩
            intro v hv
            rw [List.mem_map] at hv
            obtain ⟨c, hc, rfl⟩ := hv
            rw [List.mem_range'_1] at hc
            unfold delta
            rw [if_neg (by omega)]
          rw [this, dot_replicate_zero]
        rw [hz]
        simp [delta]
      | succ k =>
        have e : s + (k + 1) = (s + 1) + k := by omega
        rw [e, ih (s + 1) k t (by simpa using hβ) (by omega)]
        have : delta (s + 1 + k) s = 0 := by unfold delta; rw [if_neg (by omega)]
        simp [this]


/-- null rows stay null and do not interfere with the absorbed non-null rows -/
theorem nonNullRows_map (f : List Rat → List Rat) (rows : List (Option (List Rat))) :
    nonNullRows (rows.map (Option.map f)) = (nonNullRows rows).map f := by
  unfold nonNullRows
  induction rows with
  | nil => rfl
  | cons r t ih => cases r <;> simp_all

end FormulaicVerif.Proofs.C12
