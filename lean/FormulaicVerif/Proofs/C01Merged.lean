import FormulaicVerif.Proofs.C01Intercept
/-! # C01 — a separator and the signs after it: one operator token or two

The tokenizer makes ONE operator token of adjacent operator characters, whitespace or not: `y ~ -a` is
`y`, `~-`, `a`, and `a | - b` is `a`, `|-`, `b`. The token rewriting (`insert_tokens_after` splits operator
tokens after every `~` / `|`) treats such a token exactly like the separator followed by the sign token:
`interceptTokens_split`. -/
namespace FormulaicVerif.Proofs.C01Merged
open FormulaicVerif FormulaicVerif.Model FormulaicVerif.Proofs.C01 FormulaicVerif.Proofs.C01Intercept

/-- an operator token `c r` with `r` a non-empty run of signs -/
def isMerged (c : Char) (t : Tok) : Bool :=
  t.kind == some .operator && t.text.head? == some c && !t.text.tail.isEmpty && t.text.tail.all isSign

/-- the separator piece and the sign piece of a merged token; any other token itself -/
def splitC (c : Char) (t : Tok) : List Tok :=
  if isMerged c t then [{ t with text := [c] }, { t with text := t.text.tail }] else [t]

def splitL (c : Char) (ts : List Tok) : List Tok := ts.flatMap (splitC c)

/-- every operator token containing `c` is exactly `c`, or `c` followed by signs -/
def ShapeC (c : Char) (ts : List Tok) : Prop := ∀ t ∈ ts, NoSep c t ∨ IsSep c t ∨ isMerged c t = true

/-- the separator characters -/
def SepCh (c : Char) : Prop := c = '~' ∨ c = '|'

theorem sepCh_notSign {c : Char} (h : SepCh c) : isSign c = false := by rcases h with rfl | rfl <;> rfl

theorem splitL_nil (c : Char) : splitL c [] = [] := rfl
theorem splitL_cons (c : Char) (t : Tok) (ts : List Tok) : splitL c (t :: ts) = splitC c t ++ splitL c ts := by
  simp [splitL]
theorem splitL_append (c : Char) (a b : List Tok) : splitL c (a ++ b) = splitL c a ++ splitL c b := by
  simp [splitL]

theorem merged_facts {c : Char} {t : Tok} (h : isMerged c t = true) :
    t.kind = some .operator ∧ t.text = c :: t.text.tail ∧ t.text.tail ≠ [] ∧ t.text.tail.all isSign = true := by
  unfold isMerged at h
  simp only [Bool.and_eq_true, beq_iff_eq, Bool.not_eq_true', List.isEmpty_eq_false_iff] at h
  obtain ⟨⟨⟨h1, h2⟩, h3⟩, h4⟩ := h
  refine ⟨h1, ?_, h3, h4⟩
  cases hx : t.text with
  | nil => rw [hx] at h2; cases h2
  | cons x r => rw [hx] at h2; simp only [List.head?_cons, Option.some.injEq] at h2; rw [h2]; rfl

theorem splitC_not {c : Char} {t : Tok} (h : isMerged c t = false) : splitC c t = [t] := by
  simp [splitC, h]

theorem splitC_merged {c : Char} {t : Tok} (h : isMerged c t = true) :
    splitC c t = [{ t with text := [c] }, { t with text := t.text.tail }] := by
  simp [splitC, h]

theorem notMerged_of_noSep {c : Char} {t : Tok} (h : NoSep c t) : isMerged c t = false := by
  cases hm : isMerged c t
  · rfl
  · obtain ⟨h1, h2, _, _⟩ := merged_facts hm
    have := h h1
    rw [h2] at this
    simp at this

theorem notMerged_of_kind {c : Char} {t : Tok} (h : t.kind ≠ some .operator) : isMerged c t = false :=
  notMerged_of_noSep (fun hk => absurd hk h)

theorem splitL_inert (c : Char) : ∀ ts : List Tok, (∀ t ∈ ts, NoSep c t) → splitL c ts = ts
  | [], _ => rfl
  | t :: ts, h => by
    rw [splitL_cons, splitC_not (notMerged_of_noSep (h t (by simp))),
      splitL_inert c ts (fun u hu => h u (by simp [hu]))]
    rfl

theorem notMerged_of_sep {c d : Char} {t : Tok} (h : IsSep d t) : isMerged c t = false := by
  cases hm : isMerged c t
  · rfl
  · obtain ⟨_, _, h3, _⟩ := merged_facts hm
    rw [h.2] at h3
    exact absurd rfl h3

/-- the sign piece of a merged token does not contain the separator -/
theorem signs_noSep {c : Char} (hc : SepCh c) (t : Tok) (r : List Char) (hr : r.all isSign = true) :
    NoSep c ({ t with text := r } : Tok) := by
  intro _
  show r.contains c = false
  cases hcc : r.contains c
  · rfl
  · have hmem : c ∈ r := by simpa using hcc
    have := List.all_eq_true.1 hr c hmem
    rw [sepCh_notSign hc] at this
    cases this

theorem sepPiece {c : Char} {t : Tok} (h : t.kind = some .operator) : IsSep c ({ t with text := [c] } : Tok) :=
  ⟨h, rfl⟩

theorem one_notMerged (c : Char) : isMerged c tokOne = false := notMerged_of_kind (by decide)
theorem plus_notMerged (c : Char) : isMerged c tokPlus = false := by
  cases hm : isMerged c tokPlus
  · rfl
  · exact absurd rfl (merged_facts hm).2.2.1
theorem minus_notMerged (c : Char) : isMerged c tokMinus = false := by
  cases hm : isMerged c tokMinus
  · rfl
  · exact absurd rfl (merged_facts hm).2.2.1

theorem splitL_sepIns (c : Char) (add : Bool) (n : Option Tok) : splitL c (sepIns add n) = sepIns add n := by
  unfold sepIns
  cases add
  · rfl
  · by_cases hj : needsJoin n = true
    · simp only [if_true, hj, splitL_cons, splitC_not (one_notMerged c), splitC_not (plus_notMerged c), splitL_nil]
      rfl
    · simp only [if_true, hj, Bool.false_eq_true, if_false, splitL_cons, splitC_not (one_notMerged c), splitL_nil]
      rfl

/-! ### the lookahead of `insert_tokens_after` -/

theorem needsJoin_long (t : Tok) (x y : Char) (r : List Char) (h : t.text = x :: y :: r) : needsJoin (some t) = true := by
  simp [needsJoin, h]

theorem needsJoin_sepPiece {c : Char} (hc : SepCh c) (t : Tok) : needsJoin (some ({ t with text := [c] } : Tok)) = true := by
  rcases hc with rfl | rfl <;> simp [needsJoin]

theorem needsJoin_split {c : Char} (hc : SepCh c) : ∀ X : List Tok, needsJoin (splitL c X).head? = needsJoin X.head?
  | [] => rfl
  | t :: X => by
    rw [splitL_cons]
    cases hm : isMerged c t
    · rw [splitC_not hm]; rfl
    · rw [splitC_merged hm]
      obtain ⟨_, h2, h3, _⟩ := merged_facts hm
      simp only [List.cons_append, List.head?_cons]
      rw [needsJoin_sepPiece hc]
      cases hr : t.text.tail with
      | nil => exact absurd hr h3
      | cons y r => rw [hr] at h2; exact (needsJoin_long t c y r h2).symm

theorem sepIns_congr (add : Bool) (n1 n2 : Option Tok) (h : needsJoin n1 = needsJoin n2) : sepIns add n1 = sepIns add n2 := by
  unfold sepIns; rw [h]

/-! ### `insert_tokens_after` splits a merged token into the separator and the signs -/

theorem splitAfterAux_none (c : Char) : ∀ (r acc : List Char), r.contains c = false →
    splitAfterAux c r acc = if (acc.reverse ++ r).isEmpty then [] else [acc.reverse ++ r]
  | [], acc, _ => by
    simp only [splitAfterAux, List.append_nil, List.isEmpty_reverse]
  | x :: xs, acc, h => by
    have hx : (x == c) = false := by
      cases hxc : (x == c)
      · rfl
      · simp only [beq_iff_eq] at hxc; subst hxc; simp at h
    have hxs : xs.contains c = false := by
      cases hcc : xs.contains c
      · rfl
      · have : c ∈ xs := by simpa using hcc
        have : (x :: xs).contains c = true := by simp [this]
        rw [h] at this; cases this
    rw [splitAfterAux, if_neg (by rw [hx]; decide), splitAfterAux_none c xs (x :: acc) hxs]
    simp

theorem splitAfter_merged (c : Char) (r : List Char) (hne : r ≠ []) (hr : r.contains c = false) :
    splitAfter c (c :: r) = [[c], r] := by
  unfold splitAfter
  rw [splitAfterAux, if_pos (by simp), splitAfterAux_none c r [] hr]
  cases r with
  | nil => exact absurd rfl hne
  | cons y r => rfl

theorem getLast_ne (c : Char) : ∀ r : List Char, r.contains c = false → (r.getLast? == some c) = false
  | [], _ => rfl
  | [x], h => by
    cases hxc : (x == c)
    · simpa using hxc
    · simp only [beq_iff_eq] at hxc; subst hxc; simp at h
  | x :: y :: r, h => by
    have : (y :: r).contains c = false := by
      cases hcc : (y :: r).contains c
      · rfl
      · have hm : c ∈ y :: r := by simpa using hcc
        have : (x :: y :: r).contains c = true := by simp only [List.contains_iff_mem]; exact List.mem_cons_of_mem _ hm
        rw [h] at this; cases this
    rw [List.getLast?_cons_cons]
    exact getLast_ne c (y :: r) this

/-- at a merged token: the separator piece, what is inserted behind a separator, the sign piece -/
theorem insertOneAfter_merged (add : Bool) {c : Char} (hc : SepCh c) (t : Tok) (Z : List Tok) (hm : isMerged c t = true) :
    insertOneAfter add c (t :: Z) =
      ({ t with text := [c] } : Tok) :: (sepIns add (some { t with text := t.text.tail }) ++
        ({ t with text := t.text.tail } : Tok) :: insertOneAfter add c Z) := by
  obtain ⟨hk, htx, hne, hall⟩ := merged_facts hm
  have hno : t.text.tail.contains c = false := signs_noSep hc t _ hall hk
  have hcond : (t.kind != some .operator || !t.text.contains c) = false := by
    rw [htx]; simp [hk]
  rw [insertOneAfter, if_neg (by rw [hcond]; decide)]
  have hsp : splitAfter c t.text = [[c], t.text.tail] := by
    conv => lhs; rw [htx]
    exact splitAfter_merged c _ hne hno
  rw [hsp]
  have hl : (t.text.tail.getLast? == some c) = false := getLast_ne c _ hno
  cases add
  · simp [emitPieces, sepIns]
  · simp [emitPieces, sepIns, hl]

/-- **Lemma S**: `insert_tokens_after(c)` gives the same list whether the merged tokens were split before or not -/
theorem insertOneAfter_split (add : Bool) {c : Char} (hc : SepCh c) : ∀ Z : List Tok, ShapeC c Z →
    insertOneAfter add c (splitL c Z) = insertOneAfter add c Z
  | [], _ => rfl
  | t :: Z, h => by
    have ih := insertOneAfter_split add hc Z (fun u hu => h u (by simp [hu]))
    rw [splitL_cons]
    cases hm : isMerged c t
    · rw [splitC_not hm]
      rcases h t (by simp) with hn | hs | hmm
      · rw [List.singleton_append, insertOneAfter_cons_noSep add c t _ hn, insertOneAfter_cons_noSep add c t _ hn, ih]
      · rw [List.singleton_append, insertOneAfter_sep add c t _ hs, insertOneAfter_sep add c t _ hs, ih,
          sepIns_congr add _ _ (needsJoin_split hc Z)]
      · rw [hm] at hmm; cases hmm
    · rw [splitC_merged hm, insertOneAfter_merged add hc t Z hm]
      obtain ⟨hk, _, _, hall⟩ := merged_facts hm
      simp only [List.cons_append, List.nil_append]
      rw [insertOneAfter_sep add c _ _ (sepPiece hk), insertOneAfter_cons_noSep add c _ _ (signs_noSep hc t _ hall), ih]
      rfl

/-! ### the zero rule and the other separator's pass commute with splitting -/

theorem pieces_not_zero {c : Char} {t : Tok} (hm : isMerged c t = true) (p : List Char) : ¬ IsZero ({ t with text := p } : Tok) := by
  intro hz
  have := (merged_facts hm).1
  have hz1 : t.kind = some .value := hz.1
  rw [this] at hz1; cases hz1

theorem replaceZero_split (c : Char) : ∀ ts : List Tok, replaceZero (splitL c ts) = splitL c (replaceZero ts)
  | [] => rfl
  | t :: ts => by
    have ih := replaceZero_split c ts
    rw [splitL_cons]
    cases hm : isMerged c t
    · rw [splitC_not hm, List.singleton_append]
      by_cases hz : IsZero t
      · rw [replaceZero_cons_zero t _ hz, replaceZero_cons_zero t _ hz, ih, splitL_cons, splitL_cons,
          splitC_not (minus_notMerged c), splitC_not (one_notMerged c)]
        rfl
      · rw [replaceZero_cons_other t _ hz, replaceZero_cons_other t _ hz, ih, splitL_cons, splitC_not hm]
        rfl
    · have hz : ¬ IsZero t := by
        intro hz
        have := (merged_facts hm).1
        rw [hz.1] at this; cases this
      rw [splitC_merged hm, replaceZero_cons_other t _ hz, splitL_cons, splitC_merged hm]
      simp only [List.cons_append, List.nil_append]
      rw [replaceZero_cons_other _ _ (pieces_not_zero hm _), replaceZero_cons_other _ _ (pieces_not_zero hm _), ih]

/-- **Lemma C**: the `~` pass commutes with splitting the merged `|` tokens (`c ≠ d`) -/
theorem insertOneAfter_comm (add : Bool) {c d : Char} (hc : SepCh c) (hd : SepCh d) (hcd : c ≠ d) : ∀ X : List Tok,
    (∀ t ∈ X, NoSep c t ∨ IsSep c t) →
    insertOneAfter add c (splitL d X) = splitL d (insertOneAfter add c X)
  | [], _ => rfl
  | t :: X, h => by
    have ih := insertOneAfter_comm add hc hd hcd X (fun u hu => h u (by simp [hu]))
    rw [splitL_cons]
    rcases h t (by simp) with hn | hs
    · rw [insertOneAfter_cons_noSep add c t _ hn, splitL_cons]
      have hp : ∀ u ∈ splitC d t, NoSep c u := by
        intro u hu
        cases hm : isMerged d t
        · rw [splitC_not hm] at hu; simp only [List.mem_singleton] at hu; subst hu; exact hn
        · rw [splitC_merged hm] at hu
          simp only [List.mem_cons, List.mem_nil_iff, or_false] at hu
          rcases hu with rfl | rfl
          · intro _
            show [d].contains c = false
            simp [hcd]
          · exact signs_noSep hc t _ (merged_facts hm).2.2.2
      rw [insertOneAfter_append add c _ _ hp, ih]
    · have hm : isMerged d t = false := notMerged_of_sep hs
      rw [splitC_not hm, List.singleton_append, insertOneAfter_sep add c t _ hs, insertOneAfter_sep add c t _ hs,
        splitL_cons, splitC_not hm, splitL_append, splitL_sepIns, ih, sepIns_congr add _ _ (needsJoin_split hd X)]
      rfl

/-! ### `find_rhs_index` and the cut into left-hand side and right-hand side -/

inductive Step
  | stop
  | found
  | go (ctx : List Char)

/-- what `find_rhs_index` does at one token -/
def stepF (t : Tok) (ctx : List Char) : Step :=
  if t.kind == some .context then
    if t.text == ['('] || t.text == ['['] then .go ((if t.text == ['('] then '(' else '[') :: ctx)
    else
      match ctx with
      | top :: rest => if top != (if t.text == [')'] then '(' else '[') then .stop else .go rest
      | [] => .stop
  else if !ctx.isEmpty then .go ctx
  else if t.kind == some .operator && t.text == ['~'] then .found
  else .go ctx

theorem findRhsAux_step (t : Tok) (ts : List Tok) (i : Nat) (ctx : List Char) :
    findRhsAux (t :: ts) i ctx =
      match stepF t ctx with
      | .stop => none
      | .found => some i
      | .go c => findRhsAux ts (i + 1) c := by
  rw [findRhsAux]
  unfold stepF
  by_cases hc : (t.kind == some .context) = true
  · simp only [hc, if_true]
    by_cases ho : (t.text == ['('] || t.text == ['[']) = true
    · simp only [ho, if_true]
    · simp only [ho, Bool.false_eq_true, if_false]
      cases ctx with
      | nil => rfl
      | cons top rest =>
        simp only
        by_cases htop : (top != if (t.text == [')']) = true then '(' else '[') = true
        · simp only [htop, if_true]
        · simp only [htop, Bool.false_eq_true, if_false]
  · simp only [hc, Bool.false_eq_true, if_false]
    by_cases he : (!ctx.isEmpty) = true
    · simp only [he, if_true]
    · simp only [he, Bool.false_eq_true, if_false]
      by_cases hop : (t.kind == some .operator && t.text == ['~']) = true
      · simp only [hop, if_true]
      · simp only [hop, Bool.false_eq_true, if_false]

/-- an operator token that is not exactly `~` is stepped over -/
theorem stepF_op (t : Tok) (ctx : List Char) (hk : t.kind = some .operator) (hx : t.text ≠ ['~']) :
    stepF t ctx = .go ctx := by
  unfold stepF
  have h1 : (t.kind == some TKind.context) = false := by rw [hk]; rfl
  have h2 : (t.kind == some .operator && t.text == ['~']) = false := by
    simp [hx]
  simp only [h1, h2, Bool.false_eq_true, if_false]
  cases ctx <;> rfl

theorem cut_split : ∀ (X : List Tok) (i j : Nat) (ctx : List Char),
    (findRhsAux X i ctx = none ∧ findRhsAux (splitL '|' X) j ctx = none) ∨
    ∃ k k', findRhsAux X i ctx = some (i + k) ∧ findRhsAux (splitL '|' X) j ctx = some (j + k') ∧
      (splitL '|' X).take (k' + 1) = splitL '|' (X.take (k + 1)) ∧
      (splitL '|' X).drop (k' + 1) = splitL '|' (X.drop (k + 1))
  | [], i, j, ctx => Or.inl ⟨rfl, rfl⟩
  | t :: X, i, j, ctx => by
    rw [splitL_cons]
    cases hm : isMerged '|' t
    · rw [splitC_not hm, List.singleton_append, findRhsAux_step, findRhsAux_step]
      cases hs : stepF t ctx with
      | stop => exact Or.inl ⟨rfl, rfl⟩
      | found =>
        refine Or.inr ⟨0, 0, rfl, rfl, ?_, ?_⟩
        · simp [splitL_cons, splitC_not hm, splitL_nil]
        · simp
      | go c =>
        simp only
        rcases cut_split X (i + 1) (j + 1) c with ⟨h1, h2⟩ | ⟨k, k', h1, h2, h3, h4⟩
        · exact Or.inl ⟨h1, h2⟩
        · refine Or.inr ⟨k + 1, k' + 1, by rw [h1]; congr 1; omega, by rw [h2]; congr 1; omega, ?_, ?_⟩
          · rw [List.take_succ_cons, h3, List.take_succ_cons, splitL_cons, splitC_not hm]; rfl
          · rw [List.drop_succ_cons, h4, List.drop_succ_cons]
    · obtain ⟨hk, htx, hne, hall⟩ := merged_facts hm
      have s0 : stepF t ctx = .go ctx := stepF_op t ctx hk (by
        intro h; rw [h] at htx; cases htx)
      have s1 : stepF ({ t with text := ['|'] } : Tok) ctx = .go ctx := stepF_op _ ctx hk (by show ['|'] ≠ ['~']; decide)
      have s2 : stepF ({ t with text := t.text.tail } : Tok) ctx = .go ctx := stepF_op _ ctx hk (by
        intro h
        have h' : t.text.tail = ['~'] := h
        rw [h'] at hall; cases hall)
      rw [splitC_merged hm]
      simp only [List.cons_append, List.nil_append]
      rw [findRhsAux_step, s0]
      simp only
      rw [findRhsAux_step, s1]
      simp only
      rw [findRhsAux_step, s2]
      simp only
      rcases cut_split X (i + 1) (j + 1 + 1) ctx with ⟨h1, h2⟩ | ⟨k, k', h1, h2, h3, h4⟩
      · exact Or.inl ⟨h1, h2⟩
      · refine Or.inr ⟨k + 1, k' + 2, by rw [h1]; congr 1; omega, by rw [h2]; congr 1; omega, ?_, ?_⟩
        · rw [List.take_succ_cons, List.take_succ_cons, h3, List.take_succ_cons, splitL_cons, splitC_merged hm]; rfl
        · rw [List.drop_succ_cons, List.drop_succ_cons, h4, List.drop_succ_cons]

/-- the number of tokens up to and including the top-level `~` (0: there is none) -/
def rhsOf (T : List Tok) : Nat := match findRhsIndex T with | some i => i + 1 | none => 0

theorem rhs_split (X : List Tok) :
    (rhsOf (splitL '|' X) = 0 ↔ rhsOf X = 0) ∧
    (splitL '|' X).take (rhsOf (splitL '|' X)) = splitL '|' (X.take (rhsOf X)) ∧
    (splitL '|' X).drop (rhsOf (splitL '|' X)) = splitL '|' (X.drop (rhsOf X)) := by
  unfold rhsOf findRhsIndex
  rcases cut_split X 0 0 [] with ⟨h1, h2⟩ | ⟨k, k', h1, h2, h3, h4⟩
  · rw [h1, h2]
    exact ⟨Iff.rfl, rfl, rfl⟩
  · rw [h1, h2]
    simp only [Nat.zero_add]
    exact ⟨by constructor <;> intro h <;> omega, h3, h4⟩

theorem interceptTokens_def (add : Bool) (ts : List Tok) :
    interceptTokens add ts =
      (mergeSigns ((if rhsOf (insertOneAfter add '~' (replaceZero ts)) > 0 || !add
          then insertOneAfter false '|' ((insertOneAfter add '~' (replaceZero ts)).take (rhsOf (insertOneAfter add '~' (replaceZero ts))))
          else (if (insertOneAfter add '~' (replaceZero ts)).isEmpty then [tokOne] else [tokOne, tokPlus]))
        ++ insertOneAfter add '|' ((insertOneAfter add '~' (replaceZero ts)).drop (rhsOf (insertOneAfter add '~' (replaceZero ts))))),
       (insertOneAfter add '~' (replaceZero ts)).take (rhsOf (insertOneAfter add '~' (replaceZero ts)))) := rfl

/-! ### shapes are kept by the passes -/

theorem minus_noSep {c : Char} (hc : SepCh c) : NoSep c tokMinus := by
  intro _; rcases hc with rfl | rfl <;> decide
theorem plus_noSep {c : Char} (hc : SepCh c) : NoSep c tokPlus := by
  intro _; rcases hc with rfl | rfl <;> decide
theorem one_noSep (c : Char) : NoSep c tokOne := fun h => by cases h

theorem shape_replaceZero {c : Char} (hc : SepCh c) (ts : List Tok) (h : ShapeC c ts) : ShapeC c (replaceZero ts) := by
  intro t ht
  rw [replaceZero_eq_flatMap] at ht
  obtain ⟨u, hu, htu⟩ := List.mem_flatMap.1 ht
  by_cases hz : IsZero u
  · simp only [hz, if_true, List.mem_cons, List.mem_nil_iff, or_false] at htu
    rcases htu with rfl | rfl
    · exact Or.inl (minus_noSep hc)
    · exact Or.inl (one_noSep c)
  · simp only [hz, if_false, List.mem_singleton] at htu
    subst htu; exact h t hu

theorem mem_splitL {c : Char} {ts : List Tok} {t : Tok} (h : t ∈ splitL c ts) :
    t ∈ ts ∨ ∃ u ∈ ts, isMerged c u = true ∧ (t = { u with text := [c] } ∨ t = { u with text := u.text.tail }) := by
  obtain ⟨u, hu, htu⟩ := List.mem_flatMap.1 h
  cases hm : isMerged c u
  · rw [splitC_not hm] at htu; simp only [List.mem_singleton] at htu; subst htu; exact Or.inl hu
  · rw [splitC_merged hm] at htu
    simp only [List.mem_cons, List.mem_nil_iff, or_false] at htu
    exact Or.inr ⟨u, hu, hm, htu⟩

/-- after splitting, every operator token containing `c` is exactly `c` -/
theorem exact_split {c : Char} (hc : SepCh c) (ts : List Tok) (h : ShapeC c ts) :
    ∀ t ∈ splitL c ts, NoSep c t ∨ IsSep c t := by
  intro t ht
  rcases mem_splitL ht with hm | ⟨u, hu, hmu, rfl | rfl⟩
  · rcases h t hm with h1 | h1 | h1
    · exact Or.inl h1
    · exact Or.inr h1
    · -- a merged token of `ts` is split, so it is not in the result — unless it is also there unsplit; either way it has the shape
      exfalso
      obtain ⟨v, hv, htv⟩ := List.mem_flatMap.1 ht
      cases hmv : isMerged c v
      · rw [splitC_not hmv] at htv; simp only [List.mem_singleton] at htv; subst htv; rw [h1] at hmv; cases hmv
      · rw [splitC_merged hmv] at htv
        simp only [List.mem_cons, List.mem_nil_iff, or_false] at htv
        obtain ⟨_, _, hne, hall⟩ := merged_facts h1
        rcases htv with rfl | rfl
        · exact hne rfl
        · obtain ⟨_, htx, _, _⟩ := merged_facts h1
          have h0 : (v.text.tail).head? = some c := by
            have : ({ v with text := v.text.tail } : Tok).text = c :: ({ v with text := v.text.tail } : Tok).text.tail := htx
            rw [show ({ v with text := v.text.tail } : Tok).text = v.text.tail from rfl] at this
            rw [this]; rfl
          have hall' := (merged_facts hmv).2.2.2
          cases hvt : v.text.tail with
          | nil => rw [hvt] at h0; cases h0
          | cons y r =>
            rw [hvt] at h0 hall'
            simp only [List.head?_cons, Option.some.injEq] at h0
            subst h0
            simp only [List.all_cons, Bool.and_eq_true] at hall'
            rw [sepCh_notSign hc] at hall'
            cases hall'.1
  · exact Or.inr (sepPiece (merged_facts hmu).1)
  · exact Or.inl (signs_noSep hc u _ (merged_facts hmu).2.2.2)

theorem mem_insert_exact (add : Bool) (c : Char) : ∀ (Y : List Tok), (∀ t ∈ Y, NoSep c t ∨ IsSep c t) →
    ∀ t ∈ insertOneAfter add c Y, t ∈ Y ∨ t = tokOne ∨ t = tokPlus
  | [], _, t, ht => by simp [insertOneAfter] at ht
  | u :: Y, h, t, ht => by
    have ih := mem_insert_exact add c Y (fun v hv => h v (by simp [hv]))
    rcases h u (by simp) with hn | hs
    · rw [insertOneAfter_cons_noSep add c u _ hn] at ht
      rcases List.mem_cons.1 ht with rfl | ht
      · exact Or.inl (by simp)
      · rcases ih t ht with h1 | h1
        · exact Or.inl (by simp [h1])
        · exact Or.inr h1
    · rw [insertOneAfter_sep add c u _ hs] at ht
      rcases List.mem_cons.1 ht with rfl | ht
      · exact Or.inl (by simp)
      · rcases List.mem_append.1 ht with ht | ht
        · unfold sepIns at ht
          cases add
          · simp at ht
          · by_cases hj : needsJoin Y.head? = true
            · simp [hj] at ht; exact Or.inr ht
            · simp [hj] at ht; exact Or.inr (Or.inl ht)
        · rcases ih t ht with h1 | h1
          · exact Or.inl (by simp [h1])
          · exact Or.inr h1

/-- the `~` pass keeps the shape of the `|` tokens -/
theorem shape_insert (add : Bool) (Z : List Tok) (h1 : ShapeC '~' Z) (h2 : ShapeC '|' Z) :
    ShapeC '|' (insertOneAfter add '~' Z) := by
  have hc : SepCh '~' := Or.inl rfl
  have hd : SepCh '|' := Or.inr rfl
  intro t ht
  rw [← insertOneAfter_split add hc Z h1] at ht
  rcases mem_insert_exact add '~' _ (exact_split hc Z h1) t ht with hm | rfl | rfl
  · rcases mem_splitL hm with hm | ⟨u, hu, hmu, rfl | rfl⟩
    · exact h2 t hm
    · exact Or.inl (fun _ => by show ['~'].contains '|' = false; decide)
    · exact Or.inl (signs_noSep hd u _ (merged_facts hmu).2.2.2)
  · exact Or.inl (one_noSep _)
  · exact Or.inl (plus_noSep hd)

theorem shape_sub {c : Char} {X Y : List Tok} (h : ShapeC c X) (hs : ∀ t ∈ Y, t ∈ X) : ShapeC c Y :=
  fun t ht => h t (hs t ht)

theorem isEmpty_split (c : Char) : ∀ X : List Tok, (splitL c X).isEmpty = X.isEmpty
  | [] => rfl
  | t :: X => by
    rw [splitL_cons]
    cases hm : isMerged c t
    · rw [splitC_not hm]; rfl
    · rw [splitC_merged hm]; rfl

/-- **the token rewriting does not see whether a separator and the signs after it are one token or two** -/
theorem interceptTokens_split (add : Bool) (ts : List Tok) (h1 : ShapeC '~' ts) (h2 : ShapeC '|' ts) :
    (interceptTokens add (splitL '|' (splitL '~' ts))).1 = (interceptTokens add ts).1 ∧
    (interceptTokens add (splitL '|' (splitL '~' ts))).2 = splitL '|' (interceptTokens add ts).2 := by
  have hc : SepCh '~' := Or.inl rfl
  have hd : SepCh '|' := Or.inr rfl
  have hz1 := shape_replaceZero hc ts h1
  have hz2 := shape_replaceZero hd ts h2
  have hT : insertOneAfter add '~' (replaceZero (splitL '|' (splitL '~' ts)))
      = splitL '|' (insertOneAfter add '~' (replaceZero ts)) := by
    rw [replaceZero_split, replaceZero_split, insertOneAfter_comm add hc hd (by decide) _ (exact_split hc _ hz1),
      insertOneAfter_split add hc _ hz1]
  have hsh := shape_insert add _ hz1 hz2
  rw [interceptTokens_def, interceptTokens_def, hT]
  generalize insertOneAfter add '~' (replaceZero ts) = T at hsh
  obtain ⟨r0, r1, r2⟩ := rhs_split T
  rw [r1, r2]
  have e1 := insertOneAfter_split false hd (T.take (rhsOf T)) (shape_sub hsh (fun t ht => List.mem_of_mem_take ht))
  have e2 := insertOneAfter_split add hd (T.drop (rhsOf T)) (shape_sub hsh (fun t ht => List.mem_of_mem_drop ht))
  rw [e1, e2, isEmpty_split]
  refine ⟨?_, rfl⟩
  have hpos : (decide (rhsOf (splitL '|' T) > 0)) = decide (rhsOf T > 0) := by
    by_cases h : rhsOf T = 0
    · rw [h, r0.2 h]
    · have h' : rhsOf (splitL '|' T) ≠ 0 := fun hh => h (r0.1 hh)
      rw [decide_eq_true (Nat.pos_of_ne_zero h), decide_eq_true (Nat.pos_of_ne_zero h')]
  simp only [hpos]

end FormulaicVerif.Proofs.C01Merged
