import FormulaicVerif.Proofs.C03Bridge
import FormulaicVerif.Proofs.C03Ref
import Mathlib.Data.Fintype.BigOperators
import Mathlib.LinearAlgebra.Dimension.Constructions
import Mathlib.LinearAlgebra.FiniteDimensional.Lemmas
import Mathlib.LinearAlgebra.Dimension.OrzechProperty
/-! C03, step 2 of the bridge (Mathlib): on a fully crossed design the `List Rat` columns that a list of model
scoped terms denotes (`Spec.C03.refColumns`) are, as vectors indexed by the rows, exactly the (scaled) abstract
structure columns of `Proofs/C03Bridge.lean` read along the rows. -/
namespace FormulaicVerif.Proofs.C03Matrix
open FormulaicVerif.Model FormulaicVerif.Spec FormulaicVerif.Spec.C03 FormulaicVerif.Proofs.C03
  FormulaicVerif.Proofs.C02 FormulaicVerif.Proofs.TensorRank FormulaicVerif.Proofs.C03Bridge

/-! ### tuples of a Kronecker product of mapped lists -/

theorem length_kron {α} (fs : List (List α)) : (kron fs).length = (fs.map List.length).prod := by
  induction fs with
  | nil => simp [kron]
  | cons f r ih =>
    simp only [kron, List.length_flatMap, List.length_map, List.map_cons, List.prod_cons]
    rw [List.map_const', List.sum_replicate, ih]
    simp [Nat.mul_comm]

theorem mem_kron_map_of {α β} (l : List α) (g : α → β) (h : α → List β) (hg : ∀ a ∈ l, g a ∈ h a) :
    l.map g ∈ kron (l.map h) := by
  induction l with
  | nil => simp [kron]
  | cons a r ih =>
    simp only [List.map_cons]
    exact mem_kron_cons.mpr ⟨g a, hg a (by simp), r.map g, ih (fun x hx => hg x (by simp [hx])), rfl⟩

theorem mem_kron_map_elim {α β} (l : List α) (h : α → List β) {p : List β} (hp : p ∈ kron (l.map h)) :
    p.length = l.length ∧ ∀ t (h1 : t < l.length) (h2 : t < p.length), p[t] ∈ h l[t] := by
  induction l generalizing p with
  | nil =>
    simp only [List.map_nil, kron, List.mem_singleton] at hp
    subst hp
    exact ⟨rfl, fun t h1 _ => absurd h1 (by simp)⟩
  | cons a r ih =>
    obtain ⟨x, hx, t, ht, rfl⟩ := mem_kron_cons.mp hp
    obtain ⟨hl, hm⟩ := ih ht
    refine ⟨by simp [hl], ?_⟩
    intro u h1 h2
    cases u with
    | zero => simpa using hx
    | succ u =>
      simp only [List.getElem_cons_succ]
      exact hm u (by simpa using h1) (by simpa using h2)

/-! ### the design -/

section design
variable {n : ℕ} (c : Cache) (nrows : ℕ) (k : Fin n → ℕ) (expr : Fin n → String)
  (tab : Fin n → Bool → List Item)
  (B : (i : Fin n) → (b : Bool) → Fin (tab i b).length → (Fin (k i) → ℚ))
  (row : Fin nrows → (i : Fin n) → Fin (k i))

/-- The factor cache `c` holds a FULLY CROSSED DESIGN with `nrows` rows: the axes `i : Fin n` are factor
expressions `expr i` (pairwise different) with `k i` levels each; `row r i` is the level of axis `i` in row `r`, and
every combination of levels occurs in some row; `tab i b` is the flattened encoding of factor `i`
(`_encode_evaled_factor`, `reduced_rank = b`), and its `j`-th column is the function `B i b j` of the level of axis
`i`, read along the rows. -/
structure CrossedDesign : Prop where
  expr_inj : Function.Injective expr
  row_surj : Function.Surjective row
  enc : ∀ i b, ∃ f, c.get (expr i) = .ok f ∧ encodeEvaledFactor f b = .ok (tab i b)
  col : ∀ i b (j : Fin (tab i b).length), ((tab i b)[j]).col = List.ofFn (fun r => B i b j (row r i))

/-- reduced coding of axis `i` -/
abbrev Rd : (i : Fin n) → Fin (tab i true).length → (Fin (k i) → ℚ) := fun i => B i true
/-- full coding of axis `i` -/
abbrev Fd : (i : Fin n) → Fin (tab i false).length → (Fin (k i) → ℚ) := fun i => B i false

/-- the column index of a block as a number -/
def jnat (i : Fin n) : (cd : Option Bool) → (blk (Rd k tab B) (Fd k tab B) i cd).J → ℕ
  | none, _ => 0
  | some true, j => (show Fin (tab i true).length from j).val
  | some false, j => (show Fin (tab i false).length from j).val

/-- the value a block column takes on a level, by number -/
def bval (i : Fin n) (cd : Option Bool) (j : ℕ) (l : Fin (k i)) : ℚ :=
  match cd with
  | none => 1
  | some b => if h : j < (tab i b).length then B i b ⟨j, h⟩ l else 0

theorem blk_v (i : Fin n) (cd : Option Bool) (x : (blk (Rd k tab B) (Fd k tab B) i cd).J) (l : Fin (k i)) :
    (blk (Rd k tab B) (Fd k tab B) i cd).v x l = bval k tab B i cd (jnat k tab B i cd x) l := by
  cases cd with
  | none => rfl
  | some b =>
    cases b with
    | true =>
      let x' : Fin (tab i true).length := x
      show B i true x' l = if h : x'.val < (tab i true).length then B i true ⟨x'.val, h⟩ l else 0
      rw [dif_pos x'.isLt, Fin.eta]
    | false =>
      let x' : Fin (tab i false).length := x
      show B i false x' l = if h : x'.val < (tab i false).length then B i false ⟨x'.val, h⟩ l else 0
      rw [dif_pos x'.isLt, Fin.eta]

theorem jnat_lt (i : Fin n) (cd : Option Bool) (b : Bool) (h : cd = some b)
    (x : (blk (Rd k tab B) (Fd k tab B) i cd).J) : jnat k tab B i cd x < (tab i b).length := by
  subst h
  cases b with
  | true => exact (show Fin (tab i true).length from x).isLt
  | false => exact (show Fin (tab i false).length from x).isLt

theorem exists_jnat (i : Fin n) (cd : Option Bool) (b : Bool) (h : cd = some b) (j : ℕ) (hj : j < (tab i b).length) :
    ∃ x : (blk (Rd k tab B) (Fd k tab B) i cd).J, jnat k tab B i cd x = j := by
  subst h
  cases b with
  | true => exact ⟨(⟨j, hj⟩ : Fin (tab i true).length), rfl⟩
  | false => exact ⟨(⟨j, hj⟩ : Fin (tab i false).length), rfl⟩

theorem nonempty_of_none (i : Fin n) (cd : Option Bool) (h : cd = none) :
    Nonempty (blk (Rd k tab B) (Fd k tab B) i cd).J := by
  subst h; exact ⟨()⟩

/-- how many columns a block has -/
def cnt (i : Fin n) : Option Bool → ℕ
  | none => 1
  | some b => (tab i b).length

instance blkFintype (i : Fin n) : (cd : Option Bool) → Fintype (blk (Rd k tab B) (Fd k tab B) i cd).J
  | none => (inferInstance : Fintype Unit)
  | some true => (inferInstance : Fintype (Fin (tab i true).length))
  | some false => (inferInstance : Fintype (Fin (tab i false).length))

theorem card_blk (i : Fin n) (cd : Option Bool) :
    @Fintype.card (blk (Rd k tab B) (Fd k tab B) i cd).J (blkFintype k tab B i cd) = cnt tab i cd := by
  cases cd with
  | none => simp [cnt, blk]
  | some b => cases b <;> simp [cnt, blk]


/-! ### from factor expressions to axes -/

/-- the axis a factor expression names -/
def axq (e : String) : Option (Fin n) := (List.finRange n).find? (fun i => expr i == e)

theorem axq_some {e : String} {i : Fin n} (h : axq expr e = some i) : expr i = e := by
  have := List.find?_some h
  simpa using this

theorem axq_expr (hinj : Function.Injective expr) (i : Fin n) : axq expr (expr i) = some i := by
  cases h : axq expr (expr i) with
  | none =>
    have := List.find?_eq_none.mp h i (List.mem_finRange i)
    simp at this
  | some i' => rw [hinj (axq_some expr h)]

theorem axq_of_eq (hinj : Function.Injective expr) {e : String} {i : Fin n} (h : expr i = e) : axq expr e = some i := by
  rw [← h]; exact axq_expr expr hinj i

/-- the flattened encoding a scoped factor is materialised with -/
def tabOf (sf : SF) : List Item :=
  match axq expr sf.expr with
  | some i => tab i sf.reduced
  | none => []

variable {c nrows k expr tab B row}

theorem encodeFactors_tab (hd : CrossedDesign c nrows k expr tab B row) (sfs : List SF)
    (hcov : ∀ sf ∈ sfs, ∃ i, expr i = sf.expr) :
    encodeFactors c sfs = .ok (sfs.map (tabOf expr tab)) := by
  induction sfs with
  | nil => rfl
  | cons sf r ih =>
    obtain ⟨i, hi⟩ := hcov sf (by simp)
    obtain ⟨f, hf, he⟩ := hd.enc i sf.reduced
    have ht : tabOf expr tab sf = tab i sf.reduced := by
      simp only [tabOf, axq_of_eq expr hd.expr_inj hi]
    simp only [encodeFactors, ← hi, hf, he, ih (fun x hx => hcov x (by simp [hx])), List.map_cons, ht]

theorem codeOf_eq_none {st : ST} {i : Fin n} (h : ∀ sf ∈ st.factors, sf.expr ≠ expr i) : codeOf expr st i = none := by
  by_contra hne
  obtain ⟨sf, hsf, he⟩ := codeOf_ne_none expr hne
  exact h sf hsf he

/-- a product over all axes of a function that is trivial off the factors of a scoped term is the product over
the term's factor list -/
theorem prod_axes {M : Type} [CommMonoid M] (hinj : Function.Injective expr) (l : List SF)
    (hnd : (l.map (·.expr)).Nodup) (hcov : ∀ sf ∈ l, ∃ i, expr i = sf.expr) (g : Fin n → M)
    (hg : ∀ i, (∀ sf ∈ l, sf.expr ≠ expr i) → g i = 1) :
    ∏ i, g i = (l.map (fun sf => match axq expr sf.expr with | some i => g i | none => 1)).prod := by
  induction l generalizing g with
  | nil =>
    simp only [List.map_nil, List.prod_nil]
    exact Finset.prod_eq_one (fun i _ => hg i (by simp))
  | cons sf r ih =>
    obtain ⟨i0, hi0⟩ := hcov sf (by simp)
    simp only [List.map_cons, List.nodup_cons] at hnd
    have hax : axq expr sf.expr = some i0 := axq_of_eq expr hinj hi0
    -- split off the factor of axis `i0`
    let g' : Fin n → M := fun i => if i = i0 then 1 else g i
    have hsplit : ∀ i, g i = (if i = i0 then g i0 else 1) * g' i := by
      intro i
      by_cases h : i = i0
      · subst h; simp [g']
      · simp [g', h]
    have h1 : ∏ i, g i = g i0 * ∏ i, g' i := by
      rw [Finset.prod_congr rfl (fun i _ => hsplit i), Finset.prod_mul_distrib]
      simp
    have hg' : ∀ i, (∀ sf' ∈ r, sf'.expr ≠ expr i) → g' i = 1 := by
      intro i hi
      by_cases h : i = i0
      · simp [g', h]
      · simp only [g', h, if_false]
        apply hg
        intro sf' hsf'
        simp only [List.mem_cons] at hsf'
        rcases hsf' with rfl | hsf'
        · intro e; exact h (hinj (hi0.trans e).symm)
        · exact hi sf' hsf'
    rw [h1, ih hnd.2 (fun x hx => hcov x (by simp [hx])) g' hg']
    simp only [List.map_cons, List.prod_cons, hax]
    congr 1
    apply congrArg
    apply List.map_congr_left
    intro sf' hsf'
    obtain ⟨i', hi'⟩ := hcov sf' (by simp [hsf'])
    have hax' : axq expr sf'.expr = some i' := axq_of_eq expr hinj hi'
    have hne : i' ≠ i0 := by
      intro e
      apply hnd.1
      rw [← hi0, ← e, hi']
      exact List.mem_map_of_mem hsf'
    simp [hax', g', hne]


/-! ### the columns of one scoped term -/

variable (nrows k expr tab B row) in
/-- the vector that a choice `κ` of one column per factor of the scoped term denotes: the term's scale times the
abstract structure column, read along the rows -/
def vecOf (st : ST) (κ : (i : Fin n) → (blk (Rd k tab B) (Fd k tab B) i (codeOf expr st i)).J) : Fin nrows → ℚ :=
  fun r => st.scale * stFamily (Rd k tab B) (Fd k tab B) (codeOf expr st) κ (row r)

def dflt : Item := ⟨"", ⟨"", none, false⟩, []⟩

variable (k expr tab B) in
/-- the encoded item of a scoped factor that the choice `κ` selects -/
def pickItem (st : ST) (κ : (i : Fin n) → (blk (Rd k tab B) (Fd k tab B) i (codeOf expr st i)).J) (sf : SF) : Item :=
  match axq expr sf.expr with
  | some i => ((tab i sf.reduced)[jnat k tab B i (codeOf expr st i) (κ i)]?).getD dflt
  | none => dflt

theorem colVec_entryOf (nr : ℕ) (s : ℚ) (p : List Item) (hl : ∀ it ∈ p, it.col.length = nr) (r : Fin nr) :
    colVec nr (entryOf nr s p) r = s * (p.map (fun it => it.col.getD r.val 0)).prod := by
  have h := (smul_colProd_spec nr s (p.map (·.col)) (by
    intro cc hc
    obtain ⟨it, hit, rfl⟩ := List.mem_map.mp hc
    exact hl it hit)).2 r.val r.isLt
  simp only [colVec, entryOf]
  rw [h, rowProd, List.map_map, List.prod_eq_foldr]
  rfl

theorem pickItem_spec (hd : CrossedDesign c nrows k expr tab B row) {st : ST} (hnd : ExprNodup st)
    (κ : (i : Fin n) → (blk (Rd k tab B) (Fd k tab B) i (codeOf expr st i)).J) {sf : SF} (hsf : sf ∈ st.factors)
    {i : Fin n} (hi : expr i = sf.expr) :
    ∃ (hj : jnat k tab B i (codeOf expr st i) (κ i) < (tab i sf.reduced).length),
      pickItem k expr tab B st κ sf = (tab i sf.reduced)[jnat k tab B i (codeOf expr st i) (κ i)] := by
  have hc := codeOf_eq_some expr hnd hsf hi
  have hj := jnat_lt k tab B i _ _ hc (κ i)
  refine ⟨hj, ?_⟩
  simp only [pickItem, axq_of_eq expr hd.expr_inj hi]
  rw [List.getElem?_eq_getElem hj]
  rfl

/-- the column the selected items multiply to IS the structure column of the choice, read along the rows -/
theorem colVec_pick (hd : CrossedDesign c nrows k expr tab B row) {st : ST} (hnd : ExprNodup st)
    (hcov : ∀ sf ∈ st.factors, ∃ i, expr i = sf.expr)
    (κ : (i : Fin n) → (blk (Rd k tab B) (Fd k tab B) i (codeOf expr st i)).J) :
    colVec nrows (entryOf nrows st.scale (st.factors.map (pickItem k expr tab B st κ))) = vecOf nrows k expr tab B row st κ := by
  funext r
  rw [colVec_entryOf]
  · simp only [vecOf, stFamily, prodFamily, blk_v]
    congr 1
    rw [prod_axes hd.expr_inj st.factors hnd hcov
      (fun i => bval k tab B i (codeOf expr st i) (jnat k tab B i (codeOf expr st i) (κ i)) (row r i))]
    · rw [List.map_map]
      congr 1
      apply List.map_congr_left
      intro sf hsf
      obtain ⟨i, hi⟩ := hcov sf hsf
      obtain ⟨hj, hp⟩ := pickItem_spec hd hnd κ hsf hi
      have hc := codeOf_eq_some expr hnd hsf hi
      simp only [Function.comp_apply, axq_of_eq expr hd.expr_inj hi, hp]
      have hcol := hd.col i sf.reduced ⟨_, hj⟩
      simp only [Fin.getElem_fin] at hcol
      rw [hcol]
      generalize jnat k tab B i (codeOf expr st i) (κ i) = j at hj ⊢
      rw [hc]
      simp [bval, hj, List.getD_eq_getElem?_getD]
    · intro i hi
      generalize jnat k tab B i (codeOf expr st i) (κ i) = j
      rw [codeOf_eq_none hi]
      rfl
  · intro it hit
    obtain ⟨sf, hsf, rfl⟩ := List.mem_map.mp hit
    obtain ⟨i, hi⟩ := hcov sf hsf
    obtain ⟨hj, hp⟩ := pickItem_spec hd hnd κ hsf hi
    rw [hp]
    have hcol := hd.col i sf.reduced ⟨_, hj⟩
    simp only [Fin.getElem_fin] at hcol
    rw [hcol]
    simp


theorem pick_mem_kron (hd : CrossedDesign c nrows k expr tab B row) {st : ST} (hnd : ExprNodup st)
    (hcov : ∀ sf ∈ st.factors, ∃ i, expr i = sf.expr)
    (κ : (i : Fin n) → (blk (Rd k tab B) (Fd k tab B) i (codeOf expr st i)).J) :
    st.factors.map (pickItem k expr tab B st κ) ∈ kron (st.factors.map (tabOf expr tab)) := by
  apply mem_kron_map_of
  intro sf hsf
  obtain ⟨i, hi⟩ := hcov sf hsf
  obtain ⟨hj, hp⟩ := pickItem_spec hd hnd κ hsf hi
  rw [hp]
  simp only [tabOf, axq_of_eq expr hd.expr_inj hi]
  exact List.getElem_mem hj

/-- every Kronecker choice of encoded items is the selection of some `κ` -/
theorem kron_is_pick (hd : CrossedDesign c nrows k expr tab B row) {st : ST} (hnd : ExprNodup st)
    (hcov : ∀ sf ∈ st.factors, ∃ i, expr i = sf.expr) {p : List Item}
    (hp : p ∈ kron (st.factors.map (tabOf expr tab))) :
    ∃ κ : (i : Fin n) → (blk (Rd k tab B) (Fd k tab B) i (codeOf expr st i)).J,
      p = st.factors.map (pickItem k expr tab B st κ) := by
  obtain ⟨hlen, hmem⟩ := mem_kron_map_elim st.factors (tabOf expr tab) hp
  have hex : ∀ i : Fin n, ∃ x : (blk (Rd k tab B) (Fd k tab B) i (codeOf expr st i)).J,
      ∀ t (h1 : t < st.factors.length) (h2 : t < p.length), expr i = st.factors[t].expr →
        (tab i st.factors[t].reduced)[jnat k tab B i (codeOf expr st i) x]? = some p[t] := by
    intro i
    by_cases h : ∃ t, ∃ h1 : t < st.factors.length, expr i = st.factors[t].expr
    · obtain ⟨t0, h1, he⟩ := h
      have h2 : t0 < p.length := by omega
      have hc := codeOf_eq_some expr hnd (List.getElem_mem h1) he
      have hin := hmem t0 h1 h2
      simp only [tabOf, axq_of_eq expr hd.expr_inj he] at hin
      obtain ⟨j, hj, hje⟩ := List.getElem_of_mem hin
      obtain ⟨x, hx⟩ := exists_jnat k tab B i _ _ hc j hj
      refine ⟨x, ?_⟩
      intro t h1' h2' he'
      have : t = t0 := by
        have hn : (st.factors.map (·.expr)).Nodup := hnd
        have := (List.Nodup.getElem_inj_iff hn (i := t) (j := t0) (hi := by simpa using h1') (hj := by simpa using h1)).mp
          (by simp only [List.getElem_map]; rw [← he, ← he'])
        exact this
      subst this
      rw [hx, List.getElem?_eq_getElem hj, hje]
    · have hnone : codeOf expr st i = none := by
        apply codeOf_eq_none
        intro sf hsf he
        obtain ⟨t, ht, rfl⟩ := List.getElem_of_mem hsf
        exact h ⟨t, ht, he.symm⟩
      obtain ⟨x⟩ := nonempty_of_none k tab B i _ hnone
      refine ⟨x, ?_⟩
      intro t h1 _ he
      exact absurd ⟨t, h1, he⟩ h
  choose κ hκ using hex
  refine ⟨κ, ?_⟩
  apply List.ext_getElem (by simp [hlen])
  intro t h1 h2
  have h1' : t < st.factors.length := by omega
  simp only [List.getElem_map]
  obtain ⟨i, hi⟩ := hcov _ (List.getElem_mem h1')
  have := hκ i t h1' h1 hi
  simp only [pickItem, axq_of_eq expr hd.expr_inj hi, this, Option.getD_some]

theorem cnt_prod (hd : CrossedDesign c nrows k expr tab B row) {st : ST} (hnd : ExprNodup st)
    (hcov : ∀ sf ∈ st.factors, ∃ i, expr i = sf.expr) :
    (kron (st.factors.map (tabOf expr tab))).length = ∏ i, cnt tab i (codeOf expr st i) := by
  rw [length_kron, List.map_map,
    prod_axes hd.expr_inj st.factors hnd hcov (fun i => cnt tab i (codeOf expr st i))]
  · congr 1
    apply List.map_congr_left
    intro sf hsf
    obtain ⟨i, hi⟩ := hcov sf hsf
    simp only [Function.comp_apply, tabOf, axq_of_eq expr hd.expr_inj hi, codeOf_eq_some expr hnd hsf hi, cnt]
  · intro i hi
    rw [codeOf_eq_none hi]
    rfl

/-- what one scoped term denotes on a crossed design: exactly the structure columns of the term (one per choice
of a column per factor), scaled and read along the rows — and as many of them -/
theorem stEntries_spec (hd : CrossedDesign c nrows k expr tab B row) {st : ST} (hnd : ExprNodup st)
    (hcov : ∀ sf ∈ st.factors, ∃ i, expr i = sf.expr) :
    ∃ es, stEntries c nrows st = .ok es ∧
      (∀ e ∈ es, ∃ κ, colVec nrows e = vecOf nrows k expr tab B row st κ) ∧
      (∀ κ, ∃ e ∈ es, colVec nrows e = vecOf nrows k expr tab B row st κ) ∧
      es.length = ∏ i, cnt tab i (codeOf expr st i) := by
  have henc := encodeFactors_tab hd st.factors hcov
  have hcount := cnt_prod hd hnd hcov
  by_cases he : st.factors.isEmpty = true
  · have hnil : st.factors = [] := by simpa using he
    refine ⟨[⟨"Intercept", [], Col.smul st.scale (Col.ones nrows)⟩], by simp [stEntries, he], ?_, ?_, ?_⟩
    · intro e hin
      simp only [List.mem_singleton] at hin
      subst hin
      obtain ⟨κ, _⟩ := kron_is_pick hd hnd hcov (p := []) (by simp [hnil, kron])
      refine ⟨κ, ?_⟩
      rw [← colVec_pick hd hnd hcov κ, hnil]
      rfl
    · intro κ
      refine ⟨_, List.mem_singleton_self _, ?_⟩
      rw [← colVec_pick hd hnd hcov κ, hnil]
      rfl
    · rw [← hcount, hnil]
      simp [kron]
  · have he' : st.factors.isEmpty = false := by simpa using he
    refine ⟨(kron (st.factors.map (tabOf expr tab))).map (entryOf nrows st.scale),
      by simp [stEntries, he', henc], ?_, ?_, by rw [List.length_map, hcount]⟩
    · intro e hin
      obtain ⟨p, hp, rfl⟩ := List.mem_map.mp hin
      obtain ⟨κ, rfl⟩ := kron_is_pick hd hnd hcov hp
      exact ⟨κ, colVec_pick hd hnd hcov κ⟩
    · intro κ
      exact ⟨_, List.mem_map_of_mem (pick_mem_kron hd hnd hcov κ), colVec_pick hd hnd hcov κ⟩


/-! ### the columns of a list of scoped terms -/

theorem refColumns_spec (hd : CrossedDesign c nrows k expr tab B row) (E : List ST)
    (hnd : ∀ st ∈ E, ExprNodup st) (hcov : ∀ st ∈ E, ∀ sf ∈ st.factors, ∃ i, expr i = sf.expr) :
    ∃ out, refColumns c nrows E = .ok out ∧
      (∀ e ∈ out, ∃ st ∈ E, ∃ κ, colVec nrows e = vecOf nrows k expr tab B row st κ) ∧
      (∀ st ∈ E, ∀ κ, ∃ e ∈ out, colVec nrows e = vecOf nrows k expr tab B row st κ) ∧
      out.length = (E.map (fun st => ∏ i, cnt tab i (codeOf expr st i))).sum := by
  induction E with
  | nil => exact ⟨[], rfl, by simp, by simp, by simp⟩
  | cons st r ih =>
    obtain ⟨es, hes, h1, h2, h3⟩ := stEntries_spec hd (hnd st (by simp)) (hcov st (by simp))
    obtain ⟨rest, hrest, g1, g2, g3⟩ := ih (fun x hx => hnd x (by simp [hx])) (fun x hx => hcov x (by simp [hx]))
    refine ⟨es ++ rest, by simp [refColumns, hes, hrest], ?_, ?_, by simp [h3, g3]⟩
    · intro e he
      rcases List.mem_append.mp he with he | he
      · obtain ⟨κ, hκ⟩ := h1 e he
        exact ⟨st, by simp, κ, hκ⟩
      · obtain ⟨st', hst', κ, hκ⟩ := g1 e he
        exact ⟨st', by simp [hst'], κ, hκ⟩
    · intro st' hst' κ
      simp only [List.mem_cons] at hst'
      rcases hst' with rfl | hst'
      · obtain ⟨e, he, hv⟩ := h2 κ
        exact ⟨e, by simp [he], hv⟩
      · obtain ⟨e, he, hv⟩ := g2 st' hst' κ
        exact ⟨e, by simp [he], hv⟩

variable (nrows k expr tab B row) in
/-- the scaled structure columns of a list of scoped terms, read along the rows of the data -/
def rowColumns (E : List ST) :
    (Σ a : Fin E.length, ((i : Fin n) → (blk (Rd k tab B) (Fd k tab B) i (codeOf expr E[a] i)).J)) → (Fin nrows → ℚ) :=
  fun x => vecOf nrows k expr tab B row E[x.1] x.2

theorem rowColumns_eq (E : List ST)
    (x : Σ a : Fin E.length, ((i : Fin n) → (blk (Rd k tab B) (Fd k tab B) i (codeOf expr E[a] i)).J)) :
    rowColumns nrows k expr tab B row E x =
      E[x.1].scale • LinearMap.funLeft ℚ ℚ row (structureColumns expr (Rd k tab B) (Fd k tab B) E x) := by
  funext r
  simp [rowColumns, vecOf, structureColumns, LinearMap.funLeft_apply]

theorem sum_fin_getElem {α} (E : List α) (h : α → ℕ) : ∑ a : Fin E.length, h E[a] = (E.map h).sum := by
  induction E with
  | nil => simp
  | cons x r ih =>
    change ∑ a : Fin (r.length + 1), h (x :: r)[a] = _
    rw [Fin.sum_univ_succ]
    simp only [List.map_cons, List.sum_cons, ← ih]
    rfl

/-- the matrix columns that a list of scoped terms denotes are — as a set of vectors and in number — the scaled
structure columns read along the rows -/
theorem refColumns_range (hd : CrossedDesign c nrows k expr tab B row) (E : List ST)
    (hnd : ∀ st ∈ E, ExprNodup st) (hcov : ∀ st ∈ E, ∀ sf ∈ st.factors, ∃ i, expr i = sf.expr)
    {out : List Entry} (hout : refColumns c nrows E = .ok out) :
    Set.range (fun a : Fin out.length => colVec nrows out[a]) = Set.range (rowColumns nrows k expr tab B row E) ∧
    out.length = Fintype.card
      (Σ a : Fin E.length, ((i : Fin n) → (blk (Rd k tab B) (Fd k tab B) i (codeOf expr E[a] i)).J)) := by
  obtain ⟨out', hout', h1, h2, h3⟩ := refColumns_spec hd E hnd hcov
  rw [hout, Except.ok.injEq] at hout'
  subst hout'
  constructor
  · ext w
    constructor
    · rintro ⟨a, rfl⟩
      obtain ⟨st, hst, κ, hκ⟩ := h1 out[a] (List.getElem_mem _)
      obtain ⟨t, ht, rfl⟩ := List.getElem_of_mem hst
      exact ⟨⟨⟨t, ht⟩, κ⟩, hκ.symm⟩
    · rintro ⟨⟨a, κ⟩, rfl⟩
      obtain ⟨e, he, hv⟩ := h2 E[a] (List.getElem_mem _) κ
      obtain ⟨t, ht, rfl⟩ := List.getElem_of_mem he
      exact ⟨⟨t, ht⟩, hv⟩
  · rw [h3, Fintype.card_sigma, ← sum_fin_getElem E (fun st => ∏ i, cnt tab i (codeOf expr st i))]
    apply Finset.sum_congr rfl
    intro a _
    rw [Fintype.card_pi]
    apply Finset.prod_congr rfl
    intro i _
    exact (card_blk k tab B i _).symm


/-! ### linear algebra along the rows -/

theorem span_range_smul {ι V : Type} [AddCommGroup V] [Module ℚ V] (s : ι → ℚ) (u : ι → V) (hs : ∀ x, s x ≠ 0) :
    Submodule.span ℚ (Set.range (fun x => s x • u x)) = Submodule.span ℚ (Set.range u) := by
  apply le_antisymm
  · rw [Submodule.span_le]
    rintro _ ⟨x, rfl⟩
    exact Submodule.smul_mem _ _ (Submodule.subset_span ⟨x, rfl⟩)
  · rw [Submodule.span_le]
    rintro _ ⟨x, rfl⟩
    have : u x = (s x)⁻¹ • (s x • u x) := by rw [smul_smul, inv_mul_cancel₀ (hs x), one_smul]
    rw [this]
    exact Submodule.smul_mem _ _ (Submodule.subset_span ⟨x, rfl⟩)

/-- reading a function of the level combination along the rows loses nothing when every combination occurs -/
theorem ker_funLeft_row (hd : CrossedDesign c nrows k expr tab B row) :
    LinearMap.ker (LinearMap.funLeft ℚ ℚ row) = ⊥ :=
  LinearMap.ker_eq_bot.mpr (LinearMap.funLeft_injective_of_surjective ℚ ℚ row hd.row_surj)

/-- The `List Rat` columns that a list of scoped terms denotes span the structure space read along the rows, and
are linearly independent as soon as the structure columns are. -/
theorem matrix_columns_linear (hd : CrossedDesign c nrows k expr tab B row) (E : List ST)
    (hnd : ∀ st ∈ E, ExprNodup st) (hcov : ∀ st ∈ E, ∀ sf ∈ st.factors, ∃ i, expr i = sf.expr)
    (hscale : ∀ st ∈ E, st.scale ≠ 0) {out : List Entry} (hout : refColumns c nrows E = .ok out) :
    Submodule.span ℚ (Set.range (fun a : Fin out.length => colVec nrows out[a])) =
      (Submodule.span ℚ (Set.range (structureColumns expr (Rd k tab B) (Fd k tab B) E))).map
        (LinearMap.funLeft ℚ ℚ row) ∧
    (LinearIndependent ℚ (structureColumns expr (Rd k tab B) (Fd k tab B) E) →
      LinearIndependent ℚ (fun a : Fin out.length => colVec nrows out[a])) := by
  obtain ⟨hrange, hcard⟩ := refColumns_range hd E hnd hcov hout
  have hfun : rowColumns nrows k expr tab B row E =
      fun x => E[x.1].scale • (LinearMap.funLeft ℚ ℚ row ∘ structureColumns expr (Rd k tab B) (Fd k tab B) E) x := by
    funext x; exact rowColumns_eq E x
  have hsc : ∀ x : (Σ a : Fin E.length, ((i : Fin n) → (blk (Rd k tab B) (Fd k tab B) i (codeOf expr E[a] i)).J)),
      E[x.1].scale ≠ 0 := fun x => hscale _ (List.getElem_mem _)
  have hspan : Submodule.span ℚ (Set.range (rowColumns nrows k expr tab B row E)) =
      (Submodule.span ℚ (Set.range (structureColumns expr (Rd k tab B) (Fd k tab B) E))).map
        (LinearMap.funLeft ℚ ℚ row) := by
    rw [hfun, span_range_smul _ _ hsc, Set.range_comp, Submodule.map_span]
  refine ⟨by rw [hrange, hspan], ?_⟩
  intro hli
  have h1 : LinearIndependent ℚ (LinearMap.funLeft ℚ ℚ row ∘ structureColumns expr (Rd k tab B) (Fd k tab B) E) :=
    hli.map' _ (ker_funLeft_row hd)
  have h2 : LinearIndependent ℚ (rowColumns nrows k expr tab B row E) := by
    rw [hfun]
    exact h1.units_smul (fun x => Units.mk0 _ (hsc x))
  rw [linearIndependent_iff_card_eq_finrank_span, Fintype.card_fin, Set.finrank, hrange, finrank_span_eq_card h2]
  exact hcard

end design


/-! ### the emitted structure -/

/-- every emitted scoped term carries its term's literal scale, which is non-zero by hypothesis -/
theorem scale_ne_zero_of_structure {cfg : Config} {rs : List TermResult} (h : buildStructure cfg = .ok rs)
    (hsc : ∀ t ∈ cfg.terms, ∀ efs, evaledFactors cfg.cache t = .ok efs → literalScale efs ≠ 0) :
    ∀ st ∈ rs.flatMap (·.sts), st.scale ≠ 0 := by
  intro st hst
  obtain ⟨r, hr, hin⟩ := List.mem_flatMap.mp hst
  obtain ⟨hterm, ⟨sp, sp', hscope⟩, _⟩ := termResult_spec h hr
  obtain ⟨efs, hefs, _, _, hscale⟩ := scopeTerm_spec hscope
  rw [hscale st hin, scaleOf_eq_literalScale]
  exact hsc _ hterm efs hefs

theorem exprNodup_of_structure {cfg : Config} {rs : List TermResult} (h : buildStructure cfg = .ok rs)
    (hwf : ∀ t ∈ cfg.terms, t.Nodup) : ∀ st ∈ rs.flatMap (·.sts), ExprNodup st := by
  obtain ⟨terms, scp, hc, hg, hb⟩ := buildStructure_spec h
  have hst : rs.flatMap (·.sts) = scp.flatMap (·.2) := by
    rw [← (buildTerms_spec hb).1, List.flatMap_map]
  rw [hst]
  exact getScopedTerms_exprNodup hg (fun t ht => hwf t (clusterTerms_mem hc ht))

end FormulaicVerif.Proofs.C03Matrix
