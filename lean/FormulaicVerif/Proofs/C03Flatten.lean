import FormulaicVerif.Proofs.C02Pipeline
/-! `_flatten_encoded_evaled_factor` / `_encode_evaled_factor` on a dictionary of columns: when no
two keys print alike (equivalently: the flattened dictionary has as many entries as the encoding has columns), the
result lists the columns in order. Core Lean only. -/
namespace FormulaicVerif.Proofs.C03Flatten
open FormulaicVerif.Model FormulaicVerif.Spec

theorem itemSet_cases (d : List Item) (e : Item) :
    (itemSet d e).length = d.length ∨ itemSet d e = d ++ [e] := by
  induction d with
  | nil => right; rfl
  | cons x r ih =>
    simp only [itemSet]
    split
    · left; simp
    · rcases ih with h | h
      · left; simp [h]
      · right; simp [h]

theorem itemSet_length_le (d : List Item) (e : Item) : (itemSet d e).length ≤ d.length + 1 := by
  rcases itemSet_cases d e with h | h
  · omega
  · rw [h]; simp

theorem foldl_itemSet_spec {α} (mk : α → Item) (l : List α) (acc : List Item) :
    (l.foldl (fun d x => itemSet d (mk x)) acc).length ≤ acc.length + l.length ∧
    ((l.foldl (fun d x => itemSet d (mk x)) acc).length = acc.length + l.length →
      l.foldl (fun d x => itemSet d (mk x)) acc = acc ++ l.map mk) := by
  induction l generalizing acc with
  | nil => simp
  | cons x r ih =>
    simp only [List.foldl_cons, List.length_cons, List.map_cons]
    obtain ⟨h1, h2⟩ := ih (itemSet acc (mk x))
    have hle := itemSet_length_le acc (mk x)
    refine ⟨by omega, ?_⟩
    intro heq
    rcases itemSet_cases acc (mk x) with h | h
    · omega
    · have hlen : (itemSet acc (mk x)).length = acc.length + 1 := by rw [h]; simp
      rw [h2 (by omega), h]
      simp

/-- the item `_flatten_encoded_evaled_factor` makes of one dictionary entry -/
def mkItem (expr : String) (reduced : Bool) (fmt : Fmt) (fc : Field × Col) : Item :=
  ⟨fmt.format expr fc.1.text, ⟨expr, some fc.1, reduced⟩, fc.2⟩

theorem flattenDict_length_le (expr : String) (reduced : Bool) (fmt : Fmt) (cols : List (Field × Col)) :
    (flattenDict expr reduced fmt cols).length ≤ cols.length := by
  unfold flattenDict
  have h := (foldl_itemSet_spec (mkItem expr reduced fmt) cols []).1
  simpa [mkItem] using h

/-- no two keys printing alike: the flattened dictionary is the list of columns -/
theorem flattenDict_eq_map (expr : String) (reduced : Bool) (fmt : Fmt) (cols : List (Field × Col))
    (h : (flattenDict expr reduced fmt cols).length = cols.length) :
    flattenDict expr reduced fmt cols = cols.map (mkItem expr reduced fmt) := by
  unfold flattenDict at h ⊢
  have h2 := (foldl_itemSet_spec (mkItem expr reduced fmt) cols []).2
  simp only [List.length_nil, Nat.zero_add, List.nil_append, mkItem] at h2 ⊢
  exact h2 h

theorem delField_head (k : Field) (v : Col) (r : List (Field × Col)) : delField k ((k, v) :: r) = .ok r := by
  simp [delField]

end FormulaicVerif.Proofs.C03Flatten
