import FormulaicVerif.Spec.OutputAgreement
import FormulaicVerif.Proofs.C05Entry
/-! Helper lemmas for C05: changing only the requested output type changes only the `output` field
of the prepared leaves. Core Lean only. -/
namespace FormulaicVerif.Proofs.C05C
open FormulaicVerif.Model FormulaicVerif.Model.EntryPoints FormulaicVerif.Proofs.C05E
open FormulaicVerif.Spec.OutputAgreement

def setOut (o : String) (ms : MSpec) : MSpec := { ms with output := some o }

def Prepared.setOut (o : String) : Prepared → Prepared
  | .one ms => .one (C05C.setOut o ms)
  | .many parts => .many (parts.map (fun p => (p.1, C05C.setOut o p.2)))

theorem setAttrsFrom_append (ms : MSpec) (a b : List Attr) :
    setAttrsFrom ms (a ++ b) = (match setAttrsFrom ms a with
      | .error e => .error e
      | .ok m => setAttrsFrom m b) := by
  induction a generalizing ms with
  | nil => rfl
  | cons x a ih =>
    simp only [List.cons_append, setAttrsFrom]
    cases setAttr ms x with
    | error e => rfl
    | ok m => exact ih m

theorem postInit_setOut (env : Env) (ms : MSpec) (o : String) :
    postInit env (setOut o ms) = (postInit env ms).map (setOut o) := by
  simp only [postInit, setOut]
  by_cases h1 : ms.na ∈ env.naActions
  · by_cases h2 : ms.cluster ∈ env.clusterBys
    · simp [h1, h2, Except.map, setOut]
    · simp [h1, h2, Except.map]
  · simp [h1, Except.map]

theorem update_output (env : Env) (ms : MSpec) (ov : List Attr) (o : String) :
    update env ms (ov ++ [.output (some o)]) = (update env ms ov).map (setOut o) := by
  simp only [update, setAttrs, List.any_append, List.any_cons, Attr.isUnknown, List.any_nil, Bool.or_false]
  by_cases hu : ov.any Attr.isUnknown
  · simp [hu, Except.map]
  · simp only [hu, Bool.false_eq_true, if_false, setAttrsFrom_append]
    cases setAttrsFrom ms ov with
    | error e => rfl
    | ok m =>
      simp only [setAttrsFrom, setAttr]
      exact postInit_setOut env m o

theorem mapParts_mapr {α β γ : Type} (f : α → Except Err β) (g : β → γ) : ∀ (parts : List (String × α)),
    mapParts (fun a => (f a).map g) parts = (mapParts f parts).map (fun out => out.map (fun p => (p.1, g p.2)))
  | [] => rfl
  | (k, a) :: r => by
    simp only [mapParts, mapParts_mapr f g r]
    cases f a with
    | error e => rfl
    | ok b =>
      cases mapParts f r with
      | error e => rfl
      | ok r' => rfl

/-- asking for another output type only changes the `output` field of the effective spec -/
theorem fromSpec_output (env : Env) (spec : SpecArg) (ov : List Attr) (o : String) :
    fromSpec env spec (ov ++ [.output (some o)]) = (fromSpec env spec ov).map (Prepared.setOut o) := by
  cases spec with
  | formula f =>
    simp only [fromSpec, update_output]
    cases update env { formula := f } ov <;> rfl
  | mspec ms =>
    simp only [fromSpec, update_output]
    cases update env ms ov <;> rfl
  | sformula parts =>
    simp only [fromSpec, update_output]
    rw [mapParts_mapr (fun f => update env { formula := f } ov) (setOut o) parts]
    cases mapParts (fun f => update env { formula := f } ov) parts <;> rfl
  | mspecs parts =>
    simp only [fromSpec, update_output]
    rw [mapParts_mapr (fun ms => update env ms ov) (setOut o) parts]
    cases mapParts (fun ms => update env ms ov) parts <;> rfl

/-! ### the requests of a prepared spec, with the output set -/

/-- forget which output type was asked for -/
def eraseOutMS (ms : MSpec) : MSpec := { ms with output := none }
def eraseOut (q : Request) : Request := { q with specs := q.specs.map (fun l => (l.1, eraseOutMS l.2)) }

/-- every leaf asks for `o` -/
def AllOut (o : String) (q : Request) : Prop := ∀ l ∈ q.specs, l.2.output = some o

theorem prepareLeaf_setOut {inst : Inst} {ms ms' : MSpec} {o : String} (h : prepareLeaf inst (setOut o ms) = .ok ms') :
    ms'.output = some o ∧ o ∈ inst.outputs ∧
    eraseOutMS ms' = { ms with materializer := some inst.name, params := inst.params, output := none } := by
  simp only [prepareLeaf, setOut] at h
  by_cases hc : o ∈ inst.outputs
  · have hb : inst.outputs.contains o = true := by simpa using hc
    simp only [hb, if_true, Except.ok.injEq] at h
    subst h
    exact ⟨rfl, hc, rfl⟩
  · simp [hc] at h

theorem prepareLeaf_setOut_ok {inst : Inst} {ms : MSpec} {o : String} (hc : o ∈ inst.outputs) :
    prepareLeaf inst (setOut o ms) = .ok { ms with materializer := some inst.name, params := inst.params, output := some o } := by
  simp [prepareLeaf, setOut, hc]

/-- the prepared leaves for output `o` are the prepared leaves for any other offered output, output field aside -/
theorem mapParts_prepare_setOut (inst : Inst) (o₁ o₂ : String) : ∀ (leaves : List (String × MSpec)) (out₁ out₂ : List (String × MSpec)),
    mapParts (prepareLeaf inst) (leaves.map (fun p => (p.1, setOut o₁ p.2))) = .ok out₁ →
    mapParts (prepareLeaf inst) (leaves.map (fun p => (p.1, setOut o₂ p.2))) = .ok out₂ →
    out₁.map (fun l => (l.1, eraseOutMS l.2)) = out₂.map (fun l => (l.1, eraseOutMS l.2)) ∧
    (∀ l ∈ out₁, l.2.output = some o₁) ∧ (∀ l ∈ out₂, l.2.output = some o₂)
  | [], out₁, out₂, h₁, h₂ => by
    simp only [List.map_nil, mapParts, Except.ok.injEq] at h₁ h₂
    subst h₁; subst h₂
    simp
  | (k, ms) :: r, out₁, out₂, h₁, h₂ => by
    simp only [List.map_cons, mapParts] at h₁ h₂
    cases e₁ : prepareLeaf inst (setOut o₁ ms) with
    | error e => simp [e₁] at h₁
    | ok m₁ =>
      cases e₂ : prepareLeaf inst (setOut o₂ ms) with
      | error e => simp [e₂] at h₂
      | ok m₂ =>
        simp only [e₁, e₂] at h₁ h₂
        cases f₁ : mapParts (prepareLeaf inst) (r.map (fun p => (p.1, setOut o₁ p.2))) with
        | error e => simp [f₁] at h₁
        | ok t₁ =>
          cases f₂ : mapParts (prepareLeaf inst) (r.map (fun p => (p.1, setOut o₂ p.2))) with
          | error e => simp [f₂] at h₂
          | ok t₂ =>
            simp only [f₁, f₂, Except.ok.injEq] at h₁ h₂
            subst h₁; subst h₂
            have ih := mapParts_prepare_setOut inst o₁ o₂ r t₁ t₂ f₁ f₂
            have p₁ := prepareLeaf_setOut e₁
            have p₂ := prepareLeaf_setOut e₂
            refine ⟨?_, ?_, ?_⟩
            · simp only [List.map_cons, List.cons.injEq, Prod.mk.injEq, true_and]
              exact ⟨p₁.2.2.trans p₂.2.2.symm, ih.1⟩
            · intro l hl
              rcases List.mem_cons.mp hl with rfl | hl
              · exact p₁.1
              · exact ih.2.1 l hl
            · intro l hl
              rcases List.mem_cons.mp hl with rfl | hl
              · exact p₂.1
              · exact ih.2.2 l hl

theorem jointLoop_setOut (o : String) : ∀ (m : Option String) (p : Option Nat) (l : List MSpec),
    jointLoop m p (l.map (setOut o)) = jointLoop m p l
  | _, _, [] => rfl
  | m, p, s :: r => by
    simp only [List.map_cons, jointLoop]
    have hm : (setOut o s).materializer = s.materializer := rfl
    have hp : (setOut o s).params = s.params := rfl
    rw [hm, hp]
    cases s.materializer with
    | none => exact jointLoop_setOut o m p r
    | some sm =>
      simp only
      split
      · exact jointLoop_setOut o m p r
      · split
        · rfl
        · exact jointLoop_setOut o _ _ r

/-- two calls that differ in their keyword overrides only -/
def SameData (c₁ c₂ : Call) : Prop :=
  c₁.data = c₂.data ∧ c₁.dataMat = c₂.dataMat ∧ c₁.context = c₂.context ∧
  c₁.freshDrop = c₂.freshDrop ∧ c₁.dropGrows = c₂.dropGrows

theorem perSpecDrop_sameData {c₁ c₂ : Call} (h : SameData c₁ c₂) (d : Option Nat) : perSpecDrop c₁ d = perSpecDrop c₂ d := by
  cases d <;> simp [perSpecDrop, h.2.2.2.1]

theorem resolve_sameData {env : Env} {c₁ c₂ : Call} (h : SameData c₁ c₂) (m : Option String) :
    resolve env c₁ m = resolve env c₂ m := by
  cases m with
  | none => simp only [resolve, EntryPoints.forData, h.2.1]
  | some n => rfl

theorem instOf_sameData {c₁ c₂ : Call} (h : SameData c₁ c₂) (r : String × List String) (prm : Option Nat) :
    instOf c₁ r prm = instOf c₂ r prm := by
  simp only [instOf, h.1, h.2.2]

/-- the two lists are related element by element -/
inductive All2 {α β : Type} (r : α → β → Prop) : List α → List β → Prop
  | nil : All2 r [] []
  | cons {a b l₁ l₂} : r a b → All2 r l₁ l₂ → All2 r (a :: l₁) (b :: l₂)

theorem All2.append {α β : Type} {r : α → β → Prop} {a₁ a₂ : List α} {b₁ b₂ : List β}
    (h₁ : All2 r a₁ b₁) (h₂ : All2 r a₂ b₂) : All2 r (a₁ ++ a₂) (b₁ ++ b₂) := by
  induction h₁ with
  | nil => exact h₂
  | cons hab _ ih => exact All2.cons hab ih

theorem All2.twice {α β : Type} {r : α → β → Prop} {a : List α} {b : List β} (again : Bool) (h : All2 r a b) :
    All2 r (twice again a) (twice again b) := by
  cases again
  · exact h
  · exact All2.append h h

/-- requests that agree on everything but the output field of their leaves (and possibly `drop_rows`) -/
def SameButOut (o₁ o₂ : String) (q₁ q₂ : Request) : Prop :=
  eraseOut q₁ = eraseOut q₂ ∧ AllOut o₁ q₁ ∧ AllOut o₂ q₂

theorem mkReq_setOut {inst : Inst} {p : Prepared} {d : Option Nat} {o₁ o₂ : String} {q₁ q₂ : Request}
    (h₁ : mkReq inst (Prepared.setOut o₁ p) d = .ok q₁) (h₂ : mkReq inst (Prepared.setOut o₂ p) d = .ok q₂) :
    SameButOut o₁ o₂ q₁ q₂ := by
  have hl : ∀ o, leavesOf (Prepared.setOut o p) = (leavesOf p).map (fun l => (l.1, setOut o l.2)) := by
    intro o; cases p <;> rfl
  have hs : ∀ o, simplifyOf (Prepared.setOut o p) = simplifyOf p := by
    intro o; cases p <;> rfl
  obtain ⟨s₁, e₁, _, rfl⟩ := mkReq_ok h₁
  obtain ⟨s₂, e₂, _, rfl⟩ := mkReq_ok h₂
  rw [hl] at e₁ e₂
  have := mapParts_prepare_setOut inst o₁ o₂ (leavesOf p) s₁ s₂ e₁ e₂
  refine ⟨?_, this.2.1, this.2.2⟩
  simp only [eraseOut, this.1, hs]

theorem oneReq_setOut {env : Env} {c₁ c₂ : Call} (hc : SameData c₁ c₂) {ms : MSpec} {d : Option Nat} {o₁ o₂ : String}
    {q₁ q₂ : Request} (h₁ : oneReq env c₁ (setOut o₁ ms) d = .ok q₁) (h₂ : oneReq env c₂ (setOut o₂ ms) d = .ok q₂) :
    SameButOut o₁ o₂ q₁ q₂ := by
  simp only [oneReq] at h₁ h₂
  have hm : ∀ o, (setOut o ms).materializer = ms.materializer := fun _ => rfl
  have hp : ∀ o, (setOut o ms).params = ms.params := fun _ => rfl
  rw [hm, hp, resolve_sameData hc] at h₁
  rw [hm, hp] at h₂
  cases hr : resolve env c₂ ms.materializer with
  | error e => simp [hr] at h₁
  | ok r =>
    simp only [hr] at h₁ h₂
    rw [instOf_sameData hc] at h₁
    exact mkReq_setOut (p := .one ms) h₁ h₂

theorem mapParts_oneReq_setOut {env : Env} {c₁ c₂ : Call} (hc : SameData c₁ c₂) (d : Option Nat) (o₁ o₂ : String) :
    ∀ (parts : List (String × MSpec)) (out₁ out₂ : List (String × Request)),
    mapParts (fun ms => oneReq env c₁ ms d) (parts.map (fun p => (p.1, setOut o₁ p.2))) = .ok out₁ →
    mapParts (fun ms => oneReq env c₂ ms d) (parts.map (fun p => (p.1, setOut o₂ p.2))) = .ok out₂ →
    All2 (SameButOut o₁ o₂) (out₁.map (·.2)) (out₂.map (·.2))
  | [], out₁, out₂, h₁, h₂ => by
    simp only [List.map_nil, mapParts, Except.ok.injEq] at h₁ h₂
    subst h₁; subst h₂
    exact All2.nil
  | (k, ms) :: r, out₁, out₂, h₁, h₂ => by
    simp only [List.map_cons, mapParts] at h₁ h₂
    cases e₁ : oneReq env c₁ (setOut o₁ ms) d with
    | error e => simp [e₁] at h₁
    | ok m₁ =>
      cases e₂ : oneReq env c₂ (setOut o₂ ms) d with
      | error e => simp [e₂] at h₂
      | ok m₂ =>
        simp only [e₁, e₂] at h₁ h₂
        cases f₁ : mapParts (fun ms => oneReq env c₁ ms d) (r.map (fun p => (p.1, setOut o₁ p.2))) with
        | error e => simp [f₁] at h₁
        | ok t₁ =>
          cases f₂ : mapParts (fun ms => oneReq env c₂ ms d) (r.map (fun p => (p.1, setOut o₂ p.2))) with
          | error e => simp [f₂] at h₂
          | ok t₂ =>
            simp only [f₁, f₂, Except.ok.injEq] at h₁ h₂
            subst h₁; subst h₂
            exact All2.cons (oneReq_setOut hc e₁ e₂) (mapParts_oneReq_setOut hc d o₁ o₂ r t₁ t₂ f₁ f₂)

/-- the requests of one prepared spec for two output types -/
theorem afterPrepared_setOut {env : Env} {c₁ c₂ : Call} (hc : SameData c₁ c₂) {p : Prepared} {d : Option Nat} {o₁ o₂ : String}
    {rs₁ rs₂ : List Request}
    (h₁ : afterPrepared env c₁ (Prepared.setOut o₁ p) d = .ok rs₁) (h₂ : afterPrepared env c₂ (Prepared.setOut o₂ p) d = .ok rs₂) :
    All2 (SameButOut o₁ o₂) rs₁ rs₂ := by
  cases p with
  | one ms =>
    simp only [Prepared.setOut, afterPrepared] at h₁ h₂
    cases e₁ : oneReq env c₁ (setOut o₁ ms) d with
    | error e => simp [e₁, Except.map] at h₁
    | ok q₁ =>
      cases e₂ : oneReq env c₂ (setOut o₂ ms) d with
      | error e => simp [e₂, Except.map] at h₂
      | ok q₂ =>
        simp only [e₁, e₂, Except.map, Except.ok.injEq] at h₁ h₂
        subst h₁; subst h₂
        exact All2.cons (oneReq_setOut hc e₁ e₂) All2.nil
  | many parts =>
    simp only [Prepared.setOut, afterPrepared, manyReq, List.map_map] at h₁ h₂
    have hj : ∀ o, jointLoop none none (parts.map ((fun p => p.2) ∘ fun p => (p.1, setOut o p.2)))
        = jointLoop none none (parts.map (·.2)) := by
      intro o
      have : parts.map ((fun p => p.2) ∘ fun p => (p.1, setOut o p.2)) = (parts.map (·.2)).map (setOut o) := by
        simp [List.map_map, Function.comp_def]
      rw [this, jointLoop_setOut]
    rw [hj] at h₁ h₂
    cases hjl : jointLoop none none (parts.map (·.2)) with
    | some mp =>
      obtain ⟨m, prm⟩ := mp
      simp only [hjl] at h₁ h₂
      rw [resolve_sameData hc] at h₁
      cases hr : resolve env c₂ m with
      | error e => simp [hr] at h₁
      | ok r =>
        simp only [hr] at h₁ h₂
        rw [instOf_sameData hc] at h₁
        cases e₁ : mkReq (instOf c₂ r prm) (.many (parts.map (fun p => (p.1, setOut o₁ p.2)))) (if env.fwdJoint then d else none) with
        | error e => simp [e₁, Except.map] at h₁
        | ok q₁ =>
          cases e₂ : mkReq (instOf c₂ r prm) (.many (parts.map (fun p => (p.1, setOut o₂ p.2)))) (if env.fwdJoint then d else none) with
          | error e => simp [e₂, Except.map] at h₂
          | ok q₂ =>
            simp only [e₁, e₂, Except.map, Except.ok.injEq] at h₁ h₂
            subst h₁; subst h₂
            exact All2.cons (mkReq_setOut (p := .many parts) e₁ e₂) All2.nil
    | none =>
      simp only [hjl] at h₁ h₂
      rw [perSpecDrop_sameData hc, hc.2.2.2.2] at h₁
      cases e₁ : mapParts (fun ms => oneReq env c₁ ms (perSpecDrop c₂ d)) (parts.map (fun p => (p.1, setOut o₁ p.2))) with
      | error e => simp [e₁, Except.map] at h₁
      | ok t₁ =>
        cases e₂ : mapParts (fun ms => oneReq env c₂ ms (perSpecDrop c₂ d)) (parts.map (fun p => (p.1, setOut o₂ p.2))) with
        | error e => simp [e₂, Except.map] at h₂
        | ok t₂ =>
          simp only [e₁, e₂, Except.map, Except.ok.injEq] at h₁ h₂
          subst h₁; subst h₂
          exact All2.twice _ (mapParts_oneReq_setOut hc _ o₁ o₂ parts t₁ t₂ e₁ e₂)

/-! ### from requests to numbers -/

theorem values_leaves {content : Nat → Content}
    (hval : ∀ ms ms' : MSpec, eraseOutMS ms = eraseOutMS ms' → valuesOf content ms = valuesOf content ms') :
    ∀ (s₁ s₂ : List (String × MSpec)),
      s₁.map (fun l => (l.1, eraseOutMS l.2)) = s₂.map (fun l => (l.1, eraseOutMS l.2)) →
      s₁.map (fun l => (l.1, valuesOf content l.2)) = s₂.map (fun l => (l.1, valuesOf content l.2))
  | [], [], _ => rfl
  | [], _ :: _, h => by simp at h
  | _ :: _, [], h => by simp at h
  | a :: s₁, b :: s₂, h => by
    simp only [List.map_cons, List.cons.injEq, Prod.mk.injEq] at h
    simp only [List.map_cons, List.cons.injEq, Prod.mk.injEq]
    exact ⟨⟨h.1.1, hval a.2 b.2 h.1.2⟩, values_leaves hval s₁ s₂ h.2⟩

theorem values_sameButOut {content : Nat → Content} {o₁ o₂ : String}
    (hval : ∀ ms ms' : MSpec, eraseOutMS ms = eraseOutMS ms' → valuesOf content ms = valuesOf content ms')
    {rs₁ rs₂ : List Request} (h : All2 (SameButOut o₁ o₂) rs₁ rs₂) :
    valuesOfRequests content rs₁ = valuesOfRequests content rs₂ := by
  induction h with
  | nil => rfl
  | @cons q₁ q₂ t₁ t₂ hq _ ih =>
    simp only [valuesOfRequests, List.map_cons, List.cons.injEq]
    refine ⟨?_, ih⟩
    have hspecs : q₁.specs.map (fun l => (l.1, eraseOutMS l.2)) = q₂.specs.map (fun l => (l.1, eraseOutMS l.2)) := by
      have := congrArg Request.specs hq.1
      simpa [eraseOut] using this
    exact values_leaves hval _ _ hspecs

theorem values_eraseAll {content : Nat → Content} {rs₁ rs₂ : List Request} (h : eraseAll rs₁ = eraseAll rs₂) :
    valuesOfRequests content rs₁ = valuesOfRequests content rs₂ := by
  have : ∀ rs : List Request, valuesOfRequests content rs = valuesOfRequests content (eraseAll rs) := by
    intro rs
    simp [valuesOfRequests, eraseAll, eraseDrop, List.map_map, Function.comp_def]
  rw [this rs₁, this rs₂, h]

end FormulaicVerif.Proofs.C05C
