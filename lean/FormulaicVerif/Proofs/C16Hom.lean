import FormulaicVerif.Proofs.C16Accept
/-! Helper lemmas for C16, part 10: compiling is a homomorphism; a row is determined by the map it
expresses; every row of numbers is the compilation of a linear combination (not obligations). -/
namespace FormulaicVerif.Proofs.C16
open FormulaicVerif.Model.Constraints FormulaicVerif.Spec.Affine

/-! ### rows as vectors -/

def vadd (u v : List Rat) : List Rat := List.zipWith (· + ·) u v
def vsub (u v : List Rat) : List Rat := List.zipWith (· - ·) u v
def vsmul (q : Rat) (v : List Rat) : List Rat := v.map (q * ·)

theorem dot_vadd : ∀ (u v : List Rat) (x : Nat → Rat), u.length = v.length → dot (vadd u v) x = dot u x + dot v x := by
  intro u
  induction u with
  | nil => intro v x h; cases v with
    | nil => simp [vadd, dot]
    | cons _ _ => cases h
  | cons a u ih =>
    intro v x h
    cases v with
    | nil => cases h
    | cons b v =>
      have := ih v (fun j => x (j + 1)) (by simpa using h)
      simp only [vadd, List.zipWith_cons_cons, dot] at this ⊢
      rw [this]; ring

theorem dot_vsub : ∀ (u v : List Rat) (x : Nat → Rat), u.length = v.length → dot (vsub u v) x = dot u x - dot v x := by
  intro u
  induction u with
  | nil => intro v x h; cases v with
    | nil => simp [vsub, dot]
    | cons _ _ => cases h
  | cons a u ih =>
    intro v x h
    cases v with
    | nil => cases h
    | cons b v =>
      have := ih v (fun j => x (j + 1)) (by simpa using h)
      simp only [vsub, List.zipWith_cons_cons, dot] at this ⊢
      rw [this]; ring

theorem dot_vsmul (q : Rat) : ∀ (v : List Rat) (x : Nat → Rat), dot (vsmul q v) x = q * dot v x := by
  intro v
  induction v with
  | nil => intro x; simp [vsmul, dot]
  | cons a v ih =>
    intro x
    have := ih (fun j => x (j + 1))
    simp only [vsmul, List.map_cons, dot] at this ⊢
    rw [this]; ring

theorem length_vadd (u v : List Rat) (h : u.length = v.length) : (vadd u v).length = u.length := by simp [vadd, h]
theorem length_vsub (u v : List Rat) (h : u.length = v.length) : (vsub u v).length = u.length := by simp [vsub, h]
theorem length_vsmul (q : Rat) (v : List Rat) : (vsmul q v).length = v.length := by simp [vsmul]

/-- two rows of the width of `names` that take the same value at every `x` are the same row -/
theorem row_unique {names : List String} {v v' : List Rat} {c c' : Rat} (hl : v.length = names.length)
    (hl' : v'.length = names.length) (h : ∀ x, dot v x - c = dot v' x - c') : v = v' ∧ c = c' :=
  npoint (hl.trans hl'.symm) (h _) (fun j _ => h _)

/-! ### one scalar tree, one row -/

theorem exprOf_constraintsOf : ∀ {n : Node} {e : Expr}, exprOf n = some e → constraintsOf n = some [e] := by
  intro n e h
  cases n with
  | leaf k t => simp [constraintsOf, h]
  | un op a => simp [constraintsOf, h]
  | bin op l r =>
    cases op with
    | comma =>
      simp only [exprOf] at h
      cases hl : exprOf l <;> cases hr : exprOf r <;> simp [hl, hr] at h
    | _ => rw [constraintsOf_noncomma (by intro l' r' hh; cases hh), h]; rfl

theorem getMatrix_scalar_row {sh : Shuffle} (hsh : IsShuffle sh) (names) {n : Node} {e : Expr} (he : exprOf n = some e)
    {A b} (h : getMatrix sh names (.ast n) = .ok (A, b)) : ∃ v c, A = [v] ∧ b = [c] ∧ RowOK names v c e := by
  obtain ⟨es, hes, hr⟩ := getMatrix_sound hsh names _ h
  simp only [writtenIn, exprOf_constraintsOf he, Option.some.injEq] at hes
  subst hes
  cases hr with
  | cons r rest => cases rest; exact ⟨_, _, rfl, rfl, r⟩

/-- an accepted tree with a non-structural operator on top: both operands are scalar expressions and are accepted -/
theorem acceptable_bin_split (names) {op : Op2} (hop : op ≠ .comma) {l r : Node} (h : acceptable names (.bin op l r)) :
    ∃ ea eb, exprOf l = some ea ∧ exprOf r = some eb ∧ acceptable names l ∧ acceptable names r := by
  obtain ⟨es, hes, hn, hev, hnm⟩ := h
  rw [constraintsOf_noncomma (by intro l' r' hh; cases hh; exact hop rfl)] at hes
  cases hla : exprOf l with
  | none => simp [exprOf, hla] at hes
  | some ea =>
    cases hra : exprOf r with
    | none => simp [exprOf, hla, hra] at hes
    | some eb =>
      simp only [nonlinear, Bool.or_eq_false_iff] at hn
      simp only [namesOf, List.mem_append] at hnm
      have hboth : (eval env0 ea).isSome = true ∧ (eval env0 eb).isSome = true := by
        cases he : exprOf (.bin op l r) with
        | none => rw [he] at hes; cases hes
        | some e =>
          rw [he] at hes
          simp only [Option.map_some, Option.some.injEq] at hes
          have hv := hev e (by rw [← hes]; simp)
          cases h1 : eval env0 ea <;> cases h2 : eval env0 eb <;> cases op <;>
            simp only [exprOf, hla, hra, Option.some.injEq, reduceCtorEq] at he <;>
            first
              | exact absurd rfl hop
              | (subst he; simp [eval, h1, h2] at hv ⊢)
      exact ⟨ea, eb, rfl, rfl,
        ⟨[ea], exprOf_constraintsOf hla, hn.1.2, by simpa using hboth.1, fun x hx => hnm x (Or.inl hx)⟩,
        ⟨[eb], exprOf_constraintsOf hra, hn.2, by simpa using hboth.2, fun x hx => hnm x (Or.inr hx)⟩⟩

/-- the rows of the two operands of an accepted non-structural binary node, and the row of the node -/
theorem bin_rows {sh : Shuffle} (hsh : IsShuffle sh) (names) {op : Op2} (hop : op ≠ .comma) {l r : Node} {A b}
    (h : getMatrix sh names (.ast (.bin op l r)) = .ok (A, b)) :
    ∃ ea eb e v₁ c₁ v₂ c₂ v c, exprOf l = some ea ∧ exprOf r = some eb ∧ exprOf (.bin op l r) = some e ∧
      getMatrix sh names (.ast l) = .ok ([v₁], [c₁]) ∧ getMatrix sh names (.ast r) = .ok ([v₂], [c₂]) ∧
      A = [v] ∧ b = [c] ∧ RowOK names v₁ c₁ ea ∧ RowOK names v₂ c₂ eb ∧ RowOK names v c e := by
  have hacc := (getMatrix_ok_iff hsh names _).mp ⟨A, b, h⟩
  obtain ⟨ea, eb, hea, heb, ha, hb⟩ := acceptable_bin_split names hop hacc
  obtain ⟨A₁, b₁, h1⟩ := (getMatrix_ok_iff hsh names l).mpr ha
  obtain ⟨A₂, b₂, h2⟩ := (getMatrix_ok_iff hsh names r).mpr hb
  obtain ⟨v₁, c₁, rfl, rfl, r1⟩ := getMatrix_scalar_row hsh names hea h1
  obtain ⟨v₂, c₂, rfl, rfl, r2⟩ := getMatrix_scalar_row hsh names heb h2
  have he : ∃ e, exprOf (.bin op l r) = some e := by
    cases op <;> first | exact absurd rfl hop | simp [exprOf, hea, heb]
  obtain ⟨e, he⟩ := he
  obtain ⟨v, c, rfl, rfl, r0⟩ := getMatrix_scalar_row hsh names he h
  exact ⟨ea, eb, e, v₁, c₁, v₂, c₂, v, c, hea, heb, he, h1, h2, rfl, rfl, r1, r2, r0⟩

/-! ### the homomorphism laws -/

theorem compile_add {sh : Shuffle} (hsh : IsShuffle sh) (names) {l r : Node} {A b}
    (h : getMatrix sh names (.ast (.bin .add l r)) = .ok (A, b)) :
    ∃ v₁ c₁ v₂ c₂, getMatrix sh names (.ast l) = .ok ([v₁], [c₁]) ∧ getMatrix sh names (.ast r) = .ok ([v₂], [c₂]) ∧
      A = [vadd v₁ v₂] ∧ b = [c₁ + c₂] := by
  obtain ⟨ea, eb, e, v₁, c₁, v₂, c₂, v, c, hea, heb, he, h1, h2, rfl, rfl, r1, r2, r0⟩ := bin_rows hsh names (by simp) h
  simp only [exprOf, hea, heb, Option.some.injEq] at he; subst he
  have hl : v₁.length = v₂.length := r1.1.trans r2.1.symm
  obtain ⟨rfl, rfl⟩ := row_unique (c' := c₁ + c₂) r0.1 ((length_vadd _ _ hl).trans r1.1) (fun x => by
    have e0 := r0.2 x; have e1 := r1.2 x; have e2 := r2.2 x
    simp only [eval, e1, e2, Option.some.injEq] at e0
    rw [dot_vadd _ _ _ hl]; linarith)
  exact ⟨v₁, c₁, v₂, c₂, h1, h2, rfl, rfl⟩

theorem compile_sub {sh : Shuffle} (hsh : IsShuffle sh) (names) {l r : Node} {A b}
    (h : getMatrix sh names (.ast (.bin .sub l r)) = .ok (A, b)) :
    ∃ v₁ c₁ v₂ c₂, getMatrix sh names (.ast l) = .ok ([v₁], [c₁]) ∧ getMatrix sh names (.ast r) = .ok ([v₂], [c₂]) ∧
      A = [vsub v₁ v₂] ∧ b = [c₁ - c₂] := by
  obtain ⟨ea, eb, e, v₁, c₁, v₂, c₂, v, c, hea, heb, he, h1, h2, rfl, rfl, r1, r2, r0⟩ := bin_rows hsh names (by simp) h
  simp only [exprOf, hea, heb, Option.some.injEq] at he; subst he
  have hl : v₁.length = v₂.length := r1.1.trans r2.1.symm
  obtain ⟨rfl, rfl⟩ := row_unique (c' := c₁ - c₂) r0.1 ((length_vsub _ _ hl).trans r1.1) (fun x => by
    have e0 := r0.2 x; have e1 := r1.2 x; have e2 := r2.2 x
    simp only [eval, e1, e2, Option.some.injEq] at e0
    rw [dot_vsub _ _ _ hl]; linarith)
  exact ⟨v₁, c₁, v₂, c₂, h1, h2, rfl, rfl⟩

/-- `l = r` compiles to the row of `l - r` -/
theorem compile_eq {sh : Shuffle} (hsh : IsShuffle sh) (names) {l r : Node} {A b}
    (h : getMatrix sh names (.ast (.bin .eq l r)) = .ok (A, b)) :
    ∃ v₁ c₁ v₂ c₂, getMatrix sh names (.ast l) = .ok ([v₁], [c₁]) ∧ getMatrix sh names (.ast r) = .ok ([v₂], [c₂]) ∧
      A = [vsub v₁ v₂] ∧ b = [c₁ - c₂] := by
  obtain ⟨ea, eb, e, v₁, c₁, v₂, c₂, v, c, hea, heb, he, h1, h2, rfl, rfl, r1, r2, r0⟩ := bin_rows hsh names (by simp) h
  simp only [exprOf, hea, heb, Option.some.injEq] at he; subst he
  have hl : v₁.length = v₂.length := r1.1.trans r2.1.symm
  obtain ⟨rfl, rfl⟩ := row_unique (c' := c₁ - c₂) r0.1 ((length_vsub _ _ hl).trans r1.1) (fun x => by
    have e0 := r0.2 x; have e1 := r1.2 x; have e2 := r2.2 x
    simp only [eval, e1, e2, Option.some.injEq] at e0
    rw [dot_vsub _ _ _ hl]; linarith)
  exact ⟨v₁, c₁, v₂, c₂, h1, h2, rfl, rfl⟩

/-- a product compiles to the product of the two affine maps; one of them is constant -/
theorem compile_mul {sh : Shuffle} (hsh : IsShuffle sh) (names) {l r : Node} {A b}
    (h : getMatrix sh names (.ast (.bin .mul l r)) = .ok (A, b)) :
    ∃ v₁ c₁ v₂ c₂ v c, getMatrix sh names (.ast l) = .ok ([v₁], [c₁]) ∧ getMatrix sh names (.ast r) = .ok ([v₂], [c₂]) ∧
      A = [v] ∧ b = [c] ∧ ∀ x, dot v x - c = (dot v₁ x - c₁) * (dot v₂ x - c₂) := by
  obtain ⟨ea, eb, e, v₁, c₁, v₂, c₂, v, c, hea, heb, he, h1, h2, rfl, rfl, r1, r2, r0⟩ := bin_rows hsh names (by simp) h
  simp only [exprOf, hea, heb, Option.some.injEq] at he; subst he
  refine ⟨v₁, c₁, v₂, c₂, v, c, h1, h2, rfl, rfl, fun x => ?_⟩
  have e0 := r0.2 x; have e1 := r1.2 x; have e2 := r2.2 x
  simp only [eval, e1, e2, Option.some.injEq] at e0
  exact e0.symm

/-- a quotient compiles to the quotient of the two affine maps; the divisor is a non-zero constant -/
theorem compile_div {sh : Shuffle} (hsh : IsShuffle sh) (names) {l r : Node} {A b}
    (h : getMatrix sh names (.ast (.bin .div l r)) = .ok (A, b)) :
    ∃ v₁ c₁ v₂ c₂ v c, getMatrix sh names (.ast l) = .ok ([v₁], [c₁]) ∧ getMatrix sh names (.ast r) = .ok ([v₂], [c₂]) ∧
      A = [v] ∧ b = [c] ∧ ∀ x, dot v₂ x - c₂ ≠ 0 ∧ dot v x - c = (dot v₁ x - c₁) / (dot v₂ x - c₂) := by
  obtain ⟨ea, eb, e, v₁, c₁, v₂, c₂, v, c, hea, heb, he, h1, h2, rfl, rfl, r1, r2, r0⟩ := bin_rows hsh names (by simp) h
  simp only [exprOf, hea, heb, Option.some.injEq] at he; subst he
  refine ⟨v₁, c₁, v₂, c₂, v, c, h1, h2, rfl, rfl, fun x => ?_⟩
  have e0 := r0.2 x; have e1 := r1.2 x; have e2 := r2.2 x
  simp only [eval, e1, e2] at e0
  by_cases hz : dot v₂ x - c₂ = 0
  · simp [hz] at e0
  · simp only [hz, if_false, Option.some.injEq] at e0
    exact ⟨hz, e0.symm⟩

/-- the row of a numeric literal: no column, constant `-q` -/
theorem compile_literal {sh : Shuffle} (hsh : IsShuffle sh) (names) {t : String} {A b}
    (h : getMatrix sh names (.ast (.leaf .value t)) = .ok (A, b)) :
    ∃ q, literalEval t = .ok q ∧ A = [List.replicate names.length 0] ∧ b = [-q] := by
  have hacc := (getMatrix_ok_iff hsh names _).mp ⟨A, b, h⟩
  obtain ⟨es, hes, _⟩ := hacc
  cases hq : literalEval t with
  | error e => simp [constraintsOf, exprOf, hq] at hes
  | ok q =>
    obtain ⟨v, c, rfl, rfl, r0⟩ := getMatrix_scalar_row hsh names (e := .lit q) (by simp [exprOf, hq]) h
    obtain ⟨rfl, rfl⟩ := row_unique (v' := List.replicate names.length 0) (c' := -q) r0.1 (by simp) (fun x => by
      have e0 := r0.2 x
      simp only [eval, Option.some.injEq] at e0
      rw [dot_replicate_zero]; linarith)
    exact ⟨q, rfl, rfl, rfl⟩

/-- **scalar multiple**: `q * e` compiles to `q` times the row of `e` -/
theorem compile_smul {sh : Shuffle} (hsh : IsShuffle sh) (names) {t : String} {r : Node} {A b}
    (h : getMatrix sh names (.ast (.bin .mul (.leaf .value t) r)) = .ok (A, b)) :
    ∃ q v₂ c₂, literalEval t = .ok q ∧ getMatrix sh names (.ast r) = .ok ([v₂], [c₂]) ∧
      A = [vsmul q v₂] ∧ b = [q * c₂] := by
  obtain ⟨ea, eb, e, v₁, c₁, v₂, c₂, v, c, hea, heb, he, h1, h2, rfl, rfl, r1, r2, r0⟩ := bin_rows hsh names (by simp) h
  obtain ⟨q, hq, hv1, hc1⟩ := compile_literal hsh names h1
  simp only [List.cons.injEq, and_true] at hv1 hc1
  subst hv1; subst hc1
  simp only [exprOf, hq, heb, Option.some.injEq] at hea he
  subst hea; subst he
  obtain ⟨rfl, rfl⟩ := row_unique (v' := vsmul q v₂) (c' := q * c₂) r0.1 ((length_vsmul _ _).trans r2.1) (fun x => by
    have e0 := r0.2 x; have e2 := r2.2 x
    simp only [eval, e2, Option.some.injEq] at e0
    rw [dot_vsmul]; linarith)
  exact ⟨q, v₂, c₂, hq, h2, rfl, rfl⟩

/-- **division by a number**: `e / q` compiles to `1/q` times the row of `e`, and `q ≠ 0` -/
theorem compile_sdiv {sh : Shuffle} (hsh : IsShuffle sh) (names) {t : String} {l : Node} {A b}
    (h : getMatrix sh names (.ast (.bin .div l (.leaf .value t))) = .ok (A, b)) :
    ∃ q v₁ c₁, literalEval t = .ok q ∧ q ≠ 0 ∧ getMatrix sh names (.ast l) = .ok ([v₁], [c₁]) ∧
      A = [vsmul (1 / q) v₁] ∧ b = [c₁ / q] := by
  obtain ⟨ea, eb, e, v₁, c₁, v₂, c₂, v, c, hea, heb, he, h1, h2, rfl, rfl, r1, r2, r0⟩ := bin_rows hsh names (by simp) h
  obtain ⟨q, hq, hv2, hc2⟩ := compile_literal hsh names h2
  simp only [List.cons.injEq, and_true] at hv2 hc2
  subst hv2; subst hc2
  simp only [exprOf, hq, hea, Option.some.injEq] at heb he
  subst heb; subst he
  have hz : q ≠ 0 := by
    intro hz
    have e0 := r0.2 (fun _ => 0); have e1 := r1.2 (fun _ => 0)
    simp [eval, e1, hz] at e0
  obtain ⟨rfl, rfl⟩ := row_unique (v' := vsmul (1 / q) v₁) (c' := c₁ / q) r0.1 ((length_vsmul _ _).trans r1.1) (fun x => by
    have e0 := r0.2 x; have e1 := r1.2 x
    simp only [eval, e1, hz, if_false, Option.some.injEq] at e0
    rw [dot_vsmul, ← e0]; field_simp)
  exact ⟨q, v₁, c₁, hq, hz, h1, rfl, rfl⟩

def unExpr : Op1 → Expr → Expr
  | .pos, e => .pos e
  | .neg, e => .neg e
def unRow : Op1 → List Rat → List Rat
  | .pos, v => v
  | .neg, v => vsmul (-1) v
def unConst : Op1 → Rat → Rat
  | .pos, c => c
  | .neg, c => -c

/-- the row of `-e` is minus the row of `e`; `+e` has the row of `e` -/
theorem compile_un {sh : Shuffle} (hsh : IsShuffle sh) (names) (op : Op1) {a : Node} {A b}
    (h : getMatrix sh names (.ast (.un op a)) = .ok (A, b)) :
    ∃ v₁ c₁, getMatrix sh names (.ast a) = .ok ([v₁], [c₁]) ∧
      A = [unRow op v₁] ∧ b = [unConst op c₁] := by
  obtain ⟨es, hes, hn, hev, hnm⟩ := (getMatrix_ok_iff hsh names _).mp ⟨A, b, h⟩
  cases hea : exprOf a with
  | none => simp [constraintsOf, exprOf, hea] at hes
  | some ea =>
    have he : exprOf (.un op a) = some (unExpr op ea) := by
      cases op <;> simp [exprOf, hea, unExpr]
    rw [exprOf_constraintsOf he, Option.some.injEq] at hes
    subst hes
    have hev' : (eval env0 ea).isSome = true := by
      have := hev (unExpr op ea) (by simp)
      cases op <;> cases h' : eval env0 ea <;> simp [eval, h', unExpr] at this ⊢
    obtain ⟨A₁, b₁, h1⟩ := (getMatrix_ok_iff hsh names a).mpr
      ⟨[ea], exprOf_constraintsOf hea, by simpa [nonlinear] using hn, by simpa using hev', by simpa [namesOf] using hnm⟩
    obtain ⟨v₁, c₁, rfl, rfl, r1⟩ := getMatrix_scalar_row hsh names hea h1
    obtain ⟨v, c, rfl, rfl, r0⟩ := getMatrix_scalar_row hsh names he h
    refine ⟨v₁, c₁, h1, ?_⟩
    cases op with
    | pos =>
      obtain ⟨rfl, rfl⟩ := row_unique (v' := v₁) (c' := c₁) r0.1 r1.1 (fun x => by
        have e0 := r0.2 x; have e1 := r1.2 x
        simp only [unExpr, eval, e1, Option.some.injEq] at e0; linarith)
      exact ⟨rfl, rfl⟩
    | neg =>
      obtain ⟨rfl, rfl⟩ := row_unique (v' := vsmul (-1) v₁) (c' := -c₁) r0.1 ((length_vsmul _ _).trans r1.1) (fun x => by
        have e0 := r0.2 x; have e1 := r1.2 x
        simp only [unExpr, eval, e1, Option.some.injEq] at e0
        rw [dot_vsmul]; linarith)
      exact ⟨rfl, rfl⟩

/-! ### the linear operations are total on accepted scalar expressions -/

theorem acceptable_scalar {names} {n : Node} {e : Expr} (he : exprOf n = some e) :
    acceptable names n ↔ nonlinear n = false ∧ (eval env0 e).isSome = true ∧ ∀ x ∈ namesOf n, (colIndex names x).isSome = true := by
  unfold acceptable
  rw [exprOf_constraintsOf he]
  constructor
  · rintro ⟨es, hes, hn, hev, hnm⟩
    simp only [Option.some.injEq] at hes; subst hes
    exact ⟨hn, hev e (by simp), hnm⟩
  · rintro ⟨hn, hev, hnm⟩
    exact ⟨[e], rfl, hn, by simpa using hev, hnm⟩

theorem linear_ops_acceptable {names} {l r : Node} {ea eb : Expr} (hea : exprOf l = some ea) (heb : exprOf r = some eb)
    (hl : acceptable names l) (hr : acceptable names r) :
    acceptable names (.bin .add l r) ∧ acceptable names (.bin .sub l r) ∧ acceptable names (.bin .eq l r) ∧
    (∀ op, acceptable names (.un op l)) ∧
    (∀ t q, literalEval t = .ok q → acceptable names (.bin .mul (.leaf .value t) l) ∧ acceptable names (.bin .mul l (.leaf .value t)) ∧
      (q ≠ 0 → acceptable names (.bin .div l (.leaf .value t)))) := by
  obtain ⟨nl, el, ml⟩ := (acceptable_scalar hea).mp hl
  obtain ⟨nr, er, mr⟩ := (acceptable_scalar heb).mp hr
  obtain ⟨a, ha⟩ := Option.isSome_iff_exists.mp el
  obtain ⟨b, hb⟩ := Option.isSome_iff_exists.mp er
  have names2 : ∀ x ∈ namesOf l ++ namesOf r, (colIndex names x).isSome = true := by
    intro x hx
    rcases List.mem_append.mp hx with h | h
    · exact ml x h
    · exact mr x h
  refine ⟨?_, ?_, ?_, ?_, ?_⟩
  · exact (acceptable_scalar (e := .add ea eb) (by simp [exprOf, hea, heb])).mpr
      ⟨by simp [nonlinear, nl, nr], by simp [eval, ha, hb], by simpa [namesOf] using names2⟩
  · exact (acceptable_scalar (e := .sub ea eb) (by simp [exprOf, hea, heb])).mpr
      ⟨by simp [nonlinear, nl, nr], by simp [eval, ha, hb], by simpa [namesOf] using names2⟩
  · exact (acceptable_scalar (e := .eqn ea eb) (by simp [exprOf, hea, heb])).mpr
      ⟨by simp [nonlinear, nl, nr], by simp [eval, ha, hb], by simpa [namesOf] using names2⟩
  · intro op
    cases op with
    | pos =>
      have he : exprOf (.un .pos l) = some (.pos ea) := by simp only [exprOf, hea]
      exact (acceptable_scalar he).mpr ⟨by simp [nonlinear, nl], by simp [eval, ha], by simpa [namesOf] using ml⟩
    | neg =>
      have he : exprOf (.un .neg l) = some (.neg ea) := by simp only [exprOf, hea]
      exact (acceptable_scalar he).mpr ⟨by simp [nonlinear, nl], by simp [eval, ha], by simpa [namesOf] using ml⟩
  · intro t q hq
    have hlit : exprOf (.leaf .value t) = some (.lit q) := by simp [exprOf, hq]
    refine ⟨?_, ?_, ?_⟩
    · exact (acceptable_scalar (e := .mul (.lit q) ea) (by simp [exprOf, hq, hea])).mpr
        ⟨by simp [nonlinear, nl, mentionsVar], by simp [eval, ha], by simpa [namesOf] using ml⟩
    · exact (acceptable_scalar (e := .mul ea (.lit q)) (by simp [exprOf, hq, hea])).mpr
        ⟨by simp [nonlinear, nl, mentionsVar], by simp [eval, ha], by simpa [namesOf] using ml⟩
    · intro hz
      exact (acceptable_scalar (e := .div ea (.lit q)) (by simp [exprOf, hq, hea])).mpr
        ⟨by simp [nonlinear, nl, mentionsVar], by simp [eval, ha, hz], by simpa [namesOf] using ml⟩

/-! ### a row of numbers is the compilation of a linear combination -/

theorem colIndexFrom_notin : ∀ (names : List String) (i : Nat) (e : String), e ∉ names → colIndexFrom names i e = none := by
  intro names
  induction names with
  | nil => intro i e _; rfl
  | cons v vs ih =>
    intro i e h
    simp only [List.mem_cons, not_or] at h
    simp only [colIndexFrom, ih (i + 1) e h.2]
    simp [Ne.symm h.1]

theorem colIndexFrom_nodup : ∀ (names : List String) (i j : Nat) (hj : j < names.length), names.Nodup →
    colIndexFrom names i names[j] = some (i + j) := by
  intro names
  induction names with
  | nil => intro i j hj; cases hj
  | cons v vs ih =>
    intro i j hj hnd
    obtain ⟨hv, hvs⟩ := List.nodup_cons.mp hnd
    cases j with
    | zero =>
      simp only [List.getElem_cons_zero, colIndexFrom, colIndexFrom_notin vs (i + 1) v hv]
      simp
    | succ j =>
      simp only [List.getElem_cons_succ, colIndexFrom]
      rw [ih (i + 1) j (by simpa using hj) hvs]
      simp only [Option.some.injEq]; omega

theorem colValue_nodup {names : List String} (hnd : names.Nodup) (x : Nat → Rat) (j : Nat) (hj : j < names.length) :
    colValue names x names[j] = x j := by
  simp [colValue, colIndex, colIndexFrom_nodup names 0 j hj hnd]

theorem eval_linExpr_aux (names : List String) (hnd : names.Nodup) (x : Nat → Rat) :
    ∀ (k : Nat) (cs : List Rat), cs.length + k = names.length →
      eval (colValue names x) (linExpr (names.drop k) cs) = some (dot cs (fun j => x (j + k))) := by
  intro k cs
  induction cs generalizing k with
  | nil =>
    intro _
    cases names.drop k <;> simp [linExpr, eval, dot]
  | cons c cs ih =>
    intro hk
    have hlt : k < names.length := by simp only [List.length_cons] at hk; omega
    rw [List.drop_eq_getElem_cons hlt]
    simp only [linExpr, eval, dot]
    rw [ih (k + 1) (by simp only [List.length_cons] at hk; omega), colValue_nodup hnd x k hlt]
    simp only [Nat.zero_add, Option.some.injEq]
    congr 2
    funext j
    congr 1
    omega

/-- over distinct column names, the row `(cs, c)` expresses the linear combination with these coefficients, set equal to `c` -/
theorem row_expresses_linExpr {names : List String} (hnd : names.Nodup) {cs : List Rat} (hl : cs.length = names.length) (c : Rat) :
    RowExpresses names (cs, c) (linExpr names cs, c) := by
  refine ⟨hl, fun x => ?_⟩
  have h := eval_linExpr_aux names hnd x 0 cs (by simpa using hl)
  simp only [List.drop_zero, Nat.add_zero] at h
  have hlhs : (linExpr names cs).lhs = linExpr names cs := by
    cases names <;> cases cs <;> rfl
  have hrhs : (linExpr names cs).rhs = .lit 0 := by
    cases names <;> cases cs <;> rfl
  refine ⟨dot cs x, 0, by rw [hlhs]; exact h, by rw [hrhs]; rfl, by simp⟩

/-- two rows that express constraints with the same value everywhere are the same row -/
theorem rowExpresses_unique {names : List String} {r r' : List Rat} {c c' : Rat} {eo eo' : Expr × Rat}
    (h : RowExpresses names (r, c) eo) (h' : RowExpresses names (r', c') eo')
    (same : ∀ x vl vr vl' vr', eval (colValue names x) eo.1.lhs = some vl → eval (colValue names x) eo.1.rhs = some vr →
      eval (colValue names x) eo'.1.lhs = some vl' → eval (colValue names x) eo'.1.rhs = some vr' →
      vl - vr - eo.2 = vl' - vr' - eo'.2) : r = r' ∧ c = c' := by
  apply row_unique h.1 h'.1
  intro x
  obtain ⟨vl, vr, e1, e2, e3⟩ := h.2 x
  obtain ⟨vl', vr', f1, f2, f3⟩ := h'.2 x
  simp only at e3 f3
  rw [e3, f3]
  exact same x vl vr vl' vr' e1 e2 f1 f2

end FormulaicVerif.Proofs.C16
