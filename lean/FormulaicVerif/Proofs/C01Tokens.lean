import FormulaicVerif.Spec.WilkinsonDenote
import FormulaicVerif.Proofs.C01Intercept
/-! # C01 — the token sequences of the documented grammar

Facts about `lin e` (the token sequence of an expression) that the token-rewriting step of the parser
needs: operator tokens are isolated (never two in a row, never last), so `merge_operator_tokens`
leaves the sequence alone; brackets are balanced, so `find_rhs_index` sees a following `~` at the top
level; no operator token carries a `~` or `|`. All by ONE structural predicate `Shape` on expression
trees, which every expression of the documented grammar satisfies. -/
namespace FormulaicVerif.Proofs.C01Tokens
open FormulaicVerif FormulaicVerif.Model FormulaicVerif.Proofs.ShuntC FormulaicVerif.Proofs.C01Grammar
open FormulaicVerif.Proofs.C01 (NoSep)
open FormulaicVerif.Proofs.C01Intercept

/-! ### isolated operator tokens and `merge_operator_tokens` -/

def IsOp (t : Tok) : Prop := t.kind = some .operator

instance (t : Tok) : Decidable (IsOp t) := by unfold IsOp; infer_instance

/-- every operator token is directly followed by a token that is not an operator -/
def OpIso : List Tok → Prop
  | [] => True
  | t :: r => (IsOp t → ∃ u r', r = u :: r' ∧ ¬ IsOp u) ∧ OpIso r

theorem opIso_append : ∀ (a b : List Tok), OpIso a → OpIso b → OpIso (a ++ b)
  | [], _, _, hb => hb
  | t :: r, b, ha, hb => by
    refine ⟨fun ht => ?_, opIso_append r b ha.2 hb⟩
    obtain ⟨u, r', hr, hu⟩ := ha.1 ht
    exact ⟨u, r' ++ b, by rw [hr]; rfl, hu⟩

theorem opIso_cons_nonop (t : Tok) (r : List Tok) (ht : ¬ IsOp t) (hr : OpIso r) : OpIso (t :: r) :=
  ⟨fun h => absurd h ht, hr⟩

theorem opIso_cons_op (t u : Tok) (r : List Tok) (hu : ¬ IsOp u) (hr : OpIso (u :: r)) : OpIso (t :: u :: r) :=
  ⟨fun _ => ⟨u, r, rfl, hu⟩, hr⟩

theorem mergeAux_nonop (t : Tok) (ts : List Tok) (ht : ¬ IsOp t) (p : Option Tok) :
    mergeSignsAux (t :: ts) p = (match p with | some q => q :: t :: mergeSignsAux ts none | none => t :: mergeSignsAux ts none) := by
  have : (t.kind != some .operator) = true := by
    unfold IsOp at ht
    simp [bne, ht]
  simp only [mergeSignsAux, this, Bool.true_or, if_true]
  cases p <;> rfl


/-- a token list whose operator tokens are isolated is left alone by `merge_operator_tokens` -/
theorem mergeSigns_opIso : ∀ ts : List Tok, OpIso ts → mergeSigns ts = ts := by
  intro ts
  unfold mergeSigns
  induction ts with
  | nil => intro _; rfl
  | cons t r ih =>
    intro h
    by_cases ht : IsOp t
    · obtain ⟨u, r', hr, hu⟩ := h.1 ht
      subst hr
      have ihr := ih h.2
      rw [mergeAux_nonop u r' hu none] at ihr
      have hr' : mergeSignsAux r' none = r' := by injection ihr
      have hcu : (u.kind != some .operator) = true := by
        unfold IsOp at hu
        simp [bne, hu]
      simp only [mergeSignsAux, hcu, Bool.true_or, if_true, hr']
      exact ite_self _
    · rw [mergeAux_nonop t r ht none, ih h.2]

/-! ### the shape of expression trees of the grammar -/

/-- the token sequence does not start with an operator (no leading sign) -/
def SignFree : E → Prop
  | .atom _ => True
  | .paren _ => True
  | .bin _ _ _ l _ => SignFree l
  | .pre _ _ _ _ => False

/-- atoms are neither brackets nor operators; operator symbols carry no `~` / `|`; the operand that
follows an operator token has no leading sign -/
def Shape : E → Prop
  | .atom t => t.kind ≠ some .context ∧ t.kind ≠ some .operator
  | .paren e => Shape e
  | .bin _ sym _ l r => sym.contains '~' = false ∧ sym.contains '|' = false ∧ Shape l ∧ Shape r ∧ SignFree r
  | .pre _ sym _ x => sym.contains '~' = false ∧ sym.contains '|' = false ∧ Shape x ∧ SignFree x

theorem lparTok_nonop : ¬ IsOp lparTok := by unfold IsOp lparTok; simp
theorem rparTok_nonop : ¬ IsOp rparTok := by unfold IsOp rparTok; simp
theorem opTok_isOp (s : List Char) : IsOp (opTok s) := rfl

/-- a sign-free expression starts with a token that is not an operator -/
theorem head_signFree : ∀ e : E, Shape e → SignFree e → ∃ u r, lin e = u :: r ∧ ¬ IsOp u
  | .atom t, h, _ => ⟨t, [], rfl, h.2⟩
  | .paren e, _, _ => ⟨lparTok, lin e ++ [rparTok], rfl, lparTok_nonop⟩
  | .bin _ sym _ l rr, h, hs => by
    obtain ⟨u, r, hl, hu⟩ := head_signFree l h.2.2.1 hs
    exact ⟨u, r ++ (opTok sym :: lin rr), by simp [lin, hl], hu⟩
  | .pre _ _ _ _, _, hs => hs.elim

theorem lin_ne_nil : ∀ e : E, lin e ≠ []
  | .atom _ => by simp [lin]
  | .paren _ => by simp [lin]
  | .bin _ _ _ _ _ => by simp [lin]
  | .pre _ _ _ _ => by simp [lin]

/-- operator tokens of an expression are isolated -/
theorem opIso_lin : ∀ e : E, Shape e → OpIso (lin e)
  | .atom t, h => opIso_cons_nonop t [] h.2 trivial
  | .paren e, h => by
    refine opIso_cons_nonop _ _ lparTok_nonop (opIso_append _ _ (opIso_lin e h) ?_)
    exact opIso_cons_nonop _ _ rparTok_nonop trivial
  | .bin _ sym _ l r, h => by
    obtain ⟨u, r', hr, hu⟩ := head_signFree r h.2.2.2.1 h.2.2.2.2
    refine opIso_append _ _ (opIso_lin l h.2.2.1) ?_
    have := opIso_lin r h.2.2.2.1
    rw [hr] at this ⊢
    exact opIso_cons_op _ u r' hu this
  | .pre _ sym _ x, h => by
    obtain ⟨u, r', hr, hu⟩ := head_signFree x h.2.2.1 h.2.2.2
    have := opIso_lin x h.2.2.1
    simp only [lin]
    rw [hr] at this ⊢
    exact opIso_cons_op _ u r' hu this

/-! ### balanced brackets -/

theorem ctxAfter_append : ∀ (a b : List Tok) (ctx : List Char),
    ctxAfter (a ++ b) ctx = (match ctxAfter a ctx with | some c => ctxAfter b c | none => none)
  | [], _, _ => rfl
  | t :: r, b, ctx => by
    simp only [List.cons_append]
    by_cases h1 : (t.kind == some .context) = true
    · by_cases h2 : (t.text == ['('] || t.text == ['[']) = true
      · simp only [ctxAfter, h1, h2, if_true]
        exact ctxAfter_append r b _
      · cases ctx with
        | nil => simp only [ctxAfter, h1, h2, if_true]; rfl
        | cons top rest =>
          by_cases h3 : (top != (if (t.text == [')']) = true then '(' else '[')) = true
          · simp only [ctxAfter, h1, h2, h3, if_true]; rfl
          · simp only [ctxAfter, h1, h2, h3, if_true]
            exact ctxAfter_append r b _
    · simp only [ctxAfter, h1]
      exact ctxAfter_append r b _

theorem ctxAfter_lin : ∀ (e : E), Shape e → ∀ ctx, ctxAfter (lin e) ctx = some ctx
  | .atom t, h, ctx => by
    have : (t.kind == some .context) = false := by simp [h.1]
    simp [lin, ctxAfter, this]
  | .paren e, h, ctx => by
    have ih := ctxAfter_lin e h ('(' :: ctx)
    simp only [lin]
    have h1 : ctxAfter (lparTok :: (lin e ++ [rparTok])) ctx = ctxAfter (lin e ++ [rparTok]) ('(' :: ctx) := by
      simp [ctxAfter, lparTok]
    rw [h1, ctxAfter_append, ih]
    simp [ctxAfter, rparTok]
  | .bin _ sym _ l r, h, ctx => by
    simp only [lin]
    rw [ctxAfter_append, ctxAfter_lin l h.2.2.1 ctx]
    have : ctxAfter (opTok sym :: lin r) ctx = ctxAfter (lin r) ctx := by simp [ctxAfter, opTok]
    simp only [this]
    exact ctxAfter_lin r h.2.2.2.1 ctx
  | .pre _ sym _ x, h, ctx => by
    simp only [lin]
    have : ctxAfter (opTok sym :: lin x) ctx = ctxAfter (lin x) ctx := by simp [ctxAfter, opTok]
    rw [this]
    exact ctxAfter_lin x h.2.2.1 ctx

/-! ### no separator characters -/

theorem noSep_lin (c : Char) (hc : c = '~' ∨ c = '|') : ∀ (e : E), Shape e → ∀ t ∈ lin e, NoSep c t
  | .atom u, h, t, ht => by
    simp only [lin, List.mem_singleton] at ht
    subst ht
    intro hk
    exact absurd hk h.2
  | .paren e, h, t, ht => by
    simp only [lin, List.mem_cons, List.mem_append, List.mem_singleton, List.mem_nil_iff, or_false] at ht
    rcases ht with rfl | ht | rfl
    · intro hk; simp [lparTok] at hk
    · exact noSep_lin c hc e h t ht
    · intro hk; simp [rparTok] at hk
  | .bin _ sym _ l r, h, t, ht => by
    simp only [lin, List.mem_cons, List.mem_append] at ht
    rcases ht with ht | rfl | ht
    · exact noSep_lin c hc l h.2.2.1 t ht
    · intro _
      rcases hc with rfl | rfl
      · exact h.1
      · exact h.2.1
    · exact noSep_lin c hc r h.2.2.2.1 t ht
  | .pre _ sym _ x, h, t, ht => by
    simp only [lin, List.mem_cons] at ht
    rcases ht with rfl | ht
    · intro _
      rcases hc with rfl | rfl
      · exact h.1
      · exact h.2.1
    · exact noSep_lin c hc x h.2.2.1 t ht

/-! ### every expression of the documented grammar has the shape -/

theorem _root_.FormulaicVerif.Proofs.C01Grammar.AddOp.sym_ok (op : AddOp) : op.sym.contains '~' = false ∧ op.sym.contains '|' = false := by
  cases op <;> decide
theorem _root_.FormulaicVerif.Proofs.C01Grammar.MulOp.sym_ok (op : MulOp) : op.sym.contains '~' = false ∧ op.sym.contains '|' = false := by
  cases op <;> decide
theorem _root_.FormulaicVerif.Proofs.C01Grammar.PowOp.sym_ok (op : PowOp) : op.sym.contains '~' = false ∧ op.sym.contains '|' = false := by
  cases op <;> decide

mutual
theorem Atom.shape : ∀ x : Atom, Shape x.toE ∧ SignFree x.toE
  | .tok _ h => ⟨h, trivial⟩
  | .paren s => ⟨Sum.shape s, trivial⟩
theorem Pow.shape : ∀ x : Pow, Shape x.toE ∧ SignFree x.toE
  | .atom a => Atom.shape a
  | .pow op a p => ⟨⟨op.sym_ok.1, op.sym_ok.2, (Atom.shape a).1, (Pow.shape p).1, (Pow.shape p).2⟩, (Atom.shape a).2⟩
theorem Inter.shape : ∀ x : Inter, Shape x.toE ∧ SignFree x.toE
  | .pow p => Pow.shape p
  | .inter i p => ⟨⟨by decide, by decide, (Inter.shape i).1, (Pow.shape p).1, (Pow.shape p).2⟩, (Inter.shape i).2⟩
theorem Prod.shape : ∀ x : Prod, Shape x.toE ∧ SignFree x.toE
  | .inter i => Inter.shape i
  | .mul op p i => ⟨⟨op.sym_ok.1, op.sym_ok.2, (Prod.shape p).1, (Inter.shape i).1, (Inter.shape i).2⟩, (Prod.shape p).2⟩
theorem Sum.shape : ∀ x : Sum, Shape x.toE
  | .first none p => (Prod.shape p).1
  | .first (some sg) p => ⟨sg.sym_ok.1, sg.sym_ok.2, (Prod.shape p).1, (Prod.shape p).2⟩
  | .add op s p => ⟨op.sym_ok.1, op.sym_ok.2, Sum.shape s, (Prod.shape p).1, (Prod.shape p).2⟩
end

end FormulaicVerif.Proofs.C01Tokens
