import Mathlib.LinearAlgebra.LinearIndependent.Defs
import Mathlib.LinearAlgebra.LinearIndependent.Basic
import Mathlib.LinearAlgebra.LinearIndependent.Lemmas
import Mathlib.Algebra.BigOperators.Fin
import Mathlib.LinearAlgebra.Pi
import Mathlib.LinearAlgebra.Span.Basic
import Mathlib.Algebra.Module.Submodule.Bilinear
import Mathlib.LinearAlgebra.Dimension.Constructions
import Mathlib.LinearAlgebra.StdBasis
import Mathlib.LinearAlgebra.FiniteDimensional.Lemmas
import Mathlib.LinearAlgebra.Matrix.Determinant.Basic
/-! Tensor-rank lemma for C03 (Mathlib, single modules): on a fully crossed design, products of per-axis
linearly independent families of functions are linearly independent; hence the columns of distinct structural
components are jointly linearly independent. -/

open Finset

namespace FormulaicVerif.Proofs.TensorRank
variable {K : Type} [Field K]

/-- two linearly independent families of functions multiply to a linearly independent family of
functions on the product (the fully crossed design of two axes) -/
theorem linearIndependent_mul {A B X Y : Type} (f : A → X → K) (g : B → Y → K)
    (hf : LinearIndependent K f) (hg : LinearIndependent K g) :
    LinearIndependent K (fun (p : A × B) => fun (q : X × Y) => f p.1 q.1 * g p.2 q.2) := by
  classical
  rw [linearIndependent_iff'] at hf hg ⊢
  intro s c hsum p hp
  -- extend the coefficients by zero to the rectangle s₁ × s₂
  let s₁ := s.image Prod.fst
  let s₂ := s.image Prod.snd
  let c' : A × B → K := fun p => if p ∈ s then c p else 0
  have hsub : s ⊆ s₁ ×ˢ s₂ := by
    intro q hq
    exact mem_product.mpr ⟨mem_image_of_mem _ hq, mem_image_of_mem _ hq⟩
  have hsum' : ∑ q ∈ s₁ ×ˢ s₂, c' q • (fun (r : X × Y) => f q.1 r.1 * g q.2 r.2) = 0 := by
    rw [← hsum]
    symm
    apply Finset.sum_subset_zero_on_sdiff hsub
    · intro q hq
      have : q ∉ s := (mem_sdiff.mp hq).2
      simp [c', this]
    · intro q hq
      simp [c', hq]
  -- for every y, the coefficients Σ_b c'(a,b) g_b(y) of f_a vanish
  have h1 : ∀ y : Y, ∀ a ∈ s₁, ∑ b ∈ s₂, c' (a, b) * g b y = 0 := by
    intro y
    apply hf s₁ (fun a => ∑ b ∈ s₂, c' (a, b) * g b y)
    funext x
    have := congrFun hsum' (x, y)
    simp only [Finset.sum_apply, Pi.smul_apply, smul_eq_mul, Pi.zero_apply] at this ⊢
    rw [Finset.sum_product] at this
    rw [← this]
    apply Finset.sum_congr rfl
    intro a _
    rw [Finset.sum_mul]
    apply Finset.sum_congr rfl
    intro b _
    ring
  have h2 : ∀ a ∈ s₁, ∀ b ∈ s₂, c' (a, b) = 0 := by
    intro a ha
    apply hg s₂ (fun b => c' (a, b))
    funext y
    have := h1 y a ha
    simpa [Finset.sum_apply, Pi.smul_apply, smul_eq_mul] using this
  have := h2 p.1 (mem_image_of_mem _ hp) p.2 (mem_image_of_mem _ hp)
  simpa [c', hp] using this


/-- the product family over `n` axes: pick one function per axis, evaluate on the crossed design -/
def prodFamily {n : ℕ} {J L : Fin n → Type} (B : (i : Fin n) → J i → (L i → K))
    (k : (i : Fin n) → J i) : ((i : Fin n) → L i) → K :=
  fun row => ∏ i, B i (k i) (row i)

/-- on a fully crossed design with any number of axes, products of per-axis linearly independent
families are linearly independent -/
theorem linearIndependent_prodFamily : ∀ (n : ℕ) (J L : Fin n → Type)
    (B : (i : Fin n) → J i → (L i → K)) (_ : ∀ i, LinearIndependent K (B i)),
    LinearIndependent K (prodFamily B) := by
  intro n
  induction n with
  | zero =>
    intro J L B _
    have : Unique ((i : Fin 0) → J i) := Pi.uniqueOfIsEmpty _
    rw [linearIndependent_unique_iff]
    intro h
    have := congrFun h (fun i => i.elim0)
    simp [prodFamily] at this
  | succ n ih =>
    intro J L B hB
    have hrest := ih (fun i => J i.succ) (fun i => L i.succ) (fun i => B i.succ) (fun i => hB i.succ)
    have hmul := linearIndependent_mul (B 0) (prodFamily (fun i : Fin n => B i.succ)) (hB 0) hrest
    -- transport the domain along rows ≃ (first coordinate, remaining coordinates)
    let e : ((i : Fin (n + 1)) → L i) → L 0 × ((i : Fin n) → L i.succ) := fun row => (row 0, fun i => row i.succ)
    have he : Function.Surjective e := by
      intro q
      refine ⟨Fin.cons q.1 q.2, ?_⟩
      simp [e]
    have hker : LinearMap.ker (LinearMap.funLeft K K e) = ⊥ :=
      LinearMap.ker_eq_bot.mpr (LinearMap.funLeft_injective_of_surjective K K e he)
    have hmap := hmul.map' (LinearMap.funLeft K K e) hker
    -- transport the index along choices ↦ (first choice, remaining choices)
    let idx : ((i : Fin (n + 1)) → J i) → J 0 × ((i : Fin n) → J i.succ) := fun k => (k 0, fun i => k i.succ)
    have hinj : Function.Injective idx := by
      intro k k' h
      funext i
      have h0 := congrArg Prod.fst h
      have h1 := congrArg Prod.snd h
      refine Fin.cases ?_ ?_ i
      · exact h0
      · intro j; exact congrFun h1 j
    have hcomp := hmap.comp idx hinj
    have heq : ((⇑(LinearMap.funLeft K K e) ∘ fun (p : J 0 × ((i : Fin n) → J i.succ)) =>
        fun (q : L 0 × ((i : Fin n) → L i.succ)) => B 0 p.1 q.1 * prodFamily (fun i : Fin n => B i.succ) p.2 q.2)
          ∘ idx) = prodFamily B := by
      funext k row
      simp only [Function.comp_apply, LinearMap.funLeft_apply, prodFamily, e, idx]
      rw [Fin.prod_univ_succ]
    rw [heq] at hcomp
    exact hcomp

/-! ### in the language of structural components -/

/-- `[1 | reduced columns]` of one factor: `none` is the constant column, `some j` the `j`-th reduced column -/
def aug {J L : Type} (R : J → (L → K)) : Option J → (L → K)
  | none => fun _ => 1
  | some j => R j

/-- the column of a structural component with a choice of reduced column for every factor present
(`k i = none`: factor `i` is absent from the component), on the fully crossed design -/
def compColumn {n : ℕ} {J L : Fin n → Type} (R : (i : Fin n) → J i → (L i → K))
    (k : (i : Fin n) → Option (J i)) : ((i : Fin n) → L i) → K :=
  prodFamily (fun i => aug (R i)) k

/-- the structural component of such a column: the set of factors present -/
def component {n : ℕ} {J : Fin n → Type} (k : (i : Fin n) → Option (J i)) : Finset (Fin n) :=
  Finset.univ.filter (fun i => (k i).isSome)

theorem compColumn_apply {n : ℕ} {J L : Fin n → Type} (R : (i : Fin n) → J i → (L i → K))
    (k : (i : Fin n) → Option (J i)) (row : (i : Fin n) → L i) :
    compColumn R k row = ∏ i, (match k i with | none => 1 | some j => R i j (row i)) := by
  unfold compColumn prodFamily
  apply Finset.prod_congr rfl
  intro i _
  cases k i <;> rfl

/-- If for every factor the family `[1 | reduced columns]` is linearly independent over the factor's
own levels, then on the fully crossed design ALL component columns — over all components and all
choices of reduced columns — are jointly linearly independent. -/
theorem linearIndependent_compColumn {n : ℕ} {J L : Fin n → Type} (R : (i : Fin n) → J i → (L i → K))
    (h : ∀ i, LinearIndependent K (aug (R i))) : LinearIndependent K (compColumn R) :=
  linearIndependent_prodFamily n _ L (fun i => aug (R i)) h

/-- columns with different structural components are different members of that family -/
theorem ne_of_component_ne {n : ℕ} {J : Fin n → Type} {k k' : (i : Fin n) → Option (J i)}
    (h : component k ≠ component k') : k ≠ k' := fun e => h (e ▸ rfl)

/-! ### the span of a product family depends only on the per-axis spans -/

/-- `(u, v) ↦ (fun (x, y) => u x * v y)` as a bilinear map -/
def mulBil (X Y : Type) : (X → K) →ₗ[K] (Y → K) →ₗ[K] (X × Y → K) :=
  LinearMap.mk₂ K (fun u v q => u q.1 * v q.2)
    (by intro u u' v; funext q; simp [add_mul])
    (by intro c u v; funext q; simp [mul_assoc])
    (by intro u v v'; funext q; simp [mul_add])
    (by intro c u v; funext q; simp [mul_left_comm])

@[simp] theorem mulBil_apply {X Y : Type} (u : X → K) (v : Y → K) (q : X × Y) :
    mulBil X Y u v q = u q.1 * v q.2 := rfl

/-- rows ↦ (first coordinate, remaining coordinates) -/
def splitRow {n : ℕ} (L : Fin (n + 1) → Type) (row : (i : Fin (n + 1)) → L i) :
    L 0 × ((i : Fin n) → L i.succ) := (row 0, fun i => row i.succ)

theorem prodFamily_succ {n : ℕ} {J L : Fin (n + 1) → Type} (B : (i : Fin (n + 1)) → J i → (L i → K))
    (k : (i : Fin (n + 1)) → J i) :
    prodFamily B k = LinearMap.funLeft K K (splitRow L)
      (mulBil _ _ (B 0 (k 0)) (prodFamily (fun i : Fin n => B i.succ) (fun i => k i.succ))) := by
  funext row
  simp only [prodFamily, LinearMap.funLeft_apply, mulBil_apply, splitRow]
  rw [Fin.prod_univ_succ]

theorem range_prodFamily_succ {n : ℕ} {J L : Fin (n + 1) → Type} (B : (i : Fin (n + 1)) → J i → (L i → K)) :
    Set.range (prodFamily B) = (LinearMap.funLeft K K (splitRow L)) ''
      (Set.image2 (fun u v => mulBil _ _ u v) (Set.range (B 0))
        (Set.range (prodFamily (fun i : Fin n => B i.succ)))) := by
  ext w
  constructor
  · rintro ⟨k, rfl⟩
    exact ⟨_, ⟨_, ⟨k 0, rfl⟩, _, ⟨fun i => k i.succ, rfl⟩, rfl⟩, (prodFamily_succ B k).symm⟩
  · rintro ⟨_, ⟨_, ⟨a, rfl⟩, _, ⟨b, rfl⟩, rfl⟩, rfl⟩
    refine ⟨Fin.cons a b, ?_⟩
    rw [prodFamily_succ]
    simp

theorem span_prodFamily_succ {n : ℕ} {J L : Fin (n + 1) → Type} (B : (i : Fin (n + 1)) → J i → (L i → K)) :
    Submodule.span K (Set.range (prodFamily B)) =
      (Submodule.map₂ (mulBil _ _) (Submodule.span K (Set.range (B 0)))
        (Submodule.span K (Set.range (prodFamily (fun i : Fin n => B i.succ))))).map
          (LinearMap.funLeft K K (splitRow L)) := by
  rw [range_prodFamily_succ, Submodule.map₂_span_span, Submodule.map_span]

/-- (bilinearity of the product of column spaces on a crossed design) if on every axis two families
span the same space, their product families span the same space -/
theorem span_prodFamily_congr : ∀ (n : ℕ) (L : Fin n → Type) (J J' : Fin n → Type)
    (A : (i : Fin n) → J i → (L i → K)) (B : (i : Fin n) → J' i → (L i → K))
    (_ : ∀ i, Submodule.span K (Set.range (A i)) = Submodule.span K (Set.range (B i))),
    Submodule.span K (Set.range (prodFamily A)) = Submodule.span K (Set.range (prodFamily B)) := by
  intro n
  induction n with
  | zero =>
    intro L J J' A B _
    have hA : Set.range (prodFamily A) = {fun _ => 1} := by
      ext w; constructor
      · rintro ⟨k, rfl⟩; funext row; simp [prodFamily]
      · rintro rfl; exact ⟨fun i => i.elim0, by funext row; simp [prodFamily]⟩
    have hB : Set.range (prodFamily B) = {fun _ => 1} := by
      ext w; constructor
      · rintro ⟨k, rfl⟩; funext row; simp [prodFamily]
      · rintro rfl; exact ⟨fun i => i.elim0, by funext row; simp [prodFamily]⟩
    rw [hA, hB]
  | succ n ih =>
    intro L J J' A B h
    rw [span_prodFamily_succ, span_prodFamily_succ, h 0,
      ih (fun i => L i.succ) (fun i => J i.succ) (fun i => J' i.succ) (fun i => A i.succ) (fun i => B i.succ)
        (fun i => h i.succ)]


/-! ### (1) one factor: full coding versus `[1 | reduced coding]` -/

theorem range_aug {J L : Type} (R : J → (L → K)) :
    Set.range (aug R) = insert (fun _ => (1 : K)) (Set.range R) := by
  ext w
  constructor
  · rintro ⟨o, rfl⟩
    cases o with
    | none => exact Set.mem_insert _ _
    | some j => exact Set.mem_insert_of_mem _ ⟨j, rfl⟩
  · rintro (rfl | ⟨j, rfl⟩)
    · exact ⟨none, rfl⟩
    · exact ⟨some j, rfl⟩

theorem span_aug {J L : Type} (R : J → (L → K)) :
    Submodule.span K (Set.range (aug R)) =
      Submodule.span K {fun _ => (1 : K)} ⊔ Submodule.span K (Set.range R) := by
  rw [range_aug, Submodule.span_insert]

/-- the dummy (one indicator per level) coding spans all functions of the level -/
theorem span_indicators {L : Type} [Fintype L] [DecidableEq L] :
    Submodule.span K (Set.range (fun l : L => (Pi.single l (1 : K) : L → K))) = ⊤ := by
  have := (Pi.basisFun K L).span_eq
  have e : (⇑(Pi.basisFun K L) : L → (L → K)) = fun l => Pi.single l 1 := by
    funext l; simp [Pi.basisFun_apply]
  rw [e] at this
  exact this

/-- `[1 | R]` with linearly independent columns and as many columns as levels is a basis -/
theorem span_aug_eq_top {J L : Type} [Fintype J] [Fintype L] (R : J → (L → K))
    (hli : LinearIndependent K (aug R)) (hcard : Fintype.card J + 1 = Fintype.card L) :
    Submodule.span K (Set.range (aug R)) = ⊤ := by
  apply hli.span_eq_top_of_card_eq_finrank'
  rw [Module.finrank_fintype_fun_eq_card, Fintype.card_option, hcard]

/-- (1) For ONE factor with levels `L`: if the reduced coding `R` has one column fewer than there are
levels and `[1 | R]` has linearly independent columns (equivalently: the square matrix `[1 | R]` is
invertible — what C11 proves for every built-in contrast), then the full (dummy) coding spans
exactly the constant column plus the reduced columns: `span F = span 1 ⊔ span R`. For the treatment
coding `R` consists of the indicators of all levels but the reference one. -/
theorem span_full_eq_one_sup_reduced {J L : Type} [Fintype J] [Fintype L] [DecidableEq L] (R : J → (L → K))
    (hli : LinearIndependent K (aug R)) (hcard : Fintype.card J + 1 = Fintype.card L) :
    Submodule.span K (Set.range (fun l : L => (Pi.single l (1 : K) : L → K))) =
      Submodule.span K {fun _ => (1 : K)} ⊔ Submodule.span K (Set.range R) := by
  rw [span_indicators, ← span_aug, span_aug_eq_top R hli hcard]

/-- the hypothesis in matrix form: if the square matrix `[1 | R]` (columns indexed through any
bijection with the levels) has non-zero determinant, its columns are linearly independent -/
theorem aug_linearIndependent_of_det_ne_zero {J L : Type} [Fintype L] [DecidableEq L] (R : J → (L → K))
    (e : Option J ≃ L) (hdet : (Matrix.of (fun l l' => aug R (e.symm l') l) : Matrix L L K).det ≠ 0) :
    LinearIndependent K (aug R) := by
  have := Matrix.linearIndependent_cols_of_det_ne_zero hdet
  have h2 : (Matrix.of (fun l l' => aug R (e.symm l') l) : Matrix L L K).col = aug R ∘ ⇑e.symm := by
    funext l' l; rfl
  rw [h2] at this
  exact (linearIndependent_equiv e.symm).mp this


/-! ### abstract scoped terms on a fully crossed design -/

/-- an indexed family of vectors bundled with its index type -/
structure Fam (V : Type) where
  J : Type
  v : J → V

section design
variable {n : ℕ} {L JR JF : Fin n → Type}
  (R : (i : Fin n) → JR i → (L i → K))   -- reduced coding of factor `i`
  (F : (i : Fin n) → JF i → (L i → K))   -- full coding of factor `i`
  (spans : Fin n → Bool)                  -- does factor `i` span the intercept

/-- an abstract scoped term: for every factor `none` (absent), `some true` (reduced coding) or
`some false` (full coding) — exactly the `(factor, reduced)` flags of a `ScopedTerm` -/
abbrev Code (n : ℕ) := Fin n → Option Bool

/-- the block of columns factor `i` contributes under a coding flag -/
def blk (i : Fin n) : Option Bool → Fam (L i → K)
  | none => ⟨Unit, fun _ _ => 1⟩
  | some true => ⟨JR i, R i⟩
  | some false => ⟨JF i, F i⟩

/-- the columns of a scoped term on the fully crossed design: the row-wise Kronecker (Khatri–Rao)
product of its factor blocks -/
def stFamily (code : Code n) : ((i : Fin n) → (blk R F i (code i)).J) → (((i : Fin n) → L i) → K) :=
  prodFamily (fun i => (blk R F i (code i)).v)

/-- which entries of `[1 | R i]` a coding flag can reach: nothing but the constant for an absent factor,
the reduced columns for a mandatory one, everything for a full-coded intercept-spanning one -/
def allowed {J : Type} (sp : Bool) : Option Bool → Set (Option J)
  | none => {none}
  | some true => {o | o.isSome}
  | some false => if sp then Set.univ else {o | o.isSome}

/-- the component/column choices a scoped term covers -/
def keys (code : Code n) : Set ((i : Fin n) → Option (JR i)) :=
  {k | ∀ i, k i ∈ allowed (spans i) (code i)}

/-- the sub-family of `[1 | R i]` reached by a coding flag -/
def gblk (i : Fin n) (c : Option Bool) : Fam (L i → K) :=
  ⟨{o : Option (JR i) // o ∈ allowed (spans i) c}, fun o => aug (R i) o.1⟩

structure Hyp : Prop where
  /-- `[1 | reduced columns]` is linearly independent on the factor's own axis -/
  hR : ∀ i, LinearIndependent K (aug (R i))
  /-- the full coding has linearly independent columns -/
  hF : ∀ i, LinearIndependent K (F i)
  /-- an intercept-spanning factor: full coding and `[1 | reduced coding]` span the same space -/
  hFs : ∀ i, spans i = true →
    Submodule.span K (Set.range (F i)) = Submodule.span K (Set.range (aug (R i)))
  /-- any other factor (numeric): its coding is the same whether flagged reduced or not -/
  hFn : ∀ i, spans i = false →
    Submodule.span K (Set.range (F i)) = Submodule.span K (Set.range (R i))

theorem image_isSome {J V : Type} (f : Option J → V) :
    f '' {o : Option J | o.isSome} = Set.range (fun j => f (some j)) := by
  ext w
  constructor
  · rintro ⟨o, ho, rfl⟩
    cases o with
    | none => simp at ho
    | some j => exact ⟨j, rfl⟩
  · rintro ⟨j, rfl⟩
    exact ⟨some j, by simp, rfl⟩

theorem range_gblk (i : Fin n) (c : Option Bool) :
    Set.range (gblk R spans i c).v = aug (R i) '' allowed (spans i) c := by
  ext w
  constructor
  · rintro ⟨⟨o, ho⟩, rfl⟩; exact ⟨o, ho, rfl⟩
  · rintro ⟨o, ho, rfl⟩; exact ⟨⟨o, ho⟩, rfl⟩

theorem span_blk_eq (h : Hyp R F spans) (i : Fin n) (c : Option Bool) :
    Submodule.span K (Set.range (blk R F i c).v) = Submodule.span K (Set.range (gblk R spans i c).v) := by
  rw [range_gblk]
  have hsome : aug (R i) '' {o : Option (JR i) | o.isSome} = Set.range (R i) := image_isSome (aug (R i))
  cases c with
  | none =>
    simp only [blk, allowed, Set.image_singleton]
    congr 1
    ext w
    constructor
    · rintro ⟨_, rfl⟩; rfl
    · intro hw; exact ⟨(), hw.symm⟩
  | some b =>
    cases b with
    | true => simp only [blk, allowed]; rw [hsome]
    | false =>
      by_cases hs : spans i = true
      · simp only [blk, allowed, hs, if_true, Set.image_univ]
        exact h.hFs i hs
      · have hs' : spans i = false := by simpa using hs
        simp only [blk, allowed, hs', Bool.false_eq_true, if_false]
        rw [h.hFn i hs', hsome]

/-- (P1) the columns of a scoped term span exactly the component columns it covers -/
theorem span_stFamily (h : Hyp R F spans) (code : Code n) :
    Submodule.span K (Set.range (stFamily R F code)) =
      Submodule.span K (compColumn R '' keys (JR := JR) spans code) := by
  unfold stFamily
  rw [span_prodFamily_congr n L _ _ (fun i => (blk R F i (code i)).v) (fun i => (gblk R spans i (code i)).v)
    (fun i => span_blk_eq R F spans h i (code i))]
  congr 1
  ext w
  constructor
  · rintro ⟨κ, rfl⟩
    exact ⟨fun i => (κ i).1, fun i => (κ i).2, rfl⟩
  · rintro ⟨k, hk, rfl⟩
    exact ⟨fun i => ⟨k i, hk i⟩, rfl⟩

theorem one_ne_zero_of_hyp (h : Hyp R F spans) (i : Fin n) : (fun _ : L i => (1 : K)) ≠ 0 :=
  (h.hR i).ne_zero none

/-- (P2) the columns of one scoped term are linearly independent -/
theorem linearIndependent_stFamily (h : Hyp R F spans) (code : Code n) :
    LinearIndependent K (stFamily R F code) := by
  apply linearIndependent_prodFamily
  intro i
  cases hc : code i with
  | none =>
    simp only [blk]
    rw [linearIndependent_unique_iff]
    exact one_ne_zero_of_hyp R F spans h i
  | some b =>
    cases b with
    | true => exact (h.hR i).comp some (Option.some_injective _)
    | false => exact h.hF i

/-- (P4) the columns of any family of scoped terms span the component columns the terms cover -/
theorem span_structure (h : Hyp R F spans) {η : Type} (codes : η → Code n) :
    Submodule.span K (Set.range
      (fun x : (Σ a : η, ((i : Fin n) → (blk R F i (codes a i)).J)) => stFamily R F (codes x.1) x.2)) =
      Submodule.span K (compColumn R '' ⋃ a, keys (JR := JR) spans (codes a)) := by
  rw [Set.image_iUnion, Submodule.span_iUnion]
  simp only [← span_stFamily R F spans h]
  rw [← Submodule.span_iUnion]
  congr 1
  ext w
  constructor
  · rintro ⟨⟨a, κ⟩, rfl⟩; exact Set.mem_iUnion.mpr ⟨a, κ, rfl⟩
  · intro hw
    obtain ⟨a, κ, rfl⟩ := Set.mem_iUnion.mp hw
    exact ⟨⟨a, κ⟩, rfl⟩

/-- (P3) scoped terms that cover pairwise disjoint sets of component/column choices have jointly
linearly independent columns -/
theorem linearIndependent_structure (h : Hyp R F spans) {η : Type} (codes : η → Code n)
    (hdisj : ∀ a b, a ≠ b → Disjoint (keys (JR := JR) spans (codes a)) (keys (JR := JR) spans (codes b))) :
    LinearIndependent K
      (fun x : (Σ a : η, ((i : Fin n) → (blk R F i (codes a i)).J)) => stFamily R F (codes x.1) x.2) := by
  have hT := linearIndependent_compColumn R h.hR
  apply linearIndependent_iUnion_finite (fun a => linearIndependent_stFamily R F spans h (codes a))
  intro a t _ hat
  have e : (⨆ b ∈ t, Submodule.span K (Set.range (stFamily R F (codes b)))) =
      Submodule.span K (compColumn R '' ⋃ b ∈ t, keys (JR := JR) spans (codes b)) := by
    simp only [span_stFamily R F spans h, Set.image_iUnion, Submodule.span_iUnion]
  rw [e, span_stFamily R F spans h]
  apply hT.disjoint_span_image
  rw [Set.disjoint_iUnion₂_right]
  intro b hb
  exact hdisj a b (fun e' => hat (e' ▸ hb))

/-! ### structural components as sets of factors -/

/-- a factor that is present in every component of the term: reduced-coded, or not intercept-spanning -/
def isMand (code : Code n) (i : Fin n) : Prop :=
  code i = some true ∨ (code i = some false ∧ spans i = false)

/-- the structural components of an abstract scoped term: every set of factors that contains the
mandatory ones and only factors of the term -/
def compsF (code : Code n) : Set (Finset (Fin n)) :=
  {S | ∀ i, (i ∈ S → code i ≠ none) ∧ (isMand spans code i → i ∈ S)}

theorem mem_keys_iff (code : Code n) (k : (i : Fin n) → Option (JR i)) :
    k ∈ keys (JR := JR) spans code ↔ component k ∈ compsF spans code := by
  simp only [keys, compsF, Set.mem_ofPred_eq, component, Finset.mem_filter, Finset.mem_univ, true_and, isMand]
  constructor
  · intro hk i
    have := hk i
    cases hc : code i with
    | none =>
      simp only [hc, allowed, Set.mem_singleton_iff] at this
      simp [this]
    | some b =>
      cases b with
      | true =>
        simp only [hc, allowed, Set.mem_ofPred_eq] at this
        simp [this]
      | false =>
        by_cases hs : spans i = true
        · simp [hs]
        · have hs' : spans i = false := by simpa using hs
          simp only [hc, allowed, hs', Bool.false_eq_true, if_false, Set.mem_ofPred_eq] at this
          simp [this]
  · intro hS i
    obtain ⟨h1, h2⟩ := hS i
    cases hc : code i with
    | none =>
      simp only [allowed, Set.mem_singleton_iff]
      cases hk : k i with
      | none => rfl
      | some j => exact absurd hc (h1 (by simp [hk]))
    | some b =>
      cases b with
      | true => simp only [allowed, Set.mem_ofPred_eq]; exact h2 (.inl hc)
      | false =>
        by_cases hs : spans i = true
        · simp [allowed, hs]
        · have hs' : spans i = false := by simpa using hs
          simp only [allowed, hs', Bool.false_eq_true, if_false, Set.mem_ofPred_eq]
          exact h2 (.inr ⟨hc, hs'⟩)

theorem keys_eq_preimage (code : Code n) :
    keys (JR := JR) spans code = component ⁻¹' compsF spans code := by
  ext k; exact mem_keys_iff spans code k

/-- the reduced-coded term whose only component is `S` -/
def redCode (S : Finset (Fin n)) : Code n := fun i => if i ∈ S then some true else none

theorem compsF_redCode (S : Finset (Fin n)) : compsF spans (redCode S) = {S} := by
  ext T
  simp only [compsF, redCode, isMand, Set.mem_ofPred_eq, Set.mem_singleton_iff]
  constructor
  · intro h
    ext i
    constructor
    · intro hi
      have := (h i).1 hi
      by_contra hn
      simp [hn] at this
    · intro hi; exact (h i).2 (.inl (by simp [hi]))
  · rintro rfl i
    constructor
    · intro hi; simp [hi]
    · rintro (h | ⟨h, _⟩)
      · by_contra hn; simp [hn] at h
      · by_contra hn; simp [hn] at h

/-- (2) On a fully crossed design, the columns of a scoped term with full-coded factors (the row-wise
Kronecker product of its factor blocks) span exactly the sum, over its structural components `S`
(= presence choices for the full-coded intercept-spanning factors), of the spaces spanned by the
products of the corresponding REDUCED blocks. -/
theorem span_stFamily_eq_iSup_components (h : Hyp R F spans) (code : Code n) :
    Submodule.span K (Set.range (stFamily R F code)) =
      ⨆ S ∈ compsF spans code, Submodule.span K (Set.range (stFamily R F (redCode S))) := by
  simp only [span_stFamily R F spans h]
  rw [← Submodule.span_iUnion₂, ← Set.image_iUnion₂]
  congr 2
  ext k
  simp only [Set.mem_iUnion, mem_keys_iff, compsF_redCode, Set.mem_singleton_iff, exists_prop]
  constructor
  · intro hk; exact ⟨component k, hk, rfl⟩
  · rintro ⟨S, hS, rfl⟩; exact hS

/-- (3, abstract form) Let the scoped terms `codes a` have pairwise disjoint sets of structural
components (structural full rank), and let `codesFull b` be scoped terms with the same union of
components (unchanged span). Then on the fully crossed design the columns of the `codes` are jointly
linearly independent and span the same space as the columns of the `codesFull`. -/
theorem reduced_structure_full_rank_same_span (h : Hyp R F spans) {η η' : Type}
    (codes : η → Code n) (codesFull : η' → Code n)
    (hdisj : ∀ a b, a ≠ b → Disjoint (compsF spans (codes a)) (compsF spans (codes b)))
    (hsame : (⋃ a, compsF spans (codes a)) = ⋃ b, compsF spans (codesFull b)) :
    LinearIndependent K
      (fun x : (Σ a : η, ((i : Fin n) → (blk R F i (codes a i)).J)) => stFamily R F (codes x.1) x.2) ∧
    Submodule.span K (Set.range
      (fun x : (Σ a : η, ((i : Fin n) → (blk R F i (codes a i)).J)) => stFamily R F (codes x.1) x.2)) =
    Submodule.span K (Set.range
      (fun x : (Σ b : η', ((i : Fin n) → (blk R F i (codesFull b i)).J)) => stFamily R F (codesFull x.1) x.2)) := by
  constructor
  · apply linearIndependent_structure R F spans h
    intro a b hab
    rw [keys_eq_preimage, keys_eq_preimage]
    exact (hdisj a b hab).preimage _
  · rw [span_structure R F spans h, span_structure R F spans h]
    simp only [keys_eq_preimage, ← Set.preimage_iUnion, hsame]

end design

end FormulaicVerif.Proofs.TensorRank
