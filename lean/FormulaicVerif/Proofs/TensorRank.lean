import Mathlib.LinearAlgebra.LinearIndependent.Defs
import Mathlib.LinearAlgebra.LinearIndependent.Basic
import Mathlib.LinearAlgebra.LinearIndependent.Lemmas
import Mathlib.Algebra.BigOperators.Fin
import Mathlib.LinearAlgebra.Pi
/-! Tensor-rank lemma for C03 (Mathlib, single modules): on a fully crossed design, products of per-axis
linearly independent families of functions are linearly independent; hence the columns of distinct structural
components are jointly linearly independent. -/

open Finset

namespace FormulaicVerif.Proofs.TensorRank
variable {K : Type} [Field K]

/-- two linearly independent families of functions multiply to a linearly independent family of
functions on the product (the fully crossed design of two axes) -/
theorem linearIndependent_mul {A B X Y : Type} (f : A → X → K) (g : B → Y → K)
    (hf : LinearIndependent K f) (hg : LinearIndependent K g) :
    LinearIndependent K (fun (p : A × B) => fun (q : X × Y) => f p.1 q.1 * g p.2 q.2) := by
  classical
  rw [linearIndependent_iff'] at hf hg ⊢
  intro s c hsum p hp
  -- extend the coefficients by zero to the rectangle s₁ × s₂
  let s₁ := s.image Prod.fst
  let s₂ := s.image Prod.snd
  let c' : A × B → K := fun p => if p ∈ s then c p else 0
  have hsub : s ⊆ s₁ ×ˢ s₂ := by
    intro q hq
    exact mem_product.mpr ⟨mem_image_of_mem _ hq, mem_image_of_mem _ hq⟩
  have hsum' : ∑ q ∈ s₁ ×ˢ s₂, c' q • (fun (r : X × Y) => f q.1 r.1 * g q.2 r.2) = 0 := by
    rw [← hsum]
    symm
    apply Finset.sum_subset_zero_on_sdiff hsub
    · intro q hq
      have : q ∉ s := (mem_sdiff.mp hq).2
      simp [c', this]
    · intro q hq
      simp [c', hq]
  -- for every y, the coefficients Σ_b c'(a,b) g_b(y) of f_a vanish
  have h1 : ∀ y : Y, ∀ a ∈ s₁, ∑ b ∈ s₂, c' (a, b) * g b y = 0 := by
    intro y
    apply hf s₁ (fun a => ∑ b ∈ s₂, c' (a, b) * g b y)
    funext x
    have := congrFun hsum' (x, y)
    simp only [Finset.sum_apply, Pi.smul_apply, smul_eq_mul, Pi.zero_apply] at this ⊢
    rw [Finset.sum_product] at this
    rw [← this]
    apply Finset.sum_congr rfl
    intro a _
    rw [Finset.sum_mul]
    apply Finset.sum_congr rfl
    intro b _
    ring
  have h2 : ∀ a ∈ s₁, ∀ b ∈ s₂, c' (a, b) = 0 := by
    intro a ha
    apply hg s₂ (fun b => c' (a, b))
    funext y
    have := h1 y a ha
    simpa [Finset.sum_apply, Pi.smul_apply, smul_eq_mul] using this
  have := h2 p.1 (mem_image_of_mem _ hp) p.2 (mem_image_of_mem _ hp)
  simpa [c', hp] using this


/-- the product family over `n` axes: pick one function per axis, evaluate on the crossed design -/
def prodFamily {n : ℕ} {J L : Fin n → Type} (B : (i : Fin n) → J i → (L i → K))
    (k : (i : Fin n) → J i) : ((i : Fin n) → L i) → K :=
  fun row => ∏ i, B i (k i) (row i)

/-- on a fully crossed design with any number of axes, products of per-axis linearly independent
families are linearly independent -/
theorem linearIndependent_prodFamily : ∀ (n : ℕ) (J L : Fin n → Type)
    (B : (i : Fin n) → J i → (L i → K)) (_ : ∀ i, LinearIndependent K (B i)),
    LinearIndependent K (prodFamily B) := by
  intro n
  induction n with
  | zero =>
    intro J L B _
    have : Unique ((i : Fin 0) → J i) := Pi.uniqueOfIsEmpty _
    rw [linearIndependent_unique_iff]
    intro h
    have := congrFun h (fun i => i.elim0)
    simp [prodFamily] at this
  | succ n ih =>
    intro J L B hB
    have hrest := ih (fun i => J i.succ) (fun i => L i.succ) (fun i => B i.succ) (fun i => hB i.succ)
    have hmul := linearIndependent_mul (B 0) (prodFamily (fun i : Fin n => B i.succ)) (hB 0) hrest
    -- transport the domain along rows ≃ (first coordinate, remaining coordinates)
    let e : ((i : Fin (n + 1)) → L i) → L 0 × ((i : Fin n) → L i.succ) := fun row => (row 0, fun i => row i.succ)
    have he : Function.Surjective e := by
      intro q
      refine ⟨Fin.cons q.1 q.2, ?_⟩
      simp [e]
    have hker : LinearMap.ker (LinearMap.funLeft K K e) = ⊥ :=
      LinearMap.ker_eq_bot.mpr (LinearMap.funLeft_injective_of_surjective K K e he)
    have hmap := hmul.map' (LinearMap.funLeft K K e) hker
    -- transport the index along choices ↦ (first choice, remaining choices)
    let idx : ((i : Fin (n + 1)) → J i) → J 0 × ((i : Fin n) → J i.succ) := fun k => (k 0, fun i => k i.succ)
    have hinj : Function.Injective idx := by
      intro k k' h
      funext i
      have h0 := congrArg Prod.fst h
      have h1 := congrArg Prod.snd h
      refine Fin.cases ?_ ?_ i
      · exact h0
      · intro j; exact congrFun h1 j
    have hcomp := hmap.comp idx hinj
    have heq : ((⇑(LinearMap.funLeft K K e) ∘ fun (p : J 0 × ((i : Fin n) → J i.succ)) =>
        fun (q : L 0 × ((i : Fin n) → L i.succ)) => B 0 p.1 q.1 * prodFamily (fun i : Fin n => B i.succ) p.2 q.2)
          ∘ idx) = prodFamily B := by
      funext k row
      simp only [Function.comp_apply, LinearMap.funLeft_apply, prodFamily, e, idx]
      rw [Fin.prod_univ_succ]
    rw [heq] at hcomp
    exact hcomp

/-! ### in the language of structural components -/

/-- `[1 | reduced columns]` of one factor: `none` is the constant column, `some j` the `j`-th reduced column -/
def aug {J L : Type} (R : J → (L → K)) : Option J → (L → K)
  | none => fun _ => 1
  | some j => R j

/-- the column of a structural component with a choice of reduced column for every factor present
(`k i = none`: factor `i` is absent from the component), on the fully crossed design -/
def compColumn {n : ℕ} {J L : Fin n → Type} (R : (i : Fin n) → J i → (L i → K))
    (k : (i : Fin n) → Option (J i)) : ((i : Fin n) → L i) → K :=
  prodFamily (fun i => aug (R i)) k

/-- the structural component of such a column: the set of factors present -/
def component {n : ℕ} {J : Fin n → Type} (k : (i : Fin n) → Option (J i)) : Finset (Fin n) :=
  Finset.univ.filter (fun i => (k i).isSome)

theorem compColumn_apply {n : ℕ} {J L : Fin n → Type} (R : (i : Fin n) → J i → (L i → K))
    (k : (i : Fin n) → Option (J i)) (row : (i : Fin n) → L i) :
    compColumn R k row = ∏ i, (match k i with | none => 1 | some j => R i j (row i)) := by
  unfold compColumn prodFamily
  apply Finset.prod_congr rfl
  intro i _
  cases k i <;> rfl

/-- If for every factor the family `[1 | reduced columns]` is linearly independent over the factor's
own levels, then on the fully crossed design ALL component columns — over all components and all
choices of reduced columns — are jointly linearly independent. -/
theorem linearIndependent_compColumn {n : ℕ} {J L : Fin n → Type} (R : (i : Fin n) → J i → (L i → K))
    (h : ∀ i, LinearIndependent K (aug (R i))) : LinearIndependent K (compColumn R) :=
  linearIndependent_prodFamily n _ L (fun i => aug (R i)) h

/-- columns with different structural components are different members of that family -/
theorem ne_of_component_ne {n : ℕ} {J : Fin n → Type} {k k' : (i : Fin n) → Option (J i)}
    (h : component k ≠ component k') : k ≠ k' := fun e => h (e ▸ rfl)

end FormulaicVerif.Proofs.TensorRank
