import FormulaicVerif.Proofs.C13Aux
/-! `poly` replaying ANY recorded state: a call that succeeds has found every coefficient it needs
(`alpha[k]` for `k < d`, `norms2[k]` for `k ≤ d`, none of the divisors zero), so it is the closed form
of `run_recorded_poly` — with no hypothesis on how the state came about. -/
namespace FormulaicVerif.Proofs.C13
open FormulaicVerif FormulaicVerif.Model

variable {α : Type}

section core
set_option linter.unusedSectionVars false
variable [Add α] [Sub α] [Mul α] [Div α] [Zero α] [One α] [DecidableEq α]

theorem recorded_alpha_ok (al : List α) (nr : Option (List α)) (k : ℕ) (p : List α) (a : α)
    (h : (Poly.recorded al nr).alpha k p = .ok a) : al[k]? = some a := by
  simp only [Poly.recorded] at h
  split at h
  · cases h; assumption
  · cases h

theorem recorded_norm_ok (al nr : List α) (k : ℕ) (p : List α) (n : α)
    (h : (Poly.recorded al (some nr)).norm k p = .ok n) : nr[k]? = some n := by
  simp only [Poly.recorded] at h
  split at h
  · cases h; assumption
  · cases h

/-- a successful loop found `alpha[k]` for every `k < d` and non-zero `norms2[k]` wherever it divided -/
theorem build_recorded_ok (x al nr : List α) : ∀ (d : ℕ) (cols : List (List α)),
    Poly.build x (Poly.recorded al (some nr)) d = .ok cols →
    cols.length = d + 1 ∧ d ≤ al.length ∧
      ∀ k, k + 1 < d → ∃ n, nr[k]? = some n ∧ n ≠ 0
  | 0, cols, h => by
    simp only [Poly.build] at h
    cases h
    exact ⟨rfl, Nat.zero_le _, fun k hk => absurd hk (by omega)⟩
  | i + 1, cols, h => by
    rw [Poly.build] at h
    cases hb : Poly.build x (Poly.recorded al (some nr)) i with
    | error e => rw [hb] at h; cases h
    | ok c' =>
      rw [hb] at h
      obtain ⟨ihl, ih1, ih2⟩ := build_recorded_ok x al nr i c' hb
      cases c' with
      | nil => cases h
      | cons p1 rest =>
        simp only at h
        cases ha : (Poly.recorded al (some nr)).alpha i p1 with
        | error e => rw [ha] at h; cases h
        | ok a =>
          rw [ha] at h
          have hlt : i < al.length :=
            (List.getElem?_eq_some_iff.mp (recorded_alpha_ok al (some nr) i p1 a ha)).1
          cases i with
          | zero =>
            simp only at h
            cases h
            refine ⟨by simpa using ihl, hlt, fun k hk => absurd hk (by omega)⟩
          | succ j =>
            cases rest with
            | nil => cases h
            | cons p2 rest' =>
              simp only at h
              cases h1 : (Poly.recorded al (some nr)).norm (j + 1) p1 with
              | error e => rw [h1] at h; cases h
              | ok n1 =>
                cases h2 : (Poly.recorded al (some nr)).norm j p2 with
                | error e => rw [h1, h2] at h; cases h
                | ok n2 =>
                  rw [h1, h2] at h
                  simp only at h
                  by_cases hz : n2 = 0
                  · simp [hz] at h
                  · simp only [hz, if_false] at h
                    cases h
                    refine ⟨by simpa using ihl, hlt, ?_⟩
                    intro k hk
                    by_cases hkj : k = j
                    · subst hkj
                      exact ⟨n2, recorded_norm_ok al nr _ p2 n2 h2, hz⟩
                    · exact ih2 k (by omega)

theorem norms_recorded_ok (al nr : List α) : ∀ (cols : List (List α)) (k0 : ℕ) (ns : List α),
    Poly.norms (Poly.recorded al (some nr)) k0 cols = .ok ns →
    ns.length = cols.length ∧ ∀ j, j < cols.length → nr[k0 + j]? = ns[j]?
  | [], _, ns, h => by
    simp only [Poly.norms] at h
    cases h
    exact ⟨rfl, fun j hj => absurd hj (by simp)⟩
  | p :: ps, k0, ns, h => by
    rw [Poly.norms] at h
    cases h1 : (Poly.recorded al (some nr)).norm k0 p with
    | error e => rw [h1] at h; cases h
    | ok n =>
      cases h2 : Poly.norms (Poly.recorded al (some nr)) (k0 + 1) ps with
      | error e => rw [h1, h2] at h; cases h
      | ok ns' =>
        rw [h1, h2] at h
        cases h
        obtain ⟨il, ih⟩ := norms_recorded_ok al nr ps (k0 + 1) ns' h2
        refine ⟨by simp [il], ?_⟩
        intro j hj
        cases j with
        | zero => simpa using recorded_norm_ok al nr k0 p n h1
        | succ j =>
          have := ih j (by simpa using hj)
          simpa [Nat.add_assoc, Nat.add_comm 1 j] using this

theorem normalise_ok (sqrt : α → α) : ∀ (cols : List (List α)) (ns : List α) (q : List (List α)),
    Poly.normalise sqrt cols ns = .ok q → ∀ n ∈ ns, sqrt n ≠ 0
  | [], [], _, _ => by intro n hn; cases hn
  | [], _ :: _, _, h => by cases h
  | _ :: _, [], _, h => by cases h
  | p :: ps, n :: ns, q, h => by
    rw [Poly.normalise] at h
    by_cases hz : sqrt n = 0
    · simp [hz] at h
    · simp only [hz, if_false] at h
      cases hr : Poly.normalise sqrt ps ns with
      | error e => rw [hr] at h; cases h
      | ok r =>
        intro m hm
        rcases List.mem_cons.mp hm with rfl | hm
        · exact hz
        · exact normalise_ok sqrt ps ns r hr m hm

end core

variable [Field α] [DecidableEq α]

/-- a successful replay found everything `run_recorded_poly` asks for -/
theorem run_recorded_ok (sqrt : α → α) (ys : List (Option α)) (d : ℕ) (al nr : List α)
    (out : List (List (Option α))) (st' : Poly.State α)
    (h : Poly.run sqrt ys d false ⟨some al, some nr⟩ = .ok (out, st')) :
    d ≤ al.length ∧ d + 1 ≤ nr.length ∧ (∀ k, k + 1 < d → nr.getD k 0 ≠ 0) ∧
      (∀ k ≤ d, sqrt (nr.getD k 0) ≠ 0) := by
  unfold Poly.run Poly.fit at h
  simp only [Bool.false_eq_true, if_false] at h
  cases hb : Poly.build ys.reduceOption (Poly.recorded al (some nr)) d with
  | error e => simp [hb] at h
  | ok colsRev =>
    obtain ⟨hl, hal, hn⟩ := build_recorded_ok ys.reduceOption al nr d colsRev hb
    simp only [hb] at h
    cases hno : Poly.norms (Poly.recorded al (some nr)) 0 colsRev.reverse with
    | error e => simp [hno] at h
    | ok ns =>
      simp only [hno] at h
      obtain ⟨hnl, hns⟩ := norms_recorded_ok al nr colsRev.reverse 0 ns hno
      cases hq : Poly.normalise sqrt colsRev.reverse ns with
      | error e => simp [hq] at h
      | ok q =>
        have hsq := normalise_ok sqrt colsRev.reverse ns q hq
        have hlen : colsRev.reverse.length = d + 1 := by simp [hl]
        have key : ∀ k ≤ d, ∃ n, nr[k]? = some n ∧ n ∈ ns := by
          intro k hk
          have hk' : k < colsRev.reverse.length := by omega
          have h1 := hns k hk'
          have hkn : k < ns.length := by omega
          rw [Nat.zero_add, List.getElem?_eq_getElem hkn] at h1
          exact ⟨ns[k], h1, List.getElem_mem hkn⟩
        refine ⟨hal, ?_, ?_, ?_⟩
        · obtain ⟨n, hn1, _⟩ := key d (le_refl _)
          have := (List.getElem?_eq_some_iff.mp hn1).1
          omega
        · intro k hk
          obtain ⟨n, hn1, hn0⟩ := hn k hk
          simpa [List.getD_eq_getElem?_getD, hn1] using hn0
        · intro k hk
          obtain ⟨n, hn1, hmem⟩ := key k hk
          simpa [List.getD_eq_getElem?_getD, hn1] using hsq n hmem

/-- replaying ANY recorded state: if the call succeeds, the state is returned as it was and every
output column is a fixed function of the recorded coefficients applied entry-wise to the new data -/
theorem run_recorded_closed (sqrt : α → α) (ys : List (Option α)) (d : ℕ) (al nr : List α)
    (out : List (List (Option α))) (st' : Poly.State α)
    (h : Poly.run sqrt ys d false ⟨some al, some nr⟩ = .ok (out, st')) :
    st' = ⟨some al, some nr⟩ ∧
      out = (List.range' 1 d).map (fun k => ys.map (Option.map
        (fun t => recPoly (fun k => al.getD k 0) (fun k => nr.getD k 0) k t / sqrt (nr.getD k 0)))) := by
  obtain ⟨h1, h2, h3, h4⟩ := run_recorded_ok sqrt ys d al nr out st' h
  rw [run_recorded_poly sqrt ys d al nr h1 h2 h3 h4] at h
  cases h
  exact ⟨rfl, rfl⟩

theorem fit_records (sqrt : α → α) (x : List α) (d : ℕ) (n0 : Option (List α)) (q : List (List α))
    (st' : Poly.State α) (h : Poly.fit sqrt x d ⟨none, n0⟩ = .ok (q, st')) :
    ∃ al nr, st' = ⟨some al, some nr⟩ := by
  unfold Poly.fit at h
  simp only at h
  split at h
  · cases h
  · split at h
    · cases h
    · split at h
      · cases h
      · split at h
        · cases h
        · cases h
          exact ⟨_, _, rfl⟩

theorem run_of_fit (sqrt : α → α) (xs : List (Option α)) (d : ℕ) (st : Poly.State α)
    (out : List (List (Option α))) (st' : Poly.State α)
    (h : Poly.run sqrt xs d false st = .ok (out, st')) :
    ∃ q, Poly.fit sqrt xs.reduceOption d st = .ok (q, st') := by
  unfold Poly.run at h
  simp only [Bool.false_eq_true, if_false] at h
  split at h
  · cases h
  · split at h
    · cases h
    · cases h
      exact ⟨_, by assumption⟩

/-- the loop always leaves `d + 1` columns -/
theorem build_length (x : List α) (c : Poly.Coefs α) : ∀ (d : ℕ) (cols : List (List α)),
    Poly.build x c d = .ok cols → cols.length = d + 1
  | 0, cols, h => by
    simp only [Poly.build] at h
    cases h; rfl
  | i + 1, cols, h => by
    rw [Poly.build] at h
    cases hb : Poly.build x c i with
    | error e => rw [hb] at h; cases h
    | ok c' =>
      rw [hb] at h
      have ihl := build_length x c i c' hb
      cases c' with
      | nil => cases h
      | cons p1 rest =>
        simp only at h
        cases ha : c.alpha i p1 with
        | error e => rw [ha] at h; cases h
        | ok a =>
          rw [ha] at h
          cases i with
          | zero =>
            simp only at h
            cases h
            simpa using ihl
          | succ j =>
            cases rest with
            | nil => cases h
            | cons p2 rest' =>
              simp only at h
              cases h1 : c.norm (j + 1) p1 with
              | error e => rw [h1] at h; cases h
              | ok n1 =>
                cases h2 : c.norm j p2 with
                | error e => rw [h1, h2] at h; cases h
                | ok n2 =>
                  rw [h1, h2] at h
                  simp only at h
                  by_cases hz : n2 = 0
                  · simp [hz] at h
                  · simp only [hz, if_false] at h
                    cases h
                    simpa using ihl

/-- a state with `alpha` but without `norms2` cannot be replayed (`None[k]`: `TypeError`) -/
theorem fit_alpha_only_fails (sqrt : α → α) (x : List α) (d : ℕ) (al : List α) (r : List (List α) × Poly.State α) :
    Poly.fit sqrt x d ⟨some al, none⟩ ≠ .ok r := by
  intro h
  unfold Poly.fit at h
  simp only at h
  split at h
  · cases h
  · rename_i colsRev hb
    have hl := build_length x _ d colsRev hb
    cases hc : colsRev.reverse with
    | nil =>
      have : colsRev.length = 0 := by simpa using congrArg List.length hc
      omega
    | cons p ps =>
      rw [hc, Poly.norms] at h
      cases hps : Poly.norms (Poly.recorded al none) (0 + 1) ps <;> simp [Poly.recorded] at h

/-- after a successful orthogonal call, from ANY starting state, both dictionaries are recorded -/
theorem run_records (sqrt : α → α) (xs : List (Option α)) (d : ℕ) (st : Poly.State α)
    (out : List (List (Option α))) (st' : Poly.State α)
    (h : Poly.run sqrt xs d false st = .ok (out, st')) : ∃ al nr, st' = ⟨some al, some nr⟩ := by
  obtain ⟨a0, n0⟩ := st
  cases a0 with
  | none =>
    obtain ⟨q, hq⟩ := run_of_fit sqrt xs d _ out st' h
    exact fit_records sqrt _ d n0 q st' hq
  | some al =>
    cases n0 with
    | some nr =>
      obtain ⟨rfl, _⟩ := run_recorded_closed sqrt xs d al nr out st' h
      exact ⟨_, _, rfl⟩
    | none =>
      obtain ⟨q, hq⟩ := run_of_fit sqrt xs d _ out st' h
      exact absurd hq (fit_alpha_only_fails sqrt _ d al _)

end FormulaicVerif.Proofs.C13
