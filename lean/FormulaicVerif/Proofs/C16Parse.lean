import FormulaicVerif.Model.ConstraintParse
import FormulaicVerif.Proofs.C14
/-! The constraint parser (`Model/ConstraintParse.lean`) against the general shunting-yard model:
`OperatorResolver.resolve` (base class) is the first branch of `DefaultOperatorResolver.resolve`, so
whatever the constraint parser accepts the general one accepts with the same tree, and everything
proved of `tokensToAst` for every operator table (C01 `shunt_complete`, C14) transfers. -/
namespace FormulaicVerif.Proofs.C16Parse
open FormulaicVerif FormulaicVerif.Model FormulaicVerif.Model.ConstraintParse FormulaicVerif.Proofs.C14

theorem resolveBase_ok (tab : OpTable) (text : List Char) (g : List (List OpSpec))
    (h : resolveBase tab text = .ok g) : resolveToken tab text = .ok g := by
  unfold resolveBase at h
  unfold resolveToken
  cases hl : tab.lookup (String.ofList text) with
  | none => rw [hl] at h; cases h
  | some c => rw [hl] at h; exact h

theorem resolveBase_err (tab : OpTable) (text : List Char) (e : ParseErr)
    (h : resolveBase tab text = .error e) : IsSyntax e := by
  unfold resolveBase at h
  cases hl : tab.lookup (String.ofList text) with
  | none => rw [hl] at h; injection h with h; exact ⟨_, h.symm⟩
  | some c => rw [hl] at h; cases h

theorem shuntStepBase_ok (tab : OpTable) (s s' : ShState) (t : Tok)
    (h : shuntStepBase tab s t = .ok s') : shuntStep tab s t = .ok s' := by
  unfold shuntStepBase at h
  unfold shuntStep
  cases hk : t.kind with
  | none => rw [hk] at h; exact h
  | some k =>
    rw [hk] at h
    cases k with
    | operator =>
      simp only at h ⊢
      cases hr : resolveBase tab t.text with
      | error e => rw [hr] at h; cases h
      | ok g => rw [hr] at h; rw [resolveBase_ok tab _ g hr]; exact h
    | context => exact h
    | value => exact h
    | name => exact h
    | python => exact h

theorem shuntStepBase_err (tab : OpTable) (s : ShState) (t : Tok) (e : ParseErr)
    (h : shuntStepBase tab s t = .error e) : IsSyntax e := by
  unfold shuntStepBase at h
  split at h
  · split at h
    · cases h
    · split at h
      · cases h
      · split at h
        · exact closeCtx_err _ _ _ _ h
        · split at h
          · exact closeCtx_err _ _ _ _ h
          · injection h with h; exact ⟨_, h.symm⟩
  · cases hr : resolveBase tab t.text with
    | error e' => rw [hr] at h; injection h with h; subst h; exact resolveBase_err tab _ _ hr
    | ok gs => rw [hr] at h; exact runCands_err gs s e h
  · cases h

theorem shuntRunBase_ok (tab : OpTable) (ts : List Tok) : ∀ (s s' : ShState),
    shuntRunBase tab ts s = .ok s' → shuntRun tab ts s = .ok s' := by
  induction ts with
  | nil => intro s s' h; simpa [shuntRunBase, shuntRun] using h
  | cons t ts ih =>
    intro s s' h
    unfold shuntRunBase at h
    unfold shuntRun
    cases hs : shuntStepBase tab s t with
    | error e => rw [hs] at h; cases h
    | ok s1 => rw [hs] at h; rw [shuntStepBase_ok tab s s1 t hs]; exact ih s1 s' h

theorem shuntRunBase_err (tab : OpTable) (ts : List Tok) : ∀ (s : ShState) (e : ParseErr),
    shuntRunBase tab ts s = .error e → IsSyntax e := by
  induction ts with
  | nil => intro s e h; simp [shuntRunBase] at h
  | cons t ts ih =>
    intro s e h
    unfold shuntRunBase at h
    cases hs : shuntStepBase tab s t with
    | error e' => rw [hs] at h; injection h with h; subst h; exact shuntStepBase_err tab s t _ hs
    | ok s' => rw [hs] at h; exact ih s' e h

/-- whatever the base-resolver shunting-yard accepts, the general one accepts with the same tree -/
theorem tokensToAstBase_ok (tab : OpTable) (ts : List Tok) (r : Option Ast)
    (h : tokensToAstBase tab ts = .ok r) : tokensToAst tab ts = .ok r := by
  unfold tokensToAstBase at h
  unfold tokensToAst
  cases hr : shuntRunBase tab ts {} with
  | error e => rw [hr] at h; cases h
  | ok s => rw [hr] at h; rw [shuntRunBase_ok tab ts {} s hr]; exact h

theorem tokensToAstBase_err (tab : OpTable) (ts : List Tok) (e : ParseErr)
    (h : tokensToAstBase tab ts = .error e) : IsSyntax e := by
  unfold tokensToAstBase at h
  cases hr : shuntRunBase tab ts {} with
  | error e' => rw [hr] at h; injection h with h; subst h; exact shuntRunBase_err tab ts _ _ hr
  | ok s =>
    rw [hr] at h
    simp only at h
    cases hf : finish s.out s.stack with
    | error e' => rw [hf] at h; injection h with h; subst h; exact finish_err _ _ _ hf
    | ok l =>
      rw [hf] at h
      match l, h with
      | [], h => cases h
      | [a], h => cases h
      | _ :: _ :: _, h => injection h with h; exact ⟨_, h.symm⟩

/-- `LinearConstraintParser.get_ast` fails only with the library's syntax error, for every string -/
theorem getAst_err (cs : List CharInfo) (e : ParseErr) (h : getAst cs = .error e) : IsSyntax e := by
  unfold getAst at h
  cases ht : tokenize cs with
  | error le => rw [ht] at h; injection h with h; exact ⟨_, h.symm⟩
  | ok ts => rw [ht] at h; exact tokensToAstBase_err _ ts e h

end FormulaicVerif.Proofs.C16Parse
