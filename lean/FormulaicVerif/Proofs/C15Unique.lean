import FormulaicVerif.Proofs.C15Loop
/-! Helper lemmas for C15: within one fragment every back-quoted name has exactly ONE alias (a second
occurrence of a name walks through the same refused candidates and stops at the alias it was given
the first time), and the alias does not depend on where else the name occurs. -/
namespace FormulaicVerif.Proofs.C15Unique
open FormulaicVerif FormulaicVerif.Model.PyAlias FormulaicVerif.Proofs.C15Alias FormulaicVerif.Proofs.C15Loop

theorem findFree_first (x : Ctx) (name pre base : List Char) : ∀ (fuel k : Nat) (a : List Char),
    findFree x name pre base fuel k = some a →
      ∃ j, k ≤ j ∧ a = candidate pre base j ∧ taken x name a = false ∧
        ∀ i, k ≤ i → i < j → taken x name (candidate pre base i) = true := by
  intro fuel
  induction fuel with
  | zero =>
    intro k a h
    unfold findFree at h
    split at h
    · simp at h
    · rename_i ht
      simp only [Option.some.injEq] at h
      exact ⟨k, Nat.le_refl _, h.symm, by rw [← h]; simpa using ht, fun i h1 h2 => by omega⟩
  | succ fuel ih =>
    intro k a h
    unfold findFree at h
    split at h
    · rename_i ht
      obtain ⟨j, hj, ha, hnt, hall⟩ := ih (k + 1) a h
      refine ⟨j, by omega, ha, hnt, ?_⟩
      intro i h1 h2
      by_cases hik : i = k
      · subst hik; exact ht
      · exact hall i (by omega) h2
    · rename_i ht
      simp only [Option.some.injEq] at h
      exact ⟨k, Nat.le_refl _, h.symm, by rw [← h]; simpa using ht, fun i h1 h2 => by omega⟩

/-- no name has two aliases -/
def Unique (al : Aliases) : Prop := ∀ k k' v, lookup al k = some v → lookup al k' = some v → k = k'

/-- every entry is the first candidate of its name that was not refused — and the earlier ones are still refused -/
def Settled (pre : List Char) (x : Ctx) : Prop :=
  ∀ k v, lookup x.al k = some v →
    ∃ j, k = candidate pre (baseName v) j ∧ taken x v k = false ∧
      ∀ i, i < j → taken x v (candidate pre (baseName v) i) = true

theorem taken_congr {x x' : Ctx} (hal : ∀ k, lookup x'.al k = lookup x.al k) (henv : x'.env = x.env)
    (hres : x'.reserved = x.reserved) (v c : List Char) : taken x' v c = taken x v c := by
  unfold taken getOr
  rw [hal, henv, hres]

/-- an alias is not refused to the name it belongs to -/
theorem taken_own (y : Ctx) (k v : List Char) (hl : lookup y.al k = some v) (hk : isKeyword k = false)
    (hr : y.reserved.contains k = false) : taken y v k = false := by
  unfold taken getOr
  simp only [hl, beq_self_eq_true, Bool.not_true, Option.isNone_some, Bool.and_false, Bool.or_self, hk, hr]

/-- adding the alias of a name that has none yet refuses nothing less for the other names -/
theorem taken_mono (x : Ctx) (new body : List Char) (env' : List (List Char))
    (hfresh : lookup x.al new = none) (hnt : taken x body new = false)
    (henv : ∀ c, x.env.contains c = true → env'.contains c = true)
    (v c : List Char) (h : taken x v c = true) :
    taken { al := assign x.al new body, env := env', reserved := x.reserved } v c = true := by
  have hne : x.env.contains new = false := by
    cases he : x.env.contains new with
    | false => rfl
    | true =>
      have : taken x body new = true := by
        unfold taken
        simp only [hfresh, Option.isNone_none, Bool.and_true, he, Bool.or_true, Bool.true_or]
      rw [this] at hnt; exact absurd hnt (by simp)
  unfold taken getOr at h ⊢
  simp only [Bool.or_eq_true, Bool.not_eq_true', Bool.and_eq_true] at h ⊢
  rcases h with ((h | h) | h) | h
  · -- c is the alias of another name
    have hc : c ≠ new := by
      intro e; subst e; rw [hfresh] at h; simp at h
    rw [lookup_assign_other _ _ _ _ hc]
    exact .inl (.inl (.inl h))
  · have hc : c ≠ new := by
      intro e; subst e; rw [hne] at h; simp at h
    rw [lookup_assign_other _ _ _ _ hc]
    exact .inl (.inl (.inr ⟨henv c h.1, h.2⟩))
  · exact .inl (.inr h)
  · exact .inr h

theorem lookup_assign_same (al : Aliases) (k v : List Char) (h : lookup al k = some v) :
    ∀ k', lookup (assign al k v) k' = lookup al k' := by
  intro k'
  by_cases hk : k' = k
  · subst hk; rw [lookup_assign_self, h]
  · exact lookup_assign_other al k v k' hk

/-- one step of the loop over the parts keeps both invariants (template with a non-empty prefix) -/
theorem step_unique (cfg : Cfg) (res : List (List Char)) (s s' : State) (p : Part)
    (hnp : cfg.pre ≠ []) (hu : Unique s.al) (hs : Settled cfg.pre { al := s.al, env := s.env, reserved := res })
    (h : step cfg res s p = some s') :
    Unique s'.al ∧ Settled cfg.pre { al := s'.al, env := s'.env, reserved := res } := by
  cases p with
  | text t => simp only [step, Option.some.injEq] at h; rw [← h]; exact ⟨hu, hs⟩
  | lit t => simp only [step, Option.some.injEq] at h; rw [← h]; exact ⟨hu, hs⟩
  | name body =>
    simp only [step] at h
    cases hsn : sanitizeName cfg { al := s.al, env := s.env, reserved := res } body with
    | none => simp [hsn] at h
    | some q =>
      obtain ⟨new, copy⟩ := q
      simp only [hsn, Option.some.injEq] at h
      rw [← h]
      simp only
      -- the name went through the suffix loop
      unfold sanitizeName at hsn
      have hpe : cfg.pre.isEmpty = false := by simpa using hnp
      simp only [hpe, Bool.false_and, Bool.false_eq_true, if_false] at hsn
      cases hf : findFree { al := s.al, env := s.env, reserved := res } body cfg.pre (baseName body)
          (loopBound { al := s.al, env := s.env, reserved := res }) 0 with
      | none => simp [hf] at hsn
      | some n =>
        simp only [hf, Option.some.injEq, Prod.mk.injEq] at hsn
        obtain ⟨rfl, _⟩ := hsn
        obtain ⟨j, _, hj, hnt, hall⟩ := findFree_first _ body cfg.pre (baseName body) _ 0 n hf
        have hget : getOr s.al n body = true := (taken_false hnt).1
        generalize henv' : (if (copy && !s.env.contains n) = true then s.env ++ [n] else s.env) = env'
        have henvsub : ∀ c, s.env.contains c = true → env'.contains c = true := by
          intro c hc
          rw [← henv']
          split
          · simp only [List.contains_eq_mem, List.mem_append, decide_eq_true_eq] at hc ⊢; exact .inl hc
          · exact hc
        have henvnew : ∀ c, env'.contains c = true → s.env.contains c = true ∨ c = n := by
          intro c hc
          rw [← henv'] at hc
          split at hc
          · simp only [List.contains_eq_mem, List.mem_append, List.mem_singleton, decide_eq_true_eq] at hc ⊢
            exact hc
          · exact .inl hc
        cases hl : lookup s.al n with
        | some w =>
          -- the name has this alias already: nothing changes
          have hw : w = body := by unfold getOr at hget; rw [hl] at hget; simpa using hget
          subst hw
          have hsame := lookup_assign_same s.al n w hl
          refine ⟨fun k k' v h1 h2 => hu k k' v (by rwa [hsame] at h1) (by rwa [hsame] at h2), ?_⟩
          intro k v hk
          simp only at hk
          rw [hsame] at hk
          obtain ⟨jv, hjv, hntv, hallv⟩ := hs k v hk
          have htk : ∀ c, taken { al := assign s.al n w, env := env', reserved := res } v c =
              taken { al := s.al, env := s.env, reserved := res } v c := by
            intro c
            unfold taken getOr
            simp only [hsame]
            cases hc1 : s.env.contains c with
            | true => rw [henvsub c hc1]
            | false =>
              cases hc2 : env'.contains c with
              | false => rfl
              | true =>
                rcases henvnew c hc2 with h' | h'
                · exact absurd h' (by rw [hc1]; simp)
                · subst h'; simp [hl]
          exact ⟨jv, hjv, by rw [htk]; exact hntv, fun i hi => by rw [htk]; exact hallv i hi⟩
        | none =>
          -- a new alias
          have hnotval : ∀ k, lookup s.al k ≠ some body := by
            intro k hk
            -- the name would have stopped at its old alias, which is an existing key
            obtain ⟨jv, hjv, hntv, hallv⟩ := hs k body hk
            have : jv = j := by
              rcases Nat.lt_trichotomy jv j with hlt | heq | hgt
              · have := hall jv (Nat.zero_le _) hlt
                rw [← hjv] at this
                rw [this] at hntv
                exact absurd hntv (by simp)
              · exact heq
              · have := hallv j hgt
                rw [← hj] at this
                rw [this] at hnt
                exact absurd hnt (by simp)
            subst this
            rw [← hj] at hjv
            subst hjv
            rw [hl] at hk
            exact absurd hk (by simp)
          refine ⟨?_, ?_⟩
          · intro k k' v h1 h2
            by_cases hk : k = n
            · subst hk
              rw [lookup_assign_self] at h1
              by_cases hk' : k' = k
              · exact hk'.symm
              · rw [lookup_assign_other _ _ _ _ hk'] at h2
                simp only [Option.some.injEq] at h1
                subst h1
                exact absurd h2 (hnotval k')
            · rw [lookup_assign_other _ _ _ _ hk] at h1
              by_cases hk' : k' = n
              · subst hk'
                rw [lookup_assign_self] at h2
                simp only [Option.some.injEq] at h2
                subst h2
                exact absurd h1 (hnotval k)
              · rw [lookup_assign_other _ _ _ _ hk'] at h2
                exact hu k k' v h1 h2
          · intro k v hk
            simp only at hk
            have hmono := taken_mono { al := s.al, env := s.env, reserved := res } n body env' hl hnt henvsub
            by_cases hkn : k = n
            · subst hkn
              rw [lookup_assign_self] at hk
              simp only [Option.some.injEq] at hk
              subst hk
              refine ⟨j, hj, ?_, fun i hi => hmono _ _ (hall i (Nat.zero_le _) hi)⟩
              exact taken_own _ _ _ (lookup_assign_self _ _ _) (taken_false hnt).2.1 (taken_false hnt).2.2
            · rw [lookup_assign_other _ _ _ _ hkn] at hk
              obtain ⟨jv, hjv, hntv, hallv⟩ := hs k v hk
              refine ⟨jv, hjv, ?_, fun i hi => hmono _ _ (hallv i hi)⟩
              exact taken_own _ _ _ (by rw [lookup_assign_other _ _ _ _ hkn]; exact hk) (taken_false hntv).2.1
                (taken_false hntv).2.2

theorem run_unique (cfg : Cfg) (res : List (List Char)) (hnp : cfg.pre ≠ []) : ∀ (ps : List Part) (s s' : State),
    Unique s.al → Settled cfg.pre { al := s.al, env := s.env, reserved := res } → run cfg res ps s = some s' →
      Unique s'.al := by
  intro ps
  induction ps with
  | nil => intro s s' hu _ h; simp only [run, Option.some.injEq] at h; subst h; exact hu
  | cons p ps ih =>
    intro s s' hu hs h
    simp only [run] at h
    cases h1 : step cfg res s p with
    | none => simp [h1] at h
    | some s1 =>
      simp only [h1] at h
      obtain ⟨hu1, hs1⟩ := step_unique cfg res s s1 p hnp hu hs h1
      exact ih s1 s' hu1 hs1 h

/-- **One alias per name.** With the template of `sanitize_python_code`, in the alias table of every
fragment no name has two aliases (and, the table being a dictionary, no alias has two names). -/
theorem sanitizeNames_unique (cfg : Cfg) (isSpace : Char → Bool) (env : List (List Char)) (expr s1 : List Char)
    (al : Aliases) (added : List (List Char × List Char)) (hnp : cfg.pre ≠ [])
    (h : sanitizeNames cfg isSpace env expr = some (s1, al, added)) : Unique al := by
  unfold sanitizeNames at h
  simp only at h
  cases hr : run cfg (reservedWords (split expr)) (split expr) { env := env } with
  | none => simp [hr] at h
  | some s =>
    simp only [hr, Option.some.injEq, Prod.mk.injEq] at h
    obtain ⟨_, h2, _⟩ := h
    rw [← h2]
    refine run_unique cfg _ hnp (split expr) _ s ?_ ?_ hr
    · intro k k' v h1; simp [lookup] at h1
    · intro k v h1; simp [lookup] at h1

end FormulaicVerif.Proofs.C15Unique
