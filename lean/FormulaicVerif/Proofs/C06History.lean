import FormulaicVerif.Proofs.C06
import FormulaicVerif.Model.NullsHistory
/-! Helper lemmas for the history theorems of C06: with the caches emptied at the start of a call,
`getModelMatrixOn` is `Model.Nulls.getModelMatrix` (the pooling of factors inside a call is
unobservable). -/
namespace FormulaicVerif.Proofs.C06H
open FormulaicVerif.Model.Nulls FormulaicVerif.Model.NullsHist FormulaicVerif.Spec.Nulls
open FormulaicVerif.Proofs.C06

variable {ρ L : Type}

theorem lookup_append {α : Type} (k : String) (xs : List (String × α)) (k' : String) (a : α) :
    lookup k (xs ++ [(k', a)]) =
      match lookup k xs with
      | some b => some b
      | none => if k' = k then some a else none := by
  induction xs with
  | nil => simp [lookup]
  | cons x r ih =>
    obtain ⟨kx, ax⟩ := x
    simp only [List.cons_append, lookup]
    split
    · rfl
    · exact ih

/-! ### step 1 -/

/-- the null check of this factor would change nothing any more -/
def Checked (v : Variant) (pol : Policy) (f : Factor ρ) (d : DropSet) : Prop :=
  checkFactor v pol f d = .ok d

theorem checkFactor_of_checked (v : Variant) (pol : Policy) (f : Factor ρ) (d : DropSet)
    (h : Checked v pol f d) : checkFactor v pol f d = .ok d := h

theorem checked_after (v : Variant) (pol : Policy) (f : Factor ρ) (d d' : DropSet)
    (h : checkFactor v pol f d = .ok d') : Checked v pol f d' := by
  unfold Checked
  cases pol with
  | ignore => rfl
  | raise =>
    simp only [checkFactor] at h ⊢
    cases hn : findNulls v f.value with
    | error e => simp [hn] at h
    | ok ns =>
      simp only [hn, checkForNulls] at h ⊢
      by_cases he : ns.isEmpty = true
      · simp [he]
      · rw [if_neg he] at h
        cases h
  | drop =>
    simp only [checkFactor] at h ⊢
    cases hn : findNulls v f.value with
    | error e => simp [hn] at h
    | ok ns =>
      simp only [hn, checkForNulls, Except.ok.injEq] at h ⊢
      subst h
      exact setUpdate_of_subset ns _ (fun i hi => (mem_setUpdate ns d i).2 (Or.inr hi))

theorem checked_mono (v : Variant) (pol : Policy) (f g : Factor ρ) (d d' : DropSet)
    (hx : Checked v pol f d) (h : checkFactor v pol g d = .ok d') : Checked v pol f d' := by
  unfold Checked at hx ⊢
  cases pol with
  | ignore => rfl
  | raise =>
    have hd : d' = d := by
      simp only [checkFactor] at h
      cases hn : findNulls v g.value with
      | error e => simp [hn] at h
      | ok ns =>
        simp only [hn, checkForNulls] at h
        by_cases he : ns.isEmpty = true
        · rw [if_pos he] at h
          cases h
          rfl
        · rw [if_neg he] at h
          cases h
    rw [hd]
    exact hx
  | drop =>
    simp only [checkFactor] at h hx ⊢
    cases hn : findNulls v g.value with
    | error e => simp [hn] at h
    | ok ns =>
      cases hm : findNulls v f.value with
      | error e => simp [hm] at hx
      | ok ms =>
        simp only [hn, checkForNulls, Except.ok.injEq] at h
        simp only [hm, checkForNulls, Except.ok.injEq] at hx ⊢
        subst h
        apply setUpdate_of_subset
        intro i hi
        rw [mem_setUpdate]
        exact Or.inl (subset_of_setUpdate_eq ms d hx i hi)

/-- what is in `factor_cache`: factors of this call, already null-checked -/
def InvF (v : Variant) (pol : Policy) (all : List (KFactor ρ)) (fc : List (String × Factor ρ))
    (d : DropSet) : Prop :=
  ∀ k f, lookup k fc = some f → (∃ kf ∈ all, kf.key = k ∧ kf.fac = f) ∧ Checked v pol f d

theorem evaluateAll_spec (v : Variant) (pol : Policy) (all : List (KFactor ρ))
    (hcons : ∀ a ∈ all, ∀ b ∈ all, a.key = b.key → a.fac = b.fac) :
    ∀ (fs : List (KFactor ρ)) (fc : List (String × Factor ρ)) (d : DropSet),
      (∀ kf ∈ fs, kf ∈ all) → InvF v pol all fc d →
      (evaluateAll v pol fs fc d).2 = evalFactors v pol (fs.map (·.fac)) d ∧
      ∀ d1, (evaluateAll v pol fs fc d).2 = .ok d1 →
        InvF v pol all (evaluateAll v pol fs fc d).1 d1 ∧
        (∀ k f, lookup k fc = some f → lookup k (evaluateAll v pol fs fc d).1 = some f) ∧
        ∀ kf ∈ fs, lookup kf.key (evaluateAll v pol fs fc d).1 = some kf.fac := by
  intro fs
  induction fs with
  | nil =>
    intro fc d _ hinv
    refine ⟨rfl, ?_⟩
    intro d1 h1
    simp only [evaluateAll, Except.ok.injEq] at h1
    subst h1
    exact ⟨hinv, fun _ _ h => h, fun _ h => absurd h (by simp)⟩
  | cons kf r ih =>
    intro fc d hsub hinv
    have hkf : kf ∈ all := hsub kf (by simp)
    have hr : ∀ x ∈ r, x ∈ all := fun x hx => hsub x (by simp [hx])
    cases hl : lookup kf.key fc with
    | some f =>
      obtain ⟨⟨kf', hkf', hkey, hfac⟩, hchk⟩ := hinv kf.key f hl
      have hf : kf.fac = f := by rw [← hfac]; exact hcons kf hkf kf' hkf' hkey.symm
      have hstep : evaluateAll v pol (kf :: r) fc d = evaluateAll v pol r fc d := by
        simp only [evaluateAll, evaluateFactor, hl]
      have hev : evalFactors v pol ((kf :: r).map (·.fac)) d = evalFactors v pol (r.map (·.fac)) d := by
        simp only [List.map_cons, evalFactors, hf, checkFactor_of_checked v pol f d hchk]
      rw [hstep, hev]
      obtain ⟨h1, h2⟩ := ih fc d hr hinv
      refine ⟨h1, ?_⟩
      intro d1 hd1
      obtain ⟨ha, hb, hc⟩ := h2 d1 hd1
      refine ⟨ha, hb, ?_⟩
      intro x hx
      rcases List.mem_cons.mp hx with rfl | hx
      · rw [hf]; exact hb _ _ hl
      · exact hc x hx
    | none =>
      cases hc : checkFactor v pol kf.fac d with
      | error e =>
        have hstep : evaluateAll v pol (kf :: r) fc d = (fc, .error e) := by
          simp only [evaluateAll, evaluateFactor, hl, hc]
        have hev : evalFactors v pol ((kf :: r).map (·.fac)) d = .error e := by
          simp only [List.map_cons, evalFactors, hc]
        rw [hstep, hev]
        refine ⟨rfl, ?_⟩
        intro d1 hd1
        cases hd1
      | ok d' =>
        have hstep : evaluateAll v pol (kf :: r) fc d =
            evaluateAll v pol r (fc ++ [(kf.key, kf.fac)]) d' := by
          simp only [evaluateAll, evaluateFactor, hl, hc]
        have hev : evalFactors v pol ((kf :: r).map (·.fac)) d = evalFactors v pol (r.map (·.fac)) d' := by
          simp only [List.map_cons, evalFactors, hc]
        have hinv' : InvF v pol all (fc ++ [(kf.key, kf.fac)]) d' := by
          intro k f hk
          rw [lookup_append] at hk
          cases hl2 : lookup k fc with
          | some b =>
            rw [hl2] at hk
            simp only [Option.some.injEq] at hk
            subst hk
            obtain ⟨hex, hchk⟩ := hinv k b hl2
            exact ⟨hex, checked_mono v pol _ _ d d' hchk hc⟩
          | none =>
            rw [hl2] at hk
            simp only at hk
            by_cases hkk : kf.key = k
            · rw [if_pos hkk] at hk
              simp only [Option.some.injEq] at hk
              subst hk
              exact ⟨⟨kf, hkf, hkk, rfl⟩, checked_after v pol _ d d' hc⟩
            · rw [if_neg hkk] at hk
              cases hk
        rw [hstep, hev]
        obtain ⟨h1, h2⟩ := ih (fc ++ [(kf.key, kf.fac)]) d' hr hinv'
        refine ⟨h1, ?_⟩
        intro d1 hd1
        obtain ⟨ha, hb, hcc⟩ := h2 d1 hd1
        have hnew : lookup kf.key (fc ++ [(kf.key, kf.fac)]) = some kf.fac := by
          rw [lookup_append, hl]
          simp
        refine ⟨ha, ?_, ?_⟩
        · intro k f hk
          apply hb
          rw [lookup_append, hk]
        · intro x hx
          rcases List.mem_cons.mp hx with rfl | hx
          · exact hb _ _ hnew
          · exact hcc x hx

/-! ### step 3 -/

theorem liftE_ok {α : Type} (a : α) : liftE (Except.ok a : Except Err α) = .ok a := rfl
theorem liftE_error {α : Type} (e : Err) : liftE (Except.error e : Except Err α) = .error (.rows e) := rfl

theorem mapS_spec {σ α β γ : Type} (f : α → σ → σ × Except HErr β) (g : γ → Except Err β)
    (proj : α → γ) (Inv : σ → Prop) (xs : List α)
    (h : ∀ a ∈ xs, ∀ s, Inv s → (f a s).2 = liftE (g (proj a)) ∧ Inv (f a s).1) :
    ∀ s, Inv s → (mapS f xs s).2 = liftE (mapE g (xs.map proj)) ∧ Inv (mapS f xs s).1 := by
  induction xs with
  | nil =>
    intro s hs
    exact ⟨rfl, hs⟩
  | cons a r ih =>
    intro s hs
    obtain ⟨h1, h2⟩ := h a (by simp) s hs
    have ih' := ih (fun x hx => h x (by simp [hx]))
    rcases hfa : f a s with ⟨s', res⟩
    rw [hfa] at h1 h2
    simp only at h1 h2
    cases hg : g (proj a) with
    | error e =>
      rw [hg, liftE_error] at h1
      subst h1
      simp only [mapS, hfa, List.map_cons, mapE, hg, liftE_error]
      exact ⟨trivial, h2⟩
    | ok b =>
      rw [hg, liftE_ok] at h1
      subst h1
      obtain ⟨i1, i2⟩ := ih' s' h2
      rcases hrest : mapS f r s' with ⟨s'', rr⟩
      rw [hrest] at i1 i2
      simp only at i1 i2
      cases hm : mapE g (r.map proj) with
      | error e =>
        rw [hm, liftE_error] at i1
        subst i1
        simp only [mapS, hfa, hrest, List.map_cons, mapE, hg, hm, liftE_error]
        exact ⟨trivial, i2⟩
      | ok bs =>
        rw [hm, liftE_ok] at i1
        subst i1
        simp only [mapS, hfa, hrest, List.map_cons, mapE, hg, hm, liftE_ok]
        exact ⟨trivial, i2⟩

/-- what is in the two caches during step 3 of a call with drop rows `d` -/
def InvC [DecidableEq L] (v : Variant) (labels : List L) (n : Nat) (so : Bool) (d : List Nat)
    (all : List (KFactor ρ)) (c : Caches ρ) : Prop :=
  (∀ kf ∈ all, lookup kf.key c.factorCache = some kf.fac) ∧
  ∀ k col, lookup k c.encodedCache = some col →
    ∀ kf ∈ all, kf.key = k → encodeFactor v labels n so kf.fac d = .ok col

theorem encodeCached_spec [DecidableEq L] (v : Variant) (labels : List L) (n : Nat) (so : Bool)
    (d : List Nat)
    (all : List (KFactor ρ)) (kf : KFactor ρ) (hkf : kf ∈ all) (c : Caches ρ)
    (hinv : InvC v labels n so d all c) :
    (encodeCached v labels n so d kf c).2 = liftE (encodeFactor v labels n so kf.fac d) ∧
    InvC v labels n so d all (encodeCached v labels n so d kf c).1 := by
  obtain ⟨hres, henc⟩ := hinv
  have hl := hres kf hkf
  cases hl2 : lookup kf.key c.encodedCache with
  | some col =>
    have := henc kf.key col hl2 kf hkf rfl
    simp only [encodeCached, hl, hl2, this, liftE_ok]
    exact ⟨trivial, hres, henc⟩
  | none =>
    cases he : encodeFactor v labels n so kf.fac d with
    | error e =>
      simp only [encodeCached, hl, hl2, he, liftE_error]
      exact ⟨trivial, hres, henc⟩
    | ok col =>
      simp only [encodeCached, hl, hl2, he, liftE_ok]
      refine ⟨trivial, hres, ?_⟩
      intro k col' hk x hx hxk
      rw [lookup_append] at hk
      cases hl3 : lookup k c.encodedCache with
      | some b =>
        rw [hl3] at hk
        simp only [Option.some.injEq] at hk
        subst hk
        exact henc k b hl3 x hx hxk
      | none =>
        rw [hl3] at hk
        simp only at hk
        by_cases hkk : kf.key = k
        · rw [if_pos hkk] at hk
          simp only [Option.some.injEq] at hk
          subst hk
          have hfx : x.fac = kf.fac := by
            have h1 := hres x hx
            rw [hxk, ← hkk, hl] at h1
            simp only [Option.some.injEq] at h1
            exact h1.symm
          rw [hfx]
          exact he
        · rw [if_neg hkk] at hk
          cases hk

theorem buildModelMatrix_eq_finish [DecidableEq L] (v : Variant) (labels : List L) (n : Nat)
    (o : Output) (d : List Nat) (p : Part ρ) :
    buildModelMatrix v labels n o d p =
      match mapE (fun f => encodeFactor v labels n (o == .sparse) f d) p.factors with
      | .error e => .error e
      | .ok cols => finishMatrix v labels n o d p.mat p.intercept cols := by
  unfold buildModelMatrix finishMatrix
  cases mapE (fun f => encodeFactor v labels n (o == .sparse) f d) p.factors <;> rfl

theorem buildCached_spec [DecidableEq L] (v : Variant) (labels : List L) (n : Nat) (o : Output)
    (d : List Nat) (all : List (KFactor ρ)) (p : KPart ρ) (hp : ∀ kf ∈ p.factors, kf ∈ all)
    (c : Caches ρ) (hinv : InvC v labels n (o == .sparse) d all c) :
    (buildCached v labels n o d p c).2 = liftE (buildModelMatrix v labels n o d p.part) ∧
    InvC v labels n (o == .sparse) d all (buildCached v labels n o d p c).1 := by
  obtain ⟨h1, h2⟩ := mapS_spec (encodeCached v labels n (o == .sparse) d) (fun f => encodeFactor v labels n (o == .sparse) f d)
    (·.fac) (InvC v labels n (o == .sparse) d all) p.factors
    (fun a ha s hs => encodeCached_spec v labels n (o == .sparse) d all a (hp a ha) s hs) c hinv
  rw [buildModelMatrix_eq_finish]
  rcases hm : mapS (encodeCached v labels n (o == .sparse) d) p.factors c with ⟨c', res⟩
  rw [hm] at h1 h2
  simp only at h1 h2
  simp only [KPart.part]
  cases hme : mapE (fun f => encodeFactor v labels n (o == .sparse) f d) (p.factors.map (·.fac)) with
  | error e =>
    rw [hme, liftE_error] at h1
    subst h1
    simp only [buildCached, hm, liftE_error]
    exact ⟨trivial, h2⟩
  | ok cols =>
    rw [hme, liftE_ok] at h1
    subst h1
    simp only [buildCached, hm]
    exact ⟨trivial, h2⟩

theorem flatMap_part (parts : List (KPart ρ)) :
    (parts.map KPart.part).flatMap (·.factors) = (parts.flatMap (·.factors)).map (·.fac) := by
  induction parts with
  | nil => rfl
  | cons p r ih => simp only [List.map_cons, List.flatMap_cons, List.map_append, ih, KPart.part]

theorem freshCall_eq [DecidableEq L] (v : Variant) (labels : List L) (n : Nat) (k : Call ρ) :
    freshCall v labels n k =
      match getModelMatrix v labels n k.pol k.out (k.parts.map KPart.part) k.dropIn with
      | .error e => .error e
      | .ok (ms, d1) => .ok ⟨ms, k.dropIn.map (fun _ => d1)⟩ := by
  unfold freshCall call route
  simp only
  cases getModelMatrix v labels n k.pol k.out (k.parts.map KPart.part) k.dropIn with
  | error e => rfl
  | ok r =>
    obtain ⟨ms, d1⟩ := r
    cases k.dropIn <;> rfl

/-- with the caches emptied first, a call on a used materializer object is the call on a new one -/
theorem getModelMatrixOn_reset [DecidableEq L] (v : Variant) (labels : List L) (n : Nat)
    (k : Call ρ) (c0 : Caches ρ) (hk : KeysConsistent k.parts) :
    (getModelMatrixOn true v labels n k c0).2 = liftE (freshCall v labels n k) := by
  rw [freshCall_eq]
  unfold getModelMatrix
  rw [flatMap_part]
  have hA := evaluateAll_spec v k.pol (k.parts.flatMap (fun p : KPart ρ => p.factors)) hk
    (k.parts.flatMap (fun p : KPart ρ => p.factors)) [] (initialSet k.dropIn) (fun _ h => h)
    (fun k f h => by simp [lookup] at h)
  obtain ⟨hA1, hA2⟩ := hA
  rcases hev : evaluateAll v k.pol (k.parts.flatMap (·.factors)) [] (initialSet k.dropIn) with ⟨fc, res⟩
  rw [hev] at hA1 hA2
  simp only at hA1 hA2
  cases hE : evalFactors v k.pol ((k.parts.flatMap (·.factors)).map (·.fac)) (initialSet k.dropIn) with
  | error e =>
    rw [hE] at hA1
    subst hA1
    simp only [getModelMatrixOn, if_true, Caches.empty, hev, liftE_error]
  | ok d1 =>
    rw [hE] at hA1
    subst hA1
    obtain ⟨_, _, hres⟩ := hA2 d1 rfl
    have hinv : InvC v labels n (k.out == .sparse) (sorted d1) (k.parts.flatMap (·.factors))
        ({ factorCache := fc, encodedCache := [] } : Caches ρ) :=
      ⟨hres, fun k col h => by simp [lookup] at h⟩
    obtain ⟨hB1, _⟩ := mapS_spec (buildCached v labels n k.out (sorted d1))
      (buildModelMatrix v labels n k.out (sorted d1)) KPart.part
      (InvC v labels n (k.out == .sparse) (sorted d1) (k.parts.flatMap (·.factors))) k.parts
      (fun p hp s hs => buildCached_spec v labels n k.out (sorted d1) _ p
        (fun kf hkf => List.mem_flatMap.mpr ⟨p, hp, hkf⟩) s hs) _ hinv
    rcases hm : mapS (buildCached v labels n k.out (sorted d1)) k.parts
      ({ factorCache := fc, encodedCache := [] } : Caches ρ) with ⟨c', rr⟩
    rw [hm] at hB1
    simp only at hB1
    cases hme : mapE (buildModelMatrix v labels n k.out (sorted d1)) (k.parts.map KPart.part) with
    | error e =>
      rw [hme, liftE_error] at hB1
      subst hB1
      simp only [getModelMatrixOn, if_true, Caches.empty, hev, hm, hme, liftE_error]
    | ok ms =>
      rw [hme, liftE_ok] at hB1
      subst hB1
      simp only [getModelMatrixOn, if_true, Caches.empty, hev, hm, hme, liftE_ok]

theorem runHistory_reset [DecidableEq L] (v : Variant) (labels : List L) (n : Nat)
    (calls : List (Call ρ)) (c0 : Caches ρ) (hk : ∀ k ∈ calls, KeysConsistent k.parts) :
    runHistory true v labels n calls c0 = calls.map (fun k => liftE (freshCall v labels n k)) := by
  induction calls generalizing c0 with
  | nil => rfl
  | cons k r ih =>
    have h1 := getModelMatrixOn_reset v labels n k c0 (hk k (by simp))
    rcases hg : getModelMatrixOn true v labels n k c0 with ⟨c', res⟩
    rw [hg] at h1
    simp only at h1
    subst h1
    simp only [runHistory, hg, List.map_cons]
    rw [ih c' (fun x hx => hk x (by simp [hx]))]

end FormulaicVerif.Proofs.C06H
