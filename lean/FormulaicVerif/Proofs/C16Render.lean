import FormulaicVerif.Proofs.C16Hom
import Mathlib.Data.Rat.Defs
import Mathlib.Tactic.Push
/-! Helper lemmas for C16, part 11: every row of numbers is the compilation of an explicit formula tree
(`Spec.Affine.rowNode`) whose leaves are column names and numeric literals (not obligations). -/
namespace FormulaicVerif.Proofs.C16
open FormulaicVerif.Model.Constraints FormulaicVerif.Spec.Affine

theorem digitsVal_eq (cs : List Char) : digitsVal cs = Nat.ofDigitChars 10 cs 0 := rfl

theorem digits_not_point {n : Nat} {c : Char} (h : c ∈ Nat.toDigits 10 n) : c ≠ '.' := by
  intro e; subst e
  have := Nat.isDigit_of_mem_toDigits (by decide) (by decide) h
  exact absurd this (by decide)

theorem takeWhile_append_of_all {α} (p : α → Bool) (l : List α) (x : α) (r : List α) (hl : ∀ a ∈ l, p a = true) (hx : p x = false) :
    (l ++ x :: r).takeWhile p = l ∧ (l ++ x :: r).dropWhile p = x :: r := by
  induction l with
  | nil => simp [List.takeWhile, List.dropWhile, hx]
  | cons a l ih =>
    have ha := hl a (by simp)
    have := ih (fun b hb => hl b (by simp [hb]))
    simp [List.takeWhile, List.dropWhile, ha, this]

theorem literalEval_numeral (n : Nat) : literalEval (numeral n) = .ok (n : Rat) := by
  have hne : Nat.toDigits 10 n ≠ [] := Nat.toDigits_ne_nil
  have hdig : ∀ c ∈ Nat.toDigits 10 n, c.isDigit = true := fun c hc => Nat.isDigit_of_mem_toDigits (by decide) (by decide) hc
  unfold literalEval numeral
  simp only [String.toList_ofList]
  obtain ⟨d, ds, hd⟩ := List.exists_cons_of_ne_nil hne
  have hd0 : d.isDigit = true := hdig d (by rw [hd]; simp)
  rw [hd]
  simp only [List.cons_append]
  have hq1 : (d == '"' || d == '\'') = false := by
    rcases Bool.eq_false_or_eq_true (d == '"' || d == '\'') with h | h
    · exfalso
      simp only [Bool.or_eq_true, beq_iff_eq] at h
      rcases h with rfl | rfl <;> exact absurd hd0 (by decide)
    · exact h
  simp only [hq1, Bool.false_eq_true, if_false]
  have hdp : d ≠ '.' := digits_not_point (n := n) (by rw [hd]; simp)
  have hcs : d :: (ds ++ ['.']) = Nat.toDigits 10 n ++ ['.'] := by rw [hd]; rfl
  have h3 : ¬ (d :: (ds ++ ['.']) = ['.', '.', '.']) := by
    intro e; simp only [List.cons.injEq] at e; exact hdp e.1
  simp only [h3, if_false]
  rw [hcs]
  have hall : (Nat.toDigits 10 n ++ ['.']).all isNumChar = true := by
    simp only [List.all_append, List.all_cons, List.all_nil, Bool.and_true, Bool.and_eq_true, List.all_eq_true]
    refine ⟨fun c hc => by simp [isNumChar, hdig c hc], by decide⟩
  simp only [hall, if_true]
  unfold parseNumber
  have hfil : (Nat.toDigits 10 n ++ ['.']).filter (· == '.') = ['.'] := by
    rw [List.filter_append]
    have : (Nat.toDigits 10 n).filter (· == '.') = [] := by
      rw [List.filter_eq_nil_iff]; intro c hc; simp [digits_not_point hc]
    rw [this]; rfl
  rw [hfil]
  obtain ⟨ht, hdw⟩ := takeWhile_append_of_all (· != '.') (Nat.toDigits 10 n) '.' []
    (fun c hc => by simp [digits_not_point hc]) (by decide)
  simp only [ht, hdw, List.drop_one, List.tail_cons, hne, decide_false, Bool.false_and, Bool.false_eq_true, if_false]
  simp [digitsVal_eq]

/-! ### rationals as trees -/

def ratExpr (q : Rat) : Expr :=
  if q.num < 0 then .neg (.div (.lit (q.num.natAbs : Nat)) (.lit (q.den : Nat)))
  else .div (.lit (q.num.natAbs : Nat)) (.lit (q.den : Nat))

theorem exprOf_natNode (n : Nat) : exprOf (natNode n) = some (.lit (n : Rat)) := by
  simp [natNode, exprOf, literalEval_numeral]

theorem exprOf_ratNode (q : Rat) : exprOf (ratNode q) = some (ratExpr q) := by
  unfold ratNode ratExpr
  split <;> simp [exprOf, exprOf_natNode]

theorem eval_ratExpr (env : String → Rat) (q : Rat) : eval env (ratExpr q) = some q := by
  have hden : ((q.den : Nat) : Rat) ≠ 0 := by exact_mod_cast q.den_nz
  unfold ratExpr
  split
  · rename_i hneg
    have hn : ((q.num.natAbs : Nat) : Rat) = -(q.num : Rat) := by
      rw [Nat.cast_natAbs, abs_of_neg hneg]; push_cast; ring
    simp only [eval, hden, if_false, Option.some.injEq, hn]
    rw [neg_div, neg_neg]; exact Rat.num_div_den q
  · rename_i hnn
    have hn : ((q.num.natAbs : Nat) : Rat) = (q.num : Rat) := by
      rw [Nat.cast_natAbs, abs_of_nonneg (not_lt.mp hnn)]
    simp only [eval, hden, if_false, Option.some.injEq, hn]
    exact Rat.num_div_den q

theorem ratNode_props (q : Rat) : nonlinear (ratNode q) = false ∧ mentionsVar (ratNode q) = false ∧ namesOf (ratNode q) = [] := by
  unfold ratNode
  split <;> simp [nonlinear, mentionsVar, namesOf, natNode]

/-! ### linear combinations as trees -/

def linExprR : List String → List Rat → Expr
  | n :: ns, c :: cs => .add (.mul (ratExpr c) (.var n)) (linExprR ns cs)
  | _, _ => .lit ((0 : Nat) : Rat)

theorem exprOf_linNode : ∀ (ns : List String) (cs : List Rat), exprOf (linNode ns cs) = some (linExprR ns cs)
  | [], _ => by simp [linNode, linExprR, exprOf_natNode]
  | _ :: _, [] => by simp [linNode, linExprR, exprOf_natNode]
  | n :: ns, c :: cs => by simp [linNode, linExprR, exprOf, exprOf_ratNode, exprOf_linNode ns cs]

theorem eval_linExprR (env : String → Rat) : ∀ (ns : List String) (cs : List Rat),
    eval env (linExprR ns cs) = eval env (linExpr ns cs)
  | [], _ => by simp [linExprR, linExpr, eval]
  | _ :: _, [] => by simp [linExprR, linExpr, eval]
  | n :: ns, c :: cs => by simp [linExprR, linExpr, eval, eval_ratExpr, eval_linExprR env ns cs]

theorem linNode_props : ∀ (ns : List String) (cs : List Rat),
    nonlinear (linNode ns cs) = false ∧ ∀ x ∈ namesOf (linNode ns cs), x ∈ ns
  | [], _ => by simp [linNode, nonlinear, namesOf, natNode]
  | _ :: _, [] => by simp [linNode, nonlinear, namesOf, natNode]
  | n :: ns, c :: cs => by
    obtain ⟨h1, h2⟩ := linNode_props ns cs
    obtain ⟨r1, r2, r3⟩ := ratNode_props c
    refine ⟨by simp [linNode, nonlinear, h1, r1, r2, mentionsVar], ?_⟩
    intro x hx
    simp only [linNode, namesOf, r3, List.nil_append, List.cons_append, List.mem_cons] at hx
    rcases hx with rfl | hx
    · simp
    · simp [h2 x hx]

theorem colIndexFrom_mem : ∀ (names : List String) (i : Nat) (e : String), e ∈ names → (colIndexFrom names i e).isSome = true := by
  intro names
  induction names with
  | nil => intro i e h; cases h
  | cons v vs ih =>
    intro i e h
    unfold colIndexFrom
    cases hr : colIndexFrom vs (i + 1) e with
    | some j => rfl
    | none =>
      rcases List.mem_cons.mp h with rfl | hm
      · simp
      · have := ih (i + 1) e hm; rw [hr] at this; cases this

/-- **every row of numbers is the compilation of a formula**: over distinct column names, the tree
`c₀ * n₀ + (c₁ * n₁ + …) = c` with the row's entries as numeric literals compiles to exactly that row -/
theorem getMatrix_rowNode {sh : Shuffle} (hsh : IsShuffle sh) {names : List String} (hnd : names.Nodup) {cs : List Rat}
    (hl : cs.length = names.length) (c : Rat) :
    getMatrix sh names (.ast (rowNode names cs c)) = .ok ([cs], [c]) := by
  have he : exprOf (rowNode names cs c) = some (.eqn (linExprR names cs) (ratExpr c)) := by
    simp [rowNode, exprOf, exprOf_linNode, exprOf_ratNode]
  have hev : ∀ x, eval (colValue names x) (.eqn (linExprR names cs) (ratExpr c)) = some (dot cs x - c) := by
    intro x
    have h := eval_linExpr_aux names hnd x 0 cs (by simpa using hl)
    simp only [List.drop_zero, Nat.add_zero] at h
    simp only [eval, eval_linExprR, h, eval_ratExpr]
  obtain ⟨l1, l2⟩ := linNode_props names cs
  obtain ⟨r1, r2, r3⟩ := ratNode_props c
  have hacc : acceptable names (rowNode names cs c) := by
    refine ⟨[_], exprOf_constraintsOf he, by simp [rowNode, nonlinear, l1, r1], ?_, ?_⟩
    · intro e hmem
      simp only [List.mem_singleton] at hmem; subst hmem
      have : eval env0 (.eqn (linExprR names cs) (ratExpr c)) = eval (colValue names (fun _ => 0)) (.eqn (linExprR names cs) (ratExpr c)) := by
        simp only [eval, eval_linExprR, eval_ratExpr]
        have h1 := eval_linExpr_aux names hnd (fun _ => 0) 0 cs (by simpa using hl)
        simp only [List.drop_zero] at h1
        rw [h1]
        -- at the all-zero assignment every column is zero, whatever the names
        have h2 : ∀ (ns : List String) (ds : List Rat), eval env0 (linExpr ns ds) = some 0 := by
          intro ns
          induction ns with
          | nil => intro ds; simp [linExpr, eval]
          | cons n ns ih =>
            intro ds
            cases ds with
            | nil => simp [linExpr, eval]
            | cons d ds => simp [linExpr, eval, ih ds, env0]
        rw [h2]
        simp [dot_zero]
      rw [this, hev]; rfl
    · intro x hx
      simp only [rowNode, namesOf, r3, List.append_nil] at hx
      exact colIndexFrom_mem names 0 x (l2 x hx)
  obtain ⟨A, b, h⟩ := (getMatrix_ok_iff hsh names _).mpr hacc
  obtain ⟨v, c', rfl, rfl, r0⟩ := getMatrix_scalar_row hsh names he h
  obtain ⟨rfl, rfl⟩ := row_unique (v' := cs) (c' := c) r0.1 hl (fun x => by
    have e0 := r0.2 x
    rw [hev x] at e0
    simp only [Option.some.injEq] at e0
    linarith)
  exact h

end FormulaicVerif.Proofs.C16
