import FormulaicVerif.Proofs.C04Laws
import FormulaicVerif.Proofs.C13Poly
import FormulaicVerif.Proofs.C13Aux
import FormulaicVerif.Proofs.C13Nan
namespace FormulaicVerif.Proofs.C04
open FormulaicVerif.Model FormulaicVerif.Model.Replay FormulaicVerif.Spec.Replay
open FormulaicVerif.Proofs.C13

section field
variable {α : Type} [Field α] [DecidableEq α]

/-- the training loop can only get past degree `d` when the squared norms below `d` are non-zero -/
theorem build_training_inv (x : List α) (d : ℕ) (L : List (List α))
    (h : Poly.build x (Poly.training x) d = .ok L) : ∀ k < d, nT x k ≠ 0 := by
  induction d generalizing L with
  | zero => intro k hk; omega
  | succ i ih =>
    cases hbi : Poly.build x (Poly.training x) i with
    | error e => simp [Poly.build, hbi] at h
    | ok Li =>
      have hlt := ih Li hbi
      have hb := build_eq x (Poly.training x) (aT x) (nT x) i
        (fun k hk => by
          simp only [← pf_eq_recPoly]
          exact training_alpha _ k _ (hlt k hk))
        (fun k hk => by
          simp only [← pf_eq_recPoly]
          exact ⟨training_norm _ _ _, training_norm _ _ _, hlt k (by omega)⟩)
      intro k hk
      by_cases hki : k < i
      · exact hlt k hki
      · have hke : k = i := by omega
        subst hke
        intro h0
        obtain ⟨tl, htl⟩ := colsRev_head x (aT x) (nT x) k
        rw [Poly.build, hb, htl] at h
        have : (Poly.training x).alpha k (x.map (recPoly (aT x) (nT x) k)) = .error .nonFinite := by
          simp only [Poly.training, sumSq_map, ← pf_eq_recPoly]
          have : ip x (pf x k) (pf x k) = 0 := h0
          simp [this]
        simp [this] at h

theorem normalise_inv (sqrt : α → α) (col : ℕ → List α) (n : ℕ → α) (ks : List ℕ) (q : List (List α))
    (h : Poly.normalise sqrt (ks.map col) (ks.map n) = .ok q) : ∀ k ∈ ks, sqrt (n k) ≠ 0 := by
  induction ks generalizing q with
  | nil => intro k hk; cases hk
  | cons k r ih =>
    simp only [List.map_cons, Poly.normalise] at h
    split at h
    · cases h
    · rename_i hk0
      cases hr : Poly.normalise sqrt (r.map col) (r.map n) with
      | error e => simp [hr] at h
      | ok q' =>
        intro k' hk'
        rcases List.mem_cons.1 hk' with rfl | hk'
        · exact hk0
        · exact ih q' hr k' hk'

/-- what a successful training call of the orthogonal branch implies about the sample -/
theorem poly_fit_inv (sqrt : α → α) (xs : List α) (d : ℕ) (out : List (List (Option α)))
    (st' : Poly.State α) (h : Poly.run sqrt (xs.map some) d false {} = .ok (out, st')) :
    (∀ k < d, nT xs k ≠ 0) ∧ (∀ k ≤ d, sqrt (nT xs k) ≠ 0) := by
  unfold Poly.run Poly.fit at h
  simp only [Bool.false_eq_true, if_false, reduceOption_map_some] at h
  cases hb : Poly.build xs (Poly.training xs) d with
  | error e => simp [hb] at h
  | ok L =>
    have hlt := build_training_inv xs d L hb
    refine ⟨hlt, ?_⟩
    have hb2 := build_eq xs (Poly.training xs) (aT xs) (nT xs) d
      (fun k hk => by
        simp only [← pf_eq_recPoly]
        exact training_alpha _ k _ (hlt k hk))
      (fun k hk => by
        simp only [← pf_eq_recPoly]
        exact ⟨training_norm _ _ _, training_norm _ _ _, hlt k (by omega)⟩)
    rw [hb2] at h
    have hno := norms_eq (Poly.training xs) (fun k => xs.map (recPoly (aT xs) (nT xs) k)) (nT xs) (d + 1) 0
      (fun k _ hk => by
        simp only [← pf_eq_recPoly]
        exact training_norm _ _ _)
    simp only [colsRev_reverse, hno] at h
    cases hz : Poly.normalise sqrt ((List.range' 0 (d + 1)).map (fun k => xs.map (recPoly (aT xs) (nT xs) k)))
        ((List.range' 0 (d + 1)).map (nT xs)) with
    | error e => simp [hz] at h
    | ok q =>
      intro k hk
      exact normalise_inv sqrt _ (nT xs) _ q hz k (by simp [List.mem_range'_1]; omega)

/-- A successful orthogonal fit records a state on which EVERY later call (any data) applies the
same `d` functions entry by entry and returns the state unchanged; the fitted output is of that
form too.  (Same content as `Props.C13.poly_applies_recorded`, with the hypotheses on the sample
derived from the success of the fit.) -/
theorem poly_reach (sqrt : α → α) (xs : List α) (d : ℕ) (out : List (List (Option α)))
    (st' : Poly.State α) (h : Poly.run sqrt (xs.map some) d false {} = .ok (out, st')) :
    ∃ f : ℕ → α → α,
      out = (List.range' 1 d).map (fun k => (xs.map some).map (Option.map (f k))) ∧
      ∀ ys : List α, Poly.run sqrt (ys.map some) d false st' =
        .ok ((List.range' 1 d).map (fun k => (ys.map some).map (Option.map (f k))), st') := by
  obtain ⟨hn, hs⟩ := poly_fit_inv sqrt xs d out st' h
  refine ⟨fun k t => pf xs k t / sqrt (nT xs k), ?_⟩
  have ht := run_eq sqrt (xs.map some) d {} (aT xs) (nT xs)
    (fun k hk => by
      simp only [← pf_eq_recPoly, reduceOption_map_some]
      exact training_alpha _ k _ (hn k hk))
    (fun k hk => by
      simp only [← pf_eq_recPoly, reduceOption_map_some]
      exact training_norm _ _ _)
    (fun k hk => hn k (by omega)) hs
  rw [ht] at h
  simp only [Except.ok.injEq, Prod.mk.injEq] at h
  obtain ⟨rfl, rfl⟩ := h
  refine ⟨by simp only [← pf_eq_recPoly], fun ys => ?_⟩
  have ha : ∀ k < d, ((List.range' 0 d).map (aT xs)).getD k 0 = aT xs k :=
    fun k hk => getD_map_range' _ d k hk
  have hnn : ∀ k < d + 1, ((List.range' 0 (d + 1)).map (nT xs)).getD k 0 = nT xs k :=
    fun k hk => getD_map_range' _ (d + 1) k hk
  rw [run_recorded_poly sqrt (ys.map some) d _ _ (by simp) (by simp)
    (fun k hk => by rw [hnn k (by omega)]; exact hn k (by omega))
    (fun k hk => by rw [hnn k (by omega)]; exact hs k hk)]
  congr 2
  apply List.map_congr_left
  intro k hk
  have hk' : k ≤ d := by have := List.mem_range'_1.mp hk; omega
  have e : recPoly (fun k => ((List.range' 0 d).map (aT xs)).getD k 0)
      (fun k => ((List.range' 0 (d + 1)).map (nT xs)).getD k 0) k = pf xs k := by
    rw [pf_eq_recPoly]
    exact recPoly_congr _ _ _ _ k (fun j hj => ha j (by omega)) (fun j hj => hnn j (by omega))
  rw [e, hnn k (by omega)]

end field
/-! ## `polyT` -/
theorem unOptAll_ok_iff {α : Type} (l : List (List (Option α))) (r : List (List α)) :
    unOptAll l = .ok r ↔ l = r.map (List.map some) := by
  induction l generalizing r with
  | nil =>
    constructor
    · intro h; cases h; rfl
    · intro h; cases r with
      | nil => rfl
      | cons a t => cases h
  | cons c l ih =>
    constructor
    · intro h
      simp only [unOptAll] at h
      cases hc : unOpt c with
      | error e => simp [hc] at h
      | ok v =>
        cases hr : unOptAll l with
        | error e => simp [hc, hr] at h
        | ok vs =>
          simp only [hc, hr, Except.ok.injEq] at h
          subst h
          simp [(unOpt_ok_iff _ _).1 hc, (ih vs).1 hr]
    · intro h
      cases r with
      | nil => cases h
      | cons a t =>
        simp only [List.map_cons, List.cons.injEq] at h
        simp only [unOptAll, (unOpt_ok_iff _ _).2 h.1, (ih t).2 h.2]

theorem heads_map_cons {α β : Type} (gs : List (α → β)) (y : α) (ys : List α) :
    heads (gs.map (fun g => g y :: ys.map g)) = some (gs.map (· y), gs.map (fun g => ys.map g)) := by
  induction gs with
  | nil => rfl
  | cons g gs ih =>
    show (match g y :: ys.map g, heads (gs.map (fun g => g y :: ys.map g)) with
      | v :: t, some (c, rest) => some (v :: c, t :: rest)
      | _, _ => none) = _
    rw [ih]
    rfl

theorem rowsOf_maps {α β : Type} (gs : List (α → β)) (ys : List α) :
    rowsOf ys.length (gs.map (fun g => ys.map g)) = .ok (ys.map (fun y => gs.map (· y))) := by
  induction ys with
  | nil => rfl
  | cons y ys ih =>
    simp only [List.length_cons, rowsOf, List.map_cons]
    rw [heads_map_cons]
    simp only [ih]

theorem polyCall_of_run (sqrt : Rat → Rat) (d : Nat) (raw : Bool) (st st' : Poly.State Rat)
    (gs : List (Rat → Rat)) (ys : List Rat)
    (h : Poly.run sqrt (ys.map some) d raw st = .ok (gs.map (fun g => (ys.map some).map (Option.map g)), st')) :
    polyCall sqrt d raw st ys = .ok (ys.map (fun y => gs.map (· y)), st') := by
  have hu : unOptAll (gs.map (fun g => (ys.map some).map (Option.map g))) = .ok (gs.map (fun g => ys.map g)) := by
    rw [unOptAll_ok_iff]
    simp [List.map_map, Function.comp_def]
  simp only [polyCall, polyCols, h, liftPoly, hu, rowsOf_maps]

theorem polyCall_inv {sqrt : Rat → Rat} {d : Nat} {raw : Bool} {st st' : Poly.State Rat} {xs : List Rat}
    {rows : List (List Rat)} (h : polyCall sqrt d raw st xs = .ok (rows, st')) :
    ∃ cols, Poly.run sqrt (xs.map some) d raw st = .ok (cols, st') := by
  simp only [polyCall, polyCols] at h
  cases hr : Poly.run sqrt (xs.map some) d raw st with
  | error e => simp [hr, liftPoly] at h
  | ok p =>
    obtain ⟨cols, s1⟩ := p
    simp only [hr, liftPoly] at h
    cases hu : unOptAll cols with
    | error e => simp [hu] at h
    | ok cs =>
      simp only [hu] at h
      cases hw : rowsOf xs.length cs with
      | error e => simp [hw] at h
      | ok rw' =>
        simp only [hw, Except.ok.injEq, Prod.mk.injEq] at h
        exact ⟨cols, by rw [h.2]⟩

/-- what a fit of `poly` records: the fitted rows and every later replay apply one fixed list of
functions to each input value -/
theorem poly_fit_spec (sqrt : Rat → Rat) (d : Nat) (raw : Bool) (xs : List Rat) (st : Poly.State Rat)
    (out : List (List Rat)) (h : (polyT sqrt d raw).fit xs = .ok (st, out)) :
    ∃ gs : List (Rat → Rat), out = xs.map (fun y => gs.map (· y)) ∧
      ∀ ys, polyCall sqrt d raw st ys = .ok (ys.map (fun y => gs.map (· y)), st) := by
  simp only [polyT] at h
  cases hc : polyCall sqrt d raw {} xs with
  | error e => simp [hc, Except.map] at h
  | ok p =>
    obtain ⟨rows, s1⟩ := p
    simp only [hc, Except.map, Except.ok.injEq, Prod.mk.injEq] at h
    obtain ⟨rfl, rfl⟩ := h
    obtain ⟨cols, hrun⟩ := polyCall_inv hc
    cases raw with
    | false =>
      obtain ⟨f, hout, hall⟩ := poly_reach sqrt xs d cols s1 hrun
      refine ⟨(List.range' 1 d).map f, ?_, fun ys => ?_⟩
      · subst hout
        have := polyCall_of_run sqrt d false {} s1 ((List.range' 1 d).map f) xs
          (by rw [hrun]; simp [List.map_map, Function.comp_def])
        rw [hc] at this
        simp only [Except.ok.injEq, Prod.mk.injEq] at this
        exact this.1
      · exact polyCall_of_run sqrt d false s1 s1 _ ys (by rw [hall ys]; simp [List.map_map, Function.comp_def])
    | true =>
      have key : ∀ (s : Poly.State Rat) (ys : List Rat) c s2, Poly.run sqrt (ys.map some) d true s = .ok (c, s2) →
          s2 = s ∧ c = ((List.range d).map (fun k => fun t : Rat => Poly.pow t (k + 1))).map
            (fun g => (ys.map some).map (Option.map g)) ∧ d ≠ 0 := by
        intro s ys c s2 hh
        simp only [Poly.run, if_true] at hh
        split at hh
        · cases hh
        · rename_i hd
          simp only [Except.ok.injEq, Prod.mk.injEq] at hh
          exact ⟨hh.2.symm, by rw [← hh.1]; simp [List.map_map, Function.comp_def], hd⟩
      obtain ⟨h1, h2, hd⟩ := key _ _ _ _ hrun
      subst h1
      refine ⟨(List.range d).map (fun k => fun t : Rat => Poly.pow t (k + 1)), ?_, fun ys => ?_⟩
      · have := polyCall_of_run sqrt d true {} {} _ xs (by rw [hrun, h2])
        rw [hc] at this
        simp only [Except.ok.injEq, Prod.mk.injEq] at this
        exact this.1
      · apply polyCall_of_run
        simp only [Poly.run, if_true, hd, if_false]
        simp [List.map_map, Function.comp_def]

theorem poly_lawful (sqrt : Rat → Rat) (d : Nat) (raw : Bool) :
    Lawful (polyT sqrt d raw) (Reachable (polyT sqrt d raw)) := by
  constructor
  · intro xs st out h; exact ⟨xs, out, h⟩
  · intro xs st out h
    obtain ⟨gs, ho, hall⟩ := poly_fit_spec sqrt d raw xs st out h
    show polyCall sqrt d raw st xs = _
    rw [hall xs, ho]
  · intro st xs out st' ⟨xs0, out0, h0⟩ h
    obtain ⟨gs, _, hall⟩ := poly_fit_spec sqrt d raw xs0 st out0 h0
    have h' : polyCall sqrt d raw st xs = .ok (out, st') := h
    rw [hall xs] at h'
    simp only [Except.ok.injEq, Prod.mk.injEq] at h'
    refine ⟨?_, h'.2.symm⟩
    rw [← h'.1]
    apply List.map_congr_left
    intro y _
    show _ = firstRow (polyCall sqrt d raw st [y])
    rw [hall [y]]
    rfl
  · intro st xs ys r ⟨xs0, out0, h0⟩ _ _
    obtain ⟨gs, _, hall⟩ := poly_fit_spec sqrt d raw xs0 st out0 h0
    exact ⟨_, hall ys⟩

end FormulaicVerif.Proofs.C04
