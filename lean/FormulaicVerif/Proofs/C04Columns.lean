import FormulaicVerif.Proofs.C04Factor
import FormulaicVerif.Proofs.C02Pipeline
namespace FormulaicVerif.Proofs.C04
open FormulaicVerif.Model FormulaicVerif.Model.Replay FormulaicVerif.Spec.Replay FormulaicVerif.Spec
open FormulaicVerif.Proofs.C02

def selItem (is : List Nat) (it : Item) : Item := { it with col := select is it.col }

theorem cache_get_select (is : List Nat) (c : Cache) (e : String) :
    (selCache is c).get e = (match c.get e with | .ok f => .ok (selFactor is f) | .error x => .error x) := by
  unfold Cache.get selCache
  rw [List.find?_map]
  have : ((fun f : EvaledFactor => f.expr == e) ∘ selFactor is) = (fun f => f.expr == e) := by
    funext f; rfl
  rw [this]
  cases c.find? (fun f => f.expr == e) <;> rfl

theorem delField_select (is : List Nat) (k : Field) (cols : List (Field × Col)) :
    delField k (selCols is cols) = (match delField k cols with | .ok r => .ok (selCols is r) | .error x => .error x) := by
  induction cols with
  | nil => rfl
  | cons a r ih =>
    obtain ⟨k', v⟩ := a
    simp only [selCols, List.map_cons, delField] at ih ⊢
    by_cases hk : k' = k
    · simp [hk]
    · simp only [hk, if_false, ih]
      cases delField k r <;> rfl

theorem itemSet_select (is : List Nat) (d : List Item) (e : Item) :
    itemSet (d.map (selItem is)) (selItem is e) = (itemSet d e).map (selItem is) := by
  induction d with
  | nil => rfl
  | cons x r ih =>
    simp only [List.map_cons, itemSet]
    by_cases h : x.name = e.name
    · have : (selItem is x).name = (selItem is e).name := h
      simp [h, this]
    · have : ¬ (selItem is x).name = (selItem is e).name := h
      simp [h, this, ih]

theorem flattenDict_select (is : List Nat) (expr : String) (r : Bool) (fmt : Fmt) (cols : List (Field × Col)) :
    flattenDict expr r fmt (selCols is cols) = (flattenDict expr r fmt cols).map (selItem is) := by
  unfold flattenDict
  generalize cols = l
  suffices ∀ acc : List Item,
      (selCols is l).foldl (fun d fc => itemSet d ⟨fmt.format expr fc.1.text, ⟨expr, some fc.1, r⟩, fc.2⟩) (acc.map (selItem is))
        = (l.foldl (fun d fc => itemSet d ⟨fmt.format expr fc.1.text, ⟨expr, some fc.1, r⟩, fc.2⟩) acc).map (selItem is) from this []
  induction l with
  | nil => intro acc; rfl
  | cons a t ih =>
    intro acc
    simp only [selCols, List.map_cons, List.foldl_cons] at ih ⊢
    rw [← ih]
    congr 1
    exact itemSet_select is acc ⟨fmt.format expr a.1.text, ⟨expr, some a.1, r⟩, a.2⟩

theorem encodeEvaledFactor_select (is : List Nat) (f : EvaledFactor) (r : Bool) :
    encodeEvaledFactor (selFactor is f) r =
      (match encodeEvaledFactor f r with | .ok items => .ok (items.map (selItem is)) | .error x => .error x) := by
  unfold encodeEvaledFactor
  have he : (if r = true then (selFactor is f).encReduced else (selFactor is f).encFull)
      = selEncoded is (if r = true then f.encReduced else f.encFull) := by
    cases r <;> rfl
  simp only [he]
  generalize (if r = true then f.encReduced else f.encFull) = e
  cases hv : e.val with
  | single c => simp only [selEncoded, hv, selVal]; rfl
  | dict cols =>
    simp only [selEncoded, hv, selVal]
    by_cases hsp : (e.spansIntercept && r) = true
    · simp only [hsp, if_true]
      cases e.dropField with
      | none => rfl
      | some k =>
        simp only [delField_select]
        cases delField k cols with
        | error x => rfl
        | ok cols' => simp only [flattenDict_select]; rfl
    · simp only [hsp, Bool.false_eq_true, if_false, flattenDict_select]; rfl

theorem encodeFactors_select (is : List Nat) (c : Cache) (sfs : List SF) :
    encodeFactors (selCache is c) sfs =
      (match encodeFactors c sfs with | .ok fss => .ok (fss.map (List.map (selItem is))) | .error x => .error x) := by
  induction sfs with
  | nil => rfl
  | cons sf r ih =>
    simp only [encodeFactors, cache_get_select]
    cases c.get sf.expr with
    | error x => rfl
    | ok f =>
      simp only [encodeEvaledFactor_select]
      cases encodeEvaledFactor f sf.reduced with
      | error x => rfl
      | ok items =>
        simp only [ih]
        cases encodeFactors c r <;> rfl

/-! ## lengths of encoded items -/

theorem encodeEvaledFactor_len {n : Nat} {f : EvaledFactor} (hf : factorLen n f) {r : Bool} {items : List Item}
    (h : encodeEvaledFactor f r = .ok items) : ∀ it ∈ items, it.col.length = n := by
  unfold encodeEvaledFactor at h
  have hl : valLen n (if r = true then f.encReduced else f.encFull).val := by
    cases r
    · exact hf.1
    · exact hf.2
  generalize (if r = true then f.encReduced else f.encFull) = e at h hl
  cases hv : e.val with
  | single c =>
    simp only [hv, Except.ok.injEq] at h
    subst h
    intro it hit
    simp only [List.mem_singleton] at hit
    subst hit
    simpa [hv, valLen] using hl
  | dict cols =>
    rw [hv] at hl
    simp only [hv] at h
    by_cases hsp : (e.spansIntercept && r) = true
    · simp only [hsp, if_true] at h
      cases hd : e.dropField with
      | none => simp [hd] at h
      | some k =>
        simp only [hd] at h
        cases hdel : delField k cols with
        | error x => simp [hdel] at h
        | ok cols' =>
          simp only [hdel, Except.ok.injEq] at h
          subst h
          intro it hit
          obtain ⟨fc, hfc, rfl⟩ := mem_flattenDict hit
          exact hl fc (mem_delField hdel hfc)
    · have hsp' : (e.spansIntercept && r) = false := by simpa using hsp
      simp only [hsp', Bool.false_eq_true, if_false, Except.ok.injEq] at h
      subst h
      intro it hit
      obtain ⟨fc, hfc, rfl⟩ := mem_flattenDict hit
      exact hl fc hfc

theorem encodeFactors_len {n : Nat} {c : Cache} (hc : cacheLen n c) {sfs : List SF} {fss : List (List Item)}
    (h : encodeFactors c sfs = .ok fss) : ∀ items ∈ fss, ∀ it ∈ items, it.col.length = n := by
  intro items hitems
  obtain ⟨sf, _, f, hget, henc⟩ := (encodeFactors_spec h).2 items hitems
  exact encodeEvaledFactor_len (hc f (Cache.get_ok hget).2) henc

/-! ## products of columns -/

theorem foldl_mul_length (cs : List Col) (acc : Col) (n : Nat) (ha : acc.length = n)
    (hc : ∀ c ∈ cs, c.length = n) : (cs.foldl Col.mul acc).length = n := by
  induction cs generalizing acc with
  | nil => exact ha
  | cons c cs ih =>
    simp only [List.foldl_cons]
    apply ih
    · exact Col.mul_length acc c n ha (hc c (by simp))
    · intro c' hc'; exact hc c' (by simp [hc'])

theorem foldl_mul_select (is : List Nat) (cs : List Col) (acc : Col) (n : Nat) (ha : acc.length = n)
    (hc : ∀ c ∈ cs, c.length = n) :
    select is (cs.foldl Col.mul acc) = (cs.map (select is)).foldl Col.mul (select is acc) := by
  induction cs generalizing acc with
  | nil => rfl
  | cons c cs ih =>
    simp only [List.foldl_cons, List.map_cons]
    rw [ih (Col.mul acc c) (Col.mul_length acc c n ha (hc c (by simp))) (fun c' hc' => hc c' (by simp [hc']))]
    congr 1
    exact select_zipWith _ is acc c (ha.trans (hc c (by simp)).symm)

theorem entryOf_select (is : List Nat) (s : Rat) (p : List Item) (hne : p ≠ []) (n : Nat)
    (hl : ∀ it ∈ p, it.col.length = n) :
    entryOf 0 s (p.map (selItem is)) = selEntry is (entryOf 0 s p) := by
  cases p with
  | nil => exact absurd rfl hne
  | cons x t =>
    simp only [entryOf, selEntry, List.map_cons, colProd, Col.smul, List.map_map]
    congr 1
    rw [select_map]
    congr 1
    have := foldl_mul_select is (t.map (·.col)) x.col n (hl x (by simp))
      (fun c hc => by
        obtain ⟨it, hit, rfl⟩ := List.mem_map.1 hc
        exact hl it (by simp [hit]))
    rw [this, List.map_map]
    rfl

theorem kron_map {α β : Type} (g : α → β) (fss : List (List α)) :
    kron (fss.map (List.map g)) = (kron fss).map (List.map g) := by
  induction fss with
  | nil => rfl
  | cons f r ih =>
    simp only [List.map_cons, kron, ih, List.flatMap_map, List.map_flatMap, List.map_map]
    rfl

theorem dictSet_select (is : List Nat) (d : List Entry) (e : Entry) :
    dictSet (d.map (selEntry is)) (selEntry is e) = (dictSet d e).map (selEntry is) := by
  induction d with
  | nil => rfl
  | cons x r ih =>
    simp only [List.map_cons, dictSet]
    by_cases h : x.name = e.name
    · have : (selEntry is x).name = (selEntry is e).name := h
      simp [h, this]
    · have : ¬ (selEntry is x).name = (selEntry is e).name := h
      simp [h, this, ih]

theorem dictUpdate_select (is : List Nat) (d new : List Entry) :
    dictUpdate (d.map (selEntry is)) (new.map (selEntry is)) = (dictUpdate d new).map (selEntry is) := by
  unfold dictUpdate
  induction new generalizing d with
  | nil => rfl
  | cons e r ih =>
    simp only [List.map_cons, List.foldl_cons, dictSet_select, ih]

/-! ## scoped terms, terms -/
/-- the columns of one scoped term, on a selection of rows -/
theorem scopedTermColumns_select (is : List Nat) {c : Cache} {v : Variant} {n : Nat} (rows : List Row)
    (hn : rows.length = n) (hc : cacheLen n c) {st : ST} {es : List Entry}
    (h : scopedTermColumns c v n st = .ok es) :
    scopedTermColumns (selCache is c) v (select is rows).length st = .ok (es.map (selEntry is)) := by
  rcases scopedTermColumns_spec h with ⟨h0, rfl⟩ | ⟨hne, fss, henc, rfl⟩
  · unfold scopedTermColumns
    simp only [h0, List.isEmpty_nil, if_true, List.map_cons, List.map_nil, selEntry, Col.smul, Col.ones,
      select_map, select_replicate is n (1 : Rat) rows hn]
  · unfold scopedTermColumns
    have he : st.factors.isEmpty = false := by
      cases hf : st.factors with
      | nil => exact absurd hf hne
      | cons a t => rfl
    have hfss : fss ≠ [] := by
      intro e
      have := (encodeFactors_spec henc).1
      rw [e] at this
      exact hne (List.length_eq_zero_iff.mp this.symm)
    have hfss' : fss.map (List.map (selItem is)) ≠ [] := by simpa using hfss
    simp only [he, Bool.false_eq_true, if_false, encodeFactors_select, henc, columnsFor_eq,
      columnsBase_eq _ _ hfss', kron_map, List.map_map]
    congr 1
    have hl := encodeFactors_len hc henc
    have e1 : (kron fss).map (entryOf 0 st.scale ∘ List.map (selItem is))
        = ((kron fss).map (entryOf n st.scale)).map (selEntry is) := by
      rw [List.map_map]
      apply List.map_congr_left
      intro p hp
      have hpne := ne_nil_of_mem_kron hfss hp
      simp only [Function.comp]
      rw [entryOf_select is st.scale p hpne n (fun it hit => by
        obtain ⟨items, hitems, hmem⟩ := mem_of_mem_kron hp hit
        exact hl items hitems it hmem), entryOf_irrel 0 n _ _ hpne]
    rw [e1]
    simp only [dictOfList]
    exact dictUpdate_select is [] _

theorem termColumns_select (is : List Nat) {c : Cache} {v : Variant} {n : Nat} (rows : List Row)
    (hn : rows.length = n) (hc : cacheLen n c) (sts : List ST) (acc es : List Entry)
    (h : termColumns c v n acc sts = .ok es) :
    termColumns (selCache is c) v (select is rows).length (acc.map (selEntry is)) sts
      = .ok (es.map (selEntry is)) := by
  induction sts generalizing acc with
  | nil =>
    simp only [termColumns, Except.ok.injEq] at h ⊢
    rw [h]
  | cons st r ih =>
    simp only [termColumns] at h ⊢
    cases hs : scopedTermColumns c v n st with
    | error x => simp [hs] at h
    | ok es' =>
      simp only [hs] at h
      simp only [scopedTermColumns_select is rows hn hc hs, dictUpdate_select]
      exact ih _ h

theorem buildTerms_select (is : List Nat) {c : Cache} {v : Variant} {n : Nat} (rows : List Row)
    (hn : rows.length = n) (hc : cacheLen n c) (scp : List (MTerm × List ST)) (rs : List TermResult)
    (h : buildTerms c v n scp = .ok rs) :
    buildTerms (selCache is c) v (select is rows).length scp
      = .ok (rs.map (fun r => { r with cols := r.cols.map (selEntry is) })) := by
  induction scp generalizing rs with
  | nil =>
    simp only [buildTerms, Except.ok.injEq] at h ⊢
    subst h; rfl
  | cons x rest ih =>
    obtain ⟨t, sts⟩ := x
    simp only [buildTerms] at h ⊢
    cases ht : termColumns c v n [] sts with
    | error x => simp [ht] at h
    | ok es =>
      simp only [ht] at h
      cases hr : buildTerms c v n rest with
      | error x => simp [hr] at h
      | ok rs' =>
        simp only [hr, Except.ok.injEq] at h
        subst h
        have := termColumns_select is rows hn hc sts [] es ht
        simp only [List.map_nil] at this
        simp only [this, ih rs' hr, List.map_cons]

/-! ## structure reuse: rehydration, `_enforce_structure`, collation -/
def selResult (is : List Nat) (r : TermResult) : TermResult := { r with cols := r.cols.map (selEntry is) }

theorem mapE_congr {α β ε : Type} {f g : α → Except ε β} {l : List α} (h : ∀ x ∈ l, f x = g x) :
    mapE f l = mapE g l := by
  induction l with
  | nil => rfl
  | cons x xs ih =>
    simp only [mapE, h x (by simp), ih (fun y hy => h y (by simp [hy]))]

theorem mapE_map_result {α β γ ε : Type} (φ : β → γ) (g : α → Except ε β) (g' : α → Except ε γ)
    (l : List α) (h : ∀ x ∈ l, g' x = (g x).map φ) : mapE g' l = (mapE g l).map (List.map φ) := by
  induction l with
  | nil => rfl
  | cons x xs ih =>
    simp only [mapE, h x (by simp), ih (fun y hy => h y (by simp [hy]))]
    cases g x with
    | error e => rfl
    | ok y => cases mapE g xs <;> rfl

theorem checkPresent_select (is : List Nat) (c : Cache) (sf : SF) :
    checkPresent (selCache is c) sf = checkPresent c sf := by
  unfold checkPresent
  rw [cache_get_select]
  cases c.get sf.expr <;> rfl

theorem rehydrate_select (is : List Nat) (c : Cache) (st : ST) : rehydrate (selCache is c) st = rehydrate c st := by
  unfold rehydrate
  rw [mapE_congr (fun sf _ => checkPresent_select is c sf)]

theorem rehydrateAll_select (is : List Nat) (c : Cache) (ss : List TermStruct) :
    rehydrateAll (selCache is c) ss = rehydrateAll c ss := by
  unfold rehydrateAll
  apply mapE_congr
  intro s _
  unfold rehydrateTerm
  rw [mapE_congr (fun st _ => rehydrate_select is c st)]

theorem findEntry_select (is : List Nat) (n : String) (l : List Entry) :
    findEntry n (l.map (selEntry is)) = (findEntry n l).map (selEntry is) := by
  induction l with
  | nil => rfl
  | cons e r ih =>
    simp only [List.map_cons, findEntry]
    have : (selEntry is e).name = e.name := rfl
    rw [this]
    by_cases h : e.name = n
    · simp [h]
    · simp [h, ih]

theorem pickEntry_select (is : List Nat) (sc : List Entry) (n : String) :
    pickEntry (sc.map (selEntry is)) n = (pickEntry sc n).map (selEntry is) := by
  unfold pickEntry
  rw [findEntry_select]
  cases findEntry n sc <;> rfl

theorem imputeCols_select (is : List Nat) (rows : List Row) (n : Nat) (hn : rows.length = n)
    (target : List String) (cols : List Entry) :
    imputeCols (select is rows).length target (cols.map (selEntry is))
      = (imputeCols n target cols).map (List.map (selEntry is)) := by
  unfold imputeCols
  simp only [List.length_map]
  by_cases h2 : cols.length < target.length
  · simp only [h2, if_true]
    cases cols with
    | nil =>
      simp only [List.map_nil, Except.map]
      rw [← dictUpdate_select is [] _]
      simp only [List.map_nil, List.map_map]
      congr 3
      funext nm
      simp only [Function.comp, selEntry, select_replicate is n (0 : Rat) rows hn]
    | cons e t =>
      cases t with
      | nil =>
        simp only [List.map_cons, List.map_nil, Except.map]
        rw [← dictUpdate_select is [] _]
        simp only [List.map_nil, List.map_map]
        rfl
      | cons e2 t2 => rfl
  · simp only [h2, if_false, List.map_map]
    have : ((fun (x : Entry) => x.name) ∘ selEntry is) = (fun x => x.name) := by funext x; rfl
    rw [this]
    by_cases h3 : (!sameNames (cols.map (·.name)) target) = true
    · simp [h3, Except.map]
    · simp [h3, Except.map]

theorem enforceTerm_select (is : List Nat) (rows : List Row) (n : Nat) (hn : rows.length = n)
    (target : List String) (cols : List Entry) :
    enforceTerm (select is rows).length target (cols.map (selEntry is))
      = (enforceTerm n target cols).map (List.map (selEntry is)) := by
  unfold enforceTerm
  simp only [List.length_map]
  by_cases h1 : cols.length > target.length
  · simp [h1, Except.map]
  · simp only [h1, if_false, imputeCols_select is rows n hn]
    cases imputeCols n target cols with
    | error e => rfl
    | ok sc =>
      simp only [Except.map]
      rw [mapE_map_result (selEntry is) (pickEntry sc) _ target (fun nm _ => pickEntry_select is sc nm)]
      cases mapE (pickEntry sc) target with
      | error e => rfl
      | ok es =>
        simp only [Except.map]
        rw [← dictUpdate_select is [] es]
        rfl

theorem enforce_select (is : List Nat) (rows : List Row) (n : Nat) (hn : rows.length = n)
    (ss : List TermStruct) (rs : List TermResult) :
    enforce (select is rows).length ss (rs.map (selResult is))
      = (enforce n ss rs).map (List.map (selResult is)) := by
  induction ss generalizing rs with
  | nil =>
    cases rs with
    | nil => rfl
    | cons r rs => rfl
  | cons s ss ih =>
    cases rs with
    | nil => rfl
    | cons r rs =>
      simp only [List.map_cons, enforce]
      have : (selResult is r).cols = r.cols.map (selEntry is) := rfl
      rw [this, enforceTerm_select is rows n hn, ih rs]
      cases enforceTerm n s.columns r.cols with
      | error e => rfl
      | ok cols =>
        simp only [Except.map]
        cases enforce n ss rs with
        | error e => rfl
        | ok rest => rfl

theorem allColumns_select (is : List Nat) (rs : List TermResult) :
    allColumns (rs.map (selResult is)) = (allColumns rs).map (selEntry is) := by
  unfold allColumns
  induction rs with
  | nil => rfl
  | cons r rs ih => simp only [List.map_cons, List.flatMap_cons, ih, List.map_append]; rfl

theorem combineColumns_select (is : List Nat) (b : Bool) (cols : List Entry) :
    combineColumns b (cols.map (selEntry is)) = (combineColumns b cols).map (selEntry is) := by
  unfold combineColumns
  cases b
  · rfl
  · simp only [if_true]
    exact dictUpdate_select is [] cols

end FormulaicVerif.Proofs.C04
