import FormulaicVerif.Model.EncodeDt
/-! Helper lemmas for C08 on `Model/Dtypes.lean` / `Model/EncodeDt.lean`: when the generated tables
hold numeric dtypes only (and scaling / stacking numeric dtypes gives numeric dtypes), every dtype the
model reports for a matrix is numeric. Core Lean only. -/
namespace FormulaicVerif.Proofs.C08Dtypes
open FormulaicVerif.Model FormulaicVerif.Model.Encode FormulaicVerif.Model.Enc2 FormulaicVerif.Model.Dtypes

/-- the check that is decided on the generated tables -/
def tablesNumeric (T : Tables) : Bool :=
  T.solo.all (fun r => r.2.2.2.isNumeric) &&
  T.scaled.all (fun r => (!r.2.2.1 || r.2.2.2.1.isNumeric) &&
    (!r.2.2.2.1.isNumeric || (r.2.2.2.2.1.isNumeric && r.2.2.2.2.2.isNumeric))) &&
  T.intercept.all (fun r => r.2.2.isNumeric) &&
  T.stack.all (fun r => !r.2.2.1.isNumeric || !r.2.2.2.1.isNumeric || r.2.2.2.2.isNumeric)

structure TablesOK (T : Tables) : Prop where
  solo : ∀ r ∈ T.solo, r.2.2.2.isNumeric = true
  dummy : ∀ r ∈ T.scaled, r.2.2.1 = true → r.2.2.2.1.isNumeric = true
  scaled : ∀ r ∈ T.scaled, r.2.2.2.1.isNumeric = true → r.2.2.2.2.1.isNumeric = true ∧ r.2.2.2.2.2.isNumeric = true
  intercept : ∀ r ∈ T.intercept, r.2.2.isNumeric = true
  stack : ∀ r ∈ T.stack, r.2.2.1.isNumeric = true → r.2.2.2.1.isNumeric = true → r.2.2.2.2.isNumeric = true

theorem tablesOK_of_check {T : Tables} (h : tablesNumeric T = true) : TablesOK T := by
  simp only [tablesNumeric, Bool.and_eq_true, List.all_eq_true, Bool.or_eq_true, Bool.not_eq_true'] at h
  obtain ⟨⟨⟨h1, h2⟩, h3⟩, h4⟩ := h
  refine ⟨h1, ?_, ?_, h3, ?_⟩
  · intro r hr hd
    rcases (h2 r hr).1 with h | h
    · rw [hd] at h; cases h
    · exact h
  · intro r hr hn
    rcases (h2 r hr).2 with h | h
    · rw [hn] at h; cases h
    · exact h
  · intro r hr ha hb
    rcases h4 r hr with (h | h) | h
    · rw [ha] at h; cases h
    · rw [hb] at h; cases h
    · exact h

variable {T : Tables}

theorem soloDt_numeric (hT : TablesOK T) {label route out : String} {d : NDt}
    (h : soloDt T label route out = some d) : d.isNumeric = true := by
  unfold soloDt at h
  cases hf : T.solo.find? (fun r => r.1 == label && r.2.1 == route && r.2.2.1 == out) with
  | none => simp [hf] at h
  | some r =>
    simp only [hf, Option.some.injEq] at h
    subst h
    exact hT.solo r (List.mem_of_find?_eq_some hf)

theorem interceptDt_numeric (hT : TablesOK T) {route out : String} {d : NDt}
    (h : interceptDt T route out = some d) : d.isNumeric = true := by
  unfold interceptDt at h
  cases hf : T.intercept.find? (fun r => r.1 == route && r.2.1 == out) with
  | none => simp [hf] at h
  | some r =>
    simp only [hf, Option.some.injEq] at h
    subst h
    exact hT.intercept r (List.mem_of_find?_eq_some hf)

theorem dummyDt_numeric (hT : TablesOK T) {route out : String} {sc : ScaleKind} {d : NDt}
    (h : dummyDt T route out sc = some d) : d.isNumeric = true := by
  unfold dummyDt at h
  cases hf : T.scaled.find? (fun r => r.1 == route && r.2.1 == out && r.2.2.1) with
  | none => simp [hf] at h
  | some r =>
    simp only [hf, Option.some.injEq] at h
    have hm := List.mem_of_find?_eq_some hf
    have hp := List.find?_some hf
    simp only [Bool.and_eq_true] at hp
    have hd := hT.dummy r hm hp.2
    have hs := hT.scaled r hm hd
    subst h
    cases sc
    · exact hd
    · exact hs.1
    · exact hs.2

theorem scaleDt_numeric (hT : TablesOK T) {route out : String} {d e : NDt} {sc : ScaleKind}
    (hd : d.isNumeric = true) (h : scaleDt T route out d sc = some e) : e.isNumeric = true := by
  unfold scaleDt at h
  cases sc with
  | none =>
    simp only [Option.some.injEq] at h
    subst h; exact hd
  | int =>
    simp only at h
    cases hf : T.scaled.find? (fun r => r.1 == route && r.2.1 == out && !r.2.2.1 && r.2.2.2.1 == d) with
    | none => simp [hf] at h
    | some r =>
      simp only [hf, Option.some.injEq] at h
      have hp := List.find?_some hf
      simp only [Bool.and_eq_true, beq_iff_eq] at hp
      have hs := hT.scaled r (List.mem_of_find?_eq_some hf) (by rw [hp.2]; exact hd)
      subst h; exact hs.1
  | flt =>
    simp only at h
    cases hf : T.scaled.find? (fun r => r.1 == route && r.2.1 == out && !r.2.2.1 && r.2.2.2.1 == d) with
    | none => simp [hf] at h
    | some r =>
      simp only [hf, Option.some.injEq] at h
      have hp := List.find?_some hf
      simp only [Bool.and_eq_true, beq_iff_eq] at hp
      have hs := hT.scaled r (List.mem_of_find?_eq_some hf) (by rw [hp.2]; exact hd)
      subst h; exact hs.2

theorem stack2_numeric (hT : TablesOK T) {route out : String} {a b c : NDt} (ha : a.isNumeric = true)
    (hb : b.isNumeric = true) (h : stack2 T route out a b = some c) : c.isNumeric = true := by
  unfold stack2 at h
  cases hf : T.stack.find? (fun r => r.1 == route && r.2.1 == out && r.2.2.1 == a && r.2.2.2.1 == b) with
  | none => simp [hf] at h
  | some r =>
    simp only [hf, Option.some.injEq] at h
    have hp := List.find?_some hf
    simp only [Bool.and_eq_true, beq_iff_eq] at hp
    subst h
    exact hT.stack r (List.mem_of_find?_eq_some hf) (by rw [hp.1.2]; exact ha) (by rw [hp.2]; exact hb)

theorem stackFrom_numeric (hT : TablesOK T) {route out : String} : ∀ {l : List NDt} {d e : NDt},
    d.isNumeric = true → (∀ x ∈ l, x.isNumeric = true) → stackFrom T route out d l = some e → e.isNumeric = true
  | [], d, e, hd, _, h => by
    simp only [stackFrom, Option.some.injEq] at h
    subst h; exact hd
  | x :: r, d, e, hd, hl, h => by
    simp only [stackFrom] at h
    cases hs : stack2 T route out d x with
    | none => simp [hs] at h
    | some f =>
      simp only [hs] at h
      exact stackFrom_numeric hT (stack2_numeric hT hd (hl x List.mem_cons_self) hs)
        (fun y hy => hl y (List.mem_cons_of_mem _ hy)) h

theorem stackAll_numeric (hT : TablesOK T) {route out : String} {l : List NDt} {e : NDt}
    (hl : ∀ x ∈ l, x.isNumeric = true) (h : stackAll T route out l = some e) : e.isNumeric = true := by
  cases l with
  | nil =>
    simp only [stackAll, Option.some.injEq] at h
    subst h; rfl
  | cons d r =>
    exact stackFrom_numeric hT (hl d List.mem_cons_self) (fun y hy => hl y (List.mem_cons_of_mem _ hy)) h

theorem termDt_numeric (hT : TablesOK T) {m : Mat} {out : Output} {frame : List Enc2.In} {t : Term} {cat : Bool}
    {d : NDt} (h : termDt T m out frame t cat = some d) : d.isNumeric = true := by
  unfold termDt at h
  cases cat with
  | true => exact dummyDt_numeric hT (by simpa using h)
  | false =>
    simp only [Bool.false_eq_true, if_false] at h
    cases hc : findCol frame t.fid.name with
    | none => simp [hc] at h
    | some c =>
      simp only [hc] at h
      cases hs : soloDt T c.dtype (routeName m) out.name with
      | none => simp [hs] at h
      | some d0 =>
        simp only [hs] at h
        exact scaleDt_numeric hT (soloDt_numeric hT hs) h

theorem termsDts_numeric (hT : TablesOK T) {tbl : List KindRow} {m : Mat} {frame : List Enc2.In} {out : Output}
    {efr : Bool} {mask : List Bool} : ∀ (terms : List Term) (spanned : Bool) (ds : List NDt),
      termsDts T tbl m frame out efr mask spanned terms = .ok ds → ∀ d ∈ ds, d.isNumeric = true
  | [], _, ds, h => by
    simp only [termsDts, Except.ok.injEq] at h
    subst h
    intro d hd; cases hd
  | t :: rest, spanned, ds, h => by
    simp only [termsDts] at h
    cases he : evalFactor tbl m frame t.fid with
    | error e => simp [he] at h
    | ok ef =>
      simp only [he] at h
      cases hx : encodeFactor out t.fid ef mask (ef.categorical && efr && spanned) with
      | error e => simp [hx] at h
      | ok enc =>
        simp only [hx] at h
        cases ht : termDt T m out frame t ef.categorical with
        | none => simp [ht] at h
        | some d0 =>
          simp only [ht] at h
          cases hr : termsDts T tbl m frame out efr mask (spanned || ef.categorical) rest with
          | error e => simp [hr] at h
          | ok more =>
            simp only [hr, Except.ok.injEq] at h
            subst h
            intro d hd
            rcases List.mem_append.mp hd with hd | hd
            · rw [(List.mem_replicate.mp hd).2]
              exact termDt_numeric hT ht
            · exact termsDts_numeric hT rest _ more hr d hd

/-- every dtype the model reports for the matrix of a call is an integer or floating-point dtype -/
theorem callDtypes_numeric (hT : TablesOK T) (tbl : List KindRow) (m : Mat) (nrows : Nat) (frame : List Enc2.In)
    (k : Call) (ds : List NDt) (h : callDtypes T tbl m nrows frame k = .ok ds) : ∀ d ∈ ds, d.isNumeric = true := by
  unfold callDtypes at h
  cases h1 : (evaluateAll tbl m frame k.na (k.terms.map (·.fid)) [] (List.replicate nrows false)).2 with
  | error e => simp [h1] at h
  | ok nulls =>
    simp only [h1] at h
    cases h2 : termsDts T tbl m frame k.out k.efr (nulls.map (!·)) k.intercept k.terms with
    | error e => simp [h2] at h
    | ok body =>
      simp only [h2] at h
      have hbody := termsDts_numeric hT k.terms k.intercept body h2
      cases h3 : (if k.intercept then (interceptDt T (routeName m) k.out.name).map (fun d => [d]) else some []) with
      | none => simp [h3] at h
      | some ic =>
        simp only [h3] at h
        have hic : ∀ d ∈ ic, d.isNumeric = true := by
          by_cases hi : k.intercept = true
          · simp only [hi, if_true, Option.map_eq_some_iff] at h3
            obtain ⟨d0, hd0, rfl⟩ := h3
            intro d hd
            simp only [List.mem_singleton] at hd
            subst hd
            exact interceptDt_numeric hT hd0
          · simp only [hi, Bool.false_eq_true, if_false, Option.some.injEq] at h3
            subst h3
            intro d hd; cases hd
        have hall : ∀ d ∈ ic ++ body, d.isNumeric = true := by
          intro d hd
          rcases List.mem_append.mp hd with hd | hd
          · exact hic d hd
          · exact hbody d hd
        cases ho : k.out with
        | pandas =>
          simp only [ho, Except.ok.injEq] at h
          subst h; exact hall
        | narwhals =>
          simp only [ho, Except.ok.injEq] at h
          subst h; exact hall
        | numpy =>
          simp only [ho] at h
          cases hs : stackAll T (routeName m) Output.numpy.name (ic ++ body) with
          | none => simp [hs] at h
          | some d0 =>
            simp only [hs, Except.ok.injEq] at h
            subst h
            intro d hd
            simp only [List.mem_singleton] at hd
            subst hd
            exact stackAll_numeric hT hall hs
        | sparse =>
          simp only [ho] at h
          cases hs : stackAll T (routeName m) Output.sparse.name (ic ++ body) with
          | none => simp [hs] at h
          | some d0 =>
            simp only [hs, Except.ok.injEq] at h
            subst h
            intro d hd
            simp only [List.mem_singleton] at hd
            subst hd
            exact stackAll_numeric hT hall hs

end FormulaicVerif.Proofs.C08Dtypes
