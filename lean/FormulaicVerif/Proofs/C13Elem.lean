import FormulaicVerif.Spec.Real
import Mathlib.Data.Rat.Cast.Defs
import Mathlib.Data.Rat.Cast.CharZero
/-! Soundness of `Model.Elementwise.exactAt` (the exact probe table) for the real functions of
`Spec/Real.lean`. -/
namespace FormulaicVerif.Proofs.C13
open FormulaicVerif.Model.Elementwise FormulaicVerif.Spec.Real

theorem zpow_cast (b : ℕ) (hb : 0 < b) (k : ℤ) : ((zpow b k : ℚ) : ℝ) = (b : ℝ) ^ (k : ℝ) := by
  have hb' : (0 : ℝ) < b := by exact_mod_cast hb
  cases k with
  | ofNat n =>
    simp only [zpow]
    push_cast
    rw [Int.ofNat_eq_natCast, Int.cast_natCast, Real.rpow_natCast]
  | negSucc n =>
    simp only [zpow]
    push_cast
    rw [Real.rpow_neg hb'.le, show ((n : ℝ) + 1) = ((n + 1 : ℕ) : ℝ) by push_cast; ring, Real.rpow_natCast]
    simp

theorem exactAt_sound' (f : RealFn) (k : ℤ) (p v : ℚ) (h : exactAt f k = some (p, v)) :
    denote f (p : ℝ) = (v : ℝ) := by
  unfold exactAt at h
  split at h
  · -- exp2
    simp at h; obtain ⟨rfl, rfl⟩ := h
    simp only [denote]
    rw [zpow_cast 2 (by norm_num)]
    push_cast; rfl
  · simp at h; obtain ⟨rfl, rfl⟩ := h
    simp only [denote]
    rw [zpow_cast 10 (by norm_num)]
    push_cast; rfl
  · -- log2
    simp at h; obtain ⟨rfl, rfl⟩ := h
    simp only [denote]
    rw [zpow_cast 2 (by norm_num)]
    push_cast
    exact Real.logb_rpow (by norm_num) (by norm_num)
  · simp at h; obtain ⟨rfl, rfl⟩ := h
    simp only [denote]
    rw [zpow_cast 10 (by norm_num)]
    push_cast
    exact Real.logb_rpow (by norm_num) (by norm_num)
  · simp at h; obtain ⟨rfl, rfl⟩ := h
    simp [denote]
  · simp at h; obtain ⟨rfl, rfl⟩ := h
    simp [denote]
  · cases h
end FormulaicVerif.Proofs.C13
