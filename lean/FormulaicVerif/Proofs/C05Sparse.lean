import FormulaicVerif.Model.Sparse
import FormulaicVerif.Proofs.C08
/-! Helper lemmas for C05 (sparse columns denote the dense columns). Core Lean only. -/
namespace FormulaicVerif.Proofs.C05
open FormulaicVerif.Model FormulaicVerif.Model.Sparse

/-! ### reading entries -/

theorem getE_of_lt (es : List (Nat × Rat)) (i : Nat) (h : ∀ e ∈ es, i < e.1) : getE es i = 0 := by
  induction es with
  | nil => rfl
  | cons e r ih =>
    obtain ⟨r0, v⟩ := e
    have h0 : i < r0 := h (r0, v) (by simp)
    have : r0 ≠ i := by omega
    simp only [getE, this, if_false]
    exact ih (fun e he => h e (List.mem_cons_of_mem _ he))

theorem getE_ofDenseFrom (xs : List Rat) : ∀ (k i : Nat),
    getE (ofDenseFrom k xs) i = if i < k then 0 else (xs[i - k]?).getD 0 := by
  induction xs with
  | nil => intro k i; simp [ofDenseFrom, getE]
  | cons x r ih =>
    intro k i
    simp only [ofDenseFrom]
    by_cases hx : x = 0
    · simp only [hx, if_true, ih]
      by_cases h1 : i < k
      · have : i < k + 1 := by omega
        simp [h1, this]
      · by_cases h2 : i = k
        · subst h2; simp
        · have h3 : ¬ i < k + 1 := by omega
          have h4 : i - k = (i - (k + 1)) + 1 := by omega
          simp [h1, h3, h4]
    · simp only [hx, if_false, getE, ih]
      by_cases h2 : k = i
      · subst h2; simp
      · by_cases h1 : i < k
        · have : i < k + 1 := by omega
          simp [h1, this, h2]
        · have h3 : ¬ i < k + 1 := by omega
          have h4 : i - k = (i - (k + 1)) + 1 := by omega
          simp [h1, h3, h4, h2]

/-- `csc_matrix(dense).toarray() = dense` -/
theorem toDense_ofDense (xs : Col) : (SCol.ofDense xs).toDense = xs := by
  apply List.ext_getElem
  · simp [SCol.toDense, SCol.ofDense]
  · intro i h1 h2
    simp [SCol.toDense, SCol.ofDense, getE_ofDenseFrom, h2]

theorem ofDenseFrom_rows (xs : List Rat) : ∀ k, ∀ e ∈ ofDenseFrom k xs, k ≤ e.1 ∧ e.1 < k + xs.length := by
  induction xs with
  | nil => intro k e he; simp [ofDenseFrom] at he
  | cons x r ih =>
    intro k e he
    simp only [ofDenseFrom] at he
    split at he
    · have := ih (k + 1) e he
      simp only [List.length_cons]; omega
    · rcases List.mem_cons.mp he with rfl | he
      · simp
      · have := ih (k + 1) e he
        simp only [List.length_cons]; omega

theorem ofDenseFrom_sorted (xs : List Rat) : ∀ k, (ofDenseFrom k xs).Pairwise (fun a b => a.1 < b.1) := by
  induction xs with
  | nil => intro k; simp [ofDenseFrom]
  | cons x r ih =>
    intro k
    simp only [ofDenseFrom]
    split
    · exact ih (k + 1)
    · rw [List.pairwise_cons]
      refine ⟨?_, ih (k + 1)⟩
      intro e he
      have := ofDenseFrom_rows r (k + 1) e he
      show k < e.1
      omega

theorem wf_ofDense (xs : Col) : (SCol.ofDense xs).WF := by
  refine ⟨ofDenseFrom_sorted xs 0, ?_⟩
  intro e he
  have := ofDenseFrom_rows xs 0 e he
  simp only [SCol.ofDense]; omega

/-! ### multiply -/

abbrev SortedE (es : List (Nat × Rat)) : Prop := es.Pairwise (fun a b => a.1 < b.1)

theorem getE_mulE : ∀ (a b : List (Nat × Rat)), SortedE a → SortedE b → ∀ i,
    getE (mulE a b) i = getE a i * getE b i
  | [], b, _, _, i => by simp [mulE, getE]
  | (r, v) :: a, [], _, _, i => by simp [mulE, getE]
  | (r, v) :: a, (s, w) :: b, ha, hb, i => by
    have ha' := List.pairwise_cons.mp ha
    have hb' := List.pairwise_cons.mp hb
    rw [mulE]
    by_cases h1 : r < s
    · simp only [h1, if_true]
      rw [getE_mulE a ((s, w) :: b) ha'.2 hb i]
      by_cases hri : r = i
      · -- row r is absent from b: everything in b is ≥ s > r
        subst hri
        have hb0 : getE ((s, w) :: b) r = 0 := by
          apply getE_of_lt
          intro e he
          rcases List.mem_cons.mp he with rfl | he
          · exact h1
          · exact Nat.lt_trans h1 (hb'.1 e he)
        have ha0 : getE a r = 0 := getE_of_lt a r (fun e he => ha'.1 e he)
        simp [hb0, ha0]
      · simp [getE, hri]
    · by_cases h2 : s < r
      · simp only [h1, h2, if_true, if_false]
        rw [getE_mulE ((r, v) :: a) b ha hb'.2 i]
        by_cases hsi : s = i
        · subst hsi
          have ha0 : getE ((r, v) :: a) s = 0 := by
            apply getE_of_lt
            intro e he
            rcases List.mem_cons.mp he with rfl | he
            · exact h2
            · exact Nat.lt_trans h2 (ha'.1 e he)
          have hb0 : getE b s = 0 := getE_of_lt b s (fun e he => hb'.1 e he)
          simp [ha0, hb0]
        · simp [getE, hsi]
      · have hrs : r = s := by omega
        subst hrs
        simp only [Nat.lt_irrefl, if_false, getE]
        by_cases hri : r = i
        · simp [hri]
        · simp only [hri, if_false]
          exact getE_mulE a b ha'.2 hb'.2 i
termination_by a b => a.length + b.length

/-- the rows kept by `multiply` are rows of the left operand, in the same order -/
theorem mulE_sublist : ∀ (a b : List (Nat × Rat)), ((mulE a b).map (·.1)).Sublist (a.map (·.1))
  | [], b => by simp [mulE]
  | (r, v) :: a, [] => by simp [mulE]
  | (r, v) :: a, (s, w) :: b => by
    rw [mulE]
    by_cases h1 : r < s
    · simp only [h1, if_true, List.map_cons]
      exact (mulE_sublist a ((s, w) :: b)).cons _
    · by_cases h2 : s < r
      · simp only [h1, h2, if_true, if_false]
        exact mulE_sublist ((r, v) :: a) b
      · simp only [h1, h2, if_false, List.map_cons]
        exact (mulE_sublist a b).cons_cons _
termination_by a b => a.length + b.length

theorem sortedE_iff (es : List (Nat × Rat)) : SortedE es ↔ (es.map (·.1)).Pairwise (· < ·) := by
  simp [SortedE, List.pairwise_map]

theorem wf_mul (a b : SCol) (ha : a.WF) : (SCol.mul a b).WF := by
  have hs := mulE_sublist a.entries b.entries
  constructor
  · show SortedE (mulE a.entries b.entries)
    rw [sortedE_iff]
    exact ((sortedE_iff _).mp ha.1).sublist hs
  · intro e he
    have : e.1 ∈ (mulE a.entries b.entries).map (·.1) := List.mem_map_of_mem he
    have := hs.subset this
    obtain ⟨e', he', h⟩ := List.mem_map.mp this
    show e.1 < a.nrows
    rw [← h]; exact ha.2 e' he'

/-- `a.multiply(b).toarray() = a.toarray() * b.toarray()` -/
theorem toDense_mul (a b : SCol) (ha : a.WF) (hb : b.WF) (hn : a.nrows = b.nrows) :
    (SCol.mul a b).toDense = Col.mul a.toDense b.toDense := by
  apply List.ext_getElem
  · simp [SCol.toDense, SCol.mul, Col.mul, hn]
  · intro i h1 h2
    simp [SCol.toDense, SCol.mul, Col.mul, getE_mulE _ _ ha.1 hb.1]

/-! ### scalar scaling -/

theorem getE_smul (q : Rat) (es : List (Nat × Rat)) (i : Nat) :
    getE (es.map (fun e => (e.1, q * e.2))) i = q * getE es i := by
  induction es with
  | nil => simp [getE]
  | cons e r ih =>
    obtain ⟨r0, v⟩ := e
    simp only [List.map_cons, getE]
    split
    · rfl
    · exact ih

theorem toDense_smul (q : Rat) (a : SCol) : (SCol.smul q a).toDense = Col.smul q a.toDense := by
  simp [SCol.toDense, SCol.smul, Col.smul, getE_smul, List.map_map, Function.comp_def]

theorem wf_smul (q : Rat) (a : SCol) (ha : a.WF) : (SCol.smul q a).WF := by
  constructor
  · show SortedE _
    rw [sortedE_iff]
    simp only [SCol.smul, List.map_map, Function.comp_def]
    exact (sortedE_iff _).mp ha.1
  · intro e he
    obtain ⟨e', he', rfl⟩ := List.mem_map.mp he
    exact ha.2 e' he'

/-! ### the dummy encoder -/

theorem indexOf?_spec (s : String) : ∀ (lv : List String), lv.Nodup → ∀ j, (indexOf? s lv = some j ↔ lv[j]? = some s)
  | [], _, j => by simp [indexOf?]
  | t :: r, hnd, j => by
    rw [List.nodup_cons] at hnd
    simp only [indexOf?]
    by_cases hts : t = s
    · subst hts
      simp only [if_true]
      cases j with
      | zero => simp
      | succ j' =>
        simp only [List.getElem?_cons_succ]
        constructor
        · intro h; cases h
        · intro h
          exact absurd (List.mem_of_getElem? h) hnd.1
    · simp only [hts, if_false]
      cases j with
      | zero => simp [hts]
      | succ j' =>
        simp only [List.getElem?_cons_succ]
        rw [← indexOf?_spec s r hnd.2 j']
        cases indexOf? s r <;> simp

theorem getE_coordsFrom (j : Nat) (codes : List (Option Nat)) : ∀ (k i : Nat),
    getE (((coordsFrom k codes).filter (fun p => p.2 == j)).map (fun p => (p.1, (1 : Rat)))) i
      = if i < k then 0 else if codes[i - k]? = some (some j) then 1 else 0 := by
  induction codes with
  | nil => intro k i; simp [coordsFrom, getE]
  | cons c r ih =>
    intro k i
    have step : ∀ (x : Rat), (if i < k + 1 then (0 : Rat) else if r[i - (k + 1)]? = some (some j) then 1 else 0) = x →
        ¬ i < k → i ≠ k → (if (c :: r)[i - k]? = some (some j) then (1 : Rat) else 0) = x := by
      intro x hx h1 h2
      have h3 : ¬ i < k + 1 := by omega
      have h4 : i - k = (i - (k + 1)) + 1 := by omega
      rw [h4, List.getElem?_cons_succ]
      simpa [h3] using hx
    cases c with
    | none =>
      simp only [coordsFrom, ih]
      by_cases h1 : i < k
      · have : i < k + 1 := by omega
        simp [h1, this]
      · by_cases h2 : i = k
        · subst h2; simp
        · simp only [h1, if_false]
          exact (step _ rfl h1 h2).symm
    | some c =>
      simp only [coordsFrom, List.filter_cons]
      by_cases hc : c = j
      · subst hc
        simp only [beq_self_eq_true, if_true, List.map_cons, getE, ih]
        by_cases h2 : k = i
        · subst h2; simp
        · by_cases h1 : i < k
          · have : i < k + 1 := by omega
            simp [h1, this, h2]
          · simp only [h2, h1, if_false]
            exact (step _ rfl h1 (fun e => h2 e.symm)).symm
      · have hb : (c == j) = false := by simpa using hc
        simp only [hb, Bool.false_eq_true, if_false, ih]
        by_cases h1 : i < k
        · have : i < k + 1 := by omega
          simp [h1, this]
        · by_cases h2 : i = k
          · subst h2; simp [hc]
          · simp only [h1, if_false]
            exact (step _ rfl h1 h2).symm

theorem coordsFrom_rows (codes : List (Option Nat)) : ∀ k, ∀ p ∈ coordsFrom k codes, k ≤ p.1 ∧ p.1 < k + codes.length := by
  induction codes with
  | nil => intro k p hp; simp [coordsFrom] at hp
  | cons c r ih =>
    intro k p hp
    cases c with
    | none =>
      have := ih (k + 1) p (by simpa [coordsFrom] using hp)
      simp only [List.length_cons]; omega
    | some c =>
      simp only [coordsFrom] at hp
      rcases List.mem_cons.mp hp with rfl | hp
      · simp
      · have := ih (k + 1) p hp
        simp only [List.length_cons]; omega

theorem coordsFrom_sorted (codes : List (Option Nat)) : ∀ k, (coordsFrom k codes).Pairwise (fun a b => a.1 < b.1) := by
  induction codes with
  | nil => intro k; simp [coordsFrom]
  | cons c r ih =>
    intro k
    cases c with
    | none => simpa [coordsFrom] using ih (k + 1)
    | some c =>
      simp only [coordsFrom]
      rw [List.pairwise_cons]
      refine ⟨?_, ih (k + 1)⟩
      intro p hp
      have := coordsFrom_rows r (k + 1) p hp
      show k < p.1
      omega

theorem wf_cscFromCoo (codes : List (Option Nat)) (m : Nat) :
    ∀ c ∈ cscFromCoo codes.length m (coords codes), c.WF ∧ c.nrows = codes.length := by
  intro c hc
  simp only [cscFromCoo, List.mem_map, List.mem_range] at hc
  obtain ⟨j, _, rfl⟩ := hc
  refine ⟨⟨?_, ?_⟩, rfl⟩
  · show SortedE _
    rw [sortedE_iff]
    simp only [List.map_map, Function.comp_def]
    have h := (coordsFrom_sorted codes 0).sublist (List.filter_sublist (p := fun p => p.2 == j))
    simpa [List.pairwise_map, coords] using h
  · intro e he
    obtain ⟨p, hp, rfl⟩ := List.mem_map.mp he
    have := coordsFrom_rows codes 0 p (List.mem_filter.mp hp).1
    show p.1 < codes.length
    omega

/-- the sparse dummy columns denote the indicator columns of the levels -/
theorem toDense_cscFromCoo (lv : List String) (hnd : lv.Nodup) (vals : List (Option String)) :
    (cscFromCoo vals.length lv.length (coords (codesOf lv vals))).map SCol.toDense
      = lv.map (fun l => vals.map (fun v => if v = some l then (1 : Rat) else 0)) := by
  apply List.ext_getElem
  · simp [cscFromCoo]
  · intro j h1 h2
    have hj : j < lv.length := by simpa using h2
    simp only [cscFromCoo, List.getElem_map, List.getElem_range]
    apply List.ext_getElem
    · simp [SCol.toDense]
    · intro i h3 h4
      have hi : i < vals.length := by simpa using h4
      simp only [SCol.toDense, List.getElem_map, List.getElem_range, coords, getE_coordsFrom]
      simp only [Nat.not_lt_zero, if_false, Nat.sub_zero, codesOf, List.getElem?_map,
        List.getElem?_eq_getElem hi, Option.map_some]
      cases hv : vals[i] with
      | none => simp
      | some s =>
        simp only [Option.bind_some, Option.some.injEq]
        have key : (indexOf? s lv = some j) ↔ lv[j] = s := by
          rw [indexOf?_spec s lv hnd j, List.getElem?_eq_getElem hj]; simp
        by_cases hs : lv[j] = s
        · have h5 := key.mpr hs
          simp [h5, hs]
        · have h5 : ¬ indexOf? s lv = some j := fun e => hs (key.mp e)
          have h6 : ¬ s = lv[j] := fun e => hs e.symm
          simp [h5, h6]

/-! ### hstack -/

theorem prefixFrom_ne_nil (acc : Nat) (ls : List Nat) : ∃ r, prefixFrom acc ls = acc :: r := by
  cases ls <;> simp [prefixFrom]

theorem diffs_prefixFrom : ∀ (ls : List Nat) (acc : Nat), diffs (prefixFrom acc ls) = ls
  | [], acc => by simp [prefixFrom, diffs]
  | l :: ls, acc => by
    obtain ⟨r, hr⟩ := prefixFrom_ne_nil (acc + l) ls
    have ih := diffs_prefixFrom ls (acc + l)
    simp only [prefixFrom, hr, diffs] at ih ⊢
    rw [ih]; simp

theorem splitBy_flatten {α} : ∀ (ls : List (List α)), splitBy (ls.map List.length) ls.flatten = ls
  | [] => by simp [splitBy]
  | l :: ls => by
    simp only [List.map_cons, List.flatten_cons, splitBy, List.take_left', List.drop_left']
    rw [splitBy_flatten ls]

theorem zip_flatMap_entries (cs : List SCol) :
    (cs.flatMap (fun c => c.entries.map (·.1))).zip (cs.flatMap (fun c => c.entries.map (·.2)))
      = (cs.map (·.entries)).flatten := by
  induction cs with
  | nil => simp
  | cons c r ih =>
    simp only [List.flatMap_cons, List.map_cons, List.flatten_cons]
    rw [List.zip_append (by simp), ih]
    congr 1
    induction c.entries with
    | nil => rfl
    | cons e es ihe => simp [ihe]

/-- reading the columns back out of the stacked CSC arrays gives the columns that went in -/
theorem cols_hstack (n : Nat) (cs : List SCol) (hn : ∀ c ∈ cs, c.nrows = n) : (hstack n cs).cols = cs := by
  simp only [CSC.cols, hstack, diffs_prefixFrom, zip_flatMap_entries]
  have : (cs.map (·.entries.length)) = (cs.map (·.entries)).map List.length := by simp [List.map_map, Function.comp_def]
  rw [this, splitBy_flatten]
  simp only [List.map_map]
  apply List.ext_getElem
  · simp
  · intro i h1 h2
    simp only [List.getElem_map, Function.comp_def]
    have := hn cs[i] (List.getElem_mem _)
    cases hc : cs[i]
    simp_all

/-! ### naturality of the generic column pipeline -/

/-- `h` translates the operations of one column representation into those of another on the
columns satisfying the invariant `P`, and the operations keep the invariant -/
structure Hom {C D : Type} (oc : Ops C) (od : Ops D) (P : C → Prop) (h : C → D) : Prop where
  mul : ∀ a b, P a → P b → h (oc.mul a b) = od.mul (h a) (h b)
  smul : ∀ q a, P a → h (oc.smul q a) = od.smul q (h a)
  pmul : ∀ a b, P a → P b → P (oc.mul a b)
  psmul : ∀ q a, P a → P (oc.smul q a)

/-- two results agree: same exception, or values related by `r` -/
def RelE {α β : Type} (r : α → β → Prop) : Except MErr α → Except MErr β → Prop
  | .ok a, .ok b => r a b
  | .error e, .error e' => e = e'
  | _, _ => False

theorem RelE.elim {α β : Type} {r : α → β → Prop} {x : Except MErr α} {y : Except MErr β} (hxy : RelE r x y) :
    (∃ e, x = .error e ∧ y = .error e) ∨ (∃ a b, x = .ok a ∧ y = .ok b ∧ r a b) := by
  cases x <;> cases y <;> simp_all [RelE]

variable {C D : Type} {oc : Ops C} {od : Ops D} {P : C → Prop} {h : C → D}

def mapI (h : C → D) (x : GItem C) : GItem D := (x.1, h x.2)

/-- item lists related by `h`, all items satisfying `P` -/
def IRel (h : C → D) (P : C → Prop) (xs : List (GItem C)) (ys : List (GItem D)) : Prop :=
  ys = xs.map (mapI h) ∧ ∀ x ∈ xs, P x.2

theorem foldl_hom (H : Hom oc od P h) : ∀ (cs : List C) (c : C), P c → (∀ x ∈ cs, P x) →
    h (cs.foldl oc.mul c) = (cs.map h).foldl od.mul (h c) ∧ P (cs.foldl oc.mul c)
  | [], c, hc, _ => ⟨rfl, hc⟩
  | x :: cs, c, hc, hcs => by
    have hx := hcs x (by simp)
    have := foldl_hom H cs (oc.mul c x) (H.pmul c x hc hx) (fun y hy => hcs y (List.mem_cons_of_mem _ hy))
    simp only [List.foldl_cons, List.map_cons]
    rw [← H.mul c x hc hx]
    exact this

theorem gReduce_hom (H : Hom oc od P h) (cs : List C) (hcs : ∀ x ∈ cs, P x) :
    RelE (fun v w => w = h v ∧ P v) (gReduce oc cs) (gReduce od (cs.map h)) := by
  cases cs with
  | nil => simp [gReduce, RelE]
  | cons c r =>
    have := foldl_hom H r c (hcs c (by simp)) (fun y hy => hcs y (List.mem_cons_of_mem _ hy))
    simp only [gReduce, List.map_cons, RelE]
    exact ⟨this.1.symm, this.2⟩

theorem gDictSet_hom (d : List (GItem C)) (e : GItem C) :
    (gDictSet d e).map (mapI h) = gDictSet (d.map (mapI h)) (mapI h e) := by
  induction d with
  | nil => rfl
  | cons x r ih =>
    by_cases hx : x.1 = e.1
    · simp [gDictSet, mapI, hx]
    · simp only [mapI] at ih
      simp only [gDictSet, mapI, hx, List.map_cons, if_false, ih]

theorem gDictSet_P (d : List (GItem C)) (e : GItem C) (hd : ∀ x ∈ d, P x.2) (he : P e.2) :
    ∀ x ∈ gDictSet d e, P x.2 := by
  induction d with
  | nil => intro x hx; simp only [gDictSet, List.mem_singleton] at hx; subst hx; exact he
  | cons y r ih =>
    intro x hx
    simp only [gDictSet] at hx
    split at hx
    · rcases List.mem_cons.mp hx with rfl | hx
      · exact he
      · exact hd x (List.mem_cons_of_mem _ hx)
    · rcases List.mem_cons.mp hx with rfl | hx
      · exact hd _ (by simp)
      · exact ih (fun z hz => hd z (List.mem_cons_of_mem _ hz)) x hx

theorem iproduct_map {α β : Type} (f : α → β) : ∀ (xss : List (List α)),
    iproduct (xss.map (List.map f)) = (iproduct xss).map (List.map f)
  | [] => rfl
  | xs :: rest => by
    simp only [List.map_cons, iproduct, iproduct_map f rest, List.flatMap_map, List.map_flatMap, List.map_map]
    rfl

theorem mem_iproduct {α : Type} : ∀ (xss : List (List α)) (p : List α), p ∈ iproduct xss → ∀ x ∈ p, ∃ xs ∈ xss, x ∈ xs
  | [], p, hp, x, hx => by
    simp only [iproduct, List.mem_singleton] at hp
    subst hp; cases hx
  | xs :: rest, p, hp, x, hx => by
    simp only [iproduct, List.mem_flatMap, List.mem_map] at hp
    obtain ⟨y, hy, q, hq, rfl⟩ := hp
    rcases List.mem_cons.mp hx with rfl | hx
    · exact ⟨xs, by simp, hy⟩
    · obtain ⟨zs, hzs, hz⟩ := mem_iproduct rest q hq x hx
      exact ⟨zs, List.mem_cons_of_mem _ hzs, hz⟩

/-- factor lists related by `h` -/
def FRel (h : C → D) (P : C → Prop) (fs : List (List (GItem C))) (gs : List (List (GItem D))) : Prop :=
  gs = fs.map (List.map (mapI h)) ∧ ∀ f ∈ fs, ∀ x ∈ f, P x.2

theorem gNames_hom (fs : List (List (GItem C))) : gNames (fs.map (List.map (mapI h))) = gNames fs := by
  simp only [gNames, ← List.map_reverse, iproduct_map, List.map_map]
  apply List.map_congr_left
  intro p _
  simp [Function.comp_def, mapI, List.map_map]

theorem gSolo_hom (fs : List (List (GItem C))) :
    gSolo (fs.map (List.map (mapI h))) = (gSolo fs).map (mapI h) := by
  simp only [gSolo, List.filter_map, Function.comp_def, List.length_map, List.map_flatten, List.map_map]

theorem gFastFactors_hom (H : Hom oc od P h) (fs : List (List (GItem C))) (hfs : ∀ f ∈ fs, ∀ x ∈ f, P x.2) :
    RelE (FRel h P) (gFastFactors oc fs) (gFastFactors od (fs.map (List.map (mapI h)))) := by
  have hsoloP : ∀ x ∈ gSolo fs, P x.2 := by
    intro x hx
    simp only [gSolo, List.mem_flatten, List.mem_filter] at hx
    obtain ⟨f, ⟨hf, _⟩, hxf⟩ := hx
    exact hfs f hf x hxf
  simp only [gFastFactors, gSolo_hom, List.isEmpty_map]
  by_cases he : (gSolo fs).isEmpty = true
  · simp only [he, if_true, RelE]
    exact ⟨rfl, hfs⟩
  · simp only [he, Bool.false_eq_true, if_false]
    have hr := gReduce_hom H ((gSolo fs).map (·.2)) (by
      intro c hc
      obtain ⟨x, hx, rfl⟩ := List.mem_map.mp hc
      exact hsoloP x hx)
    have e1 : ((gSolo fs).map (mapI h)).map (·.2) = ((gSolo fs).map (·.2)).map h := by
      simp [List.map_map, Function.comp_def, mapI]
    have e2 : ((gSolo fs).map (mapI h)).map (·.1) = (gSolo fs).map (·.1) := by
      simp [List.map_map, Function.comp_def, mapI]
    rw [e1, e2]
    rcases RelE.elim hr with ⟨e, h1, h2⟩ | ⟨v, w, h1, h2, rfl, hv⟩
    · rw [h1, h2]; rfl
    · rw [h1, h2]
      show FRel h P _ _
      refine ⟨?_, ?_⟩
      · simp [List.filter_map, Function.comp_def, mapI]
      · intro f hf x hx
        rcases List.mem_append.mp hf with hf | hf
        · exact hfs f (List.mem_filter.mp hf).1 x hx
        · simp only [List.mem_singleton] at hf
          subst hf
          simp only [List.mem_singleton] at hx
          subst hx; exact hv

/-- accumulator of the column loop -/
def ARel (h : C → D) (P : C → Prop) (a : Nat × List (GItem C)) (b : Nat × List (GItem D)) : Prop :=
  b.1 = a.1 ∧ IRel h P a.2 b.2

theorem gStep_hom (H : Hom oc od P h) (names : List String) (scale : Rat)
    (a : Nat × List (GItem C)) (b : Nat × List (GItem D)) (hab : ARel h P a b)
    (rp : List (GItem C)) (hrp : ∀ x ∈ rp, P x.2) :
    RelE (ARel h P) (gStep oc names scale a rp) (gStep od names scale b (rp.map (mapI h))) := by
  obtain ⟨h1, h2, h3⟩ := hab
  simp only [gStep, h1]
  cases names[a.1]? with
  | none => simp [RelE]
  | some nm =>
    simp only
    have hr := gReduce_hom H (rp.reverse.map (·.2)) (by
      intro c hc
      obtain ⟨x, hx, rfl⟩ := List.mem_map.mp hc
      exact hrp x (List.mem_reverse.mp hx))
    have e1 : ((rp.map (mapI h)).reverse.map (·.2)) = (rp.reverse.map (·.2)).map h := by
      simp [List.map_map, Function.comp_def, mapI, List.map_reverse]
    rw [e1]
    rcases RelE.elim hr with ⟨e, g1, g2⟩ | ⟨v, w, g1, g2, rfl, hv⟩
    · rw [g1, g2]; rfl
    · rw [g1, g2]
      show ARel h P _ _
      refine ⟨rfl, ?_, ?_⟩
      · show gDictSet b.2 (nm, od.smul scale (h v)) = (gDictSet a.2 (nm, oc.smul scale v)).map (mapI h)
        rw [gDictSet_hom, h2, ← H.smul scale v hv]; rfl
      · exact gDictSet_P a.2 _ h3 (H.psmul scale v hv)

theorem foldE_hom {α β α' β' : Type} (φ : α → α') (Q : α → Prop) (rb : β → β' → Prop)
    (f : β → α → Except MErr β) (g : β' → α' → Except MErr β')
    (hfg : ∀ b b' a, rb b b' → Q a → RelE rb (f b a) (g b' (φ a))) :
    ∀ (l : List α), (∀ a ∈ l, Q a) → ∀ b b', rb b b' → RelE rb (foldE f b l) (foldE g b' (l.map φ))
  | [], _, b, b', hb => by simpa [foldE, RelE] using hb
  | a :: l, hl, b, b', hb => by
    have := hfg b b' a hb (hl a (by simp))
    simp only [foldE, List.map_cons]
    rcases RelE.elim this with ⟨e, e1, e2⟩ | ⟨v, w, e1, e2, hvw⟩
    · rw [e1, e2]; rfl
    · rw [e1, e2]
      exact foldE_hom φ Q rb f g hfg l (fun x hx => hl x (List.mem_cons_of_mem _ hx)) v w hvw

theorem gColumns_hom (H : Hom oc od P h) (fs : List (List (GItem C))) (hfs : ∀ f ∈ fs, ∀ x ∈ f, P x.2) (scale : Rat) :
    RelE (IRel h P) (gColumns oc fs scale) (gColumns od (fs.map (List.map (mapI h))) scale) := by
  have hf := gFastFactors_hom H fs hfs
  simp only [gColumns, gNames_hom]
  rcases RelE.elim hf with ⟨e, e1, e2⟩ | ⟨ff, gg, e1, e2, rfl, hffP⟩
  · rw [e1, e2]; rfl
  · rw [e1, e2]
    simp only
    have hprodP : ∀ p ∈ iproduct ff.reverse, ∀ z ∈ p, P z.2 := by
      intro p hp z hz
      obtain ⟨f, hf, hzf⟩ := mem_iproduct _ p hp z hz
      exact hffP f (List.mem_reverse.mp hf) z hzf
    have := foldE_hom (List.map (mapI h)) (fun (x : List (GItem C)) => ∀ z ∈ x, P z.2)
      (ARel h P) (gStep oc (gNames fs) scale) (gStep od (gNames fs) scale)
      (by
        intro b b' a hb haP
        exact gStep_hom H _ scale b b' hb a haP)
      _ hprodP (0, []) (0, []) ⟨rfl, rfl, by intro x hx; cases hx⟩
    rw [← List.map_reverse, iproduct_map]
    rcases RelE.elim this with ⟨e, g1, g2⟩ | ⟨v, w, g1, g2, hvw⟩
    · rw [g1, g2]; rfl
    · rw [g1, g2]
      exact hvw.2

theorem gMatrix_hom (H : Hom oc od P h) : ∀ (ts : List (GTerm C)), (∀ t ∈ ts, ∀ f ∈ t.factors, ∀ x ∈ f, P x.2) →
    RelE (IRel h P) (gMatrix oc ts) (gMatrix od (ts.map (fun t => ⟨t.scale, t.factors.map (List.map (mapI h))⟩)))
  | [], _ => by simp [gMatrix, RelE, IRel]
  | t :: ts, hts => by
    have h1 := gColumns_hom H t.factors (hts t (by simp)) t.scale
    have h2 := gMatrix_hom H ts (fun t' ht' => hts t' (List.mem_cons_of_mem _ ht'))
    simp only [gMatrix, List.map_cons]
    rcases RelE.elim h1 with ⟨e, e1, e2⟩ | ⟨v, w, e1, e2, rfl, hv⟩
    · rw [e1, e2]; rfl
    · rw [e1, e2]
      simp only
      rcases RelE.elim h2 with ⟨e, g1, g2⟩ | ⟨v', w', g1, g2, rfl, hv'⟩
      · rw [g1, g2]; rfl
      · rw [g1, g2]
        show IRel h P _ _
        refine ⟨by simp, ?_⟩
        intro x hx
        rcases List.mem_append.mp hx with hx | hx
        · exact hv x hx
        · exact hv' x hx

/-! ### the two instances -/

/-- the invariant carried through the sparse pipeline: canonical format and the common row count -/
def PN (n : Nat) (c : SCol) : Prop := c.WF ∧ c.nrows = n

theorem sparseHom (n : Nat) : Hom sparseOps denseOps (PN n) SCol.toDense where
  mul := fun a b ha hb => toDense_mul a b ha.1 hb.1 (ha.2.trans hb.2.symm)
  smul := fun q a _ => toDense_smul q a
  pmul := fun a b ha _ => ⟨wf_mul a b ha.1, ha.2⟩
  psmul := fun q a ha => ⟨wf_smul q a ha.1, ha.2⟩

/-- the categories the encoders use -/
def catsOf (vals : List (Option String)) (levels declared : Option (List String)) : List String :=
  match levels with
  | some l => l
  | none => Encode.levels vals declared

theorem nodup_of_sorted (l : List String) (h : l.Pairwise (· < ·)) : l.Nodup := by
  apply List.Pairwise.imp _ h
  intro a b hab e
  subst e
  exact String.lt_irrefl _ hab

/-- evaluated factor is usable: one value per row, distinct levels -/
def srcOK (n : Nat) : FSrc → Prop
  | .num _ vals => vals.length = n
  | .cat _ vals levels _ => vals.length = n ∧ levels.Nodup
  | .one m => m = n
  | .scalar _ _ m => m = n

theorem encodeSparse_fst (vals : List (Option String)) (levels declared : Option (List String)) (df : Bool) :
    (encodeSparse vals levels declared df).1 = (encodeDense vals levels declared df).1 := rfl

theorem encodeSparse_snd (vals : List (Option String)) (levels declared : Option (List String)) (df : Bool)
    (hnd : (catsOf vals levels declared).Nodup) :
    (encodeSparse vals levels declared df).2.map SCol.toDense = (encodeDense vals levels declared df).2 := by
  have hlv : (if df then (catsOf vals levels declared).drop 1 else catsOf vals levels declared).Nodup := by
    cases df
    · simpa using hnd
    · simpa using hnd.sublist (List.drop_sublist 1 _)
  exact toDense_cscFromCoo _ hlv vals

theorem cscFromCoo_wf (vals : List (Option String)) (lv : List String) :
    ∀ c ∈ cscFromCoo vals.length lv.length (coords (codesOf lv vals)), c.WF ∧ c.nrows = vals.length := by
  intro c hc
  have hlen : (codesOf lv vals).length = vals.length := by simp [codesOf]
  have := wf_cscFromCoo (codesOf lv vals) lv.length c (by rw [hlen]; exact hc)
  exact ⟨this.1, this.2.trans hlen⟩

theorem encodeSparse_wf (vals : List (Option String)) (levels declared : Option (List String)) (df : Bool) :
    ∀ c ∈ (encodeSparse vals levels declared df).2, c.WF ∧ c.nrows = vals.length := by
  intro c hc
  simp only [encodeSparse] at hc
  exact cscFromCoo_wf vals _ c hc

theorem catsOf_some_nodup (vals : List (Option String)) (levels : List String) (h : levels.Nodup) :
    (catsOf vals (some levels) none).Nodup := h

theorem encodeS_hom (n : Nat) (f : FSrc) (hf : srcOK n f) :
    f.encodeS.map (mapI SCol.toDense) = f.encodeD ∧ ∀ x ∈ f.encodeS, PN n x.2 := by
  cases f with
  | num name vals =>
    simp only [srcOK] at hf
    refine ⟨by simp [FSrc.encodeS, FSrc.encodeD, mapI, toDense_ofDense], ?_⟩
    intro x hx
    simp only [FSrc.encodeS, List.mem_singleton] at hx
    subst hx
    exact ⟨wf_ofDense vals, hf⟩
  | one m =>
    simp only [srcOK] at hf
    refine ⟨by simp [FSrc.encodeS, FSrc.encodeD, mapI, toDense_ofDense], ?_⟩
    intro x hx
    simp only [FSrc.encodeS, List.mem_singleton] at hx
    subst hx
    exact ⟨wf_ofDense _, by simp [SCol.ofDense, hf]⟩
  | scalar name v m =>
    simp only [srcOK] at hf
    refine ⟨by simp [FSrc.encodeS, FSrc.encodeD, mapI, toDense_ofDense], ?_⟩
    intro x hx
    simp only [FSrc.encodeS, List.mem_singleton] at hx
    subst hx
    exact ⟨wf_ofDense _, by simp [SCol.ofDense, broadcast, hf]⟩
  | cat name vals levels reduced =>
    obtain ⟨hlen, hnd⟩ := hf
    have h2 := encodeSparse_snd vals (some levels) none false (catsOf_some_nodup vals levels hnd)
    have h1 := encodeSparse_fst vals (some levels) none false
    have hitems : (((encodeSparse vals (some levels) none false).1.zip (encodeSparse vals (some levels) none false).2).map
          (fun p => (catName name p.1 reduced, p.2))).map (mapI SCol.toDense)
        = ((encodeDense vals (some levels) none false).1.zip (encodeDense vals (some levels) none false).2).map
          (fun p => (catName name p.1 reduced, p.2)) := by
      rw [← h2, ← h1, List.zip_map_right, List.map_map, List.map_map]
      rfl
    have hP : ∀ x ∈ ((encodeSparse vals (some levels) none false).1.zip (encodeSparse vals (some levels) none false).2).map
          (fun p => (catName name p.1 reduced, p.2)), PN n x.2 := by
      intro x hx
      obtain ⟨p, hp, rfl⟩ := List.mem_map.mp hx
      have hp2 : p.2 ∈ (encodeSparse vals (some levels) none false).2 := (List.of_mem_zip hp).2
      simp only [encodeSparse] at hp2
      have := wf_cscFromCoo (codesOf levels vals) _ p.2 (by simpa [codesOf] using hp2)
      refine ⟨this.1, ?_⟩
      rw [this.2]; simpa [codesOf] using hlen
    constructor
    · simp only [FSrc.encodeS, FSrc.encodeD]
      cases reduced
      · simpa using hitems
      · simp only [if_true, List.map_drop]
        rw [hitems]
    · intro x hx
      simp only [FSrc.encodeS] at hx
      cases reduced
      · exact hP x (by simpa using hx)
      · exact hP x (List.mem_of_mem_drop (i := 1) (by simpa using hx))

end FormulaicVerif.Proofs.C05
