import FormulaicVerif.Proofs.C15Step
/-! Helper lemmas for C15: the recorded span of a token delimits the source characters its text is
made of (`span_delimits_text`). -/
namespace FormulaicVerif.Proofs.C15Text
open FormulaicVerif FormulaicVerif.Model FormulaicVerif.Proofs.C15Step

/-- source positions `a … b`, both inclusive -/
def slice (src : List Char) (a b : Nat) : List Char := (src.take (b + 1)).drop a

theorem slice_eq (src : List Char) (a b : Nat) : slice src a b = (src.drop a).take (b + 1 - a) := by
  unfold slice; exact List.drop_take

/-- the first character of a token with span `a … b`: it is the source character at `a`, unless the
token was opened by a quote character `%`, `{` or backtick at `a`, which is not part of the text (the
text then lies strictly after `a`) -/
def FirstOK (src : List Char) (a b : Nat) (t : Tok) : Prop :=
  t.text.head? = src[a]? ∨
    ((src[a]? = some '%' ∨ src[a]? = some '{' ∨ src[a]? = some '`') ∧ t.text.Sublist (slice src (a + 1) b))

/-- an emitted token: its span lies inside the source, its text is a subsequence of the source
characters inside the span, and ends with the source character at `stop` -/
def Good (src : List Char) (t : Tok) : Prop :=
  ∃ a b, t.start = some a ∧ t.stop = some b ∧ a ≤ b ∧ b < src.length ∧
    t.text.Sublist (slice src a b) ∧ t.text.getLast? = src[b]? ∧ FirstOK src a b t

/-- the pending token, before position `i` is consumed -/
def PendOK (src : List Char) (i : Nat) (t : Tok) : Prop :=
  match t.start with
  | none => t.text = []
  | some a => ∃ b, t.stop = some b ∧ a ≤ b ∧ b < i ∧ b < src.length ∧
      t.text.Sublist (slice src a b) ∧ (t.text ≠ [] → t.text.getLast? = src[b]?) ∧ FirstOK src a b t

def TInv (src : List Char) (i : Nat) (s : LexState) : Prop :=
  PendOK src i s.tok ∧ ∀ t ∈ s.out, Good src t

/-- appending the character at `i` to a text that lies in `a … j-1`, `j ≤ i`, gives a text that lies in `a … i` -/
theorem sub_snoc {src text : List Char} {a j i : Nat} {c : Char} (haj : a ≤ j) (hji : j ≤ i)
    (hc : src[i]? = some c) (h : text.Sublist ((src.take j).drop a)) :
    (text ++ [c]).Sublist (slice src a i) := by
  have hil : i < src.length := by
    rcases Nat.lt_or_ge i src.length with hl | hl
    · exact hl
    · rw [List.getElem?_eq_none hl] at hc; cases hc
  unfold slice
  have e1 : src.take (i + 1) = src.take i ++ [c] := by
    rw [List.take_add_one, hc]; rfl
  have e2 : (src.take i).length = i := by rw [List.length_take]; omega
  rw [e1, List.drop_append_of_le_length (by omega)]
  refine List.Sublist.append (h.trans ?_) (List.Sublist.refl _)
  have e3 : src.take j = (src.take i).take j := by rw [List.take_take, Nat.min_eq_left hji]
  rw [e3]
  exact (List.take_sublist _ _).drop _

theorem lt_of_cur {src : List Char} {i : Nat} {c : Char} (hc : src[i]? = some c) : i < src.length := by
  rcases Nat.lt_or_ge i src.length with hl | hl
  · exact hl
  · rw [List.getElem?_eq_none hl] at hc; cases hc

theorem nonempty_iff (t : Tok) : t.nonempty = true ↔ t.text ≠ [] := by
  cases h : t.text <;> simp [Tok.nonempty, h]

theorem pend_update {src : List Char} {i : Nat} {tok : Tok} (c : Char) (k : Option TKind)
    (hc : src[i]? = some c) (h : PendOK src i tok) : PendOK src (i + 1) (tok.update c i k) := by
  have hil := lt_of_cur hc
  unfold PendOK at *
  cases hs : tok.start with
  | none =>
    rw [hs] at h
    simp only [Tok.update, hs, h, List.nil_append]
    refine ⟨i, rfl, Nat.le_refl _, Nat.lt_succ_self _, hil, ?_, fun _ => by simp [hc], Or.inl (by simp [hc])⟩
    exact sub_snoc (text := []) (j := i) (Nat.le_refl _) (Nat.le_refl _) hc (List.nil_sublist _)
  | some a =>
    rw [hs] at h
    obtain ⟨b, hb, hab, hbi, hbl, hsub, _, hfirst⟩ := h
    simp only [Tok.update, hs]
    refine ⟨i, rfl, by omega, Nat.lt_succ_self _, hil, ?_, fun _ => by simp [hc], ?_⟩
    · exact sub_snoc (j := b + 1) (by omega) (by omega) hc hsub
    · rcases hfirst with hf | ⟨ho, hf⟩
      · left
        have hal : a < src.length := by omega
        rw [List.getElem?_eq_getElem hal] at hf
        rw [List.head?_append, hf, List.getElem?_eq_getElem hal]; rfl
      · right
        exact ⟨ho, sub_snoc (j := b + 1) (by omega) (by omega) hc hf⟩

theorem pend_flush {src : List Char} {i : Nat} {tok : Tok} (h : PendOK src i tok) (hn : tok.nonempty = true) :
    Good src tok := by
  have hne := (nonempty_iff _).mp hn
  unfold PendOK at h
  cases hs : tok.start with
  | none => rw [hs] at h; exact absurd h hne
  | some a =>
    rw [hs] at h
    obtain ⟨b, hb, hab, _, hbl, hsub, hlast, hfirst⟩ := h
    exact ⟨a, b, hs, hb, hab, hbl, hsub, hlast hne, hfirst⟩

theorem pend_fresh (src : List Char) (i : Nat) : PendOK src i Tok.fresh := by
  unfold PendOK; simp [Tok.fresh]

theorem pend_mono {src : List Char} {i : Nat} {tok : Tok} (h : PendOK src i tok) : PendOK src (i + 1) tok := by
  unfold PendOK at *
  cases hs : tok.start with
  | none => rw [hs] at h; exact h
  | some a =>
    rw [hs] at h
    obtain ⟨b, hb, hab, hbi, rest⟩ := h
    exact ⟨b, hb, hab, by omega, rest⟩

theorem pend_opened {src : List Char} {i : Nat} {c : Char} (k : TKind) (hc : src[i]? = some c)
    (ho : c = '%' ∨ c = '{' ∨ c = '`') : PendOK src (i + 1) (Tok.opened k i) := by
  unfold PendOK
  simp only [Tok.opened]
  refine ⟨i, rfl, Nat.le_refl _, Nat.lt_succ_self _, lt_of_cur hc, List.nil_sublist _, fun h => absurd rfl h,
    Or.inr ⟨?_, List.nil_sublist _⟩⟩
  rw [hc]
  rcases ho with rfl | rfl | rfl
  · exact Or.inl rfl
  · exact Or.inr (Or.inl rfl)
  · exact Or.inr (Or.inr rfl)

theorem out_cons {src : List Char} {i : Nat} {s : LexState} (h : TInv src i s) (hn : s.tok.nonempty = true) :
    ∀ t ∈ s.tok :: s.out, Good src t := by
  intro t ht
  rcases List.mem_cons.mp ht with rfl | ht
  · exact pend_flush h.1 hn
  · exact h.2 t ht

theorem tinv_closed (src : List Char) : Closed (fun i c => src[i]? = some c) (TInv src) where
  upd := by
    intro i s c k q t h hc _
    exact ⟨pend_update c k hc h.1, h.2⟩
  flush := by
    intro i s h _ _
    unfold LexState.flush
    by_cases hn : s.tok.nonempty = true
    · rw [if_pos hn]; exact ⟨pend_fresh _ _, out_cons h hn⟩
    · rw [if_neg hn]; exact h
  mono := fun h => ⟨pend_mono h.1, h.2⟩
  emit := by
    intro i s h hn _
    exact ⟨pend_fresh _ _, out_cons h hn⟩
  reset := by
    intro i s h _ _
    exact ⟨pend_fresh _ _, h.2⟩
  requote := by
    intro i s q h _ _
    exact ⟨pend_mono h.1, h.2⟩
  opened := by
    intro i s c k q h hc ho _
    by_cases hn : s.tok.nonempty = true
    · simp only [hn, if_true]
      exact ⟨pend_opened k hc ho, out_cons h hn⟩
    · simp only [hn]
      exact ⟨pend_opened k hc ho, h.2⟩
  ctx := by
    intro i s c h hc
    refine ⟨pend_mono h.1, ?_⟩
    intro t ht
    rcases List.mem_cons.mp ht with rfl | ht
    · exact pend_flush (pend_update c (some .context) hc (pend_fresh src i)) (by simp [Tok.nonempty, Tok.update])
    · exact h.2 t ht

/-- every token of a successfully tokenised string satisfies `Good` -/
theorem tokens_good (cs : List CharInfo) (ts : List Tok) (h : tokenize cs = .ok ts) :
    ∀ t ∈ ts, Good (cs.map (·.c)) t := by
  have h0 : TInv (cs.map (·.c)) 0 {} := ⟨by unfold PendOK; rfl, by simp⟩
  have hcur : ∀ j (hj : j < cs.length), (cs.map (·.c))[j]? = some cs[j].c := by
    intro j hj; simp [hj]
  obtain ⟨s, hs, rfl⟩ := tokenize_closed (tinv_closed _) cs ts h0 hcur h
  intro t ht
  rw [List.mem_reverse] at ht
  by_cases hn : s.tok.nonempty = true
  · simp only [hn, if_true] at ht; exact out_cons hs hn t ht
  · simp only [hn] at ht; exact hs.2 t ht

/-- **The span delimits the text.** For every token of a successfully tokenised string: the span
`start = a ≤ stop = b` lies inside the string; the text is a subsequence (in order) of the source
characters at positions `a … b`; its last character is the source character at `b`; and its first
character is the source character at `a`, unless position `a` holds the `%`, `{` or backtick that
opened the token, in which case the text is a subsequence of positions `a+1 … b`. -/
theorem span_delimits_text (cs : List CharInfo) (ts : List Tok) (h : tokenize cs = .ok ts) :
    ∀ t ∈ ts, ∃ a b, t.start = some a ∧ t.stop = some b ∧ a ≤ b ∧ b < cs.length ∧
      t.text.Sublist (((cs.map (·.c)).drop a).take (b + 1 - a)) ∧
      t.text.getLast? = (cs.map (·.c))[b]? ∧
      (t.text.head? = (cs.map (·.c))[a]? ∨
        (((cs.map (·.c))[a]? = some '%' ∨ (cs.map (·.c))[a]? = some '{' ∨ (cs.map (·.c))[a]? = some '`') ∧
          t.text.Sublist (((cs.map (·.c)).drop (a + 1)).take (b - a)))) := by
  intro t ht
  obtain ⟨a, b, h1, h2, h3, h4, h5, h6, h7⟩ := tokens_good cs ts h t ht
  refine ⟨a, b, h1, h2, h3, by simpa using h4, ?_, h6, ?_⟩
  · rw [← slice_eq]; exact h5
  · rcases h7 with h7 | ⟨ho, h7⟩
    · exact Or.inl h7
    · refine Or.inr ⟨ho, ?_⟩
      rw [slice_eq] at h7
      rw [show b - a = b + 1 - (a + 1) by omega]; exact h7

end FormulaicVerif.Proofs.C15Text
