import FormulaicVerif.Proofs.C03Encode
import FormulaicVerif.Proofs.C03Flatten
import FormulaicVerif.Proofs.C03Model
import FormulaicVerif.Proofs.C03Matrix
import FormulaicVerif.Proofs.C03Codings
/-! C03: the factor cache that `Model.Crossed` computes from a design description IS a fully crossed design in the
sense of `Proofs/C03Matrix.lean`, with per-factor codings that satisfy `Hyp` — for every design, every built-in contrast. -/
namespace FormulaicVerif.Proofs.C03Crossed
open FormulaicVerif.Model FormulaicVerif.Spec FormulaicVerif.Model.Crossed
open FormulaicVerif.Model.Contrasts (Label Contrast)
open FormulaicVerif.Proofs.C03Model FormulaicVerif.Proofs.C03Encode FormulaicVerif.Proofs.C03Flatten

/-! ### the frame -/

theorem forall₂_getElem? {α β} {R : α → β → Prop} {p : List α} {q : List β} (h : List.Forall₂ R p q) (c : ℕ)
    (hc : c < q.length) : ∃ a, p[c]? = some a ∧ R a (q[c]'hc) := by
  induction h generalizing c with
  | nil => simp at hc
  | cons hab _ ih =>
    cases c with
    | zero => exact ⟨_, rfl, hab⟩
    | succ c => simpa using ih c (by simpa using hc)

/-- every row has an entry for every column, below the number of levels of the column -/
theorem row_entry (d : Design) {r : List ℕ} (hr : r ∈ rows d) (c : ℕ) (hc : c < d.columns.length) :
    ∃ l, r[c]? = some l ∧ l < (d.columns[c]'hc).size :=
  forall₂_getElem? ((rows_complete d r).mp hr) c hc

/-- the level index of column `c` along the rows -/
def levelsAlong (d : Design) (c : ℕ) : List ℕ := (rows d).map (fun r => r[c]?.getD 0)

theorem levelsAlong_lt (d : Design) (c : ℕ) (hc : c < d.columns.length) :
    ∀ l ∈ levelsAlong d c, l < (d.columns[c]'hc).size := by
  intro l hl
  obtain ⟨r, hr, rfl⟩ := List.mem_map.mp hl
  obtain ⟨l', h1, h2⟩ := row_entry d hr c hc
  simp [h1, h2]

theorem labelColumn_eq (d : Design) (levels : List Label) (c : ℕ) (hc : c < d.columns.length) :
    labelColumn levels c (rows d) = (levelsAlong d c).map (fun l => levels[l]?) := by
  simp only [labelColumn, levelsAlong, List.map_map]
  apply List.map_congr_left
  intro r hr
  obtain ⟨l, h1, _⟩ := row_entry d hr c hc
  simp [h1]

theorem numColumn_eq (d : Design) (vs : List ℚ) (c : ℕ) (hc : c < d.columns.length)
    (hsize : (d.columns[c]'hc).size = vs.length) :
    numColumn vs c (rows d) = .ok ((levelsAlong d c).map (fun l => vs[l]?.getD 0)) := by
  have key : ∀ rs : List (List ℕ), (∀ r ∈ rs, r ∈ rows d) →
      numColumn vs c rs = .ok (rs.map (fun r => vs[r[c]?.getD 0]?.getD 0)) := by
    intro rs
    induction rs with
    | nil => intro _; rfl
    | cons r rest ih =>
      intro hall
      obtain ⟨l, h1, h2⟩ := row_entry d (hall r (by simp)) c hc
      have hl : l < vs.length := by omega
      simp only [numColumn, h1, List.getElem?_eq_getElem hl, ih (fun x hx => hall x (by simp [hx])),
        List.map_cons, Option.getD_some]
  rw [key (rows d) (fun r hr => hr)]
  simp [levelsAlong, List.map_map]


/-! ### from an encoding to the flattened items -/

theorem hasDup_of_nodup {l : List Label} (h : l.Nodup) : Contrasts.hasDup l = false := by
  induction l with
  | nil => rfl
  | cons a r ih =>
    simp only [List.nodup_cons] at h
    simp only [Contrasts.hasDup, ih h.2, Bool.or_false]
    simpa using h.1

/-- `as_columns` of an encoding whose columns are known -/
theorem asColumns_eq (names : List Label) (values : List (List ℚ)) (g : ℕ → Col)
    (h : ∀ j, j < names.length → Contrasts.column values j = g j) :
    asColumns names values = ((List.range names.length).zip names).map (fun jn => (fieldOfLabel jn.2, g jn.1)) := by
  unfold asColumns
  apply List.map_congr_left
  intro jn hjn
  have := (List.of_mem_zip hjn).1
  rw [h jn.1 (List.mem_range.mp this)]

theorem zip_range_getElem {α} (l : List α) (j : ℕ) (hj : j < ((List.range l.length).zip l).length) :
    ((List.range l.length).zip l)[j] = (j, l[j]'(by simpa using hj)) := by
  simp

/-- `_encode_evaled_factor` on a dict encoding when nothing is dropped -/
theorem encode_dict_nodrop (f : EvaledFactor) (reduced : Bool) (cols : List (Field × Col))
    (hv : (if reduced then f.encReduced else f.encFull).val = .dict cols)
    (hs : ((if reduced then f.encReduced else f.encFull).spansIntercept && reduced) = false) :
    encodeEvaledFactor f reduced = .ok (flattenDict f.expr reduced
      (if (if reduced then f.encReduced else f.encFull).reducedMeta
        then (if reduced then f.encReduced else f.encFull).fmtReduced.getD (if reduced then f.encReduced else f.encFull).fmt
        else (if reduced then f.encReduced else f.encFull).fmt) cols) := by
  unfold encodeEvaledFactor
  simp only [hv, hs, Bool.false_eq_true, if_false]

/-- `_encode_evaled_factor` on a dict encoding whose first key is the drop field -/
theorem encode_dict_drop (f : EvaledFactor) (key : Field) (v : Col) (rest : List (Field × Col))
    (hv : f.encReduced.val = .dict ((key, v) :: rest)) (hs : f.encReduced.spansIntercept = true)
    (hd : f.encReduced.dropField = some key) :
    encodeEvaledFactor f true = .ok (flattenDict f.expr true (f.encReduced.fmtReduced.getD f.encReduced.fmt) rest) := by
  unfold encodeEvaledFactor
  simp only [if_true, hv, hs, Bool.and_self, hd, delField_head]

/-- single-column encodings -/
theorem encode_single (f : EvaledFactor) (reduced : Bool) (col : Col)
    (hv : (if reduced then f.encReduced else f.encFull).val = .single col) :
    encodeEvaledFactor f reduced = .ok [⟨f.expr, ⟨f.expr, none, reduced⟩, col⟩] := by
  unfold encodeEvaledFactor
  simp only [hv]


/-! ### categorical encodings of the crossed-design model -/

/-- the dictionary of columns of a categorical encoding on the crossed frame: key `names[j]`, column
`row ↦ table[level of the row][j]` -/
def catCols (d : Design) (c : ℕ) (names : List Label) (a : Contrasts.Arr) : List (Field × Col) :=
  ((List.range names.length).zip names).map (fun jn => (fieldOfLabel jn.2, (levelsAlong d c).map (fun l => a l jn.1)))

theorem sparse_out (d : Design) : ((if d.sparse then "sparse" else "pandas") == "sparse") = d.sparse := by
  cases d.sparse <;> rfl

theorem encodeCat_spec (d : Design) (levels : List Label) (decl : Bool) (c : ℕ) (hc : c < d.columns.length)
    (hsize : (d.columns[c]'hc).size = levels.length) (hnd : levels.Nodup) (hne : levels ≠ [])
    (hinf : decl = true ∨ Contrasts.inferLevels (labelColumn levels c (rows d)) = levels)
    (ct : Contrast) (reduced : Bool) (k : Contrasts.Kind) (hk : ct.kind levels = .ok k) (m : List (List ℚ))
    (hm : Contrasts.getCodingMatrix ct levels reduced d.sparse = .ok m)
    (e : Encoded) (h : encodeCat d levels decl c ct reduced = .ok e) :
    ∃ enc : Contrasts.Encoded, e = ofContrasts enc ∧
      enc.format = Contrasts.factorFormat ct reduced ∧ enc.formatReduced = Contrasts.factorFormat ct true ∧
      (((levels.isEmpty || (levels.length == 1 && reduced)) = true ∧ enc.columnNames = [] ∧
          enc.spansIntercept = false ∧ enc.dropField = none) ∨
        ((levels.isEmpty || (levels.length == 1 && reduced)) = false ∧
          Contrasts.codingColumnNames ct levels reduced = .ok enc.columnNames ∧
          enc.spansIntercept = Contrasts.spansIntercept levels reduced ∧
          Contrasts.dropField ct levels reduced = .ok enc.dropField)) ∧
      enc.columnNames.length = (tableOf k levels.length reduced).2 ∧
      asColumns enc.columnNames enc.values = catCols d c enc.columnNames (tableOf k levels.length reduced).1 := by
  unfold encodeCat at h
  have hdata := labelColumn_eq d levels c hc
  -- with or without declared categories the encoder sees `levels`
  have hsome : Contrasts.encodeContrasts (labelColumn levels c (rows d)) ct (if decl then some levels else none) reduced
      (if d.sparse then "sparse" else "pandas") =
      Contrasts.encodeContrasts (labelColumn levels c (rows d)) ct (some levels) reduced
      (if d.sparse then "sparse" else "pandas") := by
    rcases hinf with hdecl | hinf
    · simp [hdecl]
    · cases decl with
      | true => rfl
      | false =>
        simp only [Bool.false_eq_true, if_false]
        rw [encodeContrasts_none _ _ _ _ (by rw [hinf]; exact hasDup_of_nodup hnd), hinf]
  rw [hsome] at h
  cases henc : Contrasts.encodeContrasts (labelColumn levels c (rows d)) ct (some levels) reduced
      (if d.sparse then "sparse" else "pandas") with
  | error x => simp [henc] at h
  | ok p =>
    obtain ⟨enc, cats⟩ := p
    simp only [henc, Except.ok.injEq] at h
    refine ⟨enc, h.symm, ?_⟩
    obtain ⟨_, hf1, hf2, hmeta⟩ := encodeContrasts_meta _ ct levels reduced _ enc cats henc
    refine ⟨hf1, hf2, hmeta, ?_⟩
    rw [hdata] at henc
    have hlv : ∀ l ∈ levelsAlong d c, l < levels.length := by
      intro l hl; rw [← hsize]; exact levelsAlong_lt d c hc l hl
    have hm' : Contrasts.getCodingMatrix ct levels reduced ((if d.sparse then "sparse" else "pandas") == "sparse") = .ok m := by
      rw [sparse_out]; exact hm
    obtain ⟨hlen, hcols⟩ := encode_columns levels hnd hne (levelsAlong d c) hlv ct reduced _ k hk m hm' enc cats henc
    refine ⟨hlen, ?_⟩
    unfold catCols
    exact asColumns_eq enc.columnNames enc.values _ (fun j hj => hcols j (by rw [← hlen]; exact hj))


theorem catCols_length (d : Design) (c : ℕ) (names : List Label) (a : Contrasts.Arr) :
    (catCols d c names a).length = names.length := by simp [catCols]

theorem catCols_getElem (d : Design) (c : ℕ) (names : List Label) (a : Contrasts.Arr) (j : ℕ)
    (hj : j < (catCols d c names a).length) :
    ((catCols d c names a)[j]).2 = (levelsAlong d c).map (fun l => a l j) := by
  simp [catCols]

/-- the items of a flattened categorical dictionary, when nothing is lost -/
theorem flatten_catCols (expr : String) (reduced : Bool) (fmt : Fmt) (cols : List (Field × Col))
    (hlen : (flattenDict expr reduced fmt cols).length = cols.length) (j : ℕ)
    (hj : j < (flattenDict expr reduced fmt cols).length) :
    ((flattenDict expr reduced fmt cols)[j]).col = (cols[j]'(by omega)).2 := by
  have h := flattenDict_eq_map expr reduced fmt cols hlen
  simp only [h, List.getElem_map, mkItem]

/-- what the tensor-rank bridge needs to know about one axis of a design held in a factor cache: the factor's two
flattened encodings, and for each of their columns the function of the level it is (`lv`: the level per row) -/
structure AxisFacts (cache : Cache) (lv : List ℕ) (expr : String) (tabF tabT : List Item) (GF GT : ℕ → ℕ → ℚ) : Prop where
  get : ∃ f, cache.get expr = .ok f ∧ encodeEvaledFactor f false = .ok tabF ∧ encodeEvaledFactor f true = .ok tabT
  colF : ∀ j (hj : j < tabF.length), (tabF[j]).col = lv.map (fun l => GF j l)
  colT : ∀ j (hj : j < tabT.length), (tabT[j]).col = lv.map (fun l => GT j l)

/-- a numeric column of the frame, looked up by name -/
theorem numeric_axis (d : Design) (cache : Cache) (e : String) (c : ℕ) (hc : c < d.columns.length) (vs : List ℚ)
    (hcol : d.columns[c]'hc = .num vs) (ev : Evaled) (hev : evalFactor d (.column e c) = .ok ev)
    (hget : cache.get e = .ok ev.ef) :
    ev.ef.spansIntercept = false ∧
    AxisFacts cache (levelsAlong d c) e
      [⟨e, ⟨e, none, false⟩, (levelsAlong d c).map (fun l => vs[l]?.getD 0)⟩]
      [⟨e, ⟨e, none, true⟩, (levelsAlong d c).map (fun l => vs[l]?.getD 0)⟩]
      (fun _ l => vs[l]?.getD 0) (fun _ l => vs[l]?.getD 0) := by
  have hsize : (d.columns[c]'hc).size = vs.length := by rw [hcol]; rfl
  have hnum := numColumn_eq d vs c hc hsize
  simp only [evalFactor, List.getElem?_eq_getElem hc, hcol, hnum, Except.ok.injEq] at hev
  subst hev
  refine ⟨rfl, ⟨_, hget, ?_, ?_⟩, ?_, ?_⟩
  · exact encode_single _ false _ rfl
  · exact encode_single _ true _ rfl
  · intro j hj
    have : j = 0 := by simpa using hj
    subst this; rfl
  · intro j hj
    have : j = 0 := by simpa using hj
    subst this; rfl


theorem splitEnc_none {r : Except Err Encoded} (h : (splitEnc r).2 = none) : r = .ok (splitEnc r).1 := by
  cases r with
  | ok e => rfl
  | error x => simp [splitEnc] at h

/-- the dictionary a categorical encoding of the crossed frame holds, and the metadata that decide about the drop -/
theorem encodeCat_dict (d : Design) (levels : List Label) (decl : Bool) (c : ℕ) (hc : c < d.columns.length)
    (hsize : (d.columns[c]'hc).size = levels.length) (hnd : levels.Nodup) (hne : levels ≠ [])
    (hinf : decl = true ∨ Contrasts.inferLevels (labelColumn levels c (rows d)) = levels)
    (ct : Contrast) (reduced : Bool) (k : Contrasts.Kind) (hk : ct.kind levels = .ok k) (m : List (List ℚ))
    (hm : Contrasts.getCodingMatrix ct levels reduced d.sparse = .ok m)
    (e : Encoded) (h : encodeCat d levels decl c ct reduced = .ok e) :
    ∃ names : List Label, e.val = .dict (catCols d c names (tableOf k levels.length reduced).1) ∧
      names.length = (tableOf k levels.length reduced).2 ∧ e.reducedMeta = false ∧
      (reduced = true → e.spansIntercept = false) ∧
      (reduced = false → e.spansIntercept = true ∧ Contrasts.codingColumnNames ct levels false = .ok names ∧
        ∃ df, Contrasts.dropField ct levels false = .ok df ∧ e.dropField = df.map fieldOfLabel) := by
  obtain ⟨enc, rfl, _, _, hmeta, hlen, hcols⟩ := encodeCat_spec d levels decl c hc hsize hnd hne hinf ct reduced k hk m hm e h
  refine ⟨enc.columnNames, by simp [ofContrasts, hcols], hlen, rfl, ?_, ?_⟩
  · intro hr
    subst hr
    rcases hmeta with ⟨_, _, hs, _⟩ | ⟨_, _, hs, _⟩
    · simp [ofContrasts, hs]
    · simp [ofContrasts, hs, Contrasts.spansIntercept]
  · intro hr
    subst hr
    have hemp : levels.isEmpty = false := by
      cases levels with
      | nil => exact absurd rfl hne
      | cons a t => rfl
    rcases hmeta with ⟨hsc, _⟩ | ⟨_, hn, hs, hdf⟩
    · simp [hemp] at hsc
    · have hpos : 0 < levels.length := List.length_pos_of_ne_nil hne
      refine ⟨by simp [ofContrasts, hs, Contrasts.spansIntercept, hpos], hn, enc.dropField, hdf, rfl⟩


/-- what is established about a categorical factor of the crossed-design model: both flattened encodings exist, have
at most as many entries as the coding table has columns, and — when none is lost — entry `j` holds the table's column
`j` read along the rows: the identity for the full encoding, the coding matrix `R` for the reduced one -/
structure CatFacts (f : EvaledFactor) (lv : List ℕ) (n : ℕ) (R : Contrasts.Arr) : Prop where
  spans : f.spansIntercept = true
  enc : ∃ tabF tabT, encodeEvaledFactor f false = .ok tabF ∧ encodeEvaledFactor f true = .ok tabT ∧
    tabF.length ≤ n ∧ tabT.length ≤ n - 1 ∧
    (tabF.length = n → ∀ j (hj : j < tabF.length), (tabF[j]).col = lv.map (fun l => Contrasts.eye l j)) ∧
    (tabT.length = n - 1 → ∀ j (hj : j < tabT.length), (tabT[j]).col = lv.map (fun l => R l j))

theorem nodrop_items (f : EvaledFactor) (reduced : Bool) (d : Design) (c : ℕ) (names : List Label) (a : Contrasts.Arr)
    (w : ℕ) (hv : (if reduced then f.encReduced else f.encFull).val = .dict (catCols d c names a))
    (hw : names.length = w)
    (hs : ((if reduced then f.encReduced else f.encFull).spansIntercept && reduced) = false) :
    ∃ tab, encodeEvaledFactor f reduced = .ok tab ∧ tab.length ≤ w ∧
      (tab.length = w → ∀ j (hj : j < tab.length), (tab[j]).col = (levelsAlong d c).map (fun l => a l j)) := by
  refine ⟨_, encode_dict_nodrop f reduced _ hv hs, ?_, ?_⟩
  · rw [← hw, ← catCols_length d c names a]
    exact flattenDict_length_le _ _ _ _
  · intro hlen j hj
    have hl : (catCols d c names a).length = w := by rw [catCols_length, hw]
    rw [flatten_catCols _ _ _ _ (by rw [hlen, hl]) j hj, catCols_getElem]

/-- `C(column, contrast)` on a categorical column of the frame -/
theorem wrapped_axis (d : Design) (e : String) (c : ℕ) (hc : c < d.columns.length) (levels : List Label) (decl : Bool)
    (hcol : d.columns[c]'hc = .cat levels decl) (hnd : levels.Nodup) (hne : levels ≠ [])
    (hinf : decl = true ∨ Contrasts.inferLevels (labelColumn levels c (rows d)) = levels)
    (ct : Contrast) (k : Contrasts.Kind) (hk : ct.kind levels = .ok k) (mF mT : List (List ℚ))
    (hmF : Contrasts.getCodingMatrix ct levels false d.sparse = .ok mF)
    (hmT : Contrasts.getCodingMatrix ct levels true d.sparse = .ok mT)
    (ev : Evaled) (hev : evalFactor d (.wrapped e c ct) = .ok ev) (herrF : ev.errFull = none)
    (herrT : ev.errReduced = none) :
    ev.ef.expr = e ∧ CatFacts ev.ef (levelsAlong d c) levels.length (Model.Contrasts.coding k levels.length) := by
  have hsize : (d.columns[c]'hc).size = levels.length := by rw [hcol]; rfl
  simp only [evalFactor, List.getElem?_eq_getElem hc, hcol, Except.ok.injEq] at hev
  subst hev
  simp only at herrF herrT
  have hF := splitEnc_none herrF
  have hT := splitEnc_none herrT
  obtain ⟨namesF, hvF, hlF, _, _, hsF⟩ := encodeCat_dict d levels decl c hc hsize hnd hne hinf ct false k hk mF hmF _ hF
  obtain ⟨namesT, hvT, hlT, _, hsT, _⟩ := encodeCat_dict d levels decl c hc hsize hnd hne hinf ct true k hk mT hmT _ hT
  refine ⟨rfl, rfl, ?_⟩
  obtain ⟨tabF, h1, h2, h3⟩ := nodrop_items ⟨e, true, .categorical, true, _, _⟩ false d c namesF _ _ hvF hlF (by simp)
  obtain ⟨tabT, g1, g2, g3⟩ := nodrop_items ⟨e, true, .categorical, true, _, _⟩ true d c namesT _ _ hvT hlT
    (by simp [hsT rfl])
  exact ⟨tabF, tabT, h1, g1, by simpa [tableOf] using h2, by simpa [tableOf] using g2,
    by simpa [tableOf] using h3, by simpa [tableOf] using g3⟩


theorem catCols_getElem_fst (d : Design) (c : ℕ) (names : List Label) (a : Contrasts.Arr) (j : ℕ)
    (hj : j < (catCols d c names a).length) :
    ((catCols d c names a)[j]).1 = fieldOfLabel (names[j]'(by simpa [catCols] using hj)) := by
  simp [catCols]

theorem treatment0_coding (n l j : ℕ) : Model.Contrasts.coding (.treatment 0) n l j = Contrasts.eye l (j + 1) := by
  simp [Model.Contrasts.coding, Contrasts.takeCols, Contrasts.skip]

/-- a bare categorical column of the frame: encoded in full for both cache entries, the reference (first) column
deleted by `_encode_evaled_factor` — treatment coding with the first level as reference -/
theorem bare_axis (d : Design) (e : String) (c : ℕ) (hc : c < d.columns.length) (levels : List Label) (decl : Bool)
    (hcol : d.columns[c]'hc = .cat levels decl) (hnd : levels.Nodup) (hne : levels ≠ [])
    (hinf : decl = true ∨ Contrasts.inferLevels (labelColumn levels c (rows d)) = levels)
    (ev : Evaled) (hev : evalFactor d (.column e c) = .ok ev) (herr : ev.errFull = none) :
    ev.ef.expr = e ∧
      CatFacts ev.ef (levelsAlong d c) levels.length (Model.Contrasts.coding (.treatment 0) levels.length) := by
  have hsize : (d.columns[c]'hc).size = levels.length := by rw [hcol]; rfl
  simp only [evalFactor, List.getElem?_eq_getElem hc, hcol, Except.ok.injEq] at hev
  subst hev
  simp only at herr
  have hF := splitEnc_none herr
  obtain ⟨e0, he0⟩ : ∃ e0, e0 = (splitEnc (encodeCat d levels decl c (.treatment none) false)).1 := ⟨_, rfl⟩
  rw [← he0] at hF ⊢
  clear herr he0
  have hk : (Contrast.treatment none).kind levels = .ok (.treatment 0) := by
    simp [Contrast.kind, Contrasts.findBaseIndex, Except.map]
  have hm : Contrasts.getCodingMatrix (.treatment none) levels false d.sparse =
      .ok (Contrasts.toRows Contrasts.eye levels.length levels.length) := by
    cases d.sparse <;>
      simp [Contrasts.getCodingMatrix, Contrasts.rawCodingMatrix, Contrasts.codingColumnNames, Contrasts.findBaseIndex,
        bind, Except.bind, pure, Except.pure]
  obtain ⟨names, hv, hl, _, _, hs⟩ := encodeCat_dict d levels decl c hc hsize hnd hne hinf (.treatment none) false
    (.treatment 0) hk _ hm _ hF
  obtain ⟨hsp, hnames, df, hdf, hdrop⟩ := hs rfl
  have hnames' : names = levels := by
    simp [Contrasts.codingColumnNames, Contrasts.findBaseIndex, bind, Except.bind, pure, Except.pure] at hnames
    exact hnames.symm
  subst hnames'
  have hl' : names.length = names.length := rfl
  simp only [tableOf, Bool.false_eq_true, if_false] at hv hl
  refine ⟨rfl, rfl, ?_⟩
  -- full encoding: nothing dropped
  obtain ⟨tabF, h1, h2, h3⟩ := nodrop_items ⟨e, true, .categorical, true, e0, e0⟩ false d c names Contrasts.eye names.length
    hv rfl (by simp)
  -- reduced: the first key is the drop field
  obtain ⟨l0, t, hlt⟩ : ∃ l0 t, names = l0 :: t := by
    cases names with
    | nil => exact absurd rfl hne
    | cons a t => exact ⟨a, t, rfl⟩
  have hdf' : df = some l0 := by
    subst hlt
    simp [Contrasts.dropField] at hdf
    exact hdf.symm
  have hpos : 0 < (catCols d c names Contrasts.eye).length := by
    rw [catCols_length, hlt]; simp
  obtain ⟨x, rest, hcons⟩ : ∃ x rest, catCols d c names Contrasts.eye = x :: rest := by
    cases hcc : catCols d c names Contrasts.eye with
    | nil => rw [hcc] at hpos; simp at hpos
    | cons x rest => exact ⟨x, rest, rfl⟩
  have hx1 : x.1 = fieldOfLabel l0 := by
    have := catCols_getElem_fst d c names Contrasts.eye 0 hpos
    simp only [hcons, List.getElem_cons_zero] at this
    rw [this]
    subst hlt
    rfl
  have hrestlen : rest.length = names.length - 1 := by
    have := catCols_length d c names Contrasts.eye
    rw [hcons] at this
    simp at this
    omega
  have g1 : encodeEvaledFactor ⟨e, true, .categorical, true, e0, e0⟩ true =
      .ok (flattenDict e true (e0.fmtReduced.getD e0.fmt) rest) := by
    apply encode_dict_drop ⟨e, true, .categorical, true, e0, e0⟩ (fieldOfLabel l0) x.2 rest
    · show e0.val = _
      rw [hv, hcons, ← hx1]
    · exact hsp
    · show e0.dropField = _
      rw [hdrop, hdf']; rfl
  refine ⟨tabF, _, h1, g1, h2, ?_, h3, ?_⟩
  · rw [← hrestlen]; exact flattenDict_length_le _ _ _ _
  · intro hlen j hj
    rw [flatten_catCols _ _ _ _ (by rw [hlen, hrestlen]) j hj]
    have hj' : j + 1 < (catCols d c names Contrasts.eye).length := by
      rw [hcons]; simp; omega
    have := catCols_getElem d c names Contrasts.eye (j + 1) hj'
    simp only [hcons, List.getElem_cons_succ] at this
    rw [this]
    apply List.map_congr_left
    intro l _
    exact (treatment0_coding _ l j).symm

end FormulaicVerif.Proofs.C03Crossed
