import FormulaicVerif.Model.PyAlias
/-! Helper lemmas for C15 about the alias pass (`Model/PyAlias.lean`): the scan of
`UNQUOTED_BACKTICK_MATCHER.split` is a partition of the fragment into alternating text / match
parts; shape of the aliases. -/
namespace FormulaicVerif.Proofs.C15Alias
open FormulaicVerif FormulaicVerif.Model.PyAlias

/-! ### the scan -/

theorem closeQuoteAux_eq (q : Char) : ∀ (cs : List Char) (esc : Bool) (b r : List Char),
    closeQuoteAux q cs esc = some (b, r) → cs = b ++ q :: r := by
  intro cs
  induction cs with
  | nil => intro esc b r h; cases esc <;> simp [closeQuoteAux] at h
  | cons c cs ih =>
    intro esc b r h
    cases esc with
    | true =>
      simp only [closeQuoteAux] at h
      cases hq : closeQuoteAux q cs false with
      | none => simp [hq] at h
      | some p =>
        obtain ⟨b', r'⟩ := p
        simp only [hq, Option.some.injEq, Prod.mk.injEq] at h
        obtain ⟨rfl, rfl⟩ := h
        simp [ih false b' r' hq]
    | false =>
      simp only [closeQuoteAux] at h
      by_cases hc : (c == q) = true
      · simp only [hc, if_true, Option.some.injEq, Prod.mk.injEq] at h
        obtain ⟨rfl, rfl⟩ := h
        have : c = q := by simpa using hc
        simp [this]
      · simp only [hc, Bool.false_eq_true, if_false] at h
        cases hq : closeQuoteAux q cs (c == '\\') with
        | none => simp [hq] at h
        | some p =>
          obtain ⟨b', r'⟩ := p
          simp only [hq, Option.some.injEq, Prod.mk.injEq] at h
          obtain ⟨rfl, rfl⟩ := h
          simp [ih _ b' r' hq]

/-- what `closeQuote` returns is a decomposition of its input at the closing quote -/
theorem closeQuote_eq (q : Char) (cs b r : List Char) (h : closeQuote q cs = some (b, r)) : cs = b ++ q :: r :=
  closeQuoteAux_eq q cs false b r h

theorem splitFuel_source : ∀ (n : Nat) (cs acc : List Char), cs.length < n →
    (splitFuel n cs acc).flatMap Part.source = acc.reverse ++ cs := by
  intro n
  induction n with
  | zero => intro cs acc h; omega
  | succ n ih =>
    intro cs acc hl
    cases cs with
    | nil => simp [splitFuel, Part.source]
    | cons c cs =>
      have hl' : cs.length < n := by simp at hl; omega
      have hdef : (splitFuel n cs (c :: acc)).flatMap Part.source = acc.reverse ++ c :: cs := by
        rw [ih cs (c :: acc) hl']; simp
      unfold splitFuel
      by_cases h1 : (c == '\\') = true
      · simp only [h1, if_true]
        cases cs with
        | nil => exact hdef
        | cons d ds =>
          by_cases h2 : (d == '"' || d == '\'') = true
          · simp only [h2, if_true, List.flatMap_cons, Part.source]
            have hl2 : ds.length < n := by simp at hl'; omega
            rw [ih ds [] hl2]
            simp
          · simp only [h2, Bool.false_eq_true, if_false]; exact hdef
      · simp only [h1, Bool.false_eq_true, if_false]
        by_cases h3 : (c == '"' || c == '\'') = true
        · simp only [h3, if_true]
          cases hq : closeQuote c cs with
          | none => exact hdef
          | some p =>
            obtain ⟨body, rest⟩ := p
            have hcs := closeQuote_eq c cs body rest hq
            have hl2 : rest.length < n := by rw [hcs] at hl'; simp at hl'; omega
            simp only [List.flatMap_cons, Part.source]
            rw [ih rest [] hl2, hcs]
            simp
        · simp only [h3, Bool.false_eq_true, if_false]
          by_cases h4 : (c == '`') = true
          · simp only [h4, if_true]
            have hc : c = '`' := by simpa using h4
            cases hq : closeQuote '`' cs with
            | none => exact hdef
            | some p =>
              obtain ⟨body, rest⟩ := p
              have hcs := closeQuote_eq '`' cs body rest hq
              have hl2 : rest.length < n := by rw [hcs] at hl'; simp at hl'; omega
              simp only [List.flatMap_cons, Part.source]
              rw [ih rest [] hl2, hcs, hc]
              simp
          · simp only [h4, Bool.false_eq_true, if_false]; exact hdef

/-- **the scan is a partition**: the parts of `UNQUOTED_BACKTICK_MATCHER.split(expr)`, put side by
side (a back-quoted name with its quotes), are the fragment -/
theorem split_source (expr : List Char) : (split expr).flatMap Part.source = expr := by
  unfold split
  rw [splitFuel_source (expr.length + 1) expr [] (Nat.lt_succ_self _)]
  simp

/-- a matched part: a whole back-quoted name, or a literal that begins and ends with a character
that is not an ASCII word character (a quote or a backslash) -/
def IsMatch : Part → Prop
  | .text _ => False
  | .lit t => ∃ d mid d', t = d :: mid ++ [d'] ∧ asciiWord d = false ∧ asciiWord d' = false
  | .name _ => True

/-- the shape of what `re.split` returns for a pattern with one group: text, match, text, …, text -/
inductive Alt : List Part → Prop
  | last (t : List Char) : Alt [.text t]
  | cons (t : List Char) (m : Part) (rest : List Part) : IsMatch m → Alt rest → Alt (.text t :: m :: rest)

theorem asciiWord_quote {c : Char} (h : (c == '"' || c == '\'') = true) : asciiWord c = false := by
  rcases (by simpa using h : c = '"' ∨ c = '\'') with rfl | rfl <;> decide

theorem splitFuel_alt : ∀ (n : Nat) (cs acc : List Char), Alt (splitFuel n cs acc) := by
  intro n
  induction n with
  | zero => intro cs acc; unfold splitFuel; exact .last _
  | succ n ih =>
    intro cs acc
    cases cs with
    | nil => unfold splitFuel; exact .last _
    | cons c cs =>
      unfold splitFuel
      by_cases h1 : (c == '\\') = true
      · simp only [h1, if_true]
        have hc : c = '\\' := by simpa using h1
        cases cs with
        | nil => exact ih _ _
        | cons d ds =>
          by_cases h2 : (d == '"' || d == '\'') = true
          · simp only [h2, if_true]
            refine .cons _ _ _ ⟨c, [], d, by simp, by rw [hc]; decide, asciiWord_quote h2⟩ (ih _ _)
          · simp only [h2, Bool.false_eq_true, if_false]; exact ih _ _
      · simp only [h1, Bool.false_eq_true, if_false]
        by_cases h3 : (c == '"' || c == '\'') = true
        · simp only [h3, if_true]
          cases hq : closeQuote c cs with
          | none => exact ih _ _
          | some p =>
            obtain ⟨body, rest⟩ := p
            exact .cons _ _ _ ⟨c, body, c, rfl, asciiWord_quote h3, asciiWord_quote h3⟩ (ih _ _)
        · simp only [h3, Bool.false_eq_true, if_false]
          by_cases h4 : (c == '`') = true
          · simp only [h4, if_true]
            cases hq : closeQuote '`' cs with
            | none => exact ih _ _
            | some p =>
              obtain ⟨body, rest⟩ := p
              exact .cons _ _ _ trivial (ih _ _)
          · simp only [h4, Bool.false_eq_true, if_false]; exact ih _ _

theorem split_alt (expr : List Char) : Alt (split expr) := splitFuel_alt _ _ _

/-! ### the aliases -/

theorem asciiWord_of_isDigit {c : Char} (h : c.isDigit = true) : asciiWord c = true := by
  simp [asciiWord, Char.isAlphanum, h]

theorem baseName_word (name : List Char) : ∀ c ∈ baseName name, asciiWord c = true := by
  have hm : ∀ c ∈ name.map (fun c => if asciiWord c then c else '_'), asciiWord c = true := by
    intro c hc
    simp only [List.mem_map] at hc
    obtain ⟨d, _, rfl⟩ := hc
    by_cases hd : asciiWord d = true
    · simp [hd]
    · simp only [hd, Bool.false_eq_true, if_false]; decide
  intro c hc
  unfold baseName at hc
  simp only at hc
  split at hc
  · simp only [List.mem_singleton] at hc; subst hc; decide
  · rename_i d ds heq
    split at hc
    · rcases List.mem_cons.mp hc with rfl | h
      · decide
      · exact hm c (heq ▸ h)
    · exact hm c (heq ▸ hc)

theorem baseName_ne (name : List Char) : baseName name ≠ [] := by
  unfold baseName
  simp only
  split
  · simp
  · split <;> simp_all

/-- the base name never starts with a digit -/
theorem baseName_head (name : List Char) : ∀ c, (baseName name).head? = some c → c.isDigit = false := by
  intro c hc
  unfold baseName at hc
  simp only at hc
  split at hc
  · simp at hc; subst hc; decide
  · rename_i d ds heq
    split at hc
    · simp at hc; subst hc; decide
    · rename_i hd
      rw [heq] at hc
      simp at hc; subst hc; simpa using hd

theorem repr_word (k : Nat) : ∀ c ∈ (Nat.repr k).toList, asciiWord c = true := by
  intro c hc
  rw [Nat.toList_repr] at hc
  exact asciiWord_of_isDigit (Nat.isDigit_of_mem_toDigits (by decide) (by decide) hc)

theorem candidate_word (pre base : List Char) (k : Nat) (hpre : ∀ c ∈ pre, asciiWord c = true)
    (hbase : ∀ c ∈ base, asciiWord c = true) : ∀ c ∈ candidate pre base k, asciiWord c = true := by
  intro c hc
  unfold candidate at hc
  split at hc
  · rcases List.mem_append.mp hc with h | h
    · exact hpre c h
    · exact hbase c h
  · simp only [List.mem_append, List.mem_cons] at hc
    rcases hc with (h | h) | rfl | h
    · exact hpre c h
    · exact hbase c h
    · decide
    · exact repr_word k c h

theorem candidate_ne (pre base : List Char) (k : Nat) (hbase : base ≠ []) : candidate pre base k ≠ [] := by
  unfold candidate
  split <;> simp [hbase]

theorem findFree_some (x : Ctx) (name pre base : List Char) : ∀ (fuel k : Nat) (a : List Char),
    findFree x name pre base fuel k = some a → ∃ j, a = candidate pre base j ∧ taken x name a = false := by
  intro fuel
  induction fuel with
  | zero =>
    intro k a h
    unfold findFree at h
    split at h
    · simp at h
    · rename_i ht
      simp only [Option.some.injEq] at h
      exact ⟨k, h.symm, by rw [← h]; simpa using ht⟩
  | succ fuel ih =>
    intro k a h
    unfold findFree at h
    split at h
    · exact ih (k + 1) a h
    · rename_i ht
      simp only [Option.some.injEq] at h
      exact ⟨k, h.symm, by rw [← h]; simpa using ht⟩

/-- an ASCII identifier: ASCII word characters only, at least one, the first not a digit -/
def AsciiIdent (a : List Char) : Prop :=
  a ≠ [] ∧ (∀ c ∈ a, asciiWord c = true) ∧ ∀ c, a.head? = some c → c.isDigit = false

/-- a template prefix that keeps aliases identifiers: ASCII word characters, not starting with a digit -/
def GoodPrefix (pre : List Char) : Prop :=
  (∀ c ∈ pre, asciiWord c = true) ∧ ∀ c, pre.head? = some c → c.isDigit = false

theorem candidate_ident (pre name : List Char) (k : Nat) (hp : GoodPrefix pre) :
    AsciiIdent (candidate pre (baseName name) k) := by
  refine ⟨candidate_ne _ _ _ (baseName_ne name), candidate_word _ _ _ hp.1 (baseName_word name), ?_⟩
  intro c hc
  have hhead : ∀ (t : List Char), (pre ++ baseName name ++ t).head? = some c → c.isDigit = false := by
    intro t h
    cases hpre : pre with
    | nil =>
      rw [hpre] at h
      cases hb : baseName name with
      | nil => exact absurd hb (baseName_ne name)
      | cons b bs =>
        rw [hb] at h
        simp at h
        exact baseName_head name c (by rw [hb]; simp [h])
    | cons p ps =>
      rw [hpre] at h
      simp at h
      exact hp.2 c (by rw [hpre]; simp [h])
  unfold candidate at hc
  split at hc
  · exact hhead [] (by simpa using hc)
  · exact hhead _ hc

/-- **what `sanitize_variable_name` returns**: either the name itself (only with the template `{}`,
for a name CPython accepts as an NFKC-stable identifier that is not a keyword and does not already
serve as the alias of another name), or an ASCII identifier that is not a keyword, is not a word of
the code, and is not in use for anything else -/
theorem sanitizeName_spec (cfg : Cfg) (x : Ctx) (name a : List Char) (copy : Bool) (hp : GoodPrefix cfg.pre)
    (h : sanitizeName cfg x name = some (a, copy)) :
    (a = name ∧ cfg.pre = [] ∧ cfg.ident name = true ∧ isKeyword name = false ∧ getOr x.al name name = true) ∨
    (AsciiIdent a ∧ taken x name a = false) := by
  unfold sanitizeName at h
  by_cases hc : (cfg.pre.isEmpty && cfg.ident name && !isKeyword name && getOr x.al name name) = true
  · rw [if_pos hc] at h
    simp only [Option.some.injEq, Prod.mk.injEq] at h
    simp only [Bool.and_eq_true, List.isEmpty_iff, Bool.not_eq_true'] at hc
    exact .inl ⟨h.1.symm, hc.1.1.1, hc.1.1.2, hc.1.2, hc.2⟩
  · rw [if_neg hc] at h
    cases hf : findFree x name cfg.pre (baseName name) (loopBound x) 0 with
    | none => simp [hf] at h
    | some n =>
      simp only [hf, Option.some.injEq, Prod.mk.injEq] at h
      obtain ⟨j, hj, ht⟩ := findFree_some x name cfg.pre (baseName name) _ _ n hf
      refine .inr ⟨?_, ?_⟩
      · rw [← h.1, hj]; exact candidate_ident _ _ _ hp
      · rw [← h.1]; exact ht

/-! ### the alias table -/

theorem assign_cons (p : List Char × List Char) (al : Aliases) (k v : List Char) :
    assign (p :: al) k v =
      if (p.1 == k) = true then (k, v) :: al.map (fun q => if (q.1 == k) = true then (k, v) else q)
      else p :: assign al k v := by
  unfold assign
  by_cases h : (p.1 == k) = true
  · simp only [List.any_cons, h, Bool.true_or, if_true, List.map_cons]
  · simp only [List.any_cons, h, Bool.false_or, List.map_cons, Bool.false_eq_true, if_false]
    by_cases h2 : (al.any fun q => q.1 == k) = true
    · simp only [h2, if_true]
    · simp only [h2, Bool.false_eq_true, if_false, List.cons_append]

theorem lookup_cons (p : List Char × List Char) (al : Aliases) (k : List Char) :
    lookup (p :: al) k = if (p.1 == k) = true then some p.2 else lookup al k := by
  unfold lookup
  by_cases h : (p.1 == k) = true
  · simp only [List.find?_cons, h, if_true]
  · simp only [List.find?_cons, h, Bool.false_eq_true, if_false]

theorem lookup_nil (k : List Char) : lookup [] k = none := rfl

theorem lookup_assign_self (al : Aliases) (k v : List Char) : lookup (assign al k v) k = some v := by
  induction al with
  | nil => simp [assign, lookup]
  | cons p al ih =>
    rw [assign_cons]
    by_cases h : (p.1 == k) = true
    · simp only [h, if_true, lookup_cons, beq_self_eq_true]
    · simp only [h, Bool.false_eq_true, if_false, lookup_cons, ih]

theorem lookup_map_other (al : Aliases) (k v k' : List Char) (hk : (k == k') = false) :
    lookup (al.map (fun q => if (q.1 == k) = true then (k, v) else q)) k' = lookup al k' := by
  induction al with
  | nil => rfl
  | cons q al ih =>
    simp only [List.map_cons, lookup_cons]
    by_cases hq : (q.1 == k) = true
    · have hq' : q.1 = k := by simpa using hq
      simp only [hq, if_true]
      simp only [hk, Bool.false_eq_true, if_false, ih]
      rw [← hq', ] at hk
      simp only [hk, Bool.false_eq_true, if_false]
    · simp only [hq, Bool.false_eq_true, if_false, ih]

theorem lookup_assign_other (al : Aliases) (k v k' : List Char) (hne : k' ≠ k) :
    lookup (assign al k v) k' = lookup al k' := by
  have hk : (k == k') = false := by simpa using fun h : k = k' => hne h.symm
  induction al with
  | nil => simp [assign, lookup_cons, hk]
  | cons p al ih =>
    rw [assign_cons]
    by_cases h : (p.1 == k) = true
    · have hp : p.1 = k := by simpa using h
      simp only [h, if_true, lookup_cons]
      simp only [hk, Bool.false_eq_true, if_false]
      rw [lookup_map_other al k v k' hk]
      rw [← hp] at hk
      simp only [hk, Bool.false_eq_true, if_false]
    · simp only [h, Bool.false_eq_true, if_false, lookup_cons, ih]

/-- assigning `k ↦ v` where `k` is absent or already maps to `v` changes no existing entry -/
theorem lookup_assign_mono (al : Aliases) (k v : List Char) (hfree : getOr al k v = true)
    (k' v' : List Char) (h : lookup al k' = some v') : lookup (assign al k v) k' = some v' := by
  by_cases hk : k' = k
  · subst hk
    rw [lookup_assign_self]
    unfold getOr at hfree
    rw [h] at hfree
    simp only [beq_iff_eq] at hfree
    rw [hfree]
  · rw [lookup_assign_other al k v k' hk, h]

theorem taken_false {x : Ctx} {name a : List Char} (h : taken x name a = false) :
    getOr x.al a name = true ∧ isKeyword a = false ∧ x.reserved.contains a = false := by
  unfold taken at h
  simp only [Bool.or_eq_false_iff, Bool.not_eq_false'] at h
  exact ⟨h.1.1.1, h.1.2, h.2⟩

/-! ### the loop over the parts -/

/-- the text a part contributes to the sanitised expression, relative to an alias table: text and
literals verbatim, a back-quoted name as ` alias ` where the table maps the alias back to the name -/
inductive Rendered (al : Aliases) : Part → List Char → Prop
  | text (t : List Char) : Rendered al (.text t) t
  | lit (t : List Char) : Rendered al (.lit t) t
  | name (b a : List Char) : lookup al a = some b → a ≠ [] → (∀ c ∈ a, asciiWord c = true) →
      Rendered al (.name b) (' ' :: a ++ [' '])

/-- every entry of the first table is an entry of the second -/
def Extends (al al' : Aliases) : Prop := ∀ k v, lookup al k = some v → lookup al' k = some v

theorem Rendered.mono {al al' : Aliases} (h : Extends al al') {p : Part} {r : List Char}
    (hr : Rendered al p r) : Rendered al' p r := by
  cases hr with
  | text => exact .text _
  | lit => exact .lit _
  | name b a hl hne hw => exact .name b a (h a b hl) hne hw

/-- a plain name (template `{}`: the name is used as it is) need not be ASCII: what `Rendered` asks of
an alias is asked under this condition only -/
def NotPlain (cfg : Cfg) : Prop := cfg.pre ≠ []

/-- no key of the table is a reserved word, and no key is empty -/
def KeysOK (reserved : List (List Char)) (al : Aliases) : Prop :=
  ∀ k v, lookup al k = some v → k ≠ [] ∧ reserved.contains k = false

/-- the sanitised text of a list of parts, relative to an alias table -/
inductive RenderedAll (al : Aliases) : List Part → List Char → Prop
  | nil : RenderedAll al [] []
  | cons {p : Part} {r : List Char} {ps : List Part} {rs : List Char} :
      Rendered al p r → RenderedAll al ps rs → RenderedAll al (p :: ps) (r ++ rs)

theorem RenderedAll.mono {al al' : Aliases} (h : Extends al al') {ps : List Part} {r : List Char}
    (hr : RenderedAll al ps r) : RenderedAll al' ps r := by
  induction hr with
  | nil => exact .nil
  | cons h1 _ ih => exact .cons (h1.mono h) ih

theorem step_spec (cfg : Cfg) (res : List (List Char)) (s s' : State) (p : Part) (hp : GoodPrefix cfg.pre)
    (hnp : NotPlain cfg) (hk : KeysOK res s.al) (h : step cfg res s p = some s') :
    Extends s.al s'.al ∧ KeysOK res s'.al ∧ ∃ r, Rendered s'.al p r ∧ s'.out = s.out ++ r := by
  cases p with
  | text t =>
    simp only [step, Option.some.injEq] at h
    rw [← h]
    exact ⟨fun _ _ h => h, hk, t, .text t, rfl⟩
  | lit t =>
    simp only [step, Option.some.injEq] at h
    rw [← h]
    exact ⟨fun _ _ h => h, hk, t, .lit t, rfl⟩
  | name body =>
    simp only [step] at h
    cases hs : sanitizeName cfg { al := s.al, env := s.env, reserved := res } body with
    | none => simp [hs] at h
    | some q =>
      obtain ⟨new, copy⟩ := q
      simp only [hs, Option.some.injEq] at h
      rw [← h]
      rcases sanitizeName_spec cfg _ body new copy hp hs with ⟨_, hpre, _⟩ | ⟨hid, ht⟩
      · exact absurd hpre hnp
      · obtain ⟨hget, _, hres⟩ := taken_false ht
        have hext : Extends s.al (assign s.al new body) := fun k v hl => lookup_assign_mono s.al new body hget k v hl
        refine ⟨hext, ?_, ' ' :: new ++ [' '], .name body new (lookup_assign_self _ _ _) hid.1 hid.2.1, by simp⟩
        intro k v hl
        by_cases hkn : k = new
        · subst hkn; exact ⟨hid.1, hres⟩
        · simp only at hl
          rw [lookup_assign_other _ _ _ _ hkn] at hl; exact hk k v hl

theorem run_spec (cfg : Cfg) (res : List (List Char)) (hp : GoodPrefix cfg.pre) (hnp : NotPlain cfg) :
    ∀ (ps : List Part) (s s' : State), KeysOK res s.al → run cfg res ps s = some s' →
      Extends s.al s'.al ∧ KeysOK res s'.al ∧ ∃ r, RenderedAll s'.al ps r ∧ s'.out = s.out ++ r := by
  intro ps
  induction ps with
  | nil =>
    intro s s' hk h
    simp only [run, Option.some.injEq] at h
    subst h
    exact ⟨fun _ _ h => h, hk, [], .nil, by simp⟩
  | cons p ps ih =>
    intro s s' hk h
    simp only [run] at h
    cases h1 : step cfg res s p with
    | none => simp [h1] at h
    | some s1 =>
      simp only [h1] at h
      obtain ⟨e1, k1, r, hr, ho⟩ := step_spec cfg res s s1 p hp hnp hk h1
      obtain ⟨e2, k2, rs, hrs, ho2⟩ := ih s1 s' k1 h
      refine ⟨fun k v hl => e2 k v (e1 k v hl), k2, r ++ rs, .cons (hr.mono e2) hrs, ?_⟩
      rw [ho2, ho]; simp

end FormulaicVerif.Proofs.C15Alias
