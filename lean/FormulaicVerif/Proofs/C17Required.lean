import FormulaicVerif.Proofs.C17Main
/-! Helper lemmas for C17: which names the reported sets contain. Not obligations. -/
namespace FormulaicVerif.Proofs.C17
open FormulaicVerif.Model.Variables FormulaicVerif.Model.LMap FormulaicVerif.Spec.Variables
variable {ν : Type}

theorem toVar_name (al : List (String × String)) (o : Occ) : (o.toVar al).name = unalias al o.chain := by
  simp only [Occ.toVar]; split <;> rfl

theorem toVar_value (al : List (String × String)) (o : Occ) : (o.toVar al).value = !o.callable := by
  simp only [Occ.toVar]; cases o.callable <;> rfl

/-- a variable of a Python factor (before the source is attached) is the variable of an occurrence -/
theorem exprVariables_mem (c : PyCode) (w : LM ν) (u : Var) (h : u ∈ exprVariables c w) :
    ∃ o ∈ occs c.ast, u.name = unalias c.aliases o.chain ∧
      u.source = layerNameFor w (root (unalias c.aliases o.chain)) := by
  have h1 := mem_dedupFirst _ u h
  obtain ⟨a, ha, hau⟩ := List.mem_map.1 h1
  obtain ⟨o, ho, hoa⟩ := (astVariables_mem c.ast c.aliases a).1 ha
  subst hoa; subst hau
  exact ⟨o, ho, toVar_name _ _, by simp only [toVar_name]⟩

theorem exprVariables_exists (c : PyCode) (w : LM ν) (o : Occ) (ho : o ∈ occs c.ast) :
    ∃ u ∈ exprVariables c w, u.name = unalias c.aliases o.chain := by
  have ha : o.toVar c.aliases ∈ astVariables c.ast c.aliases := (astVariables_mem _ _ _).2 ⟨o, ho, rfl⟩
  have hm := List.mem_map_of_mem (f := fun v : Var => { v with source := layerNameFor w (root v.name) }) ha
  obtain ⟨u, hu, hn⟩ := exists_dedupFirst _ _ hm
  exact ⟨u, hu, by rw [hn]; exact toVar_name _ _⟩

/-! ### successful factors and their variables -/
theorem evalFactors_each (ops : Ops ν) (L : Layers ν) :
    ∀ (fs : List PFactor) (rs : List (ν × List Var)), evalFactors ops L fs = .ok rs →
      ∀ f ∈ fs, ∃ r, evalFactor ops L f = .ok r
  | [], _, _, f, hf => by cases hf
  | g :: fs, rs, h, f, hf => by
    simp only [evalFactors] at h
    cases e1 : evalFactor ops L g with
    | error x => rw [e1] at h; cases h
    | ok r =>
      rw [e1] at h
      cases e2 : evalFactors ops L fs with
      | error x => rw [e2] at h; cases h
      | ok rs' =>
        rcases List.mem_cons.1 hf with h1 | h2
        · subst h1; exact ⟨r, e1⟩
        · exact evalFactors_each ops L fs rs' e2 f h2

/-- the variable of a successful lookup factor -/
theorem lookup_vars (ops : Ops ν) (L : Layers ν) (f : PFactor) (hk : f.kind = .lookup) (r : ν × List Var)
    (h : evalFactor ops L f = .ok r) :
    ∃ layer, firstLayer L f.expr = some (r.1, layer) ∧ r.2 = [Var.ofValue f.expr layer] := by
  rw [evalFactor_lookup ops L f hk] at h
  cases hf : firstLayer L f.expr with
  | none => rw [hf] at h; cases h
  | some p =>
    obtain ⟨v, layer⟩ := p
    rw [hf] at h
    simp only [Except.ok.injEq] at h
    subst h
    exact ⟨layer, rfl, rfl⟩

theorem python_vars (ops : Ops ν) (L : Layers ν) (f : PFactor) (c : PyCode) (hk : f.kind = .python (some c))
    (r : ν × List Var) (h : evalFactor ops L f = .ok r) :
    r.2 = exprVariables c (evalEnv L c.aliases) := by
  rw [evalFactor_python ops L f c hk] at h
  cases hres : reservedHit (evalEnv L c.aliases) with
  | true => rw [hres] at h; cases h
  | false =>
    rw [hres] at h
    simp only [Bool.false_eq_true, if_false] at h
    cases he : eval ops (resolve L (evalEnv L c.aliases)) c.ast with
    | error e => rw [he] at h; cases h
    | ok v => rw [he] at h; simp only [Except.ok.injEq] at h; subst h; rfl

/-- a reported name that is not a dotted chain is a key the formula reads (after materialisation) -/
theorem factor_var_read (ops : Ops ν) (L : Layers ν) (fs : List PFactor) (f : PFactor) (hf : f ∈ fs)
    (r : ν × List Var) (h : evalFactor ops L f = .ok r) (w : Var) (hw : w ∈ r.2)
    (hb : BareVar fs w.name) : w.name ∈ factorReads f := by
  cases hk : f.kind with
  | lookup =>
    obtain ⟨layer, _, h2⟩ := lookup_vars ops L f hk r h
    rw [h2] at hw
    have : w = Var.ofValue f.expr layer := by simpa using hw
    subst this
    simp [factorReads, hk, Var.ofValue]
  | literal =>
    simp only [evalFactor, hk, Except.ok.injEq] at h
    subst h; cases hw
  | python oc =>
    cases oc with
    | none => simp only [evalFactor, hk] at h; cases h
    | some c =>
      rw [python_vars ops L f c hk r h] at hw
      obtain ⟨o, ho, hn, _⟩ := exprVariables_mem c _ w hw
      have hbare := hb f hf c hk o ho hn.symm
      have : o.base ∈ freeNames c.ast := (mem_freeNames_iff o.base c.ast).2 ⟨o, ho, rfl⟩
      simp only [factorReads, hk]
      rw [hn, hbare]
      exact List.mem_map_of_mem this

theorem post_name_read (ops : Ops ν) (L : Layers ν) (fs : List PFactor) (vals : List ν) (vars : List Var)
    (hm : materialize ops L fs = .ok (vals, vars)) (v : String) (hv : v ∈ vars.map (·.name))
    (hb : BareVar fs v) : v ∈ reads fs := by
  obtain ⟨rs, hrs, _, hvars⟩ := materialize_ok ops L fs vals vars hm
  obtain ⟨u, hu, hun⟩ := List.mem_map.1 hv
  rw [hvars] at hu
  obtain ⟨w, hw, hwn, _⟩ := union_from _ u hu
  obtain ⟨f, hf, r, hr, hwr⟩ := (evalFactors_vars ops L fs rs hrs w).1 hw
  have hb' : BareVar fs w.name := by rw [hwn, hun]; exact hb
  have := factor_var_read ops L fs f hf r hr w hwr hb'
  rw [hwn, hun] at this
  exact List.mem_flatMap.2 ⟨f, hf, this⟩

/-! ### before materialisation -/
theorem factorsRequired_mem :
    ∀ (fs : List PFactor) (all : List Var), factorsRequired fs = .ok all →
      ∀ u, u ∈ all ↔ ∃ f ∈ fs, ∃ vs, factorRequired f = .ok vs ∧ u ∈ vs
  | [], all, h => by
    simp only [factorsRequired, Except.ok.injEq] at h
    subst h; intro u; simp
  | g :: fs, all, h => by
    simp only [factorsRequired] at h
    cases e1 : factorRequired g with
    | error x => rw [e1] at h; cases h
    | ok vs =>
      rw [e1] at h
      cases e2 : factorsRequired fs with
      | error x => rw [e2] at h; cases h
      | ok ws =>
        rw [e2] at h
        simp only [Except.ok.injEq] at h
        subst h
        intro u
        have ih := factorsRequired_mem fs ws e2 u
        simp only [List.mem_append, ih]
        constructor
        · rintro (h1 | ⟨f, hf, vs', hv', hu⟩)
          · exact ⟨g, by simp, vs, e1, h1⟩
          · exact ⟨f, by simp [hf], vs', hv', hu⟩
        · rintro ⟨f, hf, vs', hv', hu⟩
          rcases List.mem_cons.1 hf with h1 | h2
          · subst h1; rw [e1] at hv'; cases hv'; exact Or.inl hu
          · exact Or.inr ⟨f, h2, vs', hv', hu⟩

theorem factorsRequired_each :
    ∀ (fs : List PFactor) (all : List Var), factorsRequired fs = .ok all →
      ∀ f ∈ fs, ∃ vs, factorRequired f = .ok vs
  | [], _, _, f, hf => by cases hf
  | g :: fs, all, h, f, hf => by
    simp only [factorsRequired] at h
    cases e1 : factorRequired g with
    | error x => rw [e1] at h; cases h
    | ok vs =>
      rw [e1] at h
      cases e2 : factorsRequired fs with
      | error x => rw [e2] at h; cases h
      | ok ws =>
        rcases List.mem_cons.1 hf with h1 | h2
        · subst h1; exact ⟨vs, e1⟩
        · exact factorsRequired_each fs ws e2 f h2

theorem formulaRequired_ok (fs : List PFactor) (pre : List Var) (h : formulaRequired fs = .ok pre) :
    ∃ all, factorsRequired fs = .ok all ∧ pre = union all := by
  simp only [formulaRequired] at h
  cases e : factorsRequired fs with
  | error x => rw [e] at h; cases h
  | ok all => rw [e] at h; simp only [Except.map, Except.ok.injEq] at h; exact ⟨all, rfl, h.symm⟩

theorem pre_name_read (fs : List PFactor) (pre : List Var) (hp : formulaRequired fs = .ok pre)
    (v : String) (hv : v ∈ pre.map (·.name)) (hb : BareVar fs v) : v ∈ reads fs := by
  obtain ⟨all, hall, hpre⟩ := formulaRequired_ok fs pre hp
  obtain ⟨u, hu, hun⟩ := List.mem_map.1 hv
  rw [hpre] at hu
  obtain ⟨w, hw, hwn, _⟩ := union_from _ u hu
  obtain ⟨f, hf, vs, hvs, hwv⟩ := (factorsRequired_mem fs all hall w).1 hw
  refine List.mem_flatMap.2 ⟨f, hf, ?_⟩
  rw [← hun, ← hwn]
  cases hk : f.kind with
  | lookup =>
    simp only [factorRequired, hk, Except.ok.injEq] at hvs
    subst hvs
    have : w = Var.ofValue f.expr := by simpa using hwv
    subst this
    simp [factorReads, hk, Var.ofValue]
  | literal =>
    simp only [factorRequired, hk, Except.ok.injEq] at hvs
    subst hvs; cases hwv
  | python oc =>
    cases oc with
    | none => simp only [factorRequired, hk] at hvs; cases hvs
    | some c =>
      simp only [factorRequired, hk, Except.ok.injEq] at hvs
      subst hvs
      have h1 := mem_dedupFirst _ w (List.mem_filter.1 hwv).1
      obtain ⟨o, ho, hoa⟩ := (astVariables_mem c.ast c.aliases w).1 h1
      have hn : w.name = unalias c.aliases o.chain := by rw [hoa]; exact toVar_name _ _
      have hbare := hb f hf c hk o ho (by rw [← hn, hwn, hun])
      have : o.base ∈ freeNames c.ast := (mem_freeNames_iff o.base c.ast).2 ⟨o, ho, rfl⟩
      simp only [factorReads, hk]
      rw [hn, hbare]
      exact List.mem_map_of_mem this

end FormulaicVerif.Proofs.C17
