import FormulaicVerif.Proofs.C02NestedPipeline
import Mathlib.Data.List.Induction
/-! Order lemmas for C02: what `_cluster_terms(…, cluster_by="numerical_factors")` does to the term
order, and what a `{name: column}` dictionary makes of a list of columns with repeated names.
Core Lean + `Mathlib.Data.List.Induction` (reverse induction). -/
namespace FormulaicVerif.Proofs.C02N
open FormulaicVerif.Model FormulaicVerif.Model.Nest FormulaicVerif.Spec FormulaicVerif.Spec.Nest
open FormulaicVerif.Proofs.C02

/-! ### first occurrences -/

/-- the distinct elements of a list in order of first occurrence (the key order of a Python dict
filled in list order) -/
def firstKeys {κ} [DecidableEq κ] : List κ → List κ
  | [] => []
  | k :: r => k :: (firstKeys r).filter (· ≠ k)

theorem mem_firstKeys {κ} [DecidableEq κ] {l : List κ} {a : κ} : a ∈ firstKeys l ↔ a ∈ l := by
  induction l with
  | nil => simp [firstKeys]
  | cons k r ih =>
    simp only [firstKeys, List.mem_cons, List.mem_filter, ih, ne_eq, decide_not, Bool.not_eq_eq_eq_not,
      Bool.not_true, decide_eq_false_iff_not]
    by_cases h : a = k <;> simp [h]

theorem firstKeys_nodup {κ} [DecidableEq κ] (l : List κ) : (firstKeys l).Nodup := by
  induction l with
  | nil => simp [firstKeys]
  | cons k r ih =>
    simp only [firstKeys, List.nodup_cons, List.mem_filter, ne_eq, not_true_eq_false, decide_false,
      Bool.false_eq_true, and_false, not_false_eq_true, true_and]
    exact ih.filter _

theorem firstKeys_snoc {κ} [DecidableEq κ] (l : List κ) (a : κ) :
    firstKeys (l ++ [a]) = if a ∈ l then firstKeys l else firstKeys l ++ [a] := by
  induction l with
  | nil => simp [firstKeys]
  | cons k r ih =>
    simp only [List.cons_append, firstKeys, ih, List.mem_cons]
    by_cases hak : a = k
    · subst hak
      simp only [true_or, if_true]
      split
      · rfl
      · simp [List.filter_append]
    · by_cases har : a ∈ r
      · simp [hak, har]
      · simp [hak, har, List.filter_append]

/-! ### `_cluster_terms` -/

/-- the dict of clusters after the terms `p` have been filed: one entry per distinct key in order of
first occurrence, holding the terms with that key in their original order -/
def groupsOf (key : MTerm → List String) (p : List MTerm) : List (List String × List MTerm) :=
  (firstKeys (p.map key)).map (fun k => (k, p.filter (fun t => key t = k)))

theorem clusterAdd_map (ks : List (List String)) (hnd : ks.Nodup) (g : List String → List MTerm)
    (k0 : List String) (t : MTerm) :
    clusterAdd (ks.map (fun k => (k, g k))) k0 t =
      if k0 ∈ ks then ks.map (fun k => (k, if k = k0 then g k ++ [t] else g k))
      else ks.map (fun k => (k, g k)) ++ [(k0, [t])] := by
  induction ks with
  | nil => simp [clusterAdd]
  | cons k r ih =>
    rw [List.nodup_cons] at hnd
    simp only [List.map_cons, clusterAdd]
    by_cases hk : k = k0
    · subst hk
      simp only [if_true, List.mem_cons, true_or]
      congr 1
      apply List.map_congr_left
      intro k' hk'
      have : k' ≠ k := fun e => hnd.1 (e ▸ hk')
      simp [this]
    · have hk' : ¬ k0 = k := fun e => hk e.symm
      simp only [hk, if_false, ih hnd.2, List.mem_cons, hk', false_or]
      split <;> simp

theorem groupsOf_snoc (key : MTerm → List String) (p : List MTerm) (t : MTerm) :
    clusterAdd (groupsOf key p) (key t) t = groupsOf key (p ++ [t]) := by
  unfold groupsOf
  rw [clusterAdd_map _ (firstKeys_nodup _), List.map_append, List.map_cons, List.map_nil, firstKeys_snoc]
  by_cases hm : key t ∈ p.map key
  · have hm' : key t ∈ firstKeys (p.map key) := mem_firstKeys.mpr hm
    simp only [hm, hm', if_true]
    apply List.map_congr_left
    intro k _
    by_cases hk : k = key t
    · subst hk; simp [List.filter_append]
    · have : ¬ key t = k := fun e => hk e.symm
      simp [hk, this, List.filter_append]
  · have hm' : key t ∉ firstKeys (p.map key) := fun h => hm (mem_firstKeys.mp h)
    simp only [hm, hm', if_false, List.map_append, List.map_cons, List.map_nil]
    congr 1
    · apply List.map_congr_left
      intro k hk
      have : ¬ key t = k := fun e => hm' (e ▸ hk)
      simp [this, List.filter_append]
    · have : p.filter (fun t' => key t' = key t) = [] := by
        rw [List.filter_eq_nil_iff]
        intro a ha
        have : key a ≠ key t := fun e => hm (e ▸ List.mem_map.mpr ⟨a, ha, rfl⟩)
        simpa using this
      simp [List.filter_append, this]

theorem clusterLoop_eq (c : Cache) (key : MTerm → List String) (pre ts : List MTerm)
    (hkey : ∀ t ∈ ts, numericalKey c t = .ok (key t)) :
    clusterLoop c (groupsOf key pre) ts = .ok (groupsOf key (pre ++ ts)) := by
  induction ts generalizing pre with
  | nil => simp [clusterLoop]
  | cons t r ih =>
    simp only [clusterLoop, hkey t (by simp), groupsOf_snoc]
    rw [ih (pre ++ [t]) (fun t' ht' => hkey t' (by simp [ht']))]
    simp

/-- `_cluster_terms(terms, cluster_by="numerical_factors")`: the terms are regrouped by their tuple
of numerical factors — groups in order of first occurrence, the terms of a group in formula order -/
theorem clusterTerms_eq (c : Cache) (ts : List MTerm) (key : MTerm → List String)
    (hkey : ∀ t ∈ ts, numericalKey c t = .ok (key t)) :
    clusterTerms c true ts =
      .ok ((firstKeys (ts.map key)).flatMap (fun k => ts.filter (fun t => key t = k))) := by
  unfold clusterTerms
  have := clusterLoop_eq c key [] ts hkey
  simp only [groupsOf, List.map_nil, firstKeys, List.nil_append] at this
  simp only [Bool.not_true, Bool.false_eq_true, if_false, this, List.flatMap_map]

/-! ### dictionaries of columns with repeated names -/

theorem ndictOfList_snoc (l : List NEntry) (x : NEntry) : ndictOfList (l ++ [x]) = ndictSet (ndictOfList l) x := by
  simp [ndictOfList, ndictUpdate, List.foldl_append]

/-- the names of the dictionary: the distinct names in order of first occurrence -/
theorem ndictOfList_names (l : List NEntry) : (ndictOfList l).map (·.name) = firstKeys (l.map (·.name)) := by
  induction l using List.reverseRecOn with
  | nil => rfl
  | append_singleton l x ih =>
    rw [ndictOfList_snoc, ndictSet_names, ih, List.map_append, List.map_cons, List.map_nil, firstKeys_snoc]
    simp only [mem_firstKeys]

theorem mem_ndictSet_nodup {d : List NEntry} (hnd : (d.map (·.name)).Nodup) {x e : NEntry}
    (h : e ∈ ndictSet d x) : e = x ∨ (e ∈ d ∧ e.name ≠ x.name) := by
  induction d with
  | nil => simp [ndictSet] at h; exact .inl h
  | cons y r ih =>
    simp only [List.map_cons, List.nodup_cons] at hnd
    simp only [ndictSet] at h
    split at h
    · rename_i hy
      simp only [List.mem_cons] at h
      rcases h with h | h
      · exact .inl h
      · refine .inr ⟨by simp [h], ?_⟩
        intro hn
        exact hnd.1 (by rw [hy, ← hn]; exact List.mem_map.mpr ⟨e, h, rfl⟩)
    · rename_i hy
      simp only [List.mem_cons] at h
      rcases h with h | h
      · subst h; exact .inr ⟨by simp, hy⟩
      · rcases ih hnd.2 h with h | ⟨h1, h2⟩
        · exact .inl h
        · exact .inr ⟨by simp [h1], h2⟩

/-- the values of the dictionary: every name holds the LAST column of the list that carries it -/
theorem ndictOfList_last (l : List NEntry) : ∀ e ∈ ndictOfList l,
    l.reverse.find? (fun y => y.name == e.name) = some e := by
  induction l using List.reverseRecOn with
  | nil => intro e he; simp [ndictOfList, ndictUpdate] at he
  | append_singleton l x ih =>
    intro e he
    rw [ndictOfList_snoc] at he
    have hnd : ((ndictOfList l).map (·.name)).Nodup := foldl_ndictSet_nodup l [] (by simp)
    simp only [List.reverse_append, List.reverse_cons, List.reverse_nil, List.nil_append, List.singleton_append]
    rcases mem_ndictSet_nodup hnd he with rfl | ⟨h1, h2⟩
    · simp
    · have : (x.name == e.name) = false := by simpa using fun h => h2 h.symm
      simp only [List.find?_cons, this]
      exact ih e h1

end FormulaicVerif.Proofs.C02N
