import FormulaicVerif.Proofs.C19LM
import FormulaicVerif.Proofs.C19Extra
import FormulaicVerif.Spec.LayeredNames
/-! Helper lemmas for C19, part 9: `named_layers` and the writing mixin methods of `LayeredMapping`
(`Model/LayeredOps.lean`). Not obligations. -/
namespace FormulaicVerif.Proofs.C19
open FormulaicVerif.Model FormulaicVerif.Model.LMap FormulaicVerif.Model.LMapX FormulaicVerif.Spec.Containers
open FormulaicVerif.Spec.LayeredNames

variable {ν γ : Type}

theorem foldl_addKey_nodup (xs ks : List String) (h : ks.Nodup) : (xs.foldl addKey ks).Nodup := by
  induction xs generalizing ks with
  | nil => exact h
  | cons x r ih => exact ih _ (addKey_nodup ks x h)

theorem nodup_dictSet (d : List (String × γ)) (k : String) (v : γ) (h : (d.map (·.1)).Nodup) :
    ((St.dictSet d k v).map (·.1)).Nodup := by
  rw [keys_dictSet]; exact addKey_nodup _ _ h

theorem nodup_dictUpdate (d u : List (String × γ)) (h : (d.map (·.1)).Nodup) :
    ((St.dictUpdate d u).map (·.1)).Nodup := by
  rw [keys_dictUpdate]; exact foldl_addKey_nodup _ _ h

mutual
theorem nodup_namedOf : ∀ l : Layer ν, ((namedOf l).map (·.1)).Nodup
  | .dict _ => by simp [namedOf]
  | .lm name muts layers => by
    simp only [namedOf]
    have h := nodup_dictUpdate (namedL layers).1 (namedL layers).2 (nodup_namedL layers).1
    cases named name with
    | none => exact h
    | some n => exact nodup_dictSet _ _ _ h
theorem nodup_namedL : ∀ ls : List (Layer ν),
    (((namedL ls).1).map (·.1)).Nodup ∧ (((namedL ls).2).map (·.1)).Nodup
  | [] => by simp [namedL]
  | .dict d :: rest => by simpa [namedL] using nodup_namedL rest
  | .lm name muts layers :: rest => by
    have ih := nodup_namedL rest
    simp only [namedL]
    refine ⟨nodup_dictUpdate _ _ ih.1, ?_⟩
    cases named name with
    | none => exact ih.2
    | some n => exact nodup_dictSet _ _ _ ih.2
end

theorem lookup_dictUpdate' (d u : List (String × γ)) (hu : (u.map (·.1)).Nodup) (k : String) :
    (St.dictUpdate d u).lookup k = (u.lookup k).or (d.lookup k) := by
  rw [lookup_dictUpdate d u hu k]
  cases u.lookup k <;> rfl

theorem named_some_ne_empty {name : Option String} {n : String} (h : named name = some n) : n ≠ "" := by
  unfold named at h
  cases name with
  | none => simp at h
  | some s =>
    simp only at h
    split at h
    · cases h
    · rename_i hs
      simp only [Option.some.injEq] at h
      subst h
      intro e
      apply hs
      simp [e]

mutual
theorem lookup_namedOf (n : String) : ∀ l : Layer ν, (namedOf l).lookup n = findNamed n l
  | .dict _ => by simp [namedOf, findNamed]
  | .lm name muts layers => by
    obtain ⟨h1, h2⟩ := lookup_namedL n layers
    have hd : (St.dictUpdate (namedL layers).1 (namedL layers).2).lookup n =
        (findDirect n layers).or (findNested n layers) := by
      rw [lookup_dictUpdate' _ _ (nodup_namedL layers).2, h1, h2]
    simp only [namedOf, findNamed]
    cases hn : named name with
    | none =>
      simp only [reduceCtorEq, if_false]
      rw [hd]
      cases findDirect n layers <;> rfl
    | some m =>
      simp only [lookup_dictSet, Option.some.injEq]
      by_cases hm : n = m
      · subst hm; simp
      · have hb : (n == m) = false := by simpa using hm
        have hm' : ¬ m = n := fun e => hm e.symm
        simp only [hb, Bool.false_eq_true, if_false, hm']
        rw [hd]
        cases findDirect n layers <;> rfl
theorem lookup_namedL (n : String) : ∀ ls : List (Layer ν),
    ((namedL ls).2).lookup n = findDirect n ls ∧ ((namedL ls).1).lookup n = findNested n ls
  | [] => by simp [namedL, findDirect, findNested]
  | .dict d :: rest => by
    have ih := lookup_namedL n rest
    simp only [namedL, findDirect, findNested, findNamed]
    exact ih
  | .lm name muts layers :: rest => by
    have ih := lookup_namedL n rest
    have hl := lookup_namedOf n (.lm name muts layers)
    constructor
    · simp only [namedL, findDirect]
      cases hn : named name with
      | none => simp only [reduceCtorEq, if_false]; exact ih.1
      | some m =>
        simp only [lookup_dictSet, Option.some.injEq]
        by_cases hm : n = m
        · subst hm; simp
        · have hb : (n == m) = false := by simpa using hm
          have hm' : ¬ m = n := fun e => hm e.symm
          simp only [hb, Bool.false_eq_true, if_false, hm']
          exact ih.1
    · simp only [namedL, findNested]
      rw [lookup_dictUpdate' _ _ (nodup_namedOf _), hl, ih.2]
      cases findNamed n (.lm name muts layers) <;> rfl
end

theorem findDirect_ne_empty (n : String) : ∀ (ls : List (Layer ν)) (x : Layer ν), findDirect n ls = some x → n ≠ ""
  | [], x, h => by simp [findDirect] at h
  | .dict d :: r, x, h => by simp only [findDirect] at h; exact findDirect_ne_empty n r x h
  | .lm name muts layers :: r, x, h => by
    simp only [findDirect] at h
    split at h
    · rename_i hn; exact named_some_ne_empty hn
    · exact findDirect_ne_empty n r x h

mutual
theorem findNamed_ne_empty (n : String) : ∀ (l x : Layer ν), findNamed n l = some x → n ≠ ""
  | .dict _, x, h => by simp [findNamed] at h
  | .lm name muts layers, x, h => by
    simp only [findNamed] at h
    split at h
    · rename_i hn; exact named_some_ne_empty hn
    · cases hd : findDirect n layers with
      | some y => exact findDirect_ne_empty n layers y hd
      | none =>
        rw [hd] at h
        exact findNested_ne_empty n layers x h
theorem findNested_ne_empty (n : String) : ∀ (ls : List (Layer ν)) (x : Layer ν), findNested n ls = some x → n ≠ ""
  | [], x, h => by simp [findNested] at h
  | l :: r, x, h => by
    simp only [findNested] at h
    cases hl : findNamed n l with
    | some y => exact findNamed_ne_empty n l y hl
    | none => rw [hl] at h; exact findNested_ne_empty n r x h
end

/-! ### the writing mixin methods touch the private layer only -/

theorem del_layers (m m' : LM ν) (k : String) (h : m.del k = .ok m') :
    m'.layers = m.layers ∧ m'.name = m.name ∧ m'.muts = dictDel m.muts k ∧ dictHas m.muts k = true := by
  unfold LM.del at h
  split at h
  · rename_i hh; cases h; exact ⟨rfl, rfl, rfl, hh⟩
  · cases h

theorem pop_layers (m m' : LM ν) (k : String) (d : Option ν) (v : ν) (h : pop m k d = .ok (m', v)) :
    m'.layers = m.layers ∧ m'.name = m.name := by
  unfold pop at h
  cases hg : m.get k with
  | none =>
    rw [hg] at h
    cases d with
    | none => simp at h
    | some d => simp only [Except.ok.injEq, Prod.mk.injEq] at h; rw [← h.1]; exact ⟨rfl, rfl⟩
  | some w =>
    rw [hg] at h
    simp only at h
    cases hd : m.del k with
    | error e => rw [hd] at h; simp at h
    | ok m2 =>
      rw [hd] at h
      simp only [Except.ok.injEq, Prod.mk.injEq] at h
      rw [← h.1]
      exact ⟨(del_layers m m2 k hd).1, (del_layers m m2 k hd).2.1⟩

theorem popitem_layers (m m' : LM ν) (kv : String × ν) (h : popitem m = .ok (m', kv)) :
    m'.layers = m.layers ∧ m'.name = m.name ∧ m'.muts = dictDel m.muts kv.1 ∧ dictHas m.muts kv.1 = true ∧
      m.iter.head? = some kv.1 ∧ m.get kv.1 = some kv.2 := by
  unfold popitem at h
  cases hi : m.iter with
  | nil => rw [hi] at h; simp at h
  | cons k r =>
    rw [hi] at h
    simp only at h
    cases hg : m.get k with
    | none => rw [hg] at h; simp at h
    | some w =>
      rw [hg] at h
      simp only at h
      cases hd : m.del k with
      | error e => rw [hd] at h; simp at h
      | ok m2 =>
        rw [hd] at h
        simp only [Except.ok.injEq, Prod.mk.injEq] at h
        obtain ⟨rfl, rfl⟩ := h
        obtain ⟨a, b, c, d⟩ := del_layers m m2 k hd
        exact ⟨a, b, c, d, by simp, hg⟩

theorem length_dictDel_lt (d : List (String × ν)) (k : String) (h : dictHas d k = true) :
    (dictDel d k).length < d.length := by
  induction d with
  | nil => simp [dictHas] at h
  | cons e r ih =>
    simp only [dictHas, List.any_cons, Bool.or_eq_true] at h
    simp only [dictDel, List.filter_cons]
    by_cases he : e.1 = k
    · have : (e.1 == k) = true := by simpa using he
      simp only [this, Bool.not_true, Bool.false_eq_true, if_false, List.length_cons]
      exact Nat.lt_succ_of_le (List.length_filter_le _ _)
    · have hb : (e.1 == k) = false := by simpa using he
      simp only [hb, Bool.not_false, if_true, List.length_cons]
      have := ih (by simpa [dictHas, hb] using h)
      simp only [dictDel] at this
      omega

theorem popitem_error_of_nil (m : LM ν) (h : m.muts = []) : ∃ e, popitem m = .error e := by
  unfold popitem
  cases m.iter with
  | nil => exact ⟨_, rfl⟩
  | cons k r =>
    simp only
    cases m.get k with
    | none => exact ⟨_, rfl⟩
    | some w =>
      simp only [LM.del, h, dictHas, List.any_nil, Bool.false_eq_true, if_false]
      exact ⟨_, rfl⟩

theorem popitem_ok_of_cons (m : LM ν) (k : String) (v : ν) (r : List (String × ν)) (h : m.muts = (k, v) :: r) :
    ∃ m' kv, popitem m = .ok (m', kv) := by
  have hi : m.iter = k :: ((firstOcc (r.map (·.1) ++ keysL m.layers)).filter (fun y => !(y == k))) := by
    simp [LM.iter, LM.toLayer, Layer.keys, dedup_eq, h, firstOcc]
  have hg : m.get k = some v := by
    simp [LM.get, LM.toLayer, Layer.get, h, List.lookup]
  have hd : dictHas m.muts k = true := by simp [dictHas, h]
  unfold popitem
  rw [hi]
  simp only [hg, LM.del, hd, if_true]
  exact ⟨_, _, rfl⟩

theorem clearLoop_spec : ∀ (fuel : Nat) (m : LM ν), m.muts.length < fuel →
    ∃ m', clearLoop fuel m = some m' ∧ m'.muts = [] ∧ m'.layers = m.layers ∧ m'.name = m.name
  | 0, m, h => by omega
  | fuel + 1, m, h => by
    simp only [clearLoop]
    cases hm : m.muts with
    | nil =>
      obtain ⟨e, he⟩ := popitem_error_of_nil m hm
      rw [he]
      exact ⟨m, rfl, hm, rfl, rfl⟩
    | cons kv r =>
      obtain ⟨k, v⟩ := kv
      obtain ⟨m', kv', hp⟩ := popitem_ok_of_cons m k v r hm
      rw [hp]
      obtain ⟨hl, hn, hmu, hh, _, _⟩ := popitem_layers m m' kv' hp
      have hlt : m'.muts.length < fuel := by
        rw [hmu]
        have := length_dictDel_lt m.muts kv'.1 hh
        omega
      obtain ⟨m2, h2, h3, h4, h5⟩ := clearLoop_spec fuel m' hlt
      exact ⟨m2, h2, h3, by rw [h4, hl], by rw [h5, hn]⟩

theorem update_layers (pairs : List (String × ν)) (m : LM ν) :
    (update m pairs).layers = m.layers ∧ (update m pairs).name = m.name := by
  unfold update
  induction pairs generalizing m with
  | nil => exact ⟨rfl, rfl⟩
  | cons kv r ih =>
    simp only [List.foldl_cons]
    have := ih (m.set kv.1 kv.2)
    exact this

theorem stepX_layers (m m' : LM ν) (op : LMapX.Op ν) (r : LMapX.Res ν) (hw : op.isWithLayers = false)
    (h : LMapX.step m op = .ok (m', r)) : m'.layers = m.layers ∧ m'.name = m.name := by
  cases op with
  | base b =>
    cases b with
    | set k v =>
      simp only [LMapX.step, LMap.step, Except.ok.injEq, Prod.mk.injEq] at h
      rw [← h.1]; exact ⟨rfl, rfl⟩
    | del k =>
      simp only [LMapX.step, LMap.step] at h
      cases hd : m.del k with
      | error e => rw [hd] at h; simp at h
      | ok m2 =>
        rw [hd] at h
        simp only [Except.ok.injEq, Prod.mk.injEq] at h
        rw [← h.1]
        exact ⟨(del_layers m m2 k hd).1, (del_layers m m2 k hd).2.1⟩
    | withLayers n p i nm => simp [LMapX.Op.isWithLayers] at hw
  | pop k d =>
    simp only [LMapX.step] at h
    cases hp : pop m k d with
    | error e => rw [hp] at h; simp [Except.map] at h
    | ok x =>
      rw [hp] at h
      simp only [Except.map, Except.ok.injEq, Prod.mk.injEq] at h
      rw [← h.1]
      exact pop_layers m x.1 k d x.2 hp
  | popitem =>
    simp only [LMapX.step] at h
    cases hp : popitem m with
    | error e => rw [hp] at h; simp [Except.map] at h
    | ok x =>
      rw [hp] at h
      simp only [Except.map, Except.ok.injEq, Prod.mk.injEq] at h
      rw [← h.1]
      obtain ⟨a, b, _⟩ := popitem_layers m x.1 x.2 hp
      exact ⟨a, b⟩
  | clear =>
    simp only [LMapX.step] at h
    obtain ⟨m2, h2, _, h4, h5⟩ := clearLoop_spec (m.muts.length + 1) m (Nat.lt_succ_self _)
    have hc : clear m = some m2 := h2
    rw [hc] at h
    simp only [Except.ok.injEq, Prod.mk.injEq] at h
    rw [← h.1]; exact ⟨h4, h5⟩
  | setdefault k d =>
    simp only [LMapX.step, Except.ok.injEq, Prod.mk.injEq] at h
    rw [← h.1]
    unfold setdefault
    cases m.get k <;> exact ⟨rfl, rfl⟩
  | update pairs =>
    simp only [LMapX.step, Except.ok.injEq, Prod.mk.injEq] at h
    rw [← h.1]
    exact update_layers pairs m
  | ext path k v => simp [LMapX.Op.isWithLayers] at hw

end FormulaicVerif.Proofs.C19
