import FormulaicVerif.Model.Parser
/-! Helper lemmas for C01: sign-run collapsing and the stable degree sort. -/
namespace FormulaicVerif.Proofs.C01
open FormulaicVerif FormulaicVerif.Model

def notSign (c : Char) : Bool := !(c == '+' || c == '-')

theorem closeRun_filter (run : List Char) (h : ∀ c ∈ run, (c == '+' || c == '-') = true) :
    (collapseSignsAux.closeRun run).filter notSign = [] := by
  unfold collapseSignsAux.closeRun
  split
  · rfl
  · rename_i c
    have := h c (by simp)
    simp [notSign, this]
  · split <;> simp [notSign]

theorem collapseAux_filter (cs : List Char) : ∀ run : List Char, (∀ c ∈ run, (c == '+' || c == '-') = true) →
    (collapseSignsAux cs run).filter notSign = cs.filter notSign := by
  induction cs with
  | nil => intro run h; simp [collapseSignsAux, closeRun_filter run h]
  | cons c cs ih =>
    intro run h
    unfold collapseSignsAux
    by_cases hc : (c == '+' || c == '-') = true
    · simp only [hc, if_true]
      rw [ih (c :: run) (by intro x hx; cases hx with | head => exact hc | tail _ hx => exact h x hx)]
      simp [List.filter_cons, notSign, hc]
    · simp only [hc]
      simp only [Bool.false_eq_true, if_false, List.filter_append, closeRun_filter run h, List.nil_append, List.filter_cons]
      rw [ih [] (by simp)]

/-- collapsing sign runs never drops, adds or reorders any other operator character -/
theorem collapse_keeps_other_chars (s : List Char) :
    (collapseSigns s).filter notSign = s.filter notSign :=
  collapseAux_filter s [] (by simp)

theorem aux_cons (x : Char) (cs run : List Char) :
    collapseSignsAux (x :: cs) run =
      if (x == '+' || x == '-') = true then collapseSignsAux cs (x :: run)
      else collapseSignsAux.closeRun run ++ x :: collapseSignsAux cs [] := by
  rw [collapseSignsAux]

theorem collapseAux_split (a : List Char) (c : Char) (b : List Char) (hc : (c == '+' || c == '-') = false) :
    ∀ run, collapseSignsAux (a ++ c :: b) run = collapseSignsAux a run ++ c :: collapseSignsAux b [] := by
  induction a with
  | nil =>
    intro run
    simp only [List.nil_append]
    rw [aux_cons c b run]
    simp [hc, collapseSignsAux]
  | cons x a ih =>
    intro run
    simp only [List.cons_append]
    rw [aux_cons x (a ++ c :: b) run, aux_cons x a run]
    by_cases hx : (x == '+' || x == '-') = true
    · simp only [hx, if_true]; exact ih _
    · simp only [hx, Bool.false_eq_true, if_false, ih, List.append_assoc, List.cons_append]

/-- a character that is not a sign is kept where it is and separates the string into independently collapsed pieces -/
theorem collapse_split (a : List Char) (c : Char) (b : List Char) (hc : (c == '+' || c == '-') = false) :
    collapseSigns (a ++ c :: b) = collapseSigns a ++ c :: collapseSigns b :=
  collapseAux_split a c b hc []

theorem collapseAux_run (r : List Char) (h : ∀ c ∈ r, (c == '+' || c == '-') = true) :
    ∀ run, collapseSignsAux r run = collapseSignsAux.closeRun (r.reverse ++ run) := by
  induction r with
  | nil => intro run; simp [collapseSignsAux]
  | cons x r ih =>
    intro run
    rw [aux_cons x r run]
    simp only [h x (by simp), if_true]
    rw [ih (fun c hc => h c (by simp [hc]))]
    simp

/-- a run of two or more signs becomes one sign: `-` iff the number of `-` in it is odd -/
theorem collapse_run (r : List Char) (h : ∀ c ∈ r, (c == '+' || c == '-') = true) (hl : 2 ≤ r.length) :
    collapseSigns r = if (r.filter (· == '-')).length % 2 = 1 then ['-'] else ['+'] := by
  unfold collapseSigns
  rw [collapseAux_run r h []]
  simp only [List.append_nil]
  unfold collapseSignsAux.closeRun
  have hrl : 2 ≤ r.reverse.length := by simpa using hl
  match hr : r.reverse, hrl with
  | a :: b :: t, _ =>
    simp only
    have : ((a :: b :: t).filter (· == '-')).length = (r.filter (· == '-')).length := by
      rw [← hr, List.filter_reverse, List.length_reverse]
    rw [this]
    by_cases hp : (r.filter (· == '-')).length % 2 = 1 <;> simp [hp]

/-- a single sign is left alone -/
theorem collapse_single (c : Char) : collapseSigns [c] = [c] := by
  unfold collapseSigns collapseSignsAux
  by_cases h : (c == '+' || c == '-') = true
  · simp [h, collapseSignsAux, collapseSignsAux.closeRun]
  · simp [h, collapseSignsAux, collapseSignsAux.closeRun]


theorem insertByDegree_perm (t : Term) (l : List Term) : (insertByDegree t l).Perm (t :: l) := by
  induction l with
  | nil => exact List.Perm.refl _
  | cons u us ih =>
    unfold insertByDegree
    split
    · exact ((List.Perm.cons u ih).trans (List.Perm.swap t u us))
    · exact List.Perm.refl _

theorem insertByDegree_sorted (t : Term) (l : List Term)
    (h : l.Pairwise (fun a b => a.degree ≤ b.degree)) :
    (insertByDegree t l).Pairwise (fun a b => a.degree ≤ b.degree) := by
  induction l with
  | nil => simp [insertByDegree]
  | cons u us ih =>
    rw [List.pairwise_cons] at h
    unfold insertByDegree
    split
    · rename_i hle
      rw [List.pairwise_cons]
      refine ⟨?_, ih h.2⟩
      intro x hx
      have := (insertByDegree_perm t us).mem_iff.mp hx
      rcases List.mem_cons.mp this with rfl | hm
      · exact hle
      · exact h.1 x hm
    · rename_i hnle
      have hlt : t.degree < u.degree := Nat.lt_of_not_le hnle
      rw [List.pairwise_cons]
      refine ⟨?_, List.pairwise_cons.mpr h⟩
      intro x hx
      rcases List.mem_cons.mp hx with rfl | hm
      · exact Nat.le_of_lt hlt
      · exact Nat.le_trans (Nat.le_of_lt hlt) (h.1 x hm)

theorem insertByDegree_filter (t : Term) (l : List Term) (d : Nat)
    (h : l.Pairwise (fun a b => a.degree ≤ b.degree)) :
    (insertByDegree t l).filter (fun x => x.degree == d)
      = l.filter (fun x => x.degree == d) ++ (if t.degree == d then [t] else []) := by
  induction l with
  | nil => simp [insertByDegree, List.filter_cons]
  | cons u us ih =>
    rw [List.pairwise_cons] at h
    unfold insertByDegree
    split
    · simp only [List.filter_cons, ih h.2]
      split <;> simp
    · rename_i hnle
      have hlt : t.degree < u.degree := Nat.lt_of_not_le hnle
      by_cases htd : t.degree = d
      · -- every element of u :: us has degree > d: nothing of degree d on the right
        have hnone : (u :: us).filter (fun x => x.degree == d) = [] := by
          rw [List.filter_eq_nil_iff]
          intro x hx hxd
          have hxd' : x.degree = d := by simpa using hxd
          rcases List.mem_cons.mp hx with rfl | hm
          · omega
          · have := h.1 x hm; omega
        simp [List.filter_cons, htd] at hnone ⊢
        simp [hnone]
      · have : (t.degree == d) = false := by simpa using htd
        simp [List.filter_cons, this]

theorem foldl_insert_facts (ts : List Term) : ∀ acc : List Term,
    acc.Pairwise (fun a b => a.degree ≤ b.degree) →
    (ts.foldl (fun acc t => insertByDegree t acc) acc).Pairwise (fun a b => a.degree ≤ b.degree) ∧
    (ts.foldl (fun acc t => insertByDegree t acc) acc).Perm (acc ++ ts) ∧
    ∀ d, (ts.foldl (fun acc t => insertByDegree t acc) acc).filter (fun x => x.degree == d)
        = acc.filter (fun x => x.degree == d) ++ ts.filter (fun x => x.degree == d) := by
  induction ts with
  | nil => intro acc h; simp [h]
  | cons t ts ih =>
    intro acc h
    have hs := insertByDegree_sorted t acc h
    obtain ⟨i1, i2, i3⟩ := ih (insertByDegree t acc) hs
    refine ⟨i1, ?_, ?_⟩
    · refine i2.trans ?_
      have := (insertByDegree_perm t acc).append_right ts
      refine this.trans ?_
      simp only [List.cons_append]
      exact (List.perm_middle).symm
    · intro d
      simp only [List.foldl_cons]
      rw [i3 d, insertByDegree_filter t acc d h, List.filter_cons]
      split <;> simp

/-- `sorted(terms, key=degree)`: ordered by degree, a permutation, and stable -/
theorem sortByDegree_spec (ts : List Term) :
    (sortByDegree ts).Pairwise (fun a b => a.degree ≤ b.degree) ∧ (sortByDegree ts).Perm ts ∧
    ∀ d, (sortByDegree ts).filter (fun x => x.degree == d) = ts.filter (fun x => x.degree == d) := by
  have := foldl_insert_facts ts [] List.Pairwise.nil
  simpa [sortByDegree] using this


def NoSep (c : Char) (t : Tok) : Prop := t.kind = some .operator → t.text.contains c = false

theorem replaceZero_id (ts : List Tok) (h : ∀ t ∈ ts, ¬ (t.kind = some .value ∧ t.text = ['0'])) :
    replaceZero ts = ts := by
  induction ts with
  | nil => rfl
  | cons t r ih =>
    have ht := h t (by simp)
    have : (t.kind == some .value && t.text == ['0']) = false := by
      cases hk : (t.kind == some TKind.value) <;> cases hx : (t.text == ['0']) <;> simp_all
    simp only [replaceZero, this, Bool.false_eq_true, if_false, ih (fun u hu => h u (by simp [hu]))]

theorem insertOneAfter_id (b : Bool) (c : Char) (ts : List Tok) (h : ∀ t ∈ ts, NoSep c t) :
    insertOneAfter b c ts = ts := by
  induction ts with
  | nil => rfl
  | cons t r ih =>
    have ht := h t (by simp)
    have : (t.kind != some .operator || !t.text.contains c) = true := by
      by_cases hk : t.kind = some .operator
      · have hh := ht hk
        simp only [hk, bne_self_eq_false, hh, Bool.not_false, Bool.or_true]
      · simp [hk]
    simp only [insertOneAfter, this, if_true, ih (fun u hu => h u (by simp [hu]))]

theorem findRhsAux_none (ts : List Tok) (h : ∀ t ∈ ts, ¬ (t.kind = some .operator ∧ t.text = ['~'])) :
    ∀ (i : Nat) (ctx : List Char), findRhsAux ts i ctx = none := by
  induction ts with
  | nil => intro i ctx; rfl
  | cons t r ih =>
    intro i ctx
    have ihr := ih (fun u hu => h u (by simp [hu]))
    have ht := h t (by simp)
    unfold findRhsAux
    by_cases hc : (t.kind == some .context) = true
    · simp only [hc, if_true]
      by_cases ho : (t.text == ['('] || t.text == ['[']) = true
      · simp only [ho, if_true]; exact ihr _ _
      · simp only [ho, Bool.false_eq_true, if_false]
        cases ctx with
        | nil => rfl
        | cons top rest =>
          simp only
          split <;> (split <;> first | rfl | exact ihr _ _)
    · simp only [hc, Bool.false_eq_true, if_false]
      by_cases he : (!ctx.isEmpty) = true
      · simp only [he, if_true]; exact ihr _ _
      · simp only [he, Bool.false_eq_true, if_false]
        by_cases hop : (t.kind == some .operator && t.text == ['~']) = true
        · exfalso
          apply ht
          simp only [Bool.and_eq_true, beq_iff_eq] at hop
          exact hop
        · simp only [hop, Bool.false_eq_true, if_false]; exact ihr _ _

/-- Token-level form of "an implicit intercept on every right-hand part": for a one-sided formula
whose operator tokens contain neither `~` nor `|` and which has no literal `0`, the parser's token
rewriting is exactly "prepend `1 +`" (followed by the merging of adjacent sign tokens) -/
theorem intercept_plain (ts : List Tok) (hne : ts ≠ [])
    (h1 : ∀ t ∈ ts, NoSep '~' t) (h2 : ∀ t ∈ ts, NoSep '|' t)
    (hz : ∀ t ∈ ts, ¬ (t.kind = some .value ∧ t.text = ['0'])) :
    (interceptTokens true ts).1 = mergeSigns (tokOne :: tokPlus :: ts) := by
  have hno : ∀ t ∈ ts, ¬ (t.kind = some .operator ∧ t.text = ['~']) := by
    intro t ht ⟨hk, hx⟩
    have := h1 t ht hk
    simp [hx] at this
  unfold interceptTokens
  simp only [replaceZero_id ts hz, insertOneAfter_id true '~' ts h1, findRhsIndex, findRhsAux_none ts hno]
  have he : ts.isEmpty = false := by cases ts <;> simp_all
  simp [he, insertOneAfter_id true '|' ts h2]

/-- and with `include_intercept = false` nothing is inserted -/
theorem no_intercept_plain (ts : List Tok)
    (h1 : ∀ t ∈ ts, NoSep '~' t) (h2 : ∀ t ∈ ts, NoSep '|' t)
    (hz : ∀ t ∈ ts, ¬ (t.kind = some .value ∧ t.text = ['0'])) :
    (interceptTokens false ts).1 = mergeSigns ts := by
  have hno : ∀ t ∈ ts, ¬ (t.kind = some .operator ∧ t.text = ['~']) := by
    intro t ht ⟨hk, hx⟩
    have := h1 t ht hk
    simp [hx] at this
  unfold interceptTokens
  simp only [replaceZero_id ts hz, insertOneAfter_id false '~' ts h1, findRhsIndex, findRhsAux_none ts hno]
  simp [insertOneAfter_id false '|' ts h2, insertOneAfter]

end FormulaicVerif.Proofs.C01
