import FormulaicVerif.Proofs.C04Laws
import Mathlib.Data.String.Basic
/-! C04: the laws of the state-first protocol for the categorical encoder (recorded levels), and the
generic passage from "commutes with row selection" to the row-wise laws. -/
namespace FormulaicVerif.Proofs.C04
open FormulaicVerif.Model FormulaicVerif.Model.Replay FormulaicVerif.Spec.Replay
open FormulaicVerif.Model.Contrasts

section generic
variable {α β σ ε : Type}

theorem select_singleton (xs : List α) (i : Nat) (h : i < xs.length) : select [i] xs = [xs[i]] := by
  simp [select, List.getElem?_eq_getElem h]

theorem exists_select_of_sub {xs ys : List α} (h : ∀ y ∈ ys, y ∈ xs) : ∃ is, ys = select is xs := by
  induction ys with
  | nil => exact ⟨[], rfl⟩
  | cons y ys ih =>
    obtain ⟨is, his⟩ := ih (fun y' hy' => h y' (by simp [hy']))
    obtain ⟨i, hi, hy⟩ := List.mem_iff_getElem.1 (h y (by simp))
    refine ⟨i :: is, ?_⟩
    rw [select_cons_idx, List.getElem?_eq_getElem hi, hy, ← his]

/-- a transform whose replay commutes with row selection and keeps the number of rows obeys the
row-wise laws, with `row` the one-row replay -/
theorem lawful_of_natural (t : T α β σ ε) (Good : σ → Prop)
    (hfit : ∀ xs st out, t.fit xs = .ok (st, out) → Good st)
    (hafter : ∀ xs st out, t.fit xs = .ok (st, out) → t.run st xs = .ok (out, st))
    (hnat : ∀ st xs out st', Good st → t.run st xs = .ok (out, st') →
      st' = st ∧ out.length = xs.length ∧ ∀ is, t.run st (select is xs) = .ok (select is out, st))
    (hrow : ∀ st x r st', t.run st [x] = .ok ([r], st') → t.row st x = r) :
    Lawful t Good := by
  refine ⟨hfit, hafter, ?_, ?_⟩
  · intro st xs out st' hg h
    obtain ⟨h1, h2, h3⟩ := hnat st xs out st' hg h
    refine ⟨?_, h1⟩
    apply List.ext_getElem (by simp [h2])
    intro i hi1 hi2
    have hix : i < xs.length := by simpa using hi2
    have := h3 [i]
    rw [select_singleton xs i hix, select_singleton out i hi1] at this
    rw [List.getElem_map, hrow st _ _ _ this]
  · intro st xs ys r hg h hsub
    obtain ⟨out, st'⟩ := r
    obtain ⟨_, _, h3⟩ := hnat st xs out st' hg h
    obtain ⟨is, rfl⟩ := exists_select_of_sub hsub
    exact ⟨_, h3 is⟩

end generic

/-! ## the order of inferred levels -/
theorem Label.lt_irrefl' (a : Label) : Label.lt a a = false := by
  cases a with
  | str s => simp [Label.lt]
  | int i => simp [Label.lt]

theorem Label.lt_trans' {a b c : Label} (h1 : Label.lt a b = true) (h2 : Label.lt b c = true) :
    Label.lt a c = true := by
  cases a <;> cases b <;> cases c <;> simp only [Label.lt, decide_eq_true_eq] at h1 h2 ⊢ <;>
    first | exact lt_trans h1 h2 | exact Bool.noConfusion h2 | exact Bool.noConfusion h1 | trivial

theorem Label.lt_total' {a b : Label} (hne : a ≠ b) (h : Label.lt a b = false) : Label.lt b a = true := by
  cases a <;> cases b <;> simp only [Label.lt, decide_eq_true_eq, decide_eq_false_iff_not] at h ⊢
  · rename_i s t
    rcases lt_trichotomy s t with h' | h' | h'
    · exact absurd h' h
    · exact absurd (congrArg Label.str h') hne
    · exact h'
  · exact Bool.noConfusion h
  · rename_i i j
    rcases lt_trichotomy i j with h' | h' | h'
    · exact absurd h' h
    · exact absurd (congrArg Label.int h') hne
    · exact h'

def LSorted (l : List Label) : Prop := l.Pairwise (fun a b => Label.lt a b = true)

theorem mem_insertSorted {x y : Label} {l : List Label} (h : y ∈ insertSorted x l) : y = x ∨ y ∈ l := by
  induction l with
  | nil => simp [insertSorted] at h; exact .inl h
  | cons a t ih =>
    simp only [insertSorted] at h
    split at h
    · exact .inr h
    · split at h
      · rcases List.mem_cons.1 h with h | h
        · exact .inl h
        · exact .inr h
      · rcases List.mem_cons.1 h with h | h
        · exact .inr (by simp [h])
        · rcases ih h with h | h
          · exact .inl h
          · exact .inr (by simp [h])

theorem insertSorted_sorted (x : Label) {l : List Label} (h : LSorted l) : LSorted (insertSorted x l) := by
  induction l with
  | nil => simp [insertSorted, LSorted]
  | cons a t ih =>
    simp only [insertSorted]
    have ha : ∀ b ∈ t, Label.lt a b = true := (List.pairwise_cons.1 h).1
    have ht : LSorted t := (List.pairwise_cons.1 h).2
    split
    · exact h
    · rename_i hne
      split
      · rename_i hlt
        refine List.pairwise_cons.2 ⟨?_, h⟩
        intro b hb
        rcases List.mem_cons.1 hb with rfl | hb
        · exact hlt
        · exact Label.lt_trans' hlt (ha b hb)
      · rename_i hlt
        refine List.pairwise_cons.2 ⟨?_, ih ht⟩
        intro b hb
        rcases mem_insertSorted hb with rfl | hb
        · exact Label.lt_total' hne (by simpa using hlt)
        · exact ha b hb

theorem inferLevels_sorted (data : List (Option Label)) : LSorted (inferLevels data) := by
  unfold inferLevels
  suffices ∀ acc, LSorted acc → LSorted (data.foldl (fun acc d => match d with
      | some l => insertSorted l acc | none => acc) acc) from this [] List.Pairwise.nil
  induction data with
  | nil => intro acc h; exact h
  | cons d r ih =>
    intro acc h
    simp only [List.foldl_cons]
    cases d with
    | none => exact ih acc h
    | some l => exact ih _ (insertSorted_sorted l h)

theorem hasDup_of_sorted {l : List Label} (h : LSorted l) : hasDup l = false := by
  induction l with
  | nil => rfl
  | cons a t ih =>
    have ha : ∀ b ∈ t, Label.lt a b = true := (List.pairwise_cons.1 h).1
    simp only [hasDup, ih (List.pairwise_cons.1 h).2, Bool.or_false]
    rw [Bool.eq_false_iff]
    intro hc
    have hm : a ∈ t := by simpa using hc
    have := ha a hm
    rw [Label.lt_irrefl'] at this
    exact Bool.noConfusion this

theorem hasDup_inferLevels (data : List (Option Label)) : hasDup (inferLevels data) = false :=
  hasDup_of_sorted (inferLevels_sorted data)


/-! ## `Contrasts.apply` commutes with row selection -/
def selEnc (is : List Nat) (e : Contrasts.Encoded) : Contrasts.Encoded := { e with values := select is e.values }

theorem indicator_select (cats : List Label) (is : List Nat) (data : List (Option Label)) :
    indicator cats (select is data) = select is (indicator cats data) := by
  unfold indicator
  rw [select_map]

theorem indicator_all (cats : List Label) (data : List (Option Label)) :
    (indicator cats data).all (fun row => row.length == cats.length) = true := by
  simp [indicator, indicatorRow]

theorem matMul_select (is : List Nat) (a b : List (List Rat)) (w : Nat) :
    Contrasts.matMul (select is a) b w = select is (Contrasts.matMul a b w) := by
  unfold Contrasts.matMul
  rw [select_map]

theorem applyInner_select (c : Contrast) (cats : List Label) (reduced sparse : Bool) (is : List Nat)
    (data : List (Option Label)) :
    applyInner c (indicator cats (select is data)) cats reduced sparse
      = (applyInner c (indicator cats data) cats reduced sparse).map (select is) := by
  unfold applyInner
  rw [indicator_select]
  cases isTreatment c with
  | some p =>
    obtain ⟨sas, b⟩ := p
    simp only
    cases reduced with
    | true =>
      simp only [if_true, bind, Except.bind, pure, Except.pure]
      cases findBaseIndex sas b cats with
      | error e => rfl
      | ok d => simp only [Except.map, select_map]
    | false => simp [pure, Except.pure, Except.map]
  | none =>
    simp only [bind, Except.bind]
    cases getCodingMatrix c cats reduced sparse with
    | error e => rfl
    | ok m =>
      have h1 := indicator_all cats data
      have h2 : (select is (indicator cats data)).all (fun row => row.length == cats.length) = true := by
        rw [← indicator_select]; exact indicator_all cats _
      simp only [h1, h2, if_true, pure, Except.pure, Except.map, matMul_select]

theorem apply_select (c : Contrast) (cats : List Label) (reduced sparse : Bool) (is : List Nat)
    (data : List (Option Label)) :
    Contrasts.apply c (indicator cats (select is data)) cats reduced sparse
      = (Contrasts.apply c (indicator cats data) cats reduced sparse).map (selEnc is) := by
  unfold Contrasts.apply
  by_cases hs : (cats.isEmpty || (cats.length == 1 && reduced)) = true
  · simp only [hs, if_true, Except.map, selEnc, indicator_select, select_map]
  · simp only [hs, Bool.false_eq_true, if_false, bind, Except.bind, applyInner_select]
    cases applyInner c (indicator cats data) cats reduced sparse with
    | error e => rfl
    | ok vals =>
      simp only [Except.map]
      cases codingColumnNames c cats reduced with
      | error e => rfl
      | ok names =>
        cases dropField c cats reduced with
        | error e => rfl
        | ok df => rfl

theorem applyInner_length {c : Contrast} {dummies : List (List Rat)} {cats : List Label} {r s : Bool}
    {v : List (List Rat)} (h : applyInner c dummies cats r s = .ok v) : v.length = dummies.length := by
  unfold applyInner at h
  cases hi : isTreatment c with
  | some p =>
    obtain ⟨sas, b⟩ := p
    simp only [hi] at h
    cases r with
    | true =>
      simp only [if_true, bind, Except.bind, pure, Except.pure] at h
      cases hf : findBaseIndex sas b cats with
      | error e => simp [hf] at h
      | ok d => simp only [hf, Except.ok.injEq] at h; subst h; simp
    | false => simp [pure, Except.pure] at h; subst h; rfl
  | none =>
    simp only [hi, bind, Except.bind] at h
    cases hm : getCodingMatrix c cats r s with
    | error e => simp [hm] at h
    | ok m =>
      simp only [hm] at h
      split at h
      · simp only [pure, Except.pure, Except.ok.injEq] at h; subst h; simp [Contrasts.matMul]
      · cases h

theorem apply_length {c : Contrast} {dummies : List (List Rat)} {cats : List Label} {r s : Bool}
    {e : Contrasts.Encoded} (h : Contrasts.apply c dummies cats r s = .ok e) :
    e.values.length = dummies.length := by
  unfold Contrasts.apply at h
  split at h
  · simp only [Except.ok.injEq] at h; subst h; simp
  · simp only [bind, Except.bind] at h
    cases hv : applyInner c dummies cats r s with
    | error x => simp [hv] at h
    | ok vals =>
      simp only [hv] at h
      cases hn : codingColumnNames c cats r with
      | error x => simp [hn] at h
      | ok names =>
        simp only [hn] at h
        cases hd : dropField c cats r with
        | error x => simp [hd] at h
        | ok df =>
          simp only [hd, pure, Except.pure, Except.ok.injEq] at h
          subst h
          exact applyInner_length hv


/-! ## `encode_contrasts` with recorded levels -/
/-- `encode_contrasts` with given levels, unfolded -/
theorem encode_some (data : List (Option Label)) (c : Contrast) (cats : List Label) (r : Bool) (o : String) :
    encodeContrasts data c (some cats) r o =
      if hasDup cats then .error .duplicateLevels
      else if !(["narwhals", "pandas", "numpy", "sparse"].contains o) then .error .unknownOutput
      else (Contrasts.apply c (indicator cats data) cats r (o == "sparse")).map (fun e => (e, cats)) := by
  unfold encodeContrasts
  by_cases hd : hasDup cats = true
  · simp [hd, bind, Except.bind]
  · simp only [hd, Bool.false_eq_true, if_false, bind, Except.bind, pure, Except.pure]
    by_cases ho : (!(["narwhals", "pandas", "numpy", "sparse"].contains o)) = true
    · simp only [ho, if_true]
    · simp only [ho, Bool.false_eq_true, if_false]
      cases Contrasts.apply c (indicator cats data) cats r (o == "sparse") <;> rfl

theorem encode_none (data : List (Option Label)) (c : Contrast) (r : Bool) (o : String) :
    encodeContrasts data c none r o = encodeContrasts data c (some (inferLevels data)) r o := by
  rw [encode_some, hasDup_inferLevels]
  unfold encodeContrasts
  simp only [Bool.false_eq_true, if_false, bind, Except.bind, pure, Except.pure]
  by_cases ho : (!(["narwhals", "pandas", "numpy", "sparse"].contains o)) = true
  · simp only [ho, if_true]
  · simp only [ho, Bool.false_eq_true, if_false]
    cases Contrasts.apply c (indicator (inferLevels data) data) (inferLevels data) r (o == "sparse") <;> rfl

theorem catCall_select (c : Contrast) (r : Bool) (o : String) (cats : List Label) (is : List Nat)
    (data : List (Option Label)) :
    catCall c r o (some cats) (select is data)
      = (catCall c r o (some cats) data).map (fun p => (selEnc is p.1, p.2)) := by
  unfold catCall
  rw [encode_some, encode_some, apply_select]
  by_cases hd : hasDup cats = true
  · simp [hd, liftC, Except.map]
  · simp only [hd, Bool.false_eq_true, if_false]
    by_cases ho : (!(["narwhals", "pandas", "numpy", "sparse"].contains o)) = true
    · simp only [ho, if_true, liftC, Except.map]
    · simp only [ho, Bool.false_eq_true, if_false]
      cases Contrasts.apply c (indicator cats data) cats r (o == "sparse") <;> rfl

theorem catCall_some_spec {c : Contrast} {r : Bool} {o : String} {cats : List Label}
    {data : List (Option Label)} {e : Contrasts.Encoded} {cs : List Label}
    (h : catCall c r o (some cats) data = .ok (e, cs)) : cs = cats ∧ e.values.length = data.length := by
  unfold catCall at h
  rw [encode_some] at h
  by_cases hd : hasDup cats = true
  · simp [hd, liftC] at h
  · simp only [hd, Bool.false_eq_true, if_false] at h
    by_cases ho : (!(["narwhals", "pandas", "numpy", "sparse"].contains o)) = true
    · simp only [ho, if_true, liftC] at h
      cases h
    · simp only [ho, Bool.false_eq_true, if_false] at h
      cases ha : Contrasts.apply c (indicator cats data) cats r (o == "sparse") with
      | error x => simp [ha, liftC, Except.map] at h
      | ok e' =>
        simp only [ha, liftC, Except.map, Except.ok.injEq, Prod.mk.injEq] at h
        obtain ⟨rfl, rfl⟩ := h
        exact ⟨rfl, by simpa [indicator] using apply_length ha⟩

theorem catCall_none {c : Contrast} {r : Bool} {o : String} {data : List (Option Label)}
    {e : Contrasts.Encoded} {cs : List Label} (h : catCall c r o none data = .ok (e, cs)) :
    catCall c r o (some cs) data = .ok (e, cs) := by
  unfold catCall at h ⊢
  rw [encode_none] at h
  have := (catCall_some_spec (c := c) (r := r) (o := o) (cats := inferLevels data) (data := data)
    (e := e) (cs := cs) h).1
  subst this
  exact h

theorem cat_lawful (c : Contrast) (r : Bool) (o : String) : Lawful (catT c r o) (fun _ => True) := by
  apply lawful_of_natural
  · intros; trivial
  · intro xs st out h
    simp only [catT] at h ⊢
    cases hc : catCall c r o none xs with
    | error x => simp [hc] at h
    | ok p =>
      obtain ⟨e, cs⟩ := p
      simp only [hc, Except.ok.injEq, Prod.mk.injEq] at h
      obtain ⟨rfl, rfl⟩ := h
      rw [catCall_none hc]
  · intro st xs out st' _ h
    simp only [catT] at h
    cases hc : catCall c r o (some st) xs with
    | error x => simp [hc] at h
    | ok p =>
      obtain ⟨e, cs⟩ := p
      simp only [hc, Except.ok.injEq, Prod.mk.injEq] at h
      obtain ⟨rfl, rfl⟩ := h
      obtain ⟨h1, h2⟩ := catCall_some_spec hc
      refine ⟨h1, h2, fun is => ?_⟩
      simp only [catT, catCall_select, hc, Except.map, selEnc, h1]
  · intro st x row st' h
    simp only [catT] at h ⊢
    cases hc : catCall c r o (some st) [x] with
    | error e => simp [hc] at h
    | ok p =>
      obtain ⟨e, cs⟩ := p
      simp only [hc, Except.ok.injEq, Prod.mk.injEq] at h
      simp only [h.1]

end FormulaicVerif.Proofs.C04
