import FormulaicVerif.Model.Calculus
import FormulaicVerif.Spec.Derivative
/-! Helper lemmas for C20 (not obligations). -/
namespace FormulaicVerif.Proofs.C20
open FormulaicVerif.Model FormulaicVerif.Spec

theorem filter_eq_length_le_one (fs : List Factor) (v : String) (h : Term.WF fs) :
    (fs.filter (fun f => f.expr == v)).length ≤ 1 := by
  induction fs with
  | nil => simp
  | cons f r ih =>
    have hn : (f.expr :: r.map (·.expr)).Nodup := by simpa [Term.WF] using h
    rw [List.nodup_cons] at hn
    have ih' := ih (by simpa [Term.WF] using hn.2)
    by_cases hf : f.expr = v
    · have : r.filter (fun g => g.expr == v) = [] := by
        rw [List.filter_eq_nil_iff]
        intro g hg hgv
        have : g.expr = v := by simpa using hgv
        exact hn.1 (by rw [hf, ← this]; exact List.mem_map_of_mem hg)
      simp [hf, this]
    · simp [hf, ih']

theorem wf_filter (fs : List Factor) (p : Factor → Bool) (h : Term.WF fs) : Term.WF (fs.filter p) := by
  unfold Term.WF at *
  exact h.sublist ((List.filter_sublist).map _)

theorem any_filter' {α} (p : α → Bool) (xs : List α) : xs.any p = !(xs.filter p).isEmpty := by
  induction xs with
  | nil => rfl
  | cons x r ih =>
    simp only [List.any_cons, List.filter_cons, ih]
    cases p x <;> simp

theorem diffStep_eq (fs : List Factor) (v : String) (h : Term.WF fs) :
    diffStep fs v = .ok (dFactors fs v) := by
  have hl := filter_eq_length_le_one fs v h
  unfold diffStep dFactors
  rw [any_filter']
  generalize fs.filter (fun f => f.expr == v) = l at hl ⊢
  match l, hl with
  | [], _ => rfl
  | [x], _ => simp [differentiateFactors]
  | _ :: _ :: _, hl => simp at hl

theorem diffLoop_eq (wrt : List String) : ∀ (fs : List Factor), Term.WF fs →
    diffLoop fs wrt = .ok (dMany (some fs) wrt) := by
  induction wrt with
  | nil => intro fs _; rfl
  | cons v vs ih =>
    intro fs h
    simp only [diffLoop, diffStep_eq fs v h, dMany]
    unfold dFactors
    by_cases ha : fs.any (fun f => f.expr == v) = true
    · simp only [ha, if_true]
      exact ih _ (wf_filter fs _ h)
    · simp only [ha]
      cases vs <;> simp [dMany]

end FormulaicVerif.Proofs.C20
