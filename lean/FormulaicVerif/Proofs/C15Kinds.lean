import FormulaicVerif.Proofs.C15Step
/-! Helper lemmas for C15: every emitted token has a kind and a non-empty text. -/
namespace FormulaicVerif.Proofs.C15Kinds
open FormulaicVerif FormulaicVerif.Model FormulaicVerif.Proofs.C15Step

/-- what an emitted token looks like -/
def Kinded (t : Tok) : Prop := t.kind ≠ none ∧ t.text ≠ []

/-- all emitted tokens have a kind and text; a pending token without a kind has no text yet, and
exists only at top level with no escape pending (inside a quote context, and while an escape is
being consumed, characters are appended WITHOUT setting the kind — the kind was set when the quote
was opened) -/
def KInv (_ : Nat) (s : LexState) : Prop :=
  (∀ t ∈ s.out, Kinded t) ∧ (s.tok.kind = none → s.tok.text = [] ∧ s.qc = [] ∧ s.take = 0)

theorem nonempty_iff (t : Tok) : t.nonempty = true ↔ t.text ≠ [] := by
  cases h : t.text <;> simp [Tok.nonempty, h]

theorem pending_kinded {i : Nat} {s : LexState} (h : KInv i s) (hn : s.tok.nonempty = true) : Kinded s.tok := by
  have ht := (nonempty_iff _).mp hn
  exact ⟨fun hk => ht (h.2 hk).1, ht⟩

theorem out_cons {i : Nat} {s : LexState} (h : KInv i s) (hn : s.tok.nonempty = true) :
    ∀ t ∈ s.tok :: s.out, Kinded t := by
  intro t ht
  rcases List.mem_cons.mp ht with rfl | ht
  · exact pending_kinded h hn
  · exact h.1 t ht

theorem update_kind (t : Tok) (c : Char) (i : Nat) (k : Option TKind) :
    (t.update c i k).kind = (match k with | some k => some k | none => t.kind) := rfl

theorem kinv_closed : Closed (fun _ _ => True) KInv where
  upd := by
    intro i s c k q t h _ hk
    refine ⟨h.1, fun hkn => ?_⟩
    exfalso
    cases k with
    | some k => simp [Tok.update] at hkn
    | none =>
      have hkn' : s.tok.kind = none := by simpa [Tok.update] using hkn
      obtain ⟨_, hq, ht⟩ := h.2 hkn'
      rcases hk rfl with hk | hk
      · exact hk hq
      · omega
  flush := by
    intro i s h hq ht
    unfold LexState.flush
    by_cases hn : s.tok.nonempty = true
    · rw [if_pos hn]
      exact ⟨out_cons h hn, fun _ => ⟨rfl, hq, ht⟩⟩
    · rw [if_neg hn]; exact h
  mono := fun h => h
  emit := by
    intro i s h hn ht
    exact ⟨out_cons h hn, fun _ => ⟨rfl, rfl, ht⟩⟩
  reset := by
    intro i s h _ ht
    exact ⟨h.1, fun _ => ⟨rfl, rfl, ht⟩⟩
  requote := by
    intro i s q h hq _
    exact ⟨h.1, fun hk => absurd (h.2 hk).2.1 hq⟩
  opened := by
    intro i s c k q h _ _ _
    by_cases hn : s.tok.nonempty = true
    · simp only [hn, if_true]
      exact ⟨out_cons h hn, fun hk => by simp [Tok.opened] at hk⟩
    · simp only [hn]
      exact ⟨h.1, fun hk => by simp [Tok.opened] at hk⟩
  ctx := by
    intro i s c h _
    refine ⟨?_, h.2⟩
    intro t ht
    rcases List.mem_cons.mp ht with rfl | ht
    · exact ⟨by simp [Tok.update], by simp [Tok.update]⟩
    · exact h.1 t ht

/-- every token of a successfully tokenised string has a kind and a non-empty text -/
theorem tokens_have_kinds (cs : List CharInfo) (ts : List Tok) (h : tokenize cs = .ok ts) :
    ∀ t ∈ ts, t.kind ≠ none ∧ t.text ≠ [] := by
  have h0 : KInv 0 {} := ⟨by simp, fun _ => ⟨rfl, rfl, rfl⟩⟩
  obtain ⟨s, hs, rfl⟩ := tokenize_closed kinv_closed cs ts h0 (fun _ _ => trivial) h
  intro t ht
  rw [List.mem_reverse] at ht
  by_cases hn : s.tok.nonempty = true
  · simp only [hn, if_true] at ht; exact out_cons hs hn t ht
  · simp only [hn] at ht; exact hs.1 t ht

end FormulaicVerif.Proofs.C15Kinds
