import FormulaicVerif.Model.Scale
import FormulaicVerif.Spec.Real
import Mathlib.Analysis.SpecialFunctions.Sqrt
import Mathlib.Algebra.Field.Basic
import Mathlib.Algebra.BigOperators.Group.List.Basic
import Mathlib.Algebra.CharZero.Defs
import Mathlib.Tactic.Ring
import Mathlib.Tactic.FieldSimp
/-! Helper lemmas for the `scale` part of C13: sums/means under the affine map, and the two
structural facts about `Model.Scale.run` (a complete state is replayed; a successful run completes
the state). -/
namespace FormulaicVerif.Proofs.C13
open FormulaicVerif.Model.Scale

variable {α : Type} [Field α]

theorem sum_map_sub_const (xs : List α) (c : α) :
    (xs.map (fun x => x - c)).sum = xs.sum - (xs.length : α) * c := by
  induction xs with
  | nil => simp
  | cons x r ih => simp only [List.map_cons, List.sum_cons, ih, List.length_cons, Nat.cast_succ]; ring

theorem sum_map_div_const (xs : List α) (s : α) :
    (xs.map (fun x => x / s)).sum = xs.sum / s := by
  induction xs with
  | nil => simp
  | cons x r ih => simp only [List.map_cons, List.sum_cons, ih]; ring

theorem length_cast_ne_zero [CharZero α] (xs : List α) (h : xs ≠ []) : (xs.length : α) ≠ 0 := by
  simpa using (List.length_pos_iff.mpr h).ne'

theorem mean_center [CharZero α] (xs : List α) (h : xs ≠ []) :
    mean (xs.map (fun x => x - mean xs)) = 0 := by
  have hn := length_cast_ne_zero xs h
  unfold mean
  rw [sum_map_sub_const, List.length_map]
  field_simp
  ring

theorem mean_div (xs : List α) (s : α) : mean (xs.map (fun x => x / s)) = mean xs / s := by
  unfold mean
  rw [sum_map_div_const, List.length_map]; ring

theorem sumSq_div (xs : List α) (s : α) : sumSq (xs.map (fun x => x / s)) = sumSq xs / (s * s) := by
  unfold sumSq
  induction xs with
  | nil => simp
  | cons x r ih =>
    simp only [List.map_cons, List.sum_cons] at ih ⊢
    rw [ih]; ring

variable [DecidableEq α]

/-- what a recorded state does to one entry -/
def applyStats (c s : Option α) (y : α) : α :=
  let y := match c with
    | some c => y - c
    | none => y
  match s with
  | some s => y / s
  | none => y

omit [DecidableEq α] in
theorem applyStats_none_none : applyStats (none : Option α) none = fun y => y := rfl
omit [DecidableEq α] in
theorem applyStats_some_none (c : α) : applyStats (some c) none = fun y => y - c := rfl
omit [DecidableEq α] in
theorem applyStats_none_some (s : α) : applyStats none (some s) = fun y => y / s := rfl
omit [DecidableEq α] in
theorem applyStats_some_some (c s : α) : applyStats (some c) (some s) = fun y => (y - c) / s := rfl

theorem applyScale_applyCenter (c s : Option α) (ys : List α) (hs : s ≠ some 0) :
    applyScale s (applyCenter c ys) = .ok (ys.map (applyStats c s)) := by
  have h0 : applyStats (none : Option α) none = id := rfl
  cases c <;> cases s <;>
    simp_all [applyScale, applyCenter, applyStats, List.map_map, Function.comp_def]

/-- with every key recorded, `run` is the recorded affine map; arguments and data statistics are ignored -/
theorem run_recorded (sqrt : α → α) (ys : List α) (ca sa : Arg α) (dd d : α) (c s : Option α)
    (hs : s ≠ some 0) :
    run sqrt ys ca sa dd ⟨some d, some c, some s⟩ =
      .ok (ys.map (applyStats c s), ⟨some d, some c, some s⟩) := by
  simp only [run, resolveDdof, resolveCenter, resolveScale, applyScale_applyCenter c s ys hs]

/-- a successful run leaves all three keys recorded, with a non-zero scale, and its output is the
recorded affine map applied to the input -/
theorem run_state_complete (sqrt : α → α) (xs : List α) (ca sa : Arg α) (dd : α) (st : State α)
    (out : List α) (st1 : State α) (h : run sqrt xs ca sa dd st = .ok (out, st1)) :
    ∃ d c s, st1 = ⟨some d, some c, some s⟩ ∧ s ≠ some 0 ∧ out = xs.map (applyStats c s) := by
  simp only [run] at h
  split at h
  · cases h
  · rename_i s hs
    have hs0 : s ≠ some 0 := by
      rintro rfl
      simp [applyScale] at h
    rw [applyScale_applyCenter _ s xs hs0] at h
    cases h
    exact ⟨_, _, s, rfl, hs0, rfl⟩

/-! ### over `ℝ` -/
section real
open FormulaicVerif FormulaicVerif.Model
theorem spec_mean_eq (xs : List ℝ) : Spec.Real.mean xs = Scale.mean xs := rfl

theorem sumSq_nonneg (zs : List ℝ) : 0 ≤ Scale.sumSq zs := by
  unfold Scale.sumSq
  induction zs with
  | nil => simp
  | cons z r ih => simp only [List.map_cons, List.sum_cons]; exact add_nonneg (mul_self_nonneg z) ih

theorem sumSq_pos (zs : List ℝ) (h : ∃ z ∈ zs, z ≠ 0) : 0 < Scale.sumSq zs := by
  obtain ⟨z, hz, hz0⟩ := h
  induction zs with
  | nil => cases hz
  | cons a r ih =>
    have hr := sumSq_nonneg r
    unfold Scale.sumSq at hr ⊢
    simp only [List.map_cons, List.sum_cons]
    rcases List.mem_cons.mp hz with rfl | hz
    · have : 0 < z * z := mul_self_pos.mpr hz0
      linarith
    · have := ih hz
      unfold Scale.sumSq at this
      have := mul_self_nonneg a
      linarith

theorem spec_std_eq (ddof : ℝ) (xs : List ℝ) :
    Spec.Real.std ddof xs =
      Real.sqrt (Scale.sumSq (xs.map (fun y => y - Scale.mean xs)) / ((xs.length : ℝ) - ddof)) := by
  unfold Spec.Real.std Scale.sumSq
  rw [List.map_map]
  congr 3
  simp [Function.comp_def, pow_two, spec_mean_eq]

end real

end FormulaicVerif.Proofs.C13
