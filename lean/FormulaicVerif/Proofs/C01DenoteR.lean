import FormulaicVerif.Proofs.C01GrammarR
/-! # C01 — parse = denotation for formulas with runs of signs and the literal `0` (token level)

`FormulaR`: the formulas of the documented grammar whose sums may contain sign runs and `0`
(`Proofs/C01GrammarR.lean`). The parser's token rewriting turns the tokens of such a formula into a list
that the shunting-yard cannot tell apart from the rewritten tokens of its NORMAL FORM (runs collapsed by
parity, `± 0` read as `∓ 1`), so `parseToks` gives the denotation of the normal form
(`parse_eq_denote_tokensR`). -/
namespace FormulaicVerif.Proofs.C01DenoteR
open FormulaicVerif FormulaicVerif.Model FormulaicVerif.Proofs.ShuntC FormulaicVerif.Proofs.C01Grammar
open FormulaicVerif.Proofs.C01Intercept FormulaicVerif.Proofs.C01Tokens FormulaicVerif.Proofs.C01Denote
open FormulaicVerif.Proofs.C01Runs FormulaicVerif.Proofs.C01GrammarR FormulaicVerif.Proofs.C01TopLevel
open FormulaicVerif.Proofs.C01ShuntDot
open FormulaicVerif.Spec.Denote
open FormulaicVerif.Spec.Wilkinson (documentedTable)

/-! ### sides as glued segments -/

def glueWith (f : SumR → List Tok) (tail : List SumR) : List (Tok × List Tok) := tail.map (fun q => (barTok, f q))

/-- the tokens of `p | q₁ | …` with `f` giving the tokens of a part -/
def partsWith (f : SumR → List Tok) (p : SumR) (tail : List SumR) : List Tok := f p ++ plainGlue (glueWith f tail)

inductive FormulaR
  | one (p : SumR) (tail : List SumR)
  | tilde (p : SumR) (tail : List SumR)
  | two (l : SumR) (ltail : List SumR) (p : SumR) (tail : List SumR)

/-- the token sequence as written (sign runs are single operator tokens, `0` is a value token) -/
def FormulaR.toks : FormulaR → List Tok
  | .one p tail => partsWith SumR.raw p tail
  | .tilde p tail => opTok tildeSym :: partsWith SumR.raw p tail
  | .two l ltail p tail => partsWith SumR.raw l ltail ++ opTok tildeSym :: partsWith SumR.raw p tail

/-- the normal form: every run collapsed to the sign of its parity, `± 0` read as `∓ 1` -/
def FormulaR.norm : FormulaR → Formula
  | .one p tail => .one p.norm (tail.map SumR.norm)
  | .tilde p tail => .tilde p.norm (tail.map SumR.norm)
  | .two l ltail p tail => .two l.norm (ltail.map SumR.norm) p.norm (tail.map SumR.norm)

theorem bar_not_zero : ¬ IsZero barTok := by intro h; cases h.1
theorem tilde_not_zero : ¬ IsZero (opTok tildeSym) := by intro h; cases h.1

theorem replaceZero_parts (p : SumR) (tail : List SumR) :
    replaceZero (partsWith SumR.raw p tail) = partsWith SumR.pre p tail := by
  unfold partsWith glueWith
  rw [replaceZero_append, SumR.replaceZero_raw, replaceZero_glue _ (by
    intro sp hsp
    obtain ⟨q, _, rfl⟩ := List.mem_map.1 hsp
    exact bar_not_zero)]
  congr 2
  rw [List.map_map]
  apply List.map_congr_left
  intro q _
  simp [SumR.replaceZero_raw]

/-! ### the rewritten token lists -/

theorem plainTail_pre (tail : List SumR) : PlainTail '|' (glueWith SumR.pre tail) := by
  intro sp hsp
  obtain ⟨q, _, rfl⟩ := List.mem_map.1 hsp
  exact ⟨isSep_bar, SumR.plain q⟩

theorem mem_partsWith {f : SumR → List Tok} {p : SumR} {tail : List SumR} {t : Tok}
    (h : t ∈ partsWith f p tail) : t = barTok ∨ ∃ q, t ∈ f q := by
  unfold partsWith glueWith at h
  rcases List.mem_append.1 h with h | h
  · exact Or.inr ⟨p, h⟩
  · rename_i h0
    clear h0
    induction tail with
    | nil => cases h
    | cons q qs ih =>
      simp only [List.map_cons, plainGlue, List.mem_cons, List.mem_append] at h
      rcases h with rfl | h | h
      · exact Or.inl rfl
      · exact Or.inr ⟨q, h⟩
      · exact ih h

theorem lhsOk_pre (l : SumR) (ltail : List SumR) : LhsOk (partsWith SumR.pre l ltail) := by
  intro t ht
  rcases mem_partsWith ht with rfl | ⟨q, hq⟩
  · exact ⟨sep_noSep (by decide) isSep_bar, sep_not_zero isSep_bar, fun _ _ => rfl⟩
  · have := SumR.plain q t hq
    refine ⟨this.1, this.2.2, fun hk hc => ?_⟩
    rw [this.2.1 hk] at hc
    cases hc

theorem ctx_glue : ∀ (tail : List SumR) (A : List Tok) (ctx : List Char),
    ctxAfter (plainGlue (glueWith SumR.pre tail) ++ A) ctx = ctxAfter A ctx
  | [], _, _ => rfl
  | q :: qs, A, ctx => by
    simp only [glueWith, List.map_cons, plainGlue, List.cons_append, List.append_assoc]
    have : ctxAfter (barTok :: (q.pre ++ (plainGlue (glueWith SumR.pre qs) ++ A))) ctx
        = ctxAfter (q.pre ++ (plainGlue (glueWith SumR.pre qs) ++ A)) ctx := ctx_op _ _ _
    unfold glueWith at this
    rw [this, SumR.ctx q]
    exact ctx_glue qs A ctx

theorem topLevel_pre (l : SumR) (ltail : List SumR) : TopLevel (partsWith SumR.pre l ltail) := by
  unfold TopLevel partsWith
  have h := SumR.ctx l (plainGlue (glueWith SumR.pre ltail)) []
  rw [h]
  have h2 := ctx_glue ltail [] []
  rw [List.append_nil] at h2
  rw [h2]
  rfl

theorem partsWith_ne_nil (p : SumR) (tail : List SumR) : partsWith SumR.pre p tail ≠ [] := by
  unfold partsWith
  simp [pre_ne_nil p]

/-- the pending sign in front of a part that follows a separator: the joining `+`, unless the part starts
with a bare sign -/
def jp (q : SumR) : List Char := if headBare q then [] else ['+']

/-- a side without intercepts, merged -/
def sideM0 (p : SumR) (tail : List SumR) : List Tok := partsWith (fun q => q.mrg []) p tail

/-- a right-hand side with `1` (`+`) in front of every part, merged; `front`: the first part is at the very
front of a one-sided formula (the `+` is always inserted there) -/
def sideM1 (front : Bool) (p : SumR) (tail : List SumR) : List Tok :=
  (tokOne :: p.mrg (if front then ['+'] else jp p)) ++ plainGlue (glueWith (fun q => tokOne :: q.mrg (jp q)) tail)

theorem mergesTo_bar : MergesTo [] [barTok] [barTok] := mergesTo_nonpool _ nonPool_bar
theorem mergesTo_one : MergesTo [] [tokOne] [tokOne] := by
  have := mergesTo_nonop [] tokOne tokOne_nonop
  simpa [emit] using this

theorem merges_glue0 : ∀ tail : List SumR,
    MergesTo [] (plainGlue (glueWith SumR.pre tail)) (plainGlue (glueWith (fun q => q.mrg []) tail))
  | [] => mergesTo_nil
  | q :: qs => by
    simp only [glueWith, List.map_cons, plainGlue]
    have h := mergesTo_append mergesTo_bar
      (mergesTo_append (SumR.merges q [] (Or.inl rfl)) (merges_glue0 qs))
    simpa [glueWith] using h

/-- `1` (and the joining `+`) in front of a part, merged -/
theorem merges_sep (q : SumR) (A : List Tok) :
    MergesTo [] (sepIns true (q.pre ++ A).head? ++ q.pre) (tokOne :: q.mrg (jp q)) := by
  unfold sepIns jp
  rw [needsJoin_head q A]
  simp only [if_true]
  cases hb : headBare q with
  | true =>
    simp only [Bool.not_true, Bool.false_eq_true, if_false, if_true, List.cons_append, List.nil_append]
    exact mergesTo_append mergesTo_one (SumR.merges q [] (Or.inl rfl))
  | false =>
    simp only [Bool.not_false, if_true, Bool.false_eq_true, if_false, List.cons_append, List.nil_append]
    refine mergesTo_append (A := [tokOne]) (B := [tokOne]) mergesTo_one ?_
    rw [tokPlus_eq]
    exact mergesTo_run_cons isRun_plus (by simpa using SumR.merges q ['+'] (Or.inr isRun_plus))

theorem merges_glue1 : ∀ tail : List SumR,
    MergesTo [] (insGlue true (glueWith SumR.pre tail))
      (plainGlue (glueWith (fun q => tokOne :: q.mrg (jp q)) tail))
  | [] => mergesTo_nil
  | q :: qs => by
    simp only [glueWith, List.map_cons, insGlue, plainGlue]
    have h1 := merges_sep q (plainGlue (glueWith SumR.pre qs))
    have h := mergesTo_append mergesTo_bar (mergesTo_append h1 (merges_glue1 qs))
    simpa [glueWith, List.append_assoc] using h

theorem mergeSigns_of {A B : List Tok} (h : MergesTo [] A B) : mergeSigns A = B := by
  have := h []
  have e : pend [] = none := rfl
  rw [List.append_nil, e] at this
  unfold mergeSigns
  rw [this]
  simp [mergeSignsAux]

/-! ### indistinguishable from the rewritten tokens of the normal form -/

section PWs
variable (a b c : Bool)

theorem follower_bar : Follower (documentedTable a b c) barTok :=
  follower_op _ barSym _ (resolve_bar a b c) (by cases b <;> decide)
theorem follower_tilde : Follower (documentedTable a b c) (opTok tildeSym) :=
  follower_op _ tildeSym _ (resolve_tilde a b c) (by cases a <;> cases c <;> decide)

theorem glue_fol (f : SumR → List Tok) : ∀ tail : List SumR,
    plainGlue (glueWith f tail) = [] ∨ ∃ u r, plainGlue (glueWith f tail) = u :: r ∧ Follower (documentedTable a b c) u
  | [] => Or.inl rfl
  | q :: qs => Or.inr ⟨barTok, _, rfl, follower_bar a b c⟩

theorem barTok_ne_x0 : barTok ≠ x0 := opTok_ne_x0 _

theorem pw_glue (f : SumR → List Tok) (g : SumR → Sum)
    (h : ∀ q, PD (documentedTable a b c) (f q) (lin (g q).toE)) : ∀ tail : List SumR,
    PD (documentedTable a b c) (plainGlue (glueWith f tail)) (plainGlue (glueOf (tail.map g)))
  | [] => .nil
  | q :: qs => by
    simp only [glueWith, glueOf, List.map_cons, plainGlue]
    exact PD.same _ barTok_ne_x0 (PD.append (h q) (pw_glue f g h qs) (glue_fol a b c f qs))

theorem pw_side0 (p : SumR) (tail : List SumR) :
    PD (documentedTable a b c) (sideM0 p tail) (partsToks p.norm (tail.map SumR.norm)) := by
  rw [partsToks_glue]
  exact PD.append (SumR.pw0 a b c p) (pw_glue a b c _ _ (SumR.pw0 a b c) tail) (glue_fol a b c _ tail)

theorem pw_part1 (q : SumR) : PD (documentedTable a b c) (tokOne :: q.mrg (jp q)) (lin (withOne q.norm).toE) := by
  unfold jp
  cases hb : headBare q with
  | true =>
    simp only [if_true]
    have h := pw1 a b c [] (Or.inl rfl) q (Or.inr (hasLead_of_headBare q hb))
    rwa [one1_eq_withOne [] (Or.inl rfl) q (Or.inr (hasLead_of_headBare q hb))] at h
  | false =>
    simp only [Bool.false_eq_true, if_false]
    have h := pw1 a b c ['+'] (Or.inr isRun_plus) q (Or.inl isRun_plus)
    rwa [one1_eq_withOne ['+'] (Or.inr rfl) q (Or.inl rfl)] at h

theorem pw_front1 (q : SumR) : PD (documentedTable a b c) (tokOne :: q.mrg ['+']) (lin (withOne q.norm).toE) := by
  have h := pw1 a b c ['+'] (Or.inr isRun_plus) q (Or.inl isRun_plus)
  rwa [one1_eq_withOne ['+'] (Or.inr rfl) q (Or.inl rfl)] at h

theorem pw_side1 (front : Bool) (p : SumR) (tail : List SumR) :
    PD (documentedTable a b c) (sideM1 front p tail)
      (partsToks (withOne p.norm) ((tail.map SumR.norm).map withOne)) := by
  rw [partsToks_glue, List.map_map]
  refine PD.append ?_ (pw_glue a b c _ (fun q => withOne q.norm) (pw_part1 a b c) tail) (glue_fol a b c _ tail)
  cases front
  · exact pw_part1 a b c p
  · exact pw_front1 a b c p

end PWs

/-! ### what `get_tokens_from_formula` makes of the tokens -/

theorem merges_side0 (p : SumR) (tail : List SumR) : MergesTo [] (partsWith SumR.pre p tail) (sideM0 p tail) :=
  mergesTo_append (SumR.merges p [] (Or.inl rfl)) (merges_glue0 tail)

theorem mergesTo_tilde : MergesTo [] [opTok tildeSym] [opTok tildeSym] := mergesTo_nonpool _ nonPool_tilde

/-- the right-hand side (after a `~`, or a whole one-sided formula) as rewritten and merged -/
def sideM (add front : Bool) (p : SumR) (tail : List SumR) : List Tok :=
  if add then sideM1 front p tail else sideM0 p tail

theorem pw_side (a b c : Bool) (add front : Bool) (p : SumR) (tail : List SumR) :
    PD (documentedTable a b c) (sideM add front p tail)
      (partsToks (wo add p.norm) ((tail.map SumR.norm).map (wo add))) := by
  cases add
  · simp only [sideM, Bool.false_eq_true, if_false, map_wo_false, wo_false]
    exact pw_side0 a b c p tail
  · exact pw_side1 a b c front p tail

/-- one-sided: the rewriting, explicitly -/
theorem intercept_oneR (add : Bool) (p : SumR) (tail : List SumR) :
    interceptTokens add (partsWith SumR.raw p tail) = (sideM add true p tail, []) := by
  rw [← interceptTokens_replaceZero, replaceZero_parts]
  have h := intercept_onesided add p.pre (glueWith SumR.pre tail) (partsWith_ne_nil p tail) (SumR.plain p)
    (plainTail_pre tail)
  unfold partsWith at h ⊢
  rw [h]
  congr 1
  apply mergeSigns_of
  cases add
  · simp only [Bool.false_eq_true, if_false, List.nil_append, insGlue_false, sideM]
    exact merges_side0 p tail
  · simp only [if_true, sideM, sideM1]
    have h1 : MergesTo [] (tokPlus :: (p.pre ++ insGlue true (glueWith SumR.pre tail)))
        (p.mrg ['+'] ++ plainGlue (glueWith (fun q => tokOne :: q.mrg (jp q)) tail)) := by
      rw [tokPlus_eq]
      refine mergesTo_run_cons isRun_plus ?_
      exact mergesTo_append (by simpa using SumR.merges p ['+'] (Or.inr isRun_plus)) (merges_glue1 tail)
    exact mergesTo_append (A := [tokOne]) (B := [tokOne]) mergesTo_one h1

/-- behind a `~`: `lhs ~ rhs`, `lhs` any token list that the rewriting leaves alone up to merging -/
theorem intercept_twoR (add : Bool) (l : SumR) (ltail : List SumR) (p : SumR) (tail : List SumR) :
    interceptTokens add (partsWith SumR.raw l ltail ++ opTok tildeSym :: partsWith SumR.raw p tail)
      = (sideM0 l ltail ++ opTok tildeSym :: sideM add false p tail,
         partsWith SumR.pre l ltail ++ [opTok tildeSym]) := by
  rw [← interceptTokens_replaceZero, replaceZero_append, replaceZero_cons_other _ _ tilde_not_zero,
    replaceZero_parts, replaceZero_parts]
  have h := intercept_twosided add (partsWith SumR.pre l ltail) (opTok tildeSym) p.pre (glueWith SumR.pre tail)
    (lhsOk_pre l ltail) (topLevel_pre l ltail) isSep_tilde (SumR.plain p) (plainTail_pre tail)
  have e : partsWith SumR.pre p tail = p.pre ++ plainGlue (glueWith SumR.pre tail) := rfl
  rw [e, h]
  congr 1
  apply mergeSigns_of
  refine mergesTo_append (merges_side0 l ltail) ?_
  refine mergesTo_append (A := [opTok tildeSym]) (B := [opTok tildeSym]) mergesTo_tilde ?_
  cases add
  · simp only [sepIns, Bool.false_eq_true, if_false, List.nil_append, insGlue_false, sideM]
    exact merges_side0 p tail
  · simp only [sideM, if_true, sideM1, Bool.false_eq_true, if_false]
    have hm := mergesTo_append (merges_sep p (plainGlue (glueWith SumR.pre tail))) (merges_glue1 tail)
    rw [List.append_assoc] at hm
    exact hm

theorem intercept_tildeR (add : Bool) (p : SumR) (tail : List SumR) :
    interceptTokens add (opTok tildeSym :: partsWith SumR.raw p tail)
      = (opTok tildeSym :: sideM add false p tail, [opTok tildeSym]) := by
  rw [← interceptTokens_replaceZero, replaceZero_cons_other _ _ tilde_not_zero, replaceZero_parts]
  have h := intercept_twosided add [] (opTok tildeSym) p.pre (glueWith SumR.pre tail)
    (fun _ h => by cases h) rfl isSep_tilde (SumR.plain p) (plainTail_pre tail)
  have e : partsWith SumR.pre p tail = p.pre ++ plainGlue (glueWith SumR.pre tail) := rfl
  simp only [List.nil_append] at h
  rw [e, h]
  congr 1
  apply mergeSigns_of
  refine mergesTo_append (A := [opTok tildeSym]) (B := [opTok tildeSym]) mergesTo_tilde ?_
  cases add
  · simp only [sepIns, Bool.false_eq_true, if_false, List.nil_append, insGlue_false, sideM]
    exact merges_side0 p tail
  · simp only [sideM, if_true, sideM1, Bool.false_eq_true, if_false]
    have hm := mergesTo_append (merges_sep p (plainGlue (glueWith SumR.pre tail))) (merges_glue1 tail)
    rw [List.append_assoc] at hm
    exact hm

/-! ### the theorem -/

theorem tilde_ne_x0 : opTok tildeSym ≠ x0 := opTok_ne_x0 _

/-- **the tree**: the rewritten tokens of a formula with sign runs, zeros and `.` give the shunting-yard the
tree of the rewritten tokens of its normal form, with every placeholder leaf replaced by the `.` node -/
theorem tokensToAst_R (cfg : ParseCfg) (f : FormulaR) :
    tokensToAst cfg.table (interceptTokens cfg.includeIntercept f.toks).1
      = rhoRes (tokensToAst cfg.table (f.norm.rewritten cfg.includeIntercept)) := by
  rw [table_doc]
  cases f with
  | one p tail =>
    simp only [FormulaR.toks, FormulaR.norm, Formula.rewritten, intercept_oneR]
    exact tokensToAst_dot _ _ _ (pw_side _ _ _ _ true p tail)
  | tilde p tail =>
    simp only [FormulaR.toks, FormulaR.norm, Formula.rewritten, intercept_tildeR]
    exact tokensToAst_dot _ _ _ (PD.same _ tilde_ne_x0 (pw_side _ _ _ _ false p tail))
  | two l ltail p tail =>
    simp only [FormulaR.toks, FormulaR.norm, Formula.rewritten, intercept_twoR]
    exact tokensToAst_dot _ _ _ (PD.append (pw_side0 _ _ _ l ltail)
      (PD.same _ tilde_ne_x0 (pw_side _ _ _ _ false p tail)) (fol_cons _ _ (follower_tilde _ _ _)))

/-- the left-hand-side tokens the rewriting reports -/
theorem lhsToks_R (add : Bool) : ∀ f : FormulaR, (interceptTokens add f.toks).2 =
    (match f with
     | .one _ _ => []
     | .tilde _ _ => [opTok tildeSym]
     | .two l ltail _ _ => partsWith SumR.pre l ltail ++ [opTok tildeSym])
  | .one p tail => by simp only [FormulaR.toks, intercept_oneR]
  | .tilde p tail => by simp only [FormulaR.toks, intercept_tildeR]
  | .two l ltail p tail => by simp only [FormulaR.toks, intercept_twoR]

end FormulaicVerif.Proofs.C01DenoteR
