import FormulaicVerif.Props.C11
/-! C03 / crossed-design model: what `encode_contrasts` (the model of `transforms/contrasts.py`, C11) returns on a
data column that is given by level indices: column `j` of the encoding is, row by row, entry `(level of the row, j)` of
the table the dummies are multiplied with — the coding matrix for `reduced_rank=True`, the identity otherwise. -/
namespace FormulaicVerif.Proofs.C03Encode
open FormulaicVerif.Model.Contrasts FormulaicVerif.Proofs.C11 FormulaicVerif.Props.C11
open Finset

/-- the table behind an encoding: entry function and number of columns -/
def tableOf (k : Kind) (n : ℕ) (reduced : Bool) : Arr × ℕ :=
  if reduced then (coding k n, n - 1) else (eye, n)

theorem getCodingMatrix_table (c : Contrast) (levels : List Label) (reduced sparse : Bool) (m : List (List ℚ))
    (k : Kind) (hk : c.kind levels = .ok k) (h : getCodingMatrix c levels reduced sparse = .ok m) :
    m = toRows (tableOf k levels.length reduced).1 levels.length (tableOf k levels.length reduced).2 := by
  cases reduced with
  | true =>
    obtain ⟨k', hk', hm, _⟩ := model_rows_are_entries c levels sparse m h
    rw [hk, Except.ok.injEq] at hk'
    subst hk'
    simpa [tableOf] using hm
  | false =>
    have := getCodingMatrix_raw c levels false sparse m h
    simp only [rawCodingMatrix, Bool.false_eq_true, if_false, Except.ok.injEq] at this
    simpa [tableOf] using this.symm

theorem indicator_sum (levels : List Label) (hnd : levels.Nodup) (l0 : ℕ) (h0 : l0 < levels.length) (a : Arr) (j : ℕ) :
    sumTo levels.length (fun l => listFn (indicatorRow levels levels[l0]?) l * a l j) = a l0 j := by
  have hfun : ∀ l, l < levels.length →
      listFn (indicatorRow levels levels[l0]?) l * a l j = a l j * (if l = l0 then 1 else 0) := by
    intro l hl
    rw [indicator_entry levels _ l hl, List.getElem?_eq_getElem h0]
    by_cases hll : l = l0
    · subst hll; simp
    · have : levels[l0] ≠ levels[l] := fun e => hll ((hnd.getElem_inj_iff).mp e).symm
      simp [hll, this]
  rw [← sumTo_point levels.length l0 h0 (fun l => a l j)]
  rw [sumTo_eq, sumTo_eq]
  apply Finset.sum_congr rfl
  intro l hl
  exact hfun l (Finset.mem_range.mp hl)

theorem column_map_range (lv : List ℕ) (g : ℕ → ℕ → ℚ) (w j : ℕ) (hj : j < w) :
    column (lv.map (fun l0 => (List.range w).map (fun j => g l0 j))) j = lv.map (fun l0 => g l0 j) := by
  simp only [column, List.filterMap_map]
  have : ((fun x : List ℚ => x[j]?) ∘ fun l0 => List.map (fun j => g l0 j) (List.range w)) = (some ∘ fun l0 => g l0 j) := by
    funext l0; simp [hj]
  rw [this, List.filterMap_eq_map]

theorem codingColumnNames_length (c : Contrast) (levels : List Label) (reduced : Bool) (names : List Label)
    (hne : levels ≠ []) (h : codingColumnNames c levels reduced = .ok names) :
    names.length = if reduced then levels.length - 1 else levels.length := by
  have hpos : 0 < levels.length := List.length_pos_of_ne_nil hne
  cases c with
  | treatment b =>
    simp only [codingColumnNames, bind, Except.bind] at h
    cases hb : findBaseIndex false b levels with
    | error e => simp [hb] at h
    | ok bi =>
      have hlt := findBaseIndex_lt false b levels bi hne hb
      simp only [hb, pure, Except.pure, Except.ok.injEq] at h
      subst h
      cases reduced <;> simp [List.length_eraseIdx, hlt]
  | sas b =>
    simp only [codingColumnNames, bind, Except.bind] at h
    cases hb : findBaseIndex true b levels with
    | error e => simp [hb] at h
    | ok bi =>
      have hlt := findBaseIndex_lt true b levels bi hne hb
      simp only [hb, pure, Except.pure, Except.ok.injEq] at h
      subst h
      cases reduced <;> simp [List.length_eraseIdx, hlt]
  | sum =>
    simp only [codingColumnNames, Except.ok.injEq] at h
    subst h
    cases reduced <;> simp
  | helmert r s =>
    simp only [codingColumnNames, Except.ok.injEq] at h
    subst h
    cases reduced <;> cases r <;> simp
  | diff b =>
    simp only [codingColumnNames, Except.ok.injEq] at h
    subst h
    cases reduced <;> cases b <;> simp
  | poly sc =>
    simp only [codingColumnNames, Except.ok.injEq] at h
    subst h
    cases reduced <;> simp

/-- `encode_contrasts` with `levels=None` on data whose inferred categories are `levels` behaves as with
`levels=levels` -/
theorem encodeContrasts_none (data : List (Option Label)) (c : Contrast) (reduced : Bool) (out : String)
    (hd : hasDup (inferLevels data) = false) :
    encodeContrasts data c none reduced out = encodeContrasts data c (some (inferLevels data)) reduced out := by
  simp [encodeContrasts, hd]


/-- the metadata `encode_contrasts` attaches (names, spans_intercept, drop_field, formats), with explicit levels -/
theorem encodeContrasts_meta (data : List (Option Label)) (c : Contrast) (levels : List Label) (reduced : Bool)
    (out : String) (enc : Encoded) (cats : List Label)
    (h : encodeContrasts data c (some levels) reduced out = .ok (enc, cats)) :
    cats = levels ∧ enc.format = factorFormat c reduced ∧ enc.formatReduced = factorFormat c true ∧
    (((levels.isEmpty || (levels.length == 1 && reduced)) = true ∧ enc.columnNames = [] ∧
        enc.spansIntercept = false ∧ enc.dropField = none) ∨
      ((levels.isEmpty || (levels.length == 1 && reduced)) = false ∧
        codingColumnNames c levels reduced = .ok enc.columnNames ∧
        enc.spansIntercept = spansIntercept levels reduced ∧ dropField c levels reduced = .ok enc.dropField)) := by
  unfold encodeContrasts at h
  by_cases hd : hasDup levels = true
  · simp [hd, bind, Except.bind] at h
  · simp only [hd, bind, Except.bind, pure, Except.pure, Bool.false_eq_true, if_false] at h
    split_ifs at h
    cases ha : Model.Contrasts.apply c (indicator levels data) levels reduced (out == "sparse") with
    | error e => simp [ha] at h
    | ok e =>
      simp only [ha, Except.ok.injEq, Prod.mk.injEq] at h
      obtain ⟨rfl, rfl⟩ := h
      refine ⟨rfl, ?_⟩
      unfold Model.Contrasts.apply at ha
      by_cases hsc : (levels.isEmpty || (levels.length == 1 && reduced)) = true
      · simp only [hsc, if_true, Except.ok.injEq] at ha
        subst ha
        exact ⟨rfl, rfl, .inl ⟨hsc, rfl, rfl, rfl⟩⟩
      · have hsc' : (levels.isEmpty || (levels.length == 1 && reduced)) = false := by simpa using hsc
        simp only [hsc, Bool.false_eq_true, if_false, bind, Except.bind] at ha
        cases hv : applyInner c (indicator levels data) levels reduced (out == "sparse") with
        | error e' => simp [hv] at ha
        | ok vals =>
          simp only [hv] at ha
          cases hn : codingColumnNames c levels reduced with
          | error e' => simp [hn] at ha
          | ok names =>
            simp only [hn] at ha
            cases hdf : dropField c levels reduced with
            | error e' => simp [hdf] at ha
            | ok df =>
              simp only [hdf, pure, Except.pure, Except.ok.injEq] at ha
              subst ha
              exact ⟨rfl, rfl, .inr ⟨hsc', rfl, rfl, rfl⟩⟩

/-- **the encoded columns on data given by level indices**: with `lv` the level index of every row, column `j` of
`encode_contrasts(data, c, levels, reduced_rank)` is `row ↦ table[level of the row][j]`, where the table is the coding
matrix of the contrast (`reduced_rank=True`) or the identity (`False`); and there are as many column names as the
table has columns. -/
theorem encode_columns (levels : List Label) (hnd : levels.Nodup) (hne : levels ≠ []) (lv : List ℕ)
    (hlv : ∀ l ∈ lv, l < levels.length) (c : Contrast) (reduced : Bool) (out : String)
    (k : Kind) (hk : c.kind levels = .ok k) (m : List (List ℚ))
    (hm : getCodingMatrix c levels reduced (out == "sparse") = .ok m)
    (enc : Encoded) (cats : List Label)
    (h : encodeContrasts (lv.map (fun l => levels[l]?)) c (some levels) reduced out = .ok (enc, cats)) :
    enc.columnNames.length = (tableOf k levels.length reduced).2 ∧
    ∀ j, j < (tableOf k levels.length reduced).2 →
      column enc.values j = lv.map (fun l => (tableOf k levels.length reduced).1 l j) := by
  obtain ⟨hcats, _, _, hmeta⟩ := encodeContrasts_meta _ c levels reduced out enc cats h
  subst hcats
  have hw : (tableOf k cats.length reduced).2 = if reduced then cats.length - 1 else cats.length := by
    cases reduced <;> simp [tableOf]
  constructor
  · rcases hmeta with ⟨hsc, hn, _, _⟩ | ⟨_, hn, _, _⟩
    · have hemp : cats.isEmpty = false := by
        cases cats with
        | nil => exact absurd rfl hne
        | cons a t => rfl
      simp only [hemp, Bool.false_or, Bool.and_eq_true, beq_iff_eq] at hsc
      rw [hn, hw, hsc.2, if_pos rfl, hsc.1]
      rfl
    · rw [hw]; exact codingColumnNames_length c cats reduced _ hne hn
  · intro j hj
    obtain ⟨hvals, _⟩ := apply_is_product _ c (some cats) reduced out enc cats m h hne hm
    have hrect : ∀ row ∈ indicator cats (lv.map (fun l => cats[l]?)), row.length = cats.length := by
      intro row hrow
      simp only [indicator, List.mem_map] at hrow
      obtain ⟨d, _, rfl⟩ := hrow
      simp [indicatorRow]
    rw [getCodingMatrix_table c cats reduced _ m k hk hm, ← hw, matMul_toRows _ _ _ _ hrect] at hvals
    have hv2 : enc.values = lv.map (fun l0 => (List.range (tableOf k cats.length reduced).2).map
        (fun j => (tableOf k cats.length reduced).1 l0 j)) := by
      rw [hvals]
      simp only [indicator, List.map_map]
      apply List.map_congr_left
      intro l0 hl0
      simp only [Function.comp_apply]
      apply List.map_congr_left
      intro j' _
      exact indicator_sum cats hnd l0 (hlv l0 hl0) _ j'
    rw [hv2]
    exact column_map_range lv _ _ j hj

end FormulaicVerif.Proofs.C03Encode
