import FormulaicVerif.Proofs.C18Call
/-! Helper lemmas for C18: every operation of a history, run on the store in copy mode, computes the
value-level operation on the values of the specs handed out so far. -/
namespace FormulaicVerif.Proofs.C18
open FormulaicVerif.Model.Heap FormulaicVerif.Spec.Purity

variable {F E : Type}

/-- every spec handed out refers to allocated cells -/
def Inv (w : World F E) : Prop := ∀ s ∈ w.specs, s.t < w.next ∧ s.e < w.next

/-- the values of the specs handed out so far -/
def absW (w : World F E) : List (PSpec F E) := w.specs.map (absS w)

theorem absW_frame (w w' : World F E) (hi : Inv w)
    (hf : ∀ r, r < w.next → w'.tcells r = w.tcells r ∧ w'.ecells r = w.ecells r) :
    w.specs.map (absS w') = absW w := by
  unfold absW
  apply List.map_congr_left
  intro s hs
  have := hi s hs
  exact absS_congr w w' s (hf _ this.1).1 (hf _ this.2).2

theorem lookupAll_map {α β : Type} (f : α → β) (l : List α) (hs : List Nat) :
    lookupAll (l.map f) hs = (lookupAll l hs).map (List.map f) := by
  induction hs with
  | nil => rfl
  | cons h hs ih =>
    simp only [lookupAll, ih, List.getElem?_map]
    cases l[h]? <;> cases lookupAll l hs <;> rfl

theorem lookupAll_mem {α : Type} (l : List α) : ∀ (hs : List Nat) (as : List α),
    lookupAll l hs = some as → ∀ a ∈ as, a ∈ l := by
  intro hs
  induction hs with
  | nil => intro as h a ha; simp [lookupAll] at h; subst h; simp at ha
  | cons h hs ih =>
    intro as hh a ha
    simp only [lookupAll] at hh
    cases hl : l[h]? with
    | none => simp [hl] at hh
    | some x =>
      cases hr : lookupAll l hs with
      | none => simp [hl, hr] at hh
      | some xs =>
        simp only [hl, hr, Option.some.injEq] at hh
        subst hh
        rcases List.mem_cons.mp ha with e | e
        · subst e; exact List.mem_of_getElem? hl
        · exact ih xs hr a e

theorem absS_applyUpd (w : World F E) (u : Upd) (s : Spec E) :
    absS w (applyUpd u s) = pApplyUpd u (absS w s) := rfl

theorem subset_sim_aux (w : World F E) (f : Formula) (c : Cfg) (st : Option (List (StructEntry E)))
    (t e : Nat) (terms : List Term) :
    (match subsetSpec (⟨f, c, st, t, e⟩ : Spec E) terms with
      | .error x => (Except.error x : Except Err (PSpec F E))
      | .ok s' => .ok (absS w s')) = pSubset ⟨f, c, st, w.tcells t, w.ecells e⟩ terms := by
  unfold subsetSpec pSubset
  by_cases h : (terms.all fun x => f.contains x) = true
  · rw [if_pos h, if_pos h]
    cases st with
    | none => rfl
    | some st =>
      simp only
      cases terms.mapM (fun t => st.find? fun e => e.term == t) <;> rfl
  · rw [if_neg h, if_neg h]

theorem subset_sim (w : World F E) (s : Spec E) (terms : List Term) :
    (match subsetSpec s terms with
      | .error e => (Except.error e : Except Err (PSpec F E))
      | .ok s' => .ok (absS w s')) = pSubset (absS w s) terms :=
  subset_sim_aux w s.formula s.cfg s.struct s.t s.e terms

theorem subsetSpec_refs (s s' : Spec E) (terms : List Term) (h : subsetSpec s terms = .ok s') :
    s'.t = s.t ∧ s'.e = s.e := by
  unfold subsetSpec at h
  split at h
  · cases hs : s.struct with
    | none => simp [hs] at h
    | some st =>
      simp only [hs] at h
      cases hm : terms.mapM (fun t => st.find? fun e => e.term == t) with
      | none => simp [hm] at h
      | some es => simp [hm] at h; subst h; exact ⟨rfl, rfl⟩
  · simp at h

/-- fresh specs for the parts of a formula: new empty cells, nothing else touched -/
theorem freshSpecs_spec (cfg : Cfg) : ∀ (fs : List Formula) (w : World F E),
    (freshSpecs cfg w fs).1.next = w.next + fs.length
    ∧ (freshSpecs cfg w fs).1.specs = w.specs
    ∧ (∀ r, r < w.next → (freshSpecs cfg w fs).1.tcells r = w.tcells r
        ∧ (freshSpecs cfg w fs).1.ecells r = w.ecells r)
    ∧ (freshSpecs cfg w fs).2.map (absS (freshSpecs cfg w fs).1)
        = fs.map (fun f => (⟨f, cfg, none, Dict.empty, Dict.empty⟩ : PSpec F E))
    ∧ (∀ s ∈ (freshSpecs cfg w fs).2, w.next ≤ s.t ∧ s.t < w.next + fs.length ∧ s.e = s.t) := by
  intro fs
  induction fs with
  | nil => intro w; simp [freshSpecs]
  | cons f fs ih =>
    intro w
    obtain ⟨i1, i2, i3, i4, i5⟩ := ih (w.alloc Dict.empty Dict.empty)
    simp only [freshSpecs]
    simp only [alloc_next, alloc_specs] at i1 i2 i3 i5
    refine ⟨by rw [i1]; simp; omega, i2, ?_, ?_, ?_⟩
    · intro r hr
      obtain ⟨a, b⟩ := i3 r (by omega)
      exact ⟨a.trans (alloc_tcells_lt w _ _ hr), b.trans (alloc_ecells_lt w _ _ hr)⟩
    · simp only [List.map_cons]
      congr 1
      · obtain ⟨a, b⟩ := i3 w.next (by omega)
        simp [absS, a, b]
    · intro s hs
      rcases List.mem_cons.mp hs with e | e
      · subst e; simp
      · have := i5 s e
        simp only [List.length_cons]; omega

theorem factorsOf_abs (w : World F E) (ss : List (Spec E)) :
    pFactorsOf (ss.map (absS w)) = factorsOf ss := by
  unfold pFactorsOf factorsOf
  rw [List.flatMap_map]
  rfl

variable (P : Params F E)

/-- handing out the specs attached to the produced matrices -/
theorem publish_sim (w : World F E) (r : World F E × Except Err (List (Part F E × Spec E)))
    (pres : Except Err (List (Part F E × PSpec F E)))
    (hi : Inv w) (hs : r.1.specs = w.specs) (hn : w.next ≤ r.1.next)
    (hf : ∀ x, x < w.next → r.1.tcells x = w.tcells x ∧ r.1.ecells x = w.ecells x)
    (ha : absR r.1 r.2 = pres)
    (hr : ∀ l, r.2 = .ok l → ∀ x ∈ l, x.2.t < r.1.next ∧ x.2.e < r.1.next) :
    (publish r).2 = (pPublish (absW w) pres).2
    ∧ absW (publish r).1 = (pPublish (absW w) pres).1
    ∧ Inv (publish r).1
    ∧ (∀ x, x < w.next → (publish r).1.tcells x = w.tcells x ∧ (publish r).1.ecells x = w.ecells x)
    ∧ w.next ≤ (publish r).1.next
    ∧ (∃ new, (publish r).1.specs = w.specs ++ new) := by
  obtain ⟨w', res⟩ := r
  simp only at hs hn hf ha hr
  subst ha
  have hold : w.specs.map (absS w') = absW w := absW_frame w w' hi hf
  cases res with
  | error e =>
    simp only [publish, pPublish, absR]
    refine ⟨by triv, ?_, ?_, hf, hn, ⟨[], by simp [hs]⟩⟩
    · unfold absW; rw [hs]; exact hold
    · intro s hs'
      rw [hs] at hs'
      have := hi s hs'
      omega
  | ok l =>
    simp only [publish, pPublish, absR]
    refine ⟨?_, ?_, ?_, hf, hn, ⟨l.map (·.2), by simp [hs]⟩⟩
    · simp [absL, List.map_map, Function.comp_def]
    · unfold absW
      simp only [hs, List.map_append, List.map_map]
      congr 1
      simp [absL, List.map_map, Function.comp_def, absS]
    · intro s hs'
      simp only [hs, List.mem_append, List.mem_map] at hs'
      rcases hs' with h | ⟨x, hx, rfl⟩
      · have := hi s h
        simp only; omega
      · exact hr l rfl x hx


/-- what one operation in copy mode guarantees -/
structure StepSim (w : World F E) (op : Op) : Prop where
  out : (step P .copy w op).2 = (pstep P (absW w) op).2
  env : absW (step P .copy w op).1 = (pstep P (absW w) op).1
  inv : Inv (step P .copy w op).1
  frame : ∀ x, x < w.next → (step P .copy w op).1.tcells x = w.tcells x
    ∧ (step P .copy w op).1.ecells x = w.ecells x
  mono : w.next ≤ (step P .copy w op).1.next
  grow : ∃ new, (step P .copy w op).1.specs = w.specs ++ new

theorem StepSim.ofPublish (w : World F E) (op : Op)
    (r : World F E × Except Err (List (Part F E × Spec E))) (pres : Except Err (List (Part F E × PSpec F E)))
    (h1 : step P .copy w op = publish r) (h2 : pstep P (absW w) op = pPublish (absW w) pres)
    (hi : Inv w) (hs : r.1.specs = w.specs) (hn : w.next ≤ r.1.next)
    (hf : ∀ x, x < w.next → r.1.tcells x = w.tcells x ∧ r.1.ecells x = w.ecells x)
    (ha : absR r.1 r.2 = pres)
    (hr : ∀ l, r.2 = .ok l → ∀ x ∈ l, x.2.t < r.1.next ∧ x.2.e < r.1.next) : StepSim P w op := by
  obtain ⟨a, b, c, d, e, f⟩ := publish_sim w r pres hi hs hn hf ha hr
  exact ⟨by rw [h1, h2]; exact a, by rw [h1, h2]; exact b, by rw [h1]; exact c,
    by rw [h1]; exact d, by rw [h1]; exact e, by rw [h1]; exact f⟩

theorem step_sim (w : World F E) (op : Op) (hi : Inv w) : StepSim P w op := by
  cases op with
  | newSpec f cfg =>
    have hold := absW_frame w (w.alloc Dict.empty Dict.empty) hi
      (fun r hr => ⟨alloc_tcells_lt w _ _ hr, alloc_ecells_lt w _ _ hr⟩)
    refine ⟨rfl, ?_, ?_, ?_, ?_, ⟨[_], rfl⟩⟩
    · show List.map _ (w.specs ++ [_]) = absW w ++ [_]
      rw [List.map_append, ← hold]
      congr 1
      · simp only [absS, List.map_cons, List.map_nil, List.cons.injEq, and_true]
        have e1 : (step P Mode.copy w (Op.newSpec f cfg)).fst.tcells w.next = Dict.empty := by
          simp [step, World.alloc]
        have e2 : (step P Mode.copy w (Op.newSpec f cfg)).fst.ecells w.next = Dict.empty := by
          simp [step, World.alloc]
        rw [e1, e2]
    · intro s hs
      simp only [step, List.mem_append, List.mem_singleton] at hs
      rcases hs with h | h
      · have := hi s h; simp only [step, alloc_next]; omega
      · subst h; simp [step]
    · intro x hx
      exact ⟨alloc_tcells_lt w Dict.empty Dict.empty hx, alloc_ecells_lt w Dict.empty Dict.empty hx⟩
    · simp [step]
  | update h u =>
    cases hl : w.specs[h]? with
    | none =>
      have hp : (absW w)[h]? = none := by simp [absW, hl]
      refine ⟨?_, ?_, ?_, ?_, ?_, ?_⟩ <;> simp only [step, pstep, hl, hp]
      · exact hi
      · intros; first | trivial | exact ⟨rfl, rfl⟩
      · exact Nat.le_refl _
      · exact ⟨[], by simp⟩
    | some s =>
      have hp : (absW w)[h]? = some (absS w s) := by simp [absW, hl]
      have hm := List.mem_of_getElem? hl
      refine ⟨?_, ?_, ?_, ?_, ?_, ?_⟩ <;> simp only [step, pstep, hl, hp]
      · show List.map _ (w.specs ++ [_]) = absW w ++ [_]
        rw [List.map_append]; rfl
      · intro s' hs'
        simp only [List.mem_append, List.mem_singleton] at hs'
        rcases hs' with h' | h'
        · exact hi s' h'
        · subst h'; exact hi s hm
      · intros; first | trivial | exact ⟨rfl, rfl⟩
      · exact Nat.le_refl _
      · exact ⟨[_], rfl⟩
  | subset h terms =>
    cases hl : w.specs[h]? with
    | none =>
      have hp : (absW w)[h]? = none := by simp [absW, hl]
      refine ⟨?_, ?_, ?_, ?_, ?_, ?_⟩ <;> simp only [step, pstep, hl, hp]
      · exact hi
      · intros; first | trivial | exact ⟨rfl, rfl⟩
      · exact Nat.le_refl _
      · exact ⟨[], by simp⟩
    | some s =>
      have hp : (absW w)[h]? = some (absS w s) := by simp [absW, hl]
      have hm := List.mem_of_getElem? hl
      have hsim := subset_sim w s terms
      cases hsub : subsetSpec s terms with
      | error e =>
        rw [hsub] at hsim
        refine ⟨?_, ?_, ?_, ?_, ?_, ?_⟩ <;> simp only [step, pstep, hl, hp, hsub, ← hsim]
        · exact hi
        · intros; first | trivial | exact ⟨rfl, rfl⟩
        · exact Nat.le_refl _
        · exact ⟨[], by simp⟩
      | ok s' =>
        rw [hsub] at hsim
        obtain ⟨rt, re⟩ := subsetSpec_refs s s' terms hsub
        refine ⟨?_, ?_, ?_, ?_, ?_, ?_⟩ <;> simp only [step, pstep, hl, hp, hsub, ← hsim]
        · show List.map _ (w.specs ++ [_]) = absW w ++ [_]
          rw [List.map_append]; rfl
        · intro s2 hs2
          simp only [List.mem_append, List.mem_singleton] at hs2
          rcases hs2 with h' | h'
          · exact hi s2 h'
          · subst h'; rw [rt, re]; exact hi s hm
        · intros; first | trivial | exact ⟨rfl, rfl⟩
        · exact Nat.le_refl _
        · exact ⟨[_], rfl⟩
  | build fs cfg d =>
    obtain ⟨f1, f2, f3, f4, f5⟩ := freshSpecs_spec (F := F) (E := E) cfg fs w
    have hrefs : ∀ s ∈ (freshSpecs cfg w fs).2, s.t < (freshSpecs cfg w fs).1.next
        ∧ s.e < (freshSpecs cfg w fs).1.next := by
      intro s hs
      have := f5 s hs
      rw [f1]; omega
    obtain ⟨c1, c2, c3, c4, c5⟩ := callCore_copy P (freshSpecs cfg w fs).1 (freshSpecs cfg w fs).2 d
      (factorsOf (freshSpecs cfg w fs).2) hrefs
    refine StepSim.ofPublish P w _ _ (pureCall P (fs.map fun f => ⟨f, cfg, none, Dict.empty, Dict.empty⟩) d
      (pFactorsOf (fs.map fun f => (⟨f, cfg, none, Dict.empty, Dict.empty⟩ : PSpec F E)))) rfl rfl hi
      (by rw [c3, f2]) (by rw [c2, f1]; omega) ?_ ?_ ?_
    · intro x hx
      obtain ⟨a, b⟩ := c4 x (by rw [f1]; omega)
      exact ⟨a.trans (f3 x hx).1, b.trans (f3 x hx).2⟩
    · rw [c1, f4, ← factorsOf_abs (freshSpecs cfg w fs).1, f4]
    · intro l hl x hx
      have := c5 l hl x hx
      rw [c2]; exact this
  | call hs u d =>
    cases hl : lookupSpecs w hs with
    | none =>
      have hp : lookupAll (absW w) hs = none := by
        unfold absW; rw [lookupAll_map]; unfold lookupSpecs at hl; rw [hl]; rfl
      refine ⟨?_, ?_, ?_, ?_, ?_, ?_⟩ <;> simp only [step, pstep, hl, hp]
      · exact hi
      · intros; first | trivial | exact ⟨rfl, rfl⟩
      · exact Nat.le_refl _
      · exact ⟨[], by simp⟩
    | some ss =>
      have hp : lookupAll (absW w) hs = some (ss.map (absS w)) := by
        unfold absW; rw [lookupAll_map]; unfold lookupSpecs at hl; rw [hl]; rfl
      have hmem : ∀ s ∈ ss, s.t < w.next ∧ s.e < w.next :=
        fun s hs' => hi s (lookupAll_mem w.specs hs ss hl s hs')
      cases u with
      | none =>
        obtain ⟨c1, c2, c3, c4, c5⟩ := callCore_copy P w ss d (factorsOf ss) hmem
        refine StepSim.ofPublish P w _ _ (pureCall P (ss.map (absS w)) d (pFactorsOf (ss.map (absS w))))
          (by simp only [step, hl]) (by simp only [pstep, hp]) hi c3 (by rw [c2]; omega) c4
          (by rw [c1, factorsOf_abs]) ?_
        intro l hl' x hx
        have := c5 l hl' x hx
        rw [c2]; exact this
      | some u =>
        have hmem' : ∀ s ∈ ss.map (applyUpd u), s.t < w.next ∧ s.e < w.next := by
          intro s hs'
          obtain ⟨s0, h0, rfl⟩ := List.mem_map.mp hs'
          exact hmem s0 h0
        have hmap : (ss.map (absS w)).map (pApplyUpd u) = (ss.map (applyUpd u)).map (absS w) := by
          simp [List.map_map, Function.comp_def, absS_applyUpd]
        obtain ⟨c1, c2, c3, c4, c5⟩ := callCore_copy P w (ss.map (applyUpd u)) d (factorsOf (ss.map (applyUpd u))) hmem'
        refine StepSim.ofPublish P w _ _ (pureCall P ((ss.map (absS w)).map (pApplyUpd u)) d
            (pFactorsOf ((ss.map (absS w)).map (pApplyUpd u))))
          (by simp only [step, hl]) (by simp only [pstep, hp]) hi c3 (by rw [c2]; omega) c4
          (by rw [c1, hmap, factorsOf_abs]) ?_
        intro l hl' x hx
        have := c5 l hl' x hx
        rw [c2]; exact this

end FormulaicVerif.Proofs.C18
